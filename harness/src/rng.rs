//! One xorshift64* state; every random choice of a run derives from it.
pub struct Rng(pub u64);

impl Rng {
    pub fn new(seed: u64) -> Rng {
        // splitmix the seed so that small seeds give unrelated streams
        let mut z = seed.wrapping_add(0x9E37_79B9_7F4A_7C15);
        z = (z ^ (z >> 30)).wrapping_mul(0xBF58_476D_1CE4_E5B9);
        z = (z ^ (z >> 27)).wrapping_mul(0x94D0_49BB_1331_11EB);
        z ^= z >> 31;
        Rng(if z == 0 { 0x1234_5678_9ABC_DEF1 } else { z })
    }
    pub fn next(&mut self) -> u64 {
        let mut x = self.0;
        x ^= x >> 12;
        x ^= x << 25;
        x ^= x >> 27;
        self.0 = x;
        x.wrapping_mul(0x2545_F491_4F6C_DD1D)
    }
    /// uniform in [0, n)
    pub fn below(&mut self, n: u64) -> u64 {
        if n == 0 {
            0
        } else {
            self.next() % n
        }
    }
    /// uniform in [lo, hi] (inclusive), i64
    pub fn range(&mut self, lo: i64, hi: i64) -> i64 {
        let span = (hi as i128 - lo as i128 + 1) as u128;
        let r = ((self.next() as u128) << 64 | self.next() as u128) % span;
        (lo as i128 + r as i128) as i64
    }
    pub fn chance(&mut self, num: u64, den: u64) -> bool {
        self.below(den) < num
    }
    pub fn pick<'a, T>(&mut self, xs: &'a [T]) -> &'a T {
        &xs[self.below(xs.len() as u64) as usize]
    }
}
