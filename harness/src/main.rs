//! jvharness — the Rust side of the correspondence check (DESIGN.md §6).
//!
//!   jvharness gen <property> <count> <seed>      request lines on stdout, strata on stderr
//!   jvharness run <resolved-out> <answers-out>   requests on stdin, answered by the real code
//!   jvharness direct <property> <count> <seed>   model-free predicates on the real code
//!   jvharness sweep <property> <shard> <nshards> exhaustive model-free sweeps over all 2^32 values

mod direct;
mod gen;
mod oracle;
mod rng;
mod run;
mod sweep;

use std::io::{BufRead, BufWriter, Write};

fn main() {
    let args: Vec<String> = std::env::args().collect();
    if args.get(1).map(String::as_str) != Some("gen") {
        // silence the default panic message: panics are caught per request and reported
        std::panic::set_hook(Box::new(|_| {}));
    }
    match args.get(1).map(String::as_str) {
        Some("gen") => {
            let prop = &args[2];
            let count: usize = args[3].parse().expect("count");
            let seed: u64 = args[4].parse().expect("seed");
            let mut g = gen::Gen::new(seed);
            let out = std::io::stdout();
            let mut w = BufWriter::new(out.lock());
            let mut n = 0;
            let mut buf = Vec::new();
            while n < count {
                buf.clear();
                gen::emit(prop, &mut g, &mut buf);
                if buf.is_empty() {
                    break;
                }
                for l in &buf {
                    writeln!(w, "{l}").unwrap();
                    n += 1;
                }
            }
            w.flush().unwrap();
            let strata: Vec<String> = g.strata.iter().map(|(k, v)| format!("{k}={v}")).collect();
            eprintln!("STRATA {}", strata.join(" "));
            eprintln!("DICT {}", g.dict.len());
        }
        Some("run") => {
            let mut resolved = BufWriter::new(std::fs::File::create(&args[2]).expect("resolved-out"));
            let mut answers = BufWriter::new(std::fs::File::create(&args[3]).expect("answers-out"));
            let stdin = std::io::stdin();
            for line in stdin.lock().lines() {
                let line = line.expect("stdin");
                let (req, ans) = run::answer(&line);
                writeln!(resolved, "{req}").unwrap();
                writeln!(answers, "{ans}").unwrap();
            }
            resolved.flush().unwrap();
            answers.flush().unwrap();
        }
        Some("direct") => {
            let prop = &args[2];
            let count: usize = args[3].parse().expect("count");
            let seed: u64 = args[4].parse().expect("seed");
            let code = direct::run(prop, count, seed);
            std::process::exit(code);
        }
        Some("sweep") => {
            let prop = &args[2];
            let shard: u64 = args[3].parse().expect("shard");
            let nshards: u64 = args[4].parse().expect("nshards");
            std::process::exit(sweep::run(prop, shard, nshards));
        }
        _ => {
            eprintln!("usage: jvharness gen|run|direct|sweep ...");
            std::process::exit(2);
        }
    }
}
