//! Answers one request line by calling the real library (or the real binary).
//! The answer formats are exactly those of lean/Driver.lean.

use julian::errors::{DateError, ParseDateError, ReformingError};
use julian::iter::MonthIter;
use julian::{Calendar, Date, Month, MonthKind, MonthShape, Weekday, YearKind};
use std::collections::hash_map::DefaultHasher;
use std::hash::{Hash, Hasher};
use std::time::{Duration, SystemTime, UNIX_EPOCH};

pub fn cal_tok(c: &Calendar) -> String {
    if *c == Calendar::JULIAN {
        "J".into()
    } else if *c == Calendar::GREGORIAN {
        "G".into()
    } else {
        format!("R{}", c.reformation().map_or("?".into(), |r| r.to_string()))
    }
}

pub fn show_date(d: &Date) -> String {
    format!(
        "{}/{}/{}/{}/{}/{}/{}",
        d.year(),
        d.ordinal(),
        d.month().number(),
        d.day(),
        d.day_ordinal(),
        d.julian_day_number(),
        cal_tok(&d.calendar())
    )
}

fn show_opt_date(d: &Option<Date>) -> String {
    match d {
        Some(d) => show_date(d),
        None => "none".into(),
    }
}

fn show_date_error(e: &DateError) -> String {
    match *e {
        DateError::Arithmetic => "E:Arithmetic".into(),
        DateError::DayOutOfRange {
            year,
            month,
            day,
            min_day,
            max_day,
        } => format!("E:DayOutOfRange/{year}/{}/{day}/{min_day}/{max_day}", month.number()),
        DateError::OrdinalOutOfRange {
            year,
            ordinal,
            max_ordinal,
        } => format!("E:OrdinalOutOfRange/{year}/{ordinal}/{max_ordinal}"),
        DateError::SkippedDate { year, month, day } => {
            format!("E:SkippedDate/{year}/{}/{day}", month.number())
        }
        // a variant this harness does not know (the enums may grow): shown as it prints itself, so that
        // an addition that is never returned changes nothing and one that is returned shows up
        #[allow(unreachable_patterns)]
        ref other => format!("E:other/{other:?}"),
    }
}

fn show_date_res(r: &Result<Date, DateError>) -> String {
    match r {
        Ok(d) => show_date(d),
        Err(e) => show_date_error(e),
    }
}

fn show_parse_err(e: &ParseDateError) -> String {
    match e {
        ParseDateError::InvalidDate(e) => format!("P:InvalidDate:{}", show_date_error(e)),
        ParseDateError::InvalidMonth { value } => format!("P:InvalidMonth/{value}"),
        ParseDateError::Trailing => "P:Trailing".into(),
        ParseDateError::InvalidIntStart { got } => format!("P:InvalidIntStart/{}", *got as u32),
        ParseDateError::InvalidUIntStart { got } => format!("P:InvalidUIntStart/{}", *got as u32),
        ParseDateError::EmptyInt => "P:EmptyInt".into(),
        ParseDateError::UnexpectedChar { expected, got } => {
            format!("P:UnexpectedChar/{}/{}", *expected as u32, *got as u32)
        }
        ParseDateError::UnexpectedEnd { expected } => format!("P:UnexpectedEnd/{}", *expected as u32),
        ParseDateError::ParseInt(_) => "P:ParseInt".into(),
        #[allow(unreachable_patterns)]
        other => format!("P:other/{other:?}"),
    }
}

fn show_year_kind(k: YearKind) -> &'static str {
    match k {
        YearKind::Common => "Common",
        YearKind::Leap => "Leap",
        YearKind::ReformCommon => "ReformCommon",
        YearKind::ReformLeap => "ReformLeap",
        YearKind::Skipped => "Skipped",
        #[allow(unreachable_patterns)]
        _ => "OtherYearKind",
    }
}

fn show_month_kind(k: MonthKind) -> &'static str {
    match k {
        MonthKind::Normal => "Normal",
        MonthKind::Headless => "Headless",
        MonthKind::Tailless => "Tailless",
        MonthKind::Gapped => "Gapped",
        #[allow(unreachable_patterns)]
        _ => "OtherMonthKind",
    }
}

fn show_ord(o: std::cmp::Ordering) -> &'static str {
    match o {
        std::cmp::Ordering::Less => "lt",
        std::cmp::Ordering::Equal => "eq",
        std::cmp::Ordering::Greater => "gt",
    }
}

fn show_opt<T: ToString>(x: Option<T>) -> String {
    match x {
        Some(v) => v.to_string(),
        None => "-".into(),
    }
}

fn b01(b: bool) -> &'static str {
    if b {
        "1"
    } else {
        "0"
    }
}

pub fn hex_of_bytes(bs: &[u8]) -> String {
    let mut s = String::with_capacity(bs.len() * 2);
    for b in bs {
        s.push_str(&format!("{b:02x}"));
    }
    s
}

pub fn hex_enc(s: &str) -> String {
    format!("x{}", hex_of_bytes(s.as_bytes()))
}

pub fn hex_dec_bytes(tok: &str) -> Option<Vec<u8>> {
    let h = tok.strip_prefix('x')?;
    if h.len() % 2 != 0 {
        return None;
    }
    let b = h.as_bytes();
    let mut out = Vec::with_capacity(b.len() / 2);
    for i in (0..b.len()).step_by(2) {
        let hv = |c: u8| -> Option<u8> {
            match c {
                b'0'..=b'9' => Some(c - b'0'),
                b'a'..=b'f' => Some(c - b'a' + 10),
                _ => None,
            }
        };
        out.push(hv(b[i])? * 16 + hv(b[i + 1])?);
    }
    Some(out)
}

fn hex_dec(tok: &str) -> Option<String> {
    String::from_utf8(hex_dec_bytes(tok)?).ok()
}

pub fn hash_pub<T: Hash>(x: &T) -> u64 {
    hash_of(x)
}

fn hash_of<T: Hash>(x: &T) -> u64 {
    let mut h = DefaultHasher::new();
    x.hash(&mut h);
    h.finish()
}

pub fn cal_of_tok(t: &str) -> Result<Calendar, String> {
    match t {
        "J" => Ok(Calendar::JULIAN),
        "G" => Ok(Calendar::GREGORIAN),
        "X" => Ok(Calendar::REFORM1582),
        _ => {
            let r: i32 = t.strip_prefix('R').and_then(|s| s.parse().ok()).ok_or("BADREQ")?;
            match Calendar::reforming(r) {
                Ok(c) => Ok(c),
                Err(ReformingError::InvalidReformation) => Err("BADCAL:InvalidReformation".into()),
                Err(ReformingError::Arithmetic) => Err("BADCAL:Arithmetic".into()),
                #[allow(unreachable_patterns)]
                Err(other) => Err(format!("BADCAL:other/{other:?}")),
            }
        }
    }
}

fn month_of_tok(t: &str) -> Option<Month> {
    Month::try_from(t.parse::<i64>().ok()?).ok()
}

fn join<T: AsRef<str>>(v: &[T], sep: &str) -> String {
    v.iter().map(|s| s.as_ref()).collect::<Vec<_>>().join(sep)
}

fn boundary(c: &Calendar) -> String {
    format!(
        "{} {} {} {} {}",
        show_opt_date(&c.last_julian_date()),
        show_opt_date(&c.first_gregorian_date()),
        show_opt(c.reformation()),
        b01(c.is_reforming()),
        b01(c.is_proleptic())
    )
}

fn show_shape(s: &MonthShape) -> String {
    let gap = match s.gap() {
        Some(r) => format!("{}..{}", r.start(), r.end()),
        None => "-".into(),
    };
    let days = s.days();
    let nd = days.len();
    let fwd: Vec<String> = s.days().map(|d| d.to_string()).collect();
    let bwd: Vec<String> = s.days().rev().map(|d| d.to_string()).collect();
    let dates = s.dates();
    let ndt = dates.len();
    let dts: Vec<String> = s.dates().map(|d| show_date(&d)).collect();
    format!(
        "{} {} {} {} {} {} {} {} {} {}",
        show_month_kind(s.kind()),
        s.len(),
        s.first_day(),
        s.last_day(),
        gap,
        nd,
        join(&fwd, ","),
        join(&bwd, ","),
        ndt,
        join(&dts, ",")
    )
}

fn width_conv_month(w: &str, n: &str) -> String {
    macro_rules! go {
        ($t:ty) => {
            match n.parse::<$t>() {
                Ok(v) => show_opt(Month::try_from(v).ok().map(|m| m.number())),
                Err(_) => "SKIP".into(),
            }
        };
    }
    match w {
        "i8" => go!(i8),
        "i16" => go!(i16),
        "i32" => go!(i32),
        "i64" => go!(i64),
        "i128" => go!(i128),
        "isize" => go!(isize),
        "u8" => go!(u8),
        "u16" => go!(u16),
        "u32" => go!(u32),
        "u64" => go!(u64),
        "u128" => go!(u128),
        "usize" => go!(usize),
        _ => "BADREQ".into(),
    }
}

fn width_conv_wd(w: &str, n: &str) -> String {
    macro_rules! go {
        ($t:ty) => {
            match n.parse::<$t>() {
                Ok(v) => show_opt(Weekday::try_from(v).ok().map(|m| m.number())),
                Err(_) => "SKIP".into(),
            }
        };
    }
    match w {
        "i8" => go!(i8),
        "i16" => go!(i16),
        "i32" => go!(i32),
        "i64" => go!(i64),
        "i128" => go!(i128),
        "isize" => go!(isize),
        "u8" => go!(u8),
        "u16" => go!(u16),
        "u32" => go!(u32),
        "u64" => go!(u64),
        "u128" => go!(u128),
        "usize" => go!(usize),
        _ => "BADREQ".into(),
    }
}

/// the number of a month or weekday is documented to be its enumeration discriminant as well
/// ("also available … by casting"): a value whose cast says something else is shown as such
fn num_and_cast(number: u32, cast: u32) -> String {
    if number == cast {
        number.to_string()
    } else {
        format!("{number}!cast={cast}")
    }
}

fn names_line() -> String {
    let ms: Vec<String> = MonthIter::new()
        .map(|m| {
            format!(
                "{}:{}:{:#}:{}:{}:{}",
                num_and_cast(m.number(), m as u32),
                m,
                m,
                m.number0(),
                show_opt(m.pred().map(|x| x.number())),
                show_opt(m.succ().map(|x| x.number()))
            )
        })
        .collect();
    let wds = [
        Weekday::Monday,
        Weekday::Tuesday,
        Weekday::Wednesday,
        Weekday::Thursday,
        Weekday::Friday,
        Weekday::Saturday,
        Weekday::Sunday,
    ];
    let ws: Vec<String> = wds
        .iter()
        .map(|w| {
            format!(
                "{}:{}:{:#}:{}:{}:{}",
                num_and_cast(w.number(), *w as u32),
                w,
                w,
                w.number0(),
                show_opt(w.pred().map(|x| x.number())),
                show_opt(w.succ().map(|x| x.number()))
            )
        })
        .collect();
    // name()/short_name() must agree with Display
    for m in MonthIter::new() {
        assert_eq!(m.name(), m.to_string());
        assert_eq!(m.short_name(), format!("{m:#}"));
    }
    for w in wds {
        assert_eq!(w.name(), w.to_string());
        assert_eq!(w.short_name(), format!("{w:#}"));
    }
    format!("{} {}", join(&ms, ","), join(&ws, ","))
}

fn mk_system_time(before: bool, secs: u64, nanos: u32) -> Option<SystemTime> {
    let d = Duration::new(secs, nanos);
    if before {
        UNIX_EPOCH.checked_sub(d)
    } else {
        UNIX_EPOCH.checked_add(d)
    }
}

/// the comparison operators and the provided methods of PartialOrd / Ord / PartialEq must all
/// say what `cmp` says (an impl may override any of them); a failure is a panic, i.e. a mismatch
fn ops_agree<T: Ord + Copy + std::fmt::Debug>(x: T, y: T) {
    use std::cmp::Ordering::*;
    let o = x.cmp(&y);
    assert_eq!(x.partial_cmp(&y), Some(o));
    assert_eq!(x < y, o == Less, "lt");
    assert_eq!(x <= y, o != Greater, "le");
    assert_eq!(x > y, o == Greater, "gt");
    assert_eq!(x >= y, o != Less, "ge");
    assert_eq!(x != y, !(x == y), "ne");
    assert_eq!(y.cmp(&x), o.reverse(), "antisymmetry");
    assert!(x.max(y) == if o == Greater { x } else { y }, "max");
    assert!(x.min(y) == if o == Greater { y } else { x }, "min");
    assert!(x.clamp(x.min(y), x.max(y)) == x, "clamp");
}

/// an open-ended iterator driven through `next` and through methods the Iterator trait
/// provides on top of it (an impl may override any of them).  C, Z, X, W walk a clone to its
/// end, so the generator uses them only within a few days of the range limit.
fn iterx_run<I: Iterator<Item = Date> + Clone>(mut it: I, ops: &str) -> String {
    let mut out: Vec<String> = Vec::new();
    for o in ops.chars() {
        match o {
            'x' => out.push(show_opt_date(&it.next())),
            'n' => out.push(show_opt_date(&it.nth(1))),
            'm' => out.push(show_opt_date(&it.nth(5))),
            'k' => out.push(show_opt_date(&it.nth(40))),
            'g' => out.push(show_opt_date(&it.nth(27))),
            'y' => out.push(show_opt_date(&it.nth(364))),
            'Y' => out.push(show_opt_date(&it.nth(365))),
            'q' => out.push(show_opt_date(&it.nth(1460))),
            'S' => {
                let mut sb = it.by_ref().step_by(7);
                out.push(show_opt_date(&sb.next()));
                out.push(show_opt_date(&sb.next()));
            }
            'C' => out.push(format!("c{}", it.clone().count())),
            'Z' => out.push(show_opt_date(&it.clone().last())),
            'X' => out.push(show_opt_date(&it.clone().max())),
            'W' => out.push(show_opt_date(&it.clone().min())),
            'H' => {
                let (lo, hi) = it.size_hint();
                let n = it.clone().take(100).count();
                out.push(format!("h{}", b01(lo <= n && hi.map_or(true, |h| n <= h || n == 100))));
            }
            _ => {}
        }
    }
    join(&out, " ")
}

fn hist_step(d: &Date, op: &str) -> Result<Date, String> {
    let c = d.calendar();
    match op {
        "s" => d.succ().ok_or_else(|| "none".to_string()),
        "p" => d.pred().ok_or_else(|| "none".to_string()),
        "y" => c.at_ymd(d.year(), d.month(), d.day()).map_err(|e| show_date_error(&e)),
        "o" => c.at_ordinal_date(d.year(), d.ordinal()).map_err(|e| show_date_error(&e)),
        "t" => c.parse_date(&d.to_string()).map_err(|e| show_parse_err(&e)),
        "T" => c.parse_date(&format!("{d:#}")).map_err(|e| show_parse_err(&e)),
        "n" => match c.month_shape(d.year(), d.month()) {
            Some(s) => s.nth_date(d.day_ordinal()).ok_or_else(|| "none".to_string()),
            None => Err("noshape".into()),
        },
        "l" => c.last_julian_date().ok_or_else(|| "none".to_string()),
        "g" => c.first_gregorian_date().ok_or_else(|| "none".to_string()),
        "j" => Ok(c.at_jdn(d.julian_day_number())),
        "L" => d.later().next().ok_or_else(|| "none".to_string()),
        "E" => d.earlier().next().ok_or_else(|| "none".to_string()),
        "A" => d.and_later().next().ok_or_else(|| "none".to_string()),
        "a" => d.and_earlier().next().ok_or_else(|| "none".to_string()),
        "L3" => d.later().nth(3).ok_or_else(|| "none".to_string()),
        "L9" => d.later().nth(9).ok_or_else(|| "none".to_string()),
        "E3" => d.earlier().nth(3).ok_or_else(|| "none".to_string()),
        "E9" => d.earlier().nth(9).ok_or_else(|| "none".to_string()),
        "A3" => d.and_later().nth(3).ok_or_else(|| "none".to_string()),
        "A9" => d.and_later().nth(9).ok_or_else(|| "none".to_string()),
        "a3" => d.and_earlier().nth(3).ok_or_else(|| "none".to_string()),
        "a9" => d.and_earlier().nth(9).ok_or_else(|| "none".to_string()),
        "LS" => d.later().step_by(7).nth(1).ok_or_else(|| "none".to_string()),
        "AS" => d.and_later().skip(7).next().ok_or_else(|| "none".to_string()),
        "Df" => match c.month_shape(d.year(), d.month()) {
            Some(s) => s.dates().next().ok_or_else(|| "none".to_string()),
            None => Err("noshape".into()),
        },
        "Dl" => match c.month_shape(d.year(), d.month()) {
            Some(s) => s.dates().next_back().ok_or_else(|| "none".to_string()),
            None => Err("noshape".into()),
        },
        "F" => chrono::NaiveDate::try_from(*d).map(Date::from).map_err(|_| "E".to_string()),
        "f" => time::Date::try_from(*d).map(Date::from).map_err(|_| "E".to_string()),
        "u" => c
            .at_unix_time(julian::jdn2unix(d.julian_day_number()) + 43200)
            .map(|(x, _)| x)
            .map_err(|_| "E:Arithmetic".to_string()),
        _ => {
            let t = op.strip_prefix('c').ok_or("BADREQ")?;
            let c2 = cal_of_tok(t)?;
            Ok(d.convert_to(c2))
        }
    }
}

fn show_from_chrono(y: i32, m: u32, d: u32) -> String {
    use chrono::Datelike;
    match chrono::NaiveDate::from_ymd_opt(y, m, d) {
        None => "invalid".into(),
        Some(nd) => {
            let date = Date::from(nd);
            let rd = i64::from(nd.num_days_from_ce()) + i64::from(julian::RATA_DIE_ZERO_JDN)
                == i64::from(date.julian_day_number());
            format!("{} rd={}", show_date(&date), b01(rd))
        }
    }
}

fn show_from_time(y: i32, m: u32, d: u32) -> String {
    let Ok(m8) = u8::try_from(m) else { return "invalid".into() };
    let Ok(tm) = time::Month::try_from(m8) else { return "invalid".into() };
    let Ok(d8) = u8::try_from(d) else { return "invalid".into() };
    match time::Date::from_calendar_date(y, tm, d8) {
        Err(_) => "invalid".into(),
        Ok(td) => {
            let date = Date::from(td);
            let rd = td.to_julian_day() == date.julian_day_number();
            format!("{} rd={}", show_date(&date), b01(rd))
        }
    }
}

/// today's Julian day number from the system clock, computed independently
pub fn today_jdn() -> i64 {
    let secs = SystemTime::now().duration_since(UNIX_EPOCH).map_or(0, |d| d.as_secs() as i64);
    secs.div_euclid(86400) + 2440588
}

fn run_cli(argv: &[Vec<u8>]) -> (i64, String) {
    use std::os::unix::ffi::OsStringExt;
    use std::os::unix::process::ExitStatusExt;
    if argv.iter().any(|a| a.contains(&0)) {
        // a NUL byte cannot be passed in argv
        return (0, "SKIP".into());
    }
    let bin = std::env::var("JULIAN_BIN").unwrap_or_else(|_| "/verif/build/cli/debug/julian".into());
    loop {
        let before = today_jdn();
        // standard input is not part of the command's interface: it is given a few lines that would
        // be valid arguments, and the answers must be what they are with nothing to read
        // the name the command is started under is part of its argument vector too: most runs use
        // the path of the binary, some a name that is empty, not UTF-8, or unrelated (chosen by the
        // arguments, so that a replay starts it the same way)
        let mut cmd = std::process::Command::new(&bin);
        {
            use std::os::unix::process::CommandExt;
            let h = argv.iter().flatten().fold(argv.len() as u64, |h, b| h.wrapping_mul(1099511628211).wrapping_add(u64::from(*b)));
            match h % 16 {
                0 => { cmd.arg0(std::ffi::OsString::from_vec(b"\xffjulian".to_vec())); }
                1 => { cmd.arg0(std::ffi::OsString::from_vec(b"/opt/\xe9t\xe9/julian".to_vec())); }
                2 => { cmd.arg0(""); }
                3 => { cmd.arg0("-h"); }
                4 => { cmd.arg0("x".repeat(5000)); }
                // nor is the environment part of the interface: the clock is the system clock, the
                // calendar is the one the options select, the output is not localised
                5 | 6 => {
                    cmd.env("SOURCE_DATE_EPOCH", "0").env("TZ", "Pacific/Kiritimati").env("LANG", "tr_TR.UTF-8")
                        .env("LC_ALL", "tr_TR.UTF-8").env("JULIAN_REFORMATION", "2361222").env("JULIAN_CALENDAR", "julian")
                        .env("JULIAN_OPTS", "-j -J").env("COLUMNS", "1").env("NO_COLOR", "1").env("RUST_LOG", "trace");
                }
                7 => { cmd.env_clear(); }
                _ => {}
            }
        }
        let mut child = cmd
            .args(argv.iter().map(|a| std::ffi::OsString::from_vec(a.clone())))
            .env_remove("RUST_BACKTRACE")
            .stdin(std::process::Stdio::piped())
            .stdout(std::process::Stdio::piped())
            .stderr(std::process::Stdio::piped())
            .spawn()
            .expect("spawning the julian binary");
        if let Some(mut si) = child.stdin.take() {
            use std::io::Write;
            let _ = si.write_all(b"2299161 1582-10-04\n-j 2440588\n");
        }
        let out = child.wait_with_output().expect("waiting for the julian binary");
        let after = today_jdn();
        if before != after {
            continue;
        }
        let code = match out.status.code() {
            Some(c) => c as i64,
            None => 1000 + out.status.signal().unwrap_or(0) as i64,
        };
        let so = out.stdout;
        let ans = if code == 101 || code >= 1000 {
            format!("exit={code}")
        } else if code == 0 && so.starts_with(b"Usage: julian") {
            format!("exit=0 HELP{}", if out.stderr.is_empty() { "" } else { " err=1" })
        } else if code == 0 && so.starts_with(b"julian-cli ") {
            format!("exit=0 VERSION{}", if out.stderr.is_empty() { "" } else { " err=1" })
        } else {
            // "a non-zero status": which one is not part of any property
            let code = i64::from(code != 0);
            format!("exit={code} out=x{} err={}", hex_of_bytes(&so), b01(!out.stderr.is_empty()))
        };
        return (before, ans);
    }
}

/// Returns (resolved request, answer).
pub fn answer(line: &str) -> (String, String) {
    let toks: Vec<&str> = line.split(' ').collect();
    if toks.first() == Some(&"cli") && toks.len() >= 2 {
        let mut argv = Vec::new();
        for t in &toks[2..] {
            match hex_dec_bytes(t) {
                Some(b) => argv.push(b),
                None => return (line.to_string(), "BADREQ".into()),
            }
        }
        let (today, ans) = run_cli(&argv);
        let mut resolved = vec!["cli".to_string(), format!("@{today}")];
        resolved.extend(toks[2..].iter().map(|s| s.to_string()));
        return (resolved.join(" "), ans);
    }
    let l = line.to_string();
    let r = std::panic::catch_unwind(move || answer_lib(&l));
    (line.to_string(), r.unwrap_or_else(|_| "PANIC".into()))
}

macro_rules! p {
    ($e:expr) => {
        match $e {
            Some(v) => v,
            None => return "BADREQ".into(),
        }
    };
}

macro_rules! cal {
    ($t:expr) => {
        match cal_of_tok($t) {
            Ok(c) => c,
            Err(e) => return e,
        }
    };
}

fn answer_lib(line: &str) -> String {
    let toks: Vec<&str> = line.split(' ').collect();
    match toks.as_slice() {
        ["reforming", r] => {
            let r: i32 = p!(r.parse().ok());
            match Calendar::reforming(r) {
                Ok(c) => format!("OK {}", boundary(&c)),
                Err(ReformingError::InvalidReformation) => "E:InvalidReformation".into(),
                Err(ReformingError::Arithmetic) => "E:Arithmetic".into(),
                #[allow(unreachable_patterns)]
                Err(other) => format!("E:other/{other:?}"),
            }
        }
        ["boundary", ct] => boundary(&cal!(ct)),
        ["ref1582"] => {
            let c = Calendar::REFORM1582;
            let c2 = Calendar::reforming(2299161);
            let same = match c2 {
                Ok(c2) => format!("{c:?}") == format!("{c2:?}") && c == c2 && hash_of(&c) == hash_of(&c2),
                Err(_) => false,
            } && julian::REFORM1582_JDN == 2299161;
            format!("{} same={}", boundary(&c), b01(same))
        }
        ["at_jdn", ct, j] => {
            let c = cal!(ct);
            let j: i32 = p!(j.parse().ok());
            let d = c.at_jdn(j);
            // the accessors too: zero-based ordinals and the style flags (on every kind of calendar)
            format!(
                "{} o0={} d0={} os={} ns={}",
                show_date(&d),
                d.ordinal0(),
                d.day_ordinal0(),
                b01(d.is_julian()),
                b01(d.is_gregorian())
            )
        }
        ["at_ymd", ct, y, m, d] => {
            let c = cal!(ct);
            let y: i32 = p!(y.parse().ok());
            let m = p!(month_of_tok(m));
            let d: u32 = p!(d.parse().ok());
            show_date_res(&c.at_ymd(y, m, d))
        }
        ["at_ord", ct, y, o] => {
            let c = cal!(ct);
            let y: i32 = p!(y.parse().ok());
            let o: u32 = p!(o.parse().ok());
            show_date_res(&c.at_ordinal_date(y, o))
        }
        ["year", ct, y] => {
            let c = cal!(ct);
            let y: i32 = p!(y.parse().ok());
            let k = c.year_kind(y);
            // the is_* predicates are functions of the kind; check them here
            assert_eq!(k.is_common(), matches!(k, YearKind::Common | YearKind::ReformCommon));
            assert_eq!(k.is_leap(), matches!(k, YearKind::Leap | YearKind::ReformLeap));
            assert_eq!(k.is_reform(), matches!(k, YearKind::ReformCommon | YearKind::ReformLeap));
            assert_eq!(k.is_skipped(), matches!(k, YearKind::Skipped));
            format!("{} {}", show_year_kind(k), c.year_length(y))
        }
        ["yearsum", ct, y] => {
            let c = cal!(ct);
            let y: i32 = p!(y.parse().ok());
            let sum: u64 = MonthIter::new().map(|m| c.month_shape(y, m).map_or(0, |s| u64::from(s.len()))).sum();
            format!("{} {} {}", show_year_kind(c.year_kind(y)), c.year_length(y), sum)
        }
        ["shape", ct, y, m] => {
            let c = cal!(ct);
            let y: i32 = p!(y.parse().ok());
            let m = p!(month_of_tok(m));
            match c.month_shape(y, m) {
                None => "none".into(),
                Some(s) => {
                    assert!(s.calendar() == c && s.year() == y && s.month() == m);
                    show_shape(&s)
                }
            }
        }
        ["fmt_flags", ct, j, y, m, d] => {
            // formatting under every kind of format flag must return normally (C05); what the
            // flags do to the text is not fixed by any property, so only "OK" is reported
            let c = cal!(ct);
            let j: i32 = p!(j.parse().ok());
            let y: i32 = p!(y.parse().ok());
            let mo = p!(month_of_tok(m));
            let dd: u32 = p!(d.parse().ok());
            let date = c.at_jdn(j);
            macro_rules! all_specs {
                ($v:expr) => {{
                    let v = $v;
                    let mut n = 0usize;
                    n += format!("{v}").len();
                    n += format!("{v:#}").len();
                    n += format!("{v:14}").len();
                    n += format!("{v:>14}").len();
                    n += format!("{v:<3}").len();
                    n += format!("{v:^20}").len();
                    n += format!("{v:*^16}").len();
                    n += format!("{v:#12}").len();
                    n += format!("{v:1}").len();
                    n += format!("{v:0}").len();
                    n += format!("{v:.3}").len();
                    n += format!("{v:.0}").len();
                    n += format!("{v:#>30.2}").len();
                    n += format!("{v:300}").len();
                    n += format!("{v:?}").len();
                    n += format!("{v:#?}").len();
                    n
                }};
            }
            let mut n = all_specs!(date);
            n += all_specs!(date.month());
            n += all_specs!(date.weekday());
            n += format!("{c:?}{c:#?}{c:30?}").len();
            if let Err(e) = c.at_ymd(y, mo, dd) {
                n += all_specs!(e);
            }
            if let Err(e) = c.at_ordinal_date(y, dd) {
                n += all_specs!(e);
            }
            if let Err(e) = c.parse_date(&format!("{y}-{}-x{dd}", mo.number())) {
                n += all_specs!(e);
            }
            if let Err(e) = Calendar::reforming(j) {
                n += all_specs!(e);
            }
            if let Some(s) = c.month_shape(y, mo) {
                n += format!("{s:?}{:?}{:?}", s.days(), s.dates()).len();
                // the iterators in every state a user can bring them to: partly consumed from either
                // end, exhausted (a hand-written Debug may look at items that are no longer there)
                let (mut ds, mut dt) = (s.days(), s.dates());
                ds.next();
                dt.next_back();
                n += format!("{ds:?}{dt:?}{ds:#?}{dt:#?}").len();
                while ds.next_back().is_some() {}
                while dt.next().is_some() {}
                n += format!("{ds:?}{dt:?}").len();
                let mut mi = julian::iter::MonthIter::new();
                mi.next_back();
                n += format!("{mi:?}").len();
                while mi.next().is_some() {}
                n += format!("{mi:?}").len();
                let d0 = c.at_jdn(j);
                n += format!("{:?}{:?}{:?}{:?}", d0.later(), d0.earlier(), d0.and_later(), d0.and_earlier()).len();
            }
            let _ = n;
            "OK".into()
        }
        ["shape_eq", c1, y1, m1, c2, y2, m2] => {
            let a = cal!(c1);
            let b = cal!(c2);
            let y1: i32 = p!(y1.parse().ok());
            let y2: i32 = p!(y2.parse().ok());
            let sa = a.month_shape(y1, p!(month_of_tok(m1)));
            let sb = b.month_shape(y2, p!(month_of_tok(m2)));
            let eq = sa == sb;
            // every way of asking says the same
            assert_eq!(eq, !(sa != sb));
            assert_eq!(eq, sb == sa);
            if let (Some(x), Some(y)) = (sa, sb) {
                assert_eq!(eq, x == y);
                assert_eq!(eq, x.days() == y.days(), "Days of equal shapes");
                assert_eq!(eq, x.dates() == y.dates(), "Dates of equal shapes");
                if eq {
                    // equal shapes are observably the same
                    assert!(x.calendar() == y.calendar() && x.year() == y.year() && x.month() == y.month());
                    assert!(x.len() == y.len() && x.kind() == y.kind() && x.gap() == y.gap());
                    assert!(x.days().collect::<Vec<_>>() == y.days().collect::<Vec<_>>());
                }
            }
            format!("{} {}", b01(eq), b01(hash_of(&sa) == hash_of(&sb)))
        }
        ["shapeq", ct, y, m, x] => {
            let c = cal!(ct);
            let y: i32 = p!(y.parse().ok());
            let m = p!(month_of_tok(m));
            let x: u32 = p!(x.parse().ok());
            match c.month_shape(y, m) {
                None => "none".into(),
                Some(s) => format!(
                    "{} {} {} {}",
                    b01(s.contains(x)),
                    show_opt(s.day_ordinal(x)),
                    show_opt(s.nth_day(x)),
                    show_opt_date(&s.nth_date(x))
                ),
            }
        }
        ["succ", ct, j] => {
            let c = cal!(ct);
            let j: i32 = p!(j.parse().ok());
            show_opt_date(&c.at_jdn(j).succ())
        }
        ["pred", ct, j] => {
            let c = cal!(ct);
            let j: i32 = p!(j.parse().ok());
            show_opt_date(&c.at_jdn(j).pred())
        }
        ["walk", ct, j, n] => {
            let c = cal!(ct);
            let j: i32 = p!(j.parse().ok());
            let n: i64 = p!(n.parse().ok());
            let mut d = c.at_jdn(j);
            let mut out = Vec::new();
            for _ in 0..n.unsigned_abs() {
                match if n >= 0 { d.succ() } else { d.pred() } {
                    Some(x) => {
                        out.push(show_date(&x));
                        d = x;
                    }
                    None => {
                        out.push("none".into());
                        break;
                    }
                }
            }
            join(&out, " ")
        }
        ["iter", k, ct, j, n] => {
            let c = cal!(ct);
            let j: i32 = p!(j.parse().ok());
            let n: usize = p!(n.parse().ok());
            let d = c.at_jdn(j);
            let mut it: Box<dyn Iterator<Item = Date>> = match *k {
                "later" => Box::new(d.later()),
                "earlier" => Box::new(d.earlier()),
                "and_later" => Box::new(d.and_later()),
                _ => Box::new(d.and_earlier()),
            };
            let out: Vec<String> = (0..n + 2).map(|_| show_opt_date(&it.next())).collect();
            join(&out, " ")
        }
        ["iterx", k, ct, j, ops] => {
            let c = cal!(ct);
            let j: i32 = p!(j.parse().ok());
            let d = c.at_jdn(j);
            match *k {
                "later" => iterx_run(d.later(), ops),
                "earlier" => iterx_run(d.earlier(), ops),
                "and_later" => iterx_run(d.and_later(), ops),
                _ => iterx_run(d.and_earlier(), ops),
            }
        }
        ["cmp_date", c1, j1, c2, j2] => {
            let a = cal!(c1);
            let b = cal!(c2);
            let j1: i32 = p!(j1.parse().ok());
            let j2: i32 = p!(j2.parse().ok());
            let d1 = a.at_jdn(j1);
            let d2 = b.at_jdn(j2);
            ops_agree(d1, d2);
            format!("{} {} {}", show_ord(d1.cmp(&d2)), b01(d1 == d2), b01(hash_of(&d1) == hash_of(&d2)))
        }
        ["cmp_cal", c1, c2] => {
            let a = cal!(c1);
            let b = cal!(c2);
            ops_agree(a, b);
            format!("{} {} {}", show_ord(a.cmp(&b)), b01(a == b), b01(hash_of(&a) == hash_of(&b)))
        }
        ["convert", c1, j, c2] => {
            let a = cal!(c1);
            let b = cal!(c2);
            let j: i32 = p!(j.parse().ok());
            show_date(&a.at_jdn(j).convert_to(b))
        }
        ["fmt", ct, j] => {
            let c = cal!(ct);
            let j: i32 = p!(j.parse().ok());
            let d = c.at_jdn(j);
            format!("{} {}", hex_enc(&d.to_string()), hex_enc(&format!("{d:#}")))
        }
        ["parse", ct, h] => {
            let c = cal!(ct);
            let s = p!(hex_dec(h));
            match c.parse_date(&s) {
                Ok(d) => show_date(&d),
                Err(e) => show_parse_err(&e),
            }
        }
        ["prim_parse", ty, h] => {
            let s = p!(hex_dec(h));
            match *ty {
                "i32" => show_opt(s.parse::<i32>().ok()),
                "u32" => show_opt(s.parse::<u32>().ok()),
                _ => "BADREQ".into(),
            }
        }
        ["month_str", h] => {
            let s = p!(hex_dec(h));
            show_opt(s.parse::<Month>().ok().map(|m| m.number()))
        }
        ["wd_str", h] => {
            let s = p!(hex_dec(h));
            show_opt(s.parse::<Weekday>().ok().map(|m| m.number()))
        }
        ["month_int", w, n] => width_conv_month(w, n),
        ["wd_int", w, n] => width_conv_wd(w, n),
        ["names"] => names_line(),
        ["unix", t] => {
            let t: i64 = p!(t.parse().ok());
            match julian::unix2jdn(t) {
                Ok((j, s)) => format!("{j} {s}"),
                Err(_) => "E:Arithmetic".into(),
            }
        }
        ["jdn2unix", j] => {
            let j: i32 = p!(j.parse().ok());
            julian::jdn2unix(j).to_string()
        }
        ["at_unix", ct, t] => {
            let c = cal!(ct);
            let t: i64 = p!(t.parse().ok());
            match c.at_unix_time(t) {
                // `same`: the date is the calendar's own date for that day number (C14: "that day
                // expressed in that calendar") — decided against at_jdn of the same library
                Ok((d, s)) => format!("{} {s} same={}", show_date(&d), b01(d == c.at_jdn(d.julian_day_number()))),
                Err(_) => "E:Arithmetic".into(),
            }
        }
        ["system", b, s, n] => {
            let s: u64 = p!(s.parse().ok());
            let n: u32 = p!(n.parse().ok());
            match mk_system_time(*b == "b", s, n) {
                None => "UNREP".into(),
                Some(t) => match julian::system2jdn(t) {
                    Ok((j, x)) => format!("{j} {x}"),
                    Err(_) => "E:Arithmetic".into(),
                },
            }
        }
        ["at_system", ct, b, s, n] => {
            let c = cal!(ct);
            let s: u64 = p!(s.parse().ok());
            let n: u32 = p!(n.parse().ok());
            match mk_system_time(*b == "b", s, n) {
                None => "UNREP".into(),
                Some(t) => match c.at_system_time(t) {
                    Ok((d, x)) => format!("{} {x} same={}", show_date(&d), b01(d == c.at_jdn(d.julian_day_number()))),
                    Err(_) => "E:Arithmetic".into(),
                },
            }
        }
        ["weekday", j] => {
            let j: i32 = p!(j.parse().ok());
            Weekday::for_jdn(j).number().to_string()
        }
        ["date_weekday", ct, j] => {
            let c = cal!(ct);
            let j: i32 = p!(j.parse().ok());
            c.at_jdn(j).weekday().number().to_string()
        }
        ["days_ops", ct, y, m, ops] => {
            let c = cal!(ct);
            let y: i32 = p!(y.parse().ok());
            let m = p!(month_of_tok(m));
            match c.month_shape(y, m) {
                None => "none".into(),
                Some(s) => {
                    let mut it = s.days();
                    let out: Vec<String> = ops
                        .chars()
                        .map(|o| match o {
                            'f' => show_opt(it.next()),
                            'b' => show_opt(it.next_back()),
                            'n' => show_opt(it.nth(1)),
                            'm' => show_opt(it.nth(3)),
                            'N' => show_opt(it.nth_back(1)),
                            'M' => show_opt(it.nth_back(3)),
                            'c' => format!("c{}", it.clone().count()),
                            'z' => show_opt(it.clone().last()),
                            'r' => show_opt(it.clone().rev().last()),
                            'x' => show_opt(it.clone().max()),
                            'w' => show_opt(it.clone().min()),
                            _ => {
                                assert_eq!(it.size_hint(), (it.len(), Some(it.len())));
                                format!("l{}", it.len())
                            }
                        })
                        .collect();
                    join(&out, ",")
                }
            }
        }
        ["dates_ops", ct, y, m, ops] => {
            let c = cal!(ct);
            let y: i32 = p!(y.parse().ok());
            let m = p!(month_of_tok(m));
            match c.month_shape(y, m) {
                None => "none".into(),
                Some(s) => {
                    let mut it = s.dates();
                    let out: Vec<String> = ops
                        .chars()
                        .map(|o| match o {
                            'f' => show_opt_date(&it.next()),
                            'b' => show_opt_date(&it.next_back()),
                            'n' => show_opt_date(&it.nth(1)),
                            'm' => show_opt_date(&it.nth(3)),
                            'N' => show_opt_date(&it.nth_back(1)),
                            'M' => show_opt_date(&it.nth_back(3)),
                            'c' => format!("c{}", it.clone().count()),
                            'z' => show_opt_date(&it.clone().last()),
                            'r' => show_opt_date(&it.clone().rev().last()),
                            'x' => show_opt_date(&it.clone().max()),
                            'w' => show_opt_date(&it.clone().min()),
                            _ => {
                                assert_eq!(it.size_hint(), (it.len(), Some(it.len())));
                                format!("l{}", it.len())
                            }
                        })
                        .collect();
                    join(&out, ",")
                }
            }
        }
        ["months_ops", ops] => {
            let mut it = MonthIter::default();
            let out: Vec<String> = ops
                .chars()
                .map(|o| match o {
                    'f' => show_opt(it.next().map(|m| m.number())),
                    'b' => show_opt(it.next_back().map(|m| m.number())),
                    'n' => show_opt(it.nth(1).map(|m| m.number())),
                    'm' => show_opt(it.nth(3).map(|m| m.number())),
                    'N' => show_opt(it.nth_back(1).map(|m| m.number())),
                    'M' => show_opt(it.nth_back(3).map(|m| m.number())),
                    'c' => format!("c{}", it.clone().count()),
                    'z' => show_opt(it.clone().last().map(|m| m.number())),
                    'r' => show_opt(it.clone().rev().last().map(|m| m.number())),
                    'x' => show_opt(it.clone().max().map(|m| m.number())),
                    'w' => show_opt(it.clone().min().map(|m| m.number())),
                    _ => {
                        assert_eq!(it.size_hint(), (it.len(), Some(it.len())));
                        format!("l{}", it.len())
                    }
                })
                .collect();
            join(&out, ",")
        }
        ["hist", ct, j, ops @ ..] => {
            let c = cal!(ct);
            let j: i32 = p!(j.parse().ok());
            let mut d = c.at_jdn(j);
            let mut out = vec![show_date(&d)];
            for op in ops {
                match hist_step(&d, op) {
                    Ok(x) => {
                        out.push(show_date(&x));
                        d = x;
                    }
                    Err(e) => out.push(e),
                }
            }
            join(&out, " ")
        }
        ["cmp_hist", c1, j1, rest @ ..] => {
            let cut = p!(rest.iter().position(|t| *t == "/"));
            let ops1 = &rest[..cut];
            let [c2, j2, ops2 @ ..] = &rest[cut + 1..] else { return "BADREQ".into() };
            let a = cal!(c1);
            let b = cal!(c2);
            let j1: i32 = p!(j1.parse().ok());
            let fin = |mut d: Date, ops: &[&str]| {
                for op in ops {
                    if let Ok(x) = hist_step(&d, op) {
                        d = x;
                    }
                }
                d
            };
            let x = fin(a.at_jdn(j1), ops1);
            // `=`: the second date starts on the day the first history ended on (so that dates
            // reached by stepping and by the iterators' jumps meet the directly constructed one)
            let j2: i32 = if *j2 == "=" { x.julian_day_number() } else { p!(j2.parse().ok()) };
            let y = fin(b.at_jdn(j2), ops2);
            ops_agree(x, y);
            format!(
                "{} {} {} {} {} {} {} {}",
                show_ord(x.cmp(&y)),
                b01(x == y),
                b01(hash_of(&x) == hash_of(&y)),
                b01(show_date(&x) == show_date(&y)),
                x.julian_day_number(),
                cal_tok(&x.calendar()),
                y.julian_day_number(),
                cal_tok(&y.calendar())
            )
        }
        ["chrono_from", y, m, d] => {
            let y: i32 = p!(y.parse().ok());
            let m: u32 = p!(m.parse().ok());
            let d: u32 = p!(d.parse().ok());
            show_from_chrono(y, m, d)
        }
        ["time_from", y, m, d] => {
            let y: i32 = p!(y.parse().ok());
            let m: u32 = p!(m.parse().ok());
            let d: u32 = p!(d.parse().ok());
            show_from_time(y, m, d)
        }
        ["chrono_to", ct, j] => {
            use chrono::Datelike;
            let c = cal!(ct);
            let j: i32 = p!(j.parse().ok());
            match chrono::NaiveDate::try_from(c.at_jdn(j)) {
                Ok(nd) => format!("{} {} {}", nd.year(), nd.month(), nd.day()),
                Err(_) => "E".into(),
            }
        }
        ["time_to", ct, j] => {
            let c = cal!(ct);
            let j: i32 = p!(j.parse().ok());
            match time::Date::try_from(c.at_jdn(j)) {
                Ok(td) => format!("{} {} {}", td.year(), u8::from(td.month()), td.day()),
                Err(_) => "E".into(),
            }
        }
        ["enum_maps"] => enum_maps(),
        _ => "BADREQ".into(),
    }
}

/// chrono / time enum conversions: both directions, all values; "ok" or a description
fn enum_maps() -> String {
    let mut bad = Vec::new();
    for m in MonthIter::new() {
        let cm = chrono::Month::from(m);
        if Month::from(cm) != m || cm.number_from_month() != m.number() {
            bad.push(format!("chrono-month-{}", m.number()));
        }
        let tm = time::Month::from(m);
        if Month::from(tm) != m || u32::from(u8::from(tm)) != m.number() {
            bad.push(format!("time-month-{}", m.number()));
        }
    }
    for n in 1..=7 {
        let w = Weekday::try_from(n).unwrap();
        let cw = chrono::Weekday::from(w);
        if Weekday::from(cw) != w || cw.number_from_monday() != w.number() {
            bad.push(format!("chrono-weekday-{n}"));
        }
        let tw = time::Weekday::from(w);
        if Weekday::from(tw) != w || u32::from(tw.number_from_monday()) != w.number() {
            bad.push(format!("time-weekday-{n}"));
        }
    }
    if bad.is_empty() {
        "ok".into()
    } else {
        bad.join(",")
    }
}
