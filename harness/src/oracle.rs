//! An independent transcription of the specification (DESIGN.md §4) in i64:
//! year tiling with anchors, leap rules, month table, "Julian before R, Gregorian
//! from R on".  Used to generate mostly-valid labels and phase-targeted reformation
//! days, and by the direct predicates.  Shares no code with the library.

#[derive(Clone, Copy, PartialEq, Eq, Debug)]
pub enum Rule {
    Julian,
    Gregorian,
}

pub fn leap(rule: Rule, y: i64) -> bool {
    match rule {
        Rule::Julian => y.rem_euclid(4) == 0,
        Rule::Gregorian => y.rem_euclid(4) == 0 && (y.rem_euclid(100) != 0 || y.rem_euclid(400) == 0),
    }
}

pub fn year_len(rule: Rule, y: i64) -> i64 {
    if leap(rule, y) {
        366
    } else {
        365
    }
}

/// JDN of January 1 of year `y`
pub fn year_start(rule: Rule, y: i64) -> i64 {
    let p = y - 1;
    match rule {
        Rule::Julian => 365 * p + p.div_euclid(4) + 1721424,
        Rule::Gregorian => 365 * p + p.div_euclid(4) - p.div_euclid(100) + p.div_euclid(400) + 1721426,
    }
}

pub fn month_len(lp: bool, m: u32) -> i64 {
    match m {
        1 | 3 | 5 | 7 | 8 | 10 | 12 => 31,
        4 | 6 | 9 | 11 => 30,
        _ => {
            if lp {
                29
            } else {
                28
            }
        }
    }
}

pub fn days_before(lp: bool, m: u32) -> i64 {
    (1..m).map(|k| month_len(lp, k)).sum()
}

pub fn jdn_of(rule: Rule, y: i64, m: u32, d: i64) -> i64 {
    year_start(rule, y) + days_before(leap(rule, y), m) + d - 1
}

/// (year, month, day, proleptic day-of-year) of day `j`
pub fn label(rule: Rule, j: i64) -> (i64, u32, i64, i64) {
    // estimate, then correct by stepping (never more than a couple of steps)
    let mut y = (j - 1721424).div_euclid(366) + 1;
    while year_start(rule, y + 1) <= j {
        y += 1;
    }
    while year_start(rule, y) > j {
        y -= 1;
    }
    let ord = j - year_start(rule, y) + 1;
    let lp = leap(rule, y);
    let mut m = 1;
    let mut rest = ord;
    while rest > month_len(lp, m) {
        rest -= month_len(lp, m);
        m += 1;
    }
    (y, m, rest, ord)
}

/// the rule in force on day `j` of the calendar reforming at `r`
pub fn side(r: Option<i64>, base: Rule, j: i64) -> Rule {
    match r {
        Some(r) => {
            if j < r {
                Rule::Julian
            } else {
                Rule::Gregorian
            }
        }
        None => base,
    }
}

/// A calendar as the oracle sees it.
#[derive(Clone, Copy, Debug)]
pub enum OCal {
    Julian,
    Gregorian,
    Reforming(i64),
}

impl OCal {
    pub fn rule_at(&self, j: i64) -> Rule {
        match *self {
            OCal::Julian => Rule::Julian,
            OCal::Gregorian => Rule::Gregorian,
            OCal::Reforming(r) => {
                if j < r {
                    Rule::Julian
                } else {
                    Rule::Gregorian
                }
            }
        }
    }
    pub fn label(&self, j: i64) -> (i64, u32, i64) {
        let (y, m, d, _) = label(self.rule_at(j), j);
        (y, m, d)
    }
    /// the day number carrying label (y, m, d) in this calendar, if any
    pub fn find(&self, y: i64, m: u32, d: i64) -> Option<i64> {
        if !(1..=12).contains(&m) || d < 1 {
            return None;
        }
        for rule in [Rule::Julian, Rule::Gregorian] {
            if d <= month_len(leap(rule, y), m) {
                let j = jdn_of(rule, y, m, d);
                if self.rule_at(j) == rule {
                    return Some(j);
                }
            }
        }
        None
    }
    /// first and last day numbers (if any) whose label falls in year `y`
    pub fn year_span(&self, y: i64) -> Option<(i64, i64)> {
        let mut lo: Option<i64> = None;
        let mut hi: Option<i64> = None;
        for rule in [Rule::Julian, Rule::Gregorian] {
            let a = year_start(rule, y);
            let b = year_start(rule, y + 1) - 1;
            // the sub-interval of [a, b] on which this rule is in force
            let (a, b) = match (*self, rule) {
                (OCal::Julian, Rule::Julian) | (OCal::Gregorian, Rule::Gregorian) => (a, b),
                (OCal::Julian, _) | (OCal::Gregorian, _) => continue,
                (OCal::Reforming(r), Rule::Julian) => (a, b.min(r - 1)),
                (OCal::Reforming(r), Rule::Gregorian) => (a.max(r), b),
            };
            if a <= b {
                lo = Some(lo.map_or(a, |x| x.min(a)));
                hi = Some(hi.map_or(b, |x| x.max(b)));
            }
        }
        match (lo, hi) {
            (Some(a), Some(b)) => Some((a, b)),
            _ => None,
        }
    }
}
