//! Exhaustive sweeps (thorough tier): clauses quantified over "every 32-bit day number" or
//! "every 32-bit reformation day" are evaluated on the real library for **all 2^32 values**,
//! against an incremental oracle that shares no code with the library.  Model-free.
//!
//!   jvharness sweep <property> <shard> <nshards>
//!
//! Output: `FAIL <property> <description>` lines (first 20), then `SWEEP checked=<n> failed=<m>`.

use crate::oracle::{self, Rule};
use julian::errors::ReformingError;
use julian::{Calendar, Month, Weekday};

struct Cx {
    prop: String,
    checked: u64,
    failed: u64,
}

impl Cx {
    #[inline]
    fn check(&mut self, ok: bool, what: impl FnOnce() -> String) {
        self.checked += 1;
        if !ok {
            self.failed += 1;
            if self.failed <= 20 {
                println!("FAIL {} {}", self.prop, what());
            }
        }
    }
}

/// a label that is advanced one day at a time: (year, month, day, day of year)
struct Walker {
    rule: Rule,
    y: i64,
    m: u32,
    d: i64,
    ord: i64,
}

impl Walker {
    fn at(rule: Rule, j: i64) -> Walker {
        // closed form for the year (no stepping): 400- and 4-year cycles from the year-1 anchor
        let (y, ord) = match rule {
            Rule::Julian => {
                let n = j - 1721424; // day 0 = 0001-01-01 Julian
                let c = n.div_euclid(1461);
                let r = n.rem_euclid(1461);
                let k = (r / 365).min(3);
                (c * 4 + k + 1, r - 365 * k + 1)
            }
            Rule::Gregorian => {
                let n = j - 1721426; // day 0 = 0001-01-01 Gregorian
                let q = n.div_euclid(146097);
                let r = n.rem_euclid(146097);
                let c = (r / 36524).min(3);
                let r = r - 36524 * c;
                let f = r / 1461;
                let r = r - 1461 * f;
                let k = (r / 365).min(3);
                (q * 400 + c * 100 + f * 4 + k + 1, r - 365 * k + 1)
            }
        };
        let lp = oracle::leap(rule, y);
        let mut m = 1;
        let mut rest = ord;
        while rest > oracle::month_len(lp, m) {
            rest -= oracle::month_len(lp, m);
            m += 1;
        }
        Walker { rule, y, m, d: rest, ord }
    }

    #[inline]
    fn step(&mut self) {
        let lp = oracle::leap(self.rule, self.y);
        if self.d < oracle::month_len(lp, self.m) {
            self.d += 1;
            self.ord += 1;
        } else if self.m < 12 {
            self.m += 1;
            self.d = 1;
            self.ord += 1;
        } else {
            self.y += 1;
            self.m = 1;
            self.d = 1;
            self.ord = 1;
        }
    }
}

fn range(shard: u64, nshards: u64) -> (i64, i64) {
    let total: i128 = 1i128 << 32;
    let lo = i64::from(i32::MIN) + (total * i128::from(shard) / i128::from(nshards)) as i64;
    let hi = i64::from(i32::MIN) + (total * i128::from(shard + 1) / i128::from(nshards)) as i64 - 1;
    (lo, hi)
}

fn month(m: u32) -> Month {
    Month::try_from(m).unwrap()
}

pub fn run(prop: &str, shard: u64, nshards: u64) -> i32 {
    let mut cx = Cx { prop: prop.to_string(), checked: 0, failed: 0 };
    let (lo, hi) = range(shard, nshards);
    match prop {
        // every 32-bit JDN in the two proleptic calendars: label, day of year, and back
        "C02" | "C01" | "C10" => {
            for (cal, rule, name) in [(Calendar::JULIAN, Rule::Julian, "J"), (Calendar::GREGORIAN, Rule::Gregorian, "G")] {
                let mut w = Walker::at(rule, lo);
                // the closed form of the walker's start against the stepping oracle, once
                let (oy, om, od, oo) = oracle::label(rule, lo);
                cx.check((w.y, w.m, w.d, w.ord) == (oy, om, od, oo), || format!("sweep oracle self-check at {lo}"));
                let mut prev: Option<julian::Date> = None;
                for j in lo..=hi {
                    let ji = j as i32;
                    let d = cal.at_jdn(ji);
                    match prop {
                        "C02" => {
                            cx.check(
                                i64::from(d.year()) == w.y && d.month().number() == w.m && i64::from(d.day()) == w.d
                                    && i64::from(d.ordinal()) == w.ord && i64::from(d.julian_day_number()) == j,
                                || format!("{name} at_jdn({j}) = {d:?}, definition gives {}-{}-{} (day {} of the year)", w.y, w.m, w.d, w.ord),
                            );
                            let back = cal.at_ymd(w.y as i32, month(w.m), w.d as u32);
                            cx.check(back.map(|x| x.julian_day_number()) == Ok(ji), || {
                                format!("{name} at_ymd({}, {}, {}) = {back:?}, definition gives day number {j}", w.y, w.m, w.d)
                            });
                        }
                        "C01" => {
                            cx.check(i64::from(d.julian_day_number()) == j, || format!("{name} at_jdn({j}).jdn"));
                            cx.check(cal.at_ymd(d.year(), d.month(), d.day()) == Ok(d), || format!("{name} y/m/d of at_jdn({j}) does not lead back"));
                            cx.check(cal.at_ordinal_date(d.year(), d.ordinal()) == Ok(d), || format!("{name} year/ordinal of at_jdn({j}) does not lead back"));
                            if let Some(p) = prev {
                                cx.check((p.year(), p.month(), p.day()) < (d.year(), d.month(), d.day()), || format!("{name} labels of {} and {j} not increasing", j - 1));
                            }
                        }
                        _ => {
                            if let Some(p) = prev {
                                cx.check(p.succ() == Some(d), || format!("{name} succ of day {} is not day {j}", j - 1));
                                cx.check(d.pred() == Some(p), || format!("{name} pred of day {j} is not day {}", j - 1));
                            }
                            if ji == i32::MAX {
                                cx.check(d.succ().is_none(), || format!("{name} succ at Jdnum::MAX"));
                            }
                            if ji == i32::MIN {
                                cx.check(d.pred().is_none(), || format!("{name} pred at Jdnum::MIN"));
                            }
                        }
                    }
                    prev = Some(d);
                    w.step();
                }
            }
        }
        // every 32-bit candidate reformation day
        "C12" => {
            for r in lo..=hi {
                let res = Calendar::reforming(r as i32);
                let ok = match res {
                    Ok(c) => (1830692..=2147439588).contains(&r) && c.reformation() == Some(r as i32),
                    Err(ReformingError::InvalidReformation) => r < 1830692,
                    Err(ReformingError::Arithmetic) => r > 2147439588,
                    #[allow(unreachable_patterns)]
                    Err(_) => false,
                };
                cx.check(ok, || format!("reforming({r}) = {res:?}"));
            }
        }
        // every 32-bit day number: weekday
        "C15" => {
            for j in lo..=hi {
                let wd = Weekday::for_jdn(j as i32);
                cx.check(i64::from(wd.number()) == j.rem_euclid(7) + 1, || format!("weekday of {j} = {wd:?}"));
            }
        }
        // every 32-bit day number: midnight, and back (first and last second of the day)
        "C14" => {
            for j in lo..=hi {
                let t = julian::jdn2unix(j as i32);
                cx.check(t == (j - 2440588) * 86400, || format!("jdn2unix({j}) = {t}"));
                let a = julian::unix2jdn(t);
                let b = julian::unix2jdn(t + 86399);
                cx.check(a == Ok((j as i32, 0)) && b == Ok((j as i32, 86399)), || format!("unix2jdn around day {j}: {a:?} {b:?}"));
            }
        }
        _ => {
            println!("SWEEP checked=0 failed=0");
            return 0;
        }
    }
    println!("SWEEP checked={} failed={}", cx.checked, cx.failed);
    i32::from(cx.failed > 0)
}
