//! Request generators (DESIGN.md §6.3).  Structured, mostly-valid inputs drawn from
//! strata, plus perturbed and malformed ones; every choice comes from one Rng.

use crate::oracle::{self, OCal, Rule};
use crate::rng::Rng;
use crate::run::{hex_enc, hex_of_bytes};

pub const R_MIN: i64 = 1830692;
pub const R_MAX: i64 = 2147439588;
pub const I32_MIN: i64 = -2147483648;
pub const I32_MAX: i64 = 2147483647;
pub const U32_MAX: i64 = 4294967295;

pub const NCAL: [i64; 20] = [
    2419751, 2361222, 2299527, 2299232, 2420968, 2419403, 2299620, 2342032, 2361390, 2299227, 2423868,
    2301004, 2342304, 2299161, 2421960, 2421640, 2422063, 2421639, 2422036, 2325606,
];

/// the country codes the command accepts for `-r`, with their reformation days (used only to aim the
/// arguments at the days that matter in the selected calendar)
pub const COUNTRIES: [(&str, i64); 34] = [
    ("AL", 2419751), ("AT", 2299527), ("AU", 2361222), ("BE", 2299232), ("BG", 2420968), ("CA", 2361222),
    ("CH", 2325606), ("CN", 2419403), ("CZ", 2299620), ("DE", 2342032), ("DK", 2342032), ("ES", 2299161),
    ("FI", 2361390), ("FR", 2299227), ("GB", 2361222), ("GR", 2423868), ("HU", 2301004), ("IS", 2342304),
    ("IT", 2299161), ("JP", 2421960), ("LI", 2421640), ("LU", 2299232), ("LV", 2421640), ("NL", 2299232),
    ("NO", 2342032), ("PL", 2299161), ("PT", 2299161), ("RO", 2422063), ("RU", 2421639), ("SE", 2361390),
    ("SI", 2422036), ("TR", 2424882), ("US", 2361222), ("YU", 2422036),
];

pub struct Gen {
    pub rng: Rng,
    pub dict: Vec<i64>,
    pub strata: std::collections::BTreeMap<&'static str, u64>,
}

fn clamp(x: i64, lo: i64, hi: i64) -> i64 {
    x.max(lo).min(hi)
}

/// every integer literal of the library / CLI sources, as a dictionary of boundary
/// candidates (a missing file only shrinks the dictionary)
pub fn harvest_literals() -> Vec<i64> {
    let root = std::env::var("VERIF_REPO").unwrap_or_else(|_| "/repo".into());
    let files = [
        "crates/julian/src/lib.rs",
        "crates/julian/src/inner.rs",
        "crates/julian/src/iter.rs",
        "crates/julian/src/ncal.rs",
        "crates/julian-cli/src/main.rs",
    ];
    let mut set = std::collections::BTreeSet::new();
    for f in files {
        let Ok(text) = std::fs::read_to_string(format!("{root}/{f}")) else { continue };
        // stop at the unit tests: their literals are test data, not boundaries
        let text = match text.find("#[cfg(test)]") {
            Some(i) => &text[..i],
            None => &text[..],
        };
        let b = text.as_bytes();
        let mut i = 0;
        while i < b.len() {
            if b[i].is_ascii_digit() && (i == 0 || !(b[i - 1].is_ascii_alphanumeric() || b[i - 1] == b'_')) {
                let mut j = i;
                let mut v: i128 = 0;
                while j < b.len() && (b[j].is_ascii_digit() || b[j] == b'_') {
                    if b[j] != b'_' {
                        v = (v * 10 + i128::from(b[j] - b'0')).min(i128::from(i64::MAX));
                    }
                    j += 1;
                }
                if v < i128::from(i64::MAX) {
                    set.insert(v as i64);
                    set.insert(-(v as i64));
                }
                i = j;
            } else {
                i += 1;
            }
        }
    }
    set.into_iter().collect()
}

impl Gen {
    pub fn new(seed: u64) -> Gen {
        Gen {
            rng: Rng::new(seed),
            dict: harvest_literals(),
            strata: Default::default(),
        }
    }

    fn hit(&mut self, s: &'static str) {
        *self.strata.entry(s).or_insert(0) += 1;
    }

    /// a dictionary literal ± 3
    pub fn dict_near(&mut self) -> i64 {
        if self.dict.is_empty() {
            return self.rng.range(-5, 5);
        }
        let v = *self.rng.pick(&self.dict);
        v.saturating_add(self.rng.range(-3, 3))
    }

    fn phase_year(&mut self) -> i64 {
        let phase = *self.rng.pick(&[0i64, 1, 4, 96, 99, 100, 101, 104, 196, 200, 204, 300, 301, 304, 396, 399]);
        let era = match self.rng.below(8) {
            0 => 400,        // around 0300-0400: the bottom of the admissible range
            1 | 2 | 3 => 1600 + 400 * self.rng.range(0, 2),
            4 => 3600 + 400 * self.rng.range(0, 1),   // whole months skipped from 3900 on
            5 => 48800 + 400 * self.rng.range(0, 1),  // whole years skipped from 48900 on
            6 => 1_000_000 + 400 * self.rng.range(0, 1000),
            _ => 5_874_000 + 400 * self.rng.range(-2, 2),
        };
        era + phase
    }

    /// an admissible reformation day, by strata
    pub fn reformation(&mut self) -> i64 {
        let r = match self.rng.below(20) {
            0..=4 => {
                self.hit("R:1582-2100");
                self.rng.range(2299161, oracle::jdn_of(Rule::Gregorian, 2100, 12, 31))
            }
            5..=11 => {
                self.hit("R:phase");
                let y = self.phase_year();
                let (m, d) = *self.rng.pick(&[
                    (1u32, 1i64), (1, 2), (1, 31), (2, 1), (2, 27), (2, 28), (2, 29), (3, 1), (3, 2), (3, 31),
                    (4, 30), (6, 30), (10, 15), (11, 30), (12, 1), (12, 30), (12, 31),
                ]);
                if self.rng.chance(1, 2) {
                    // (y, m, d) is the Gregorian label of R
                    let d = d.min(oracle::month_len(oracle::leap(Rule::Gregorian, y), m));
                    oracle::jdn_of(Rule::Gregorian, y, m, d)
                } else {
                    // (y, m, d) is the Julian label of R-1
                    let d = d.min(oracle::month_len(oracle::leap(Rule::Julian, y), m));
                    oracle::jdn_of(Rule::Julian, y, m, d) + 1
                }
            }
            12 => {
                self.hit("R:threshold");
                *self.rng.pick(&[R_MIN, 3145930, 19582149, R_MAX]) + self.rng.range(-3, 3)
            }
            13 => {
                self.hit("R:ncal");
                *self.rng.pick(&NCAL)
            }
            14 => {
                self.hit("R:dict");
                self.dict_near()
            }
            15 | 16 => {
                self.hit("R:months-skipped");
                self.rng.range(3145930, 19582149)
            }
            _ => {
                self.hit("R:uniform");
                self.rng.range(R_MIN, R_MAX)
            }
        };
        clamp(r, R_MIN, R_MAX)
    }

    /// a calendar token and its oracle view
    pub fn cal(&mut self) -> (String, OCal) {
        match self.rng.below(20) {
            0 | 1 => ("J".into(), OCal::Julian),
            2 | 3 => ("G".into(), OCal::Gregorian),
            4 => ("X".into(), OCal::Reforming(2299161)),
            _ => {
                let r = self.reformation();
                (format!("R{r}"), OCal::Reforming(r))
            }
        }
    }

    pub fn reforming_cal(&mut self) -> (String, OCal) {
        let r = self.reformation();
        (format!("R{r}"), OCal::Reforming(r))
    }

    /// the window in which the gap logic of a reforming calendar is active:
    /// Jan 1 of the year of day R-1 .. Dec 31 of the year of day R
    pub fn window(oc: &OCal) -> Option<(i64, i64)> {
        match *oc {
            OCal::Reforming(r) => {
                let (yj, ..) = oracle::label(Rule::Julian, r - 1);
                let (yg, ..) = oracle::label(Rule::Gregorian, r);
                Some((
                    clamp(oracle::year_start(Rule::Julian, yj), I32_MIN, I32_MAX),
                    clamp(oracle::year_start(Rule::Gregorian, yg + 1) - 1, I32_MIN, I32_MAX),
                ))
            }
            _ => None,
        }
    }

    /// a 32-bit day number, biased to where the calendar is interesting
    pub fn jdn(&mut self, oc: &OCal) -> i64 {
        let j = match (self.rng.below(20), Self::window(oc), oc) {
            (0..=2, Some(_), OCal::Reforming(r)) => {
                self.hit("j:R-edge");
                r + self.rng.range(-3, 2)
            }
            (3, Some(_), OCal::Reforming(r)) => {
                // the rest of the two months the gap is cut out of: the days whose ordinals or labels
                // are shifted by the gap without being next to it
                self.hit("j:R-months");
                r + self.rng.range(-45, 45)
            }
            (3..=8, Some((a, b)), _) => {
                self.hit("j:window");
                self.rng.range(a, b)
            }
            (9 | 10, Some((a, b)), _) => {
                // month and year edges inside the window
                self.hit("j:window-edge");
                let j = self.rng.range(a, b);
                let (y, m, _, _) = oracle::label(oc.rule_at(j), j);
                let rule = oc.rule_at(j);
                let e = match self.rng.below(4) {
                    0 => oracle::jdn_of(rule, y, m, 1),
                    1 => oracle::jdn_of(rule, y, m, oracle::month_len(oracle::leap(rule, y), m)),
                    2 => oracle::jdn_of(rule, y, 2, 28),
                    _ => oracle::jdn_of(rule, y, 3, 1),
                };
                e + self.rng.range(-1, 1)
            }
            (11, _, _) => {
                self.hit("j:i32-limit");
                if self.rng.chance(1, 2) {
                    I32_MIN + self.rng.range(0, 800)
                } else {
                    I32_MAX - self.rng.range(0, 800)
                }
            }
            (12, _, _) => {
                if self.rng.chance(1, 2) {
                    self.hit("j:zero");
                    self.rng.range(-800, 800)
                } else {
                    // a day of a year at which the number of digits of the year changes (or its
                    // sign): 0, ±1, ±9, ±10, ±99, ±100, ±999, ±1000, ±9999, ±10000, …
                    self.hit("j:year-digits");
                    let p = 10i64.pow(self.rng.range(0, 6) as u32);
                    let y = *self.rng.pick(&[0, p - 1, p, -(p - 1), -p, 1, -1]);
                    let rule = if self.rng.chance(1, 2) { Rule::Julian } else { Rule::Gregorian };
                    oracle::year_start(rule, y) + self.rng.range(0, 365)
                }
            }
            (13, _, _) => {
                self.hit("j:cycle-anchor");
                let base = *self.rng.pick(&[-32104i64, 113993, 0]);
                let k = self.rng.range(-14000, 14000);
                let off = *self.rng.pick(&[-1i64, 0, 1, 365, 366, 1460, 1461, 36523, 36524, 36525, 146096]);
                if self.rng.chance(1, 2) {
                    base + k * 146097 + off
                } else {
                    base + self.rng.range(-1400000, 1400000) * 1461 + off
                }
            }
            (14, _, _) => {
                self.hit("j:dict");
                self.dict_near()
            }
            (15 | 16, _, _) => {
                // a year edge somewhere: Dec 30 .. Jan 2, Feb 27 .. Mar 2
                self.hit("j:year-edge");
                let y = self.rng.range(-5_880_000, 5_870_000);
                let rule = if self.rng.chance(1, 2) { Rule::Julian } else { Rule::Gregorian };
                let base = if self.rng.chance(1, 2) {
                    oracle::year_start(rule, y)
                } else {
                    oracle::jdn_of(rule, y, 3, 1)
                };
                base + self.rng.range(-2, 1)
            }
            _ => {
                self.hit("j:uniform");
                self.rng.range(I32_MIN, I32_MAX)
            }
        };
        clamp(j, I32_MIN, I32_MAX)
    }

    /// a year: of a generated day, or a boundary
    /// a year that a packed or truncated comparison would confuse with year `y`: `y` shifted by
    /// 2^k, by a multiple of 2^32 / c for a small multiplier c (the wrap-around classes of
    /// `y * c` in 32 bits), or with its sign or low bits changed
    pub fn alias_year(&mut self, y: i64) -> i64 {
        self.hit("y:alias");
        let a = match self.rng.below(4) {
            0 => y + (1i64 << self.rng.range(4, 31)) * *self.rng.pick(&[-1i64, 1]),
            1 => {
                let c = *self.rng.pick(&[2i64, 4, 8, 12, 16, 32, 50, 64, 100, 128, 256, 365, 366, 400, 512, 1024, 1461, 4096, 65536]);
                let k = self.rng.range(1, c.min(64)) * *self.rng.pick(&[-1i64, 1]);
                y + (k * (1i64 << 32)) / c + self.rng.range(-1, 1)
            }
            2 => -y + self.rng.range(-1, 1),
            _ => y ^ (1i64 << self.rng.range(0, 30)),
        };
        if (I32_MIN..=I32_MAX).contains(&a) {
            a
        } else {
            // fold back into the type the way a 32-bit register would
            ((a + (1i64 << 31)).rem_euclid(1i64 << 32)) - (1i64 << 31)
        }
    }

    pub fn year(&mut self, oc: &OCal) -> i64 {
        if self.rng.chance(1, 12) {
            // an alias of a year the calendar treats specially (the years around its reformation)
            let y0 = match *oc {
                OCal::Reforming(r) => {
                    let (a, ..) = oracle::label(Rule::Julian, r - 1);
                    let (b, ..) = oracle::label(Rule::Gregorian, r);
                    *self.rng.pick(&[a, b, (a + b) / 2])
                }
                _ => *self.rng.pick(&[0i64, 1582, 2000, -4712]),
            };
            return self.alias_year(y0);
        }
        match self.rng.below(10) {
            0 => {
                self.hit("y:dict");
                clamp(self.dict_near(), I32_MIN, I32_MAX)
            }
            1 => {
                self.hit("y:limit");
                clamp(
                    *self.rng.pick(&[I32_MIN, I32_MAX, -5884323, -5884202, 5874777, 5874898, 0, -1, -4712, -4713])
                        + self.rng.range(-2, 2),
                    I32_MIN,
                    I32_MAX,
                )
            }
            2 if self.rng.chance(1, 2) => {
                // a year as far from the calendar's special years as the type allows — a difference
                // `year − special` that no longer fits the type — on a century, where the two leap
                // rules part: the bottom (top) of i32 plus (minus) up to the special year's magnitude
                self.hit("y:wrap");
                let span = match *oc {
                    OCal::Reforming(r) => oracle::label(Rule::Gregorian, r).0.abs() + 200,
                    _ => 6000,
                };
                let c = 100 * self.rng.range(0, span / 100) + self.rng.range(-1, 1) * i64::from(self.rng.chance(1, 3));
                let y = if self.rng.chance(3, 4) { I32_MIN + 48 + c } else { I32_MAX - 47 - c };
                clamp(y, I32_MIN, I32_MAX)
            }
            _ => {
                let j = self.jdn(oc);
                let (y, _, _) = oc.label(j);
                clamp(y + self.rng.range(-1, 1) * i64::from(self.rng.chance(1, 4)), I32_MIN, I32_MAX)
            }
        }
    }

    /// a (year, month, day) request: a real label, a skipped label, or a perturbed one
    pub fn ymd(&mut self, oc: &OCal) -> (i64, u32, i64) {
        let j = self.jdn(oc);
        let (y, m, d) = match (self.rng.below(10), oc) {
            (0..=2, OCal::Reforming(r)) => {
                // a label inside the gap: a Julian label of a day ≥ R, or a Gregorian one of a day < R
                self.hit("ymd:skipped-candidate");
                let k = self.rng.range(0, 40);
                if self.rng.chance(1, 2) {
                    let (y, m, d, _) = oracle::label(Rule::Julian, r + k);
                    (y, m, d)
                } else {
                    let (y, m, d, _) = oracle::label(Rule::Gregorian, r - 1 - k);
                    (y, m, d)
                }
            }
            _ => {
                self.hit("ymd:label");
                oc.label(j)
            }
        };
        let d = match self.rng.below(12) {
            0 => {
                self.hit("ymd:day-perturbed");
                *self.rng.pick(&[0, 1, 2, 27, 28, 29, 30, 31, 32, 33, U32_MAX, U32_MAX - 1, U32_MAX - 10, U32_MAX - 11])
            }
            1 => {
                self.hit("ymd:day-perturbed");
                (d + self.rng.range(-2, 2)).max(0)
            }
            2 => {
                self.hit("ymd:day-uniform");
                self.rng.range(0, 40)
            }
            3 if self.rng.chance(1, 2) => {
                // an existing day plus a multiple of 2^8 / 2^16 / 2^24 (what a narrowed field keeps)
                self.hit("ymd:day-alias");
                (d.max(0) + *self.rng.pick(&[256i64, 512, 65536, 1 << 24, 1 << 31, 4294967040])).min(U32_MAX)
            }
            _ => d,
        };
        let m = if self.rng.chance(1, 10) { self.rng.range(1, 12) as u32 } else { m };
        let y = if self.rng.chance(1, 15) { self.year(oc) } else { y };
        (clamp(y, I32_MIN, I32_MAX), m, d)
    }

    pub fn ordinal_arg(&mut self, oc: &OCal, y: i64) -> i64 {
        match self.rng.below(10) {
            0 => *self.rng.pick(&[0, 1, 2, 354, 355, 356, 364, 365, 366, 367, U32_MAX, U32_MAX - 10, U32_MAX - 366]),
            1 => self.rng.range(0, 400),
            2 => clamp(self.dict_near(), 0, U32_MAX),
            3 if self.rng.chance(1, 2) => {
                // an existing ordinal plus a multiple of 2^9 / 2^16 / 2^24
                let base = oc.year_span(y).map_or(1, |(a, b)| self.rng.range(1, (b - a + 1).max(1)));
                (base + *self.rng.pick(&[512i64, 65536, 1 << 24, 1 << 31, 4294966784])).min(U32_MAX)
            }
            _ => match oc.year_span(y) {
                Some((a, b)) => {
                    let n = b - a + 1;
                    clamp(self.rng.range(1, n) + self.rng.range(-1, 1) * i64::from(self.rng.chance(1, 3)), 0, U32_MAX)
                }
                None => self.rng.range(0, 3),
            },
        }
    }

    /// op words over {f, b, l}
    pub fn ops(&mut self, maxlen: u64) -> String {
        self.ops_for(maxlen, maxlen)
    }

    /// an op sequence over {f = next, b = next_back, l = len} for an iterator of about `size`
    /// items: a uniformly random mix, or one of the structured shapes that a random mix almost
    /// never produces — one end drained completely and then the other end probed, an exact
    /// split of the items between the two ends followed by probes of both, long runs
    pub fn ops_for(&mut self, maxlen: u64, size: u64) -> String {
        let base = self.ops_base(maxlen, size);
        if self.rng.chance(1, 2) {
            return base;
        }
        // the methods the Iterator traits provide on top of next / next_back: nth, nth_back,
        // count, last, rev — an implementation may override any of them
        self.hit("ops:provided-methods");
        let mut out = String::new();
        for ch in base.chars() {
            if self.rng.chance(1, 5) {
                out.push(*self.rng.pick(&['n', 'm', 'N', 'M', 'c', 'z', 'r', 'x', 'w']));
            }
            out.push(ch);
        }
        out.push(*self.rng.pick(&['n', 'N', 'c', 'z', 'r', 'l']));
        out
    }

    fn ops_base(&mut self, maxlen: u64, size: u64) -> String {
        let probes = |g: &mut Self| -> String {
            let k = 1 + g.rng.below(4);
            (0..k).map(|_| *g.rng.pick(&['f', 'b', 'l'])).collect()
        };
        match self.rng.below(10) {
            0..=3 => {
                let n = 1 + self.rng.below(maxlen);
                (0..n).map(|_| *self.rng.pick(&['f', 'b', 'l', 'f', 'b'])).collect()
            }
            4 => {
                // drain from the front (exactly, one short, or one over), then probe
                let n = (size + self.rng.below(3)).saturating_sub(1);
                self.hit("ops:drain-front");
                "f".repeat(n as usize) + "l" + &probes(self)
            }
            5 => {
                let n = (size + self.rng.below(3)).saturating_sub(1);
                self.hit("ops:drain-back");
                "b".repeat(n as usize) + "l" + &probes(self)
            }
            6 | 7 => {
                // k from one end, the rest from the other (exact split ± 1), then probes
                let k = self.rng.below(size + 1);
                let rest = (size - k + self.rng.below(3)).saturating_sub(1);
                self.hit("ops:split");
                let (a, b) = if self.rng.chance(1, 2) { ("f", "b") } else { ("b", "f") };
                a.repeat(k as usize) + &b.repeat(rest as usize) + "l" + &probes(self)
            }
            8 => {
                // alternate strictly, then probes
                let n = size + 2;
                self.hit("ops:alternate");
                let first = self.rng.chance(1, 2);
                (0..n).map(|i| if (i % 2 == 0) == first { 'f' } else { 'b' }).collect::<String>() + &probes(self)
            }
            _ => {
                // long runs
                let mut out = String::new();
                while (out.len() as u64) < maxlen {
                    let c = *self.rng.pick(&["f", "b", "l"]);
                    out += &c.repeat(1 + self.rng.below(size.max(1)) as usize);
                }
                out
            }
        }
    }

    fn fmt_year(y: i64) -> String {
        if y < 0 {
            format!("-{:04}", -y)
        } else {
            format!("{y:04}")
        }
    }

    /// a date string: well-formed, or a grammar-directed mutation, or junk
    pub fn date_string(&mut self, oc: &OCal) -> String {
        let (y, m, d) = self.ymd(oc);
        let d = d.min(99999);
        let base = if self.rng.chance(2, 3) {
            format!("{}-{:02}-{:02}", Self::fmt_year(y), m, d)
        } else {
            let o = self.ordinal_arg(oc, y).min(99999);
            format!("{}-{:03}", Self::fmt_year(y), o)
        };
        match self.rng.below(24) {
            0..=9 => {
                self.hit("str:wellformed");
                base
            }
            10 => {
                self.hit("str:sign");
                let sign = *self.rng.pick(&["+", "-", "+-", "--", "-+", "++", ""]);
                format!("{sign}{}", base.trim_start_matches('-'))
            }
            11 => {
                self.hit("str:leading-zeros");
                let (a, b) = base.split_at(usize::from(base.starts_with('-')));
                format!("{a}{}{b}", "0".repeat(self.rng.below(12) as usize))
            }
            12 => {
                self.hit("str:drop-char");
                let cs: Vec<char> = base.chars().collect();
                let i = self.rng.below(cs.len() as u64) as usize;
                cs.iter().enumerate().filter(|(k, _)| *k != i).map(|(_, c)| *c).collect()
            }
            13 => {
                self.hit("str:dup-char");
                let cs: Vec<char> = base.chars().collect();
                let i = self.rng.below(cs.len() as u64) as usize;
                let mut out = String::new();
                for (k, c) in cs.iter().enumerate() {
                    out.push(*c);
                    if k == i {
                        out.push(*c);
                    }
                }
                out
            }
            14 => {
                self.hit("str:insert");
                let ins = *self.rng.pick(&[
                    "-", "+", " ", "x", "٣", "１", "é", "\u{0}", "\u{10FFFF}", "0", "9", "T", ".", "/", "\n", "−",
                ]);
                let cs: Vec<char> = base.chars().collect();
                let i = self.rng.below(cs.len() as u64 + 1) as usize;
                let mut out: String = cs[..i].iter().collect();
                out.push_str(ins);
                out.extend(cs[i..].iter());
                out
            }
            15 => {
                self.hit("str:trailing");
                format!("{base}{}", *self.rng.pick(&[" ", "-", "-1", "x", "\n", "-01-01", "٣"]))
            }
            16 => {
                self.hit("str:overflow");
                let big = *self.rng.pick(&[
                    "2147483647", "2147483648", "-2147483648", "-2147483649", "4294967295", "4294967296",
                    "99999999999999999999", "-99999999999999999999", "+2147483647",
                ]);
                match self.rng.below(3) {
                    0 => format!("{big}-01-01"),
                    1 => format!("2023-{}-01", big.trim_start_matches(['-', '+'])),
                    _ => format!("2023-01-{}", big.trim_start_matches(['-', '+'])),
                }
            }
            17 => {
                self.hit("str:truncate");
                let cs: Vec<char> = base.chars().collect();
                let i = self.rng.below(cs.len() as u64 + 1) as usize;
                cs[..i].iter().collect()
            }
            18 => {
                self.hit("str:month-range");
                format!("{}-{}-{:02}", Self::fmt_year(y), *self.rng.pick(&["0", "00", "13", "12", "1", "001", "99"]), d)
            }
            19 => {
                self.hit("str:random-unicode");
                let n = self.rng.below(12);
                (0..n)
                    .map(|_| {
                        let c = match self.rng.below(4) {
                            0 => self.rng.below(128) as u32,
                            1 => *self.rng.pick(&[0x2d, 0x2b, 0x30, 0x39, 0x2d, 0x31]),
                            2 => self.rng.below(0x800) as u32,
                            _ => self.rng.below(0x110000) as u32,
                        };
                        char::from_u32(c).unwrap_or('\u{FFFD}')
                    })
                    .collect()
            }
            20 => {
                self.hit("str:empty-field");
                (*self.rng.pick(&["", "-", "--", "2023", "2023-", "2023--", "2023-04-", "-2023", "2023-04", "+", "2023-4-5", "2023-004-5"])).to_string()
            }
            _ => {
                self.hit("str:wellformed");
                base
            }
        }
    }
}

fn push(out: &mut Vec<String>, s: String) {
    out.push(s);
}

/// option tokens of the documented CLI grammar
fn cli_option(g: &mut Gen) -> Vec<String> {
    let r = g.reformation();
    let codes = ["gb", "GB", "Gb", "it", "US", "se", "RU", "tr", "xx", "g", "gbr", "", "\u{e9}", "\u{df}", "\u{3bb}", "\u{44f}",
        "\u{aa}", "\u{e9}a", "a\u{e9}", "\u{65e5}", "\u{130}", "\u{131}t", "g\u{212a}", "\u{1d5a}b", "zz", "ZZ", "aa", "a1", "1a", "g b", "gb "];
    let rv = match g.rng.below(6) {
        0 if g.rng.chance(1, 2) => {
            // any country of the table (as it was when this harness was written; the model holds the
            // table that is generated from the source), in either case
            let (code, _) = *g.rng.pick(&COUNTRIES);
            if g.rng.chance(1, 2) { code.to_string() } else { code.to_ascii_lowercase() }
        }
        0 => (*g.rng.pick(&codes)).to_string(),
        1 => (*g.rng.pick(&["1830691", "2147439589", "abc", "-5", "+2299161", " 2299161", "1e6", "２２"])).to_string(),
        _ => r.to_string(),
    };
    match g.rng.below(24) {
        0 => vec!["-j".into()],
        1 => vec!["--julian".into()],
        2 => vec!["-o".into()],
        3 => vec!["--ordinal".into()],
        4 => vec!["-q".into()],
        5 => vec!["--quiet".into()],
        6 => vec!["-s".into()],
        7 => vec!["--style".into()],
        8 => vec!["-r".into(), rv],
        9 => vec![format!("-r{rv}")],
        10 => vec![format!("-r={rv}")],
        11 => vec![format!("--reformation={rv}")],
        12 => vec!["--reformation".into(), rv],
        13 => vec![(*g.rng.pick(&["-jq", "-qo", "-sq", "-oj", "-qs", "-sjo", "-qqq"])).to_string()],
        14 => vec![format!("-q{}", format!("r{rv}"))],
        15 => vec![format!("-sr"), rv],
        16 => vec!["-J".into()],
        17 => vec!["--json".into()],
        _ => vec!["-r".into(), r.to_string()],
    }
}

fn cli_positional(g: &mut Gen, oc: &OCal) -> String {
    match g.rng.below(13) {
        0..=3 => g.jdn(oc).to_string(),
        4..=7 => {
            let j = g.jdn(oc);
            let (y, m, d) = oc.label(j);
            format!("{}-{:02}-{:02}", Gen::fmt_year(y), m, d)
        }
        8 => {
            let j = g.jdn(oc);
            let (y, ..) = oc.label(j);
            let o = g.ordinal_arg(oc, y).min(400);
            format!("{}-{:03}", Gen::fmt_year(y), o)
        }
        9 => format!("{}", g.rng.range(-3000000, -1)),
        10 => g.date_string(oc),
        11 if g.rng.chance(1, 2) => {
            // a long argument (error messages may abbreviate or align what they echo) with one
            // multi-byte character somewhere in it
            g.hit("cli:long-arg");
            let n = g.rng.range(20, 70) as usize;
            let at = g.rng.range(0, n as i64) as usize;
            let fill = *g.rng.pick(&['1', 'x', '-', '9']);
            let mb = *g.rng.pick(&["\u{e9}", "\u{4e2d}", "\u{1f600}", "\u{17f}"]);
            let mut s: String = std::iter::repeat(fill).take(at).collect();
            s.push_str(mb);
            s.extend(std::iter::repeat(fill).take(n - at));
            if fill == '-' { format!("x{s}") } else { s }
        }
        12 => {
            // dates with a year at the ends of the type and a day / month / ordinal that does not
            // exist: the error that is reported carries the year (messages are formatted too)
            let y = *g.rng.pick(&[I32_MIN, I32_MIN + 1, I32_MAX, I32_MAX - 1, -5884323, 5874898, 0, -1]);
            let tail = *g.rng.pick(&["01-32", "02-30", "13-01", "00-10", "400", "000", "366", "12-00", "02-29"]);
            format!("{y}-{tail}")
        }
        _ => (*g.rng.pick(&["+5", "-0", "0", "-", "", " 5", "5 ", "2147483648", "-2147483649", "1-1", "-1-1-1", "abc"])).to_string(),
    }
}

fn hexargs(args: &[String]) -> String {
    args.iter().map(|a| hex_enc(a)).collect::<Vec<_>>().join(" ")
}

/// emit one case (one or a few request lines) for property `prop`
pub fn emit(prop: &str, g: &mut Gen, out: &mut Vec<String>) {
    match prop {
        "C01" | "C03" | "C04" | "C11" => {
            let (ct, oc) = if prop == "C03" { g.reforming_cal() } else { g.cal() };
            let j = g.jdn(&oc);
            push(out, format!("at_jdn {ct} {j}"));
            let (y, m, d) = oc.label(j);
            if (I32_MIN..=I32_MAX).contains(&y) {
                match prop {
                    "C01" => {
                        push(out, format!("at_ymd {ct} {y} {m} {d}"));
                        push(out, format!("hist {ct} {j} y o"));
                    }
                    "C03" => {
                        if g.rng.chance(1, 4) {
                            push(out, format!("boundary {ct}"));
                        }
                        let (c2, _) = g.cal();
                        push(out, format!("convert {ct} {j} {c2}"));
                    }
                    "C04" => {
                        push(out, format!("year {ct} {y}"));
                        // ordinals of dates that come from the other producers (stepping, boundary
                        // accessors, re-construction, parsing, conversion), not only from at_jdn
                        let n = 1 + g.rng.below(3);
                        let mut ops = Vec::new();
                        for _ in 0..n {
                            ops.push(match g.rng.below(14) {
                                0..=3 => "p".to_string(),
                                4..=6 => "s".into(),
                                7 => "y".into(),
                                8 => "o".into(),
                                9 => "t".into(),
                                10 => "n".into(),
                                11 => (*g.rng.pick(&["l", "g", "u", "T"])).into(),
                                _ => format!("c{}", g.cal().0),
                            });
                        }
                        push(out, format!("hist {ct} {j} {}", ops.join(" ")));
                        // ordinals of the dates `dates()` hands out when the iterator is driven
                        // through next / nth / nth_back mixes (an iterator that derives a date from
                        // the previous one must not lose count when items are skipped)
                        if g.rng.chance(1, 4) {
                            let n = 3 + g.rng.below(6);
                            let dops: String = (0..n).map(|_| *g.rng.pick(&['f', 'f', 'n', 'm', 'b', 'N', 'M', 'f', 'b'])).collect();
                            push(out, format!("dates_ops {ct} {y} {m} {dops}"));
                        }
                        // the last day of the year and the first of the next
                        if let Some((a, b)) = oc.year_span(y) {
                            if (I32_MIN..=I32_MAX).contains(&a) && (I32_MIN..=I32_MAX).contains(&b) {
                                push(out, format!("at_jdn {ct} {}", if g.rng.chance(1, 2) { a } else { b }));
                            }
                        }
                    }
                    _ => {
                        let (c2, oc2) = match (g.rng.below(6), oc) {
                            (0..=1, _) => (ct.clone(), oc),
                            // a reforming calendar a few days away: same year, same month, same gap kind
                            (2..=3, OCal::Reforming(r)) => {
                                let r2 = clamp(r + *g.rng.pick(&[-13i64, -2, -1, 1, 2, 3, 10, 13, 31, 365, 366]), R_MIN, R_MAX);
                                (format!("R{r2}"), OCal::Reforming(r2))
                            }
                            _ => g.cal(),
                        };
                        let j2 = if g.rng.chance(1, 3) { j } else if g.rng.chance(1, 2) { clamp(j + g.rng.range(-2, 2), I32_MIN, I32_MAX) } else { g.jdn(&oc2) };
                        push(out, format!("cmp_date {ct} {j} {c2} {j2}"));
                        push(out, format!("cmp_cal {ct} {c2}"));
                        // a date reached by stepping or by an iterator's jump (nth, skip, step_by, last)
                        // against the directly constructed date of the day it ended on
                        if g.rng.chance(1, 3) {
                            let n = 1 + g.rng.below(3);
                            let steps: Vec<String> = (0..n)
                                .map(|_| (*g.rng.pick(&["s", "p", "L", "E", "A", "a", "L3", "L9", "E3", "E9", "A3", "A9", "a3", "a9", "LS", "AS", "Df", "Dl"])).to_string())
                                .collect();
                            let cc = if g.rng.chance(2, 3) { ct.clone() } else { c2.clone() };
                            push(out, format!("cmp_hist {ct} {j} {} / {cc} =", steps.join(" ")));
                        }
                        // the same comparison between dates that reached (ct, j) and (c2, j2) through
                        // other producers: conversion from a third calendar, re-construction from
                        // the label, parsing, stepping there and back
                        let keep = |g: &mut Gen, n: u64| -> Vec<String> {
                            let mut v = Vec::new();
                            for _ in 0..n {
                                match g.rng.below(9) {
                                    0 => v.push("y".to_string()),
                                    1 => v.push("o".into()),
                                    2 => v.push("t".into()),
                                    3 => v.push("T".into()),
                                    4 => v.push("n".into()),
                                    5 => v.push("j".into()),
                                    6 => v.push("u".into()),
                                    7 => {
                                        v.push("s".into());
                                        v.push("p".into());
                                    }
                                    _ => {
                                        v.push("p".into());
                                        v.push("s".into());
                                    }
                                }
                            }
                            v
                        };
                        let (c0, _) = if g.rng.chance(1, 4) { (ct.clone(), ()) } else { (g.cal().0, ()) };
                        let n1 = g.rng.below(3);
                        let mut ops1 = keep(g, n1);
                        ops1.push(format!("c{ct}"));
                        let n1b = g.rng.below(2);
                        ops1.extend(keep(g, n1b));
                        let n2 = g.rng.below(3);
                        let ops2 = keep(g, n2);
                        push(out, format!("cmp_hist {c0} {j} {} / {c2} {j2} {}", ops1.join(" "), ops2.join(" ")).trim_end().to_string());
                        if j < I32_MAX {
                            push(out, format!("at_jdn {ct} {}", j + 1));
                        }
                    }
                }
            }
        }
        "C02" => {
            let (ct, oc) = if g.rng.chance(1, 2) { ("J", OCal::Julian) } else { ("G", OCal::Gregorian) };
            match g.rng.below(4) {
                0 => {
                    let j = g.jdn(&oc);
                    push(out, format!("at_jdn {ct} {j}"));
                    // the same day reached by conversion from another calendar (mostly from a
                    // reforming one, in the year of its reformation) and then stepped: still a date
                    // of the proleptic calendar, still labelled by the definition
                    if g.rng.chance(1, 3) {
                        let (c2, o2) = g.reforming_cal();
                        let j2 = g.jdn(&o2);
                        let steps = *g.rng.pick(&["s", "p", "s s", "p p", "s p", "L", "E", "A", "a"]);
                        push(out, format!("hist {c2} {j2} c{ct} {steps}"));
                    }
                    // the days the open-ended iterators hand out in the proleptic calendars when one
                    // iterator is stepped, jumped ahead (a month, a year, four years) and stepped on
                    if g.rng.chance(1, 4) {
                        let (y, _, _) = oc.label(j);
                        let start = oc.find(y, 2, 20 + g.rng.range(0, 8)).unwrap_or(j);
                        if (I32_MIN..=I32_MAX).contains(&start) {
                            let k = *g.rng.pick(&["later", "and_later", "earlier", "and_earlier"]);
                            let jump = *g.rng.pick(&['g', 'y', 'Y', 'q']);
                            push(out, format!("iterx {k} {ct} {start} {}{jump}{}", "x".repeat(1 + g.rng.below(3) as usize), "x".repeat(3 + g.rng.below(10) as usize)));
                        }
                    }
                }
                1 => {
                    let (y, m, d) = g.ymd(&oc);
                    push(out, format!("at_ymd {ct} {y} {m} {d}"));
                }
                2 => {
                    let y = g.year(&oc);
                    let o = g.ordinal_arg(&oc, y);
                    push(out, format!("at_ord {ct} {y} {o}"));
                    push(out, format!("year {ct} {y}"));
                }
                _ => {
                    // just inside / outside the documented range
                    let (y, m, d) = *g.rng.pick(&[
                        (-5884202i64, 3u32, 16i64), (5874777, 10, 17), (-5884323, 5, 15), (5874898, 6, 3),
                    ]);
                    let dd = d + g.rng.range(-3, 3);
                    push(out, format!("at_ymd {ct} {y} {m} {}", dd.max(0)));
                    push(out, format!("at_ymd {ct} {} {} {}", y + g.rng.range(-1, 1), g.rng.range(1, 12), g.rng.range(1, 31)));
                    // the dates of the months cut short by the range ends, as the iterator and
                    // `nth_date` hand them out (labels and day numbers must be the definition's)
                    if g.rng.chance(1, 2) {
                        let n = 2 + g.rng.below(5);
                        let dops: String = (0..n).map(|_| *g.rng.pick(&['f', 'b', 'n', 'N', 'z', 'r'])).collect();
                        let (yy, mm) = if ct == "J" {
                            *g.rng.pick(&[(-5884202i64, 3u32), (5874777, 10)])
                        } else {
                            *g.rng.pick(&[(-5884323i64, 5u32), (5874898, 6)])
                        };
                        push(out, format!("dates_ops {ct} {yy} {mm} {dops}"));
                        push(out, format!("shapeq {ct} {yy} {mm} {}", g.rng.range(1, 31)));
                    }
                }
            }
        }
        "C05" => {
            // the widest mix: every request kind, with extreme arguments
            let sub = *g.rng.pick(&[
                "C01", "C02", "C06", "C07", "C08", "C09", "C09", "C10", "C12", "C13", "C14", "C15", "C16", "C17", "X5",
            ]);
            if sub == "X5" {
                let (ct, oc) = g.cal();
                let y = g.year(&oc);
                let m = g.rng.range(1, 12);
                let x = *g.rng.pick(&[0, 1, 31, 32, U32_MAX, U32_MAX - 1, U32_MAX - 9, U32_MAX - 10, U32_MAX - 11, U32_MAX - 30, 2147483648]);
                push(out, format!("shapeq {ct} {y} {m} {x}"));
                push(out, format!("at_ymd {ct} {y} {m} {x}"));
                push(out, format!("at_ord {ct} {y} {x}"));
                let ye = *g.rng.pick(&[I32_MIN, I32_MIN + 1, I32_MAX, I32_MAX - 1, -5884324, -5884323, 5874898, 5874899, -5879490, 5879489]);
                push(out, format!("year {ct} {ye}"));
                push(out, format!("shape {ct} {ye} {m}"));
                push(out, format!("at_ymd {ct} {ye} {m} {}", g.rng.range(0, 32)));
                push(out, format!("at_ord {ct} {ye} {}", g.rng.range(0, 367)));
                push(out, format!("dates_ops {ct} {ye} {m} {}", g.ops(8)));
                // Display / Debug of every public type under width, fill, precision and sign flags
                let j = g.jdn(&oc);
                push(out, format!("fmt_flags {ct} {j} {y} {m} {}", g.rng.range(0, 40)));
                // … and of the shapes and iterators of a month at or beyond the ends of the range (no
                // date of it, or only some, has a day number)
                push(out, format!("fmt_flags {ct} {j} {ye} {m} {}", g.rng.range(0, 40)));
            } else {
                emit(sub, g, out);
            }
        }
        "C06" => {
            let (ct, oc) = g.cal();
            let j = g.jdn(&oc);
            let n = 1 + g.rng.below(12);
            let mut ops = Vec::new();
            for _ in 0..n {
                let op = match g.rng.below(22) {
                    0..=2 => "s".to_string(),
                    3..=5 => "p".to_string(),
                    16 => "L".into(),
                    17 => "E".into(),
                    18 => (*g.rng.pick(&["A", "a"])).into(),
                    19 => (*g.rng.pick(&["Df", "Dl", "L3", "L9", "E3", "E9", "A3", "A9", "a3", "a9", "LS", "AS"])).into(),
                    20 => "F".into(),
                    21 => "f".into(),
                    6 => "y".into(),
                    7 => "o".into(),
                    8 => "t".into(),
                    9 => "T".into(),
                    10 => "n".into(),
                    11 => "l".into(),
                    12 => "g".into(),
                    13 => "u".into(),
                    14 => "j".into(),
                    _ => format!("c{}", g.cal().0),
                };
                ops.push(op);
            }
            push(out, format!("hist {ct} {j} {}", ops.join(" ")));
            // dates handed out by `dates()` under every way of driving the iterator (next, nth,
            // nth_back, from both ends), in the month of the date and in the months cut short by
            // the ends of the day-number range
            if g.rng.chance(1, 4) {
                let jj = match g.rng.below(4) {
                    0 => I32_MIN + g.rng.range(0, 40),
                    1 => I32_MAX - g.rng.range(0, 40),
                    _ => j,
                };
                let (y, m, _) = oc.label(jj);
                if (I32_MIN..=I32_MAX).contains(&y) {
                    let n = 2 + g.rng.below(7);
                    let dops: String = (0..n).map(|_| *g.rng.pick(&['f', 'f', 'b', 'b', 'n', 'm', 'N', 'M', 'z', 'r', 'x', 'w'])).collect();
                    push(out, format!("dates_ops {ct} {y} {m} {dops}"));
                }
            }
            // "equality, ordering and hashing of dates never disagree": the date the history ends
            // with against the same day reached directly, in the same and in another calendar
            if g.rng.chance(1, 3) {
                let keep: Vec<String> = ops.iter().filter(|o| !matches!(o.as_str(), "s" | "p" | "l" | "g" | "L" | "E" | "Df" | "Dl")
                    && !o.starts_with(|c: char| "LEAa".contains(c))).cloned().collect();
                let (c2, _) = if g.rng.chance(1, 2) { (ct.clone(), oc) } else { g.cal() };
                let j2 = if g.rng.chance(2, 3) { j } else { clamp(j + g.rng.range(-1, 1), I32_MIN, I32_MAX) };
                push(out, format!("cmp_hist {ct} {j} {} / {c2} {j2}", keep.join(" ")).replace("  ", " "));
            }
        }
        "C07" => {
            let (ct, oc) = g.cal();
            let (mut y, m, d) = g.ymd(&oc);
            if g.rng.chance(1, 12) {
                // "all years in i32": any year of the type, and the years a packed or truncated
                // comparison would confuse with the reformation's
                y = if g.rng.chance(1, 2) { g.alias_year(y) } else { g.year(&oc) };
            }
            push(out, format!("at_ymd {ct} {y} {m} {d}"));
            let o = g.ordinal_arg(&oc, y);
            push(out, format!("at_ord {ct} {y} {o}"));
        }
        "C08" => {
            let (ct, oc) = g.cal();
            let y = g.year(&oc);
            push(out, format!("year {ct} {y}"));
            push(out, format!("yearsum {ct} {y}"));
            if let OCal::Reforming(r) = oc {
                // every year from that of R-1 to that of R (capped)
                let (y0, ..) = oracle::label(Rule::Julian, r - 1);
                let (y1, ..) = oracle::label(Rule::Gregorian, r);
                push(out, format!("year {ct} {y0}"));
                push(out, format!("year {ct} {y1}"));
                if y1 > y0 + 1 {
                    push(out, format!("year {ct} {}", g.rng.range(y0 + 1, y1 - 1)));
                }
            }
        }
        "C09" => {
            let (ct, oc) = g.cal();
            let (mut y, m, d) = g.ymd(&oc);
            if g.rng.chance(1, 10) {
                y = g.alias_year(y);
            }
            push(out, format!("shape {ct} {y} {m}"));
            push(out, format!("shapeq {ct} {y} {m} {d}"));
            push(out, format!("shapeq {ct} {y} {m} {}", g.rng.range(0, 33)));
            if g.rng.chance(1, 4) {
                // a day or ordinal whose low bits are those of a day that exists (a narrowed field or
                // a truncating cast would take it for that day), and the ends of the type
                let hi = *g.rng.pick(&[256i64, 512, 65536, 65536 + 256, 1 << 24, 1 << 31, 4294967040, 0]);
                let lo = if g.rng.chance(1, 2) { d.max(0) } else { g.rng.range(0, 33) };
                push(out, format!("shapeq {ct} {y} {m} {}", (hi + lo).min(4294967295)));
            }
            // the day list taken from both ends in one iterator (a walk that restarts its range
            // when it meets the gap must not forget what the other end has already yielded)
            if g.rng.chance(1, 3) {
                push(out, format!("days_ops {ct} {y} {m} {}", g.ops_for(40, 31)));
            }
            // equality and hashing of shapes: the same month in another calendar, a neighbouring
            // month or year in the same one
            if g.rng.chance(1, 3) {
                let c2 = match g.rng.below(6) {
                    0 | 1 => ct.clone(),
                    2 => "J".to_string(),
                    3 => "G".to_string(),
                    _ => g.cal().0,
                };
                let y2 = if g.rng.chance(3, 4) { y } else { clamp(y + g.rng.range(-1, 1), I32_MIN, I32_MAX) };
                let m2 = if g.rng.chance(3, 4) { m } else { g.rng.range(1, 12) as u32 };
                push(out, format!("shape_eq {ct} {y} {m} {c2} {y2} {m2}"));
            }
        }
        "C10" => {
            let (ct, oc) = g.cal();
            let j = g.jdn(&oc);
            match g.rng.below(4) {
                0 => {
                    push(out, format!("succ {ct} {j}"));
                    push(out, format!("pred {ct} {j}"));
                }
                1 => {
                    let n = g.rng.range(-40, 40);
                    push(out, format!("walk {ct} {j} {n}"));
                }
                2 => {
                    let k = *g.rng.pick(&["later", "earlier", "and_later", "and_earlier"]);
                    push(out, format!("iter {k} {ct} {j} {}", g.rng.below(30)));
                    // the same iterators driven through the provided methods (nth, skip/step_by)
                    let n = 1 + g.rng.below(6);
                    let ops: String = (0..n).map(|_| *g.rng.pick(&['x', 'x', 'n', 'm', 'k', 'S', 'H'])).collect();
                    push(out, format!("iterx {k} {ct} {j} {ops}x"));
                    // one iterator stepped, then jumped a month / a year / four years ahead, then
                    // stepped again over a month end (state kept across a jump must not go stale)
                    if g.rng.chance(1, 2) {
                        let (y, _, _) = oc.label(j);
                        let feb = oc.find(y, 2, 20 + g.rng.range(0, 8)).unwrap_or(j);
                        let start = if g.rng.chance(1, 2) { feb } else { j };
                        if (I32_MIN..=I32_MAX).contains(&start) {
                            let jump = *g.rng.pick(&['g', 'y', 'Y', 'q', 'k']);
                            let pre = "x".repeat(1 + g.rng.below(3) as usize);
                            let post = "x".repeat(2 + g.rng.below(12) as usize);
                            push(out, format!("iterx {k} {ct} {start} {pre}{jump}{post}"));
                        }
                    }
                }
                _ => {
                    // into the range limits
                    let k = *g.rng.pick(&["later", "earlier", "and_later", "and_earlier"]);
                    let j = if k.ends_with("later") { I32_MAX - g.rng.range(0, 5) } else { I32_MIN + g.rng.range(0, 5) };
                    push(out, format!("iter {k} {ct} {j} 8"));
                    // a jump past the limit, then next(): the iterator has ended and stays ended
                    let ops: String = (0..3).map(|_| *g.rng.pick(&['x', 'n', 'm', 'k', 'S', 'C', 'Z', 'X', 'W', 'H'])).collect();
                    push(out, format!("iterx {k} {ct} {j} {ops}xx"));
                    // size_hint at either end of the range, whichever way the iterator runs
                    if g.rng.chance(1, 2) {
                        let e = *g.rng.pick(&[I32_MIN, I32_MIN + 1, I32_MAX - 1, I32_MAX]);
                        push(out, format!("iterx {k} {ct} {e} HxHxH"));
                    }
                    // count / last / max / min / size_hint in every state on the way to the limit
                    let ops: String = (0..7).map(|_| format!("x{}", *g.rng.pick(&["C", "Z", "X", "W", "H", ""]))).collect();
                    push(out, format!("iterx {k} {ct} {j} {ops}"));
                }
            }
        }
        "C12" => {
            match g.rng.below(8) {
                0 => push(out, "ref1582".into()),
                1 => {
                    let r = *g.rng.pick(&[R_MIN, R_MAX, 3145930, 19582149, I32_MIN, I32_MAX, 0]) + g.rng.range(-2000, 2000);
                    push(out, format!("reforming {}", clamp(r, I32_MIN, I32_MAX)));
                }
                2 => push(out, format!("reforming {}", g.rng.range(I32_MIN, I32_MAX))),
                3 => push(out, format!("reforming {}", clamp(g.dict_near(), I32_MIN, I32_MAX))),
                4 => push(out, format!("reforming {}", *g.rng.pick(&NCAL))),
                _ => {
                    let (ct, oc) = g.reforming_cal();
                    push(out, format!("boundary {ct}"));
                    // skipped months / years exist only above the thresholds
                    if let OCal::Reforming(r) = oc {
                        let (y0, m0, ..) = oracle::label(Rule::Julian, r - 1);
                        let (y1, ..) = oracle::label(Rule::Gregorian, r);
                        push(out, format!("shape {ct} {y0} {}", (m0 % 12) + 1));
                        push(out, format!("year {ct} {}", (y0 + 1).min(y1)));
                        // and nowhere else: any year of the type
                        let y = match g.rng.below(3) {
                            0 => g.rng.range(I32_MIN, I32_MAX),
                            1 => clamp(g.dict_near(), I32_MIN, I32_MAX),
                            _ => clamp(*g.rng.pick(&[I32_MIN, I32_MAX, 21_474_836, 21_474_837, -21_474_837, 42_949_673, -42_949_673]) + g.rng.range(-2, 2), I32_MIN, I32_MAX),
                        };
                        push(out, format!("shape {ct} {y} {}", g.rng.range(1, 12)));
                        push(out, format!("year {ct} {y}"));
                    }
                }
            }
        }
        "C13" => {
            let (ct, oc) = g.cal();
            if g.rng.chance(1, 24) {
                // the model of std's integer parsing, which the generated parser is built on, against std
                let body: String = match g.rng.below(6) {
                    0 => (*g.rng.pick(&["", "+", "-", "+-1", "-+1", "--1", "++1", "0", "-0", "+0", "00", "-00000000000000000000",
                        "2147483647", "2147483648", "-2147483648", "-2147483649", "4294967295", "4294967296", "+4294967295",
                        "-1", " 1", "1 ", "1_000", "0x10", "1e3", "١٢", "１２", "1\u{660}", "٣", "+٣", "1.0", "١"])).to_string(),
                    1 => format!("{}{}", g.rng.pick(&["", "+", "-"]), g.rng.range(0, 5_000_000_000)),
                    2 => format!("{}{}{}", g.rng.pick(&["", "+", "-"]), "0".repeat(g.rng.below(30) as usize), g.rng.range(0, 5_000_000_000)),
                    3 => format!("{}{}", g.rng.pick(&["", "+", "-"]), g.rng.range(2147483640, 2147483656)),
                    4 => format!("{}{}", g.rng.pick(&["", "+", "-"]), g.rng.range(4294967290, 4294967300)),
                    _ => {
                        let mut t = format!("{}{}", g.rng.pick(&["", "+", "-"]), g.rng.range(0, 100000));
                        let at = g.rng.below(t.len() as u64 + 1) as usize;
                        t.insert(at, *g.rng.pick(&['-', '+', ' ', 'a', '٣', '_', '.', '\u{0}']));
                        t
                    }
                };
                push(out, format!("prim_parse {} {}", g.rng.pick(&["i32", "u32"]), hex_enc(&body)));
                return;
            }
            if g.rng.chance(1, 3) {
                let j = g.jdn(&oc);
                push(out, format!("fmt {ct} {j}"));
                push(out, format!("hist {ct} {j} t T"));
            } else {
                let s = g.date_string(&oc);
                push(out, format!("parse {ct} {}", hex_enc(&s)));
            }
        }
        "C14" => {
            let t = match g.rng.below(8) {
                0 => (*g.rng.pick(&[-185753453990400i64, 185331720383999, 0, -1, 86400, -86400, i64::MIN, i64::MAX])).saturating_add(g.rng.range(-3, 3)),
                1 => g.rng.range(i64::MIN, i64::MAX),
                2 => g.rng.range(-200_000, 200_000) * 86400 + *g.rng.pick(&[-1i64, 0, 1, 86399, 43200]),
                3 => g.dict_near(),
                _ => g.rng.range(-185753453990400 - 1000000, 185331720383999 + 1000000),
            };
            match g.rng.below(6) {
                0 => push(out, format!("unix {t}")),
                1 => {
                    let (ct, oc) = g.cal();
                    // mostly an instant of a day that matters to this calendar (its reformation
                    // window, month and year ends, the range limits)
                    let t = if g.rng.chance(2, 3) {
                        (g.jdn(&oc) - 2440588) * 86400 + *g.rng.pick(&[0i64, 1, 43200, 86399, 86399])
                    } else {
                        t
                    };
                    push(out, format!("at_unix {ct} {t}"));
                }
                2 => {
                    let (_, oc) = g.cal();
                    push(out, format!("jdn2unix {}", g.jdn(&oc)));
                }
                _ => {
                    let before = g.rng.chance(1, 2);
                    let secs: u64 = match g.rng.below(7) {
                        6 => {
                            // the far ends of what the clock type can represent
                            g.hit("clock:extreme");
                            *g.rng.pick(&[i64::MAX as u64, i64::MAX as u64 - 1, i64::MAX as u64 - 2, i64::MAX as u64 + 1,
                                i64::MAX as u64 + 2, u64::MAX, u64::MAX - 1, 1u64 << 62, (1u64 << 62) - 1])
                        }
                        0 => g.rng.below(3),
                        1 => 86400 * g.rng.below(100000) + *g.rng.pick(&[0u64, 1, 86399]),
                        2 => 185753453990400 - 2 + g.rng.below(5),
                        3 => 185331720383999 - 2 + g.rng.below(5),
                        4 => g.rng.below(i64::MAX as u64 / 2),
                        _ => g.rng.below(4_000_000_000),
                    };
                    let nanos = *g.rng.pick(&[0u32, 0, 1, 500_000_000, 999_999_999, 123_456_789]);
                    let b = if before { "b" } else { "a" };
                    if g.rng.chance(1, 2) {
                        push(out, format!("system {b} {secs} {nanos}"));
                    } else {
                        let (ct, oc) = g.cal();
                        let (b, secs) = if g.rng.chance(1, 2) {
                            let t = (g.jdn(&oc) - 2440588) * 86400 + *g.rng.pick(&[0i64, 1, 43200, 86399]);
                            if t < 0 { ("b", t.unsigned_abs()) } else { ("a", t as u64) }
                        } else {
                            (b, secs)
                        };
                        push(out, format!("at_system {ct} {b} {secs} {nanos}"));
                    }
                }
            }
        }
        "C15" => match g.rng.below(8) {
            0 | 1 => {
                let (ct, oc) = g.cal();
                let j = g.jdn(&oc);
                push(out, format!("weekday {j}"));
                push(out, format!("date_weekday {ct} {j}"));
            }
            2 => push(out, format!("weekday {}", g.rng.range(-30, 30))),
            3 => {
                let w = *g.rng.pick(&["i8", "i16", "i32", "i64", "i128", "isize", "u8", "u16", "u32", "u64", "u128", "usize"]);
                let n: i128 = match g.rng.below(5) {
                    0 => g.rng.range(-2, 15) as i128,
                    1 => *g.rng.pick(&[127i128, 128, 255, 256, 257, 258, 259, 263, 268, 65535, 65536, 65537, 65543, 65548, -128, -129,
                        4294967295, 4294967296, 4294967297, 4294967303, 4294967308, 2147483647, 2147483648, -2147483648, -2147483649,
                        18446744073709551615, 18446744073709551616, 18446744073709551617, 18446744073709551623,
                        9223372036854775807, -9223372036854775808, 170141183460469231731687303715884105727, -170141183460469231731687303715884105728]),
                    2 => (g.rng.range(1, 12) as i128) + *g.rng.pick(&[256i128, 65536, 4294967296, 18446744073709551616, -256]),
                    _ => g.rng.range(-300, 300) as i128,
                };
                let k = if g.rng.chance(1, 2) { "month_int" } else { "wd_int" };
                push(out, format!("{k} {w} {n}"));
                if w.starts_with('u') && n > 0 {
                    // the top of the unsigned ranges (not representable in i128 for u128)
                    push(out, format!("{k} u128 340282366920938463463374607431768211455"));
                }
            }
            4 => push(out, "names".into()),
            _ => {
                let names = [
                    "January", "February", "March", "April", "May", "June", "July", "August", "September", "October", "November",
                    "December", "Jan", "Feb", "Mar", "Apr", "Jun", "Jul", "Aug", "Sep", "Oct", "Nov", "Dec", "Monday", "Tuesday",
                    "Wednesday", "Thursday", "Friday", "Saturday", "Sunday", "Mon", "Tue", "Wed", "Thu", "Fri", "Sat", "Sun", "Sept",
                    "Thur", "", "Ma", "Mayo", "Juno",
                ];
                let base = *g.rng.pick(&names);
                let s: String = match g.rng.below(12) {
                    8 | 9 => {
                        // a window of a table of names laid end to end (a lookup that scans a packed
                        // table may accept a hit that straddles two entries), optionally followed by
                        // the tail of a real name
                        let months = ["January", "February", "March", "April", "May", "June", "July", "August", "September",
                            "October", "November", "December"];
                        let days = ["Monday", "Tuesday", "Wednesday", "Thursday", "Friday", "Saturday", "Sunday"];
                        let (tab, fulls): (String, &[&str]) = match g.rng.below(4) {
                            0 => (months.iter().map(|n| &n[..3]).collect::<Vec<_>>().concat(), &months[..]),
                            1 => (days.iter().map(|n| &n[..3]).collect::<Vec<_>>().concat(), &days[..]),
                            2 => (months.concat(), &months[..]),
                            _ => (days.concat(), &days[..]),
                        };
                        let tab = format!("{tab}{tab}");
                        let len = if g.rng.chance(3, 4) { 3 } else { 2 + g.rng.below(8) as usize };
                        let off = g.rng.below((tab.len() / 2) as u64) as usize;
                        let mut w: String = tab[off..off + len].to_string();
                        if g.rng.chance(1, 2) {
                            let f = *g.rng.pick(fulls);
                            w.push_str(&f[3..]);
                        }
                        match g.rng.below(3) {
                            0 => w.to_lowercase(),
                            1 => w.to_uppercase(),
                            _ => w,
                        }
                    }
                    11 => {
                        // a valid name followed by padding up to a length that a truncated length
                        // field would confuse with the name's own (256, 512, 65536 more bytes)
                        let pad = *g.rng.pick(&[256usize, 256, 512, 65536, 255, 257]);
                        let fill = *g.rng.pick(&[' ', 'x', 'a', '.', '\u{1}']);
                        let head = if g.rng.chance(1, 2) { base.to_lowercase() } else { base.to_string() };
                        format!("{head}{}", std::iter::repeat(fill).take(pad).collect::<String>())
                    }
                    10 => {
                        // the head of one name and the tail of another
                        let other = *g.rng.pick(&names);
                        let i = (g.rng.below(4) as usize).min(base.len());
                        let j = (g.rng.below(4) as usize).min(other.len());
                        format!("{}{}", &base[..i], &other[j..])
                    }
                    0 => base.to_string(),
                    1 => base.to_uppercase(),
                    2 => base.to_lowercase(),
                    3 => base.chars().map(|c| if g.rng.chance(1, 2) { c.to_ascii_uppercase() } else { c.to_ascii_lowercase() }).collect(),
                    4 => format!("{base} "),
                    5 => {
                        // ONE character replaced by a non-ASCII character whose Unicode case mapping
                        // collides with it (long s, dotless / dotted i, Kelvin sign, st / fi
                        // ligatures): the rest of the name stays intact
                        let subs: [(&str, &str); 10] = [
                            ("s", "\u{17F}"), ("S", "\u{17F}"), ("i", "\u{131}"), ("I", "\u{130}"), ("k", "\u{212A}"),
                            ("K", "\u{212A}"), ("st", "\u{FB06}"), ("fi", "\u{FB01}"), ("a", "\u{E1}"), ("ss", "\u{DF}"),
                        ];
                        let cands: Vec<(usize, &str, &str)> = subs
                            .iter()
                            .flat_map(|(a, b)| base.match_indices(a).map(move |(i, _)| (i, *a, *b)))
                            .collect();
                        if cands.is_empty() {
                            base.replace('a', "á")
                        } else {
                            let (i, a, b) = *g.rng.pick(&cands);
                            let cased = if g.rng.chance(1, 3) { base.to_lowercase() } else { base.to_string() };
                            format!("{}{}{}", &cased[..i], b, &cased[i + a.len()..])
                        }
                    }
                    6 if g.rng.chance(1, 2) && !base.is_empty() => {
                        // ONE bit of ONE byte flipped (bit 5 is the ASCII case bit; a comparison that
                        // masks more than that bit accepts `Ma9`, `J!nuary`, `$ec`), in any casing
                        g.hit("name:bitflip");
                        let cased = match g.rng.below(3) { 0 => base.to_lowercase(), 1 => base.to_uppercase(), _ => base.to_string() };
                        let mut b = cased.into_bytes();
                        let i = g.rng.below(b.len() as u64) as usize;
                        let bit = *g.rng.pick(&[6u8, 6, 6, 5, 4, 3, 2, 1, 0]);
                        b[i] ^= 1 << bit;
                        if g.rng.chance(1, 3) { b[i] ^= 1 << 5; }
                        String::from_utf8(b).unwrap_or_else(|_| "Ma9".into())
                    }
                    6 => base.chars().take(g.rng.below(10) as usize).collect(),
                    _ => {
                        // something appended or prepended: letters, punctuation, a NUL, and the white space
                        // and line ends a "helpful" trim or `lines()` would swallow
                        let extra = *g.rng.pick(&["s", ".", "day", "\u{0}", "\n", "\r\n", "\t", "\n31", "\nTuesday", "\r", " ",
                            "\u{a0}", "\u{2028}", "\u{85}", "\u{feff}", "\u{200b}"]);
                        if g.rng.chance(1, 4) { format!("{extra}{base}") } else { format!("{base}{extra}") }
                    }
                };
                let k = if g.rng.chance(1, 2) { "month_str" } else { "wd_str" };
                push(out, format!("{k} {}", hex_enc(&s)));
            }
        },
        "C16" => match g.rng.below(8) {
            0 => push(out, "enum_maps".into()),
            1 | 2 => {
                let k = if g.rng.chance(1, 2) { "chrono_from" } else { "time_from" };
                let y = match g.rng.below(6) {
                    0 => *g.rng.pick(&[-262143i64, 262142, -262144, 262143, -9999, 9999, -10000, 10000, 0, -1, 1]),
                    1 => g.rng.range(-262150, 262150),
                    2 => g.phase_year().min(262142),
                    _ => g.rng.range(-9999, 9999),
                };
                let m = if g.rng.chance(1, 12) { g.rng.range(0, 14) } else { g.rng.range(1, 12) };
                let d = if g.rng.chance(1, 4) { *g.rng.pick(&[0i64, 1, 28, 29, 30, 31, 32, 255, 256, 287]) } else { g.rng.range(1, 31) };
                push(out, format!("{k} {y} {m} {d}"));
            }
            _ => {
                let k = if g.rng.chance(1, 2) { "chrono_to" } else { "time_to" };
                let (ct, oc) = g.cal();
                let j = match g.rng.below(6) {
                    0 => {
                        // the four range ends of the foreign types ± 400 days
                        let e = *g.rng.pick(&[
                            oracle::jdn_of(Rule::Gregorian, -262143, 1, 1), oracle::jdn_of(Rule::Gregorian, 262142, 12, 31),
                            oracle::jdn_of(Rule::Gregorian, -9999, 1, 1), oracle::jdn_of(Rule::Gregorian, 9999, 12, 31),
                        ]);
                        e + g.rng.range(-400, 400)
                    }
                    1 => g.rng.range(oracle::jdn_of(Rule::Gregorian, -9999, 1, 1), oracle::jdn_of(Rule::Gregorian, 9999, 12, 31)),
                    _ => g.jdn(&oc),
                };
                push(out, format!("{k} {ct} {j}"));
            }
        },
        "C17" => {
            let (ct, oc) = g.cal();
            match g.rng.below(6) {
                0 => push(out, format!("months_ops {}", g.ops_for(20, 12))),
                1 => {
                    // the two months at the ends of the JDN range
                    let (c, y, m) = *g.rng.pick(&[("G", 5874898i64, 6u32), ("G", -5884323, 5), ("J", 5874777, 10), ("J", -5884202, 3),
                        ("G", 5874898, 7), ("G", -5884323, 4)]);
                    let sz = 1 + g.rng.below(31);
                    push(out, format!("dates_ops {c} {y} {m} {}", g.ops_for(40, sz)));
                    push(out, format!("days_ops {c} {y} {m} {}", g.ops_for(40, sz)));
                }
                _ => {
                    let (y, m, _) = g.ymd(&oc);
                    let k = if g.rng.chance(1, 2) { "days_ops" } else { "dates_ops" };
                    // the month's true length from the oracle, so that exact drains and splits occur
                    let sz = ((1..=31).filter(|&d| oc.find(y, m, d).is_some()).count() as u64).max(1);
                    push(out, format!("{k} {ct} {y} {m} {}", g.ops_for(40, sz)));
                }
            }
        }
        "C18" | "C20" => {
            let mut args: Vec<String> = Vec::new();
            let mut oc = OCal::Gregorian;
            // choose the calendar-selecting options first so positionals are mostly valid for it
            let nopt = g.rng.below(4);
            let npos = g.rng.below(6);
            let mut opts: Vec<Vec<String>> = (0..nopt).map(|_| cli_option(g)).collect();
            if prop == "C20" || g.rng.chance(1, 6) {
                opts.push(vec![(*g.rng.pick(&["-J", "--json"])).to_string()]);
            }
            // the last -j / -r decides
            for o in &opts {
                for (i, t) in o.iter().enumerate() {
                    if t == "-j" || t == "--julian" || (t.starts_with('-') && !t.starts_with("--") && !t.contains('r') && t.contains('j')) {
                        oc = OCal::Julian;
                    }
                    let v = if t == "-r" || t == "--reformation" || t == "-sr" {
                        o.get(i + 1).cloned()
                    } else if let Some(v) = t.strip_prefix("--reformation=") {
                        Some(v.to_string())
                    } else if let Some(p) = t.find('r').filter(|_| t.starts_with('-') && !t.starts_with("--")) {
                        Some(t[p + 1..].trim_start_matches('=').to_string()).filter(|s| !s.is_empty())
                    } else {
                        None
                    };
                    if let Some(v) = v {
                        if let Ok(r) = v.parse::<i64>() {
                            if (R_MIN..=R_MAX).contains(&r) {
                                oc = OCal::Reforming(r);
                            }
                        } else if let Some((_, r)) = COUNTRIES.iter().find(|(c, _)| v.eq_ignore_ascii_case(c)) {
                            oc = OCal::Reforming(*r);
                        }
                    }
                }
            }
            let pos: Vec<String> = (0..npos).map(|_| cli_positional(g, &oc)).collect();
            // interleave options and positionals in random order
            let mut items: Vec<Vec<String>> = opts;
            for p in pos {
                items.push(vec![p]);
            }
            // Fisher–Yates
            for i in (1..items.len()).rev() {
                let k = g.rng.below(i as u64 + 1) as usize;
                items.swap(i, k);
            }
            for it in items {
                args.extend(it);
            }
            if g.rng.chance(1, 10) {
                let i = g.rng.below(args.len() as u64 + 1) as usize;
                args.insert(i, "--".into());
            }
            if g.rng.chance(1, 30) {
                let i = g.rng.below(args.len() as u64 + 1) as usize;
                args.insert(i, (*g.rng.pick(&["-h", "--help", "-V", "--version", "-c", "--countries", "--help=x", "-hq", "-qh"])).to_string());
            }
            push(out, format!("cli @0 {}", hexargs(&args)).trim_end().to_string());
        }
        "C19" => {
            if g.rng.chance(1, 3) {
                // "never crashes" also on the command lines a user would type: options that select a
                // calendar and arguments that are valid for it, aimed at the days that matter in it
                g.hit("cli:well-formed");
                let like = if g.rng.chance(1, 2) { "C18" } else { "C20" };
                return emit(like, g, out);
            }
            let n = g.rng.below(7);
            let mut toks: Vec<Vec<u8>> = Vec::new();
            if g.rng.chance(1, 60) {
                // very many arguments (a counter or a buffer sized for "a few" may wrap): all
                // invalid, all valid, or one invalid argument among valid ones
                g.hit("cli:many-args");
                let k = *g.rng.pick(&[255usize, 256, 257, 300, 512, 513, 1024]);
                let mode = g.rng.below(3);
                let bad_at = g.rng.below(k as u64) as usize;
                for i in 0..k {
                    let bad = mode == 0 || (mode == 2 && i == bad_at);
                    toks.push(if bad { b"abc".to_vec() } else { (2299161 + i as i64).to_string().into_bytes() });
                }
                if g.rng.chance(1, 3) {
                    toks.insert(0, b"-J".to_vec());
                }
            }
            for _ in 0..n {
                let t: Vec<u8> = match g.rng.below(16) {
                    0 => cli_option(g).join(" ").into_bytes(),
                    1 => cli_positional(g, &OCal::Gregorian).into_bytes(),
                    2 => (*g.rng.pick(&["-h", "-V", "-c", "--help", "--version", "--countries", "--", "-", "--=", "-=", "-r", "--reformation", "-r=", "--julian=1", "--help=foo", "-5=3", "-0001-01-01", "-q5", "-5q", "-1-", "--json=", "-Jr"])).as_bytes().to_vec(),
                    3 => {
                        // arbitrary bytes, including invalid UTF-8
                        let k = g.rng.below(6);
                        (0..k).map(|_| 1 + g.rng.below(255) as u8).collect()
                    }
                    4 => {
                        let mut v = b"-".to_vec();
                        let k = 1 + g.rng.below(4);
                        v.extend((0..k).map(|_| *g.rng.pick(b"jJoqsrhVc0123456789=-x\xe9\xff\xc3")));
                        v
                    }
                    5 => {
                        let mut v = b"--".to_vec();
                        v.extend_from_slice(*g.rng.pick(&[&b"julian"[..], b"json", b"ordinal", b"quiet", b"style", b"reformation", b"help", b"hel", b"Help", b"reformation=\xff", b"\xffhelp", b"quiet=", b"style=1"]));
                        v
                    }
                    6 => g.rng.range(-3_000_000, 3_000_000).to_string().into_bytes(),
                    7 => g.rng.range(I32_MIN - 5, I32_MAX + 5).to_string().into_bytes(),
                    8 => {
                        let r = g.reformation();
                        // reformations that skip Feb 29 of a Gregorian leap year etc.
                        format!("-r{r}").into_bytes()
                    }
                    9 => Vec::new(),
                    _ => cli_positional(g, &OCal::Gregorian).into_bytes(),
                };
                if t.contains(&0) {
                    continue; // NUL cannot be passed in argv
                }
                toks.push(t);
            }
            let line = format!("cli @0 {}", toks.iter().map(|t| format!("x{}", hex_of_bytes(t))).collect::<Vec<_>>().join(" "));
            push(out, line.trim_end().to_string());
        }
        _ => {}
    }
}
