//! Direct predicates: the property itself, evaluated on the real library's own answers
//! with the independent oracle (DESIGN.md §7 step 5).  No model involved.
//! Output: `FAIL <property> <description>` lines, then `DIRECT checked=<n> failed=<m>`.

use crate::gen::{Gen, I32_MAX, I32_MIN};
use crate::oracle::{self, OCal, Rule};
use julian::errors::DateError;
use julian::{Calendar, Date, Month, MonthKind, YearKind};

fn mk(oc: &OCal) -> Option<Calendar> {
    match *oc {
        OCal::Julian => Some(Calendar::JULIAN),
        OCal::Gregorian => Some(Calendar::GREGORIAN),
        OCal::Reforming(r) => Calendar::reforming(r as i32).ok(),
    }
}

fn month(m: u32) -> Month {
    Month::try_from(m).unwrap()
}

struct Ctx {
    checked: u64,
    failed: u64,
    prop: String,
}

impl Ctx {
    fn check(&mut self, ok: bool, what: impl FnOnce() -> String) {
        self.checked += 1;
        if !ok {
            self.failed += 1;
            if self.failed <= 20 {
                println!("FAIL {} {}", self.prop, what());
            }
        }
    }
}

/// the oracle's full description of day j in calendar oc: (y, m, d, ordinal, day ordinal)
fn describe(oc: &OCal, j: i64) -> (i64, u32, i64, i64, i64) {
    let (y, m, d) = oc.label(j);
    let (ya, _) = oc.year_span(y).unwrap();
    // first day of the month: walk back while the label stays in (y, m)
    let mut f = j;
    while f > ya && {
        let (y2, m2, _) = oc.label(f - 1);
        y2 == y && m2 == m
    } {
        f -= 1;
    }
    (y, m, d, j - ya + 1, j - f + 1)
}

fn canon_ok(d: &Date) -> bool {
    *d == d.calendar().at_jdn(d.julian_day_number())
}

/// The date of day `j` in `cal` as every public producer hands it out: construction from its
/// labels, parsing its text, the month's shape and iterator (driven in several ways), stepping and
/// iterating from the neighbouring days (with and without jumps inside one iterator), conversion
/// from other calendars, the foreign crates, timestamps, the boundary accessors.  A property that
/// speaks about "a date" of the calendar is checked on all of them, not only on `at_jdn(j)`.
fn producers(cal: &Calendar, j: i32, g: &mut Gen) -> Vec<(&'static str, Date)> {
    let mut out: Vec<(&'static str, Option<Date>)> = Vec::new();
    let d = cal.at_jdn(j);
    out.push(("at_ymd", cal.at_ymd(d.year(), d.month(), d.day()).ok()));
    out.push(("at_ordinal_date", cal.at_ordinal_date(d.year(), d.ordinal()).ok()));
    out.push(("parse_date ymd", cal.parse_date(&d.to_string()).ok()));
    out.push(("parse_date ordinal", cal.parse_date(&format!("{d:#}")).ok()));
    if let Some(s) = cal.month_shape(d.year(), d.month()) {
        let k = d.day_ordinal();
        out.push(("nth_date", s.nth_date(k)));
        // (the iterator starts at the first day whose day number is representable)
        let full = s.dates();
        let len = full.len() as u32;
        let first_k = full.clone().next().map_or(1, |x| x.day_ordinal());
        if k >= first_k {
            out.push(("dates().nth", s.dates().nth((k - first_k) as usize)));
            out.push(("dates().skip().next", s.dates().skip((k - first_k) as usize).next()));
        }
        out.push(("dates().rev().find", s.dates().rev().find(|x| x.day() == d.day())));
        // one iterator: next, a jump, next
        if k >= first_k + 2 {
            let mut it = s.dates();
            it.next();
            it.nth((k - first_k - 2) as usize);
            out.push(("dates(): next, nth, next", it.next()));
        }
        let last_k = first_k + len.saturating_sub(1);
        if len >= 3 && k + 2 <= last_k {
            let mut it = s.dates();
            it.next_back();
            it.nth_back((last_k - k - 2) as usize);
            out.push(("dates(): next_back, nth_back, next_back", it.next_back()));
        }
    }
    if j > i32::MIN {
        let p = cal.at_jdn(j - 1);
        out.push(("pred-day.succ", p.succ()));
        out.push(("pred-day.later().next", p.later().next()));
        out.push(("pred-day.and_later().nth(1)", p.and_later().nth(1)));
        let back = *g.rng.pick(&[3i64, 30, 367, 1462]);
        if i64::from(j) - back >= I32_MIN {
            let q = cal.at_jdn((i64::from(j) - back) as i32);
            let mut it = q.later();
            it.next();
            it.nth((back - 3) as usize);
            out.push(("later(): next, nth, next", it.next()));
            out.push(("later().skip().next", q.later().skip((back - 1) as usize).next()));
        }
    }
    if j < i32::MAX {
        let n = cal.at_jdn(j + 1);
        out.push(("succ-day.pred", n.pred()));
        out.push(("succ-day.earlier().next", n.earlier().next()));
        out.push(("succ-day.and_earlier().nth(1)", n.and_earlier().nth(1)));
        let fwd = *g.rng.pick(&[3i64, 30, 367, 1462]);
        if i64::from(j) + fwd <= I32_MAX {
            let q = cal.at_jdn((i64::from(j) + fwd) as i32);
            let mut it = q.earlier();
            it.next();
            it.nth((fwd - 3) as usize);
            out.push(("earlier(): next, nth, next", it.next()));
        }
    }
    out.push(("succ then pred", d.succ().and_then(|x| x.pred())));
    out.push(("pred then succ", d.pred().and_then(|x| x.succ())));
    out.push(("and_later().next", d.and_later().next()));
    out.push(("and_earlier().next", d.and_earlier().next()));
    for c2 in [Calendar::JULIAN, Calendar::GREGORIAN, Calendar::REFORM1582] {
        out.push(("convert_to from a fixed calendar", Some(c2.at_jdn(j).convert_to(*cal))));
    }
    let (_, o2) = g.reforming_cal();
    if let Some(c2) = mk(&o2) {
        out.push(("convert_to from a reforming calendar", Some(c2.at_jdn(j).convert_to(*cal))));
        out.push(("there and back", Some(d.convert_to(c2).convert_to(*cal))));
    }
    out.push(("chrono round trip", chrono::NaiveDate::try_from(d).ok().map(|x| Date::from(x).convert_to(*cal))));
    out.push(("time round trip", time::Date::try_from(d).ok().map(|x| Date::from(x).convert_to(*cal))));
    if *cal == Calendar::GREGORIAN {
        // the foreign conversions hand out dates of the Gregorian calendar: taken as they come
        out.push(("From<chrono::NaiveDate>", chrono::NaiveDate::try_from(d).ok().map(Date::from)));
        out.push(("From<time::Date>", time::Date::try_from(d).ok().map(Date::from)));
    }
    out.push(("at_unix_time", cal.at_unix_time(julian::jdn2unix(j)).ok().map(|x| x.0)));
    if let Some(f) = cal.first_gregorian_date() {
        if f.julian_day_number() == j {
            out.push(("first_gregorian_date", Some(f)));
        }
    }
    if let Some(l) = cal.last_julian_date() {
        if l.julian_day_number() == j {
            out.push(("last_julian_date", Some(l)));
        }
    }
    out.into_iter().filter_map(|(n, x)| x.map(|x| (n, x))).collect()
}

fn in_i32(x: i64) -> bool {
    (I32_MIN..=I32_MAX).contains(&x)
}

/// natural length of month (y, m) in calendar oc: the ordinary month table, with
/// February's leap day decided by the rule in force at the end of that February
fn natural_len(oc: &OCal, y: i64, m: u32) -> i64 {
    let rule = match *oc {
        OCal::Julian => Rule::Julian,
        OCal::Gregorian => Rule::Gregorian,
        OCal::Reforming(r) => {
            // (y, m) < (year, month) of the Gregorian label of R  ⇒  the Julian rule
            let (ry, rm, _, _) = oracle::label(Rule::Gregorian, r);
            if (y, m) < (ry, rm) {
                Rule::Julian
            } else {
                Rule::Gregorian
            }
        }
    };
    oracle::month_len(oracle::leap(rule, y), m)
}

/// properties whose direct predicate needs no calendar
fn one_case_global(prop: &str, g: &mut Gen, cx: &mut Ctx) -> bool {
    match prop {
        "C12" => {
            // dense sweeps of the two neighbourhoods where acceptance changes: the years 190–300,
            // in which the two calendars drift from one day apart to agreement (every candidate
            // below 1830692 must be refused), and everything from 44000 below the top of the
            // accepted range to Jdnum::MAX
            if g.rng.chance(1, 40) {
                let (a, b) = if g.rng.chance(1, 2) { (1_790_000i64, 1_832_700i64) } else { (2_147_395_000i64, I32_MAX) };
                let lo = g.rng.range(a, b);
                for r in lo..=(lo + 3000).min(b) {
                    use julian::errors::ReformingError as E;
                    let ok = match Calendar::reforming(r as i32) {
                        Ok(_) => (crate::gen::R_MIN..=crate::gen::R_MAX).contains(&r),
                        Err(E::InvalidReformation) => r < crate::gen::R_MIN,
                        Err(E::Arithmetic) => r > crate::gen::R_MAX,
                    };
                    cx.check(ok, || format!("reforming({r}) = {:?}", Calendar::reforming(r as i32).map(|c| c.reformation())));
                }
            }
            // accepted exactly on 1830692..=2147439588; below: not skipping forward; above: overflow
            let r = match g.rng.below(6) {
                0 => *g.rng.pick(&[crate::gen::R_MIN, crate::gen::R_MAX, I32_MIN, I32_MAX, -2147439515, 0]) + g.rng.range(-3, 3),
                1 => g.rng.range(I32_MIN, I32_MIN + 100_000),
                2 => g.rng.range(crate::gen::R_MAX - 1000, I32_MAX),
                3 => g.dict_near(),
                _ => g.rng.range(I32_MIN, I32_MAX),
            }
            .clamp(I32_MIN, I32_MAX);
            let res = Calendar::reforming(r as i32);
            use julian::errors::ReformingError;
            let expect_ok = (crate::gen::R_MIN..=crate::gen::R_MAX).contains(&r);
            match res {
                Ok(c) => {
                    cx.check(expect_ok, || format!("reforming({r}) accepted"));
                    cx.check(
                        c.reformation() == Some(r as i32) && c.is_reforming() && !c.is_proleptic(),
                        || format!("reforming({r}) accessors"),
                    );
                    let lj = c.last_julian_date().unwrap();
                    let fg = c.first_gregorian_date().unwrap();
                    cx.check(
                        (lj.year(), lj.month(), lj.day()) < (fg.year(), fg.month(), fg.day())
                            && i64::from(lj.julian_day_number()) == r - 1
                            && i64::from(fg.julian_day_number()) == r,
                        || format!("reforming({r}) boundary dates {lj:?} {fg:?}"),
                    );
                    // whole months are skipped only from 3145930 on, whole years only from 19582149 on
                    let months_skipped = (lj.year()..=fg.year().min(lj.year().saturating_add(1)))
                        .any(|y| (1..=12u32).any(|m| c.month_shape(y, month(m)).is_none()));
                    cx.check(!months_skipped || r >= 3145930, || format!("reforming({r}) skips a whole month"));
                    let years_skipped = fg.year() > lj.year() && c.year_kind(lj.year() + 1) == YearKind::Skipped;
                    cx.check(!years_skipped || r >= 19582149, || format!("reforming({r}) skips a whole year"));
                    // … and that holds for every year of the type, not only around the reformation
                    for _ in 0..4 {
                        let y = match g.rng.below(3) {
                            0 => g.rng.range(I32_MIN, I32_MAX),
                            1 => g.dict_near().clamp(I32_MIN, I32_MAX),
                            _ => *g.rng.pick(&[I32_MIN, I32_MAX, 21_474_836, 21_474_837, -21_474_837, 42_949_673, -42_949_673]) + g.rng.range(-2, 2),
                        }
                        .clamp(I32_MIN, I32_MAX) as i32;
                        let m = month(g.rng.range(1, 12) as u32);
                        cx.check(c.month_shape(y, m).is_some() || r >= 3145930, || format!("reforming({r}) reports month {y}-{m:?} as wholly skipped"));
                        cx.check(c.year_kind(y) != YearKind::Skipped || r >= 19582149, || format!("reforming({r}) reports year {y} as wholly skipped"));
                    }
                }
                Err(ReformingError::InvalidReformation) => cx.check(r < crate::gen::R_MIN, || format!("reforming({r}) = InvalidReformation")),
                Err(ReformingError::Arithmetic) => cx.check(r > crate::gen::R_MAX, || format!("reforming({r}) = Arithmetic")),
                #[allow(unreachable_patterns)]
                Err(other) => cx.check(false, || format!("reforming({r}) = {other:?}")),
            }
            true
        }
        "C14" => {
            let t: i64 = match g.rng.below(5) {
                0 => (*g.rng.pick(&[-185753453990400i64, 185331720383999, 0, -1, 86400, -86400, i64::MIN, i64::MAX])).saturating_add(g.rng.range(-3, 3)),
                1 => g.rng.range(i64::MIN, i64::MAX),
                2 => g.rng.range(-200_000, 200_000) * 86400 + *g.rng.pick(&[-1i64, 0, 1, 86399, 43200]),
                _ => g.rng.range(-185753453990400 - 1000000, 185331720383999 + 1000000),
            };
            let day = i128::from(t).div_euclid(86400) + 2440588;
            let sec = i128::from(t).rem_euclid(86400);
            let r = julian::unix2jdn(t);
            if (i128::from(I32_MIN)..=i128::from(I32_MAX)).contains(&day) {
                cx.check(r == Ok((day as i32, sec as u32)), || format!("unix2jdn({t}) = {r:?}, expected ({day}, {sec})"));
            } else {
                cx.check(r.is_err(), || format!("unix2jdn({t}) = {r:?}, expected an error"));
            }
            cx.check(r.is_ok() == (-185753453990400..=185331720383999).contains(&t), || format!("unix2jdn({t}) range"));
            // system time: floor of the instant
            let before = g.rng.chance(1, 2);
            let secs = match g.rng.below(3) {
                0 => g.rng.below(4),
                1 => 86400 * g.rng.below(100000) + *g.rng.pick(&[0u64, 1, 86399]),
                _ => g.rng.below(4_000_000_000),
            };
            let nanos = *g.rng.pick(&[0u32, 1, 999, 1000, 999_999, 1_000_000, 500_000_000, 999_999_999]);
            let d = std::time::Duration::new(secs, nanos);
            let st = if before { std::time::UNIX_EPOCH.checked_sub(d) } else { std::time::UNIX_EPOCH.checked_add(d) };
            if let Some(st) = st {
                let total: i128 = i128::from(secs) * 1_000_000_000 + i128::from(nanos);
                let inst = if before { -total } else { total };
                let fl = inst.div_euclid(1_000_000_000);
                let expect = (fl.div_euclid(86400) + 2440588, fl.rem_euclid(86400));
                let got = julian::system2jdn(st);
                cx.check(got == Ok((expect.0 as i32, expect.1 as u32)), || format!("system2jdn(epoch {} {secs}s {nanos}ns) = {got:?}, expected {expect:?}", if before { "-" } else { "+" }));
                let at = Calendar::GREGORIAN.at_system_time(st);
                cx.check(at.map(|(dd, s)| (i128::from(dd.julian_day_number()), i128::from(s))) == Ok(expect), || format!("at_system_time epoch{}{secs}s{nanos}ns", if before { "-" } else { "+" }));
            }
            let j = g.rng.range(I32_MIN, I32_MAX);
            cx.check(julian::jdn2unix(j as i32) == (j - 2440588) * 86400, || format!("jdn2unix({j})"));
            if g.rng.chance(1, 16) {
                // the clock, asked by several calendars in a row on one thread: each answer is the
                // asking calendar's date for the day the clock is in, whoever asked before
                let cals: Vec<Calendar> = (0..3).filter_map(|_| mk(&g.cal().1)).collect();
                let before = julian::system2jdn(std::time::SystemTime::now());
                let answers: Vec<_> = cals.iter().map(|c| (c.now(), c.at_system_time(std::time::SystemTime::now()))).collect();
                let after = julian::system2jdn(std::time::SystemTime::now());
                if let (Ok((jb, _)), Ok((ja, _))) = (before, after) {
                    for (c, (n, a)) in cals.iter().zip(answers) {
                        for (what, r) in [("now", n), ("at_system_time(now)", a)] {
                            match r {
                                Ok((d, secs)) => {
                                    let j = d.julian_day_number();
                                    cx.check(jb <= j && j <= ja && secs < 86400, || format!("{c:?}.{what}() = day {j} second {secs}, clock says day {jb}..{ja}"));
                                    cx.check(d.calendar() == *c && d == c.at_jdn(j), || format!("{c:?}.{what}() = {d:?}, expected {:?}", c.at_jdn(j)));
                                }
                                Err(e) => cx.check(false, || format!("{c:?}.{what}() = {e:?}")),
                            }
                        }
                    }
                }
            }
            true
        }
        _ => false,
    }
}

fn one_case(prop: &str, g: &mut Gen, cx: &mut Ctx) {
    if one_case_global(prop, g, cx) {
        return;
    }
    let (mut ct, mut oc) = g.cal();
    if prop == "C02" {
        // C02 is about the two proleptic calendars only
        if g.rng.chance(1, 2) {
            ct = "J".into();
            oc = OCal::Julian;
        } else {
            ct = "G".into();
            oc = OCal::Gregorian;
        }
    }
    if prop == "C03" && !matches!(oc, OCal::Reforming(_)) {
        let (c2, o2) = g.reforming_cal();
        ct = c2;
        oc = o2;
    }
    let Some(cal) = mk(&oc) else {
        cx.check(false, || format!("calendar {ct} could not be built"));
        return;
    };
    let j = g.jdn(&oc);
    let ji = j as i32;
    match prop {
        "C01" | "C02" | "C03" | "C04" | "C11" | "C15" => {
            // each property checks only its own clauses (DESIGN.md 0.6)
            let is = |p: &str| prop == p;
            if is("C02") && matches!(oc, OCal::Reforming(_)) || is("C03") && !matches!(oc, OCal::Reforming(_)) {
                return;
            }
            let d = cal.at_jdn(ji);
            let (y, m, dd, ord, dord) = describe(&oc, j);
            if (is("C01") || is("C02") || is("C03") || is("C04") || is("C11")) && g.rng.chance(1, 3) {
                // the same clauses for the date of day j as every other producer hands it out
                for (name, x) in producers(&cal, ji, g) {
                    let xj = i64::from(x.julian_day_number());
                    let (ey, em, ed, eord, edord) = describe(&oc, xj);
                    if is("C01") && matches!(name, "at_ymd" | "at_ordinal_date") {
                        // C01 speaks about feeding the labels back; the other producers are C06's
                        cx.check(x == d, || format!("{ct} day {j} via {name}: {x:?} is not the date at_jdn returns"));
                    }
                    if is("C02") || is("C03") {
                        cx.check(
                            xj == j && (i64::from(x.year()), x.month().number(), i64::from(x.day())) == (ey, em, ed),
                            || format!("{ct} day {j} via {name}: reports day {xj}, labelled {x}, expected {ey}-{em}-{ed}"),
                        );
                        if let OCal::Reforming(r) = oc {
                            cx.check(x.is_julian() == (xj < r) && x.is_gregorian() == (xj >= r), || format!("{ct} day {j} via {name}: style flags"));
                        }
                    }
                    if is("C04") {
                        cx.check(
                            xj == j && i64::from(x.ordinal()) == eord && i64::from(x.day_ordinal()) == edord
                                && x.ordinal0() + 1 == x.ordinal() && x.day_ordinal0() + 1 == x.day_ordinal(),
                            || format!("{ct} day {j} via {name}: ordinal {} day_ordinal {} expected {eord} {edord}", x.ordinal(), x.day_ordinal()),
                        );
                    }
                    if is("C11") {
                        use std::cmp::Ordering;
                        cx.check(
                            (x.cmp(&d) == Ordering::Equal) == (x == d) && (x != d || crate::run::hash_pub(&x) == crate::run::hash_pub(&d))
                                && x.cmp(&d) == Ordering::Equal,
                            || format!("{ct} day {j} via {name}: {x:?} against the directly constructed date: cmp {:?}, == {}", x.cmp(&d), x == d),
                        );
                    }
                }
            }
            if is("C01") || is("C02") || is("C03") {
                cx.check(i64::from(d.julian_day_number()) == j, || format!("{ct} at_jdn({j}).jdn = {}", d.julian_day_number()));
            }
            if is("C02") || is("C03") {
                cx.check(
                    i64::from(d.year()) == y && d.month().number() == m && i64::from(d.day()) == dd,
                    || format!("{ct} at_jdn({j}) label {}-{}-{} expected {y}-{m}-{dd}", d.year(), d.month().number(), d.day()),
                );
            }
            if is("C04") {
                cx.check(i64::from(d.ordinal()) == ord && i64::from(d.day_ordinal()) == dord, || {
                    format!("{ct} at_jdn({j}) ordinal {} day_ordinal {} expected {ord} {dord}", d.ordinal(), d.day_ordinal())
                });
                cx.check(d.ordinal0() + 1 == d.ordinal() && d.day_ordinal0() + 1 == d.day_ordinal(), || format!("{ct} {j} zero-based ordinals"));
            }
            if is("C01") {
                cx.check(cal.at_ymd(d.year(), d.month(), d.day()).map(|x| x.julian_day_number()) == Ok(ji), || format!("{ct} at_ymd of at_jdn({j}) does not lead back"));
                cx.check(cal.at_ordinal_date(d.year(), d.ordinal()).map(|x| x.julian_day_number()) == Ok(ji), || format!("{ct} at_ordinal_date of at_jdn({j}) does not lead back"));
            }
            if is("C03") {
                if let OCal::Reforming(r) = oc {
                    cx.check(d.is_julian() == (j < r) && d.is_gregorian() == (j >= r), || format!("{ct} {j} style flags"));
                    // the same for the dates obtained by *constructing* the label of the day
                    // (year/month/day, year/day-of-year, text): whatever day number such a date
                    // reports, its label must be that day's Julian label below R and its Gregorian
                    // label from R on, and its style flags must say which
                    let shape = cal.month_shape(d.year(), d.month());
                    let built = [
                        cal.at_ymd(d.year(), d.month(), d.day()).ok(),
                        cal.at_ordinal_date(d.year(), d.ordinal()).ok(),
                        cal.parse_date(&d.to_string()).ok(),
                        // the same day as the month's shape and its iterator hand it out
                        shape.and_then(|s| s.nth_date(d.day_ordinal())),
                        shape.and_then(|s| s.dates().nth((d.day_ordinal() - 1) as usize)),
                        shape.and_then(|s| s.dates().rev().find(|x| x.day() == d.day())),
                    ];
                    for x in built.iter().flatten() {
                        let xj = i64::from(x.julian_day_number());
                        let (ey, em, ed) = oc.label(xj);
                        cx.check(
                            (i64::from(x.year()), x.month().number(), i64::from(x.day())) == (ey, em, ed)
                                && x.is_julian() == (xj < r)
                                && x.is_gregorian() == (xj >= r),
                            || format!("{ct}: the date built from the label of day {j} reports day {xj} but is labelled {x}"),
                        );
                    }
                }
            }
            if j < I32_MAX {
                let e = cal.at_jdn(ji + 1);
                if is("C01") {
                    cx.check((d.year(), d.month(), d.day()) != (e.year(), e.month(), e.day()), || format!("{ct} days {j} and {} share a label", j + 1));
                }
                if is("C11") {
                    cx.check(
                        (d.year(), d.month(), d.day()) < (e.year(), e.month(), e.day()) && (d.year(), d.ordinal()) < (e.year(), e.ordinal()),
                        || format!("{ct} labels not increasing at {j}"),
                    );
                    cx.check(d < e && d != e, || format!("{ct} dates not increasing at {j}"));
                }
                if is("C04") {
                    let (y2, ..) = oc.label(j + 1);
                    if y2 != y {
                        cx.check(d.ordinal() == cal.year_length(d.year()), || {
                            format!("{ct} last day of {y} has ordinal {} but year_length {}", d.ordinal(), cal.year_length(d.year()))
                        });
                    }
                }
            }
            if is("C15") {
                cx.check(i64::from(d.weekday().number()) == j.rem_euclid(7) + 1, || format!("{ct} weekday of {j}"));
            }
        }
        "C06" | "C10" | "C13" => {
            let is = |p: &str| prop == p;
            let d = cal.at_jdn(ji);
            let s = d.succ();
            let p = d.pred();
            if is("C06") {
                cx.check(s.map_or(true, |x| canon_ok(&x)) && p.map_or(true, |x| canon_ok(&x)), || format!("{ct} succ/pred of {j} not canonical: {s:?} {p:?}"));
                if g.rng.chance(1, 3) {
                    for (name, x) in producers(&cal, ji, g) {
                        cx.check(canon_ok(&x) && x == d, || format!("{ct} day {j} via {name}: {x:?} is not the calendar's canonical date"));
                    }
                }
            }
            if is("C10") {
            cx.check(s.is_none() == (j == I32_MAX) && s.map_or(true, |x| x == cal.at_jdn(ji + 1)), || format!("{ct} succ of {j}: {s:?}"));
            cx.check(p.is_none() == (j == I32_MIN) && p.map_or(true, |x| x == cal.at_jdn(ji - 1)), || format!("{ct} pred of {j}: {p:?}"));
                if g.rng.chance(1, 3) {
                    // stepping from the date of day j however it was obtained (conversion from another
                    // calendar, parsing, month iteration, the boundary accessors, …)
                    for (name, x) in producers(&cal, ji, g) {
                        let want_s = (j < I32_MAX).then(|| cal.at_jdn(ji + 1));
                        let want_p = (j > I32_MIN).then(|| cal.at_jdn(ji - 1));
                        cx.check(x.succ() == want_s && x.later().next() == want_s && x.and_later().nth(1) == want_s,
                            || format!("{ct} day {j} via {name}: stepping forward gives {:?} / {:?}, expected {want_s:?}", x.succ(), x.later().next()));
                        cx.check(x.pred() == want_p && x.earlier().next() == want_p && x.and_earlier().nth(1) == want_p,
                            || format!("{ct} day {j} via {name}: stepping back gives {:?} / {:?}, expected {want_p:?}", x.pred(), x.earlier().next()));
                    }
                }
            }
            let n = g.rng.below(20) as usize;
            let mut expect = j;
            for x in d.later().take(n) {
                expect += 1;
                if is("C10") {
                    cx.check(i64::from(x.julian_day_number()) == expect && x == cal.at_jdn(expect as i32), || format!("{ct} later from {j}: item at {expect} is {x:?}"));
                }
                if is("C06") {
                    cx.check(canon_ok(&x), || format!("{ct} later from {j}: item {x:?} not canonical"));
                }
            }
            let mut expect = j;
            for x in d.earlier().take(n) {
                expect -= 1;
                if is("C10") {
                    cx.check(i64::from(x.julian_day_number()) == expect && x == cal.at_jdn(expect as i32), || format!("{ct} earlier from {j}: item at {expect} is {x:?}"));
                }
                if is("C06") {
                    cx.check(canon_ok(&x), || format!("{ct} earlier from {j}: item {x:?} not canonical"));
                }
            }
            if is("C10") {
                cx.check(d.and_later().next() == Some(d) && d.and_earlier().next() == Some(d), || format!("{ct} and_later/and_earlier start at {j}"));
            }
            if !is("C06") && !is("C13") {
                return;
            }
            if let Some(lj) = cal.last_julian_date().filter(|_| is("C06")) {
                cx.check(canon_ok(&lj), || format!("{ct} last_julian_date not canonical: {lj:?}"));
            }
            if let Some(fg) = cal.first_gregorian_date().filter(|_| is("C06")) {
                cx.check(canon_ok(&fg), || format!("{ct} first_gregorian_date not canonical: {fg:?}"));
            }
            let text = d.to_string();
            let parsed = cal.parse_date(&text);
            if is("C06") {
                cx.check(parsed.as_ref().ok().map_or(true, canon_ok), || format!("{ct} parse(format) of {j} not canonical: {parsed:?}"));
                return;
            }
            cx.check(parsed.as_ref().ok() == Some(&d), || format!("{ct} parse(format) of {j}: {parsed:?}"));
            let alt = format!("{d:#}");
            let parsed = cal.parse_date(&alt);
            cx.check(parsed.as_ref().ok() == Some(&d), || format!("{ct} parse(alt format) of {j}: {parsed:?}"));
            // the documented shape: [-]YYYY-MM-DD, [-]YYYY-JJJ, zero padded
            let y = i64::from(d.year());
            let ys = if y < 0 { format!("-{:04}", -y) } else { format!("{y:04}") };
            cx.check(text == format!("{ys}-{:02}-{:02}", d.month().number(), d.day()), || format!("{ct} display of {j} is {text:?}"));
            cx.check(alt == format!("{ys}-{:03}", d.ordinal()), || format!("{ct} alternate display of {j} is {alt:?}"));
        }
        "C07" => {
            let (y, m, d) = g.ymd(&oc);
            let r = cal.at_ymd(y as i32, month(m), d as u32);
            let found = oc.find(y, m, d);
            match found {
                Some(jj) if in_i32(jj) => cx.check(r.as_ref().ok().map(|x| i64::from(x.julian_day_number())) == Some(jj), || {
                    format!("{ct} at_ymd({y},{m},{d}) = {r:?}, expected day {jj}")
                }),
                Some(_) => cx.check(r == Err(DateError::Arithmetic), || format!("{ct} at_ymd({y},{m},{d}) = {r:?}, expected Arithmetic")),
                None => {
                    let days: Vec<i64> = (1..=31).filter(|&x| oc.find(y, m, x).is_some()).collect();
                    let natural = natural_len(&oc, y, m);
                    let expect_skipped = days.is_empty() || (1 <= d && d <= natural);
                    match r {
                        Err(DateError::SkippedDate { year, month: mm, day }) => {
                            cx.check(expect_skipped && i64::from(year) == y && mm.number() == m && i64::from(day) == d, || {
                                format!("{ct} at_ymd({y},{m},{d}) = SkippedDate but days={days:?} natural={natural}")
                            })
                        }
                        Err(DateError::DayOutOfRange { year, month: mm, day, min_day, max_day }) => cx.check(
                            !expect_skipped
                                && i64::from(year) == y
                                && mm.number() == m
                                && i64::from(day) == d
                                && i64::from(min_day) == days[0]
                                && i64::from(max_day) == *days.last().unwrap(),
                            || format!("{ct} at_ymd({y},{m},{d}) = {r:?} but days={days:?} natural={natural}"),
                        ),
                        _ => cx.check(false, || format!("{ct} at_ymd({y},{m},{d}) = {r:?} but the date does not exist")),
                    }
                }
            }
            let o = g.ordinal_arg(&oc, y);
            let r = cal.at_ordinal_date(y as i32, o as u32);
            let n = oc.year_span(y).map_or(0, |(a, b)| b - a + 1);
            if 1 <= o && o <= n {
                let jj = oc.year_span(y).unwrap().0 + o - 1;
                if in_i32(jj) {
                    cx.check(r.as_ref().ok().map(|x| i64::from(x.julian_day_number())) == Some(jj), || format!("{ct} at_ordinal_date({y},{o}) = {r:?}, expected day {jj}"));
                } else {
                    cx.check(r == Err(DateError::Arithmetic), || format!("{ct} at_ordinal_date({y},{o}) = {r:?}, expected Arithmetic"));
                }
            } else {
                cx.check(
                    r == Err(DateError::OrdinalOutOfRange { year: y as i32, ordinal: o as u32, max_ordinal: n as u32 }),
                    || format!("{ct} at_ordinal_date({y},{o}) = {r:?}, expected OrdinalOutOfRange max {n}"),
                );
            }
        }
        "C08" | "C09" => {
            let y = g.year(&oc);
            let n = oc.year_span(y).map_or(0, |(a, b)| b - a + 1);
            let is = |p: &str| prop == p;
            let len = i64::from(cal.year_length(y as i32));
            if is("C08") {
                cx.check(len == n, || format!("{ct} year_length({y}) = {len}, counted {n}"));
            }
            let mut sum = 0;
            for m in 1..=12u32 {
                let days: Vec<i64> = (1..=31).filter(|&x| oc.find(y, m, x).is_some()).collect();
                match cal.month_shape(y as i32, month(m)) {
                    None => {
                        if is("C09") {
                            cx.check(days.is_empty(), || format!("{ct} month_shape({y},{m}) = None but days {days:?}"))
                        }
                    }
                    Some(s) => {
                        sum += i64::from(s.len());
                        if !is("C09") {
                            continue;
                        }
                        let got: Vec<i64> = s.days().map(i64::from).collect();
                        cx.check(got == days, || format!("{ct} month_shape({y},{m}).days() = {got:?}, expected {days:?}"));
                        // the same list through the methods the iterator traits provide (an
                        // implementation may override any of them)
                        cx.check(
                            s.days().count() == days.len()
                                && s.days().last().map(i64::from) == days.last().copied()
                                && s.days().max().map(i64::from) == days.last().copied()
                                && s.days().min().map(i64::from) == days.first().copied()
                                && s.days().nth(2).map(i64::from) == days.get(2).copied()
                                && s.days().nth_back(2).map(i64::from) == days.iter().rev().nth(2).copied()
                                && s.days().skip(1).step_by(3).map(i64::from).eq(days.iter().copied().skip(1).step_by(3))
                                && s.days().fold(0i64, |a, x| a + i64::from(x)) == days.iter().sum::<i64>()
                                && s.days().rev().map(i64::from).eq(days.iter().rev().copied()),
                            || format!("{ct} month_shape({y},{m}).days(): count/last/max/min/nth/nth_back/step_by/fold/rev disagree with the day list {days:?}"),
                        );
                        let dd: Vec<i64> = s.dates().map(|d| i64::from(d.day())).collect();
                        cx.check(
                            s.dates().count() == dd.len()
                                && s.dates().last().map(|d| i64::from(d.day())) == dd.last().copied()
                                && s.dates().nth(2).map(|d| i64::from(d.day())) == dd.get(2).copied()
                                && s.dates().rev().map(|d| i64::from(d.day())).eq(dd.iter().rev().copied())
                                && (dd == days || y.abs() > 5_870_000),
                            || format!("{ct} month_shape({y},{m}).dates(): count/last/nth/rev disagree with the day list {days:?}"),
                        );
                        let mut rev: Vec<i64> = s.days().rev().map(i64::from).collect();
                        rev.reverse();
                        cx.check(rev == days, || format!("{ct} month_shape({y},{m}).days().rev() wrong"));
                        cx.check(!days.is_empty(), || format!("{ct} month_shape({y},{m}) present but the month has no days"));
                        if !days.is_empty() {
                            cx.check(
                                i64::from(s.len()) == days.len() as i64 && i64::from(s.first_day()) == days[0] && i64::from(s.last_day()) == *days.last().unwrap(),
                                || format!("{ct} month_shape({y},{m}) len/first/last {} {} {} vs {days:?}", s.len(), s.first_day(), s.last_day()),
                            );
                        }
                        for x in 0..=33u32 {
                            let pos = days.iter().position(|&v| v == i64::from(x));
                            cx.check(s.contains(x) == pos.is_some(), || format!("{ct} month_shape({y},{m}).contains({x})"));
                            cx.check(s.day_ordinal(x).map(i64::from) == pos.map(|p| p as i64 + 1), || format!("{ct} month_shape({y},{m}).day_ordinal({x})"));
                            let nth = if x >= 1 { days.get(x as usize - 1).copied() } else { None };
                            cx.check(s.nth_day(x).map(i64::from) == nth, || format!("{ct} month_shape({y},{m}).nth_day({x}) = {:?}, expected {nth:?}", s.nth_day(x)));
                        }
                        // the gap is exactly the removed natural days
                        let natural = natural_len(&oc, y, m);
                        let removed: Vec<i64> = (1..=natural).filter(|x| !days.contains(x)).collect();
                        let (gap, kind) = (s.gap(), s.kind());
                        match gap {
                            None => cx.check(kind == MonthKind::Normal && removed.is_empty(), || format!("{ct} month_shape({y},{m}) no gap, kind {kind:?}, removed {removed:?}")),
                            Some(r) => {
                                let (a, b) = (i64::from(*r.start()), i64::from(*r.end()));
                                cx.check(!removed.is_empty() && a == removed[0] && b == *removed.last().unwrap() && (b - a + 1) as usize == removed.len(), || {
                                    format!("{ct} month_shape({y},{m}).gap() = {a}..={b}, removed natural days {removed:?}")
                                });
                                let expect_kind = if a == 1 { MonthKind::Headless } else if b == natural { MonthKind::Tailless } else { MonthKind::Gapped };
                                cx.check(kind == expect_kind, || format!("{ct} month_shape({y},{m}) kind {kind:?}, gap {a}..={b}, days {days:?}"));
                            }
                        }
                        // dates(): the days whose JDN fits
                        let dates: Vec<i64> = s.dates().map(|d| i64::from(d.julian_day_number())).collect();
                        let expect: Vec<i64> = days.iter().filter_map(|&x| oc.find(y, m, x)).filter(|&jj| in_i32(jj)).collect();
                        cx.check(dates == expect && s.dates().len() == expect.len(), || format!("{ct} month_shape({y},{m}).dates() = {dates:?}, expected {expect:?}"));
                        cx.check(s.dates().all(|d| canon_ok(&d)), || format!("{ct} month_shape({y},{m}).dates() not canonical"));
                    }
                }
            }
            if !is("C08") {
                return;
            }
            cx.check(sum == len, || format!("{ct} year {y}: months sum to {sum}, year_length {len}"));
            // year kind
            let kind = cal.year_kind(y as i32);
            let feb29 = oc.find(y, 2, 29).is_some();
            let expect = if n == 0 {
                YearKind::Skipped
            } else {
                let (a, b) = oc.year_span(y).unwrap();
                let whole_j = oc.rule_at(b) == Rule::Julian && n == oracle::year_len(Rule::Julian, y);
                let whole_g = oc.rule_at(a) == Rule::Gregorian && n == oracle::year_len(Rule::Gregorian, y);
                if whole_j {
                    if oracle::leap(Rule::Julian, y) {
                        YearKind::Leap
                    } else {
                        YearKind::Common
                    }
                } else if whole_g {
                    if oracle::leap(Rule::Gregorian, y) {
                        YearKind::Leap
                    } else {
                        YearKind::Common
                    }
                } else if feb29 {
                    YearKind::ReformLeap
                } else {
                    YearKind::ReformCommon
                }
            };
            cx.check(kind == expect, || format!("{ct} year_kind({y}) = {kind:?}, expected {expect:?}"));
        }
        _ => {}
    }
}

pub fn run(prop: &str, count: usize, seed: u64) -> i32 {
    let mut g = Gen::new(seed ^ 0xD1EC7);
    let mut cx = Ctx { checked: 0, failed: 0, prop: prop.to_string() };
    for _ in 0..count {
        let before = cx.failed;
        let r = std::panic::catch_unwind(std::panic::AssertUnwindSafe(|| one_case(prop, &mut g, &mut cx)));
        if r.is_err() {
            cx.checked += 1;
            cx.failed += 1;
            if before < 20 {
                println!("FAIL {prop} the library panicked (rng state {:#x})", g.rng.0);
            }
        }
    }
    let strata: Vec<String> = g.strata.iter().map(|(k, v)| format!("{k}={v}")).collect();
    println!("DIRECT checked={} failed={} strata: {}", cx.checked, cx.failed, strata.join(" "));
    i32::from(cx.failed > 0)
}
