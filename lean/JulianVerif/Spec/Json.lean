/-
Spec/Json.lean — the part of the JSON grammar (RFC 8259) that the julian command's `-J`
output has to fit, as a relation between a JSON *value* and a *text*.

Only what is needed is admitted: integers without fraction or exponent, strings without
escapes, `true`/`false`, arrays, objects, and insignificant whitespace where the RFC allows
it.  Every text accepted here is a JSON text in the sense of the RFC (the relation is a
sub-grammar), so `Doc v s` says: *`s` is a valid JSON document, and it denotes `v`*.
-/
import JulianVerif.Model.Text
namespace JV.Json

/-- JSON values (numbers restricted to integers) -/
inductive Val where
  | int (i : Int)
  | str (s : List Char)
  | bool (b : Bool)
  | arr (items : List Val)
  | obj (members : List (List Char × Val))

/-- RFC 8259 §2: `ws = *( %x20 / %x09 / %x0A / %x0D )` -/
def isWs (c : Char) : Bool := c == ' ' || c == '\t' || c == '\n' || c == '\r'

def Ws (w : List Char) : Prop := ∀ c ∈ w, isWs c = true

/-- RFC 8259 §7: `unescaped = %x20-21 / %x23-5B / %x5D-10FFFF` -/
def unescaped (c : Char) : Bool := decide (32 ≤ c.toNat) && c != '"' && c != '\\'

def Plain (s : List Char) : Prop := ∀ c ∈ s, unescaped c = true

/-- RFC 8259 §6: `int = zero / ( digit1-9 *DIGIT )` -/
def natTok (s : List Char) : Bool :=
  s == ['0'] ||
    (match s with
     | c :: _ => c != '0' && s.all isAsciiDigit
     | [] => false)

/-- `number = [ minus ] int` (no `frac`, no `exp`), with the integer it denotes -/
inductive IntTok : Int → List Char → Prop
  | pos {s : List Char} : natTok s = true → IntTok (digitsVal s 0 : Nat) s
  | neg {s : List Char} : natTok s = true → IntTok (-((digitsVal s 0 : Nat) : Int)) ('-' :: s)

mutual
/-- `Text v s`: `s` is a JSON `value` (no surrounding whitespace) denoting `v` -/
inductive Text : Val → List Char → Prop
  | int {i : Int} {s : List Char} : IntTok i s → Text (.int i) s
  | str {s : List Char} : Plain s → Text (.str s) ('"' :: s ++ ['"'])
  | tru : Text (.bool true) ['t', 'r', 'u', 'e']
  | fls : Text (.bool false) ['f', 'a', 'l', 's', 'e']
  | arrNil {w : List Char} : Ws w → Text (.arr []) ('[' :: w ++ [']'])
  | arr {vs : List Val} {body : List Char} : Elems vs body → Text (.arr vs) ('[' :: body ++ [']'])
  | objNil {w : List Char} : Ws w → Text (.obj []) ('{' :: w ++ ['}'])
  | obj {ms : List (List Char × Val)} {body : List Char} :
      Members ms body → Text (.obj ms) ('{' :: body ++ ['}'])
/-- one or more `ws value ws`, separated by commas -/
inductive Elems : List Val → List Char → Prop
  | one {v : Val} {w1 t w2 : List Char} : Ws w1 → Text v t → Ws w2 → Elems [v] (w1 ++ t ++ w2)
  | cons {v : Val} {vs : List Val} {w1 t w2 rest : List Char} :
      Ws w1 → Text v t → Ws w2 → Elems vs rest → Elems (v :: vs) (w1 ++ t ++ w2 ++ ',' :: rest)
/-- one or more `ws string ws : ws value ws`, separated by commas -/
inductive Members : List (List Char × Val) → List Char → Prop
  | one {k : List Char} {v : Val} {w1 w2 w3 t w4 : List Char} :
      Ws w1 → Plain k → Ws w2 → Ws w3 → Text v t → Ws w4 →
      Members [(k, v)] (w1 ++ '"' :: k ++ '"' :: w2 ++ ':' :: w3 ++ t ++ w4)
  | cons {k : List Char} {v : Val} {ms : List (List Char × Val)} {w1 w2 w3 t w4 rest : List Char} :
      Ws w1 → Plain k → Ws w2 → Ws w3 → Text v t → Ws w4 → Members ms rest →
      Members ((k, v) :: ms) (w1 ++ '"' :: k ++ '"' :: w2 ++ ':' :: w3 ++ t ++ w4 ++ ',' :: rest)
end

/-- RFC 8259 §2: `JSON-text = ws value ws` -/
def Doc (v : Val) (s : List Char) : Prop :=
  ∃ w1 t w2, Ws w1 ∧ Text v t ∧ Ws w2 ∧ s = w1 ++ t ++ w2

end JV.Json
