/-
Spec/Basic.lean — the specification every theorem refers to (DESIGN.md §4).
Short on purpose: leap rules, year tiling with anchors, the month table, and what it
means for a day number to carry a (year, month, day) label.  `/` and `%` are Euclidean.
-/
import JulianVerif.Model.Basic
namespace JV
namespace Spec

inductive Rule where
  | julian | gregorian
  deriving DecidableEq, Repr, Inhabited

/-- astronomical year numbering: 0 and -4 are leap -/
def leap : Rule → Int → Bool
  | .julian, y => y % 4 == 0
  | .gregorian, y => y % 4 == 0 && (y % 100 != 0 || y % 400 == 0)

def yearLen (ρ : Rule) (y : Int) : Int := if leap ρ y then 366 else 365

def monthLen (lp : Bool) : Month → Int
  | .january => 31 | .february => if lp then 29 else 28 | .march => 31 | .april => 30
  | .may => 31 | .june => 30 | .july => 31 | .august => 31 | .september => 30
  | .october => 31 | .november => 30 | .december => 31

/-- days of the year before the first of month `m` -/
def daysBefore (lp : Bool) : Month → Int
  | .january => 0 | .february => 31
  | .march => if lp then 60 else 59 | .april => if lp then 91 else 90
  | .may => if lp then 121 else 120 | .june => if lp then 152 else 151
  | .july => if lp then 182 else 181 | .august => if lp then 213 else 212
  | .september => if lp then 244 else 243 | .october => if lp then 274 else 273
  | .november => if lp then 305 else 304 | .december => if lp then 335 else 334

/-- Julian day number of January 1 of year `y`.  Its meaning is fixed by
`yearStart_succ` (years tile the line) and the anchors below. -/
def yearStart : Rule → Int → Int
  | .julian, y => 365 * (y - 1) + (y - 1) / 4 + 1721424
  | .gregorian, y => 365 * (y - 1) + (y - 1) / 4 - (y - 1) / 100 + (y - 1) / 400 + 1721426

def jdnOf (ρ : Rule) (y : Int) (m : Month) (d : Int) : Int :=
  yearStart ρ y + daysBefore (leap ρ y) m + d - 1

def ValidYMD (ρ : Rule) (y : Int) (m : Month) (d : Int) : Prop :=
  1 ≤ d ∧ d ≤ monthLen (leap ρ y) m

/-- day `j` is (y, m, d) under rule ρ -/
def IsDate (ρ : Rule) (j y : Int) (m : Month) (d : Int) : Prop :=
  ValidYMD ρ y m d ∧ jdnOf ρ y m d = j

/-- the rule in force on day `j` of a calendar reforming on day `R` -/
def side (R j : Int) : Rule := if j < R then .julian else .gregorian

/-- day `j` is (y, m, d) in the calendar reforming on day `R`:
Julian before `R`, Gregorian from `R` on.  C03 *is* this definition. -/
def IsDateR (R j y : Int) (m : Month) (d : Int) : Prop := IsDate (side R j) j y m d

/-! ### the three theorems that give `yearStart` its meaning -/

theorem yearStart_succ (ρ : Rule) (y : Int) : yearStart ρ (y + 1) = yearStart ρ y + yearLen ρ y := by
  cases ρ <;> simp only [yearStart, yearLen, leap]
  · by_cases h : y % 4 = 0 <;> simp [h] <;> omega
  · by_cases h4 : y % 4 = 0 <;> by_cases h100 : y % 100 = 0 <;> by_cases h400 : y % 400 = 0 <;>
      simp [h4, h100, h400] <;> omega

theorem anchor_julian : jdnOf .julian (-4712) .january 1 = 0 := by decide

theorem anchor_gregorian : jdnOf .gregorian (-4713) .november 24 = 0 := by decide

/-- JDN 2460066 = 2023-05-01 Gregorian (a Monday) — a second, modern anchor -/
theorem anchor_modern : jdnOf .gregorian 2023 .may 1 = 2460066 := by decide

end Spec
end JV
