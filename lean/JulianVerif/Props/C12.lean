/-
C12 — Reforming calendars exist for exactly the documented reformation days.
-/
import JulianVerif.Model.Cli
namespace JV.C12
open JV

/-- the hand-typed `REFORM1582` literal is the calendar `reforming(2299161)` computes —
field for field, including the private gap record -/
theorem reform1582_eq : Calendar.mkReforming 2299161 = .ok Calendar.reform1582 := by rfl

/-- the four documented boundary values -/
theorem boundary_values :
    Calendar.mkReforming 1830691 = .error .invalidReformation
    ∧ (∃ c, Calendar.mkReforming 1830692 = .ok c)
    ∧ (∃ c, Calendar.mkReforming 2147439588 = .ok c)
    ∧ Calendar.mkReforming 2147439589 = .error .arithmetic
    ∧ Calendar.mkReforming (-2147483648) = .error .invalidReformation
    ∧ Calendar.mkReforming (-2147483647) = .error .invalidReformation := by
  refine ⟨rfl, ⟨_, rfl⟩, ⟨_, rfl⟩, rfl, rfl, rfl⟩

/-- a constructed calendar reports the day it was built from, is reforming, not proleptic -/
theorem reformation_roundtrip (r : Int) (c : Calendar) (h : Calendar.mkReforming r = .ok c) :
    c.reformation = some r ∧ c.isReforming = true ∧ c.isProleptic = false := by
  simp only [Calendar.mkReforming] at h
  split at h
  · cases h
  · split at h
    · split at h
      · split at h <;> cases h
      · split at h
        · cases h
        · cases h; exact ⟨rfl, rfl, rfl⟩
    · cases h

/-- every ncal country constant (as listed in the CLI table) is an accepted reformation -/
theorem ncal_valid : ∀ e ∈ Cli.nationalReformations, ∃ c, Calendar.mkReforming e.2.2 = .ok c := by
  intro e he
  simp only [Cli.nationalReformations, List.mem_cons, List.mem_nil_iff, or_false] at he
  rcases he with rfl | rfl | rfl | rfl | rfl | rfl | rfl | rfl | rfl | rfl | rfl | rfl | rfl | rfl
    | rfl | rfl | rfl | rfl | rfl | rfl | rfl | rfl | rfl | rfl | rfl | rfl | rfl | rfl | rfl | rfl
    | rfl | rfl | rfl | rfl <;> exact ⟨_, rfl⟩

/-- witnesses at the two thresholds: a wholly skipped month first exists at 3145930
(February 3901), a wholly skipped year first at 19582149 -/
theorem threshold_witnesses :
    (∃ c, Calendar.mkReforming 3145930 = .ok c ∧ c.monthIShape 3901 .february = none)
    ∧ (∃ c, Calendar.mkReforming 3145929 = .ok c ∧ (∀ m, (c.monthIShape 3901 m).isSome = true))
    ∧ (∃ c y, Calendar.mkReforming 19582149 = .ok c ∧ c.yearKind y = .skipped) := by
  refine ⟨⟨_, rfl, rfl⟩, ⟨_, rfl, ?_⟩, ⟨_, 48901, rfl, rfl⟩⟩
  intro m; cases m <;> rfl

end JV.C12
