/-
C12 — Reforming calendars exist for exactly the documented reformation days.
-/
import JulianVerif.Model.Cli
import JulianVerif.Lemmas.Accepts
import JulianVerif.Model.GenLib
namespace JV.C12
open JV Spec

/-- **constructing a reforming calendar succeeds exactly for reformation days 1830692
through 2147439588; earlier days are rejected as not skipping forward and later ones as
arithmetic overflow** — all 2^32 candidates -/
theorem reforming_accepts (r : Int) (hr : InI32 r) :
    (r < 1830692 → Calendar.mkReforming r = .error .invalidReformation)
    ∧ (1830692 ≤ r → r ≤ 2147439588 → ∃ c, Calendar.mkReforming r = .ok c)
    ∧ (2147439588 < r → Calendar.mkReforming r = .error .arithmetic) :=
  mkReforming_cases r hr

/-- the calendar reports the reformation day it was built from, is reforming and not
proleptic -/
theorem reformation_roundtrip (r : Int) (hr : InI32 r) (c : Calendar) (h : Calendar.mkReforming r = .ok c) :
    c.reformation = some r ∧ c.isReforming = true ∧ c.isProleptic = false := by
  obtain ⟨rf, rfl, e, _⟩ := mk_reform r hr c h
  subst e
  exact ⟨rfl, rfl, rfl⟩

/-- **the built-in 1582 calendar is the calendar constructed for day 2299161** — field for
field, including the private gap record, so it is indistinguishable in every observable
respect -/
theorem reform1582_eq : Calendar.mkReforming 2299161 = .ok Calendar.reform1582 := by rfl

/-- every ncal country constant (as listed in the CLI table) is an accepted reformation -/
theorem ncal_valid : ∀ e ∈ Cli.nationalReformations, ∃ c, Calendar.mkReforming e.2.2 = .ok c := by
  intro e he
  simp only [Cli.nationalReformations, List.mem_cons, List.mem_nil_iff, or_false] at he
  rcases he with rfl | rfl | rfl | rfl | rfl | rfl | rfl | rfl | rfl | rfl | rfl | rfl | rfl | rfl
    | rfl | rfl | rfl | rfl | rfl | rfl | rfl | rfl | rfl | rfl | rfl | rfl | rfl | rfl | rfl | rfl
    | rfl | rfl | rfl | rfl <;> exact ⟨_, rfl⟩

/-- **months are wholly skipped only for reformations from 3145930 on** -/
theorem skipped_month_threshold (r : Int) (hr : InI32 r) (c : Calendar)
    (h : Calendar.mkReforming r = .ok c) (y : Int) (m : Month) (hs : c.monthIShape y m = none) :
    3145930 ≤ r := by
  obtain ⟨rf, rfl, e, _⟩ := mk_reform r hr c h
  subst e
  exact rf.skipped_month_threshold y m hs

/-- **whole years are skipped only for reformations from 19582149 on** -/
theorem skipped_year_threshold (r : Int) (hr : InI32 r) (c : Calendar)
    (h : Calendar.mkReforming r = .ok c) (y : Int) (hs : c.yearKind y = .skipped) :
    19582149 ≤ r := by
  obtain ⟨rf, rfl, e, _⟩ := mk_reform r hr c h
  subst e
  exact rf.skipped_year_threshold y hs

/-- the thresholds are attained: February 3901 is wholly skipped at 3145930 and year 48901
at 19582149 -/
theorem threshold_witnesses :
    (∃ c, Calendar.mkReforming 3145930 = .ok c ∧ c.monthIShape 3901 .february = none)
    ∧ (∃ c, Calendar.mkReforming 19582149 = .ok c ∧ c.yearKind 48901 = .skipped) :=
  ⟨⟨_, rfl, rfl⟩, ⟨_, rfl, rfl⟩⟩

/-- the country table the theorems above are about is what bin/libgen reads off
`national_reformations()` in main.rs with the constants of ncal.rs (same codes, names, day numbers, in
`BTreeMap` order), and the built-in 1582 calendar is the literal of lib.rs -/
theorem generated_country_table :
    Gen.nationalReformations = Cli.nationalReformations ∧ Gen.calendarREFORM1582 = Calendar.reform1582 := by
  decide

end JV.C12
