/-
C08 — Year length and year kind describe the actual set of days in the year.
-/
import JulianVerif.Lemmas.Proleptic
import JulianVerif.Lemmas.YearStart
namespace JV.C08
open JV Spec

/-- proleptic calendars: the reported length is the number of days between consecutive
January firsts, equals the sum of the month lengths, and the kind is Leap/Common by rule -/
theorem year_proleptic (ρ : Rule) (y : Int) :
    (ruleCal ρ).yearLength y = yearStart ρ (y + 1) - yearStart ρ y
    ∧ (ruleCal ρ).yearLength y = (ruleCal ρ).sumAll y Month.all
    ∧ (ruleCal ρ).yearKind y = (if leap ρ y then .leap else .common) := by
  refine ⟨?_, ?_, ?_⟩
  · rw [ruleCal_yearLength, yearStart_succ]; omega
  · rw [ruleCal_yearLength, (ruleCal_whole ρ y).sumAll]; rfl
  · cases ρ
    · exact julian_yearKind y
    · exact gregorian_yearKind y

end JV.C08
