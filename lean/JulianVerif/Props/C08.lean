/-
C08 — Year length and year kind describe the actual set of days in the year.
-/
import JulianVerif.Lemmas.Counts
import JulianVerif.Lemmas.ReformLength
namespace JV.C08
open JV Spec

/-- **the reported year length equals the number of dates of the calendar that fall in the
year**: the days whose date lies in year `y` form one block of exactly `year_length y`
consecutive day numbers — or there are none and the length is 0 -/
theorem yearLength_counts (c : Calendar) (hc : WF c) (y : Int) :
    (c.yearLength y = 0 ∧ ∀ j d, c.atJdn? j = some d → d.year ≠ y)
    ∨ (0 < c.yearLength y ∧ ∃ a, ∀ j d, c.atJdn? j = some d →
          (d.year = y ↔ (a ≤ j ∧ j < a + c.yearLength y))) := by
  obtain ⟨A⟩ := hc.accepting
  by_cases hl : A.Live y
  · exact Or.inr ⟨A.pos y hl, A.F y, fun j d h => A.year_block y hl j d h⟩
  · exact Or.inl (A.year_dead y hl)

/-- **the year length equals the sum of the lengths of its months** (the lemma defect D1
violated) -/
theorem yearLength_sum (c : Calendar) (hc : WF c) (y : Int) :
    c.yearLength y = c.sumAll y Month.all := by
  obtain ⟨A⟩ := hc.accepting
  exact A.lenSum y

/-- the year kind of the proleptic calendars -/
theorem yearKind_proleptic (ρ : Rule) (y : Int) :
    (ruleCal ρ).yearKind y = (if leap ρ y then .leap else .common) := by
  cases ρ
  · exact julian_yearKind y
  · exact gregorian_yearKind y

/-- **the year kind is Skipped exactly when the year has no dates** -/
theorem skipped_iff (R : Int) (hR : InI32 R) (c : Calendar) (hc : Calendar.mkReforming R = .ok c)
    (y : Int) : c.yearKind y = .skipped ↔ c.yearLength y = 0 := by
  obtain ⟨rf, rfl, _, _⟩ := mk_reform R hR c hc
  have hpos := rf.yearLength_pos y
  have hle := rf.yP_le_yQ
  constructor
  · intro h
    by_cases hl : rf.Live y
    · exfalso
      -- a live year is never classified Skipped
      simp only [Reform.Live] at hl
      rcases Int.lt_trichotomy y rf.yP with a | a | a
      · rw [rf.yearKind_lt y a] at h; split at h <;> cases h
      · subst a
        rcases Int.lt_or_eq_of_le hle with b | b
        · rw [rf.yearKind_lower b] at h; (repeat' split at h) <;> cases h
        · rw [rf.yearKind_both b] at h; split at h <;> cases h
      · rcases Int.lt_trichotomy y rf.yQ with b | b | b
        · omega
        · subst b
          rw [rf.yearKind_upper a] at h; (repeat' split at h) <;> cases h
        · rw [rf.yearKind_gt y b] at h; split at h <;> cases h
    · simp only [Reform.Live] at hl
      exact rf.yearLength_between y (by omega) (by omega)
  · intro h
    by_cases hl : rf.Live y
    · have := hpos hl; omega
    · simp only [Reform.Live] at hl
      exact rf.yearKind_between y (by omega) (by omega)

end JV.C08
