/-
C08 — Year length and year kind describe the actual set of days in the year.
-/
import JulianVerif.Lemmas.Counts
import JulianVerif.Lemmas.ReformLength
import JulianVerif.Lemmas.YearKindSpec
namespace JV.C08
open JV Spec

/-- **the reported year length equals the number of dates of the calendar that fall in the
year**: the days whose date lies in year `y` form one block of exactly `year_length y`
consecutive day numbers — or there are none and the length is 0 -/
theorem yearLength_counts (c : Calendar) (hc : WF c) (y : Int) :
    (c.yearLength y = 0 ∧ ∀ j d, c.atJdn? j = some d → d.year ≠ y)
    ∨ (0 < c.yearLength y ∧ ∃ a, ∀ j d, c.atJdn? j = some d →
          (d.year = y ↔ (a ≤ j ∧ j < a + c.yearLength y))) := by
  obtain ⟨A⟩ := hc.accepting
  by_cases hl : A.Live y
  · exact Or.inr ⟨A.pos y hl, A.F y, fun j d h => A.year_block y hl j d h⟩
  · exact Or.inl (A.year_dead y hl)

/-- **the year length equals the sum of the lengths of its months** (the lemma defect D1
violated) -/
theorem yearLength_sum (c : Calendar) (hc : WF c) (y : Int) :
    c.yearLength y = c.sumAll y Month.all := by
  obtain ⟨A⟩ := hc.accepting
  exact A.lenSum y

/-- the year kind of the proleptic calendars -/
theorem yearKind_proleptic (ρ : Rule) (y : Int) :
    (ruleCal ρ).yearKind y = (if leap ρ y then .leap else .common) := by
  cases ρ
  · exact julian_yearKind y
  · exact gregorian_yearKind y

/-- **the year kind is Skipped exactly when the year has no dates** -/
theorem skipped_iff (R : Int) (hR : InI32 R) (c : Calendar) (hc : Calendar.mkReforming R = .ok c)
    (y : Int) : c.yearKind y = .skipped ↔ c.yearLength y = 0 := by
  obtain ⟨rf, rfl, _, _⟩ := mk_reform R hR c hc
  have hpos := rf.yearLength_pos y
  have hle := rf.yP_le_yQ
  constructor
  · intro h
    by_cases hl : rf.Live y
    · exfalso
      -- a live year is never classified Skipped
      simp only [Reform.Live] at hl
      rcases Int.lt_trichotomy y rf.yP with a | a | a
      · rw [rf.yearKind_lt y a] at h; split at h <;> cases h
      · subst a
        rcases Int.lt_or_eq_of_le hle with b | b
        · rw [rf.yearKind_lower b] at h; (repeat' split at h) <;> cases h
        · rw [rf.yearKind_both b] at h; split at h <;> cases h
      · rcases Int.lt_trichotomy y rf.yQ with b | b | b
        · omega
        · subst b
          rw [rf.yearKind_upper a] at h; (repeat' split at h) <;> cases h
        · rw [rf.yearKind_gt y b] at h; split at h <;> cases h
    · simp only [Reform.Live] at hl
      exact rf.yearLength_between y (by omega) (by omega)
  · intro h
    by_cases hl : rf.Live y
    · have := hpos hl; omega
    · simp only [Reform.Live] at hl
      exact rf.yearKind_between y (by omega) (by omega)

/-- **the year kind, against the days of the calendar.**  A year lying wholly before the
reformation (its Julian December 31 precedes R) is Common or Leap by the Julian rule and has
its full 365/366 days; a year lying wholly at or after it (its Gregorian January 1 is not
before R) is Common or Leap by the Gregorian rule with its full days; any other year is
Skipped if it has no days, and otherwise ReformLeap or ReformCommon according to whether
February 29 of that year is a date of the calendar (the clause defect D2 violated). -/
theorem yearKind_spec (R : Int) (hR : InI32 R) (c : Calendar) (hc : Calendar.mkReforming R = .ok c)
    (y : Int) :
    (jdnOf .julian y .december 31 < R →
        c.yearKind y = (if leap .julian y then .leap else .common)
        ∧ c.yearLength y = yearLen .julian y)
    ∧ (R ≤ jdnOf .gregorian y .january 1 →
        c.yearKind y = (if leap .gregorian y then .leap else .common)
        ∧ c.yearLength y = yearLen .gregorian y)
    ∧ (¬ jdnOf .julian y .december 31 < R → ¬ R ≤ jdnOf .gregorian y .january 1 →
        (c.yearLength y = 0 → c.yearKind y = .skipped)
        ∧ (c.yearLength y ≠ 0 → HasFeb29 c y → c.yearKind y = .reformLeap)
        ∧ (c.yearLength y ≠ 0 → ¬ HasFeb29 c y → c.yearKind y = .reformCommon)) := by
  obtain ⟨rf, rfl, rfl, _⟩ := mk_reform R hR c hc
  have hF := rf.hasFeb29_iff' hR hc y
  have hle := rf.yP_le_yQ
  have hlo := rf.label_order
  have bP := Month.number_bounds rf.mP
  have bQ := Month.number_bounds rf.mQ
  have vP := rf.validP
  have vQ := rf.validQ
  have bLP := monthLen_bounds (leap .julian rf.yP) rf.mP
  have bLQ := monthLen_bounds (leap .gregorian rf.yQ) rf.mQ
  have hpos := rf.yearLength_pos
  have hlo' : rf.yP < rf.yQ ∨ (rf.yP = rf.yQ ∧ (rf.mP.number < rf.mQ.number
      ∨ (rf.mP.number = rf.mQ.number ∧ rf.dP + 2 ≤ rf.dQ))) := by
    rcases hlo with a | ⟨e, a | ⟨e2, a⟩⟩
    · exact Or.inl a
    · exact Or.inr ⟨e, Or.inl a⟩
    · exact Or.inr ⟨e, Or.inr ⟨by rw [e2], a⟩⟩
  rw [rf.whollyJ_iff, rf.whollyG_iff]
  refine ⟨?_, ?_, ?_⟩
  · rintro (h | ⟨rfl, hm, hd⟩)
    · exact ⟨rf.yearKind_lt y h, rf.yearLength_lt y h⟩
    · have hlt : rf.yP < rf.yQ := by omega
      have hdec : rf.mP = .december := Month.number_inj _ _ hm
      refine ⟨?_, ?_⟩
      · rw [rf.yearKind_lower hlt, if_pos ⟨hdec, hd⟩]
      · rw [rf.yearLength_yP hlt, Reform.oP, hdec, hd]
        cases h : leap .julian rf.yP <;> simp [daysBefore, yearLen, h]
  · rintro (h | ⟨rfl, hm, hd⟩)
    · exact ⟨rf.yearKind_gt y h, rf.yearLength_gt y h⟩
    · have hlt : rf.yP < rf.yQ := by omega
      have hjan : rf.mQ = .january := Month.number_inj _ _ hm
      refine ⟨?_, ?_⟩
      · rw [rf.yearKind_upper hlt, if_pos ⟨hjan, hd⟩]
      · have hne : ¬ rf.yP = rf.yQ := by omega
        rw [rf.yearLength_yQ, Reform.oP', if_neg hne, Reform.oQ, hjan, hd]
        cases h : leap .gregorian rf.yQ <;> simp [daysBefore, yearLen, h]
  · intro hnJ hnG
    rcases Int.lt_trichotomy y rf.yP with h1 | h1 | h1
    · exact absurd (Or.inl h1) hnJ
    · subst h1
      have hlive : 0 < rf.cal.yearLength rf.yP := hpos rf.yP (by simp [Reform.Live])
      rcases Int.lt_or_eq_of_le hle with h2 | h2
      · have hnd : ¬ (rf.mP = .december ∧ rf.dP = 31) := by
          rintro ⟨a, b⟩; exact hnJ (Or.inr ⟨rfl, by rw [a]; rfl, b⟩)
        refine ⟨by omega, ?_, ?_⟩
        · intro _ hf
          rw [rf.yearKind_lower h2, if_neg hnd]
          rcases hF.mp hf with ⟨hl, h⟩ | ⟨hl, h⟩
          · rw [if_pos]
            refine ⟨?_, hl⟩
            rcases h with a | ⟨_, a | ⟨a, b⟩⟩
            · omega
            · exact Or.inl (by rw [Reform.feb_number]; exact a)
            · exact Or.inr ⟨Month.number_inj _ _ a, b⟩
          · omega
        · intro _ hf
          rw [rf.yearKind_lower h2, if_neg hnd, if_neg]
          rintro ⟨a, hl⟩
          apply hf
          apply hF.mpr
          refine Or.inl ⟨hl, Or.inr ⟨rfl, ?_⟩⟩
          rcases a with a | ⟨a, b⟩
          · exact Or.inl (by rw [Reform.feb_number] at a; exact a)
          · exact Or.inr ⟨by rw [a]; rfl, b⟩
      · refine ⟨by omega, ?_, ?_⟩
        · intro _ hf
          rw [rf.yearKind_both h2, if_pos]
          rcases hF.mp hf with ⟨hl, h⟩ | ⟨hl, h⟩
          · left
            refine ⟨?_, hl⟩
            rcases h with a | ⟨_, a | ⟨a, b⟩⟩
            · omega
            · exact Or.inl (by rw [Reform.feb_number]; exact a)
            · exact Or.inr ⟨Month.number_inj _ _ a, b⟩
          · right
            refine ⟨?_, hl⟩
            rw [Reform.feb_number]
            rcases h with a | ⟨_, a⟩
            · omega
            · exact a
        · intro _ hf
          rw [rf.yearKind_both h2, if_neg]
          rintro (⟨a, hl⟩ | ⟨a, hl⟩)
          · apply hf; apply hF.mpr
            refine Or.inl ⟨hl, Or.inr ⟨rfl, ?_⟩⟩
            rcases a with a | ⟨a, b⟩
            · exact Or.inl (by rw [Reform.feb_number] at a; exact a)
            · exact Or.inr ⟨by rw [a]; rfl, b⟩
          · apply hf; apply hF.mpr
            refine Or.inr ⟨hl, Or.inr ⟨h2, ?_⟩⟩
            rw [Reform.feb_number] at a; exact a
    · rcases Int.lt_trichotomy y rf.yQ with h2 | h2 | h2
      · have h0 := rf.yearLength_between y h1 h2
        exact ⟨fun _ => rf.yearKind_between y h1 h2, fun h => absurd h0 h, fun h => absurd h0 h⟩
      · subst h2
        have hlive : 0 < rf.cal.yearLength rf.yQ := hpos rf.yQ (by simp [Reform.Live])
        have hnd : ¬ (rf.mQ = .january ∧ rf.dQ = 1) := by
          rintro ⟨a, b⟩; exact hnG (Or.inr ⟨rfl, by rw [a]; rfl, b⟩)
        refine ⟨by omega, ?_, ?_⟩
        · intro _ hf
          rw [rf.yearKind_upper h1, if_neg hnd, if_pos]
          rcases hF.mp hf with ⟨hl, h⟩ | ⟨hl, h⟩
          · omega
          · refine ⟨?_, hl⟩
            rw [Reform.feb_number]
            rcases h with a | ⟨_, a⟩
            · omega
            · exact a
        · intro _ hf
          rw [rf.yearKind_upper h1, if_neg hnd, if_neg]
          rintro ⟨a, hl⟩
          apply hf; apply hF.mpr
          refine Or.inr ⟨hl, Or.inr ⟨rfl, ?_⟩⟩
          rw [Reform.feb_number] at a; exact a
      · exact absurd (Or.inl h2) hnG

/-- the reformation year of the built-in 1582 calendar has no February 29 and is
ReformCommon; a reformation on Julian 29 February 300 makes year 300 ReformLeap (defect D2) -/
theorem yearKind_examples :
    Calendar.reform1582.yearKind 1582 = .reformCommon
    ∧ (∀ c, Calendar.mkReforming 1830693 = .ok c → c.yearKind 300 = .reformLeap) := by
  refine ⟨rfl, ?_⟩
  intro c h
  have : Calendar.mkReforming 1830693 = .ok (Calendar.reforming 1830693
      (mkGap 300 .february 29 300 .march 2)) := rfl
  rw [this] at h; cases h; rfl

end JV.C08
