/-
C07 — Date construction accepts exactly the dates that exist, with the right error.
-/
import JulianVerif.Lemmas.Proleptic
namespace JV.C07
open JV Spec

/-- proleptic calendars, all `i32` years and every day value -/
theorem atYmd_proleptic (ρ : Rule) (y : Int) (hy : InI32 y) (m : Month) (d : Int) :
    (ruleCal ρ).atYmd y m d =
      if 1 ≤ d ∧ d ≤ monthLen (leap ρ y) m then
        (if InI32 (jdnOf ρ y m d)
          then .ok ⟨ruleCal ρ, y, daysBefore (leap ρ y) m + d, m, d, d, jdnOf ρ y m d⟩
          else .error .arithmetic)
      else .error (.dayOutOfRange y m d 1 (monthLen (leap ρ y) m)) :=
  ruleCal_atYmd ρ y hy m d

/-- an ordinal beyond the year is reported with the year's true length -/
theorem atOrdinalDate_proleptic (ρ : Rule) (y : Int) (hy : InI32 y) (o : Int) :
    (1 ≤ o ∧ o ≤ yearLen ρ y →
      ∃ m d, daysBefore (leap ρ y) m + d = o ∧ 1 ≤ d ∧ d ≤ monthLen (leap ρ y) m
        ∧ (ruleCal ρ).atOrdinalDate y o =
            if InI32 (yearStart ρ y + o - 1)
            then .ok ⟨ruleCal ρ, y, o, m, d, d, yearStart ρ y + o - 1⟩ else .error .arithmetic)
    ∧ (¬(1 ≤ o ∧ o ≤ yearLen ρ y) →
        (ruleCal ρ).atOrdinalDate y o = .error (.ordinalOutOfRange y o (yearLen ρ y))) :=
  ruleCal_atOrdinalDate ρ y hy o

end JV.C07
