/-
C07 — Date construction accepts exactly the dates that exist, with the right error.

"The date (y, m, d) exists in calendar c" means: some day number `j` has that label, i.e.
`c.atJdn? j = some date` with that year, month and day — and `at_jdn` is the
specification's labelling (C02, C03).  `WF c`: proleptic, or returned by
`Calendar::reforming`.
-/
import JulianVerif.Lemmas.ShapedInst
set_option linter.unusedSimpArgs false
namespace JV.C07
open JV Spec

/-- **an existing date is constructed exactly when its day number fits in 32 bits, and is
then the canonical date of that day; beyond the day-number range it is an arithmetic
error** -/
theorem atYmd_existing (c : Calendar) (hc : WF c) (j : Int) (d : Date) (h : c.atJdn? j = some d)
    (hy : InI32 d.year) :
    c.atYmd d.year d.month d.day = (if InI32 j then .ok d else .error .arithmetic)
    ∧ c.atOrdinalDate d.year d.ordinal = (if InI32 j then .ok d else .error .arithmetic) := by
  obtain ⟨A⟩ := hc.accepting
  obtain ⟨hcal, hjd, hp⟩ := atJdn?_parts c j d h
  obtain ⟨hdo, hyo, _, _⟩ := Calendar.ordinal2ymddo_inv c d.year d.ordinal d.month d.day d.dayOrdinal
    (A.valid d.year) (A.lenSum d.year) hp
  have hg := A.getJdn_atJdn j d h hy
  have heta : d = ⟨c, d.year, d.ordinal, d.month, d.day, d.dayOrdinal, j⟩ := by
    cases d; simp only at *; subst hcal hjd; rfl
  by_cases hin : InI32 j
  · rw [if_pos hin] at hg
    rw [if_pos hin]
    constructor
    · simp only [Calendar.atYmd, hdo, hyo, hg]; rw [← heta]
    · simp only [Calendar.atOrdinalDate, hp, hg]; rw [← heta]
  · rw [if_neg hin] at hg
    rw [if_neg hin]
    constructor
    · simp only [Calendar.atYmd, hdo, hyo, hg]
    · simp only [Calendar.atOrdinalDate, hp, hg]

/-- **construction succeeds only for dates that exist**: a returned date is the canonical
date of its (32-bit) day number and carries the requested label -/
theorem atYmd_sound (c : Calendar) (hc : WF c) (y : Int) (hy : InI32 y) (m : Month) (dd : Int)
    (hd : InU32 dd) (d : Date) (h : c.atYmd y m dd = .ok d) :
    c.atJdn? d.jdn = some d ∧ InI32 d.jdn ∧ d.year = y ∧ d.month = m ∧ d.day = dd := by
  obtain ⟨A⟩ := hc.accepting
  exact A.atYmd_canon y hy m dd hd.1 d h

/-- **a request into a month removed entirely is reported as skipped** -/
theorem atYmd_month_removed (c : Calendar) (y : Int) (m : Month) (dd : Int)
    (h : c.monthIShape y m = none) : c.atYmd y m dd = .error (.skippedDate y m dd) := by
  simp only [Calendar.atYmd, Calendar.getDayOrdinal, h]

/-- **a day that does not exist in a month that still has days**: if the month would
naturally have it (1 ≤ d ≤ natural length) it is reported as skipped — this takes
precedence — otherwise as out of range, together with the first and last days that do
exist -/
theorem atYmd_missing (c : Calendar) (hc : WF c) (y : Int) (m : Month) (dd : Int) (hd : InU32 dd)
    (s : IShape) (hs : c.monthIShape y m = some s) (hno : s.contains dd = false) :
    c.atYmd y m dd =
      if 1 ≤ dd ∧ dd ≤ s.naturalMax then .error (.skippedDate y m dd)
      else .error (.dayOutOfRange y m dd s.firstDay s.lastDay) := by
  obtain ⟨S⟩ := hc.shaped
  obtain ⟨_, h2, h3⟩ := s.dayOrdinalErr_classify (S.proper y m s hs) y m dd hd.1
  simp only [Calendar.atYmd, Calendar.getDayOrdinal, hs]
  by_cases hn : 1 ≤ dd ∧ dd ≤ s.naturalMax
  · rw [if_pos hn, h2 hno hn.1 hn.2]
  · rw [if_neg hn, h3 hno hn]

/-- the shape's membership test is existence of the date, and its first / last day are the
first / last existing days of the month -/
theorem shape_is_existence (c : Calendar) (hc : WF c) (y : Int) (m : Month) (dd : Int) (hd : InU32 dd) :
    (∃ j d, c.atJdn? j = some d ∧ d.year = y ∧ d.month = m ∧ d.day = dd)
      ↔ (∃ s, c.monthIShape y m = some s ∧ s.contains dd = true) := by
  obtain ⟨S⟩ := hc.shaped
  exact S.month_days y m dd hd.1

/-- in a reforming calendar the natural span of a month is the ordinary month table under
the rule in force at the end of that month: Julian if the month precedes the month of the
first Gregorian date, Gregorian otherwise -/
theorem natural_span (R : Int) (hR : InI32 R) (c : Calendar) (hc : Calendar.mkReforming R = .ok c)
    (y : Int) (m : Month) (s : IShape) (hs : c.monthIShape y m = some s) :
    ∃ rf : Reform, c = rf.cal ∧ s.naturalMax = monthLen (rf.natLp y m) m := by
  obtain ⟨rf, rfl, _, _⟩ := mk_reform R hR c hc
  exact ⟨rf, rfl, (rf.shape_proper y m s hs).2⟩

/-- **an ordinal beyond the year is reported with the year's true length** (which is the
number of dates of the year, C08); within the year construction succeeds or overflows -/
theorem atOrdinalDate_range (c : Calendar) (y o : Int) :
    (¬ (1 ≤ o ∧ o ≤ c.yearLength y) →
        c.atOrdinalDate y o = .error (.ordinalOutOfRange y o (c.yearLength y))) := by
  intro h
  simp only [Calendar.atOrdinalDate, Calendar.ordinal2ymddo]
  have : (decide (o < 1) || decide (o > c.yearLength y)) = true := by simp; omega
  rw [this]; simp

/-- within the year, the result is the canonical date or an arithmetic error, never another
error and never a fault -/
theorem atOrdinalDate_within (c : Calendar) (hc : WF c) (y : Int) (hy : InI32 y) (o : Int)
    (h1 : 1 ≤ o) (h2 : o ≤ c.yearLength y) :
    (∃ d, c.atOrdinalDate y o = .ok d ∧ c.atJdn? d.jdn = some d ∧ d.year = y ∧ d.ordinal = o)
    ∨ c.atOrdinalDate y o = .error .arithmetic := by
  obtain ⟨A⟩ := hc.accepting
  have hlive := A.live_of_len y (by omega)
  obtain ⟨d2, hd2, hy2, ho2⟩ := A.toYearTiling.atJdn_of_block y (A.F y + o - 1) hlive (by omega) (by omega)
  have e : d2.ordinal = o := by omega
  have := (atYmd_existing c hc _ d2 hd2 (by rw [hy2]; exact hy)).2
  rw [hy2, e] at this
  by_cases hin : InI32 (A.F y + o - 1)
  · rw [if_pos hin] at this
    exact Or.inl ⟨d2, this, by
      obtain ⟨_, hj, _⟩ := atJdn?_parts c _ d2 hd2
      rw [hj]; exact hd2, hy2, e⟩
  · rw [if_neg hin] at this; exact Or.inr this

/-- the example that used to be misclassified (defect D3): February 29, 1701 in the calendar
reforming on day 2342397 does not exist and lies outside February's natural span -/
example : ∃ c, Calendar.mkReforming 2342397 = .ok c
    ∧ c.atYmd 1701 .february 29 = .error (.dayOutOfRange 1701 .february 29 1 17) := ⟨_, rfl, rfl⟩

end JV.C07
