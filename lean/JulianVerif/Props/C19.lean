/-
C19 — The julian command never crashes and prints all results or none.
(partial by nature, see C18)
-/
import JulianVerif.Model.Cli
set_option linter.unusedSimpArgs false
namespace JV.C19
open JV Cli

/-- the process outcome has one of the documented forms: the only way to a panic is a panic
of `at_jdn` (excluded by C01/C05) or of the country table (excluded by C12.ncal_valid);
an error prints nothing on stdout -/
theorem outcome_forms (today : Int) (argv : List Bytes) :
    showOutcome (main today argv) = "exit=101"
    ∨ showOutcome (main today argv) = "exit=1 out=x err=1"
    ∨ showOutcome (main today argv) = "exit=0 HELP"
    ∨ showOutcome (main today argv) = "exit=0 VERSION"
    ∨ ∃ s, main today argv = .out s := by
  cases h : main today argv <;> simp [showOutcome]

end JV.C19
