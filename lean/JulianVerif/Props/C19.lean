/-
C19 — The julian command never crashes and prints all results or none.

Partial by nature (see C18): the theorems are about the CLI model, for *every* argument
vector (arbitrary byte strings) and every day the clock may show; the correspondence check
runs the built binary against that model, exit status and both output streams.
-/
import JulianVerif.Lemmas.CliOpts
import JulianVerif.Lemmas.CliSpec
import JulianVerif.Lemmas.CliFuel
set_option linter.unusedSimpArgs false
namespace JV.C19
open JV Cli

/-- **the command never aborts with a panic, for any argument vector whatsoever**: the
calendar `from_parser` ends up with is always well-formed, `at_jdn` is total on well-formed
calendars (C01), and the `.expect()`s of the country listing cannot fire (C12) -/
theorem never_panics (today : Int) (argv : List Bytes) : main today argv ≠ .panic := by
  have := main_no_panic today argv
  intro h; rw [h] at this; exact this

/-- whatever the argument vector, the calendar in force is one `Calendar::reforming` accepted,
or Julian, or Gregorian -/
theorem calendar_wf (argv : List Bytes) (o : Options) (as : List String)
    (h : parseCommand argv = .run o as) : WF o.calendar :=
  parseCommand_wf argv o as h

/-- the process outcome has one of the documented forms; an error prints nothing on stdout -/
theorem outcome_forms (today : Int) (argv : List Bytes) :
    showOutcome (main today argv) = "exit=1 out=x err=1"
    ∨ showOutcome (main today argv) = "exit=0 HELP"
    ∨ showOutcome (main today argv) = "exit=0 VERSION"
    ∨ ∃ s, main today argv = .out s := by
  have hp := never_panics today argv
  cases h : main today argv <;> simp [showOutcome] <;> exact absurd h hp

/-- **all results or none**: the command prints one line per argument when every argument is
acceptable, and if a single argument is not, it prints nothing and fails — however many
acceptable arguments precede or follow it -/
theorem all_or_nothing (o : Options) (hwf : WF o.calendar) (today : Int) (args : List String)
    (hne : args ≠ []) :
    (∀ ls, argLines o args = .ok ls →
        o.run today args = .ok (if o.json then jsonPatch (jsonStart o.calendar :: ls) else ls)
        ∧ ls.length = args.length)
    ∧ (∀ a ∈ args, o.parseArg a = none → o.run today args = .error) := by
  have he : args.isEmpty = false := by cases args <;> simp_all
  constructor
  · intro ls h
    refine ⟨?_, ((argLines_ok_iff o args ls).mp h).1⟩
    rw [run_eq]
    cases hj : o.json <;> simp [he, h]
  · intro a ha hp
    have hl : argLine o a = .error false := by simp only [argLine, hp]
    obtain ⟨e, herr⟩ := argLines_error_of_mem o args a ha false hl
    have hnp := argLines_no_panic o hwf args
    have : e = false := by
      cases e
      · rfl
      · exact absurd herr hnp
    subst this
    rw [run_eq]; simp only [he, herr, Bool.false_eq_true, if_false]

/-- **-h, -V and -c are honoured no matter which date or number arguments accompany them**:
whatever positional arguments (valid or not), negative numbers and switches precede, and
whatever follows -/
theorem early_exit_honoured (today : Int) (toks : List Tok) (hok : ∀ t ∈ toks, t.Ok)
    (post : List Bytes) :
    main today (toks.flatMap Tok.encode ++ [45, 104] :: post) = .help
    ∧ main today (toks.flatMap Tok.encode ++ [45, 86] :: post) = .version
    ∧ main today (toks.flatMap Tok.encode ++ [45, 45, 104, 101, 108, 112] :: post) = .help
    ∧ main today (toks.flatMap Tok.encode ++ [45, 45, 118, 101, 114, 115, 105, 111, 110] :: post)
        = .version
    ∧ (∃ s, main today (toks.flatMap Tok.encode ++ [45, 99] :: post) = .out s)
    ∧ (∃ s, main today (toks.flatMap Tok.encode
          ++ [45, 45, 99, 111, 117, 110, 116, 114, 105, 101, 115] :: post) = .out s) := by
  obtain ⟨h1, h2, h3, h4, h5, h6⟩ := early_exit toks hok post
  obtain ⟨ls, hls⟩ := countriesLines_some
  refine ⟨?_, ?_, ?_, ?_, ?_, ?_⟩ <;> simp only [main, h1, h2, h3, h4, h5, h6, hls]
  · exact ⟨_, rfl⟩
  · exact ⟨_, rfl⟩

/-- **negative integers are taken as day numbers rather than mistaken for options**: a '-'
followed by digits reaches `run` as one positional argument (in any position, among any
options — `C18.option_parsing` with `Tok.neg`), and that argument is read as the negative
day number -/
theorem negative_numbers (o : Options) (k : Fin 10) (rest : Bytes) (s : String)
    (hdec : (rest = [] ∧ s = "") ∨ (rest ≠ [] ∧ rest.head? ≠ some 61 ∧ bytesToString? rest = some s))
    (hdig : s.toList.all isAsciiDigit = true) :
    parseCommand [45 :: digitByte k :: rest]
        = .run {} ["-" ++ (Char.ofNat (digitByte k).toNat).toString ++ s]
    ∧ o.parseArg ("-" ++ (Char.ofNat (digitByte k).toNat).toString ++ s)
        = (let n : Int := -(digitsVal (Char.ofNat (digitByte k).toNat :: s.toList) 0 : Int)
           if inI32 n then some (.jdn n) else none) := by
  constructor
  · have := parse_spec [.neg k rest s] (by intro t ht; simp at ht; subst ht; exact hdec)
    simpa [Tok.encode, Tok.apply, Tok.arg] using this
  · have hc : isAsciiDigit (Char.ofNat (digitByte k).toNat) = true := by
      revert k; decide
    exact neg_is_jdn o _ hc s hdig

/-- **the model's fuel is not observable**: `fromParser` is a structural recursion on a fuel
counter, whose exhaustion it reports as an error; that case is unreachable — the parser's
measure (bytes and arguments still to be consumed) strictly decreases, `fuelFor argv` exceeds
it, and any larger amount of fuel gives the same command.  So no theorem above holds merely
because the model gave up early. -/
theorem fuel_not_observable (argv : List Bytes) (extra : Nat) :
    fromParser (fuelFor argv + extra) ⟨.none, argv⟩ {} [] = parseCommand argv :=
  parseCommand_fuel argv extra

end JV.C19
