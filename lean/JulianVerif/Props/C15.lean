/-
C15 — Weekdays follow the seven-day cycle anchored to known days; names, abbreviations
and numbers convert back to the value they came from.
-/
import JulianVerif.Model.Text
import JulianVerif.Model.Calendar
import JulianVerif.Lemmas.GenLib
namespace JV.C15
open JV

/-- `Weekday::for_jdn` never hits its `unreachable!()`, and the weekday number is
`j mod 7 + 1` with the Euclidean remainder — Monday when `j ≡ 0 (mod 7)`, also for
negative `j` -/
theorem weekday_cycle (j : Int) :
    ∃ w, Weekday.forJdn? j = some w ∧ Weekday.forJdn j = w ∧ w.number = j % 7 + 1 := by
  have h0 : 0 ≤ j % 7 := by omega
  have h1 : j % 7 < 7 := by omega
  simp only [Weekday.forJdn, Weekday.forJdn?]
  generalize j % 7 = r at *
  have : r = 0 ∨ r = 1 ∨ r = 2 ∨ r = 3 ∨ r = 4 ∨ r = 5 ∨ r = 6 := by omega
  rcases this with rfl | rfl | rfl | rfl | rfl | rfl | rfl <;> exact ⟨_, rfl, rfl, rfl⟩

/-- JDN 2460066 (2023-05-01) is a Monday; so is JDN 0 -/
theorem weekday_anchor : Weekday.forJdn 2460066 = .monday ∧ Weekday.forJdn 0 = .monday := by
  decide

/-- the weekday advances by one per day, Sunday wrapping to Monday -/
theorem weekday_advances (j : Int) :
    (Weekday.forJdn (j + 1)).number = (Weekday.forJdn j).number % 7 + 1 := by
  obtain ⟨w, _, hw, hn⟩ := weekday_cycle j
  obtain ⟨w', _, hw', hn'⟩ := weekday_cycle (j + 1)
  rw [hw, hw', hn, hn']; omega

/-- a date's weekday depends only on its day number, never on the calendar -/
theorem date_weekday (d : Date) : d.weekday = Weekday.forJdn d.jdn := rfl

theorem date_weekday_calendar_independent (d₁ d₂ : Date) (h : d₁.jdn = d₂.jdn) :
    d₁.weekday = d₂.weekday := by
  simp only [Date.weekday, h]

/-- numbers convert back: `Month::try_from(n)` succeeds exactly for 1..=12 and returns the
month with that number (all twelve integer widths share this function) -/
theorem month_number_roundtrip (n : Int) (m : Month) : Month.ofInt? n = some m ↔ m.number = n := by
  constructor
  · intro h
    unfold Month.ofInt? at h
    split at h <;> simp at h <;> subst h <;> rfl
  · intro h; subst h; cases m <;> rfl

theorem month_number_range (n : Int) : (∃ m, Month.ofInt? n = some m) ↔ (1 ≤ n ∧ n ≤ 12) := by
  constructor
  · rintro ⟨m, h⟩
    have := (month_number_roundtrip n m).mp h
    cases m <;> simp [Month.number] at this <;> omega
  · rintro ⟨h1, h2⟩
    have : n = 1 ∨ n = 2 ∨ n = 3 ∨ n = 4 ∨ n = 5 ∨ n = 6 ∨ n = 7 ∨ n = 8 ∨ n = 9 ∨ n = 10
        ∨ n = 11 ∨ n = 12 := by omega
    rcases this with rfl | rfl | rfl | rfl | rfl | rfl | rfl | rfl | rfl | rfl | rfl | rfl <;>
      exact ⟨_, rfl⟩

theorem weekday_number_roundtrip (n : Int) (w : Weekday) :
    Weekday.ofInt? n = some w ↔ w.number = n := by
  constructor
  · intro h
    unfold Weekday.ofInt? at h
    split at h <;> simp at h <;> subst h <;> rfl
  · intro h; subst h; cases w <;> rfl

theorem weekday_number_range (n : Int) : (∃ w, Weekday.ofInt? n = some w) ↔ (1 ≤ n ∧ n ≤ 7) := by
  constructor
  · rintro ⟨w, h⟩
    have := (weekday_number_roundtrip n w).mp h
    cases w <;> simp [Weekday.number] at this <;> omega
  · rintro ⟨h1, h2⟩
    have : n = 1 ∨ n = 2 ∨ n = 3 ∨ n = 4 ∨ n = 5 ∨ n = 6 ∨ n = 7 := by omega
    rcases this with rfl | rfl | rfl | rfl | rfl | rfl | rfl <;> exact ⟨_, rfl⟩

/-- pred / succ / number0 are the obvious ones -/
theorem month_pred_succ (m : Month) :
    m.number0 = m.number - 1
    ∧ (m.succ = none ↔ m = .december) ∧ (m.pred = none ↔ m = .january)
    ∧ (∀ m', m.succ = some m' → m'.number = m.number + 1 ∧ m'.pred = some m) := by
  cases m <;> simp [Month.number0, Month.succ, Month.pred, Month.number]

theorem weekday_pred_succ (w : Weekday) :
    w.number0 = w.number - 1
    ∧ (w.succ = none ↔ w = .sunday) ∧ (w.pred = none ↔ w = .monday)
    ∧ (∀ w', w.succ = some w' → w'.number = w.number + 1 ∧ w'.pred = some w) := by
  cases w <;> simp [Weekday.number0, Weekday.succ, Weekday.pred, Weekday.number]

/-- names and three-letter abbreviations convert back to the value they came from -/
theorem month_name_roundtrip (m : Month) :
    Month.fromStr m.name.toList = some m ∧ Month.fromStr m.shortName.toList = some m := by
  cases m <;> decide

theorem weekday_name_roundtrip (w : Weekday) :
    Weekday.fromStr w.name.toList = some w ∧ Weekday.fromStr w.shortName.toList = some w := by
  cases w <;> decide

theorem toNat_ofNat_small (n : Nat) (h : n < 55296) : (Char.ofNat n).toNat = n := by
  have hv : n.isValidChar := Or.inl h
  simp [Char.ofNat, hv, Char.ofNatAux, Char.toNat]

theorem asciiLower_upper (c : Char) (h1 : 'A' ≤ c) (h2 : c ≤ 'Z') :
    asciiLower c = Char.ofNat (c.toNat + 32) := by
  unfold asciiLower; simp [h1, h2]

theorem asciiLower_other (c : Char) (h : ¬ ('A' ≤ c ∧ c ≤ 'Z')) : asciiLower c = c := by
  unfold asciiLower
  have : (decide ('A' ≤ c) && decide (c ≤ 'Z')) = false := by
    simp only [Bool.and_eq_false_iff, decide_eq_false_iff_not]
    by_cases h1 : 'A' ≤ c
    · exact Or.inr fun h2 => h ⟨h1, h2⟩
    · exact Or.inl h1
  simp [this]

theorem asciiLower_idem (c : Char) : asciiLower (asciiLower c) = asciiLower c := by
  by_cases h : 'A' ≤ c ∧ c ≤ 'Z'
  · rw [asciiLower_upper c h.1 h.2]
    apply asciiLower_other
    have h1 : 65 ≤ c.toNat := h.1
    have h2 : c.toNat ≤ 90 := h.2
    have hv : (Char.ofNat (c.toNat + 32)).toNat = c.toNat + 32 :=
      toNat_ofNat_small _ (by omega)
    intro hh
    have : (Char.ofNat (c.toNat + 32)).toNat ≤ 90 := hh.2
    omega
  · rw [asciiLower_other c h, asciiLower_other c h]

/-- parsing is case-insensitive: it depends only on the ASCII-lower-cased string -/
theorem month_fromStr_case_insensitive (s : List Char) :
    Month.fromStr (s.map asciiLower) = Month.fromStr s := by
  simp only [Month.fromStr, eqIgnoreAsciiCase, List.map_map]
  have : (asciiLower ∘ asciiLower) = asciiLower := by funext c; exact asciiLower_idem c
  rw [this]

theorem weekday_fromStr_case_insensitive (s : List Char) :
    Weekday.fromStr (s.map asciiLower) = Weekday.fromStr s := by
  simp only [Weekday.fromStr, eqIgnoreAsciiCase, List.map_map]
  have : (asciiLower ∘ asciiLower) = asciiLower := by funext c; exact asciiLower_idem c
  rw [this]

/-- every other string is refused: a string is accepted only if, ignoring ASCII case, it
is the name or the abbreviation of the month returned -/
theorem month_fromStr_sound (s : List Char) (m : Month) (h : Month.fromStr s = some m) :
    s.map asciiLower = m.name.toList.map asciiLower
    ∨ s.map asciiLower = m.shortName.toList.map asciiLower := by
  have := List.find?_some h
  simpa [eqIgnoreAsciiCase] using this

theorem weekday_fromStr_sound (s : List Char) (w : Weekday) (h : Weekday.fromStr s = some w) :
    s.map asciiLower = w.name.toList.map asciiLower
    ∨ s.map asciiLower = w.shortName.toList.map asciiLower := by
  have := List.find?_some h
  simpa [eqIgnoreAsciiCase] using this

/-! ### the conversions as GENERATED from the source -/

/-- `FromStr for Month` / `for Weekday`, the names, numbers and neighbours, as bin/libgen produces them
from lib.rs, are the model's functions the theorems above are about -/
theorem generated_names (s : String) (m : Month) (w : Weekday) :
    Gen.monthFromStr s = Month.fromStr s.toList ∧ Gen.weekdayFromStr s = Weekday.fromStr s.toList
    ∧ Gen.monthName m = m.name ∧ Gen.monthShortName m = m.shortName
    ∧ Gen.weekdayName w = w.name ∧ Gen.weekdayShortName w = w.shortName
    ∧ Gen.monthNumber m = m.number ∧ Gen.weekdayNumber w = w.number
    ∧ Gen.weekdayTryFromConst = Weekday.ofInt? ∧ (∀ j, Gen.weekdayForJdn j = Chk.weekdayForJdn j)
    ∧ Gen.monthTryFromI8 = Month.ofInt? ∧ Gen.monthTryFromU8 = Month.ofInt? ∧ Gen.monthTryFromI32 = Month.ofInt?
    ∧ Gen.monthTryFromU32 = Month.ofInt? ∧ Gen.monthTryFromI64 = Month.ofInt? ∧ Gen.monthTryFromU64 = Month.ofInt?
    ∧ Gen.monthTryFromI128 = Month.ofInt? ∧ Gen.monthTryFromU128 = Month.ofInt? ∧ Gen.monthTryFromI16 = Month.ofInt?
    ∧ Gen.monthTryFromU16 = Month.ofInt? ∧ Gen.monthTryFromIsize = Month.ofInt? ∧ Gen.monthTryFromUsize = Month.ofInt?
    ∧ (∀ v, Gen.weekdayTryFromI8 v = Weekday.ofInt? v ∧ Gen.weekdayTryFromU8 v = Weekday.ofInt? v
        ∧ Gen.weekdayTryFromI16 v = Weekday.ofInt? v ∧ Gen.weekdayTryFromU16 v = Weekday.ofInt? v
        ∧ Gen.weekdayTryFromI32 v = Weekday.ofInt? v ∧ Gen.weekdayTryFromU32 v = Weekday.ofInt? v
        ∧ Gen.weekdayTryFromI64 v = Weekday.ofInt? v ∧ Gen.weekdayTryFromU64 v = Weekday.ofInt? v
        ∧ Gen.weekdayTryFromI128 v = Weekday.ofInt? v ∧ Gen.weekdayTryFromU128 v = Weekday.ofInt? v
        ∧ Gen.weekdayTryFromIsize v = Weekday.ofInt? v ∧ Gen.weekdayTryFromUsize v = Weekday.ofInt? v) :=
  ⟨Gen.monthFromStr_eq s, Gen.weekdayFromStr_eq s, Gen.monthName_eq m, Gen.monthShortName_eq m,
   Gen.weekdayName_eq w, Gen.weekdayShortName_eq w, Gen.monthNumber_eq m, Gen.weekdayNumber_eq w,
   Gen.weekdayTryFromConst_eq, Gen.weekdayForJdn_eq, rfl, rfl, rfl, rfl, rfl, rfl, rfl, rfl, rfl, rfl, rfl, rfl,
   fun v => ⟨Gen.weekdayTryFrom_aux v, Gen.weekdayTryFrom_aux v, Gen.weekdayTryFrom_aux v, Gen.weekdayTryFrom_aux v,
     Gen.weekdayTryFrom_aux v, Gen.weekdayTryFrom_aux v, Gen.weekdayTryFrom_aux v, Gen.weekdayTryFrom_aux v,
     Gen.weekdayTryFrom_aux v, Gen.weekdayTryFrom_aux v, Gen.weekdayTryFrom_aux v, Gen.weekdayTryFrom_aux v⟩⟩

end JV.C15
