/-
C11 — Chronological order, label order and comparison operators all agree.
-/
import JulianVerif.Lemmas.Proleptic
import JulianVerif.Lemmas.YearStart
import JulianVerif.Lemmas.Order
import JulianVerif.Lemmas.CalOrder
import JulianVerif.Lemmas.GenLib
namespace JV.C11
open JV Spec

/-- order axioms for calendars: reflexive, antisymmetric, transitive, total -/
theorem cal_cmp_refl (a : Calendar) : a.cmp a = .eq := (cal_cmp_eq a a).mpr rfl

theorem cal_cmp_antisymm (a b : Calendar) : a.cmp b = .lt ↔ b.cmp a = .gt := by
  rw [cal_cmp_lt, cal_cmp_gt]

theorem cal_cmp_trans (a b c : Calendar) (h1 : a.cmp b = .lt) (h2 : b.cmp c = .lt) : a.cmp c = .lt := by
  rw [cal_cmp_lt] at *
  simp only [keyLt] at *
  omega

theorem cal_cmp_total (a b : Calendar) :
    a.cmp b = .lt ∨ a.cmp b = .eq ∨ a.cmp b = .gt := by
  cases h : a.cmp b <;> simp

/-- Julian is below every reforming calendar, Gregorian above all, reforming ones by day -/
theorem cal_order (r r' : Int) (g g' : ReformGap) :
    Calendar.julian.cmp (.reforming r g) = .lt ∧ (Calendar.reforming r g).cmp .gregorian = .lt
    ∧ Calendar.julian.cmp .gregorian = .lt
    ∧ ((Calendar.reforming r g).cmp (.reforming r' g') = .lt ↔ r < r') := by
  refine ⟨rfl, rfl, rfl, ?_⟩
  simp [Calendar.cmp, compare_int_lt]

/-- `==`, `cmp` and `Hash` of calendars are mutually consistent -/
theorem cal_eq_cmp_hash (a b : Calendar) :
    (a.beq b = true ↔ a.cmp b = .eq) ∧ (a.cmp b = .eq ↔ a.hashKey = b.hashKey) := by
  refine ⟨by simp [Calendar.beq], ?_⟩
  cases a <;> cases b <;> simp [Calendar.cmp, Calendar.hashKey, compare_int_eq]

/-- calendars that compare Equal have the same tag and the same reformation day -/
theorem cal_eq_observable (a b : Calendar) (h : a.cmp b = .eq) :
    a.reformation = b.reformation ∧ a.isReforming = b.isReforming ∧ a.isProleptic = b.isProleptic := by
  cases a <;> cases b <;> simp [Calendar.cmp, compare_int_eq] at h <;>
    simp [Calendar.reformation, Calendar.isReforming, Calendar.isProleptic, h]

/-- dates compare by day number, then by calendar -/
theorem date_cmp_lex (a b : Date) :
    a.cmp b = if a.jdn < b.jdn then .lt else if a.jdn = b.jdn then a.calendar.cmp b.calendar else .gt := by
  simp only [Date.cmp, compare_int]
  by_cases h : a.jdn < b.jdn
  · simp [h]
  · by_cases h2 : a.jdn = b.jdn <;> simp [h, h2]

/-- for dates, `==` implies `cmp = Equal` and an identical hash input -/
theorem date_eq_implies (a b : Date) (h : a.beq b = true) :
    a.cmp b = .eq ∧ a.hashKey = b.hashKey := by
  simp only [Date.beq, Bool.and_eq_true, beq_iff_eq] at h
  obtain ⟨⟨⟨⟨⟨⟨hc, hy⟩, ho⟩, hm⟩, hd⟩, hdo⟩, hj⟩ := h
  have hc' := ((cal_eq_cmp_hash a.calendar b.calendar).1).mp hc
  refine ⟨?_, ?_⟩
  · rw [date_cmp_lex]; simp [hj, hc']
  · simp only [Date.hashKey, ((cal_eq_cmp_hash a.calendar b.calendar).2).mp hc', hy, ho, hm, hd, hdo, hj]

/-- **within any calendar, year/month/day labels and year/day-of-year pairs increase
strictly with the Julian day number** — across month ends, year ends and the reformation -/
theorem label_strict_mono (c : Calendar) (hc : WF c) (j j' : Int) (hlt : j < j') (d d' : Date)
    (h : c.atJdn? j = some d) (h' : c.atJdn? j' = some d') :
    (d.year < d'.year ∨ (d.year = d'.year ∧ (d.month.number < d'.month.number
        ∨ (d.month = d'.month ∧ d.day < d'.day))))
    ∧ (d.year < d'.year ∨ (d.year = d'.year ∧ d.ordinal < d'.ordinal)) := by
  obtain ⟨A⟩ := hc.accepting
  exact ⟨A.label_mono j j' hlt d d' h h', A.year_ordinal_mono j j' hlt d d' h h'⟩

/-- for calendars a caller can hold, comparing Equal means being the same value — the gap
record is a function of the reformation day -/
theorem cal_eq_of_cmp (c₁ c₂ : Calendar) (h₁ : WF c₁) (h₂ : WF c₂) (h : c₁.cmp c₂ = .eq) : c₁ = c₂ := by
  have hk := (cal_cmp_eq c₁ c₂).mp h
  rcases h₁ with rfl | rfl | ⟨R₁, hR₁, e₁⟩ <;> rcases h₂ with rfl | rfl | ⟨R₂, hR₂, e₂⟩
  · rfl
  · simp [calKey] at hk
  · obtain ⟨rf, rfl, _⟩ := mk_reform R₂ hR₂ c₂ e₂
    simp [calKey, Reform.cal] at hk
  · simp [calKey] at hk
  · rfl
  · obtain ⟨rf, rfl, _⟩ := mk_reform R₂ hR₂ c₂ e₂
    simp [calKey, Reform.cal] at hk
  · obtain ⟨rf, rfl, _⟩ := mk_reform R₁ hR₁ c₁ e₁
    simp [calKey, Reform.cal] at hk
  · obtain ⟨rf, rfl, _⟩ := mk_reform R₁ hR₁ c₁ e₁
    simp [calKey, Reform.cal] at hk
  · -- both reforming: same reformation day, hence the same computed record
    obtain ⟨rf₁, rfl, r₁, _⟩ := mk_reform R₁ hR₁ c₁ e₁
    obtain ⟨rf₂, rfl, r₂, _⟩ := mk_reform R₂ hR₂ c₂ e₂
    simp only [calKey, Reform.cal, Prod.mk.injEq, true_and] at hk
    have : R₁ = R₂ := by rw [← r₁, ← r₂]; exact hk
    subst this
    rw [e₁] at e₂
    injection e₂

/-- **for dates the API hands out (canonical dates, C06), equality, ordering and hashing are
mutually consistent**: they compare Equal exactly when they are the same value, and then
they are `==` and hash identically -/
theorem date_cmp_eq_iff (d₁ d₂ : Date) (w₁ : WF d₁.calendar) (w₂ : WF d₂.calendar)
    (c₁ : d₁.calendar.atJdn? d₁.jdn = some d₁) (c₂ : d₂.calendar.atJdn? d₂.jdn = some d₂) :
    (d₁.cmp d₂ = .eq ↔ d₁ = d₂)
    ∧ (d₁.cmp d₂ = .eq → d₁.beq d₂ = true ∧ d₁.hashKey = d₂.hashKey) := by
  have key : d₁.cmp d₂ = .eq → d₁ = d₂ := by
    intro h
    rw [date_cmp_lex] at h
    by_cases a : d₁.jdn < d₂.jdn
    · simp [a] at h
    · by_cases b : d₁.jdn = d₂.jdn
      · rw [if_neg a, if_pos b] at h
        have hc := cal_eq_of_cmp _ _ w₁ w₂ h
        rw [hc, b] at c₁
        rw [c₁] at c₂
        exact Option.some.inj c₂
      · simp [a, b] at h
  refine ⟨⟨key, ?_⟩, ?_⟩
  · intro e; subst e
    rw [date_cmp_lex]; simp [cal_cmp_refl]
  · intro h
    have e := key h
    subst e
    refine ⟨?_, rfl⟩
    simp [Date.beq, Calendar.beq, cal_cmp_refl]

/-- **label order = chronological order** in the proleptic calendars: year/month/day labels
increase strictly with the day number -/
theorem label_strict_mono_proleptic (ρ : Rule) (j j' : Int) (h : j < j')
    {y y' : Int} {m m' : Month} {d d' : Int}
    (h1 : IsDate ρ j y m d) (h2 : IsDate ρ j' y' m' d') :
    y < y' ∨ (y = y' ∧ (m.number < m'.number ∨ (m = m' ∧ d < d'))) :=
  isDate_lt h1 h2 h

/-! ### the comparison impls as GENERATED from the source

`Gen.calendarCmp`, `Gen.calendarEq`, `Gen.dateCmp` … are produced by bin/libgen from
`impl Ord / PartialEq / PartialOrd for inner::Calendar` and `impl Ord / PartialOrd for Date`; they are
the model's `Calendar.cmp`, `Calendar.beq`, `Date.cmp`, which the theorems above are about. -/

theorem generated_comparisons :
    (∀ a b : Calendar, Gen.calendarCmp a b = a.cmp b ∧ Gen.calendarEq a b = a.beq b
      ∧ Gen.calendarPartialCmp a b = some (a.cmp b))
    ∧ (∀ a b : Date, Gen.dateCmp a b = a.cmp b ∧ Gen.datePartialCmp a b = some (a.cmp b)) :=
  ⟨fun a b => ⟨Gen.calendarCmp_eq a b, Gen.calendarEq_eq a b, Gen.calendarPartialCmp_eq a b⟩,
   fun a b => ⟨Gen.dateCmp_eq a b, Gen.datePartialCmp_eq a b⟩⟩

end JV.C11
