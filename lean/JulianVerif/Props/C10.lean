/-
C10 — Stepping forward or backward moves exactly one day and stops only at the limits.
(partial: day-number bookkeeping, the limits, and fusing of the open-ended iterators; that
the stepped date is `at_jdn (jdn ± 1)` is being built on the reforming-calendar lemmas)
-/
import JulianVerif.Model.Iter
import JulianVerif.Lemmas.Arith
set_option linter.unusedSimpArgs false
namespace JV.C10
open JV

/-- a successor carries the next day number and the same calendar -/
theorem succ_jdn (d d' : Date) (h : d.succ = some d') : d'.jdn = d.jdn + 1 ∧ d'.calendar = d.calendar := by
  simp only [Date.succ] at h
  split at h
  · cases h
  · split at h
    · cases h; exact ⟨rfl, rfl⟩
    · split at h
      · cases h; exact ⟨rfl, rfl⟩
      · cases h
    · cases h

theorem pred_jdn (d d' : Date) (h : d.pred = some d') : d'.jdn = d.jdn - 1 ∧ d'.calendar = d.calendar := by
  simp only [Date.pred] at h
  split at h
  · cases h
  · split at h
    · cases h; exact ⟨rfl, rfl⟩
    · cases h

/-- there is no successor at day number 2^31-1 and no predecessor at -2^31; a returned
date always has a 32-bit day number -/
theorem limits (d : Date) :
    (d.jdn = 2147483647 → d.succ = none) ∧ (d.jdn = -2147483648 → d.pred = none)
    ∧ (∀ d', d.succ = some d' → InI32 d.jdn → InI32 d'.jdn)
    ∧ (∀ d', d.pred = some d' → InI32 d.jdn → InI32 d'.jdn) := by
  refine ⟨?_, ?_, ?_, ?_⟩
  · intro h; simp [Date.succ, h, inI32]
  · intro h; simp [Date.pred, h, inI32]
  · intro d' h hd
    have hj := (succ_jdn d d' h).1
    simp only [Date.succ] at h
    split at h
    · cases h
    · rename_i hc
      have hin : inI32 (d'.jdn) = true := by
        rw [hj]; cases hh : inI32 (d.jdn + 1) <;> simp [hh] at hc ⊢
      exact (inI32_iff _).mp hin
  · intro d' h hd
    have hj := (pred_jdn d d' h).1
    simp only [Date.pred] at h
    split at h
    · cases h
    · rename_i hc
      have hin : inI32 (d'.jdn) = true := by
        rw [hj]; cases hh : inI32 (d.jdn - 1) <;> simp [hh] at hc ⊢
      exact (inI32_iff _).mp hin

/-- the four open-ended iterators stay ended once they have ended -/
theorem fused :
    laterNext none = (none, none) ∧ earlierNext none = (none, none)
    ∧ andLaterNext none = (none, none) ∧ andEarlierNext none = (none, none) := by
  refine ⟨rfl, rfl, rfl, rfl⟩

/-- `later` excludes and `and_later` includes the starting date -/
theorem start_inclusion (d : Date) :
    (andLaterNext (some d)).1 = some d ∧ (andEarlierNext (some d)).1 = some d
    ∧ (laterNext (some d)).1 = d.succ ∧ (earlierNext (some d)).1 = d.pred := by
  refine ⟨rfl, rfl, rfl, rfl⟩

end JV.C10
