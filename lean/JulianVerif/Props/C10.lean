/-
C10 — Stepping forward or backward moves exactly one day and stops only at the limits.

`succ` / `pred` do not recompute the date from the day number: they bump the day-of-year,
fall into the next (previous) year that has dates when the year is over, and re-derive
month and day.  The theorems say the result is nevertheless exactly `at_jdn (jdn ± 1)`,
for every calendar a caller can hold (`WF`) and every 32-bit day number.
-/
import JulianVerif.Model.Iter
import JulianVerif.Lemmas.StepInst
import JulianVerif.Props.C05
set_option linter.unusedSimpArgs false
namespace JV.C10
open JV Spec

/-- **the successor of a date is the calendar's date for the next day number** — across
month ends, year ends, the reformation gap, skipped months and skipped years — **and is
absent only at day number 2^31-1** -/
theorem succ_spec (c : Calendar) (hc : WF c) (j : Int) (hj : InI32 j) (d : Date)
    (h : c.atJdn? j = some d) :
    d.succ = if j = 2147483647 then none else c.atJdn? (j + 1) := by
  obtain ⟨T⟩ := hc.tiling
  exact T.succ_spec j hj d h

/-- **the predecessor is the date of the previous day number, absent only at -2^31** -/
theorem pred_spec (c : Calendar) (hc : WF c) (j : Int) (hj : InI32 j) (d : Date)
    (h : c.atJdn? j = some d) :
    d.pred = if j = -2147483648 then none else c.atJdn? (j - 1) := by
  obtain ⟨T⟩ := hc.tiling
  exact T.pred_spec j hj d h

/-- the state of an open-ended iterator after `n` calls of `next` -/
def iterate (step : Option Date → Option Date × Option Date) : Nat → Option Date → Option Date
  | 0, st => st
  | n + 1, st => iterate step n (step st).2

/-- the date of day `j` when `j` is a 32-bit day number, nothing otherwise -/
def dateAt (c : Calendar) (j : Int) : Option Date :=
  if -2147483648 ≤ j ∧ j ≤ 2147483647 then c.atJdn? j else none

/-- **`later` yields the consecutive following days, ends exactly at the range limit and
stays ended**: after `n` calls its state — which is also the item just returned — is the
date of day `j + n`, or nothing once `j + n` exceeds 2^31-1 -/
theorem later_nth (c : Calendar) (hc : WF c) (j : Int) (hj : InI32 j) (d : Date)
    (h : c.atJdn? j = some d) (n : Nat) :
    iterate laterNext n (some d) = dateAt c (j + n) := by
  induction n generalizing j d with
  | zero =>
    simp only [iterate, dateAt]
    have e : j + ((0 : Nat) : Int) = j := by omega
    rw [e, if_pos hj, h]
  | succ n ih =>
    simp only [iterate, laterNext, Option.bind]
    rw [succ_spec c hc j hj d h]
    by_cases hmax : j = 2147483647
    · rw [if_pos hmax]
      have : ∀ k : Nat, iterate laterNext k none = none := by
        intro k; induction k with
        | zero => rfl
        | succ k ihk => simpa [iterate, laterNext] using ihk
      rw [this]
      simp only [dateAt]
      rw [if_neg]; simp only [InI32] at hj; push_cast; omega
    · rw [if_neg hmax]
      obtain ⟨d2, hd2, _, _, _⟩ := atJdn_total c hc (j + 1)
      rw [hd2]
      have hj2 : InI32 (j + 1) := by simp only [InI32] at *; omega
      rw [ih (j + 1) hj2 d2 hd2]
      have : j + 1 + (n : Int) = j + ((n + 1 : Nat) : Int) := by push_cast; omega
      rw [this]

/-- `earlier`, symmetrically -/
theorem earlier_nth (c : Calendar) (hc : WF c) (j : Int) (hj : InI32 j) (d : Date)
    (h : c.atJdn? j = some d) (n : Nat) :
    iterate earlierNext n (some d) = dateAt c (j - n) := by
  induction n generalizing j d with
  | zero =>
    simp only [iterate, dateAt]
    have e : j - ((0 : Nat) : Int) = j := by omega
    rw [e, if_pos hj, h]
  | succ n ih =>
    simp only [iterate, earlierNext, Option.bind]
    rw [pred_spec c hc j hj d h]
    by_cases hmin : j = -2147483648
    · rw [if_pos hmin]
      have : ∀ k : Nat, iterate earlierNext k none = none := by
        intro k; induction k with
        | zero => rfl
        | succ k ihk => simpa [iterate, earlierNext] using ihk
      rw [this]
      simp only [dateAt]
      rw [if_neg]; simp only [InI32] at hj; push_cast; omega
    · rw [if_neg hmin]
      obtain ⟨d2, hd2, _, _, _⟩ := atJdn_total c hc (j - 1)
      rw [hd2]
      have hj2 : InI32 (j - 1) := by simp only [InI32] at *; omega
      rw [ih (j - 1) hj2 d2 hd2]
      have : j - 1 - (n : Int) = j - ((n + 1 : Nat) : Int) := by push_cast; omega
      rw [this]

/-- `and_later` / `and_earlier` include the starting date, then behave like `later` /
`earlier`; `later` / `earlier` exclude it -/
theorem start_inclusion (d : Date) :
    (andLaterNext (some d)) = (some d, d.succ) ∧ (andEarlierNext (some d)) = (some d, d.pred)
    ∧ (laterNext (some d)).1 = d.succ ∧ (earlierNext (some d)).1 = d.pred :=
  ⟨rfl, rfl, rfl, rfl⟩

/-- once ended, the four iterators stay ended -/
theorem fused :
    laterNext none = (none, none) ∧ earlierNext none = (none, none)
    ∧ andLaterNext none = (none, none) ∧ andEarlierNext none = (none, none) :=
  ⟨rfl, rfl, rfl, rfl⟩

/-- non-vacuity: the step that used to go wrong (defect D1): Dec 30 → Dec 31 → Jan 1 in
the calendar reforming on day 2299664 -/
example : ∃ c, Calendar.mkReforming 2299664 = .ok c
    ∧ (Date.mk c 1584 355 .december 30 30 2299968).succ = some ⟨c, 1584, 356, .december, 31, 31, 2299969⟩
    ∧ (Date.mk c 1584 356 .december 31 31 2299969).succ = some ⟨c, 1585, 1, .january, 1, 1, 2299970⟩ :=
  ⟨_, rfl, rfl, rfl⟩

/-! ### the open-ended iterators as GENERATED from iter.rs -/

/-- one generated step of `later()` / `earlier()` / `and_later()` / `and_earlier()` is the model's
step (Model/Iter.lean), for every date the library hands out -/
theorem generated_open_ended_steps (d : Date) (hc : WF d.calendar) (hj : InI32 d.jdn)
    (hcan : d.calendar.atJdn? d.jdn = some d) :
    Gen.laterNext (some d) = some (laterNext (some d))
    ∧ Gen.earlierNext (some d) = some (earlierNext (some d))
    ∧ Gen.andLaterNext (some d) = some (andLaterNext (some d))
    ∧ Gen.andEarlierNext (some d) = some (andEarlierNext (some d))
    ∧ Gen.laterNext none = some (laterNext none) ∧ Gen.andLaterNext none = some (andLaterNext none)
    ∧ Gen.earlierNext none = some (earlierNext none) ∧ Gen.andEarlierNext none = some (andEarlierNext none)
    ∧ Gen.dateLater d = some d ∧ Gen.dateAndLater d = some d
    ∧ Gen.dateEarlier d = some d ∧ Gen.dateAndEarlier d = some d := by
  have hg := Gen.WF.gapOrdered hc
  obtain ⟨h1, h2, _, _⟩ := C05.succ_pred_no_panic d hc hj hcan
  have hgs : ∀ d', some d = some d' → Gen.GapOrdered d'.calendar := by
    intro d' e; cases e; exact hg
  refine ⟨?_, ?_, ?_, ?_, rfl, rfl, rfl, rfl, rfl, rfl, rfl, rfl⟩
  · rw [Gen.laterNext_eq _ hgs]; simp only [h1, laterNext, Option.bind, Option.map]
  · rw [Gen.earlierNext_eq _ hgs]; simp only [h2, earlierNext, Option.bind, Option.map]
  · rw [Gen.andLaterNext_eq _ hgs]; simp only [h1, andLaterNext, Option.map]
  · rw [Gen.andEarlierNext_eq _ hgs]; simp only [h2, andEarlierNext, Option.map]

end JV.C10
