/-
C17 — Double-ended month iterators yield each item exactly once in any interleaving.
(partial: the `RangeInclusive` core that `Days`, `Dates` and `MonthIter` all delegate to)
-/
import JulianVerif.Model.Iter
set_option linter.unusedSimpArgs false
namespace JV.C17
open JV

/-- taking from the front yields the first remaining index and shortens the range by one;
on an empty range it yields nothing and changes nothing -/
theorem next_spec (r : RangeIncl) :
    (r.isEmpty = true → r.next = (none, r))
    ∧ (r.isEmpty = false → (r.next).1 = some r.start ∧ (r.next).2.len = r.len - 1
          ∧ (r.next).2.stop = r.stop) := by
  constructor
  · intro h; simp [RangeIncl.next, h]
  · intro h
    simp only [RangeIncl.isEmpty, Bool.or_eq_false_iff, decide_eq_false_iff_not] at h
    obtain ⟨he, hs⟩ := h
    by_cases c : r.start < r.stop
    · have e2 : ¬ (r.start + 1 > r.stop) := by omega
      simp [RangeIncl.next, RangeIncl.isEmpty, RangeIncl.len, he, hs, c, e2]; omega
    · have : r.start = r.stop := by omega
      simp [RangeIncl.next, RangeIncl.isEmpty, RangeIncl.len, he, hs, c, this]

/-- taking from the back, symmetrically -/
theorem nextBack_spec (r : RangeIncl) :
    (r.isEmpty = true → r.nextBack = (none, r))
    ∧ (r.isEmpty = false → (r.nextBack).1 = some r.stop ∧ (r.nextBack).2.len = r.len - 1
          ∧ (r.nextBack).2.start = r.start) := by
  constructor
  · intro h; simp [RangeIncl.nextBack, h]
  · intro h
    simp only [RangeIncl.isEmpty, Bool.or_eq_false_iff, decide_eq_false_iff_not] at h
    obtain ⟨he, hs⟩ := h
    by_cases c : r.start < r.stop
    · have e2 : ¬ (r.start > r.stop - 1) := by omega
      simp [RangeIncl.nextBack, RangeIncl.isEmpty, RangeIncl.len, he, hs, c, e2]; omega
    · have : r.start = r.stop := by omega
      simp [RangeIncl.nextBack, RangeIncl.isEmpty, RangeIncl.len, he, hs, c, this]

/-- once empty, always empty: after exhaustion the iterators keep returning nothing -/
theorem fused (r : RangeIncl) (h : r.isEmpty = true) :
    (r.next).2.isEmpty = true ∧ (r.nextBack).2.isEmpty = true ∧ r.len = 0 := by
  simp [RangeIncl.next, RangeIncl.nextBack, RangeIncl.len, h]

/-- the reported length is never negative and is zero exactly on an empty range -/
theorem len_exact (r : RangeIncl) : 0 ≤ r.len ∧ (r.len = 0 ↔ r.isEmpty = true) := by
  simp only [RangeIncl.len, RangeIncl.isEmpty]
  by_cases he : r.exhausted = true <;> by_cases hs : r.start > r.stop <;> simp [he, hs] <;> omega

/-- `MonthIter` never hits its `.expect`: every index of `1..=12` is a month number -/
theorem monthIter_no_panic (n : Int) (h1 : 1 ≤ n) (h2 : n ≤ 12) : (Month.ofInt? n).isSome = true := by
  have : n = 1 ∨ n = 2 ∨ n = 3 ∨ n = 4 ∨ n = 5 ∨ n = 6 ∨ n = 7 ∨ n = 8 ∨ n = 9 ∨ n = 10
      ∨ n = 11 ∨ n = 12 := by omega
  rcases this with rfl | rfl | rfl | rfl | rfl | rfl | rfl | rfl | rfl | rfl | rfl | rfl <;> rfl

end JV.C17
