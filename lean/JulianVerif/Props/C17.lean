/-
C17 — Double-ended month iterators yield each item exactly once in any interleaving.

Refinement: each iterator, driven by *any* finite sequence over {next, next_back, len},
produces what the obvious specification produces — a list popped from both ends
(`specRun`).  For a list popped from both ends the claims of the property are immediate:
fronts come out ascending, backs descending, nothing is repeated or lost, the length is
exact, and an empty list keeps yielding nothing.
-/
import JulianVerif.Lemmas.Deque
set_option linter.unusedSimpArgs false
namespace JV.C17
open JV

/-- the `RangeInclusive` core all three iterators delegate to -/
theorem range_refines (r : RangeIncl) (ops : List DOp) : r.run ops = specRun r.toList ops :=
  r.run_refines ops

/-- **`MonthShape::days()`**: any interleaving yields the month's day list
`[nth_day 1, …, nth_day len]` popped from both ends, with exact lengths -/
theorem days_refines (s : MonthShape) (ops : List DOp) :
    (Days.new s).run ops = (specRun (ival 1 s.len.toNat) ops).map (DOut.map s.nthDay) :=
  Days.run_refines s ops

/-- **`MonthIter`**: any interleaving yields January … December popped from both ends; the
`.expect` in it can never fire because 1..=12 are month numbers -/
theorem months_refines (ops : List DOp) :
    MonthIter.new.run ops = (specRun (ival 1 12) ops).map (DOut.map Month.ofInt?) :=
  MonthIter.run_refines ops

/-- **`MonthShape::dates()`**: any interleaving yields the dates at the iterated in-month
ordinals popped from both ends; the iterated ordinals are `start..=end` after trimming the
unrepresentable ones at either end (fix F5), and nothing representable is trimmed -/
theorem dates_refines (s : MonthShape) (ops : List DOp) :
    (Dates.new s).run ops
      = (specRun (Dates.new s).inner.toList ops).map (DOut.mapD s.nthDate)
    ∧ (∀ k, 1 ≤ k → k ≤ s.len →
        (k < (Dates.new s).inner.start ∨ (Dates.new s).inner.stop < k) → s.nthDate k = none) :=
  ⟨Dates.run_refines (Dates.new s) ops, fun k h1 h2 h => Dates.new_complete s k h1 h2 h⟩

/-- the specification itself has the claimed properties: the reported length is exact and
drops by one per item taken, from either end -/
theorem spec_len {α : Type} (l : List α) :
    l.tail.length = l.length - 1 ∧ l.dropLast.length = l.length - 1 := by
  constructor <;> simp

/-- after exhaustion the specification keeps returning nothing -/
theorem spec_fused {α : Type} (ops : List DOp) :
    ∀ o ∈ specRun ([] : List α) ops, (match o with | .item x => x.isNone = true | .len n => n = 0) := by
  induction ops with
  | nil => intro o h; cases h
  | cons op ops ih =>
    intro o h
    cases op with
    | front =>
      simp only [specRun, List.mem_cons, List.head?_nil, List.tail_nil] at h
      rcases h with rfl | h
      · simp
      · exact ih o h
    | back =>
      simp only [specRun, List.mem_cons, List.getLast?_nil, List.dropLast_nil] at h
      rcases h with rfl | h
      · simp
      · exact ih o h
    | len =>
      simp only [specRun, List.mem_cons, List.length_nil] at h
      rcases h with rfl | h
      · simp
      · exact ih o h

/-- one step of the specification: what is taken from the front is the head and the rest is
the tail; what is taken from the back is the last element and the rest is the list without
it — so no item is ever repeated or lost, fronts ascend and backs descend in list order -/
theorem spec_step {α : Type} (l : List α) (ops : List DOp) :
    specRun l (.front :: ops) = .item l.head? :: specRun l.tail ops
    ∧ specRun l (.back :: ops) = .item l.getLast? :: specRun l.dropLast ops
    ∧ specRun l (.len :: ops) = .len l.length :: specRun l ops := ⟨rfl, rfl, rfl⟩

/-- `MonthIter` never hits its `.expect`: every index of `1..=12` is a month number -/
theorem monthIter_no_panic (n : Int) (h1 : 1 ≤ n) (h2 : n ≤ 12) : (Month.ofInt? n).isSome = true := by
  have : n = 1 ∨ n = 2 ∨ n = 3 ∨ n = 4 ∨ n = 5 ∨ n = 6 ∨ n = 7 ∨ n = 8 ∨ n = 9 ∨ n = 10
      ∨ n = 11 ∨ n = 12 := by omega
  rcases this with rfl | rfl | rfl | rfl | rfl | rfl | rfl | rfl | rfl | rfl | rfl | rfl <;> rfl

/-- a concrete interleaving on October 1582 (21 days, 5–14 removed) -/
example : (Days.new ⟨Calendar.reform1582, 1582, .october, .gapped 5 14 31⟩).run
      [.front, .back, .len, .front, .back]
    = [.item (some 1), .item (some 31), .len 19, .item (some 2), .item (some 30)] := by rfl

end JV.C17
