/-
C17 — Double-ended month iterators yield each item exactly once in any interleaving.

Refinement: each iterator, driven by *any* finite sequence over {next, next_back, len},
produces what the obvious specification produces — a list popped from both ends
(`specRun`).  For a list popped from both ends the claims of the property are immediate:
fronts come out ascending, backs descending, nothing is repeated or lost, the length is
exact, and an empty list keeps yielding nothing.
-/
import JulianVerif.Lemmas.Deque
import JulianVerif.Lemmas.GenLibWF
import JulianVerif.Lemmas.GenLibDates
set_option linter.unusedSimpArgs false
namespace JV.C17
open JV

/-- the `RangeInclusive` core all three iterators delegate to -/
theorem range_refines (r : RangeIncl) (ops : List DOp) : r.run ops = specRun r.toList ops :=
  r.run_refines ops

/-- **`MonthShape::days()`**: any interleaving yields the month's day list
`[nth_day 1, …, nth_day len]` popped from both ends, with exact lengths -/
theorem days_refines (s : MonthShape) (ops : List DOp) :
    (Days.new s).run ops = (specRun (ival 1 s.len.toNat) ops).map (DOut.map s.nthDay) :=
  Days.run_refines s ops

/-- **`MonthIter`**: any interleaving yields January … December popped from both ends; the
`.expect` in it can never fire because 1..=12 are month numbers -/
theorem months_refines (ops : List DOp) :
    MonthIter.new.run ops = (specRun (ival 1 12) ops).map (DOut.map Month.ofInt?) :=
  MonthIter.run_refines ops

/-- **`MonthShape::dates()`**: any interleaving yields the dates at the iterated in-month
ordinals popped from both ends; the iterated ordinals are `start..=end` after trimming the
unrepresentable ones at either end (fix F5), and nothing representable is trimmed -/
theorem dates_refines (s : MonthShape) (ops : List DOp) :
    (Dates.new s).run ops
      = (specRun (Dates.new s).inner.toList ops).map (DOut.mapD s.nthDate)
    ∧ (∀ k, 1 ≤ k → k ≤ s.len →
        (k < (Dates.new s).inner.start ∨ (Dates.new s).inner.stop < k) → s.nthDate k = none) :=
  ⟨Dates.run_refines (Dates.new s) ops, fun k h1 h2 h => Dates.new_complete s k h1 h2 h⟩

/-- the specification itself has the claimed properties: the reported length is exact and
drops by one per item taken, from either end -/
theorem spec_len {α : Type} (l : List α) :
    l.tail.length = l.length - 1 ∧ l.dropLast.length = l.length - 1 := by
  constructor <;> simp

/-- after exhaustion the specification keeps returning nothing -/
theorem spec_fused {α : Type} (ops : List DOp) :
    ∀ o ∈ specRun ([] : List α) ops, (match o with | .item x => x.isNone = true | .len n => n = 0) := by
  induction ops with
  | nil => intro o h; cases h
  | cons op ops ih =>
    intro o h
    cases op with
    | front =>
      simp only [specRun, List.mem_cons, List.head?_nil, List.tail_nil] at h
      rcases h with rfl | h
      · simp
      · exact ih o h
    | back =>
      simp only [specRun, List.mem_cons, List.getLast?_nil, List.dropLast_nil] at h
      rcases h with rfl | h
      · simp
      · exact ih o h
    | len =>
      simp only [specRun, List.mem_cons, List.length_nil] at h
      rcases h with rfl | h
      · simp
      · exact ih o h

/-- one step of the specification: what is taken from the front is the head and the rest is
the tail; what is taken from the back is the last element and the rest is the list without
it — so no item is ever repeated or lost, fronts ascend and backs descend in list order -/
theorem spec_step {α : Type} (l : List α) (ops : List DOp) :
    specRun l (.front :: ops) = .item l.head? :: specRun l.tail ops
    ∧ specRun l (.back :: ops) = .item l.getLast? :: specRun l.dropLast ops
    ∧ specRun l (.len :: ops) = .len l.length :: specRun l ops := ⟨rfl, rfl, rfl⟩

/-- `MonthIter` never hits its `.expect`: every index of `1..=12` is a month number -/
theorem monthIter_no_panic (n : Int) (h1 : 1 ≤ n) (h2 : n ≤ 12) : (Month.ofInt? n).isSome = true := by
  have : n = 1 ∨ n = 2 ∨ n = 3 ∨ n = 4 ∨ n = 5 ∨ n = 6 ∨ n = 7 ∨ n = 8 ∨ n = 9 ∨ n = 10
      ∨ n = 11 ∨ n = 12 := by omega
  rcases this with rfl | rfl | rfl | rfl | rfl | rfl | rfl | rfl | rfl | rfl | rfl | rfl <;> rfl

/-- a concrete interleaving on October 1582 (21 days, 5–14 removed) -/
example : (Days.new ⟨Calendar.reform1582, 1582, .october, .gapped 5 14 31⟩).run
      [.front, .back, .len, .front, .back]
    = [.item (some 1), .item (some 31), .len 19, .item (some 2), .item (some 30)] := by rfl

/-! ### the same steps as GENERATED from iter.rs

`Gen.daysNext`, `Gen.datesNext`, `Gen.monthIterNext` and their `next_back` twins are produced by
bin/libgen from the `impl Iterator` / `impl DoubleEndedIterator` blocks of iter.rs (`&mut self`
becomes a returned receiver, `?` an early return, `RangeInclusive` the `RangeIncl` model of core's
implementation).  One generated step is one step of the model the refinement theorems above are
about. -/

/-- one generated step of `Days` is the model's step, for every shape `month_shape` returns and
every state whose next ordinal is a `u32` -/
theorem generated_days_step (c : Calendar) (hc : WF c) (y : Int) (m : Month) (s : IShape)
    (hs : c.monthIShape y m = some s) (r : RangeIncl)
    (hn : ∀ n, (r.next.1 = some n ∨ r.nextBack.1 = some n) → InU32 n) :
    Gen.daysNext ⟨⟨c, y, m, s⟩, r⟩ = some (Days.next ⟨⟨c, y, m, s⟩, r⟩)
    ∧ Gen.daysNextBack ⟨⟨c, y, m, s⟩, r⟩ = some (Days.nextBack ⟨⟨c, y, m, s⟩, r⟩)
    ∧ Gen.daysSizeHint ⟨⟨c, y, m, s⟩, r⟩ = (r.len, some r.len) := by
  obtain ⟨B⟩ := hc.base
  have hf := B.fits y m s hs
  refine ⟨?_, ?_, rfl⟩
  · rw [Gen.daysNext_eq]; simp only [Days.next, MonthShape.nthDay]
    rcases h : r.next with ⟨_ | n, r'⟩
    · rfl
    · simp only []; rw [Chk.nthDay_eq s hf n (hn n (Or.inl (by rw [h])))]; rfl
  · rw [Gen.daysNextBack_eq]; simp only [Days.nextBack, MonthShape.nthDay]
    rcases h : r.nextBack with ⟨_ | n, r'⟩
    · rfl
    · simp only []; rw [Chk.nthDay_eq s hf n (hn n (Or.inr (by rw [h])))]; rfl

/-- one generated step of `Dates` is the model's step -/
theorem generated_dates_step (c : Calendar) (hc : WF c) (y : Int) (hy : InI32 y) (m : Month) (s : IShape)
    (hs : c.monthIShape y m = some s) (r : RangeIncl)
    (hn : ∀ n, (r.next.1 = some n ∨ r.nextBack.1 = some n) → InU32 n) :
    Gen.datesNext ⟨⟨c, y, m, s⟩, r⟩ = some (Dates.next ⟨⟨c, y, m, s⟩, r⟩)
    ∧ Gen.datesNextBack ⟨⟨c, y, m, s⟩, r⟩ = some (Dates.nextBack ⟨⟨c, y, m, s⟩, r⟩)
    ∧ Gen.datesSizeHint ⟨⟨c, y, m, s⟩, r⟩ = (r.len, some r.len) := by
  obtain ⟨B⟩ := hc.base
  have hg := Gen.WF.gapOrdered hc
  refine ⟨?_, ?_, rfl⟩
  · rw [Gen.datesNext_eq _ hg]; simp only [Dates.next]
    rcases h : r.next with ⟨_ | n, r'⟩
    · rfl
    · simp only []; rw [B.nthDate_eq y hy m s hs n (hn n (Or.inl (by rw [h])))]; rfl
  · rw [Gen.datesNextBack_eq _ hg]; simp only [Dates.nextBack]
    rcases h : r.nextBack with ⟨_ | n, r'⟩
    · rfl
    · simp only []; rw [B.nthDate_eq y hy m s hs n (hn n (Or.inr (by rw [h])))]; rfl

/-- one generated step of `MonthIter`: it faults (the `.expect`) exactly when the number the range
yields is not a month number — which `months_refines` / `monthIter_no_panic` exclude for `1..=12` -/
theorem generated_month_iter_step (r : RangeIncl) :
    Gen.monthIterNext r = (match (MonthIter.next ⟨r⟩) with
      | (none, it) => some (none, it.inner)
      | (some none, _) => none
      | (some (some mo), it) => some (some mo, it.inner))
    ∧ Gen.monthIterNextBack r = (match (MonthIter.nextBack ⟨r⟩) with
      | (none, it) => some (none, it.inner)
      | (some none, _) => none
      | (some (some mo), it) => some (some mo, it.inner))
    ∧ Gen.monthIterNew = MonthIter.new.inner := by
  refine ⟨?_, ?_, rfl⟩
  · rw [Gen.monthIterNext_eq]; simp only [MonthIter.next]
    rcases h : r.next with ⟨_ | n, r'⟩
    · rfl
    · simp only []; cases Month.ofInt? n <;> rfl
  · rw [Gen.monthIterNextBack_eq]; simp only [MonthIter.nextBack]
    rcases h : r.nextBack with ⟨_ | n, r'⟩
    · rfl
    · simp only []; cases Month.ofInt? n <;> rfl

/-- **`Dates::new` as generated from iter.rs** — its two trimming `while` loops become functions
recursive in a fuel argument — builds exactly the iterator `dates_refines` is about, for every shape
`month_shape` returns in every calendar a caller can hold (and so does `MonthShape::dates`) -/
theorem generated_dates_new (c : Calendar) (hc : WF c) (y : Int) (hy : InI32 y) (m : Month) (s : IShape)
    (hs : c.monthIShape y m = some s) :
    Gen.datesNew ⟨c, y, m, s⟩ = some (Dates.new ⟨c, y, m, s⟩)
    ∧ Gen.monthShapeDates ⟨c, y, m, s⟩ = some (Dates.new ⟨c, y, m, s⟩)
    ∧ Gen.daysNew ⟨c, y, m, s⟩ = some (Days.new ⟨c, y, m, s⟩) := by
  obtain ⟨B⟩ := hc.base
  have hg := Gen.WF.gapOrdered hc
  have hf := B.fits y m s hs
  have hlen : Gen.monthShapeLen ⟨c, y, m, s⟩ = some (MonthShape.len ⟨c, y, m, s⟩) := by
    rw [Gen.monthShapeLen_eq]; exact Chk.len_eq s hf
  have H : ∀ n : Int, 0 ≤ n → n ≤ 4294967295 →
      Gen.monthShapeNthDate ⟨c, y, m, s⟩ n = some (MonthShape.nthDate ⟨c, y, m, s⟩ n) := by
    intro n h0 h1
    rw [Gen.monthShapeNthDate_eq _ hg]
    exact B.nthDate_eq y hy m s hs n ⟨h0, h1⟩
  have hl31 := B.len_le_31 y m s hs
  have hl0 : 0 ≤ s.len := s.len_nonneg hf.1.valid
  have h := Gen.datesNew_eq ⟨c, y, m, s⟩ H hlen hl0 (by simp only [MonthShape.len]; omega)
  refine ⟨h, ?_, ?_⟩
  · simp only [Gen.monthShapeDates, h, bind, Option.bind, pure]
  · rw [Gen.daysNew_eq]; simp only [Chk.len_eq s hf, Option.map, Days.new, MonthShape.len]

end JV.C17
