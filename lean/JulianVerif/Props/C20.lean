/-
C20 — JSON output is well-formed and agrees with the text output.
(partial by nature, see C18)
-/
import JulianVerif.Model.Cli
set_option linter.unusedSimpArgs false
namespace JV.C20
open JV Cli

/-- the comma / bracket patching keeps the number of pieces -/
theorem jsonPatch_length (out : List String) : (jsonPatch out).length = out.length := by
  simp only [jsonPatch]
  generalize hx : (if out.length > 2 then
      out.mapIdx fun i s => if (decide (1 ≤ i) && decide (i < out.length - 1)) = true then s ++ "," else s
    else out) = x
  have hl : x.length = out.length := by
    rw [← hx]; split <;> simp
  cases hr : x.reverse with
  | nil =>
    have hx0 : x = [] := List.reverse_eq_nil_iff.mp hr
    subst hx0
    simp at hl
    simp; omega
  | cons last revInit =>
    have := congrArg List.length hr
    simp at this
    simp; omega

end JV.C20
