/-
C20 — JSON output is well-formed and agrees with the text output.

Partial by nature (see C18: lexopt, the process and stdout are modelled).  Within the model:

* `json_valid` / `main_json_valid`: for every command line and any number of arguments the
  text written with -J **is a JSON document** in the sense of RFC 8259 (Spec/Json.lean: a
  sub-grammar of the RFC's — integers, strings without escapes, `true`/`false`, arrays,
  objects, whitespace) and **denotes** the value `docVal`: an object with the member
  `calendar` (type, and the reformation day exactly for a reforming calendar) and the member
  `dates`, an array with one object per argument, in argument order, holding the day number,
  year, month, day, day of year, both display strings and — exactly for reforming calendars —
  `old_style`, of the date that argument denotes (`date_value`, `calendar_value`);
* the older structural theorems (`jsonPatch_pieces`, `json_document`, …) remain.
-/
import JulianVerif.Lemmas.JsonValid
set_option linter.unusedSimpArgs false
namespace JV.C20
open JV Cli

/-- the patching keeps the number of pieces -/
theorem jsonPatch_length (out : List String) : (jsonPatch out).length = out.length :=
  Cli.jsonPatch_length out

/-- **commas and closing brackets, for any number of pieces**: the last piece is followed by
the closing `]` `}`, every earlier piece except the document head by a comma, the head by
nothing -/
theorem jsonPatch_pieces (out : List String) (i : Nat) (hi : i < out.length) :
    (jsonPatch out)[i]'(by rw [Cli.jsonPatch_length]; exact hi)
      = if i = out.length - 1 then out[i] ++ "\n    ]\n}"
        else if 1 ≤ i then out[i] ++ "," else out[i] :=
  jsonPatch_getElem out i hi

/-- **the document**: with -J and n ≥ 1 acceptable arguments the output is the head, then
one object per argument in argument order, each the JSON rendering of the date that argument
denotes; objects 1 … n-1 are followed by a comma, object n by the closing brackets -/
theorem json_document (o : Options) (hj : o.json = true) (today : Int) (args : List String)
    (hne : args ≠ []) (ls : List String) (h : argLines o args = .ok ls) :
    o.run today args = .ok (jsonPatch (jsonStart o.calendar :: ls))
    ∧ ls.length = args.length
    ∧ (∀ i (h1 : i < args.length) (h2 : i < ls.length),
        ∃ d, argDate o args[i] = some d ∧ ls[i] = date2json d)
    ∧ (∀ i (h2 : i < ls.length),
        (jsonPatch (jsonStart o.calendar :: ls))[i + 1]'(by
            rw [Cli.jsonPatch_length]; simp; omega)
          = ls[i] ++ (if i + 1 = ls.length then "\n    ]\n}" else ",")) := by
  have he : args.isEmpty = false := by cases args <;> simp_all
  refine ⟨?_, ((argLines_ok_iff o args ls).mp h).1, ?_, ?_⟩
  · rw [run_eq]; simp [he, h, hj]
  · intro i h1 h2
    have := ((argLines_ok_iff o args ls).mp h).2 i h1 h2
    obtain ⟨d, hd, hl⟩ := (argLine_ok_iff o _ _).mp this
    exact ⟨d, hd, by rw [hl, hj]; rfl⟩
  · intro i h2
    rw [jsonPatch_getElem _ (i + 1) (by simp; omega)]
    simp only [List.length_cons, List.getElem_cons_succ, Nat.add_sub_cancel]
    by_cases hl : i + 1 = ls.length
    · simp [hl, jsonTail]
    · have : ¬ i + 1 = ls.length + 1 - 1 := by omega
      simp [hl, this]

/-- with no arguments the document holds the one object of the clock's date -/
theorem json_no_args (o : Options) (hj : o.json = true) (today : Int) (d : Date)
    (h : o.calendar.atJdn? today = some d) :
    o.run today [] = .ok [jsonStart o.calendar, date2json d ++ "\n    ]\n}"] := by
  rw [run_eq]
  simp only [List.isEmpty_nil, if_true, h, hj, Options.dateToJdn, List.cons_append,
    List.nil_append]
  have : jsonPatch [jsonStart o.calendar, date2json d]
      = [jsonStart o.calendar, date2json d ++ jsonTail] := by
    simp [jsonPatch, withCommas, closeLast]
  rw [this]; rfl

/-- **JSON and text report the same date**: the date an argument denotes does not depend on
any output option; the JSON object is `date2json` of it, the text line `textLine` of it -/
theorem json_agrees_with_text (o : Options) (a : String) (l : String) :
    argDate { o with json := true } a = argDate { o with json := false } a
    ∧ (argLine { o with json := true } a = .ok l
        ↔ ∃ d, argDate o a = some d ∧ l = date2json d)
    ∧ (argLine { o with json := false } a = .ok l
        ↔ ∃ d, argDate o a = some d ∧ l = textLine { o with json := false } a d) := by
  refine ⟨rfl, ?_, ?_⟩
  · rw [argLine_ok_iff]; simp only [if_true]; rfl
  · rw [argLine_ok_iff]; simp only [Bool.false_eq_true, if_false]; rfl

/-- **the date object**: day number, year, month, day, day of year and both display strings
of one and the same date, then the `old_style` member (next theorem) -/
theorem date_object (d : Date) :
    date2json d =
      sp 8 ++ "{\n" ++
      sp 12 ++ s!"\"julian_day_number\": {d.jdn},\n" ++
      sp 12 ++ s!"\"year\": {d.year},\n" ++
      sp 12 ++ s!"\"month\": {d.month.number},\n" ++
      sp 12 ++ s!"\"day\": {d.day},\n" ++
      sp 12 ++ s!"\"ordinal\": {d.ordinal},\n" ++
      sp 12 ++ "\"display\": \"" ++ String.ofList (JV.fmtDate d) ++ "\",\n" ++
      sp 12 ++ "\"ordinal_display\": \"" ++ String.ofList (fmtDateAlt d) ++ "\"" ++
      (if d.calendar.isReforming then
        ",\n" ++ sp 12 ++ "\"old_style\": " ++ (if d.isJulian then "true" else "false")
       else "") ++
      "\n" ++ sp 8 ++ "}" := rfl

/-- **`old_style` is present exactly for reforming calendars and is true exactly for days
before the reformation** -/
theorem old_style_member (d : Date) :
    (if d.calendar.isReforming then
        ",\n" ++ sp 12 ++ "\"old_style\": " ++ (if d.isJulian then "true" else "false")
      else "")
    = (match d.calendar with
       | .reforming r _ =>
         ",\n" ++ sp 12 ++ "\"old_style\": " ++ (if d.jdn < r then "true" else "false")
       | _ => "") := by
  cases hc : d.calendar <;> simp [Calendar.isReforming, Date.isJulian, hc]

/-- **the calendar object** names the selected calendar, with its reformation day exactly
when it is a reforming calendar -/
theorem calendar_object (c : Calendar) :
    jsonStart c =
      "{\n" ++ sp 4 ++ "\"calendar\": {\n" ++ sp 8 ++ "\"type\": \"" ++
      (match c with
       | .julian => "julian"
       | .gregorian => "gregorian"
       | .reforming _ _ => "reforming") ++ "\"" ++
      (match c with
       | .reforming r _ => ",\n" ++ sp 8 ++ s!"\"reformation\": {r}"
       | _ => "") ++
      "\n" ++ sp 4 ++ "},\n" ++ sp 4 ++ "\"dates\": [" := by
  cases c <;> rfl

/-- the display strings need no JSON escaping: they consist of digits and '-' only -/
theorem display_strings_plain (d : Date) :
    (∀ c ∈ JV.fmtDate d, isAsciiDigit c = true ∨ c = '-')
    ∧ (∀ c ∈ fmtDateAlt d, isAsciiDigit c = true ∨ c = '-') := by
  have hy : ∀ c ∈ fmtYear d.year, isAsciiDigit c = true ∨ c = '-' := by
    intro c hc
    simp only [fmtYear] at hc
    split at hc
    · simp only [List.mem_cons] at hc
      rcases hc with rfl | hc
      · exact Or.inr rfl
      · exact Or.inl ((padNat_spec 4 _).2.1 c hc)
    · exact Or.inl ((padNat_spec 4 _).2.1 c hc)
  constructor
  · intro c hc
    simp only [JV.fmtDate, List.mem_append, List.mem_singleton] at hc
    rcases hc with (((hc | rfl) | hc) | rfl) | hc
    · exact hy c hc
    · exact Or.inr rfl
    · exact Or.inl ((padNat_spec 2 _).2.1 c hc)
    · exact Or.inr rfl
    · exact Or.inl ((padNat_spec 2 _).2.1 c hc)
  · intro c hc
    simp only [fmtDateAlt, List.mem_append, List.mem_singleton] at hc
    rcases hc with (hc | rfl) | hc
    · exact hy c hc
    · exact Or.inr rfl
    · exact Or.inl ((padNat_spec 3 _).2.1 c hc)

/-- **the output is a valid JSON document and denotes the reported dates**: for every
successful run with -J there are dates `ds` — the clock's date when there are no arguments,
otherwise one per argument, in order, each the date that argument denotes — such that the
text written (every piece followed by a newline) is a JSON document whose value is
`docVal calendar ds` -/
theorem json_valid (o : Options) (hj : o.json = true) (today : Int) (args out : List String)
    (h : o.run today args = .ok out) :
    ∃ ds : List Date,
      (args = [] → ∃ d, o.calendar.atJdn? today = some d ∧ ds = [d])
      ∧ (args ≠ [] → ds.length = args.length
          ∧ ∀ i (h1 : i < args.length) (h2 : i < ds.length), argDate o args[i] = some ds[i])
      ∧ Json.Doc (Json.docVal o.calendar ds) (String.join (out.map (· ++ "\n"))).toList :=
  Json.run_json_doc o hj today args out h

/-- the same for the process as a whole: whatever the argument vector, if it selects -J and
the command succeeds, standard output is one JSON document -/
theorem main_json_valid (today : Int) (argv : List Bytes) (o : Options) (args : List String)
    (hc : parseCommand argv = .run o args) (hj : o.json = true) (stdout : String)
    (h : Cli.main today argv = .out stdout) :
    ∃ ds : List Date, Json.Doc (Json.docVal o.calendar ds) stdout.toList := by
  simp only [Cli.main, hc] at h
  cases hr : o.run today args with
  | panic => rw [hr] at h; cases h
  | error => rw [hr] at h; cases h
  | ok ls =>
    rw [hr] at h
    simp only [Outcome.out.injEq] at h
    obtain ⟨ds, _, _, hd⟩ := json_valid o hj today args ls hr
    exact ⟨ds, by rw [← h]; exact hd⟩

/-- **the value of a date object**: the numeric members, the two display strings, and
`old_style` exactly for a reforming calendar, true exactly before the reformation -/
theorem date_value (d : Date) :
    Json.dateVal d = .obj (
      [ ("julian_day_number".toList, .int d.jdn), ("year".toList, .int d.year),
        ("month".toList, .int d.month.number), ("day".toList, .int d.day),
        ("ordinal".toList, .int d.ordinal),
        ("display".toList, .str (JV.fmtDate d)), ("ordinal_display".toList, .str (fmtDateAlt d)) ]
      ++ (match d.calendar with
          | .reforming r _ => [("old_style".toList, .bool (decide (d.jdn < r)))]
          | _ => [])) := by
  cases hc : d.calendar <;>
    simp [Json.dateVal, Json.dateMembers, Json.intM, Json.strM, Json.boolM,
      Calendar.isReforming, Date.isJulian, hc]

/-- **the value of the calendar object** -/
theorem calendar_value (c : Calendar) :
    Json.calVal c = .obj (
      ("type".toList, .str (match c with
                            | .julian => "julian".toList
                            | .gregorian => "gregorian".toList
                            | .reforming _ _ => "reforming".toList)) ::
      (match c with
       | .reforming r _ => [("reformation".toList, .int r)]
       | _ => [])) := by
  cases c <;> rfl

/-- `{}` of any integer is a JSON number denoting that integer -/
theorem integers_are_json_numbers (i : Int) : Json.IntTok i (toString i).toList :=
  Json.intTok_toString i

/-- non-vacuity: `julian -J 2299161` (bytes `-J`, `2299161`) succeeds in the model with a
document on standard output, so `main_json_valid` speaks about a real run -/
example : (match Cli.main 0 [[45, 74], [50, 50, 57, 57, 49, 54, 49]] with
           | .out _ => true | _ => false) = true := by decide

end JV.C20
