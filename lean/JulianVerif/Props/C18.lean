/-
C18 — The julian command reports the library's conversions under every option mix.
(partial by nature: lexopt, the process boundary and the clock are modelled; the theorems
are about the CLI logic of Model/Cli.lean)
-/
import JulianVerif.Model.Cli
set_option linter.unusedSimpArgs false
namespace JV.C18
open JV Cli

/-- the date text: the day-of-year form with -o; otherwise year-month-day, followed by
O.S. / N.S. exactly when -s is given, the calendar is reforming, and -o is not -/
theorem fmt_date_spec (o : Options) (d : Date) :
    o.fmtDate d =
      if o.ordinal then String.ofList (fmtDateAlt d)
      else String.ofList (JV.fmtDate d)
            ++ (if o.style ∧ d.calendar.isReforming then (if d.jdn < (d.calendar.reformation.getD 0) then " O.S." else " N.S.")
                else "") := by
  simp only [Options.fmtDate]
  cases ho : o.ordinal <;> simp
  cases hs : o.style <;> simp
  cases hc : d.calendar <;> simp [Calendar.isReforming, Date.isJulian, Calendar.reformation, hc] <;> rfl

/-- a day-number argument is answered with that day's date, a date argument with its day
number; -q drops the echo of the input and the "JDN" tag -/
theorem line_spec (o : Options) (hj : o.json = false) (d : Date) (j : Int) (dj : Date)
    (hat : o.calendar.atJdn? j = some dj) :
    o.dateToJdn d = (if o.quiet then "" else o.fmtDate d ++ " = JDN ") ++ toString d.jdn
    ∧ o.jdnToDate j = some ((if o.quiet then "" else s!"JDN {j} = ") ++ o.fmtDate dj) := by
  constructor
  · simp only [Options.dateToJdn, hj]; cases o.quiet <;> simp
  · simp only [Options.jdnToDate, hat, hj]; cases o.quiet <;> simp

/-- an argument is read as a date exactly when it contains a '-' after its first character,
otherwise as a (possibly negative) day number -/
theorem parse_arg_spec (o : Options) (s : String) :
    o.parseArg s =
      if (s.toList.drop 1).contains '-' then
        (match o.calendar.parseDate s.toList with | .ok d => some (.date d) | .error _ => none)
      else (match parseI32 s.toList with | some j => some (.jdn j) | none => none) := by
  rfl

end JV.C18
