/-
C18 — The julian command reports the library's conversions under every option mix.

Partial by nature: lexopt 0.3.1 (modelled from its source as the state machine of
Model/Cli.lean), UTF-8 decoding of arguments (`bytesToString?`, a hypothesis wherever a
theorem needs a decoded argument), the process boundary and the clock (`today`, a parameter)
are modelled, and the correspondence check runs the built binary against that model.  The
theorems are about the CLI logic: option parsing over every command line built from the
documented options, the per-argument answers, their formatting, and reading printed dates
back.
-/
import JulianVerif.Lemmas.CliOpts
import JulianVerif.Lemmas.CliSpec
import JulianVerif.Props.C13
set_option linter.unusedSimpArgs false
namespace JV.C18
open JV Cli

/-! ### option parsing -/

/-- **options may appear anywhere**: for any command line made of positional arguments,
negative numbers, the switches -j -J -o -q -s in either spelling and the reformation option in
all its spellings (`-r VALUE`, `-rVALUE`, `-r=VALUE`, `--reformation VALUE`,
`--reformation=VALUE`) and clusters of switches in one argument (`-jq`), in any order and number, `from_parser` yields the options obtained
by applying the switches left to right and the positional arguments in their order -/
theorem option_parsing (toks : List Tok) (hok : ∀ t ∈ toks, t.Ok) :
    parseCommand (toks.flatMap Tok.encode)
      = .run (toks.foldl Tok.apply {}) (toks.filterMap Tok.arg) :=
  parse_spec toks hok

/-- **`--` ends option parsing**: what follows is positional whatever it looks like (so
`julian -- -5` and `julian -- -j` pass `-5` / `-j` to `run` as arguments) -/
theorem double_dash (toks : List Tok) (hok : ∀ t ∈ toks, t.Ok)
    (vals : List (Bytes × String)) (hv : ∀ v ∈ vals, bytesToString? v.1 = some v.2) :
    parseCommand (toks.flatMap Tok.encode ++ [45, 45] :: vals.map (·.1))
      = .run (toks.foldl Tok.apply {}) (toks.filterMap Tok.arg ++ vals.map (·.2)) :=
  parse_spec_dashdash toks hok vals hv

/-- **the last -j / -r wins, wherever options stand**: the selected calendar is the one
chosen by the last calendar-selecting option, Gregorian if there is none -/
theorem last_calendar_wins (toks : List Tok) (o : Options) :
    (toks.foldl Tok.apply o).calendar = (toks.reverse.findSome? calOf).getD o.calendar := by
  induction toks generalizing o with
  | nil => rfl
  | cons t ts ih =>
    simp only [List.foldl_cons, List.reverse_cons, List.findSome?_append]
    rw [ih, apply_calendar]
    cases h1 : ts.reverse.findSome? calOf with
    | some c => simp
    | none =>
      simp only [Option.getD_none, Option.none_or, List.findSome?_cons, List.findSome?_nil]
      cases calOf t <;> rfl

/-- the output switches are set exactly when they occur somewhere on the command line -/
theorem switches_any_position (toks : List Tok) (o : Options) :
    (toks.foldl Tok.apply o).json
        = (o.json || toks.any (has .json))
    ∧ (toks.foldl Tok.apply o).ordinal = (o.ordinal || toks.any (has .ordinal))
    ∧ (toks.foldl Tok.apply o).quiet = (o.quiet || toks.any (has .quiet))
    ∧ (toks.foldl Tok.apply o).style = (o.style || toks.any (has .style)) := by
  induction toks generalizing o with
  | nil => simp
  | cons t ts ih =>
    simp only [List.foldl_cons, List.any_cons]
    obtain ⟨h1, h2, h3, h4⟩ := ih (t.apply o)
    rw [h1, h2, h3, h4]
    cases t with
    | short f => cases f <;> simp [Tok.apply, Flag.apply, has, flag_beq]
    | long f => cases f <;> simp [Tok.apply, Flag.apply, has, flag_beq]
    | cluster fs =>
      obtain ⟨g1, g2, g3, g4⟩ := flags_switches fs o
      simp only [Tok.apply, has, g1, g2, g3, g4, Bool.or_assoc, and_self]
    | _ => simp [Tok.apply, has]

/-! ### answers -/

/-- an argument is read as a date exactly when it contains a '-' after its first character,
otherwise as a (possibly negative) day number -/
theorem parse_arg_spec (o : Options) (s : String) :
    o.parseArg s =
      if (s.toList.drop 1).contains '-' then
        (match o.calendar.parseDate s.toList with | .ok d => some (.date d) | .error _ => none)
      else (match parseI32 s.toList with | some j => some (.jdn j) | none => none) := by
  rfl

/-- **one answer per argument, in argument order**: without -J, when every argument is
acceptable the command prints exactly the arguments' lines in order; each line is about the
date the argument denotes in the selected calendar (`argDate`: the date written, or the date
of the day number written) -/
theorem run_text (o : Options) (hj : o.json = false) (today : Int) (args : List String)
    (hne : args ≠ []) (ls : List String) (h : argLines o args = .ok ls) :
    o.run today args = .ok ls
    ∧ ls.length = args.length
    ∧ ∀ i (h1 : i < args.length) (h2 : i < ls.length),
        ∃ d, argDate o args[i] = some d ∧ ls[i] = textLine o args[i] d := by
  have he : args.isEmpty = false := by cases args <;> simp_all
  refine ⟨?_, ((argLines_ok_iff o args ls).mp h).1, ?_⟩
  · rw [run_eq]; simp only [he, h, hj, Bool.false_eq_true, if_false, List.nil_append]
  · intro i h1 h2
    have := ((argLines_ok_iff o args ls).mp h).2 i h1 h2
    obtain ⟨d, hd, hl⟩ := (argLine_ok_iff o _ _).mp this
    exact ⟨d, hd, by rw [hl, hj]; rfl⟩

/-- the text line: a day-number argument is answered with that day's date, a date argument
with its day number; -q drops the echo of the input -/
theorem text_line_spec (o : Options) (a : String) (d : Date) :
    textLine o a d =
      match o.parseArg a with
      | some (.jdn j) => (if o.quiet then "" else s!"JDN {j} = ") ++ o.fmtDate d
      | _ => (if o.quiet then "" else o.fmtDate d ++ " = JDN ") ++ toString d.jdn := rfl

/-- the date text: the day-of-year form with -o; otherwise year-month-day, followed by
O.S. / N.S. exactly when -s is given, the calendar is reforming, and -o is not -/
theorem fmt_date_spec (o : Options) (d : Date) :
    o.fmtDate d =
      if o.ordinal then String.ofList (fmtDateAlt d)
      else String.ofList (JV.fmtDate d)
            ++ (if o.style ∧ d.calendar.isReforming then (if d.jdn < (d.calendar.reformation.getD 0) then " O.S." else " N.S.")
                else "") := by
  simp only [Options.fmtDate]
  cases ho : o.ordinal <;> simp
  cases hs : o.style <;> simp
  cases hc : d.calendar <;> simp [Calendar.isReforming, Date.isJulian, Calendar.reformation, hc] <;> rfl

/-- with no arguments the command reports the date of the clock's day in the selected
calendar -/
theorem no_args_today (o : Options) (hj : o.json = false) (today : Int) (d : Date)
    (h : o.calendar.atJdn? today = some d) :
    o.run today [] = .ok [o.dateToJdn d] := by
  rw [run_eq]; simp [h, hj]

/-- **the date text the command prints reads back, whatever the options**: both date forms
are taken as dates (they contain a '-' after the first character, also for negative years)
and parse to the same date in the same calendar, so the answer line carries `d.jdn`.
(The O.S./N.S. mark that -s appends after the date text is an annotation, not part of the
date: the command rejects it as "trailing characters after date", as its parser documents.) -/
theorem date_text_reads_back (o : Options) (d : Date)
    (hcal : d.calendar = o.calendar) (hc : WF d.calendar) (hj : InI32 d.jdn)
    (hcan : d.calendar.atJdn? d.jdn = some d) :
    o.parseArg (String.ofList (JV.fmtDate d)) = some (.date d)
    ∧ o.parseArg (String.ofList (fmtDateAlt d)) = some (.date d) := by
  obtain ⟨h1, h2⟩ := C13.parse_fmt d hc hj hcan
  obtain ⟨d1, d2⟩ := fmt_is_date_arg d
  simp only [Options.parseArg, String.toList_ofList, d1, d2, if_true, ← hcal, h1, h2, and_self]

/-- **a printed date fed back under the same options returns the original day number**:
without the mark, the whole printed form is the date text -/
theorem printed_date_reads_back (o : Options) (hs : o.style = false ∨ o.ordinal = true) (d : Date)
    (hcal : d.calendar = o.calendar) (hc : WF d.calendar) (hj : InI32 d.jdn)
    (hcan : d.calendar.atJdn? d.jdn = some d) :
    o.parseArg (o.fmtDate d) = some (.date d) := by
  obtain ⟨h1, h2⟩ := C13.parse_fmt d hc hj hcan
  obtain ⟨d1, d2⟩ := fmt_is_date_arg d
  simp only [Options.parseArg, Options.fmtDate]
  by_cases ho : o.ordinal = true
  · simp only [ho, if_true, String.toList_ofList, d2, ← hcal, h2]
  · have hst : o.style = false := by
      rcases hs with h | h
      · exact h
      · exact absurd h ho
    simp only [ho, Bool.false_eq_true, if_false, hst, Bool.false_and, String.append_empty,
      String.toList_ofList, d1, if_true, ← hcal, h1]

end JV.C18
