/-
Props/Defects.lean — the defects D1–D6 and D8 of the pinned tree (DESIGN.md 0.4, section 9), each
as a kernel-checked statement about Model/Legacy.lean, which bin/libgen GENERATES from the pre-fix
revision of lib.rs (commit cd70602), next to the same call on Model/GenLib.lean, generated from the
repaired source.  `none` is a panic.  Nothing here is assumed: every statement is closed and decided
by evaluation in the kernel.

(D7, `system2jdn` before the epoch, lives in a function the translator does not read; it is pinned
by corpus witnesses only.)
-/
import JulianVerif.Model.Legacy
import JulianVerif.Model.GenLib
namespace JV.Defects
open JV

instance {ε α : Type} [DecidableEq ε] [DecidableEq α] : DecidableEq (Except ε α) := fun a b =>
  match a, b with
  | .ok x, .ok y => if h : x = y then isTrue (by rw [h]) else isFalse (by intro e; cases e; exact h rfl)
  | .error x, .error y => if h : x = y then isTrue (by rw [h]) else isFalse (by intro e; cases e; exact h rfl)
  | .ok _, .error _ => isFalse (by intro e; cases e)
  | .error _, .ok _ => isFalse (by intro e; cases e)

/-- the calendar a successful `Calendar::reforming` returns (`.julian` otherwise) -/
def cal (x : Option (Except ReformingError Calendar)) : Calendar :=
  match x with
  | some (.ok c) => c
  | _ => .julian

/-- **D1** `year_length` of the first Gregorian year when it is a Gregorian leap year and the gap
swallows February 29: 355 instead of 356 for 1584 in `reforming(2299664)`, and `at_jdn` of that
year's last day panics.  Repaired: 356, and a date. -/
theorem D1 :
    Legacy.calendarYearLength (cal (Legacy.calendarReforming 2299664)) 1584 = some 355
    ∧ Legacy.calendarAtJdn (cal (Legacy.calendarReforming 2299664)) 2299969 = none
    ∧ Gen.calendarYearLength (cal (Gen.calendarReforming 2299664)) 1584 = some 356
    ∧ (Gen.calendarAtJdn (cal (Gen.calendarReforming 2299664)) 2299969).isSome = true := by
  decide +kernel

/-- **D2** `year_kind` when the last Julian date is February 29: `ReformCommon` although the
year has a February 29 (`reforming(1830693)`, year 300).  Repaired: `ReformLeap`. -/
theorem D2 :
    Legacy.calendarYearKind (cal (Legacy.calendarReforming 1830693)) 300 = some .reformCommon
    ∧ Gen.calendarYearKind (cal (Gen.calendarReforming 1830693)) 300 = some .reformLeap := by
  decide +kernel

/-- **D3** February of a reformation year given 29 days in a Julian *common* year: day 29 of
February 1701 in `reforming(2342397)` is reported as skipped.  Repaired: out of range, 1..17. -/
theorem D3 :
    Legacy.calendarAtYmd (cal (Legacy.calendarReforming 2342397)) 1701 .february 29
      = some (.error (.skippedDate 1701 .february 29))
    ∧ Gen.calendarAtYmd (cal (Gen.calendarReforming 2342397)) 1701 .february 29
      = some (.error (.dayOutOfRange 1701 .february 29 1 17)) := by
  decide +kernel

/-- **D4** `nth_day(u32::MAX)` on a gapped month overflows (October 1582).  Repaired: `None`. -/
theorem D4 :
    ((Legacy.calendarMonthShape Calendar.reform1582 1582 .october).bind fun s =>
        s.bind fun s => Legacy.monthShapeNthDay s 4294967295) = none
    ∧ ((Gen.calendarMonthShape Calendar.reform1582 1582 .october).bind fun s =>
        s.bind fun s => Gen.monthShapeNthDay s 4294967295) = some none := by
  decide +kernel

/-- **D5** `nth_date` reaches `unreachable!()` for a month beyond the day-number range
(Gregorian July 5874898).  Repaired: `None`. -/
theorem D5 :
    ((Legacy.calendarMonthShape .gregorian 5874898 .july).bind fun s =>
        s.bind fun s => Legacy.monthShapeNthDate s 1) = none
    ∧ ((Gen.calendarMonthShape .gregorian 5874898 .july).bind fun s =>
        s.bind fun s => Gen.monthShapeNthDate s 1) = some none := by
  decide +kernel

/-- **D8** `Calendar::reforming` near `Jdnum::MIN`: `Arithmetic` where the documentation and C12
require `InvalidReformation`.  Repaired. -/
theorem D8 :
    Legacy.calendarReforming (-2147483647) = some (.error .arithmetic)
    ∧ Gen.calendarReforming (-2147483647) = some (.error .invalidReformation) := by
  decide +kernel

/-- **D6** `Display for Date` pads a negative year with `{:04}`, which counts the sign: year −1
prints as `-001-01-01`.  Repaired: `-0001-01-01`. -/
theorem D6 :
    Legacy.dateFmt ⟨.julian, -1, 1, .january, 1, 1, 1720693⟩ false = "-001-01-01".toList
    ∧ Gen.dateFmt ⟨.julian, -1, 1, .january, 1, 1, 1720693⟩ false = "-0001-01-01".toList := by
  decide +kernel

end JV.Defects
