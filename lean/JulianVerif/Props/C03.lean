/-
C03 — A reforming calendar is Julian before the reformation, Gregorian from it on.

`IsDateR R j y m d` (Spec/Basic.lean) *is* the property: day `j` carries its
proleptic-Julian label when `j < R` and its proleptic-Gregorian label when `R ≤ j`.
The theorems hold for every reformation day `Calendar::reforming` accepts and every
integer day number.
-/
import JulianVerif.Lemmas.AtJdn
namespace JV.C03
open JV Spec

/-- **every day below R carries exactly its proleptic-Julian year/month/day and every day
from R on exactly its proleptic-Gregorian one**; the date is reported Old Style exactly
below R and New Style from R on -/
theorem reforming_atJdn (R : Int) (hR : InI32 R) (c : Calendar)
    (hc : Calendar.mkReforming R = .ok c) (j : Int) :
    ∃ d, c.atJdn? j = some d ∧ d.jdn = j ∧ IsDateR R j d.year d.month d.day
      ∧ (d.isJulian = true ↔ j < R) ∧ (d.isGregorian = true ↔ R ≤ j) := by
  obtain ⟨rf, rfl, rfl, _⟩ := mk_reform R hR c hc
  obtain ⟨d, h, hcal, hj, hd⟩ := atJdn_total rf.cal (Or.inr (Or.inr ⟨rf.R, hR, hc⟩)) j
  refine ⟨d, h, hj, ?_, ?_, ?_⟩
  · simpa [IsDateR, Reform.cal, ruleAt] using hd
  · simp [Date.isJulian, hcal, Reform.cal, hj]
  · simp [Date.isGregorian, hcal, Reform.cal, hj]

/-- the calendar's advertised last Julian date and first Gregorian date are the dates of
day R-1 and day R -/
theorem boundary_dates (R : Int) (hR : InI32 R) (c : Calendar) (hc : Calendar.mkReforming R = .ok c) :
    c.lastJulianDate = c.atJdn? (R - 1) ∧ c.firstGregorianDate = c.atJdn? R
    ∧ c.lastJulianDate ≠ none ∧ c.firstGregorianDate ≠ none := by
  obtain ⟨rf, rfl, rfl, _⟩ := mk_reform R hR c hc
  refine ⟨rf.lastJulianDate_eq, rf.firstGregorianDate_eq, ?_, ?_⟩ <;>
    simp [Reform.cal, Calendar.lastJulianDate, Calendar.firstGregorianDate]

/-- **the calendar only ever skips forward**: the first Gregorian label is later than the
last Julian label, with at least one label skipped between them -/
theorem skips_forward (R : Int) (hR : InI32 R) (c : Calendar) (hc : Calendar.mkReforming R = .ok c) :
    ∃ dJ dG, c.lastJulianDate = some dJ ∧ c.firstGregorianDate = some dG
      ∧ (dJ.year < dG.year
          ∨ (dJ.year = dG.year ∧ (dJ.month.number < dG.month.number
              ∨ (dJ.month = dG.month ∧ dJ.day + 2 ≤ dG.day)))) := by
  obtain ⟨rf, rfl, rfl, _⟩ := mk_reform R hR c hc
  exact ⟨_, _, rfl, rfl, rf.label_order⟩

/-- conversion between calendars is `at_jdn` of the same day number in the target -/
theorem convertTo_eq (d : Date) (c : Calendar) : d.convertTo? c = c.atJdn? d.jdn := rfl

/-- the built-in 1582 calendar skips from October 4 (O.S.) to October 15 (N.S.) -/
theorem reform1582_boundary :
    Calendar.reform1582.atJdn? 2299160 = some ⟨Calendar.reform1582, 1582, 277, .october, 4, 4, 2299160⟩
    ∧ Calendar.reform1582.atJdn? 2299161 = some ⟨Calendar.reform1582, 1582, 278, .october, 15, 5, 2299161⟩ :=
  ⟨rfl, rfl⟩

end JV.C03
