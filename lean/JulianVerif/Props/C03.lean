/-
C03 — A reforming calendar is Julian before the reformation, Gregorian from it on.
(partial: the label theorem for arbitrary R is being built in Lemmas/Reform*.lean)
-/
import JulianVerif.Lemmas.Proleptic
namespace JV.C03
open JV Spec

/-- a date of a reforming calendar is reported Old Style exactly below R, New Style from R -/
theorem style_flags (r : Int) (g : ReformGap) (d : Date) (h : d.calendar = .reforming r g) :
    (d.isJulian = true ↔ d.jdn < r) ∧ (d.isGregorian = true ↔ r ≤ d.jdn)
    ∧ (d.isJulian = !d.isGregorian) := by
  simp only [Date.isJulian, Date.isGregorian, h, decide_eq_true_eq]
  refine ⟨trivial, trivial, ?_⟩
  by_cases c : d.jdn < r
  · have : ¬ r ≤ d.jdn := by omega
    simp [c, this]
  · have : r ≤ d.jdn := by omega
    simp [c, this]

/-- conversion between calendars is `at_jdn` of the same day number in the target calendar -/
theorem convertTo_eq (d : Date) (c : Calendar) : d.convertTo? c = c.atJdn? d.jdn := rfl

/-- the branch `at_jdn` takes: Julian arithmetic below R, Gregorian from R on -/
theorem side_partial (r : Int) (g : ReformGap) (j : Int) (hg : g.ordinalGap = 0) :
    (Calendar.reforming r g).jdnYearOrdinal j = if j < r then jdn2julian j else jdn2gregorian j := by
  simp only [Calendar.jdnYearOrdinal, Calendar.gap, hg]
  by_cases c : j < r <;> simp [c]

/-- the built-in 1582 calendar: the advertised last Julian and first Gregorian dates are the
dates of day R-1 and day R, and the calendar skips forward (Oct 4 → Oct 15) -/
theorem reform1582_boundary :
    Calendar.reform1582.lastJulianDate = Calendar.reform1582.atJdn? 2299160
    ∧ Calendar.reform1582.firstGregorianDate = Calendar.reform1582.atJdn? 2299161
    ∧ Calendar.reform1582.atJdn? 2299160 = some ⟨Calendar.reform1582, 1582, 277, .october, 4, 4, 2299160⟩
    ∧ Calendar.reform1582.atJdn? 2299161 = some ⟨Calendar.reform1582, 1582, 278, .october, 15, 5, 2299161⟩
    ∧ IsDateR 2299161 2299160 1582 .october 4 ∧ IsDateR 2299161 2299161 1582 .october 15 := by
  refine ⟨rfl, rfl, rfl, rfl, ?_, ?_⟩ <;> (unfold IsDateR IsDate ValidYMD; decide)

end JV.C03
