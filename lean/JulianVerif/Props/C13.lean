/-
C13 — Dates survive a trip through text, and parsing accepts exactly the grammar.

`fmtDate` / `fmtDateAlt` are the model of `Display for Date` (after fix F6) over the model's
own decimal printer, `Calendar.parseDate` the model of `DateParser`; that Rust's formatter
and `str::parse` behave like the model's is the correspondence check's job (`fmt`, `parse`
requests).
-/
import JulianVerif.Lemmas.TextRoundTrip
import JulianVerif.Lemmas.ShapedInst
import JulianVerif.Lemmas.Grammar
import JulianVerif.Lemmas.GenLib
import JulianVerif.Lemmas.GenText
import JulianVerif.Lemmas.GenScan
set_option linter.unusedSimpArgs false
namespace JV.C13
open JV Spec

/-- the two display forms: year, '-', then month '-' day (two digits each) or the day of
year (three digits) -/
theorem fmt_shape (d : Date) :
    fmtDate d = fmtYear d.year ++ ['-'] ++ padNat 2 d.month.number.toNat ++ ['-'] ++ padNat 2 d.day.toNat
    ∧ fmtDateAlt d = fmtYear d.year ++ ['-'] ++ padNat 3 d.ordinal.toNat := ⟨rfl, rfl⟩

/-- years are shown with a leading minus exactly when negative, then the magnitude
zero-padded to at least four digits -/
theorem fmtYear_shape (y : Int) :
    fmtYear y = (if y < 0 then ['-'] else []) ++ padNat 4 y.natAbs := by
  simp only [fmtYear]; split <;> rfl

/-- zero padding: at least `w` characters, all of them ASCII digits, reading back as `n` -/
theorem padNat_shape (w n : Nat) :
    (padNat w n).length = max w (natDigits n).length
    ∧ (∀ c ∈ padNat w n, isAsciiDigit c = true) ∧ digitsVal (padNat w n) 0 = n := by
  refine ⟨?_, (padNat_spec w n).2.1, (padNat_spec w n).2.2⟩
  simp only [padNat, List.length_append, List.length_replicate]; omega

/-- year -1 is shown as -0001 (the documented rendering), year 5 as 0005, 12345 in full -/
theorem fmtYear_examples :
    fmtYear (-1) = "-0001".toList ∧ fmtYear 5 = "0005".toList ∧ fmtYear 12345 = "12345".toList
    ∧ fmtYear (-2147483648) = "-2147483648".toList ∧ fmtYear 0 = "0000".toList := by decide

theorem yearLength_le (c : Calendar) (hc : WF c) (y : Int) : c.yearLength y ≤ 366 := by
  rcases hc.cases with rfl | rfl | ⟨rf, rfl, _⟩
  · have := ruleCal_yearLength .julian y; simp only [ruleCal] at this
    rw [this]; exact (yearLen_bounds _ _).2
  · have := ruleCal_yearLength .gregorian y; simp only [ruleCal] at this
    rw [this]; exact (yearLen_bounds _ _).2
  · rw [rf.yearLength_cases]
    have := yearLen_bounds .julian y
    have := yearLen_bounds .gregorian y
    have := yearLen_bounds .gregorian rf.yQ
    have := rf.oP_bounds
    have := yearLen_bounds .julian rf.yP
    have := rf.oQ_ge
    (repeat' split) <;> omega

/-- **formatting any date in either form and parsing the text in the same calendar returns
the same date** — for every date the API hands out (canonical dates, C06) -/
theorem parse_fmt (d : Date) (hc : WF d.calendar) (hj : InI32 d.jdn)
    (hcan : d.calendar.atJdn? d.jdn = some d) :
    d.calendar.parseDate (fmtDate d) = .ok d ∧ d.calendar.parseDate (fmtDateAlt d) = .ok d := by
  obtain ⟨d0, hd0, _, _, hlab⟩ := atJdn_total d.calendar hc d.jdn
  rw [hcan] at hd0; cases hd0
  have hy := (year_of_jdn_inI32 _ d.jdn d.year d.month d.day hj hlab).1
  have hday := hlab.1
  have hl := monthLen_bounds (leap (ruleAt d.calendar d.jdn) d.year) d.month
  simp only [ValidYMD] at hday
  obtain ⟨T⟩ := hc.tiling
  obtain ⟨d1, hd1, _, _, _, _, ho1, ho2⟩ := T.block d.jdn
  rw [hcan] at hd1; cases hd1
  have hlen := yearLength_le d.calendar hc d.year
  obtain ⟨A⟩ := hc.accepting
  have hex : d.calendar.atYmd d.year d.month d.day = .ok d
      ∧ d.calendar.atOrdinalDate d.year d.ordinal = .ok d := by
    obtain ⟨hcal, hjd, hp⟩ := atJdn?_parts d.calendar d.jdn d hcan
    obtain ⟨hdo, hyo, _, _⟩ := Calendar.ordinal2ymddo_inv d.calendar d.year d.ordinal d.month d.day d.dayOrdinal
      (A.valid d.year) (A.lenSum d.year) hp
    have hg := A.getJdn_atJdn d.jdn d hcan hy
    rw [if_pos hj] at hg
    constructor
    · simp only [Calendar.atYmd, hdo, hyo, hg]
    · simp only [Calendar.atOrdinalDate, hp, hg]
  constructor
  · rw [parseDate_fmtDate d.calendar d hy (by omega) (by omega), hex.1]
  · rw [parseDate_fmtDateAlt d.calendar d hy (by omega) (by omega), hex.2]

/-- a string that does not start with a sign or a digit is rejected with the offending
character; the empty string is rejected as an empty integer -/
theorem parse_bad_start (c : Calendar) (ch : Char) (rest : List Char)
    (h1 : ch ≠ '-') (h2 : ch ≠ '+') (h3 : isAsciiDigit ch = false) :
    c.parseDate (ch :: rest) = .error (.invalidIntStart ch) ∧ c.parseDate [] = .error .emptyInt := by
  constructor
  · simp [Calendar.parseDate, parseInt, h1, h2, h3]
  · simp [Calendar.parseDate, parseInt]

/-- **parsing gives the same result or the same date error as constructing the date from
those numbers**: a parsed date comes out of `at_ymd` / `at_ordinal_date`, and a date error
is passed through unchanged -/
theorem parse_result_origin (c : Calendar) (s : List Char) (d : Date) (h : c.parseDate s = .ok d) :
    (∃ y m dd, c.atYmd y m dd = .ok d) ∨ (∃ y o, c.atOrdinalDate y o = .ok d) := by
  simp only [Calendar.parseDate] at h
  split at h
  · cases h
  · split at h
    · cases h
    · split at h
      · cases h
      · split at h
        · cases h
        · split at h
          · split at h
            · cases h; exact Or.inr ⟨_, _, by assumption⟩
            · cases h
          · split at h
            · cases h; exact Or.inl ⟨_, _, _, by assumption⟩
            · cases h

example : Calendar.gregorian.parseDate "2023-04-20".toList
    = .ok ⟨.gregorian, 2023, 110, .april, 20, 20, 2460055⟩ := by rfl
example : Calendar.gregorian.parseDate "-0001-001".toList
    = .ok ⟨.gregorian, -1, 1, .january, 1, 1, 1720695⟩ := by rfl
example : Calendar.gregorian.parseDate "2023-04-20x".toList = .error .trailing := by rfl
example : Calendar.gregorian.parseDate "2023-13-01".toList = .error (.invalidMonth 13) := by rfl

/-- **parsing succeeds only on strings of the form `[sign]digits-digits[-digits]`**, and the
date returned is the one `at_ordinal_date` / `at_ymd` construct from those numbers (month
numbers 1–12 only) — for every string of characters whatsoever -/
theorem parse_accepts_only_grammar (c : Calendar) (s : List Char) (d : Date)
    (h : c.parseDate s = .ok d) :
    ∃ (sg : Sign) (Y : List Char), AllDigits Y ∧ InI32 (sg.apply (digitsVal Y 0)) ∧
      ((∃ O, AllDigits O ∧ s = sg.chars ++ Y ++ '-' :: O
          ∧ c.atOrdinalDate (sg.apply (digitsVal Y 0)) (digitsVal O 0) = .ok d)
       ∨ (∃ M D month, AllDigits M ∧ AllDigits D ∧ s = sg.chars ++ Y ++ '-' :: (M ++ '-' :: D)
          ∧ Month.ofInt? (digitsVal M 0) = some month
          ∧ c.atYmd (sg.apply (digitsVal Y 0)) month (digitsVal D 0) = .ok d)) :=
  parseDate_ok_shape c s d h

/-- **every string `[sign]digits-digits` gets the result, or the date error, of constructing
the date from (year, day of year)**; numbers that do not fit i32 / u32 are `ParseInt` errors -/
theorem parse_year_ordinal (c : Calendar) (sg : Sign) (Y O : List Char)
    (hY : AllDigits Y) (hO : AllDigits O) :
    c.parseDate (sg.chars ++ Y ++ '-' :: O) =
      if inI32 (sg.apply (digitsVal Y 0)) then
        if digitsVal O 0 ≤ 4294967295 then
          match c.atOrdinalDate (sg.apply (digitsVal Y 0)) (digitsVal O 0) with
          | .ok d => .ok d
          | .error e => .error (.invalidDate e)
        else .error .parseInt
      else .error .parseInt :=
  parseDate_ordinal_form c sg Y O hY hO

/-- **every string `[sign]digits-digits-digits` gets the result, or the date error, of
constructing the date from (year, month, day)**; a month number outside 1–12 is
`InvalidMonth` -/
theorem parse_year_month_day (c : Calendar) (sg : Sign) (Y M D : List Char)
    (hY : AllDigits Y) (hM : AllDigits M) (hD : AllDigits D) :
    c.parseDate (sg.chars ++ Y ++ '-' :: (M ++ '-' :: D)) =
      if inI32 (sg.apply (digitsVal Y 0)) then
        if digitsVal M 0 ≤ 4294967295 then
          match Month.ofInt? (digitsVal M 0) with
          | none => .error (.invalidMonth (digitsVal M 0))
          | some month =>
            if digitsVal D 0 ≤ 4294967295 then
              match c.atYmd (sg.apply (digitsVal Y 0)) month (digitsVal D 0) with
              | .ok d => .ok d
              | .error e => .error (.invalidDate e)
            else .error .parseInt
        else .error .parseInt
      else .error .parseInt :=
  parseDate_ymd_form c sg Y M D hY hM hD

/-! ### `Display` as GENERATED from the source

`Gen.dateFmt`, `Gen.monthFmt`, `Gen.weekdayFmt` are produced by bin/libgen from the three `impl
fmt::Display` blocks of lib.rs (`write!(f, "{:04}-", …)?` appends the formatted text to an accumulator;
`f.alternate()` is a parameter); they are the model's `fmtDate` / `fmtDateAlt` and name functions the
theorems above are about. -/

theorem generated_display (d : Date) (m : Month) (w : Weekday) (alt : Bool) :
    Gen.dateFmt d false = fmtDate d ∧ Gen.dateFmt d true = fmtDateAlt d
    ∧ Gen.monthFmt m alt = (if alt then m.shortName else m.name).toList
    ∧ Gen.weekdayFmt w alt = (if alt then w.shortName else w.name).toList :=
  ⟨(Gen.dateFmt_eq d).1, (Gen.dateFmt_eq d).2, Gen.monthFmt_eq m alt, Gen.weekdayFmt_eq w alt⟩

/-- the date parser **as generated from inner.rs / lib.rs** (DESIGN.md 0.9): for every calendar a caller can
hold and every text, the generated `Calendar::parse_date` cannot fault and returns what the model's
`parseDate` returns — the function the theorems above are about —, and each generated `DateParser` step
(`parse_int`, `parse_uint`, `scan_char`, `parse_day_in_year`; a `&mut self` method returns its value with
the text that is left) is the model's step -/
theorem generated_parser (c : Calendar) (hc : WF c) (s : List Char) :
    Gen.calendarParseDate c s = some (c.parseDate s)
    ∧ Gen.toHand (Gen.dateParserParseInt s) = parseInt s
    ∧ Gen.toHand (Gen.dateParserParseUint s) = parseUInt s
    ∧ (∀ ch, Gen.toHand (Gen.dateParserScanChar s ch) = (scanChar ch s).map (fun r => ((), r)))
    ∧ Gen.toHand (Gen.dateParserParseDayInYear s) = parseDayInYear s :=
  ⟨Gen.calendarParseDate_eq c hc s, Gen.dateParserParseInt_eq s, Gen.dateParserParseUint_eq s,
    Gen.dateParserScanChar_eq s, Gen.dateParserParseDayInYear_eq s⟩

/-- inner.rs `scan` **as generated** — `char_indices().find(..)`, `len()`, `split_at(..)` with byte offsets,
generic in an `FnMut` predicate — never panics (the offset it passes to `split_at` is a character boundary,
whatever multi-byte characters the text holds and whatever the predicate answers) and is `Str.scanSt`, the
function the generated parser steps above are built on -/
theorem generated_scan {σ : Type} (s : List Char) (p : σ → Char → Bool × σ) (st : σ) :
    Gen.scanG s p st = some (Str.scanSt p st s) :=
  Gen.scanG_eq s p st

/-- … on text with multi-byte characters: "12é3" is split after two bytes, "ééé" (all accepted) at its end -/
theorem generated_scan_examples :
    (Gen.scanG "12é3".toList (fun (_ : Unit) c => (isAsciiDigit c, ())) ()).map (·.1) = some ("12".toList, "é3".toList)
    ∧ (Gen.scanG "ééé".toList (fun (_ : Unit) _ => (true, ())) ()).map (·.1) = some ("ééé".toList, [])
    ∧ Str.splitAt "é3".toList 1 = none := by
  decide +kernel

/-- the premises are met and the generated parser computes: 1582-10-15 in the 1582 calendar, a skipped
date, a lone sign -/
theorem generated_parser_examples :
    (Gen.calendarParseDate Calendar.reform1582 "1582-10-15".toList).map (·.toOption.map (·.jdn)) = some (some 2299161)
    ∧ (Gen.calendarParseDate Calendar.reform1582 "1582-10-10".toList).map
        (fun r => match r with | .error e => some e | .ok _ => none)
        = some (some (.invalidDate (.skippedDate 1582 .october 10)))
    ∧ (Gen.calendarParseDate Calendar.gregorian "-".toList).map
        (fun r => match r with | .error e => some e | .ok _ => none) = some (some .parseInt)
    ∧ (Gen.calendarParseDate Calendar.gregorian "+2023-110".toList).map (·.toOption.map (·.jdn)) = some (some 2460055) := by
  decide +kernel

end JV.C13
