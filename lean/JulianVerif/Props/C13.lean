/-
C13 — Dates survive a trip through text, and parsing accepts exactly the grammar.
(partial: the shape of the formatted text and the error-not-panic structure of the parser;
the symbolic round trip `parse (format d) = d` is being built on the digit lemmas)
-/
import JulianVerif.Model.Text
set_option linter.unusedSimpArgs false
namespace JV.C13
open JV

/-- the two display forms: year, '-', then month '-' day (two digits each) or the day of
year (three digits) -/
theorem fmt_shape (d : Date) :
    fmtDate d = fmtYear d.year ++ ['-'] ++ padNat 2 d.month.number.toNat ++ ['-'] ++ padNat 2 d.day.toNat
    ∧ fmtDateAlt d = fmtYear d.year ++ ['-'] ++ padNat 3 d.ordinal.toNat := ⟨rfl, rfl⟩

/-- years are shown with a leading minus exactly when negative, then the magnitude
zero-padded to at least four digits -/
theorem fmtYear_shape (y : Int) :
    fmtYear y = (if y < 0 then ['-'] else []) ++ padNat 4 y.natAbs := by
  simp only [fmtYear]; split <;> rfl

/-- zero padding: at least `w` characters, and exactly the digits when they are enough -/
theorem padNat_length (w n : Nat) : (padNat w n).length = max w (natDigits n).length := by
  simp only [padNat, List.length_append, List.length_replicate]; omega

/-- year -1 is shown as -0001 (the documented rendering), year 5 as 0005, 12345 in full -/
theorem fmtYear_examples :
    fmtYear (-1) = "-0001".toList ∧ fmtYear 5 = "0005".toList ∧ fmtYear 12345 = "12345".toList
    ∧ fmtYear (-2147483648) = "-2147483648".toList ∧ fmtYear 0 = "0000".toList := by decide

/-- a string that does not start with a sign or a digit is rejected with the offending
character; the empty string is rejected as an empty integer -/
theorem parse_bad_start (c : Calendar) (ch : Char) (rest : List Char)
    (h1 : ch ≠ '-') (h2 : ch ≠ '+') (h3 : isAsciiDigit ch = false) :
    c.parseDate (ch :: rest) = .error (.invalidIntStart ch) ∧ c.parseDate [] = .error .emptyInt := by
  constructor
  · simp [Calendar.parseDate, parseInt, h1, h2, h3]
  · simp [Calendar.parseDate, parseInt]

/-- a date error from the numbers is passed through unchanged (wrapped as InvalidDate) — the
text path has no way of producing a date other than through `at_ymd` / `at_ordinal_date` -/
theorem parse_result_origin (c : Calendar) (s : List Char) (d : Date) (h : c.parseDate s = .ok d) :
    (∃ y m dd, c.atYmd y m dd = .ok d) ∨ (∃ y o, c.atOrdinalDate y o = .ok d) := by
  simp only [Calendar.parseDate] at h
  split at h
  · cases h
  · split at h
    · cases h
    · split at h
      · cases h
      · split at h
        · cases h
        · split at h
          · split at h
            · cases h; exact Or.inr ⟨_, _, by assumption⟩
            · cases h
          · split at h
            · cases h; exact Or.inl ⟨_, _, _, by assumption⟩
            · cases h

example : Calendar.gregorian.parseDate "2023-04-20".toList
    = .ok ⟨.gregorian, 2023, 110, .april, 20, 20, 2460055⟩ := by rfl
example : Calendar.gregorian.parseDate "-0001-001".toList
    = .ok ⟨.gregorian, -1, 1, .january, 1, 1, 1720695⟩ := by rfl
example : Calendar.gregorian.parseDate "2023-04-20x".toList = .error .trailing := by rfl
example : Calendar.gregorian.parseDate "2023-13-01".toList = .error (.invalidMonth 13) := by rfl

end JV.C13
