/-
C05 — No library call panics or overflows, whatever the arguments.
(partial: the `unreachable!()` sites of the proleptic paths, weekdays, timestamps and
`Calendar::reforming`; the reforming-calendar sites and the checked-arithmetic layer are
being added)
-/
import JulianVerif.Lemmas.Proleptic
import JulianVerif.Model.Time
namespace JV.C05
open JV Spec

/-- `at_jdn` on a proleptic calendar never reaches its `unreachable!()` — for every integer -/
theorem atJdn_proleptic_no_fault (ρ : Rule) (j : Int) : (ruleCal ρ).atJdn? j ≠ none := by
  obtain ⟨y, m, d, h, _⟩ := ruleCal_atJdn ρ j
  rw [h]; simp

/-- `Weekday::for_jdn` never reaches its `unreachable!()` -/
theorem weekday_no_fault (j : Int) : Weekday.forJdn? j ≠ none := by
  have h0 : 0 ≤ j % 7 := by omega
  have h1 : j % 7 < 7 := by omega
  simp only [Weekday.forJdn?]
  generalize j % 7 = r at *
  have : r = 0 ∨ r = 1 ∨ r = 2 ∨ r = 3 ∨ r = 4 ∨ r = 5 ∨ r = 6 := by omega
  rcases this with rfl | rfl | rfl | rfl | rfl | rfl | rfl <;> simp [Weekday.ofInt?]

/-- `Calendar::reforming` never panics: its two `at_jdn` calls are on proleptic calendars -/
theorem reforming_no_fault (r : Int) : Calendar.mkReforming r ≠ .error .fault := by
  simp only [Calendar.mkReforming]
  split
  · simp
  · obtain ⟨y, m, d, h, _⟩ := ruleCal_atJdn .julian (r - 1)
    obtain ⟨y', m', d', h', _⟩ := ruleCal_atJdn .gregorian r
    simp only [ruleCal] at h h'
    rw [h, h']
    simp only
    split
    · split <;> simp
    · split <;> simp

/-- the `i64 → i32` narrowing in `unix2jdn` happens only after the range check, and the
second of day fits `u32` -/
theorem unix2jdn_in_range (t j s : Int) (h : unix2jdn t = some (j, s)) :
    InI32 j ∧ 0 ≤ s ∧ s < 86400 := by
  simp only [unix2jdn] at h
  split at h
  · rename_i hc
    cases h
    simp only [inI32, Bool.and_eq_true, decide_eq_true_eq] at hc
    exact ⟨hc, by omega, by omega⟩
  · cases h

/-- `jdn2unix` cannot overflow `i64` -/
theorem jdn2unix_in_range (j : Int) (hj : InI32 j) : InI64 (jdn2unix j) := by
  simp only [jdn2unix, InI64, InI32] at *; omega

/-- the explicit guards of `compose_julian` / `gregorian2jdn` admit only results that fit:
a returned day number is always a 32-bit value -/
theorem conversions_in_range (ρ : Rule) (y o j : Int) (hy : InI32 y) (h1 : 1 ≤ o) (h2 : o ≤ 366)
    (h : (ruleCal ρ).getJdn y o = some j) : InI32 j := by
  rw [ruleCal_getJdn ρ y o hy h1 h2] at h
  split at h
  · rename_i hc; cases h; exact hc
  · cases h

end JV.C05
