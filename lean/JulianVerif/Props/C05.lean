/-
C05 — No library call panics or overflows, whatever the arguments.

`Chk.*` (Model/Checked.lean) is the library's arithmetic once more with every i32 / u32 /
i64 operation, every `as` cast, every `unreachable!()`, `.expect()` and `debug_assert!`
made explicit: such a function returns `none` exactly when the Rust code, built with
overflow checks, would panic.  Every theorem below has the form

    Chk.f args = some (f args)

for all arguments within the parameter types (`InI32`, `InU32`, `InI64`) and every calendar
a caller can hold (`WF c`): the checked function does not fault, and its answer is the one
the unbounded model — the one all other properties are proved about — computes, so no answer
is the product of wrapped arithmetic.  `MonthShape` and `Date` arguments range over the
values the API hands out (shapes returned by `month_shape`, canonical dates — C06).

Not covered here: the chrono/time conversions (C16 models the foreign crates abstractly),
`RangeInclusive`'s own stepping (core; C17 proves `MonthIter` never reaches its `.expect`),
`str::parse` and formatting internals (std).
-/
import JulianVerif.Lemmas.CheckedMisc
import JulianVerif.Lemmas.CheckedCmp
import JulianVerif.Lemmas.GenLibWF
import JulianVerif.Lemmas.GenKernels
namespace JV.C05
open JV Spec

/-! ### the conversion kernels of inner.rs

The `Chk.*` functions of this section (and `Chk.gapKindForDates`, `Chk.cmpIntRange`,
`Chk.cmpYmRange`) are not written by hand: Model/CheckedInner.lean is generated from inner.rs
by bin/srcgen and regenerated and compared on every run (DESIGN.md 0.8). -/

/-- `jdn2julian` / `jdn2gregorian`: no i32 operation overflows for any i32 day number -/
theorem decompose_no_overflow (j : Int) (hj : InI32 j) :
    Chk.jdn2julian j = some (jdn2julian j) ∧ Chk.jdn2gregorian j = some (jdn2gregorian j) :=
  ⟨Chk.jdn2julian_eq j hj, Chk.jdn2gregorian_eq j hj⟩

/-- `julian2jdn` / `gregorian2jdn`: the explicit guards come first and are tight enough that
nothing after them overflows, for any i32 year and any day-of-year a caller can pass on -/
theorem compose_no_overflow (y o : Int) (hy : InI32 y) (h1 : 1 ≤ o) (h2 : o ≤ 366) :
    Chk.julian2jdn y o = some (julian2jdn y o) ∧ Chk.gregorian2jdn y o = some (gregorian2jdn y o) :=
  ⟨Chk.julian2jdn_eq y o h1 (by omega), Chk.gregorian2jdn_eq y o hy h1 h2⟩

/-- the guards are exact: a returned day number is always a 32-bit value -/
theorem conversions_in_range (ρ : Rule) (y o j : Int) (hy : InI32 y) (h1 : 1 ≤ o) (h2 : o ≤ 366)
    (h : (ruleCal ρ).getJdn y o = some j) : InI32 j := by
  rw [ruleCal_getJdn ρ y o hy h1 h2] at h
  split at h
  · rename_i hc; cases h; exact hc
  · cases h

/-! ### `Calendar::reforming` -/

/-- **`Calendar::reforming` never overflows and never panics, for every i32 argument** -/
theorem reforming_no_panic (r : Int) (hr : InI32 r) :
    Chk.mkReforming r = some (Calendar.mkReforming r) ∧ Calendar.mkReforming r ≠ .error .fault := by
  refine ⟨Chk.mkReforming_eq r hr, ?_⟩
  simp only [Calendar.mkReforming]
  split
  · simp
  · obtain ⟨y, m, d, h, _⟩ := ruleCal_atJdn .julian (r - 1)
    obtain ⟨y', m', d', h', _⟩ := ruleCal_atJdn .gregorian r
    simp only [ruleCal] at h h'
    rw [h, h']
    simp only
    split
    · split <;> simp
    · split <;> simp

/-! ### conversions on every calendar a caller can hold -/

/-- **`at_jdn` never overflows and never reaches its `unreachable!()`** -/
theorem atJdn_no_panic (c : Calendar) (hc : WF c) (j : Int) (hj : InI32 j) :
    ∃ d, Chk.atJdn c j = some d ∧ c.atJdn? j = some d := by
  obtain ⟨B⟩ := hc.base
  obtain ⟨d, hd, _⟩ := atJdn_total c hc j
  exact ⟨d, by rw [B.atJdn_eq j hj, hd], hd⟩

/-- **`at_ymd` returns normally for every i32 year, month and u32 day** -/
theorem atYmd_no_panic (c : Calendar) (hc : WF c) (y : Int) (hy : InI32 y) (m : Month) (d : Int)
    (hd : InU32 d) : Chk.atYmd c y m d = some (c.atYmd y m d) := by
  obtain ⟨B⟩ := hc.base
  exact B.atYmd_eq y hy m d hd

/-- **`at_ordinal_date` returns normally for every i32 year and u32 day-of-year** -/
theorem atOrdinalDate_no_panic (c : Calendar) (hc : WF c) (y : Int) (hy : InI32 y) (o : Int)
    (ho : InU32 o) :
    Chk.atOrdinalDate c y o = some (c.atOrdinalDate y o)
    ∧ c.ordinal2ymddo y o ≠ .error .fault := by
  obtain ⟨B⟩ := hc.base
  exact ⟨B.atOrdinalDate_eq y hy o ho, B.ordinal2ymddo_no_fault y o⟩

/-- `year_length` (its `unreachable!()` and `debug_assert!`) and `month_shape`, every year -/
theorem year_queries_no_panic (c : Calendar) (hc : WF c) (y : Int) (m : Month) :
    Chk.yearLength c y = some (c.yearLength y)
    ∧ Chk.monthIShape c y m = some (c.monthIShape y m)
    ∧ 0 ≤ c.yearLength y ∧ c.yearLength y ≤ 366 := by
  obtain ⟨B⟩ := hc.base
  exact ⟨B.ylen y, B.mshape y m, B.ylen_nonneg y, B.ylen_le y⟩

/-- the boundary-date accessors -/
theorem boundary_dates_no_panic (c : Calendar) (hc : WF c) :
    Chk.lastJulianDate c = some c.lastJulianDate
    ∧ Chk.firstGregorianDate c = some c.firstGregorianDate :=
  ⟨Chk.lastJulianDate_eq c hc, Chk.firstGregorianDate_eq c hc⟩

/-! ### `MonthShape` methods, for every shape `month_shape` returns and every u32 argument -/

theorem shape_methods_no_panic (c : Calendar) (hc : WF c) (y : Int) (m : Month) (s : IShape)
    (hs : c.monthIShape y m = some s) (n : Int) (hn : InU32 n) :
    Chk.len s = some s.len
    ∧ Chk.nthDay s n = some (s.nthDay n)
    ∧ Chk.dayOrdinalErr s y m n = some (s.dayOrdinalErr y m n)
    ∧ Chk.gap s = some s.gap := by
  obtain ⟨B⟩ := hc.base
  have hf := B.fits y m s hs
  exact ⟨Chk.len_eq s hf, Chk.nthDay_eq s hf n hn, Chk.dayOrdinalErr_eq s hf y m n hn,
    Chk.gap_eq s hf⟩

/-- `nth_date` (defect D5: months beyond the day-number range) and, before fix F4,
`nth_day(u32::MAX)` on a gapped month -/
theorem nthDate_no_panic (c : Calendar) (hc : WF c) (y : Int) (hy : InI32 y) (m : Month)
    (s : IShape) (hs : c.monthIShape y m = some s) (n : Int) (hn : InU32 n) :
    Chk.nthDate ⟨c, y, m, s⟩ n = some (MonthShape.nthDate ⟨c, y, m, s⟩ n) := by
  obtain ⟨B⟩ := hc.base
  exact B.nthDate_eq y hy m s hs n hn

/-! ### `Date` methods, for every date the library hands out -/

theorem succ_pred_no_panic (d : Date) (hc : WF d.calendar) (hj : InI32 d.jdn)
    (hcan : d.calendar.atJdn? d.jdn = some d) :
    Chk.succ d = some d.succ ∧ Chk.pred d = some d.pred
    ∧ Chk.ordinal0 d = some d.ordinal0 ∧ Chk.dayOrdinal0 d = some d.dayOrdinal0 := by
  obtain ⟨B⟩ := hc.base
  obtain ⟨d', hd', _, _, _, _, ho1, ho2⟩ := B.block d.jdn
  rw [hcan] at hd'; cases hd'
  have hle := B.ylen_le d.year
  obtain ⟨_, _, hp⟩ := atJdn?_parts d.calendar d.jdn d hcan
  have hk := B.dayOrdinal_range d.year d.ordinal d.month d.day d.dayOrdinal hp
  exact ⟨B.succ_eq d rfl hcan hj, B.pred_eq d rfl hcan hj,
    Chk.ordinal0_eq d ho1 (by omega), Chk.dayOrdinal0_eq d hk.1 hk.2⟩

/-- the two trimming loops of `Dates::new` (fix F5; seeded change C05-a dropped the
`start <= end` guard of the second one): `start += 1` and `end -= 1` never leave u32, for any
month shape whatsoever -/
theorem dates_new_no_overflow (s : MonthShape) (hl : s.len ≤ 4294967294) :
    Chk.trimStart s (s.len.toNat + 1) 1 s.len = some (Dates.trimStart s (s.len.toNat + 1) 1 s.len)
    ∧ Chk.trimEnd s (s.len.toNat + 1) (Dates.trimStart s (s.len.toNat + 1) 1 s.len) s.len
        = some (Dates.trimEnd s (s.len.toNat + 1) (Dates.trimStart s (s.len.toNat + 1) 1 s.len) s.len) := by
  refine ⟨Chk.trimStart_eq s _ 1 s.len (by omega) hl, ?_⟩
  have := Chk.trimStart_ge s (s.len.toNat + 1) 1 s.len
  exact Chk.trimEnd_eq s _ _ s.len (by omega) (by omega)

/-! ### weekdays and timestamps -/

/-- `Weekday::for_jdn` never reaches its `unreachable!()` -/
theorem weekday_no_panic (j : Int) :
    Chk.weekdayForJdn j = Weekday.forJdn? j ∧ Weekday.forJdn? j ≠ none := by
  refine ⟨Chk.weekdayForJdn_eq j, ?_⟩
  have h0 : 0 ≤ j % 7 := by omega
  have h1 : j % 7 < 7 := by omega
  simp only [Weekday.forJdn?]
  generalize j % 7 = r at *
  have : r = 0 ∨ r = 1 ∨ r = 2 ∨ r = 3 ∨ r = 4 ∨ r = 5 ∨ r = 6 := by omega
  rcases this with rfl | rfl | rfl | rfl | rfl | rfl | rfl <;> simp [Weekday.ofInt?]

/-- `unix2jdn` for every i64, `jdn2unix` for every i32, `system2jdn` for every duration -/
theorem timestamps_no_panic :
    (∀ t, InI64 t → Chk.unix2jdn t = some (unix2jdn t))
    ∧ (∀ j, InI32 j → Chk.jdn2unix j = some (jdn2unix j))
    ∧ (∀ before secs nanos, 0 ≤ secs → Chk.system2jdn before secs nanos = some (system2jdn before secs nanos)) :=
  ⟨Chk.unix2jdn_eq, Chk.jdn2unix_eq, Chk.system2jdn_eq⟩

/-- the narrowing casts in `unix2jdn` happen only after the range check -/
theorem unix2jdn_in_range (t j s : Int) (h : unix2jdn t = some (j, s)) :
    InI32 j ∧ 0 ≤ s ∧ s < 86400 := by
  simp only [unix2jdn] at h
  split at h
  · rename_i hc
    cases h
    simp only [inI32, Bool.and_eq_true, decide_eq_true_eq] at hc
    exact ⟨hc, by omega, by omega⟩
  · cases h

/-- the checked layer is not vacuous: it computes on concrete inputs (the extreme day
numbers, a reforming calendar), and it does fault where the arithmetic really overflows —
`gregorian2jdn` called outside its callers' contract (day-of-year 600 of year 5874897, which
passes the guard) overflows i32 -/
theorem checked_layer_examples :
    Chk.gregorian2jdn 5874898 154 = some (some 2147483647)
    ∧ Chk.jdn2gregorian (-2147483648) = some (-5884323, 135)
    ∧ Chk.atJdn Calendar.reform1582 2299161 = Calendar.reform1582.atJdn? 2299161
    ∧ Chk.gregorian2jdn 5874897 600 = none
    ∧ Chk.nthDay (.gapped 5 14 31) 4294967295 = some none := by
  refine ⟨rfl, rfl, rfl, rfl, rfl⟩

/-- the two range comparisons of inner.rs (`cmp_int_range`, `cmp_ym_range`, generated from the
source with their `debug_assert!`s explicit): no assertion fires when the lower bound is not
above the upper one — which is what `ReformGap::cmp_year` / `cmp_year_month` pass, the last
Julian label being below the first Gregorian one (C03) — and the results are the pure model's -/
theorem range_comparisons_checked (v l u : Int) (h : l ≤ u) (y : Int) (m : Month) (ly : Int) (lm : Month)
    (uy : Int) (um : Month) (h' : ymKey ly lm ≤ ymKey uy um) :
    Chk.cmpIntRange v l u = some (cmpIntRange v l u)
    ∧ Chk.cmpYmRange (y, m) (ly, lm) (uy, um) = some (cmpYmRange y m ly lm uy um) :=
  ⟨Chk.cmpIntRange_eq v l u h, Chk.cmpYmRange_eq y m ly lm uy um h'⟩

/-! ### the same statements for the definitions GENERATED from lib.rs

`Gen.*` (Model/GenLib.lean) is not written by hand: bin/libgen translates the `const fn`s of
lib.rs (and the small helpers of inner.rs) construct by construct — every `+ - *` and narrowing
cast a checked operation, every `unreachable!()` / `debug_assert!` a fault, early returns,
`let mut`, guarded `match` arms and the unrolled `for_month!` loops included — and `bin/check`
regenerates the file from /repo's working tree on every run and compares it with the text these
theorems are about (DESIGN.md 0.9).  Lemmas/GenLib.lean proves each generated function equal to
its hand-written counterpart; the theorems below chain that with the results above, so for these
functions no hand-copied link remains between the Rust source and the unbounded model. -/

/-- the generated `Calendar::reforming` is fault-free and is the model's, for every i32 argument -/
theorem generated_reforming (r : Int) (hr : InI32 r) :
    Gen.calendarReforming r = some (Calendar.mkReforming r) := by
  rw [Gen.calendarReforming_eq]; exact (reforming_no_panic r hr).1

/-- the generated year and month queries, for every calendar a caller can hold and every year -/
theorem generated_year_queries (c : Calendar) (hc : WF c) (y : Int) (m : Month) :
    Gen.calendarYearKind c y = some (c.yearKind y)
    ∧ Gen.calendarYearLength c y = some (c.yearLength y)
    ∧ Gen.calendarMonthShape c y m = some (c.monthShape y m) := by
  have hg := Gen.WF.gapOrdered hc
  obtain ⟨h1, h2, _, _⟩ := year_queries_no_panic c hc y m
  refine ⟨Gen.calendarYearKind_eq c hg y, ?_, ?_⟩
  · rw [Gen.calendarYearLength_eq c hg, h1]
  · rw [Gen.calendarMonthShape_eq c hg, h2]; rfl

/-- the generated `at_jdn`, `at_ymd`, `at_ordinal_date` -/
theorem generated_constructors (c : Calendar) (hc : WF c) :
    (∀ j, InI32 j → Gen.calendarAtJdn c j = c.atJdn? j ∧ c.atJdn? j ≠ none)
    ∧ (∀ y m d, InI32 y → InU32 d → Gen.calendarAtYmd c y m d = some (c.atYmd y m d))
    ∧ (∀ y o, InI32 y → InU32 o → Gen.calendarAtOrdinalDate c y o = some (c.atOrdinalDate y o)) := by
  have hg := Gen.WF.gapOrdered hc
  refine ⟨?_, ?_, ?_⟩
  · intro j hj
    obtain ⟨d, h1, h2⟩ := atJdn_no_panic c hc j hj
    rw [Gen.calendarAtJdn_eq c hg, h1, h2]; simp
  · intro y m d hy hd
    rw [Gen.calendarAtYmd_eq c hg]; exact atYmd_no_panic c hc y hy m d hd
  · intro y o hy ho
    rw [Gen.calendarAtOrdinalDate_eq c hg]; exact (atOrdinalDate_no_panic c hc y hy o ho).1

/-- the generated boundary accessors -/
theorem generated_boundary_dates (c : Calendar) (hc : WF c) :
    Gen.calendarLastJulianDate c = some c.lastJulianDate
    ∧ Gen.calendarFirstGregorianDate c = some c.firstGregorianDate := by
  rw [Gen.calendarLastJulianDate_eq, Gen.calendarFirstGregorianDate_eq]
  exact boundary_dates_no_panic c hc

/-- the generated `MonthShape` methods, for every shape `month_shape` returns -/
theorem generated_shape_methods (c : Calendar) (hc : WF c) (y : Int) (hy : InI32 y) (m : Month) (s : IShape)
    (hs : c.monthIShape y m = some s) (n : Int) (hn : InU32 n) :
    Gen.monthShapeLen ⟨c, y, m, s⟩ = some s.len
    ∧ Gen.monthShapeNthDay ⟨c, y, m, s⟩ n = some (s.nthDay n)
    ∧ Gen.monthShapeDayOrdinalErr ⟨c, y, m, s⟩ n = some (s.dayOrdinalErr y m n)
    ∧ Gen.monthShapeGap ⟨c, y, m, s⟩ = some (s.gap.map fun p => RangeIncl.new p.1 p.2)
    ∧ Gen.monthShapeNthDate ⟨c, y, m, s⟩ n = some (MonthShape.nthDate ⟨c, y, m, s⟩ n)
    ∧ Gen.monthShapeContains ⟨c, y, m, s⟩ n = s.contains n
    ∧ Gen.monthShapeFirstDay ⟨c, y, m, s⟩ = s.firstDay ∧ Gen.monthShapeLastDay ⟨c, y, m, s⟩ = s.lastDay
    ∧ Gen.monthShapeKind ⟨c, y, m, s⟩ = s.kind := by
  obtain ⟨h1, h2, h3, h4⟩ := shape_methods_no_panic c hc y m s hs n hn
  refine ⟨?_, ?_, ?_, ?_, ?_, ?_, ?_, ?_, ?_⟩
  · rw [Gen.monthShapeLen_eq]; exact h1
  · rw [Gen.monthShapeNthDay_eq]; exact h2
  · rw [Gen.monthShapeDayOrdinalErr_eq]; exact h3
  · rw [Gen.monthShapeGap_eq, h4]; rfl
  · rw [Gen.monthShapeNthDate_eq _ (Gen.WF.gapOrdered hc)]; exact nthDate_no_panic c hc y hy m s hs n hn
  · exact Gen.monthShapeContains_eq _ n
  · exact Gen.monthShapeFirstDay_eq _
  · exact Gen.monthShapeLastDay_eq _
  · exact Gen.monthShapeKind_eq _

/-- the generated `Date` methods, for every date the library hands out -/
theorem generated_date_methods (d : Date) (hc : WF d.calendar) (hj : InI32 d.jdn)
    (hcan : d.calendar.atJdn? d.jdn = some d) :
    Gen.dateSucc d = some d.succ ∧ Gen.datePred d = some d.pred
    ∧ Gen.dateOrdinal0 d = some d.ordinal0 ∧ Gen.dateDayOrdinal0 d = some d.dayOrdinal0
    ∧ Gen.dateIsJulian d = d.isJulian ∧ Gen.dateIsGregorian d = d.isGregorian
    ∧ Gen.dateWeekday d = Weekday.forJdn? d.jdn := by
  have hg := Gen.WF.gapOrdered hc
  obtain ⟨h1, h2, h3, h4⟩ := succ_pred_no_panic d hc hj hcan
  refine ⟨?_, ?_, ?_, ?_, Gen.dateIsJulian_eq d, Gen.dateIsGregorian_eq d, ?_⟩
  · rw [Gen.dateSucc_eq d hg]; exact h1
  · rw [Gen.datePred_eq d hg]; exact h2
  · rw [Gen.dateOrdinal0_eq]; exact h3
  · rw [Gen.dateDayOrdinal0_eq]; exact h4
  · rw [Gen.dateWeekday_eq]; exact (weekday_no_panic d.jdn).1

/-- the generated `convert_to` is `at_jdn` of the target calendar -/
theorem generated_convert_to (d : Date) (c : Calendar) (hc : WF c) (hj : InI32 d.jdn) :
    Gen.dateConvertTo d c = c.atJdn? d.jdn := by
  obtain ⟨d', h1, h2⟩ := atJdn_no_panic c hc d.jdn hj
  rw [Gen.dateConvertTo_eq d c (Gen.WF.gapOrdered hc), h1, h2]

/-- the generated timestamp functions and weekday -/
theorem generated_timestamps :
    (∀ t, InI64 t → Gen.unix2jdn t = some (unix2jdn t))
    ∧ (∀ j, InI32 j → Gen.jdn2unix j = some (jdn2unix j))
    ∧ (∀ j, Gen.weekdayForJdn j = Weekday.forJdn? j) := by
  refine ⟨?_, ?_, ?_⟩
  · intro t ht; rw [Gen.unix2jdn_eq t ht]; exact timestamps_no_panic.1 t ht
  · intro j hj; rw [Gen.jdn2unix_eq]; exact timestamps_no_panic.2.1 j hj
  · intro j; rw [Gen.weekdayForJdn_eq]; exact (weekday_no_panic j).1

/-- the helpers that cannot fault are the model's functions, and the built-in 1582 constant is
the model's literal -/
theorem generated_helpers :
    Gen.isJulianLeapYear = isJulianLeapYear ∧ Gen.isGregorianLeapYear = isGregorianLeapYear
    ∧ (∀ a b, Gen.monthLt a b = a.lt b) ∧ (∀ a b, Gen.monthLe a b = a.le b)
    ∧ (∀ a b, Gen.monthEq a b = (a == b)) ∧ (∀ m, Gen.monthNumber m = m.number)
    ∧ (∀ m, Gen.monthPred m = m.pred) ∧ (∀ m, Gen.monthSucc m = m.succ)
    ∧ (∀ w, Gen.weekdayNumber w = w.number) ∧ (∀ w, Gen.weekdayPred w = w.pred)
    ∧ (∀ w, Gen.weekdaySucc w = w.succ)
    ∧ (∀ c, Gen.calendarGap c = c.gap) ∧ (∀ c, Gen.calendarReformation c = c.reformation)
    ∧ (∀ c, Gen.calendarIsReforming c = c.isReforming) ∧ (∀ c, Gen.calendarIsProleptic c = c.isProleptic)
    ∧ Gen.calendarREFORM1582 = Calendar.reform1582 :=
  ⟨Gen.isJulianLeapYear_eq, Gen.isGregorianLeapYear_eq, Gen.monthLt_eq, Gen.monthLe_eq, Gen.monthEq_eq,
    Gen.monthNumber_eq, Gen.monthPred_eq, Gen.monthSucc_eq, Gen.weekdayNumber_eq, Gen.weekdayPred_eq,
    Gen.weekdaySucc_eq, Gen.calendarGap_eq, Gen.calendarReformation_eq, Gen.calendarIsReforming_eq,
    Gen.calendarIsProleptic_eq, Gen.calendarREFORM1582_eq⟩

/-- the nine inner.rs kernels as translated by the second translator (bin/libgen, every `/`, `%`, `+`, `-`, `*`
and `as` a checked step) are, for all arguments, the functions the first translator (bin/srcgen) produced
and the theorems above are about: two independently written readings of the same source, proved equal -/
theorem generated_kernels_agree :
    (∀ d, Gen.kDecomposeJulian d = Chk.decomposeJulian d)
    ∧ (∀ y o, Gen.kComposeJulian y o = Chk.composeJulian y o)
    ∧ (∀ j, Gen.kJdn2julian j = Chk.jdn2julian j) ∧ (∀ y o, Gen.kJulian2jdn y o = Chk.julian2jdn y o)
    ∧ (∀ j, Gen.kJdn2gregorian j = Chk.jdn2gregorian j) ∧ (∀ y o, Gen.kGregorian2jdn y o = Chk.gregorian2jdn y o)
    ∧ (∀ v l u, Gen.kCmpIntRange v l u = Chk.cmpIntRange v l u)
    ∧ (∀ a b c, Gen.kCmpYmRange a b c = Chk.cmpYmRange a b c)
    ∧ (∀ a m b n, Gen.kGapKindForDates a m b n = Chk.gapKindForDates a m b n) :=
  ⟨Gen.kDecomposeJulian_eq, Gen.kComposeJulian_eq, Gen.kJdn2julian_eq, Gen.kJulian2jdn_eq,
    Gen.kJdn2gregorian_eq, Gen.kGregorian2jdn_eq, Gen.kCmpIntRange_eq, Gen.kCmpYmRange_eq,
    Gen.kGapKindForDates_eq⟩

end JV.C05
