/-
C01 — JDN → date → JDN round trip is exact in every calendar.
-/
import JulianVerif.Lemmas.Proleptic
import JulianVerif.Lemmas.YearStart
import JulianVerif.Lemmas.AtJdn
import JulianVerif.Lemmas.Inverse
namespace JV.C01
open JV Spec

/-- proleptic calendars, every integer day number: `at_jdn` succeeds, the date reports that
day number, and feeding its year/month/day or its year/day-of-year back returns the
identical date (when the year fits the `i32` parameter, which it does for 32-bit `j`) -/
theorem roundtrip_proleptic (ρ : Rule) (j : Int) (hj : InI32 j) :
    ∃ d, (ruleCal ρ).atJdn? j = some d ∧ d.jdn = j
      ∧ (InI32 d.year → (ruleCal ρ).atYmd d.year d.month d.day = .ok d
                        ∧ (ruleCal ρ).atOrdinalDate d.year d.ordinal = .ok d) := by
  obtain ⟨y, m, dd, hat, hv, hjd⟩ := ruleCal_atJdn ρ j
  refine ⟨_, hat, rfl, ?_⟩
  intro hy
  simp only at hy ⊢
  constructor
  · have hv' : 1 ≤ dd ∧ dd ≤ monthLen (leap ρ y) m := hv
    rw [ruleCal_atYmd ρ y hy m dd, if_pos hv', hjd, if_pos hj]
  · have hb := daysBefore_bounds (leap ρ y) m
    have ho : 1 ≤ daysBefore (leap ρ y) m + dd ∧ daysBefore (leap ρ y) m + dd ≤ yearLen ρ y := by
      simp only [ValidYMD, yearLen] at *; omega
    obtain ⟨m', d', hsum, h1, h2, heq⟩ := (ruleCal_atOrdinalDate ρ y hy _).1 ho
    obtain ⟨rfl, rfl⟩ := daysBefore_inj (leap ρ y) m' m d' dd h1 h2 hv.1 hv.2 hsum
    have e : yearStart ρ y + (daysBefore (leap ρ y) m' + d') - 1 = j := by
      simp only [jdnOf] at hjd; omega
    rw [heq, e, if_pos hj]

/-- no two day numbers of a proleptic calendar share a year/month/day -/
theorem label_injective_proleptic (ρ : Rule) (j j' : Int) (d d' : Date)
    (h : (ruleCal ρ).atJdn? j = some d) (h' : (ruleCal ρ).atJdn? j' = some d')
    (hl : d.year = d'.year ∧ d.month = d'.month ∧ d.day = d'.day) : j = j' := by
  obtain ⟨y, m, dd, hat, hd⟩ := ruleCal_atJdn ρ j
  obtain ⟨y', m', dd', hat', hd'⟩ := ruleCal_atJdn ρ j'
  rw [hat] at h; rw [hat'] at h'
  cases h; cases h'
  simp only at hl
  obtain ⟨rfl, rfl, rfl⟩ := hl
  exact hd.2.symm.trans hd'.2

/-- **every calendar a caller can hold, every day number (no bound): converting the day
number to a date succeeds and yields a date that reports that same day number** and belongs
to that calendar, labelled as the specification says (Julian before R, Gregorian from R) -/
theorem atJdn_total (c : Calendar) (hc : WF c) (j : Int) :
    ∃ d, c.atJdn? j = some d ∧ d.calendar = c ∧ d.jdn = j
      ∧ IsDate (ruleAt c j) j d.year d.month d.day :=
  JV.atJdn_total c hc j

/-- **feeding that date's year/month/day, or its year/day-of-year, back into the same
calendar returns the identical date** (all seven fields), for every 32-bit day number -/
theorem roundtrip (c : Calendar) (hc : WF c) (j : Int) (hj : InI32 j) (d : Date)
    (h : c.atJdn? j = some d) :
    c.atYmd d.year d.month d.day = .ok d ∧ c.atOrdinalDate d.year d.ordinal = .ok d :=
  atJdn_roundtrip c hc j hj d h

/-- the hypotheses are satisfiable: the calendar reforming on day 2299664 (which used to
panic on Dec 31, 1584 — defect D1) and that very day -/
example : ∃ c, Calendar.mkReforming 2299664 = .ok c
    ∧ c.atJdn? 2299969 = some ⟨c, 1584, 356, .december, 31, 31, 2299969⟩ := ⟨_, rfl, rfl⟩

/-- **no two day numbers of one calendar share a year/month/day** -/
theorem label_injective (c : Calendar) (hc : WF c) (j j' : Int) (d d' : Date)
    (h : c.atJdn? j = some d) (h' : c.atJdn? j' = some d')
    (hl : d.year = d'.year ∧ d.month = d'.month ∧ d.day = d'.day) : j = j' := by
  obtain ⟨e, he, _, _, hd⟩ := JV.atJdn_total c hc j
  obtain ⟨e', he', _, _, hd'⟩ := JV.atJdn_total c hc j'
  rw [h] at he; rw [h'] at he'
  cases he; cases he'
  rw [hl.1, hl.2.1, hl.2.2] at hd
  -- same label: if the two days are on the same side, the rule decides; otherwise the
  -- Julian label precedes the last Julian date and the Gregorian one follows the first
  rcases hc.cases with rfl | rfl | ⟨rf, rfl, _⟩
  · exact hd.2.symm.trans hd'.2
  · exact hd.2.symm.trans hd'.2
  · simp only [Reform.cal, ruleAt, side] at hd hd'
    by_cases c1 : j < rf.R <;> by_cases c2 : j' < rf.R
    · rw [if_pos c1] at hd; rw [if_pos c2] at hd'; exact hd.2.symm.trans hd'.2
    · rw [if_pos c1] at hd; rw [if_neg c2] at hd'
      exfalso
      have o1 := rf.julian_side_order c1 hd
      have o2 := rf.gregorian_side_order (by omega) hd'
      rcases o1 with a | ⟨a, a2⟩ <;> rcases o2 with b | ⟨b, b2⟩
      · have := rf.yP_le_yQ; omega
      · have := rf.yP_le_yQ; omega
      · have := rf.yP_le_yQ; omega
      · exact rf.no_shared_label a b a2 b2
    · rw [if_neg c1] at hd; rw [if_pos c2] at hd'
      exfalso
      have o1 := rf.julian_side_order c2 hd'
      have o2 := rf.gregorian_side_order (by omega) hd
      rcases o1 with a | ⟨a, a2⟩ <;> rcases o2 with b | ⟨b, b2⟩
      · have := rf.yP_le_yQ; omega
      · have := rf.yP_le_yQ; omega
      · have := rf.yP_le_yQ; omega
      · exact rf.no_shared_label a b a2 b2
    · rw [if_neg c1] at hd; rw [if_neg c2] at hd'; exact hd.2.symm.trans hd'.2

end JV.C01
