/-
C01 — JDN → date → JDN round trip is exact in every calendar.
-/
import JulianVerif.Lemmas.Proleptic
import JulianVerif.Lemmas.YearStart
namespace JV.C01
open JV Spec

/-- proleptic calendars, every integer day number: `at_jdn` succeeds, the date reports that
day number, and feeding its year/month/day or its year/day-of-year back returns the
identical date (when the year fits the `i32` parameter, which it does for 32-bit `j`) -/
theorem roundtrip_proleptic (ρ : Rule) (j : Int) (hj : InI32 j) :
    ∃ d, (ruleCal ρ).atJdn? j = some d ∧ d.jdn = j
      ∧ (InI32 d.year → (ruleCal ρ).atYmd d.year d.month d.day = .ok d
                        ∧ (ruleCal ρ).atOrdinalDate d.year d.ordinal = .ok d) := by
  obtain ⟨y, m, dd, hat, hv, hjd⟩ := ruleCal_atJdn ρ j
  refine ⟨_, hat, rfl, ?_⟩
  intro hy
  simp only at hy ⊢
  constructor
  · have hv' : 1 ≤ dd ∧ dd ≤ monthLen (leap ρ y) m := hv
    rw [ruleCal_atYmd ρ y hy m dd, if_pos hv', hjd, if_pos hj]
  · have hb := daysBefore_bounds (leap ρ y) m
    have ho : 1 ≤ daysBefore (leap ρ y) m + dd ∧ daysBefore (leap ρ y) m + dd ≤ yearLen ρ y := by
      simp only [ValidYMD, yearLen] at *; omega
    obtain ⟨m', d', hsum, h1, h2, heq⟩ := (ruleCal_atOrdinalDate ρ y hy _).1 ho
    obtain ⟨rfl, rfl⟩ := daysBefore_inj (leap ρ y) m' m d' dd h1 h2 hv.1 hv.2 hsum
    have e : yearStart ρ y + (daysBefore (leap ρ y) m' + d') - 1 = j := by
      simp only [jdnOf] at hjd; omega
    rw [heq, e, if_pos hj]

/-- no two day numbers of a proleptic calendar share a year/month/day -/
theorem label_injective_proleptic (ρ : Rule) (j j' : Int) (d d' : Date)
    (h : (ruleCal ρ).atJdn? j = some d) (h' : (ruleCal ρ).atJdn? j' = some d')
    (hl : d.year = d'.year ∧ d.month = d'.month ∧ d.day = d'.day) : j = j' := by
  obtain ⟨y, m, dd, hat, hd⟩ := ruleCal_atJdn ρ j
  obtain ⟨y', m', dd', hat', hd'⟩ := ruleCal_atJdn ρ j'
  rw [hat] at h; rw [hat'] at h'
  cases h; cases h'
  simp only at hl
  obtain ⟨rfl, rfl, rfl⟩ := hl
  exact hd.2.symm.trans hd'.2

end JV.C01
