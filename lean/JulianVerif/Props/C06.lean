/-
C06 — Every date the API hands out is the calendar's canonical date for its JDN.

`Produced d` is the inductive set of dates obtainable by any finite sequence of the
date-producing operations of the public API, starting from calendars a caller can hold
(`WF`: proleptic, or returned by `Calendar::reforming`) and arguments of the parameter
types.  `produced_canon` is an induction over that history.
-/
import JulianVerif.Lemmas.AcceptInst
import JulianVerif.Model.Text
import JulianVerif.Model.Time
import JulianVerif.Model.Foreign
set_option linter.unusedSimpArgs false
namespace JV.C06
open JV Spec

/-- a date is canonical: its calendar is well-formed, its day number is a 32-bit value, and
it is field-for-field what its own calendar says about that day number -/
def Canon (d : Date) : Prop :=
  WF d.calendar ∧ InI32 d.jdn ∧ d.calendar.atJdn? d.jdn = some d

/-- every way the public API produces a `Date` -/
inductive Produced : Date → Prop
  | atJdn (c : Calendar) (hc : WF c) (j : Int) (hj : InI32 j) (d : Date)
      (h : c.atJdn? j = some d) : Produced d
  | atYmd (c : Calendar) (hc : WF c) (y : Int) (hy : InI32 y) (m : Month) (dd : Int) (hd : InU32 dd)
      (d : Date) (h : c.atYmd y m dd = .ok d) : Produced d
  | atOrdinalDate (c : Calendar) (hc : WF c) (y : Int) (hy : InI32 y) (o : Int) (ho : InU32 o)
      (d : Date) (h : c.atOrdinalDate y o = .ok d) : Produced d
  | parseDate (c : Calendar) (hc : WF c) (s : List Char) (d : Date)
      (h : c.parseDate s = .ok d) : Produced d
  | atUnixTime (c : Calendar) (hc : WF c) (t : Int) (d : Date) (secs : Int)
      (h : c.atUnixTime? t = some (some (d, secs))) : Produced d
  | atSystemTime (c : Calendar) (hc : WF c) (before : Bool) (s n : Int) (d : Date) (secs : Int)
      (h : c.atSystemTime? before s n = some (some (d, secs))) : Produced d
  | lastJulian (c : Calendar) (hc : WF c) (d : Date) (h : c.lastJulianDate = some d) : Produced d
  | firstGregorian (c : Calendar) (hc : WF c) (d : Date) (h : c.firstGregorianDate = some d) : Produced d
  | nthDate (c : Calendar) (hc : WF c) (y : Int) (hy : InI32 y) (m : Month) (s : MonthShape)
      (hs : c.monthShape y m = some s) (n : Int) (hn : InU32 n) (d : Date)
      (h : s.nthDate n = some d) : Produced d
  | convertTo (d₀ : Date) (h₀ : Produced d₀) (c : Calendar) (hc : WF c) (d : Date)
      (h : d₀.convertTo? c = some d) : Produced d
  | succ (d₀ : Date) (h₀ : Produced d₀) (d : Date) (h : d₀.succ = some d) : Produced d
  | pred (d₀ : Date) (h₀ : Produced d₀) (d : Date) (h : d₀.pred = some d) : Produced d
  | fromChrono (y m dd : Int) (d : Date) (h : Foreign.fromChrono y m dd = .ok d) : Produced d
  | fromTime (y m dd : Int) (d : Date) (h : Foreign.fromTime y m dd = .ok d) : Produced d

theorem canon_of_atJdn (c : Calendar) (hc : WF c) (j : Int) (hj : InI32 j) (d : Date)
    (h : c.atJdn? j = some d) : Canon d := by
  obtain ⟨hcal, hjd, _⟩ := atJdn?_parts c j d h
  refine ⟨by rw [hcal]; exact hc, by rw [hjd]; exact hj, ?_⟩
  rw [hcal, hjd]; exact h

theorem canon_of_atYmd (c : Calendar) (hc : WF c) (y : Int) (hy : InI32 y) (m : Month) (dd : Int)
    (hd : 0 ≤ dd) (d : Date) (h : c.atYmd y m dd = .ok d) : Canon d := by
  obtain ⟨A⟩ := hc.accepting
  obtain ⟨h1, h2, _⟩ := A.atYmd_canon y hy m dd hd d h
  exact canon_of_atJdn c hc d.jdn h2 d h1

theorem canon_of_atOrdinalDate (c : Calendar) (hc : WF c) (y : Int) (hy : InI32 y) (o : Int)
    (d : Date) (h : c.atOrdinalDate y o = .ok d) : Canon d := by
  obtain ⟨A⟩ := hc.accepting
  obtain ⟨h1, h2, _⟩ := A.atOrdinalDate_canon y o hy d h
  exact canon_of_atJdn c hc d.jdn h2 d h1

theorem ite_ok_inv {X v : Int} {r rest : List Char} {e : ParseDateError}
    (h : (if inI32 X = true then (Except.ok (X, r) : Except ParseDateError (Int × List Char)) else .error e)
          = .ok (v, rest)) : InI32 v := by
  by_cases hc : inI32 X = true
  · rw [if_pos hc] at h
    injection h with h; injection h with h1 _; subst h1
    exact (inI32_iff _).mp hc
  · rw [if_neg hc] at h; cases h

theorem parseInt_range (s : List Char) (v : Int) (rest : List Char) (h : parseInt s = .ok (v, rest)) :
    InI32 v := by
  cases s with
  | nil => simp [parseInt] at h
  | cons c cs =>
    simp only [parseInt] at h
    by_cases h1 : (c == '-' || c == '+') = true
    · rw [if_pos h1] at h
      by_cases h2 : (spanDigits cs).1.isEmpty = true
      · rw [if_pos h2] at h; cases h
      · rw [if_neg h2] at h
        exact ite_ok_inv h
    · rw [if_neg h1] at h
      by_cases h3 : isAsciiDigit c = true
      · rw [if_pos h3] at h
        exact ite_ok_inv h
      · rw [if_neg h3] at h; cases h

theorem parseUInt_range (s : List Char) (v : Int) (rest : List Char) (h : parseUInt s = .ok (v, rest)) :
    0 ≤ v := by
  simp only [parseUInt] at h
  split at h
  · split at h <;> cases h
  · split at h
    · injection h with h; injection h with h1 h2; subst h1; exact Int.natCast_nonneg _
    · cases h

theorem canon_of_parseDate (c : Calendar) (hc : WF c) (s : List Char) (d : Date)
    (h : c.parseDate s = .ok d) : Canon d := by
  simp only [Calendar.parseDate] at h
  cases h1 : parseInt s with
  | error e => rw [h1] at h; cases h
  | ok r =>
    obtain ⟨year, rest⟩ := r
    have hy := parseInt_range s year rest h1
    rw [h1] at h; simp only at h
    cases h2 : scanChar '-' rest with
    | error e => rw [h2] at h; cases h
    | ok rest2 =>
      rw [h2] at h; simp only at h
      cases h3 : parseDayInYear rest2 with
      | error e => rw [h3] at h; cases h
      | ok r3 =>
        obtain ⟨diny, rest3⟩ := r3
        rw [h3] at h; simp only at h
        split at h
        · cases h
        · cases diny with
          | ordinal o =>
            simp only at h
            cases h4 : c.atOrdinalDate year o with
            | error e => rw [h4] at h; cases h
            | ok d' => rw [h4] at h; injection h with h; subst h
                       exact canon_of_atOrdinalDate c hc year hy o d' h4
          | date month day =>
            simp only at h
            have hday : 0 ≤ day := by
              simp only [parseDayInYear] at h3
              cases p1 : parseUInt rest2 with
              | error e => rw [p1] at h3; cases h3
              | ok q =>
                obtain ⟨f1, r1⟩ := q
                rw [p1] at h3; simp only at h3
                split at h3
                · cases h3
                · cases hm : Month.ofInt? f1 with
                  | none => rw [hm] at h3; cases h3
                  | some mo =>
                    rw [hm] at h3; simp only at h3
                    cases p2 : scanChar '-' r1 with
                    | error e => rw [p2] at h3; cases h3
                    | ok r2 =>
                      rw [p2] at h3; simp only at h3
                      cases p3 : parseUInt r2 with
                      | error e => rw [p3] at h3; cases h3
                      | ok q3 =>
                        obtain ⟨dv, r3'⟩ := q3
                        rw [p3] at h3; simp only at h3
                        injection h3 with h3; injection h3 with h3a h3b
                        injection h3a with _ hdv; subst hdv
                        exact parseUInt_range r2 dv r3' p3
            cases h4 : c.atYmd year month day with
            | error e => rw [h4] at h; cases h
            | ok d' => rw [h4] at h; injection h with h; subst h
                       exact canon_of_atYmd c hc year hy month day hday d' h4

/-- **whatever sequence of public operations produced it, a date is field-for-field the
one obtained by asking its own calendar for its Julian day number** -/
theorem produced_canon {d : Date} (h : Produced d) : Canon d := by
  induction h with
  | atJdn c hc j hj d h => exact canon_of_atJdn c hc j hj d h
  | atYmd c hc y hy m dd hd d h => exact canon_of_atYmd c hc y hy m dd hd.1 d h
  | atOrdinalDate c hc y hy o _ d h => exact canon_of_atOrdinalDate c hc y hy o d h
  | parseDate c hc s d h => exact canon_of_parseDate c hc s d h
  | atUnixTime c hc t d secs h =>
    simp only [Calendar.atUnixTime?] at h
    cases hu : unix2jdn t with
    | none => rw [hu] at h; cases h
    | some p =>
      obtain ⟨j, s⟩ := p
      rw [hu] at h; simp only at h
      have hj : InI32 j := by
        simp only [unix2jdn] at hu
        split at hu
        · rename_i hc'; injection hu with hu; injection hu with h1 _; subst h1
          exact (inI32_iff _).mp hc'
        · cases hu
      cases ha : c.atJdn? j with
      | none => rw [ha] at h; cases h
      | some d' =>
        rw [ha] at h; injection h with h; injection h with h; injection h with h1 _; subst h1
        exact canon_of_atJdn c hc j hj d' ha
  | atSystemTime c hc before s n d secs h =>
    simp only [Calendar.atSystemTime?] at h
    cases hu : system2jdn before s n with
    | none => rw [hu] at h; cases h
    | some p =>
      obtain ⟨j, s'⟩ := p
      rw [hu] at h; simp only at h
      have hj : InI32 j := by
        have : ∀ t, unix2jdn t = some (j, s') → InI32 j := by
          intro t hu'
          simp only [unix2jdn] at hu'
          split at hu'
          · rename_i hc'; injection hu' with hu'; injection hu' with h1 _; subst h1
            exact (inI32_iff _).mp hc'
          · cases hu'
        simp only [system2jdn] at hu
        split at hu
        · cases hu
        · split at hu <;> exact this _ hu
      cases ha : c.atJdn? j with
      | none => rw [ha] at h; cases h
      | some d' =>
        rw [ha] at h; injection h with h; injection h with h; injection h with h1 _; subst h1
        exact canon_of_atJdn c hc j hj d' ha
  | lastJulian c hc d h =>
    rcases hc.cases with rfl | rfl | ⟨rf, rfl, hR⟩
    · cases h
    · cases h
    · rw [rf.lastJulianDate_eq] at h
      -- R - 1 is a 32-bit day number because `reforming` rejects R = i32::MIN
      exact canon_of_atJdn _ hc _ hR.2 d h
    | firstGregorian c hc d h =>
    rcases hc.cases with rfl | rfl | ⟨rf, rfl, hR⟩
    · cases h
    · cases h
    · rw [rf.firstGregorianDate_eq] at h
      exact canon_of_atJdn _ hc _ hR.1 d h
  | nthDate c hc y hy m s hs n hn d h =>
    simp only [Calendar.monthShape] at hs
    cases hi : c.monthIShape y m with
    | none => rw [hi] at hs; cases hs
    | some si =>
      rw [hi] at hs; injection hs with hs; subst hs
      simp only [MonthShape.nthDate, MonthShape.nthDay] at h
      cases hn' : si.nthDay n with
      | none => rw [hn'] at h; cases h
      | some day =>
        rw [hn'] at h; simp only at h
        cases hy' : c.atYmd y m day with
        | error e => rw [hy'] at h; cases h
        | ok d' =>
          rw [hy'] at h; injection h with h; subst h
          obtain ⟨A⟩ := hc.accepting
          have hv := A.valid y m (Calendar.mem_all m) si hi
          -- nth_day only answers with days ≥ 1
          have hday : 0 ≤ day := by
            have hk := (si.nthDay_some_iff hv n hn.1).mp ⟨day, hn'⟩
            have := si.dayOrdinalErr_of_nthDay hv y m n day hk.1 hn'
            cases si <;> simp only [IShape.nthDay, IShape.Valid] at hn' hv <;>
              (repeat' split at hn') <;> (try cases hn') <;> omega
          exact canon_of_atYmd c hc y hy m day hday d' hy'
  | convertTo d₀ _ c hc d h ih =>
    exact canon_of_atJdn c hc d₀.jdn ih.2.1 d h
  | succ d₀ _ d h ih =>
    obtain ⟨hc, hj, hat⟩ := ih
    obtain ⟨T⟩ := hc.tiling
    have hs := T.succ_spec d₀.jdn hj d₀ hat
    rw [h] at hs
    split at hs
    · cases hs
    · rename_i hmax
      have hj2 : InI32 (d₀.jdn + 1) := by simp only [InI32] at *; omega
      exact canon_of_atJdn d₀.calendar hc (d₀.jdn + 1) hj2 d hs.symm
  | pred d₀ _ d h ih =>
    obtain ⟨hc, hj, hat⟩ := ih
    obtain ⟨T⟩ := hc.tiling
    have hs := T.pred_spec d₀.jdn hj d₀ hat
    rw [h] at hs
    split at hs
    · cases hs
    · rename_i hmin
      have hj2 : InI32 (d₀.jdn - 1) := by simp only [InI32] at *; omega
      exact canon_of_atJdn d₀.calendar hc (d₀.jdn - 1) hj2 d hs.symm
  | fromChrono y m dd d h =>
    simp only [Foreign.fromChrono, Foreign.fromForeign] at h
    split at h
    · cases h
    · rename_i mo hv
      simp only [Foreign.validForeign] at hv
      split at hv
      · split at hv
        · rename_i hc'
          simp only [Bool.and_eq_true, decide_eq_true_eq, Foreign.CHRONO_MIN_YEAR, Foreign.CHRONO_MAX_YEAR] at hc'
          have hy1 := of_decide_eq_true hc'.1.1.1
          have hy2 := of_decide_eq_true hc'.1.1.2
          injection hv with hv; subst hv
          split at h
          · rename_i dt hdt
            injection h with h; subst h
            exact canon_of_atYmd .gregorian (Or.inr (Or.inl rfl)) y (by simp only [InI32]; omega) _ dd (by omega) _ hdt
          · cases h
        · cases hv
      · cases hv
  | fromTime y m dd d h =>
    simp only [Foreign.fromTime, Foreign.fromForeign] at h
    split at h
    · cases h
    · rename_i mo hv
      simp only [Foreign.validForeign] at hv
      split at hv
      · split at hv
        · rename_i hc'
          simp only [Bool.and_eq_true, decide_eq_true_eq, Foreign.TIME_MIN_YEAR, Foreign.TIME_MAX_YEAR] at hc'
          have hy1 := of_decide_eq_true hc'.1.1.1
          have hy2 := of_decide_eq_true hc'.1.1.2
          injection hv with hv; subst hv
          split at h
          · rename_i dt hdt
            injection h with h; subst h
            exact canon_of_atYmd .gregorian (Or.inr (Or.inl rfl)) y (by simp only [InI32]; omega) _ dd (by omega) _ hdt
          · cases h
        · cases hv
      · cases hv

/-- consequently two produced dates of one calendar are equal exactly when their day
numbers are equal -/
theorem eq_iff_jdn {d₁ d₂ : Date} (h₁ : Produced d₁) (h₂ : Produced d₂)
    (hc : d₁.calendar = d₂.calendar) : d₁ = d₂ ↔ d₁.jdn = d₂.jdn := by
  constructor
  · intro h; rw [h]
  · intro hj
    have c1 := (produced_canon h₁).2.2
    have c2 := (produced_canon h₂).2.2
    rw [hc, hj] at c1
    rw [c1] at c2
    exact Option.some.inj c2

end JV.C06
