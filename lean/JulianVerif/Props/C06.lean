/-
C06 — Every date the API hands out is the calendar's canonical date for its JDN.
(partial: the producers of the proleptic calendars)
-/
import JulianVerif.Lemmas.Proleptic
import JulianVerif.Lemmas.YearStart
namespace JV.C06
open JV Spec

/-- a date is canonical when it is field-for-field what its own calendar says about its
day number -/
def Canon (d : Date) : Prop := d.calendar.atJdn? d.jdn = some d

/-- `at_jdn` itself -/
theorem canon_atJdn (c : Calendar) (j : Int) (d : Date) (h : c.atJdn? j = some d) : Canon d := by
  have hc : d.calendar = c ∧ d.jdn = j := by
    simp only [Calendar.atJdn?] at h
    split at h
    · cases h; exact ⟨rfl, rfl⟩
    · cases h
  simp only [Canon, hc.1, hc.2, h]

/-- `at_ymd` on a proleptic calendar -/
theorem canon_atYmd_proleptic (ρ : Rule) (y : Int) (hy : InI32 y) (m : Month) (dd : Int) (d : Date)
    (h : (ruleCal ρ).atYmd y m dd = .ok d) : Canon d := by
  rw [ruleCal_atYmd ρ y hy m dd] at h
  split at h
  · rename_i hv
    split at h
    · cases h
      obtain ⟨y', m', d', hat, hd⟩ := ruleCal_atJdn ρ (jdnOf ρ y m dd)
      obtain ⟨rfl, rfl, rfl⟩ := isDate_unique hd ⟨hv, rfl⟩
      simpa [Canon] using hat
    · cases h
  · cases h

/-- `at_ordinal_date` on a proleptic calendar -/
theorem canon_atOrdinalDate_proleptic (ρ : Rule) (y : Int) (hy : InI32 y) (o : Int) (d : Date)
    (h : (ruleCal ρ).atOrdinalDate y o = .ok d) : Canon d := by
  by_cases ho : 1 ≤ o ∧ o ≤ yearLen ρ y
  · obtain ⟨m, dd, hsum, h1, h2, heq⟩ := (ruleCal_atOrdinalDate ρ y hy o).1 ho
    rw [heq] at h
    split at h
    · cases h
      obtain ⟨y', m', d', hat, hd⟩ := ruleCal_atJdn ρ (yearStart ρ y + o - 1)
      have hd2 : IsDate ρ (yearStart ρ y + o - 1) y m dd := ⟨⟨h1, h2⟩, by simp only [jdnOf]; omega⟩
      obtain ⟨rfl, rfl, rfl⟩ := isDate_unique hd hd2
      simp only [Canon]
      rw [hat, hsum]
    · cases h
  · rw [(ruleCal_atOrdinalDate ρ y hy o).2 ho] at h; cases h

/-- equal day numbers in one calendar give equal canonical dates: equality, ordering and
hashing cannot disagree on canonical dates -/
theorem canon_eq_of_jdn (d₁ d₂ : Date) (h₁ : Canon d₁) (h₂ : Canon d₂)
    (hc : d₁.calendar = d₂.calendar) (hj : d₁.jdn = d₂.jdn) : d₁ = d₂ := by
  simp only [Canon] at h₁ h₂
  rw [hc, hj] at h₁
  rw [h₁] at h₂
  exact Option.some.inj h₂

end JV.C06
