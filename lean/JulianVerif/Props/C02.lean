/-
C02 — Proleptic Julian and Gregorian dates match the astronomical definition.

The specification (Spec/Basic.lean): leap rules in astronomical numbering; `yearStart`
is pinned down by `years_tile` (consecutive years abut) and the anchors
(JDN 0 = -4712-01-01 Julian = -4713-11-24 Gregorian); `IsDate ρ j y m d` says day `j` is
(y, m, d).  The theorems are about the model of the code (Model/Inner.lean,
Model/Calendar.lean), for every integer — no bound.
-/
import JulianVerif.Lemmas.Proleptic
import JulianVerif.Lemmas.YearStart
namespace JV.C02
open JV Spec

/-- consecutive years abut: Jan 1 of year y+1 is `yearLen` days after Jan 1 of year y -/
theorem years_tile (ρ : Rule) (y : Int) : yearStart ρ (y + 1) = yearStart ρ y + yearLen ρ y :=
  yearStart_succ ρ y

/-- JDN 0 is -4712-01-01 Julian = -4713-11-24 Gregorian -/
theorem anchors :
    IsDate .julian 0 (-4712) .january 1 ∧ IsDate .gregorian 0 (-4713) .november 24 := by
  unfold IsDate ValidYMD; decide

/-- every day number has exactly one label -/
theorem label_unique {ρ : Rule} {j y y' : Int} {m m' : Month} {d d' : Int}
    (h : IsDate ρ j y m d) (h' : IsDate ρ j y' m' d') : y = y' ∧ m = m' ∧ d = d' :=
  isDate_unique h h'

/-- the code's leap-year tests are the astronomical rules (0 and -4 are leap) -/
theorem leap_rules (y : Int) :
    (isJulianLeapYear y = true ↔ y % 4 = 0)
    ∧ (isGregorianLeapYear y = true ↔ (y % 4 = 0 ∧ (y % 100 ≠ 0 ∨ y % 400 = 0))) := by
  rw [isJulianLeapYear_eq, isGregorianLeapYear_eq]
  exact ⟨leap_julian_iff y, leap_gregorian_iff y⟩

/-- year kind and length of the proleptic calendars -/
theorem year_kind_length (y : Int) :
    Calendar.julian.yearKind y = (if y % 4 = 0 then .leap else .common)
    ∧ Calendar.julian.yearLength y = (if y % 4 = 0 then 366 else 365)
    ∧ Calendar.gregorian.yearKind y
        = (if y % 4 = 0 ∧ (y % 100 ≠ 0 ∨ y % 400 = 0) then .leap else .common)
    ∧ Calendar.gregorian.yearLength y
        = (if y % 4 = 0 ∧ (y % 100 ≠ 0 ∨ y % 400 = 0) then 366 else 365) := by
  rw [julian_yearKind, gregorian_yearKind, julian_yearLength, gregorian_yearLength]
  simp only [yearLen]
  by_cases h4 : y % 4 = 0 <;> by_cases h100 : y % 100 = 0 <;> by_cases h400 : y % 400 = 0 <;>
    simp [leap, h4, h100, h400]

/-- **for every day number, `JULIAN.at_jdn` succeeds and reports the date the definition
gives** (all seven fields: year, day of year, month, day, in-month ordinal, JDN) -/
theorem julian_atJdn (j : Int) :
    ∃ y m d, Calendar.julian.atJdn? j
        = some ⟨.julian, y, daysBefore (leap .julian y) m + d, m, d, d, j⟩
      ∧ IsDate .julian j y m d :=
  ruleCal_atJdn .julian j

/-- the same for `GREGORIAN.at_jdn` -/
theorem gregorian_atJdn (j : Int) :
    ∃ y m d, Calendar.gregorian.atJdn? j
        = some ⟨.gregorian, y, daysBefore (leap .gregorian y) m + d, m, d, d, j⟩
      ∧ IsDate .gregorian j y m d :=
  ruleCal_atJdn .gregorian j

/-- **construction from (year, month, day)**: succeeds with the defined day number exactly
for valid dates whose day number fits in 32 bits; a valid date beyond the range is an
arithmetic error, never a wrong day number; an invalid day is out of range -/
theorem atYmd_proleptic (ρ : Rule) (y : Int) (hy : InI32 y) (m : Month) (d : Int) :
    (ruleCal ρ).atYmd y m d =
      if 1 ≤ d ∧ d ≤ monthLen (leap ρ y) m then
        (if InI32 (jdnOf ρ y m d)
          then .ok ⟨ruleCal ρ, y, daysBefore (leap ρ y) m + d, m, d, d, jdnOf ρ y m d⟩
          else .error .arithmetic)
      else .error (.dayOutOfRange y m d 1 (monthLen (leap ρ y) m)) :=
  ruleCal_atYmd ρ y hy m d

/-- the documented ends of the supported range are the ends of the 32-bit day numbers -/
theorem range_ends :
    jdnOf .julian (-5884202) .march 16 = -2147483648
    ∧ jdnOf .julian 5874777 .october 17 = 2147483647
    ∧ jdnOf .gregorian (-5884323) .may 15 = -2147483648
    ∧ jdnOf .gregorian 5874898 .june 3 = 2147483647 := by
  decide

/-- hypotheses are satisfiable: a concrete instance of `atYmd_proleptic` on each side of the
range end -/
example : Calendar.gregorian.atYmd 5874898 .june 3
    = .ok ⟨.gregorian, 5874898, 154, .june, 3, 3, 2147483647⟩ := by rfl
example : Calendar.gregorian.atYmd 5874898 .june 4 = .error .arithmetic := by rfl

end JV.C02
