/-
C09 — Month shapes describe exactly the days that exist in the month.
-/
import JulianVerif.Lemmas.Proleptic
namespace JV.C09
open JV Spec

/-- proleptic calendars: every month is Normal with the table length; membership, the
two-way ordinal mapping, first/last day, gap and kind are those of the set 1..=len -/
theorem shape_proleptic (ρ : Rule) (y : Int) (m : Month) :
    ∃ s, (ruleCal ρ).monthIShape y m = some s
      ∧ s.len = monthLen (leap ρ y) m ∧ s.firstDay = 1 ∧ s.lastDay = monthLen (leap ρ y) m
      ∧ s.gap = none ∧ s.kind = .normal
      ∧ (∀ d, s.contains d = true ↔ (1 ≤ d ∧ d ≤ monthLen (leap ρ y) m))
      ∧ (∀ d, s.dayOrdinal d = if 1 ≤ d ∧ d ≤ monthLen (leap ρ y) m then some d else none)
      ∧ (∀ n, s.nthDay n = if 1 ≤ n ∧ n ≤ monthLen (leap ρ y) m then some n else none) := by
  refine ⟨_, ruleCal_whole ρ y m, rfl, rfl, rfl, rfl, rfl, ?_, ?_, ?_⟩
  · intro d; simp [IShape.contains]
  · intro d
    simp only [IShape.dayOrdinal, IShape.dayOrdinalErr]
    by_cases h : 1 ≤ d ∧ d ≤ monthLen (leap ρ y) m
    · simp [h]
    · have : (decide (1 ≤ d) && decide (d ≤ monthLen (leap ρ y) m)) = false := by
        simp only [Bool.and_eq_false_iff, decide_eq_false_iff_not]; omega
      simp [h, this]
  · intro n
    simp only [IShape.nthDay]
    by_cases h : 1 ≤ n ∧ n ≤ monthLen (leap ρ y) m
    · simp [h]
    · have : (decide (1 ≤ n) && decide (n ≤ monthLen (leap ρ y) m)) = false := by
        simp only [Bool.and_eq_false_iff, decide_eq_false_iff_not]; omega
      simp [h, this]

/-- the general shape algebra: for any valid shape, `nth_day` answers exactly on 1..=len -/
theorem nthDay_domain (s : IShape) (hv : s.Valid) (n : Int) (hn : 0 ≤ n) :
    (∃ d, s.nthDay n = some d) ↔ (1 ≤ n ∧ n ≤ s.len) :=
  s.nthDay_some_iff hv n hn

end JV.C09
