/-
C09 — Month shapes describe exactly the days that exist in the month.

A month's day list is `[nth_day 1, …, nth_day len]`; every other accessor is shown to
describe that same list, and the list is shown to be exactly the days of the dates of the
calendar that fall in the month (existence = `at_jdn` labelling, C02/C03).
-/
import JulianVerif.Lemmas.ShapedInst
import JulianVerif.Lemmas.Order
set_option linter.unusedSimpArgs false
namespace JV.C09
open JV Spec

/-- **the shape is absent exactly when no date of the calendar falls in that month** -/
theorem shape_none_iff (c : Calendar) (hc : WF c) (y : Int) (m : Month) :
    c.monthIShape y m = none ↔ ¬ ∃ j d, c.atJdn? j = some d ∧ d.year = y ∧ d.month = m := by
  obtain ⟨S⟩ := hc.shaped
  exact S.month_none_iff y m

/-- **the membership test agrees with the actual set of dates in the month** -/
theorem contains_iff_exists (c : Calendar) (hc : WF c) (y : Int) (m : Month) (dd : Int) (hd : InU32 dd) :
    (∃ s, c.monthIShape y m = some s ∧ s.contains dd = true)
      ↔ (∃ j d, c.atJdn? j = some d ∧ d.year = y ∧ d.month = m ∧ d.day = dd) := by
  obtain ⟨S⟩ := hc.shaped
  exact (S.month_days y m dd hd.1).symm

/-- **the two-way mapping between day numbers and in-month ordinals, length, first and last
day all describe the same list**: `nth_day` answers exactly on 1..=len, is strictly
increasing (so the forward list is ascending, the backward list its reverse, and there are
exactly `len` days), `day_ordinal` is its inverse, membership is being an `nth_day`, and
the first / last day are `nth_day 1` / `nth_day len` -/
theorem shape_algebra (c : Calendar) (hc : WF c) (y : Int) (m : Month) (s : IShape)
    (hs : c.monthIShape y m = some s) :
    (∀ n, 0 ≤ n → ((∃ d, s.nthDay n = some d) ↔ (1 ≤ n ∧ n ≤ s.len)))
    ∧ (∀ k k' d d', 1 ≤ k → k < k' → s.nthDay k = some d → s.nthDay k' = some d' → d < d')
    ∧ (∀ k d, 1 ≤ k → s.nthDay k = some d → s.dayOrdinal d = some k)
    ∧ (∀ k d, 0 ≤ d → s.dayOrdinal d = some k → s.nthDay k = some d)
    ∧ (∀ d, 0 ≤ d → (s.contains d = true ↔ ∃ k, 1 ≤ k ∧ s.nthDay k = some d))
    ∧ 1 ≤ s.len ∧ s.nthDay 1 = some s.firstDay ∧ s.nthDay s.len = some s.lastDay := by
  obtain ⟨S⟩ := hc.shaped
  have hp := S.proper y m s hs
  have hv := hp.valid
  refine ⟨fun n hn => s.nthDay_some_iff hv n hn, fun k k' d d' h1 h2 h3 h4 => s.nthDay_strictMono hv k k' d d' h1 h2 h3 h4,
    ?_, ?_, fun d hd => s.contains_iff hv d hd, hp.len_pos, (s.first_last hp).1, (s.first_last hp).2⟩
  · intro k d hk h
    simp only [IShape.dayOrdinal, s.dayOrdinalErr_of_nthDay hv 0 .january k d hk h]
  · intro k d hd h
    simp only [IShape.dayOrdinal] at h
    cases hh : s.dayOrdinalErr 0 .january d with
    | error e => rw [hh] at h; cases h
    | ok k' =>
      rw [hh] at h; injection h with h; subst h
      exact (s.nthDay_of_dayOrdinalErr hv 0 .january k' d hd hh).1

/-- **the reported gap is exactly the range of naturally existing days that the
reformation removed** (none for an unaffected month) **and the kind says whether that
range is at the head, the tail or the middle** -/
theorem gap_and_kind (c : Calendar) (hc : WF c) (y : Int) (m : Month) (s : IShape)
    (hs : c.monthIShape y m = some s) :
    (s.gap = none ↔ s.kind = .normal)
    ∧ (s.gap = none → ∀ d, 1 ≤ d → d ≤ s.naturalMax → s.contains d = true)
    ∧ (∀ a b, s.gap = some (a, b) →
        1 ≤ a ∧ a ≤ b ∧ b ≤ s.naturalMax
        ∧ (∀ d, 1 ≤ d → d ≤ s.naturalMax → (s.contains d = false ↔ (a ≤ d ∧ d ≤ b)))
        ∧ (s.kind = .headless ↔ a = 1) ∧ (s.kind = .tailless ↔ b = s.naturalMax)
        ∧ (s.kind = .gapped ↔ (1 < a ∧ b < s.naturalMax))) := by
  obtain ⟨S⟩ := hc.shaped
  exact s.gap_kind (S.proper y m s hs)

/-- the natural span (against which "removed" is measured) is the month table under the rule
in force at the end of the month -/
theorem natural_span (R : Int) (hR : InI32 R) (c : Calendar) (hc : Calendar.mkReforming R = .ok c)
    (y : Int) (m : Month) (s : IShape) (hs : c.monthIShape y m = some s) :
    ∃ rf : Reform, c = rf.cal ∧ s.naturalMax = monthLen (rf.natLp y m) m := by
  obtain ⟨rf, rfl, _, _⟩ := mk_reform R hR c hc
  exact ⟨rf, rfl, (rf.shape_proper y m s hs).2⟩

/-- `nth_date` is the canonical date with that in-month ordinal, or nothing when the day
number does not fit in 32 bits — never a panic -/
theorem nthDate_spec (c : Calendar) (hc : WF c) (y : Int) (hy : InI32 y) (m : Month) (s : IShape)
    (hs : c.monthIShape y m = some s) (n : Int) (hn : InU32 n) (d : Date)
    (h : (MonthShape.mk c y m s).nthDate n = some d) :
    c.atJdn? d.jdn = some d ∧ d.year = y ∧ d.month = m ∧ s.nthDay n = some d.day := by
  obtain ⟨A⟩ := hc.accepting
  simp only [MonthShape.nthDate, MonthShape.nthDay] at h
  cases hn' : s.nthDay n with
  | none => rw [hn'] at h; cases h
  | some day =>
    rw [hn'] at h; simp only at h
    cases hy' : c.atYmd y m day with
    | error e => rw [hy'] at h; cases h
    | ok d' =>
      rw [hy'] at h; injection h with h; subst h
      have hv := A.valid y m (Calendar.mem_all m) s hs
      have hk := (s.nthDay_some_iff hv n hn.1).mp ⟨day, hn'⟩
      have hday : 0 ≤ day := by
        cases s <;> simp only [IShape.nthDay, IShape.Valid] at hn' hv <;>
          (repeat' split at hn') <;> (try cases hn') <;> omega
      obtain ⟨h1, _, h3, h4, h5⟩ := A.atYmd_canon y hy m day hday d' hy'
      exact ⟨h1, h3, h4, by rw [h5]⟩

/-- the examples that used to be wrong (defect D3): February 301 in the calendar reforming
on day 1831058 is an ordinary 28-day month with no gap -/
example : ∃ c, Calendar.mkReforming 1831058 = .ok c
    ∧ c.monthIShape 301 .february = some (.normal 28) := ⟨_, rfl, rfl⟩

end JV.C09
