/-
C16 — chrono / time interoperability is exact in range and fails cleanly outside.

Partial by nature (DESIGN.md §12): the foreign crates are modelled, not verified.  A foreign
date is a valid proleptic-Gregorian (y, m, d) with the year inside the crate's range, and
`from_ymd_opt` / `from_calendar_date` accept exactly those; the crates' own day counts are
Rata Die.  The correspondence check tests these assumptions against the real crates.
-/
import JulianVerif.Model.Foreign
import JulianVerif.Lemmas.Proleptic
namespace JV.C16
open JV Spec Foreign

/-- the library's Gregorian day number is Rata Die + 1721425 (`RATA_DIE_ZERO_JDN`), with
RD = 365(y-1) + ⌊(y-1)/4⌋ - ⌊(y-1)/100⌋ + ⌊(y-1)/400⌋ + day-of-year -/
theorem rata_die (y : Int) (m : Month) (d : Int) :
    jdnOf .gregorian y m d
      = (365 * (y - 1) + (y - 1) / 4 - (y - 1) / 100 + (y - 1) / 400
          + (daysBefore (leap .gregorian y) m + d)) + 1721425 := by
  simp only [jdnOf, yearStart]; omega

theorem gregMonthLen_eq (y : Int) (m : Month) : gregMonthLen y m = monthLen (leap .gregorian y) m := by
  cases m <;> simp [gregMonthLen, monthLen, leap]

/-- **foreign → library never panics** and gives the proleptic-Gregorian date with the same
year, month and day, whose day number is the specification's (= RD + 1721425), for every
foreign year range inside ±5 800 000 (chrono: ±262143, time: ±9999) -/
theorem from_foreign_total (lo hi : Int) (hlo : -5800000 ≤ lo) (hhi : hi ≤ 5800000) (y m d : Int) :
    (∀ mo, validForeign lo hi y m d = some mo →
        fromForeign lo hi y m d
          = .ok ⟨.gregorian, y, daysBefore (leap .gregorian y) mo + d, mo, d, d, jdnOf .gregorian y mo d⟩)
    ∧ (validForeign lo hi y m d = none → fromForeign lo hi y m d = .invalid) := by
  constructor
  · intro mo hv
    simp only [fromForeign, hv]
    simp only [validForeign] at hv
    cases hm : Month.ofInt? m with
    | none => simp [hm] at hv
    | some mo' =>
      simp only [hm] at hv
      split at hv
      · rename_i hc
        cases hv
        simp only [Bool.and_eq_true, decide_eq_true_eq, gregMonthLen_eq] at hc
        obtain ⟨⟨⟨hy1, hy2⟩, hd1⟩, hd2⟩ := hc
        have hy : InI32 y := by simp only [InI32]; omega
        have h := ruleCal_atYmd .gregorian y hy mo d
        simp only [ruleCal] at h
        rw [h, if_pos ⟨hd1, hd2⟩]
        have hb := daysBefore_bounds (leap .gregorian y) mo
        have hl := monthLen_bounds (leap .gregorian y) mo
        have hin : InI32 (jdnOf .gregorian y mo d) := by
          have : (if leap .gregorian y = true then (366 : Int) else 365) ≤ 366 := by split <;> omega
          simp only [jdnOf, yearStart, InI32]; omega
        rw [if_pos hin]
      · simp at hv
  · intro hv
    simp only [fromForeign, hv]

/-- **library → foreign never panics**: a date of any calendar converts to the foreign date
of the same day when its proleptic-Gregorian year is in the foreign range, and to a
conversion error otherwise -/
theorem to_foreign_total (lo hi : Int) (u8 : Bool) (d : Date) :
    ∃ y m dd, IsDate .gregorian d.jdn y m dd ∧
      ((d.isGregorian = false ∨ (d.isGregorian = true ∧ d.year = y ∧ d.month = m ∧ d.day = dd)) →
        toForeign lo hi u8 d
          = if lo ≤ y ∧ y ≤ hi then .ok y m.number dd else .err) := by
  obtain ⟨y, m, dd, hat, hd⟩ := ruleCal_atJdn .gregorian d.jdn
  refine ⟨y, m, dd, hd, ?_⟩
  intro hcase
  have hl := monthLen_bounds (leap .gregorian y) m
  have hmo : Month.ofInt? m.number = some m := by cases m <;> rfl
  have key : ∀ g : Date, g.year = y → g.month = m → g.day = dd →
      (if (u8 && decide (g.day > 255)) = true then ToRes.panic
        else match validForeign lo hi g.year g.month.number g.day with
          | some _ => ToRes.ok g.year g.month.number g.day
          | none => ToRes.err)
      = if lo ≤ y ∧ y ≤ hi then .ok y m.number dd else .err := by
    intro g h1 h2 h3
    rw [h1, h2, h3]
    have : (u8 && decide (dd > 255)) = false := by
      have := hd.1.2
      simp; intro _; omega
    rw [this]
    simp only [Bool.false_eq_true, if_false, validForeign, hmo, gregMonthLen_eq]
    by_cases hr : lo ≤ y ∧ y ≤ hi
    · have : (decide (lo ≤ y) && decide (y ≤ hi) && decide (1 ≤ dd) && decide (dd ≤ monthLen (leap .gregorian y) m)) = true := by
        simp only [Bool.and_eq_true, decide_eq_true_eq]; exact ⟨⟨hr, hd.1.1⟩, hd.1.2⟩
      rw [if_pos this, if_pos hr]
    · have : ¬ (decide (lo ≤ y) && decide (y ≤ hi) && decide (1 ≤ dd) && decide (dd ≤ monthLen (leap .gregorian y) m)) = true := by
        simp only [Bool.and_eq_true, decide_eq_true_eq]; intro h; exact hr h.1.1
      rw [if_neg this, if_neg hr]
  rcases hcase with hng | ⟨hg, h1, h2, h3⟩
  · simp only [toForeign, hng, Bool.not_false, if_true, Date.convertTo?]
    simp only [ruleCal] at hat
    rw [hat]
    exact key _ rfl rfl rfl
  · simp only [toForeign, hg, Bool.not_true, Bool.false_eq_true, if_false]
    exact key d h1 h2 h3

/-- month and weekday enums map one-to-one: the numbering 1..12 / 1..7 is a bijection -/
theorem enum_bijective :
    (∀ m m' : Month, m.number = m'.number → m = m')
    ∧ (∀ w w' : Weekday, w.number = w'.number → w = w') := by
  constructor
  · intro m m' h; cases m <;> cases m' <;> simp [Month.number] at h <;> rfl
  · intro w w' h; cases w <;> cases w' <;> simp [Weekday.number] at h <;> rfl

example : fromChrono 2023 4 20 = .ok ⟨.gregorian, 2023, 110, .april, 20, 20, 2460055⟩ := by rfl

end JV.C16
