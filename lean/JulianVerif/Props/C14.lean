/-
C14 — Unix and system timestamps map to the right day and second.

A `SystemTime` enters the model as what `duration_since(UNIX_EPOCH)` reveals: the side of
the epoch, whole seconds and sub-second nanoseconds; the instant is the rational number
±(secs + nanos·10⁻⁹).  The clock itself (`now`) is a parameter (DESIGN.md §10).
-/
import JulianVerif.Model.Time
import JulianVerif.Lemmas.GenTime
import JulianVerif.Props.C05
namespace JV.C14
open JV

/-- day number ⌊t/86400⌋ + 2440588 and second-of-day t mod 86400 when the day fits in 32
bits; an arithmetic error otherwise -/
theorem unix2jdn_spec (t : Int) :
    unix2jdn t = if InI32 (t / 86400 + 2440588) then some (t / 86400 + 2440588, t % 86400)
                 else none := by
  simp only [unix2jdn]
  by_cases h : InI32 (t / 86400 + 2440588)
  · have : inI32 (t / 86400 + 2440588) = true := by
      simp only [inI32, Bool.and_eq_true, decide_eq_true_eq]; exact h
    rw [if_pos this, if_pos h]
  · have : ¬ inI32 (t / 86400 + 2440588) = true := by
      simp only [inI32, Bool.and_eq_true, decide_eq_true_eq]; exact h
    rw [if_neg this, if_neg h]

/-- the error range is exactly outside -185753453990400 ..= 185331720383999 -/
theorem unix_range (t : Int) :
    InI32 (t / 86400 + 2440588) ↔ (-185753453990400 ≤ t ∧ t ≤ 185331720383999) := by
  simp only [InI32]; omega

/-- the second of day is the Euclidean remainder: it lies in 0..86399 and
`t = 86400·day + second` also for negative `t` -/
theorem unix_second (t : Int) :
    0 ≤ t % 86400 ∧ t % 86400 < 86400 ∧ t = 86400 * (t / 86400) + t % 86400 := by omega

/-- a day number converts to that day's midnight, and back -/
theorem jdn2unix_roundtrip (j : Int) (hj : InI32 j) :
    jdn2unix j = (j - 2440588) * 86400 ∧ InI64 (jdn2unix j) ∧ unix2jdn (jdn2unix j) = some (j, 0) := by
  refine ⟨rfl, ?_, ?_⟩
  · simp only [jdn2unix, InI64, InI32] at *; omega
  · rw [unix2jdn_spec]
    have e1 : jdn2unix j / 86400 + 2440588 = j := by simp only [jdn2unix]; omega
    have e2 : jdn2unix j % 86400 = 0 := by simp only [jdn2unix]; omega
    rw [e1, e2, if_pos hj]

/-- a calendar's timestamp conversion is that day expressed in that calendar -/
theorem atUnixTime_eq (c : Calendar) (t : Int) :
    c.atUnixTime? t =
      match unix2jdn t with
      | none => some none
      | some (j, s) => (c.atJdn? j).map fun d => some (d, s) := by
  simp only [Calendar.atUnixTime?]
  cases unix2jdn t with
  | none => rfl
  | some p =>
    obtain ⟨j, s⟩ := p
    simp only []
    cases c.atJdn? j <;> rfl

/-- **system-clock instants are floored**: the instant ±(secs + nanos·10⁻⁹) seconds from
the epoch is assigned to the Unix second ⌊instant⌋ — also before 1970 with a fraction -/
theorem system_floor (before : Bool) (secs nanos : Int) (hs0 : 0 ≤ secs)
    (hs1 : secs ≤ 9223372036854775807) (hn0 : 0 ≤ nanos) (hn1 : nanos < 1000000000) :
    system2jdn before secs nanos =
      unix2jdn ((if before then -(secs * 1000000000 + nanos) else secs * 1000000000 + nanos)
                  / 1000000000) := by
  simp only [system2jdn]
  have h : ¬ secs > 9223372036854775807 := by omega
  rw [if_neg h]
  cases before
  · simp only [Bool.false_eq_true, if_false]
    congr 1; omega
  · simp only [if_true]
    by_cases hn : nanos > 0
    · rw [if_pos hn]; congr 1; omega
    · rw [if_neg hn]; congr 1; omega

/-- seconds that do not fit `i64` are refused (unreachable on platforms whose clock is i64) -/
theorem system_overflow (before : Bool) (secs nanos : Int) (h : 9223372036854775807 < secs) :
    system2jdn before secs nanos = none := by
  simp only [system2jdn]; rw [if_pos h]

/-- non-vacuity: half a second before the epoch is 1969-12-31 23:59:59 -/
example : system2jdn true 0 500000000 = some (2440587, 86399) := by decide
example : system2jdn true 1 500000000 = some (2440587, 86398) := by decide
example : unix2jdn 185331720383999 = some (2147483647, 86399) := by decide
example : unix2jdn 185331720384000 = none := by decide

/-- `system2jdn` **as generated from lib.rs** (DESIGN.md 0.9; a `SystemTime` is the side of the epoch it is
on, its whole seconds — a `u64`, hence `0 ≤ secs` — and its nanoseconds): it cannot fault and is the
function `system_floor` is about -/
theorem generated_system2jdn (before : Bool) (secs nanos : Int) (hs : 0 ≤ secs) :
    Gen.system2jdnG (before, secs, nanos) = some (system2jdn before secs nanos) := by
  rw [Gen.system2jdnG_eq _ _ _ hs]
  exact C05.timestamps_no_panic.2.2 before secs nanos hs

theorem system2jdn_in_range (before : Bool) (secs nanos j s : Int)
    (h : system2jdn before secs nanos = some (j, s)) : InI32 j := by
  simp only [system2jdn] at h
  split at h
  · cases h
  · split at h
    · exact (C05.unix2jdn_in_range _ j s h).1
    · exact (C05.unix2jdn_in_range _ j s h).1

/-- the generated `Calendar::at_system_time`, for every calendar a caller can hold: no fault, and the
model's answer (the calendar's date for the day the instant falls in) -/
theorem generated_at_system_time (c : Calendar) (hc : WF c) (before : Bool) (secs nanos : Int) (hs : 0 ≤ secs) :
    Gen.calendarAtSystemTime c (before, secs, nanos) = c.atSystemTime? before secs nanos
    ∧ c.atSystemTime? before secs nanos ≠ none := by
  obtain ⟨hj, _, _⟩ := C05.generated_constructors c hc
  simp only [Gen.calendarAtSystemTime, generated_system2jdn before secs nanos hs, Calendar.atSystemTime?,
    bind, Option.bind, pure]
  cases hq : system2jdn before secs nanos with
  | none => simp
  | some p =>
    obtain ⟨j, s⟩ := p
    have hr := system2jdn_in_range before secs nanos j s hq
    obtain ⟨h1, h2⟩ := hj j hr
    simp only [h1]
    cases hd : c.atJdn? j with
    | none => exact absurd hd h2
    | some d => simp

/-- the generated `Calendar::now()` — the clock's reading is a parameter of the generated function —
is `at_system_time` of that reading: the asking calendar's date for the day the clock is in, whoever asked
before -/
theorem generated_now (c : Calendar) (hc : WF c) (before : Bool) (secs nanos : Int) (hs : 0 ≤ secs) :
    Gen.calendarNow c (before, secs, nanos) = c.atSystemTime? before secs nanos := by
  rw [Gen.calendarNow_eq]; exact (generated_at_system_time c hc before secs nanos hs).1

end JV.C14
