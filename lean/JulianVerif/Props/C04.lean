/-
C04 — Day-of-year and day-of-month ordinals are gap-free counts.

"One plus the number of earlier dates in the same year" is stated through the first day
`f` of the year: all of `f..j` lie in the year of day `j`, day `f-1` does not, and labels
are monotone in the day number (C11), so the earlier same-year dates are exactly
`f..j-1`.  Likewise for months.  Every calendar a caller can hold (`WF`), every integer
day number.
-/
import JulianVerif.Lemmas.Counts
namespace JV.C04
open JV Spec

/-- **the day-of-year ordinal equals one plus the number of earlier dates of the calendar
in the same year**; days removed by a reformation are not counted, days before the
reformation in the same year are -/
theorem ordinal_counts (c : Calendar) (hc : WF c) (j : Int) (d : Date) (h : c.atJdn? j = some d) :
    ∃ f, f ≤ j ∧ d.ordinal = j - f + 1
      ∧ (∀ k d', f ≤ k → k ≤ j → c.atJdn? k = some d' → d'.year = d.year)
      ∧ (∀ d', c.atJdn? (f - 1) = some d' → d'.year ≠ d.year) := by
  obtain ⟨A⟩ := hc.accepting
  exact A.ordinal_counts j d h

/-- **the day-of-month ordinal equals one plus the number of earlier dates in the same
month** -/
theorem dayOrdinal_counts (c : Calendar) (hc : WF c) (j : Int) (d : Date) (h : c.atJdn? j = some d) :
    ∃ f, f ≤ j ∧ d.dayOrdinal = j - f + 1
      ∧ (∀ k d', f ≤ k → k ≤ j → c.atJdn? k = some d' → d'.year = d.year ∧ d'.month = d.month)
      ∧ (∀ d', c.atJdn? (f - 1) = some d' → ¬ (d'.year = d.year ∧ d'.month = d.month)) := by
  obtain ⟨A⟩ := hc.accepting
  exact A.dayOrdinal_counts j d h

/-- **the last date of a year has the year's length as its ordinal** (and only the last) -/
theorem last_of_year (c : Calendar) (hc : WF c) (j : Int) (d d' : Date) (h : c.atJdn? j = some d)
    (h' : c.atJdn? (j + 1) = some d') : d'.year ≠ d.year ↔ d.ordinal = c.yearLength d.year := by
  obtain ⟨A⟩ := hc.accepting
  exact A.last_of_year j d d' h h'

/-- the zero-based variants are exactly one less, and cannot underflow: ordinals are ≥ 1 -/
theorem zero_based (c : Calendar) (hc : WF c) (j : Int) (d : Date) (h : c.atJdn? j = some d) :
    d.ordinal0 = d.ordinal - 1 ∧ d.dayOrdinal0 = d.dayOrdinal - 1
    ∧ 0 ≤ d.ordinal0 ∧ 0 ≤ d.dayOrdinal0 := by
  obtain ⟨A⟩ := hc.accepting
  obtain ⟨f, hf, ho, _⟩ := A.ordinal_counts j d h
  obtain ⟨g, hg, hdo, _⟩ := A.dayOrdinal_counts j d h
  refine ⟨rfl, rfl, ?_, ?_⟩ <;> simp only [Date.ordinal0, Date.dayOrdinal0] <;> omega

/-- non-vacuity: October 15, 1582 is the 5th day of its month and the 278th of its year -/
example : Calendar.reform1582.atJdn? 2299161
    = some ⟨Calendar.reform1582, 1582, 278, .october, 15, 5, 2299161⟩ := rfl

end JV.C04
