/-
C04 — Day-of-year and day-of-month ordinals are gap-free counts.
-/
import JulianVerif.Lemmas.Proleptic
import JulianVerif.Lemmas.YearStart
namespace JV.C04
open JV Spec

/-- proleptic calendars: the day-of-year ordinal of day `j` is one plus the number of days
since January 1 of its year, the in-month ordinal is the day of the month, and the last day
of a year has the year's length as its ordinal -/
theorem ordinals_proleptic (ρ : Rule) (j : Int) :
    ∃ d, (ruleCal ρ).atJdn? j = some d
      ∧ d.ordinal = j - yearStart ρ d.year + 1
      ∧ d.dayOrdinal = d.day
      ∧ d.dayOrdinal = j - jdnOf ρ d.year d.month 1 + 1
      ∧ 1 ≤ d.ordinal ∧ d.ordinal ≤ (ruleCal ρ).yearLength d.year := by
  obtain ⟨y, m, dd, hat, hv, hjd⟩ := ruleCal_atJdn ρ j
  refine ⟨_, hat, ?_, rfl, ?_, ?_, ?_⟩
  · simp only [jdnOf] at hjd ⊢; omega
  · simp only [jdnOf] at hjd ⊢; omega
  · have := daysBefore_bounds (leap ρ y) m; simp only [ValidYMD] at hv; simp only; omega
  · rw [ruleCal_yearLength]
    have := daysBefore_bounds (leap ρ y) m
    simp only [ValidYMD, yearLen] at *; omega

/-- the zero-based variants are exactly one less -/
theorem zero_based (d : Date) : d.ordinal0 = d.ordinal - 1 ∧ d.dayOrdinal0 = d.dayOrdinal - 1 :=
  ⟨rfl, rfl⟩

end JV.C04
