/-
Lemmas/CliParse.lean — `Command::from_parser`: the calendar it selects is always one a
caller of the library can hold, and the country listing never fails.
-/
import JulianVerif.Lemmas.CliRun
set_option linter.unusedSimpArgs false
set_option maxRecDepth 4000
namespace JV
namespace Cli
open Spec

theorem parseI32_inI32 (s : List Char) (r : Int) (h : parseI32 s = some r) : InI32 r := by
  unfold parseI32 at h
  cases s with
  | nil => cases h
  | cons c cs =>
    simp only at h
    generalize (if (c == '-') = true then (true, cs) else if (c == '+') = true then (false, cs)
      else (false, c :: cs)) = p at h
    obtain ⟨neg, ds⟩ := p
    simp only at h
    repeat' split at h
    all_goals first
      | (cases h; done)
      | (rename_i hc; cases h; exact (inI32_iff _).mp hc)

theorem table_inI32 : ∀ e ∈ nationalReformations, InI32 e.2.2 := by
  intro e he
  simp only [nationalReformations, List.mem_cons, List.mem_nil_iff, or_false] at he
  rcases he with rfl | rfl | rfl | rfl | rfl | rfl | rfl | rfl | rfl | rfl | rfl | rfl | rfl | rfl
    | rfl | rfl | rfl | rfl | rfl | rfl | rfl | rfl | rfl | rfl | rfl | rfl | rfl | rfl | rfl | rfl
    | rfl | rfl | rfl | rfl <;> (simp only [InI32]; omega)

/-- **`-r` only ever selects a calendar `Calendar::reforming` returned for an i32 day** -/
theorem parseReformation_wf (s : String) (c : Calendar) (h : parseReformation s = some c) : WF c := by
  simp only [parseReformation] at h
  split at h
  · rename_i code name r hf
    have hm := List.mem_of_find?_eq_some hf
    have hr := table_inI32 _ hm
    simp only at hr
    cases hk : Calendar.mkReforming r with
    | ok c' =>
      rw [hk] at h
      simp only at h
      cases h
      exact Or.inr (Or.inr ⟨r, hr, hk⟩)
    | error e => rw [hk] at h; cases h
  · cases hp : parseI32 s.toList with
    | none => rw [hp] at h; cases h
    | some r =>
      rw [hp] at h
      simp only at h
      have hr := parseI32_inI32 _ _ hp
      cases hk : Calendar.mkReforming r with
      | ok c' =>
        rw [hk] at h
        simp only at h
        cases h
        exact Or.inr (Or.inr ⟨r, hr, hk⟩)
      | error e => rw [hk] at h; cases h

theorem wf_julian : WF Calendar.julian := Or.inl rfl
theorem wf_gregorian : WF Calendar.gregorian := Or.inr (Or.inl rfl)

/-- **whatever the argument vector, the calendar the options end up with is well-formed** -/
theorem fromParser_wf : ∀ (fuel : Nat) (p : Parser) (opts : Options) (args : List String)
    (o : Options) (as : List String), WF opts.calendar →
    fromParser fuel p opts args = .run o as → WF o.calendar := by
  intro fuel
  induction fuel with
  | zero => intro p opts args o as _ h; simp only [fromParser] at h; cases h
  | succ n ih =>
    intro p opts args o as hwf h
    simp only [fromParser] at h
    split at h
    · cases h
    · cases h; exact hwf
    · rename_i a p'
      split at h
      · -- value
        split at h
        · exact ih _ _ _ _ _ hwf h
        · cases h
      · -- short
        repeat' (split at h)
        all_goals first
          | cases h
          | (refine ih _ _ _ _ _ ?_ h
             first
               | exact hwf
               | exact wf_julian
               | (apply parseReformation_wf; assumption))
      · -- long
        repeat' (split at h)
        all_goals first
          | cases h
          | (refine ih _ _ _ _ _ ?_ h
             first
               | exact hwf
               | exact wf_julian
               | (apply parseReformation_wf; assumption))

theorem parseCommand_wf (argv : List Bytes) (o : Options) (as : List String)
    (h : parseCommand argv = .run o as) : WF o.calendar :=
  fromParser_wf _ _ _ _ o as wf_gregorian h

/-! ### the country listing -/

theorem countries_fold (L : List (String × String × Int))
    (hL : ∀ e ∈ L, InI32 e.2.2 ∧ ∃ c, Calendar.mkReforming e.2.2 = .ok c) (init : List String) :
    ∃ ls, L.foldl countryStep (some init) = some ls := by
  induction L generalizing init with
  | nil => exact ⟨init, rfl⟩
  | cons e es ih =>
    obtain ⟨hr, c, hc⟩ := hL e (List.mem_cons_self ..)
    obtain ⟨rf, rfl, _, _⟩ := mk_reform e.2.2 hr c hc
    simp only [List.foldl_cons, countryStep, hc, Reform.cal, Calendar.lastJulianDate,
      Calendar.firstGregorianDate]
    exact ih (fun e' he' => hL e' (List.mem_cons_of_mem _ he')) _

theorem table_valid : ∀ e ∈ nationalReformations, ∃ c, Calendar.mkReforming e.2.2 = .ok c := by
  intro e he
  simp only [nationalReformations, List.mem_cons, List.mem_nil_iff, or_false] at he
  rcases he with rfl | rfl | rfl | rfl | rfl | rfl | rfl | rfl | rfl | rfl | rfl | rfl | rfl | rfl
    | rfl | rfl | rfl | rfl | rfl | rfl | rfl | rfl | rfl | rfl | rfl | rfl | rfl | rfl | rfl | rfl
    | rfl | rfl | rfl | rfl <;> exact ⟨_, rfl⟩

/-- the `.expect()`s of the country listing never fire -/
theorem countriesLines_some : ∃ ls, countriesLines = some ls :=
  countries_fold _ (fun e he => ⟨table_inI32 e he, table_valid e he⟩) _

/-- **the command never panics**: whatever the argument vector and whatever day the clock
shows -/
theorem main_no_panic (today : Int) (argv : List Bytes) :
    (match main today argv with | .panic => False | _ => True) := by
  simp only [main]
  cases hp : parseCommand argv with
  | error => simp only
  | help => simp only
  | version => simp only
  | countries =>
    obtain ⟨ls, h⟩ := countriesLines_some
    simp only [h]
  | run o args =>
    simp only
    have hwf := parseCommand_wf argv o args hp
    have := run_no_panic o hwf today args
    cases hr : o.run today args with
    | panic => rw [hr] at this; exact this
    | error => simp only
    | ok ls => simp only

end Cli
end JV
