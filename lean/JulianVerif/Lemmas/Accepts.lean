/-
Lemmas/Accepts.lean — C12: which reformation days `Calendar::reforming` accepts.
-/
import JulianVerif.Lemmas.AtJdn
set_option linter.unusedSimpArgs false
namespace JV
open Spec

/-- how far the Julian date labelled (y, m, ·) lies after the Gregorian date with the same
label -/
theorem julian_minus_gregorian (y : Int) (m : Month) (d : Int) :
    jdnOf .julian y m d - jdnOf .gregorian y m d
      = (y - 1) / 100 - (y - 1) / 400 - 2
        + (daysBefore (leap .julian y) m - daysBefore (leap .gregorian y) m) := by
  simp only [jdnOf, yearStart]; omega

theorem adj_cases (y : Int) (m : Month) :
    (daysBefore (leap .julian y) m - daysBefore (leap .gregorian y) m = 1
        ∧ y % 100 = 0 ∧ y % 400 ≠ 0 ∧ 3 ≤ m.number)
    ∨ (daysBefore (leap .julian y) m - daysBefore (leap .gregorian y) m = 0
        ∧ ¬ (y % 100 = 0 ∧ y % 400 ≠ 0 ∧ 3 ≤ m.number)) := by
  by_cases h4 : y % 4 = 0 <;> by_cases h100 : y % 100 = 0 <;> by_cases h400 : y % 400 = 0 <;>
    cases m <;> simp [leap, daysBefore, Month.number, h4, h100, h400] <;> omega

/-- the calendar skips forward exactly from 0300-03-01 N.S. on -/
theorem skip_iff (y : Int) (m : Month) (d : Int) :
    jdnOf .gregorian y m d < jdnOf .julian y m d ↔ (301 ≤ y ∨ (y = 300 ∧ 3 ≤ m.number)) := by
  have h := julian_minus_gregorian y m d
  have bm := Month.number_bounds m
  rcases adj_cases y m with ⟨a, a1, a2, a3⟩ | ⟨a, a1⟩
  · rw [a] at h
    constructor
    · intro hlt
      by_cases c : 301 ≤ y
      · exact Or.inl c
      · right
        have : y = 300 := by omega
        exact ⟨this, a3⟩
    · intro hc
      rcases hc with c | ⟨c, _⟩ <;> omega
  · rw [a] at h
    constructor
    · intro hlt
      by_cases c : 301 ≤ y
      · exact Or.inl c
      · exfalso
        by_cases c2 : y = 300
        · subst c2; simp at a1; omega
        · omega
    · intro hc
      rcases hc with c | ⟨c, c2⟩
      · omega
      · subst c; simp at a1; omega

/-- `isDate_lt` with month equality as equality of month numbers (for `omega`) -/
theorem isDate_lt_num {ρ : Rule} {j j' y y' : Int} {m m' : Month} {d d' : Int}
    (h : IsDate ρ j y m d) (h' : IsDate ρ j' y' m' d') (hlt : j < j') :
    y < y' ∨ (y = y' ∧ (m.number < m'.number ∨ (m.number = m'.number ∧ d < d'))) := by
  rcases isDate_lt h h' hlt with a | ⟨a, b | ⟨b, c⟩⟩
  · exact Or.inl a
  · exact Or.inr ⟨a, Or.inl b⟩
  · exact Or.inr ⟨a, Or.inr ⟨by rw [b], c⟩⟩

/-- Gregorian labels from 0300-03-01 on are exactly the days from 1830692 on -/
theorem greg_label_ge (r y : Int) (m : Month) (d : Int) (h : IsDate .gregorian r y m d) :
    1830692 ≤ r ↔ (301 ≤ y ∨ (y = 300 ∧ 3 ≤ m.number)) := by
  have h0 : IsDate .gregorian 1830692 300 .march 1 := by unfold IsDate ValidYMD; decide
  have bm := Month.number_bounds m
  have hmar : Month.march.number = 3 := rfl
  have hd1 := h.1.1
  constructor
  · intro hr
    rcases Int.lt_or_eq_of_le hr with a | a
    · have := isDate_lt_num h0 h a; omega
    · subst a
      obtain ⟨e1, e2, _⟩ := isDate_unique h h0
      subst e1 e2
      exact Or.inr ⟨rfl, by omega⟩
  · intro hc
    by_cases hr : 1830692 ≤ r
    · exact hr
    · exfalso
      have := isDate_lt_num h h0 (by omega); omega

/-- the same label is the last one whose Julian day number fits, and the Gregorian label of
day 2147439588 -/
theorem upper_iff (r y : Int) (m : Month) (d : Int) (h : IsDate .gregorian r y m d)
    (hvJ : ValidYMD .julian y m d) :
    r ≤ 2147439588 ↔ jdnOf .julian y m d ≤ 2147483647 := by
  have hG : IsDate .gregorian 2147439588 5874777 .october 17 := by unfold IsDate ValidYMD; decide
  have hJ : IsDate .julian 2147483647 5874777 .october 17 := by unfold IsDate ValidYMD; decide
  have hX : IsDate .julian (jdnOf .julian y m d) y m d := ⟨hvJ, rfl⟩
  have hoct : Month.october.number = 10 := rfl
  have bm := Month.number_bounds m
  constructor
  · intro hr
    by_cases c : jdnOf .julian y m d ≤ 2147483647
    · exact c
    · exfalso
      have l1 := isDate_lt_num hJ hX (by omega)
      rcases Int.lt_or_eq_of_le hr with a | a
      · have l2 := isDate_lt_num h hG a; omega
      · subst a
        obtain ⟨e1, e2, e3⟩ := isDate_unique h hG
        subst e1 e2 e3; omega
  · intro hx
    by_cases c : r ≤ 2147439588
    · exact c
    · exfalso
      have l2 := isDate_lt_num hG h (by omega)
      rcases Int.lt_or_eq_of_le hx with a | a
      · have l1 := isDate_lt_num hX hJ a; omega
      · obtain ⟨e1, e2, e3⟩ := isDate_unique (a ▸ hX) hJ
        subst e1 e2 e3; omega

/-- `Calendar::reforming` up to its acceptance test, as one formula in the labels -/
theorem mkReforming_eval (r : Int) (hr : InI32 r) (hr1 : InI32 (r - 1)) :
    ∃ y m d, IsDate .gregorian r y m d ∧ ValidYMD .julian y m d ∧
      (¬ InI32 (jdnOf .julian y m d) →
          Calendar.mkReforming r = if y < 0 then .error .invalidReformation else .error .arithmetic)
      ∧ (InI32 (jdnOf .julian y m d) → jdnOf .julian y m d ≤ r →
          Calendar.mkReforming r = .error .invalidReformation)
      ∧ (InI32 (jdnOf .julian y m d) → r < jdnOf .julian y m d →
          ∃ c, Calendar.mkReforming r = .ok c) := by
  obtain ⟨yP, mP, dP, hatP, hdP⟩ := ruleCal_atJdn .julian (r - 1)
  obtain ⟨yQ, mQ, dQ, hatQ, hdQ⟩ := ruleCal_atJdn .gregorian r
  simp only [ruleCal] at hatP hatQ
  have hyQ := year_of_jdn_inI32 .gregorian r yQ mQ dQ hr hdQ
  have hvJ : ValidYMD .julian yQ mQ dQ := by
    have := Reform.monthLen_G_le_J yQ mQ
    have := hdQ.1
    simp only [ValidYMD] at *; omega
  have hadj := julian_ordinal_adjust yQ mQ
  have hord : (if (yQ.tmod 100 == 0 && yQ.tmod 400 != 0 && Month.february.lt mQ) = true
        then daysBefore (leap .gregorian yQ) mQ + dQ + 1
        else daysBefore (leap .gregorian yQ) mQ + dQ)
      = daysBefore (leap .julian yQ) mQ + dQ := by
    rw [hadj]; split <;> omega
  have hbq := daysBefore_bounds (leap .julian yQ) mQ
  have h366 : daysBefore (leap .julian yQ) mQ + dQ ≤ 366 := by
    have : (if leap .julian yQ = true then (366 : Int) else 365) ≤ 366 := by split <;> omega
    simp only [ValidYMD] at hvJ; omega
  have hg := ruleCal_getJdn .julian yQ (daysBefore (leap .julian yQ) mQ + dQ) hyQ.1
    (by simp only [ValidYMD] at hvJ; omega) h366
  simp only [ruleCal] at hg
  have hX : yearStart .julian yQ + (daysBefore (leap .julian yQ) mQ + dQ) - 1 = jdnOf .julian yQ mQ dQ := by
    simp only [jdnOf]; omega
  rw [hX] at hg
  have hnot : (!inI32 (r - 1)) = false := by
    have := (inI32_iff (r - 1)).mpr hr1; simp [this]
  have hmk : Calendar.mkReforming r =
      (match Calendar.julian.getJdn yQ (daysBefore (leap .julian yQ) mQ + dQ) with
       | none => if yQ < 0 then .error .invalidReformation else .error .arithmetic
       | some date =>
          if date ≤ r then .error .invalidReformation
          else .ok (.reforming r (mkGap yP mP dP yQ mQ dQ))) := by
    simp only [Calendar.mkReforming, hnot, Bool.false_eq_true, if_false, hatP, hatQ, hord]
    cases Calendar.julian.getJdn yQ (daysBefore (leap .julian yQ) mQ + dQ) with
    | none => rfl
    | some date =>
      simp only [mkGap]
      split
      · rfl
      · cases hk : GapKind.forDates yP mP yQ mQ <;> rfl
  refine ⟨yQ, mQ, dQ, hdQ, hvJ, ?_, ?_, ?_⟩
  · intro hn; rw [hmk, hg, if_neg hn]
  · intro hi hle; rw [hmk, hg, if_pos hi]; simp only; rw [if_pos hle]
  · intro hi hlt
    have : ¬ jdnOf .julian yQ mQ dQ ≤ r := by omega
    exact ⟨_, by rw [hmk, hg, if_pos hi]; simp only; rw [if_neg this]⟩

/-- **C12: constructing a reforming calendar succeeds exactly for reformation days 1830692
through 2147439588; earlier days are rejected as not skipping forward and later ones as
arithmetic overflow** — for every 32-bit candidate -/
theorem mkReforming_cases (r : Int) (hr : InI32 r) :
    (r < 1830692 → Calendar.mkReforming r = .error .invalidReformation)
    ∧ (1830692 ≤ r → r ≤ 2147439588 → ∃ c, Calendar.mkReforming r = .ok c)
    ∧ (2147439588 < r → Calendar.mkReforming r = .error .arithmetic) := by
  by_cases hmin : r = -2147483648
  · subst hmin
    refine ⟨fun _ => rfl, fun h => by omega, fun h => by omega⟩
  · have hr1 : InI32 (r - 1) := by simp only [InI32] at *; omega
    obtain ⟨y, m, d, hd, hvJ, e1, e2, e3⟩ := mkReforming_eval r hr hr1
    have hskip := skip_iff y m d
    have hge := greg_label_ge r y m d hd
    have hup := upper_iff r y m d hd hvJ
    have hr' : jdnOf .gregorian y m d = r := hd.2
    rw [hr'] at hskip
    refine ⟨?_, ?_, ?_⟩
    · intro hlt
      have hno : ¬ (301 ≤ y ∨ (y = 300 ∧ 3 ≤ m.number)) := fun h => by have := hge.mpr h; omega
      have hle : jdnOf .julian y m d ≤ r := by
        by_cases c : r < jdnOf .julian y m d
        · exact absurd (hskip.mp c) hno
        · omega
      by_cases hi : InI32 (jdnOf .julian y m d)
      · exact e2 hi hle
      · rw [e1 hi]
        have : y < 0 := by
          have hb := daysBefore_bounds (leap .julian y) m
          simp only [InI32, jdnOf, yearStart, ValidYMD] at *
          omega
        rw [if_pos this]
    · intro h1 h2
      have hlt : r < jdnOf .julian y m d := hskip.mpr (hge.mp h1)
      have hi : InI32 (jdnOf .julian y m d) := by
        have := hup.mp h2
        simp only [InI32] at *; omega
      exact e3 hi hlt
    · intro hgt
      have hx : ¬ jdnOf .julian y m d ≤ 2147483647 := fun h => by have := hup.mpr h; omega
      have hi : ¬ InI32 (jdnOf .julian y m d) := fun h => hx h.2
      rw [e1 hi]
      have : ¬ y < 0 := by
        have := (greg_label_ge r y m d hd).mp (by omega); omega
      rw [if_neg this]

/-- day order follows label order (converse of `isDate_lt`) -/
theorem jdnOf_lt_of_label_lt (ρ : Rule) (y y' : Int) (m m' : Month) (d d' : Int)
    (hv : ValidYMD ρ y m d) (hv' : ValidYMD ρ y' m' d')
    (h : y < y' ∨ (y = y' ∧ (m.number < m'.number ∨ (m.number = m'.number ∧ d < d')))) :
    jdnOf ρ y m d < jdnOf ρ y' m' d' := by
  have h1 : IsDate ρ (jdnOf ρ y m d) y m d := ⟨hv, rfl⟩
  have h2 : IsDate ρ (jdnOf ρ y' m' d') y' m' d' := ⟨hv', rfl⟩
  rcases Int.lt_trichotomy (jdnOf ρ y m d) (jdnOf ρ y' m' d') with a | a | a
  · exact a
  · rw [a] at h1
    obtain ⟨e1, e2, e3⟩ := isDate_unique h1 h2
    subst e1 e2 e3; omega
  · have := isDate_lt_num h2 h1 a; omega

namespace Reform
variable (rf : Reform)

/-- number of day labels the reformation skips -/
theorem skip_amount :
    jdnOf .julian rf.yQ rf.mQ rf.dQ - rf.R
      = (rf.yQ - 1) / 100 - (rf.yQ - 1) / 400 - 2
        + (daysBefore (leap .julian rf.yQ) rf.mQ - daysBefore (leap .gregorian rf.yQ) rf.mQ) := by
  have := julian_minus_gregorian rf.yQ rf.mQ rf.dQ
  have := rf.hQ.2
  omega

/-- **a wholly skipped month needs at least 28 skipped labels, hence R ≥ 3145930** -/
theorem skipped_month_threshold (y : Int) (m : Month) (h : rf.cal.monthIShape y m = none) :
    3145930 ≤ rf.R := by
  -- the month lies strictly between the two boundary months
  have hb : rf.Between y m := by
    by_cases c : rf.Between y m
    · exact c
    · exfalso
      have hle := rf.ym_le
      simp only [Between] at c
      rcases Int.lt_trichotomy (ymKey y m) (ymKey rf.yP rf.mP) with a | a | a
      · rw [rf.shape_before y m a] at h; cases h
      · obtain ⟨ey, em⟩ := (ymKey_eq _ _ _ _).mp a
        subst ey em
        rcases Int.lt_or_eq_of_le hle with b | b
        · rw [rf.shape_P b] at h; split at h <;> cases h
        · obtain ⟨ey, em⟩ := (ymKey_eq _ _ _ _).mp b
          have := rf.shape_PQ b
          rw [← ey, ← em] at this
          rw [this] at h; cases h
      · rcases Int.lt_trichotomy (ymKey y m) (ymKey rf.yQ rf.mQ) with b | b | b
        · exact c ⟨a, b⟩
        · obtain ⟨ey, em⟩ := (ymKey_eq _ _ _ _).mp b
          subst ey em
          rw [rf.shape_Q (by omega)] at h; split at h <;> cases h
        · rw [rf.shape_after y m b] at h; cases h
  obtain ⟨b1, b2⟩ := hb
  have k1 := (ymKey_lt rf.yP y rf.mP m).mp b1
  have k2 := (ymKey_lt y rf.yQ m rf.mQ).mp b2
  -- the Julian days of that month lie strictly between day R-1 and the Julian date Q
  have hl := monthLen_bounds (leap .julian y) m
  have v1 : ValidYMD .julian y m 1 := by simp only [ValidYMD]; omega
  have v2 : ValidYMD .julian y m (monthLen (leap .julian y) m) := by simp only [ValidYMD]; omega
  have vP := rf.validP
  have vQ := rf.validQ
  have o1 := jdnOf_lt_of_label_lt .julian rf.yP y rf.mP m rf.dP 1 rf.hP.1 v1 (by omega)
  have o2 := jdnOf_lt_of_label_lt .julian y rf.yQ m rf.mQ (monthLen (leap .julian y) m) rf.dQ v2
    rf.validQ_julian (by omega)
  have hP := rf.hP.2
  have hspan : jdnOf .julian y m (monthLen (leap .julian y) m)
      = jdnOf .julian y m 1 + monthLen (leap .julian y) m - 1 := by
    simp only [jdnOf]; omega
  have hamt := rf.skip_amount
  have hd := rf.hQ
  have hge : IsDate .gregorian 3145930 3901 .march 1 := by unfold IsDate ValidYMD; decide
  by_cases c : 3145930 ≤ rf.R
  · exact c
  · exfalso
    have hlab := isDate_lt_num hd hge (by omega)
    have hmar : Month.march.number = 3 := rfl
    have bQ := Month.number_bounds rf.mQ
    -- at most 28 labels are skipped below that day, so the month is a 28-day February
    have hL : monthLen (leap .julian y) m = 28
        ∧ jdnOf .julian y m (monthLen (leap .julian y) m) + 1 = jdnOf .julian rf.yQ rf.mQ rf.dQ := by
      rcases adj_cases rf.yQ rf.mQ with ⟨a, a1, a2, a3⟩ | ⟨a, a1⟩
      · rw [a] at hamt; constructor <;> omega
      · rw [a] at hamt; constructor <;> omega
    obtain ⟨hL1, hL2⟩ := hL
    have hfeb : m = .february ∧ leap .julian y = false := by
      cases m <;> cases hl' : leap .julian y <;> simp [monthLen, hl'] at hL1 <;> exact ⟨rfl, rfl⟩
    obtain ⟨rfl, hlj⟩ := hfeb
    have hnext : jdnOf .julian y .february (monthLen (leap .julian y) .february) + 1
        = jdnOf .julian y .march 1 := by
      simp [jdnOf, daysBefore, monthLen, hlj]; omega
    have hX1 : IsDate .julian (jdnOf .julian rf.yQ rf.mQ rf.dQ) rf.yQ rf.mQ rf.dQ := ⟨rf.validQ_julian, rfl⟩
    have hX2 : IsDate .julian (jdnOf .julian rf.yQ rf.mQ rf.dQ) y .march 1 := by
      refine ⟨by simp [ValidYMD, monthLen], ?_⟩
      omega
    obtain ⟨e1, e2, e3⟩ := isDate_unique hX1 hX2
    -- the first Gregorian date is March 1 of a Julian common year: no century correction
    rw [e1, e2, e3] at hamt hL2
    rw [e1, e2, e3] at hlab
    have hnl : ¬ y % 4 = 0 := by
      simp only [leap, beq_eq_false_iff_ne, ne_eq] at hlj; exact hlj
    rcases adj_cases y .march with ⟨a, a1, a2, a3⟩ | ⟨a, a1⟩
    · omega
    · rw [a] at hamt
      omega

/-- **a wholly skipped year needs at least 365 skipped labels, hence R ≥ 19582149** -/
theorem skipped_year_threshold (y : Int) (h : rf.cal.yearKind y = .skipped) :
    19582149 ≤ rf.R := by
  have hle := rf.yP_le_yQ
  -- the year lies strictly between the two boundary years
  have hb : rf.yP < y ∧ y < rf.yQ := by
    rcases Int.lt_trichotomy y rf.yP with a | a | a
    · rw [rf.yearKind_lt y a] at h; split at h <;> cases h
    · subst a
      rcases Int.lt_or_eq_of_le hle with b | b
      · rw [rf.yearKind_lower b] at h; (repeat' split at h) <;> cases h
      · rw [rf.yearKind_both b] at h; split at h <;> cases h
    · rcases Int.lt_trichotomy y rf.yQ with b | b | b
      · exact ⟨a, b⟩
      · subst b
        rw [rf.yearKind_upper a] at h; (repeat' split at h) <;> cases h
      · rw [rf.yearKind_gt y b] at h; split at h <;> cases h
  obtain ⟨b1, b2⟩ := hb
  -- the whole Julian year y lies strictly between day R-1 and the Julian date Q
  have bP := jdnOf_bounds .julian rf.yP rf.mP rf.dP rf.hP.1
  have bQ := jdnOf_bounds .julian rf.yQ rf.mQ rf.dQ rf.validQ_julian
  have s1 := yearStart_lt .julian rf.yP y b1
  have s2 := yearStart_lt .julian y rf.yQ b2
  have ly := yearLen_bounds .julian y
  have hP := rf.hP.2
  have hamt := rf.skip_amount
  have hd := rf.hQ
  have hge : IsDate .gregorian 19582149 48902 .january 1 := by unfold IsDate ValidYMD; decide
  by_cases c : 19582149 ≤ rf.R
  · exact c
  · exfalso
    have hlab := isDate_lt_num hd hge (by omega)
    have hjan : Month.january.number = 1 := rfl
    have bQ' := Month.number_bounds rf.mQ
    have sy := yearStart_succ .julian y
    -- at most 365 labels are skipped below that day: the year is a 365-day Julian year and
    -- the first Gregorian date is January 1 of the next year
    have hL : yearLen .julian y = 365
        ∧ yearStart .julian (y + 1) = jdnOf .julian rf.yQ rf.mQ rf.dQ := by
      rcases adj_cases rf.yQ rf.mQ with ⟨a, a1, a2, a3⟩ | ⟨a, a1⟩
      · rw [a] at hamt; constructor <;> omega
      · rw [a] at hamt; constructor <;> omega
    obtain ⟨hL1, hL2⟩ := hL
    have hX1 : IsDate .julian (jdnOf .julian rf.yQ rf.mQ rf.dQ) rf.yQ rf.mQ rf.dQ := ⟨rf.validQ_julian, rfl⟩
    have hX2 : IsDate .julian (jdnOf .julian rf.yQ rf.mQ rf.dQ) (y + 1) .january 1 := by
      refine ⟨by simp [ValidYMD, monthLen], ?_⟩
      rw [← hL2]; simp [jdnOf, daysBefore]
    obtain ⟨e1, e2, e3⟩ := isDate_unique hX1 hX2
    rw [e1, e2, e3] at hamt hL2
    rw [e1, e2, e3] at hlab
    have hjan1 : jdnOf .julian (y + 1) .january 1 = yearStart .julian (y + 1) := by
      simp only [jdnOf, daysBefore]; omega
    have hnl : ¬ y % 4 = 0 := by
      simp only [yearLen, leap] at hL1
      intro h4; simp [h4] at hL1
    rcases adj_cases (y + 1) .january with ⟨a, a1, a2, a3⟩ | ⟨a, a1⟩
    · omega
    · rw [a] at hamt; omega

end Reform
end JV
