/-
Lemmas/AtJdn.lean — L4: `at_jdn` for every well-formed calendar, in one statement.
-/
import JulianVerif.Lemmas.ReformAtJdn
set_option linter.unusedSimpArgs false
namespace JV
open Spec

/-- a calendar a caller can hold: proleptic, or returned by `Calendar::reforming` -/
def WF (c : Calendar) : Prop :=
  c = .julian ∨ c = .gregorian ∨ ∃ R, InI32 R ∧ Calendar.mkReforming R = .ok c

/-- the rule in force on day `j` -/
def ruleAt : Calendar → Int → Rule
  | .julian, _ => .julian
  | .gregorian, _ => .gregorian
  | .reforming r _, j => side r j

theorem WF.cases {c : Calendar} (h : WF c) :
    c = .julian ∨ c = .gregorian ∨ ∃ rf : Reform, c = rf.cal ∧ InI32 rf.R ∧ InI32 (rf.R - 1) := by
  rcases h with h | h | ⟨R, hR, h⟩
  · exact Or.inl h
  · exact Or.inr (Or.inl h)
  · obtain ⟨rf, e, eR, hR1⟩ := mk_reform R hR c h
    exact Or.inr (Or.inr ⟨rf, e, by rw [eR]; exact hR, by rw [eR]; exact hR1⟩)

/-- **`at_jdn` succeeds on every day number and returns the date the specification gives** -/
theorem atJdn_total (c : Calendar) (hc : WF c) (j : Int) :
    ∃ d, c.atJdn? j = some d ∧ d.calendar = c ∧ d.jdn = j
      ∧ IsDate (ruleAt c j) j d.year d.month d.day := by
  rcases hc.cases with rfl | rfl | ⟨rf, rfl, _⟩
  · obtain ⟨y, m, d, h, hd⟩ := ruleCal_atJdn .julian j
    exact ⟨_, h, rfl, rfl, hd⟩
  · obtain ⟨y, m, d, h, hd⟩ := ruleCal_atJdn .gregorian j
    exact ⟨_, h, rfl, rfl, hd⟩
  · by_cases hj : j < rf.R
    · obtain ⟨y, m, d, h, hd, _⟩ := rf.atJdn_julian j hj
      refine ⟨_, h, rfl, rfl, ?_⟩
      simp only [Reform.cal, ruleAt, side, hj, if_true]; exact hd
    · obtain ⟨y, m, d, h, hd, _⟩ := rf.atJdn_gregorian j (by omega)
      refine ⟨_, h, rfl, rfl, ?_⟩
      simp only [Reform.cal, ruleAt, side, hj, if_false]; exact hd

namespace Reform
variable (rf : Reform)

/-- the advertised last Julian date is the date of day R-1 -/
theorem lastJulianDate_eq : rf.cal.lastJulianDate = rf.cal.atJdn? (rf.R - 1) := by
  obtain ⟨y, m, d, h, hd, _⟩ := rf.atJdn_julian (rf.R - 1) (by omega)
  obtain ⟨rfl, rfl, rfl⟩ := isDate_unique hd rf.hP
  rw [h]
  simp only [Reform.cal, Calendar.lastJulianDate, mkGap]

/-- the advertised first Gregorian date is the date of day R -/
theorem firstGregorianDate_eq : rf.cal.firstGregorianDate = rf.cal.atJdn? rf.R := by
  obtain ⟨y, m, d, h, hd, _⟩ := rf.atJdn_gregorian rf.R (Int.le_refl _)
  obtain ⟨rfl, rfl, rfl⟩ := isDate_unique hd rf.hQ
  rw [h]
  have hk := rf.kind_eq
  have hpo := rf.postOrdinal_eq
  simp only [Reform.cal, Calendar.firstGregorianDate]
  have e1 : (mkGap rf.yP rf.mP rf.dP rf.yQ rf.mQ rf.dQ).kind = GapKind.forDates rf.yP rf.mP rf.yQ rf.mQ := rfl
  have e2 : (mkGap rf.yP rf.mP rf.dP rf.yQ rf.mQ rf.dQ).preReform.day = rf.dP := rfl
  have e3 : (mkGap rf.yP rf.mP rf.dP rf.yQ rf.mQ rf.dQ).postReform.year = rf.yQ := rfl
  have e4 : (mkGap rf.yP rf.mP rf.dP rf.yQ rf.mQ rf.dQ).postReform.month = rf.mQ := rfl
  have e5 : (mkGap rf.yP rf.mP rf.dP rf.yQ rf.mQ rf.dQ).postReform.day = rf.dQ := rfl
  rw [e1, e2, e3, e4, e5, hpo, hk]
  simp only [if_true, gapAmt, oP', dayOrdG, true_and, oQ]
  have hoQ : rf.oQ = daysBefore (leap .gregorian rf.yQ) rf.mQ + rf.dQ := rfl
  have hoP : rf.oP = daysBefore (leap .julian rf.yP) rf.mP + rf.dP := rfl
  have hym : ymKey rf.yP rf.mP = ymKey rf.yQ rf.mQ ↔ (rf.yP = rf.yQ ∧ rf.mP = rf.mQ) := ymKey_eq _ _ _ _
  by_cases e : rf.yP = rf.yQ
  · by_cases e' : rf.mP = rf.mQ
    · have : ymKey rf.yP rf.mP = ymKey rf.yQ rf.mQ := hym.mpr ⟨e, e'⟩
      simp [e, e', this, oP]
      omega
    · have : ¬ ymKey rf.yP rf.mP = ymKey rf.yQ rf.mQ := fun h => e' (hym.mp h).2
      have this' : ¬ ymKey rf.yQ rf.mP = ymKey rf.yQ rf.mQ := fun h => e' ((ymKey_eq _ _ _ _).mp h).2
      simp [e, e', this, this']
      omega
  · have : ¬ ymKey rf.yP rf.mP = ymKey rf.yQ rf.mQ := fun h => e (hym.mp h).1
    by_cases e2 : rf.yP + 1 = rf.yQ <;> simp [e, e2, this] <;> omega

end Reform
end JV
