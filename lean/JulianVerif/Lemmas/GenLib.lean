/-
Lemmas/GenLib.lean — the definitions GENERATED from lib.rs / inner.rs (Model/GenLib.lean, by
bin/libgen) are equal to the hand-written model the property theorems are about.

Two kinds of statement:
  * `Gen.f = <pure model f>`          for functions that cannot fault;
  * `Gen.f args = Chk.f args`         for functions with machine arithmetic: the generated checked
    function is the hand-written checked function (Model/Checked.lean), which
    Lemmas/Checked*.lean prove fault-free and equal to the unbounded model.
The equalities that go through `cmp_year` / `cmp_year_month` need the `debug_assert!`s of
`cmp_int_range` / `cmp_ym_range` not to fire: hypothesis `GapOrdered`.
-/
import JulianVerif.Model.GenLib
import JulianVerif.Model.Checked
import JulianVerif.Lemmas.CheckedCmp
set_option maxHeartbeats 1000000
set_option linter.unusedSimpArgs false
namespace JV.Gen

/-! ### helpers that cannot fault -/

theorem isJulianLeapYear_eq : isJulianLeapYear = JV.isJulianLeapYear := rfl
theorem isGregorianLeapYear_eq : isGregorianLeapYear = JV.isGregorianLeapYear := rfl

theorem monthDiscriminant_eq (m : Month) : monthDiscriminant m = m.number := by cases m <;> rfl
theorem monthNumber_eq (m : Month) : monthNumber m = m.number := monthDiscriminant_eq m
theorem monthEq_eq (a b : Month) : monthEq a b = (a == b) := by cases a <;> cases b <;> rfl
theorem monthLt_eq (a b : Month) : monthLt a b = a.lt b := by
  simp only [monthLt, Month.lt, monthDiscriminant_eq]
theorem monthLe_eq (a b : Month) : monthLe a b = a.le b := by
  simp only [monthLe, Month.le, monthDiscriminant_eq]
theorem monthPred_eq (m : Month) : monthPred m = m.pred := by cases m <;> rfl
theorem monthSucc_eq (m : Month) : monthSucc m = m.succ := by cases m <;> rfl
theorem weekdayNumber_eq (w : Weekday) : weekdayNumber w = w.number := by cases w <;> rfl
theorem weekdayPred_eq (w : Weekday) : weekdayPred w = w.pred := by cases w <;> rfl
theorem weekdaySucc_eq (w : Weekday) : weekdaySucc w = w.succ := by cases w <;> rfl
theorem weekdayTryFromConst_eq : weekdayTryFromConst = Weekday.ofInt? := rfl
theorem yearKindIsCommon_eq (k : YearKind) : yearKindIsCommon k = k.isCommon := by cases k <;> rfl
theorem yearKindIsLeap_eq (k : YearKind) : yearKindIsLeap k = k.isLeap := by cases k <;> rfl
theorem yearKindIsReform_eq (k : YearKind) : yearKindIsReform k = k.isReform := by cases k <;> rfl
theorem yearKindIsSkipped_eq (k : YearKind) : yearKindIsSkipped k = k.isSkipped := by cases k <;> rfl

theorem calendarGap_eq (c : Calendar) : calendarGap c = c.gap := by cases c <;> rfl
theorem calendarIsProleptic_eq (c : Calendar) : calendarIsProleptic c = c.isProleptic := by cases c <;> rfl
theorem calendarIsReforming_eq (c : Calendar) : calendarIsReforming c = c.isReforming := by cases c <;> rfl
theorem calendarReformation_eq (c : Calendar) : calendarReformation c = c.reformation := by cases c <;> rfl

theorem calendarJULIAN_eq : calendarJULIAN = .julian := rfl
theorem calendarGREGORIAN_eq : calendarGREGORIAN = .gregorian := rfl
theorem calendarREFORM1582_eq : calendarREFORM1582 = Calendar.reform1582 := rfl

theorem monthShapeContains_eq (s : MonthShape) (d : Int) : monthShapeContains s d = s.contains d := by
  rcases s with ⟨c, y, m, i⟩; cases i <;> rfl
theorem monthShapeFirstDay_eq (s : MonthShape) : monthShapeFirstDay s = s.firstDay := by
  rcases s with ⟨c, y, m, i⟩; cases i <;> rfl
theorem monthShapeLastDay_eq (s : MonthShape) : monthShapeLastDay s = s.lastDay := by
  rcases s with ⟨c, y, m, i⟩; cases i <;> rfl
theorem monthShapeKind_eq (s : MonthShape) : monthShapeKind s = s.kind := by
  rcases s with ⟨c, y, m, i⟩; cases i <;> rfl

theorem dateIsJulian_eq (d : Date) : dateIsJulian d = d.isJulian := by
  rcases d with ⟨c, _, _, _, _, _, _⟩; cases c <;> rfl
theorem dateIsGregorian_eq (d : Date) : dateIsGregorian d = d.isGregorian := by
  rcases d with ⟨c, _, _, _, _, _, _⟩; cases c <;> rfl

/-! ### `MonthShape` methods with arithmetic: generated = hand-written checked model -/

theorem monthShapeLen_eq (s : MonthShape) : monthShapeLen s = Chk.len s.inner := by
  rcases s with ⟨c, y, m, i⟩; cases i <;> rfl

theorem monthShapeNthDay_eq (s : MonthShape) (n : Int) : monthShapeNthDay s n = Chk.nthDay s.inner n := by
  rcases s with ⟨c, y, m, i⟩
  cases i <;> simp only [monthShapeNthDay, Chk.nthDay, pure, bind, Option.bind] <;>
    (repeat' split) <;> first | rfl | simp_all

/-- `MonthShape::gap` returns a `RangeInclusive`; the hand-written model gives its two ends -/
theorem monthShapeGap_eq (s : MonthShape) :
    monthShapeGap s = (Chk.gap s.inner).map (Option.map fun p => RangeIncl.new p.1 p.2) := by
  rcases s with ⟨c, y, m, i⟩
  cases i with
  | normal a => rfl
  | headless a b =>
    simp only [monthShapeGap, Chk.gap, bind, Option.bind, pure]
    cases Chk.u32 (a - 1) <;> rfl
  | tailless a b =>
    simp only [monthShapeGap, Chk.gap, bind, Option.bind, pure]
    cases Chk.u32 (a + 1) <;> rfl
  | gapped a b c => rfl

theorem monthShapeDayOrdinalErr_eq (s : MonthShape) (d : Int) :
    monthShapeDayOrdinalErr s d = Chk.dayOrdinalErr s.inner s.year s.month d := by
  rcases s with ⟨c, y, m, i⟩
  cases i <;> simp only [monthShapeDayOrdinalErr, Chk.dayOrdinalErr, pure, bind, Option.bind] <;>
    (repeat' split) <;> first | rfl | simp_all

/-! ### the calendar: `cmp_year` / `cmp_year_month` do not fire their `debug_assert!`s -/

/-- the last Julian (year, month) is not after the first Gregorian one — what
`ReformGap::cmp_year` / `cmp_year_month` assume -/
def GapOrdered (c : Calendar) : Prop :=
  ∀ g, c.gap = some g →
    ymKey g.preReform.year g.preReform.month ≤ ymKey g.postReform.year g.postReform.month

theorem GapOrdered.year {r : Int} {g : ReformGap} (h : GapOrdered (.reforming r g)) :
    g.preReform.year ≤ g.postReform.year := by
  have := h g rfl
  have b1 := Month.number_bounds g.preReform.month
  have b2 := Month.number_bounds g.postReform.month
  simp only [ymKey] at this; omega

theorem reformGapCmpYear_eq (g : ReformGap) (y : Int) (h : g.preReform.year ≤ g.postReform.year) :
    reformGapCmpYear g y = some (g.cmpYear y) := by
  simp only [reformGapCmpYear, ReformGap.cmpYear, Chk.cmpIntRange_eq _ _ _ h, bind, Option.bind, pure]

theorem reformGapCmpYearMonth_eq (g : ReformGap) (y : Int) (m : Month)
    (h : ymKey g.preReform.year g.preReform.month ≤ ymKey g.postReform.year g.postReform.month) :
    reformGapCmpYearMonth g y m = some (g.cmpYearMonth y m) := by
  simp only [reformGapCmpYearMonth, ReformGap.cmpYearMonth, Chk.cmpYmRange_eq _ _ _ _ _ _ h, bind,
    Option.bind, pure]

theorem calendarYearKind_eq (c : Calendar) (h : GapOrdered c) (y : Int) :
    calendarYearKind c y = some (c.yearKind y) := by
  cases c with
  | julian => simp only [calendarYearKind, Calendar.yearKind, isJulianLeapYear_eq, pure]; rfl
  | gregorian => simp only [calendarYearKind, Calendar.yearKind, isGregorianLeapYear_eq, pure]; rfl
  | reforming r g =>
    simp only [calendarYearKind, Calendar.yearKind, reformGapCmpYear_eq g y h.year, bind, Option.bind,
      isJulianLeapYear_eq, isGregorianLeapYear_eq, monthLt_eq, monthLe_eq, pure]
    cases g.cmpYear y <;> simp only [] <;> congr 1
    all_goals
      rcases g with ⟨⟨py, po, pm, pd⟩, ⟨qy, qo, qm, qd⟩, k, gs, gg⟩
      simp only []
      cases pm <;> cases qm <;> simp [Month.lt, Month.le, Month.number] <;> (repeat' split) <;> simp_all

theorem calendarYearLength_eq (c : Calendar) (h : GapOrdered c) (y : Int) :
    calendarYearLength c y = Chk.yearLength c y := by
  cases c <;>
    simp only [calendarYearLength, Chk.yearLength, calendarYearKind_eq _ h, bind, Option.bind, pure,
      isGregorianLeapYear_eq] <;>
    (repeat' split) <;> first | rfl | simp_all

/-- the generated `month_shape` builds the `MonthShape` record around the inner shape of the
hand-written checked model -/
theorem calendarMonthShape_eq (c : Calendar) (h : GapOrdered c) (y : Int) (m : Month) :
    calendarMonthShape c y m
      = (Chk.monthIShape c y m).map (Option.map fun i => (⟨c, y, m, i⟩ : MonthShape)) := by
  cases c with
  | julian =>
    cases m <;> simp [calendarMonthShape, Chk.monthIShape, Calendar.naturalLength, Calendar.gap, calendarGap_eq,
      calendarYearKind_eq _ h, yearKindIsLeap_eq, bind, Option.bind, pure] <;> (repeat' split) <;> simp_all
  | gregorian =>
    cases m <;> simp [calendarMonthShape, Chk.monthIShape, Calendar.naturalLength, Calendar.gap, calendarGap_eq,
      calendarYearKind_eq _ h, yearKindIsLeap_eq, bind, Option.bind, pure] <;> (repeat' split) <;> simp_all
  | reforming r g =>
    have hk := h g rfl
    have hf := reformGapCmpYearMonth_eq g y Month.february hk
    simp only [calendarMonthShape, Chk.monthIShape, Calendar.naturalLength, Calendar.gap, calendarGap,
      calendarYearKind_eq _ h, yearKindIsLeap_eq, reformGapCmpYearMonth_eq g y m hk, hf, isJulianLeapYear_eq,
      bind, Option.bind, pure]
    obtain ⟨xf, hxf⟩ : ∃ x, g.cmpYearMonth y Month.february = x := ⟨_, rfl⟩
    obtain ⟨xm, hxm⟩ : ∃ x, g.cmpYearMonth y m = x := ⟨_, rfl⟩
    obtain ⟨lp, hlp⟩ : ∃ x, ((Calendar.reforming r g).yearKind y).isLeap = x := ⟨_, rfl⟩
    obtain ⟨u1, hu1⟩ : ∃ x, Chk.u32 (g.preReform.day + 1) = x := ⟨_, rfl⟩
    obtain ⟨u2, hu2⟩ : ∃ x, Chk.u32 (g.postReform.day - 1) = x := ⟨_, rfl⟩
    obtain ⟨kd, hkd⟩ : ∃ x, g.kind = x := ⟨_, rfl⟩
    have hfm : m = Month.february → xm = xf := by intro e; subst e; rw [← hxf, ← hxm]
    simp only [hxf, hxm, hlp, hu1, hu2, hkd]
    clear hxf hxm hlp hu1 hu2 hkd hf hk h
    cases m
    case february =>
      obtain rfl := hfm rfl
      cases xm <;> cases lp <;> cases kd <;> cases u1 <;> cases u2 <;> simp <;> (repeat' split) <;> simp_all
    all_goals
      clear hfm
      cases xm <;> cases kd <;> cases u1 <;> cases u2 <;> simp <;> (repeat' split) <;> simp_all

theorem calendarGetDayOrdinal_eq (c : Calendar) (h : GapOrdered c) (y : Int) (m : Month) (d : Int) :
    calendarGetDayOrdinal c y m d = Chk.getDayOrdinal c y m d := by
  simp only [calendarGetDayOrdinal, Chk.getDayOrdinal, calendarMonthShape_eq c h, bind, Option.bind, pure]
  cases Chk.monthIShape c y m with
  | none => rfl
  | some o => cases o <;> simp [monthShapeDayOrdinalErr_eq] <;> split <;> simp_all

theorem calendarOrdinal2ymddoLoop_eq (c : Calendar) (h : GapOrdered c) (y : Int) (ms : List Month) (days : Int) :
    calendarOrdinal2ymddoLoop c y ms days = (Chk.ordinal2ymddoLoop c y ms days).map .ok := by
  induction ms generalizing days with
  | nil => rfl
  | cons m ms ih =>
    simp only [calendarOrdinal2ymddoLoop, Chk.ordinal2ymddoLoop, calendarMonthShape_eq c h, bind, Option.bind, pure]
    cases Chk.monthIShape c y m with
    | none => rfl
    | some o =>
      cases o with
      | none => simp only [Option.map, ih days]
      | some i =>
        simp only [Option.map, monthShapeNthDay_eq, monthShapeLen_eq]
        cases Chk.nthDay i days with
        | none => rfl
        | some o2 =>
          cases o2 with
          | some d => rfl
          | none =>
            simp only []
            cases Chk.len i with
            | none => rfl
            | some l =>
              simp only []
              cases Chk.u32 (days - l) with
              | none => rfl
              | some d2 => simp only [ih d2]; cases Chk.ordinal2ymddoLoop c y ms d2 <;> rfl

theorem calendarOrdinal2ymddo_eq (c : Calendar) (h : GapOrdered c) (y o : Int) :
    calendarOrdinal2ymddo c y o = Chk.ordinal2ymddo c y o := by
  simp only [calendarOrdinal2ymddo, Chk.ordinal2ymddo, calendarYearLength_eq c h, calendarOrdinal2ymddoLoop_eq c h,
    bind, Option.bind, pure]
  cases Chk.yearLength c y with
  | none => rfl
  | some l =>
    simp only []
    split <;> first | rfl | (simp only [Month.all]; cases Chk.ordinal2ymddoLoop c y _ o <;> rfl)

theorem calendarYmdo2ordinalLoop_eq (c : Calendar) (h : GapOrdered c) (y : Int) (m : Month) (k : Int)
    (ms : List Month) (acc : Int) :
    calendarYmdo2ordinalLoop c y m k ms acc = Chk.ymdo2ordinalLoop c y m k ms acc := by
  induction ms generalizing acc with
  | nil => rfl
  | cons m' ms ih =>
    simp only [calendarYmdo2ordinalLoop, Chk.ymdo2ordinalLoop, calendarMonthShape_eq c h, monthEq_eq, bind,
      Option.bind, pure]
    split
    · cases Chk.u32 (acc + k) <;> rfl
    · cases Chk.monthIShape c y m' with
      | none => rfl
      | some o =>
        cases o with
        | none => simp only [Option.map, ih acc]
        | some i =>
          simp only [Option.map, monthShapeLen_eq]
          cases Chk.len i with
          | none => rfl
          | some l =>
            simp only []
            cases Chk.u32 (acc + l) with
            | none => rfl
            | some a2 => simp only [ih a2]

theorem calendarYmdo2ordinal_eq (c : Calendar) (h : GapOrdered c) (y : Int) (m : Month) (k : Int) :
    calendarYmdo2ordinal c y m k = Chk.ymdo2ordinal c y m k := by
  simp only [calendarYmdo2ordinal, Chk.ymdo2ordinal, calendarYmdo2ordinalLoop_eq c h, Month.all]

@[simp] theorem opt_eta {α : Type} (a : Option α) :
    (match a with | some j => some j | none => none) = a := by cases a <;> rfl

theorem calendarGetJdn_eq (c : Calendar) (y o : Int) : calendarGetJdn c y o = Chk.getJdn c y o := by
  cases c <;> simp [calendarGetJdn, Chk.getJdn, calendarGap, Calendar.gap, bind, Option.bind, pure] <;>
    (repeat' split) <;> (try simp_all) <;> (repeat' split) <;> (try simp_all) <;> (try (split <;> rfl))

theorem calendarAtYmd_eq (c : Calendar) (h : GapOrdered c) (y : Int) (m : Month) (d : Int) :
    calendarAtYmd c y m d = Chk.atYmd c y m d := by
  simp only [calendarAtYmd, Chk.atYmd, calendarGetDayOrdinal_eq c h, calendarYmdo2ordinal_eq c h,
    calendarGetJdn_eq, bind, Option.bind, pure]
  cases Chk.getDayOrdinal c y m d with
  | none => rfl
  | some e =>
    cases e with
    | error e => rfl
    | ok k =>
      simp only []
      cases Chk.ymdo2ordinal c y m k with
      | none => rfl
      | some o =>
        simp only []
        cases Chk.getJdn c y o with
        | none => rfl
        | some j => cases j <;> rfl

theorem calendarAtOrdinalDate_eq (c : Calendar) (h : GapOrdered c) (y o : Int) :
    calendarAtOrdinalDate c y o = Chk.atOrdinalDate c y o := by
  simp only [calendarAtOrdinalDate, Chk.atOrdinalDate, calendarOrdinal2ymddo_eq c h, calendarGetJdn_eq, bind,
    Option.bind, pure]
  cases Chk.ordinal2ymddo c y o with
  | none => rfl
  | some e =>
    cases e with
    | error e => rfl
    | ok k =>
      obtain ⟨m, d, k⟩ := k
      simp only []
      cases Chk.getJdn c y o with
      | none => rfl
      | some j => cases j <;> rfl

theorem calendarAtJdn_eq (c : Calendar) (h : GapOrdered c) (j : Int) : calendarAtJdn c j = Chk.atJdn c j := by
  cases c with
  | julian =>
    simp only [calendarAtJdn, Chk.atJdn, Chk.jdnYearOrdinal, calendarGap, Calendar.gap, bind, Option.bind, pure,
      calendarOrdinal2ymddo_eq _ h]
    cases Chk.jdn2julian j with
    | none => rfl
    | some p =>
      obtain ⟨yy, oo⟩ := p
      rcases hq : Chk.ordinal2ymddo Calendar.julian yy oo with _ | (e | ⟨m, d, k⟩) <;> simp [hq]
  | gregorian =>
    simp only [calendarAtJdn, Chk.atJdn, Chk.jdnYearOrdinal, calendarGap, Calendar.gap, bind, Option.bind, pure,
      calendarOrdinal2ymddo_eq _ h]
    cases Chk.jdn2gregorian j with
    | none => rfl
    | some p =>
      obtain ⟨yy, oo⟩ := p
      rcases hq : Chk.ordinal2ymddo Calendar.gregorian yy oo with _ | (e | ⟨m, d, k⟩) <;> simp [hq]
  | reforming r g =>
    simp only [calendarAtJdn, Chk.atJdn, Chk.jdnYearOrdinal, bind, pure, calendarOrdinal2ymddo_eq _ h,
      calendarGap, Calendar.gap]
    by_cases hj : j < r
    · simp only [hj, decide_true, Bool.or_true, if_true]
      cases Chk.jdn2julian j with
      | none => rfl
      | some p =>
        obtain ⟨yy, oo⟩ := p
        by_cases hc : (yy == g.postReform.year && decide (oo > g.ordinalGapStart)) = true
        · rcases hu : Chk.u32 (oo - g.ordinalGap) with _ | o2
          · simp [hc, hu, Option.bind]
          · rcases hq : Chk.ordinal2ymddo (Calendar.reforming r g) yy o2 with _ | (e | ⟨m, d, k⟩) <;>
              simp [hc, hu, hq, Option.bind]
        · rcases hq : Chk.ordinal2ymddo (Calendar.reforming r g) yy oo with _ | (e | ⟨m, d, k⟩) <;>
            simp [hc, hq, Option.bind]
    · simp only [hj, decide_false, Bool.or_false, Bool.false_eq_true, if_false]
      cases Chk.jdn2gregorian j with
      | none => rfl
      | some p =>
        obtain ⟨yy, oo⟩ := p
        by_cases hc : (yy == g.postReform.year && decide (oo > g.ordinalGapStart)) = true
        · rcases hu : Chk.u32 (oo - g.ordinalGap) with _ | o2
          · simp [hc, hu, Option.bind]
          · rcases hq : Chk.ordinal2ymddo (Calendar.reforming r g) yy o2 with _ | (e | ⟨m, d, k⟩) <;>
              simp [hc, hu, hq, Option.bind]
        · rcases hq : Chk.ordinal2ymddo (Calendar.reforming r g) yy oo with _ | (e | ⟨m, d, k⟩) <;>
            simp [hc, hq, Option.bind]

theorem calendarNextYearAfter_eq (c : Calendar) (y : Int) : calendarNextYearAfter c y = Chk.nextYearAfter c y := by
  cases c <;> simp [calendarNextYearAfter, Chk.nextYearAfter, calendarGap, Calendar.gap, bind, Option.bind, pure] <;>
    (repeat' split) <;> (try simp_all) <;> (repeat' split) <;> (try simp_all)

theorem calendarPrevYearBefore_eq (c : Calendar) (y : Int) : calendarPrevYearBefore c y = Chk.prevYearBefore c y := by
  cases c <;> simp [calendarPrevYearBefore, Chk.prevYearBefore, calendarGap, Calendar.gap, bind, Option.bind, pure] <;>
    (repeat' split) <;> (try simp_all) <;> (repeat' split) <;> (try simp_all)

theorem calendarLastJulianDate_eq (c : Calendar) : calendarLastJulianDate c = Chk.lastJulianDate c := by
  cases c <;> rfl

theorem calendarFirstGregorianDate_eq (c : Calendar) : calendarFirstGregorianDate c = Chk.firstGregorianDate c := by
  cases c with
  | reforming r g =>
    simp only [calendarFirstGregorianDate, Chk.firstGregorianDate, bind, Option.bind, pure]
    cases g.kind <;> simp <;> (repeat' split) <;> simp_all
  | _ => rfl

theorem monthShapeNthDate_eq (s : MonthShape) (h : GapOrdered s.calendar) (n : Int) :
    monthShapeNthDate s n = Chk.nthDate s n := by
  simp only [monthShapeNthDate, Chk.nthDate, monthShapeNthDay_eq, calendarAtYmd_eq _ h, bind, Option.bind, pure]
  rcases Chk.nthDay s.inner n with _ | (_ | d)
  · rfl
  · rfl
  · simp only []
    rcases Chk.atYmd s.calendar s.year s.month d with _ | (e | dt) <;> rfl

theorem dateDayOrdinal0_eq (d : Date) : dateDayOrdinal0 d = Chk.dayOrdinal0 d := by
  simp only [dateDayOrdinal0, Chk.dayOrdinal0, bind, Option.bind, pure]
theorem dateOrdinal0_eq (d : Date) : dateOrdinal0 d = Chk.ordinal0 d := by
  simp only [dateOrdinal0, Chk.ordinal0, bind, Option.bind, pure]

theorem weekdayForJdn_eq (j : Int) : weekdayForJdn j = Chk.weekdayForJdn j := by
  simp only [weekdayForJdn, Chk.weekdayForJdn, weekdayTryFromConst_eq, bind, Option.bind, pure]
  have h7 : Chk.i32 (j % 7) = some (j % 7) := by
    simp only [Chk.i32, inI32]; have := Int.emod_nonneg j (by decide : (7 : Int) ≠ 0)
    have := Int.emod_lt_of_pos j (by decide : (0 : Int) < 7)
    simp; omega
  rw [h7]
  simp only []
  cases Chk.i32 (j % 7 + 1) with
  | none => rfl
  | some r => simp only []; cases Weekday.ofInt? r <;> rfl

theorem dateWeekday_eq (d : Date) : dateWeekday d = Chk.weekdayForJdn d.jdn := by
  simp only [dateWeekday, weekdayForJdn_eq, bind, Option.bind, pure]

theorem dateConvertTo_eq (d : Date) (c : Calendar) (h : GapOrdered c) : dateConvertTo d c = Chk.atJdn c d.jdn := by
  simp only [dateConvertTo, dateJulianDayNumber, calendarAtJdn_eq c h, bind, Option.bind, pure]

theorem jdn2unix_eq (j : Int) : jdn2unix j = Chk.jdn2unix j := by
  simp only [jdn2unix, Chk.jdn2unix, bind, Option.bind, pure]

theorem dateSucc_eq (d : Date) (h : GapOrdered d.calendar) : dateSucc d = Chk.succ d := by
  simp only [dateSucc, Chk.succ, dateCalendar, calendarOrdinal2ymddo_eq _ h, calendarNextYearAfter_eq, bind,
    Option.bind, pure, Chk.i32]
  by_cases hi : inI32 (d.jdn + 1) = true
  · simp only [hi, if_true, Bool.not_true, Bool.false_eq_true, if_false]
    rcases Chk.u32 (d.ordinal + 1) with _ | o
    · rfl
    · simp only []
      rcases Chk.ordinal2ymddo d.calendar d.year o with _ | (e | ⟨m, dd, k⟩)
      · rfl
      · cases e <;> try rfl
        simp only []
        rcases Chk.nextYearAfter d.calendar d.year with _ | y2
        · rfl
        · simp only []
          rcases Chk.ordinal2ymddo d.calendar y2 1 with _ | (e | ⟨m, dd, k⟩) <;> rfl
      · rfl
  · simp [hi]

theorem datePred_eq (d : Date) (h : GapOrdered d.calendar) : datePred d = Chk.pred d := by
  simp only [datePred, Chk.pred, dateCalendar, calendarOrdinal2ymddo_eq _ h, calendarPrevYearBefore_eq,
    calendarYearLength_eq _ h, bind, Option.bind, pure, Chk.i32]
  by_cases hi : inI32 (d.jdn - 1) = true
  · simp only [hi, if_true, Bool.not_true, Bool.false_eq_true, if_false]
    by_cases ho : d.ordinal > 1
    · simp only [ho, decide_true, if_true]
      rcases Chk.u32 (d.ordinal - 1) with _ | o
      · rfl
      · simp only []
        rcases Chk.ordinal2ymddo d.calendar d.year o with _ | (e | ⟨m, dd, k⟩) <;> rfl
    · simp only [ho, decide_false, Bool.false_eq_true, if_false]
      rcases Chk.prevYearBefore d.calendar d.year with _ | y2
      · rfl
      · simp only []
        rcases Chk.yearLength d.calendar y2 with _ | l
        · rfl
        · simp only []
          rcases Chk.ordinal2ymddo d.calendar y2 l with _ | (e | ⟨m, dd, k⟩) <;> rfl
  · simp [hi]

theorem monthNumber0_eq (m : Month) : monthNumber0 m = some m.number0 := by cases m <;> rfl
theorem weekdayNumber0_eq (w : Weekday) : weekdayNumber0 w = some w.number0 := by cases w <;> rfl

theorem monthShapeDayOrdinal_eq (s : MonthShape) (d : Int) :
    monthShapeDayOrdinal s d
      = (Chk.dayOrdinalErr s.inner s.year s.month d).map fun r =>
          match r with
          | .ok o => some o
          | .error _ => none := by
  simp only [monthShapeDayOrdinal, monthShapeDayOrdinalErr_eq, bind, Option.bind, pure]
  rcases Chk.dayOrdinalErr s.inner s.year s.month d with _ | (e | o) <;> rfl

theorem unix2jdn_eq (t : Int) (ht : InI64 t) : unix2jdn t = Chk.unix2jdn t := by
  have h1 : Chk.i64 (t / 86400) = some (t / 86400) := by
    simp only [Chk.i64, inI64]; simp; constructor <;> omega
  have h2 : Chk.i64 (t % 86400) = some (t % 86400) := by
    simp only [Chk.i64, inI64]; simp; constructor <;> omega
  simp only [unix2jdn, Chk.unix2jdn, h1, h2, bind, Option.bind, pure]

theorem calendarAtUnixTime_eq (c : Calendar) (h : GapOrdered c) (t : Int) (ht : InI64 t) :
    calendarAtUnixTime c t
      = (Chk.unix2jdn t).bind fun r =>
          match r with
          | some (j, s) => (Chk.atJdn c j).map fun d => some (d, s)
          | none => some none := by
  simp only [calendarAtUnixTime, unix2jdn_eq t ht, calendarAtJdn_eq c h, bind, Option.bind, pure]
  rcases Chk.unix2jdn t with _ | (_ | ⟨j, s⟩)
  · rfl
  · rfl
  · simp only []
    cases Chk.atJdn c j <;> rfl

theorem gapOrdered_julian : GapOrdered .julian := by intro g hg; simp [Calendar.gap] at hg
theorem gapOrdered_gregorian : GapOrdered .gregorian := by intro g hg; simp [Calendar.gap] at hg

theorem calendarReforming_eq (r : Int) : calendarReforming r = Chk.mkReforming r := by
  simp only [calendarReforming, Chk.mkReforming, calendarJULIAN_eq, calendarGREGORIAN_eq,
    calendarAtJdn_eq _ gapOrdered_julian, calendarAtJdn_eq _ gapOrdered_gregorian, calendarGetJdn_eq,
    Chk.reformOrdinal, dateOrdinal, dateYear, monthLt_eq, bind, Option.bind, pure, Chk.i32]
  by_cases hi : inI32 (r - 1) = true
  · simp only [hi, if_true, Bool.not_true, Bool.false_eq_true, if_false]
    rcases Chk.atJdn Calendar.julian (r - 1) with _ | pre
    · rfl
    · simp only []
      rcases Chk.atJdn Calendar.gregorian r with _ | post
      · rfl
      · simp only []
        split
        · rcases Chk.u32 (post.ordinal + 1) with _ | o
          · simp
          · simp only []
            rcases Chk.getJdn Calendar.julian post.year o with _ | (_ | dte)
            · simp
            · simp; split <;> rfl
            · simp
              split
              · rfl
              · rcases Chk.gapKindForDates pre.year pre.month post.year post.month with _ | kd
                · rfl
                · cases kd <;> simp <;> (repeat' split) <;> simp_all
        · simp only []
          rcases Chk.getJdn Calendar.julian post.year post.ordinal with _ | (_ | dte)
          · simp
          · simp; split <;> rfl
          · simp
            split
            · rfl
            · rcases Chk.gapKindForDates pre.year pre.month post.year post.month with _ | kd
              · rfl
              · cases kd <;> simp <;> (repeat' split) <;> simp_all
  · simp [hi]

/-! ### `TryFrom<integer> for Month` / `for Weekday` (twelve impls each, from one macro) -/

theorem monthTryFromI8_eq : monthTryFromI8 = Month.ofInt? := rfl
theorem monthTryFromI16_eq : monthTryFromI16 = Month.ofInt? := rfl
theorem monthTryFromI32_eq : monthTryFromI32 = Month.ofInt? := rfl
theorem monthTryFromI64_eq : monthTryFromI64 = Month.ofInt? := rfl
theorem monthTryFromI128_eq : monthTryFromI128 = Month.ofInt? := rfl
theorem monthTryFromIsize_eq : monthTryFromIsize = Month.ofInt? := rfl
theorem monthTryFromU8_eq : monthTryFromU8 = Month.ofInt? := rfl
theorem monthTryFromU16_eq : monthTryFromU16 = Month.ofInt? := rfl
theorem monthTryFromU32_eq : monthTryFromU32 = Month.ofInt? := rfl
theorem monthTryFromU64_eq : monthTryFromU64 = Month.ofInt? := rfl
theorem monthTryFromU128_eq : monthTryFromU128 = Month.ofInt? := rfl
theorem monthTryFromUsize_eq : monthTryFromUsize = Month.ofInt? := rfl

theorem weekday_ofInt_none (v : Int) (h : ¬(-2147483648 ≤ v ∧ v ≤ 2147483647)) : Weekday.ofInt? v = none := by
  unfold Weekday.ofInt?
  split <;> first | rfl | (exfalso; omega)

theorem weekdayTryFrom_aux (v : Int) :
    (if decide ((-2147483648) ≤ v) && decide (v ≤ 2147483647) then some v else none).bind weekdayTryFromConst
      = Weekday.ofInt? v := by
  by_cases h : -2147483648 ≤ v ∧ v ≤ 2147483647
  · simp [h.1, h.2, weekdayTryFromConst_eq]
  · rw [weekday_ofInt_none v h]
    have : (decide (-2147483648 ≤ v) && decide (v ≤ 2147483647)) = false := by
      simp only [Bool.and_eq_false_iff, decide_eq_false_iff_not]; omega
    simp [this]

theorem weekdayTryFromI8_eq (v : Int) : weekdayTryFromI8 v = Weekday.ofInt? v := weekdayTryFrom_aux v
theorem weekdayTryFromI16_eq (v : Int) : weekdayTryFromI16 v = Weekday.ofInt? v := weekdayTryFrom_aux v
theorem weekdayTryFromI32_eq (v : Int) : weekdayTryFromI32 v = Weekday.ofInt? v := weekdayTryFrom_aux v
theorem weekdayTryFromI64_eq (v : Int) : weekdayTryFromI64 v = Weekday.ofInt? v := weekdayTryFrom_aux v
theorem weekdayTryFromI128_eq (v : Int) : weekdayTryFromI128 v = Weekday.ofInt? v := weekdayTryFrom_aux v
theorem weekdayTryFromIsize_eq (v : Int) : weekdayTryFromIsize v = Weekday.ofInt? v := weekdayTryFrom_aux v
theorem weekdayTryFromU8_eq (v : Int) : weekdayTryFromU8 v = Weekday.ofInt? v := weekdayTryFrom_aux v
theorem weekdayTryFromU16_eq (v : Int) : weekdayTryFromU16 v = Weekday.ofInt? v := weekdayTryFrom_aux v
theorem weekdayTryFromU32_eq (v : Int) : weekdayTryFromU32 v = Weekday.ofInt? v := weekdayTryFrom_aux v
theorem weekdayTryFromU64_eq (v : Int) : weekdayTryFromU64 v = Weekday.ofInt? v := weekdayTryFrom_aux v
theorem weekdayTryFromU128_eq (v : Int) : weekdayTryFromU128 v = Weekday.ofInt? v := weekdayTryFrom_aux v
theorem weekdayTryFromUsize_eq (v : Int) : weekdayTryFromUsize v = Weekday.ofInt? v := weekdayTryFrom_aux v

/-! ### names and `Display` -/

theorem monthName_eq (m : Month) : monthName m = m.name := by cases m <;> rfl
theorem monthShortName_eq (m : Month) : monthShortName m = m.shortName := by cases m <;> rfl
theorem weekdayName_eq (w : Weekday) : weekdayName w = w.name := by cases w <;> rfl
theorem weekdayShortName_eq (w : Weekday) : weekdayShortName w = w.shortName := by cases w <;> rfl

theorem monthFmt_eq (m : Month) (alt : Bool) :
    monthFmt m alt = (if alt then m.shortName else m.name).toList := by
  cases alt <;> simp [monthFmt, monthName_eq, monthShortName_eq]

theorem weekdayFmt_eq (w : Weekday) (alt : Bool) :
    weekdayFmt w alt = (if alt then w.shortName else w.name).toList := by
  cases alt <;> simp [weekdayFmt, weekdayName_eq, weekdayShortName_eq]

/-- `impl Display for Date`: `{}` and `{:#}` are the model's `fmtDate` / `fmtDateAlt` -/
theorem dateFmt_eq (d : Date) :
    dateFmt d false = fmtDate d ∧ dateFmt d true = fmtDateAlt d := by
  have hdash : "-".toList = ['-'] := rfl
  constructor
  · simp only [dateFmt, fmtDate, fmtYear, dateYear, dateMonth, dateDay, dateOrdinal, monthNumber_eq, hdash,
      padIntRust, Int.toNat_natCast, List.nil_append, Bool.false_eq_true, if_false]
    by_cases h : d.year < 0 <;> simp [h]
  · simp only [dateFmt, fmtDateAlt, fmtYear, dateYear, dateMonth, dateDay, dateOrdinal, monthNumber_eq, hdash,
      padIntRust, Int.toNat_natCast, List.nil_append, if_true]
    by_cases h : d.year < 0 <;> simp [h]

/-! ### `FromStr for Month` / `for Weekday` -/
theorem find_cons_if {α : Type} (p : α → Bool) (a : α) (as : List α) :
    (a :: as).find? p = if p a then some a else as.find? p := by
  simp only [List.find?]; cases p a <;> rfl

theorem eqI_congr (x a b : List Char) (h : a.map asciiLower = b.map asciiLower) :
    eqIgnoreAsciiCase x a = eqIgnoreAsciiCase x b := by
  simp only [eqIgnoreAsciiCase, h]

theorem monthFromStr_eq (s : String) : monthFromStr s = Month.fromStr s.toList := by
  simp only [monthFromStr, Month.fromStr, Month.all, find_cons_if, List.find?_nil, Month.name, Month.shortName]
  simp only [eqI_congr s.toList "january".toList "January".toList (by decide),
    eqI_congr s.toList "jan".toList "Jan".toList (by decide),
    eqI_congr s.toList "february".toList "February".toList (by decide),
    eqI_congr s.toList "feb".toList "Feb".toList (by decide),
    eqI_congr s.toList "march".toList "March".toList (by decide),
    eqI_congr s.toList "mar".toList "Mar".toList (by decide),
    eqI_congr s.toList "april".toList "April".toList (by decide),
    eqI_congr s.toList "apr".toList "Apr".toList (by decide),
    eqI_congr s.toList "may".toList "May".toList (by decide),
    eqI_congr s.toList "june".toList "June".toList (by decide),
    eqI_congr s.toList "jun".toList "Jun".toList (by decide),
    eqI_congr s.toList "july".toList "July".toList (by decide),
    eqI_congr s.toList "jul".toList "Jul".toList (by decide),
    eqI_congr s.toList "august".toList "August".toList (by decide),
    eqI_congr s.toList "aug".toList "Aug".toList (by decide),
    eqI_congr s.toList "september".toList "September".toList (by decide),
    eqI_congr s.toList "sep".toList "Sep".toList (by decide),
    eqI_congr s.toList "october".toList "October".toList (by decide),
    eqI_congr s.toList "oct".toList "Oct".toList (by decide),
    eqI_congr s.toList "november".toList "November".toList (by decide),
    eqI_congr s.toList "nov".toList "Nov".toList (by decide),
    eqI_congr s.toList "december".toList "December".toList (by decide),
    eqI_congr s.toList "dec".toList "Dec".toList (by decide), Bool.or_self]

theorem weekdayFromStr_eq (s : String) : weekdayFromStr s = Weekday.fromStr s.toList := by
  simp only [weekdayFromStr, Weekday.fromStr, Weekday.all, List.dropLast, find_cons_if, List.find?_nil, Weekday.name,
    Weekday.shortName]
  simp only [eqI_congr s.toList "sunday".toList "Sunday".toList (by decide),
    eqI_congr s.toList "sun".toList "Sun".toList (by decide),
    eqI_congr s.toList "monday".toList "Monday".toList (by decide),
    eqI_congr s.toList "mon".toList "Mon".toList (by decide),
    eqI_congr s.toList "tuesday".toList "Tuesday".toList (by decide),
    eqI_congr s.toList "tue".toList "Tue".toList (by decide),
    eqI_congr s.toList "wednesday".toList "Wednesday".toList (by decide),
    eqI_congr s.toList "wed".toList "Wed".toList (by decide),
    eqI_congr s.toList "thursday".toList "Thursday".toList (by decide),
    eqI_congr s.toList "thu".toList "Thu".toList (by decide),
    eqI_congr s.toList "friday".toList "Friday".toList (by decide),
    eqI_congr s.toList "fri".toList "Fri".toList (by decide),
    eqI_congr s.toList "saturday".toList "Saturday".toList (by decide),
    eqI_congr s.toList "sat".toList "Sat".toList (by decide)]

/-! ### comparison traits (`impl Ord / PartialEq / PartialOrd for inner::Calendar`, `for Date`) -/

theorem calendarCmp_eq (a b : Calendar) : calendarCmp a b = a.cmp b := by
  cases a <;> cases b <;> rfl
theorem calendarEq_eq (a b : Calendar) : calendarEq a b = a.beq b := by
  simp only [calendarEq, calendarCmp_eq, Calendar.beq]
theorem calendarPartialCmp_eq (a b : Calendar) : calendarPartialCmp a b = some (a.cmp b) := by
  simp only [calendarPartialCmp, calendarCmp_eq]
theorem dateCmp_eq (a b : Date) : dateCmp a b = a.cmp b := by
  simp only [dateCmp, Date.cmp, dateJulianDayNumber, dateCalendar, calendarCmp_eq]
  cases compare a.jdn b.jdn <;> rfl
theorem datePartialCmp_eq (a b : Date) : datePartialCmp a b = some (a.cmp b) := by
  simp only [datePartialCmp, dateCmp_eq]

/-! ### iter.rs -/

theorem daysNew_eq (s : MonthShape) :
    daysNew s = (Chk.len s.inner).map fun l => (⟨s, RangeIncl.new 1 l⟩ : Days) := by
  simp only [daysNew, monthShapeLen_eq, bind, Option.bind, pure]
  cases Chk.len s.inner <;> rfl

theorem monthShapeDays_eq (s : MonthShape) :
    monthShapeDays s = (Chk.len s.inner).map fun l => (⟨s, RangeIncl.new 1 l⟩ : Days) := by
  simp only [monthShapeDays, daysNew_eq, bind, Option.bind, pure]
  try (cases Chk.len s.inner <;> rfl)

theorem daysNext_eq (it : Days) :
    daysNext it = (match it.inner.next with
      | (none, r) => some (none, { it with inner := r })
      | (some n, r) => (Chk.nthDay it.shape.inner n).map fun d => (d, { it with inner := r })) := by
  simp only [daysNext, monthShapeNthDay_eq, bind, Option.bind, pure]
  rcases h : it.inner.next with ⟨_ | n, r⟩
  · rfl
  · simp only []; cases Chk.nthDay it.shape.inner n <;> rfl

theorem daysNextBack_eq (it : Days) :
    daysNextBack it = (match it.inner.nextBack with
      | (none, r) => some (none, { it with inner := r })
      | (some n, r) => (Chk.nthDay it.shape.inner n).map fun d => (d, { it with inner := r })) := by
  simp only [daysNextBack, monthShapeNthDay_eq, bind, Option.bind, pure]
  rcases h : it.inner.nextBack with ⟨_ | n, r⟩
  · rfl
  · simp only []; cases Chk.nthDay it.shape.inner n <;> rfl

theorem datesNext_eq (it : Dates) (hg : GapOrdered it.shape.calendar) :
    datesNext it = (match it.inner.next with
      | (none, r) => some (none, { it with inner := r })
      | (some n, r) => (Chk.nthDate it.shape n).map fun d => (d, { it with inner := r })) := by
  simp only [datesNext, monthShapeNthDate_eq _ hg, bind, Option.bind, pure]
  rcases h : it.inner.next with ⟨_ | n, r⟩
  · rfl
  · simp only []; cases Chk.nthDate it.shape n <;> rfl

theorem datesNextBack_eq (it : Dates) (hg : GapOrdered it.shape.calendar) :
    datesNextBack it = (match it.inner.nextBack with
      | (none, r) => some (none, { it with inner := r })
      | (some n, r) => (Chk.nthDate it.shape n).map fun d => (d, { it with inner := r })) := by
  simp only [datesNextBack, monthShapeNthDate_eq _ hg, bind, Option.bind, pure]
  rcases h : it.inner.nextBack with ⟨_ | n, r⟩
  · rfl
  · simp only []; cases Chk.nthDate it.shape n <;> rfl

theorem sizeHints_eq (a : Days) (b : Dates) (r : RangeIncl) :
    daysSizeHint a = (a.len, some a.len) ∧ datesSizeHint b = (b.len, some b.len)
    ∧ monthIterSizeHint r = ((⟨r⟩ : MonthIter).len, some (⟨r⟩ : MonthIter).len) := ⟨rfl, rfl, rfl⟩

theorem laterNext_eq (st : Option Date) (hg : ∀ d, st = some d → GapOrdered d.calendar) :
    laterNext st = (match st with
      | some d => (Chk.succ d).map fun r => (r, r)
      | none => some (none, none)) := by
  cases st with
  | none => rfl
  | some d =>
    simp only [laterNext, dateSucc_eq d (hg d rfl), bind, Option.bind, pure]
    cases Chk.succ d <;> rfl

theorem earlierNext_eq (st : Option Date) (hg : ∀ d, st = some d → GapOrdered d.calendar) :
    earlierNext st = (match st with
      | some d => (Chk.pred d).map fun r => (r, r)
      | none => some (none, none)) := by
  cases st with
  | none => rfl
  | some d =>
    simp only [earlierNext, datePred_eq d (hg d rfl), bind, Option.bind, pure]
    cases Chk.pred d <;> rfl

theorem andLaterNext_eq (st : Option Date) (hg : ∀ d, st = some d → GapOrdered d.calendar) :
    andLaterNext st = (match st with
      | some d => (Chk.succ d).map fun r => (some d, r)
      | none => some (none, none)) := by
  cases st with
  | none => rfl
  | some d =>
    simp only [andLaterNext, dateSucc_eq d (hg d rfl), bind, Option.bind, pure]
    cases Chk.succ d <;> rfl

theorem andEarlierNext_eq (st : Option Date) (hg : ∀ d, st = some d → GapOrdered d.calendar) :
    andEarlierNext st = (match st with
      | some d => (Chk.pred d).map fun r => (some d, r)
      | none => some (none, none)) := by
  cases st with
  | none => rfl
  | some d =>
    simp only [andEarlierNext, datePred_eq d (hg d rfl), bind, Option.bind, pure]
    cases Chk.pred d <;> rfl

theorem iterNew_eq (d : Date) :
    laterNew d = some d ∧ earlierNew d = some d ∧ andLaterNew d = some d ∧ andEarlierNew d = some d
    ∧ dateLater d = some d ∧ dateEarlier d = some d ∧ dateAndLater d = some d ∧ dateAndEarlier d = some d
    ∧ monthIterNew = MonthIter.new.inner := ⟨rfl, rfl, rfl, rfl, rfl, rfl, rfl, rfl, rfl⟩

/-- `MonthIter::next`: the generated function faults exactly where the model's inner option is
`none` (the `.expect`), which C17 proves unreachable -/
theorem monthIterNext_eq (r : RangeIncl) :
    monthIterNext r = (match r.next with
      | (none, r') => some (none, r')
      | (some n, r') => (Month.ofInt? n).map fun m => (some m, r')) := by
  simp only [monthIterNext, monthTryFromU32_eq, bind, Option.bind, pure]
  rcases h : r.next with ⟨_ | n, r'⟩
  · rfl
  · simp only []; cases Month.ofInt? n <;> rfl

theorem monthIterNextBack_eq (r : RangeIncl) :
    monthIterNextBack r = (match r.nextBack with
      | (none, r') => some (none, r')
      | (some n, r') => (Month.ofInt? n).map fun m => (some m, r')) := by
  simp only [monthIterNextBack, monthTryFromU32_eq, bind, Option.bind, pure]
  rcases h : r.nextBack with ⟨_ | n, r'⟩
  · rfl
  · simp only []; cases Month.ofInt? n <;> rfl

end JV.Gen
