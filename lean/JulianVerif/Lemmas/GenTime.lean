/-
Lemmas/GenTime.lean — the generated `system2jdn` and `Calendar::at_system_time` (Model/GenLib.lean) are
the checked model's.  A `SystemTime` is what `duration_since(UNIX_EPOCH)` reveals of it: which side of
the epoch it is on, whole seconds (a `u64`), nanoseconds.
-/
import JulianVerif.Lemmas.GenLib
set_option linter.unusedSimpArgs false
namespace JV.Gen
open JV

theorem system2jdnG_eq (before : Bool) (secs nanos : Int) (hs : 0 ≤ secs) :
    system2jdnG (before, secs, nanos) = Chk.system2jdn before secs nanos := by
  unfold system2jdnG Chk.system2jdn
  by_cases hbig : secs > 9223372036854775807
  · have h2 : ¬ (secs ≤ 9223372036854775807) := by omega
    cases before <;> simp [hbig, h2, bind, Option.bind, pure]
  · have h1 : secs ≤ 9223372036854775807 := by omega
    have h0 : (-9223372036854775808 : Int) ≤ secs := by omega
    cases before
    · simp only [hbig, h1, h0, decide_true, Bool.and_self, if_true, if_false, Bool.false_eq_true,
        bind, Option.bind, pure, unix2jdn_eq secs ⟨h0, h1⟩]
      try (cases Chk.unix2jdn secs <;> rfl)
    · have hn : Chk.i64 (-secs) = some (-secs) := by
        simp only [Chk.i64, inI64]; simp; constructor <;> omega
      by_cases hnan : nanos > 0
      · have hm : Chk.i64 (-secs - 1) = some (-secs - 1) := by
          simp only [Chk.i64, inI64]; simp; constructor <;> omega
        simp only [hbig, h1, h0, decide_true, Bool.and_self, if_true, if_false, hnan, hn, hm,
          bind, Option.bind, pure, unix2jdn_eq (-secs - 1) ⟨by omega, by omega⟩]
        try (cases Chk.unix2jdn (-secs - 1) <;> rfl)
      · simp only [hbig, h1, h0, decide_true, Bool.and_self, if_true, if_false, hnan, hn, decide_false,
          Bool.false_eq_true, bind, Option.bind, pure, unix2jdn_eq (-secs) ⟨by omega, by omega⟩]
        try (cases Chk.unix2jdn (-secs) <;> rfl)

/-- `Calendar::now()` is `at_system_time` of whatever the clock says -/
theorem calendarNow_eq (c : Calendar) (clock : Bool × Int × Int) :
    calendarNow c clock = calendarAtSystemTime c clock := by
  simp only [calendarNow, bind, Option.bind, pure]
  try (cases calendarAtSystemTime c clock <;> rfl)

end JV.Gen
