/-
Lemmas/CheckedMisc.lean — `Calendar::reforming`, the boundary dates, timestamps and
`Weekday::for_jdn` never overflow or panic.
-/
import JulianVerif.Lemmas.CheckedInst
set_option linter.unusedSimpArgs false
namespace JV
open Spec

namespace Chk

/-- **`Calendar::reforming` never overflows and never panics**, for every i32 argument -/
theorem mkReforming_eq (R : Int) (hR : InI32 R) :
    mkReforming R = some (Calendar.mkReforming R) := by
  simp only [mkReforming, Calendar.mkReforming]
  split
  · rfl
  · rename_i hR1
    have hR1' : InI32 (R - 1) := by
      cases hh : inI32 (R - 1)
      · simp [hh] at hR1
      · exact (inI32_iff _).mp hh
    obtain ⟨yP, mP, dP, hatP, hdP⟩ := ruleCal_atJdn .julian (R - 1)
    obtain ⟨yQ, mQ, dQ, hatQ, hdQ⟩ := ruleCal_atJdn .gregorian R
    have hcP := (ruleCal_base .julian).atJdn_eq (R - 1) hR1'
    have hcQ := (ruleCal_base .gregorian).atJdn_eq R hR
    simp only [ruleCal] at hatP hatQ hcP hcQ
    have hyP := year_of_jdn_inI32 .julian (R - 1) yP mP dP hR1' hdP
    have hyQ := year_of_jdn_inI32 .gregorian R yQ mQ dQ hR hdQ
    have bP := daysBefore_bounds (leap .julian yP) mP
    have bQ := daysBefore_bounds (leap .gregorian yQ) mQ
    have vP : 1 ≤ dP ∧ dP ≤ monthLen (leap .julian yP) mP := hdP.1
    have vQ : 1 ≤ dQ ∧ dQ ≤ monthLen (leap .gregorian yQ) mQ := hdQ.1
    have lP : (if leap .julian yP = true then (366 : Int) else 365) ≤ 366 := by split <;> omega
    have lQ : (if leap .gregorian yQ = true then (366 : Int) else 365) ≤ 366 := by split <;> omega
    simp only [bind, pure, hcP, hcQ, hatP, hatQ, Option.bind_some]
    -- the ordinal handed to JULIAN.get_jdn
    have hord : reformOrdinal ⟨Calendar.gregorian, yQ, daysBefore (leap .gregorian yQ) mQ + dQ, mQ, dQ, dQ, R⟩
        = some (if (yQ.tmod 100 == 0 && yQ.tmod 400 != 0 && Month.february.lt mQ) = true
          then daysBefore (leap .gregorian yQ) mQ + dQ + 1
          else daysBefore (leap .gregorian yQ) mQ + dQ) := by
      simp only [reformOrdinal]
      split
      · exact u32_some (by omega) (by omega)
      · rfl
    rw [hord]
    simp only [Option.bind_some]
    have hadj := julian_ordinal_adjust yQ mQ
    have hordJ : (if (yQ.tmod 100 == 0 && yQ.tmod 400 != 0 && Month.february.lt mQ) = true
          then daysBefore (leap .gregorian yQ) mQ + dQ + 1
          else daysBefore (leap .gregorian yQ) mQ + dQ)
        = daysBefore (leap .julian yQ) mQ + dQ := by
      rw [hadj]; split <;> omega
    rw [hordJ]
    have hbq := daysBefore_bounds (leap .julian yQ) mQ
    have hmono := Reform.monthLen_G_le_J yQ mQ
    have h366 : daysBefore (leap .julian yQ) mQ + dQ ≤ 366 := by
      have : (if leap .julian yQ = true then (366 : Int) else 365) ≤ 366 := by split <;> omega
      omega
    have hgj : getJdn .julian yQ (daysBefore (leap .julian yQ) mQ + dQ)
        = some (Calendar.julian.getJdn yQ (daysBefore (leap .julian yQ) mQ + dQ)) := by
      simp only [getJdn, Calendar.getJdn, Calendar.gap, bind, pure, Option.bind_some, if_true]
      exact julian2jdn_eq yQ _ (by omega) (by omega)
    rw [hgj]
    simp only [Option.bind_some]
    have hg := ruleCal_getJdn .julian yQ (daysBefore (leap .julian yQ) mQ + dQ) hyQ.1 (by omega) h366
    simp only [ruleCal] at hg
    cases hgm : Calendar.julian.getJdn yQ (daysBefore (leap .julian yQ) mQ + dQ) with
    | none => rfl
    | some date =>
      simp only
      split
      · rfl
      · rename_i hdate
        rw [hgm] at hg
        have hdv : date = yearStart .julian yQ + (daysBefore (leap .julian yQ) mQ + dQ) - 1 := by
          split at hg
          · injection hg
          · cases hg
        let rf : Reform := ⟨R, yP, mP, dP, yQ, mQ, dQ, hdP, hdQ, by simp only [jdnOf]; omega⟩
        have hle : yP ≤ yQ := rf.yP_le_yQ
        have hoo : yP = yQ → (daysBefore (leap .julian yP) mP + dP) + 1
            ≤ daysBefore (leap .gregorian yQ) mQ + dQ := fun e => (rf.ordinal_order e).2
        rw [gapKindForDates_eq yP mP yQ mQ (by omega) (by omega)]
        simp only [Option.bind_some]
        by_cases e : yP = yQ
        · have := hoo e
          by_cases e2 : mP = mQ
          · have hk : GapKind.forDates yP mP yQ mQ = .intraMonth := by simp [GapKind.forDates, e, e2]
            simp only [hk]
            rw [u32_some (by omega) (by omega), Option.bind_some, u32_some (by omega) (by omega),
              Option.bind_some, u32_some (by omega) (by omega), Option.bind_some,
              u32_some (by omega) (by omega)]
            rfl
          · have hk : GapKind.forDates yP mP yQ mQ = .crossMonth := by simp [GapKind.forDates, e, e2]
            simp only [hk]
            rw [u32_some (by omega) (by omega), Option.bind_some, u32_some (by omega) (by omega),
              Option.bind_some, u32_some (by omega) (by omega), Option.bind_some,
              u32_some (by omega) (by omega)]
            rfl
        · by_cases e3 : yP + 1 = yQ
          · have hk : GapKind.forDates yP mP yQ mQ = .crossYear := by simp [GapKind.forDates, e, e3]
            simp only [hk]
            rw [u32_some (by omega) (by omega)]
            rfl
          · have hk : GapKind.forDates yP mP yQ mQ = .multiYear := by simp [GapKind.forDates, e, e3]
            simp only [hk]
            rw [u32_some (by omega) (by omega)]
            rfl

/-- the boundary-date accessors -/
theorem firstGregorianDate_eq (c : Calendar) (hc : WF c) :
    firstGregorianDate c = some c.firstGregorianDate := by
  rcases hc.cases with rfl | rfl | ⟨rf, rfl, _, _⟩
  · rfl
  · rfl
  · have vP := rf.validP
    have := monthLen_bounds (leap .julian rf.yP) rf.mP
    simp only [Reform.cal, firstGregorianDate, Calendar.firstGregorianDate, bind, pure]
    split
    · rw [u32_some (by simp only [mkGap]; omega) (by simp only [mkGap]; omega)]; rfl
    · rfl

theorem lastJulianDate_eq (c : Calendar) (hc : WF c) :
    lastJulianDate c = some c.lastJulianDate := by
  rcases hc.cases with rfl | rfl | ⟨rf, rfl, hR, hR1⟩
  · rfl
  · rfl
  · simp only [InI32] at hR1
    simp only [Reform.cal, lastJulianDate, Calendar.lastJulianDate, bind, pure]
    rw [i32_some (by omega) (by omega)]; rfl

/-! ### timestamps and weekdays -/

theorem unix2jdn_eq (t : Int) (ht : InI64 t) : unix2jdn t = some (JV.unix2jdn t) := by
  simp only [InI64] at ht
  simp only [unix2jdn, JV.unix2jdn, bind, pure]
  rw [i64_some (by omega) (by omega), Option.bind_some, i64_some (by omega) (by omega),
    Option.bind_some]
  by_cases hc : inI32 (t / 86400 + 2440588) = true
  · have hc' := hc
    simp only [inI32, Bool.and_eq_true, decide_eq_true_eq] at hc'
    have hd : (decide (-2147483648 ≤ t / 86400 + 2440588) && decide (t / 86400 + 2440588 ≤ 2147483647)) = true := by
      simp; omega
    simp only [hd, hc, if_true]
    rw [i32_some hc'.1 hc'.2, Option.bind_some, i64_some (by omega) (by omega), Option.bind_some,
      u32_some (by omega) (by omega)]
    rfl
  · have hc' := hc
    simp only [inI32, Bool.and_eq_true, decide_eq_true_eq] at hc'
    have hd : (decide (-2147483648 ≤ t / 86400 + 2440588) && decide (t / 86400 + 2440588 ≤ 2147483647)) = false := by
      simp; omega
    simp only [hd, hc, Bool.false_eq_true, if_false]

theorem jdn2unix_eq (j : Int) (hj : InI32 j) : jdn2unix j = some (JV.jdn2unix j) := by
  simp only [InI32] at hj
  simp only [jdn2unix, JV.jdn2unix, bind]
  rw [i64_some (by omega) (by omega), Option.bind_some, i64_some (by omega) (by omega)]

/-- `system2jdn`: `secs` is a `u64`, `nanos` a sub-second count -/
theorem system2jdn_eq (before : Bool) (secs nanos : Int) (hs : 0 ≤ secs) :
    system2jdn before secs nanos = some (JV.system2jdn before secs nanos) := by
  simp only [system2jdn, JV.system2jdn, bind, pure]
  split
  · rfl
  · rename_i hle
    cases before
    · simp only [Bool.false_eq_true, if_false]
      exact unix2jdn_eq secs (by simp only [InI64]; omega)
    · simp only [if_true]
      rw [i64_some (by omega) (by omega), Option.bind_some]
      split
      · rw [i64_some (by omega) (by omega), Option.bind_some]
        exact unix2jdn_eq _ (by simp only [InI64]; omega)
      · simp only [Option.bind_some]
        exact unix2jdn_eq _ (by simp only [InI64]; omega)

theorem weekdayForJdn_eq (j : Int) : weekdayForJdn j = Weekday.forJdn? j := by
  simp only [weekdayForJdn, Weekday.forJdn?, bind]
  rw [i32_some (by omega) (by omega), Option.bind_some, i32_some (by omega) (by omega),
    Option.bind_some]

theorem ordinal0_eq (d : Date) (h : 1 ≤ d.ordinal) (h2 : d.ordinal ≤ 366) :
    ordinal0 d = some d.ordinal0 := by
  simp only [ordinal0, Date.ordinal0]; exact u32_some (by omega) (by omega)

theorem dayOrdinal0_eq (d : Date) (h : 1 ≤ d.dayOrdinal) (h2 : d.dayOrdinal ≤ 31) :
    dayOrdinal0 d = some d.dayOrdinal0 := by
  simp only [dayOrdinal0, Date.dayOrdinal0]; exact u32_some (by omega) (by omega)

/-! ### `Dates::new` -/

theorem trimStart_eq (s : MonthShape) : ∀ (fuel : Nat) (start stop : Int), 0 ≤ start →
    stop ≤ 4294967294 → trimStart s fuel start stop = some (Dates.trimStart s fuel start stop) := by
  intro fuel
  induction fuel with
  | zero => intro start stop _ _; rfl
  | succ n ih =>
    intro start stop h0 h1
    simp only [trimStart, Dates.trimStart]
    split
    · rename_i hc
      simp only [Bool.and_eq_true, decide_eq_true_eq] at hc
      simp only [bind]
      rw [u32_some (by omega) (by omega), Option.bind_some]
      exact ih (start + 1) stop (by omega) h1
    · rfl

theorem trimEnd_eq (s : MonthShape) : ∀ (fuel : Nat) (start stop : Int), 1 ≤ start →
    stop ≤ 4294967295 → trimEnd s fuel start stop = some (Dates.trimEnd s fuel start stop) := by
  intro fuel
  induction fuel with
  | zero => intro start stop _ _; rfl
  | succ n ih =>
    intro start stop h0 h1
    simp only [trimEnd, Dates.trimEnd]
    split
    · rename_i hc
      simp only [Bool.and_eq_true, decide_eq_true_eq] at hc
      simp only [bind]
      rw [u32_some (by omega) (by omega), Option.bind_some]
      exact ih start (stop - 1) h0 (by omega)
    · rfl

theorem trimStart_ge (s : MonthShape) : ∀ (fuel : Nat) (start stop : Int),
    start ≤ Dates.trimStart s fuel start stop := by
  intro fuel
  induction fuel with
  | zero => intro start stop; exact Int.le_refl _
  | succ n ih =>
    intro start stop
    simp only [Dates.trimStart]
    split
    · have := ih (start + 1) stop; omega
    · exact Int.le_refl _

end Chk
end JV
