/-
Lemmas/Shapes.lean — the algebra of `MonthShape`'s methods over a valid shape: all of them
describe one set of days, `days s = [nth_day 1, …, nth_day len]`.
-/
import JulianVerif.Lemmas.Accept
set_option linter.unusedSimpArgs false
namespace JV

namespace IShape

/-- last day the month would naturally have -/
def naturalMax : IShape → Int
  | normal L => L
  | headless _ L => L
  | tailless _ N => N
  | gapped _ _ L => L

/-- shapes as `month_shape` produces them: valid, non-empty, and a reported gap is a real,
non-empty range of removed days -/
def Proper : IShape → Prop
  | normal L => 1 ≤ L
  | headless a L => 2 ≤ a ∧ a ≤ L
  | tailless L N => 1 ≤ L ∧ L < N
  | gapped gs ge L => 2 ≤ gs ∧ gs ≤ ge ∧ ge < L

theorem Proper.valid {s : IShape} (h : s.Proper) : s.Valid := by
  cases s <;> simp only [Proper, Valid] at * <;> omega

theorem Proper.len_pos {s : IShape} (h : s.Proper) : 1 ≤ s.len := by
  cases s <;> simp only [Proper, len] at * <;> omega

/-- membership: `contains d` iff `d` is one of the `nth_day`s -/
theorem contains_iff (s : IShape) (hv : s.Valid) (d : Int) (hd : 0 ≤ d) :
    s.contains d = true ↔ ∃ k, 1 ≤ k ∧ s.nthDay k = some d := by
  constructor
  · intro h
    cases s with
    | normal L =>
      simp only [contains, Bool.and_eq_true, decide_eq_true_eq] at h
      exact ⟨d, h.1, by simp [nthDay, h]⟩
    | tailless L N =>
      simp only [contains, Bool.and_eq_true, decide_eq_true_eq] at h
      exact ⟨d, h.1, by simp [nthDay, h]⟩
    | headless a L =>
      simp only [Valid] at hv
      simp only [contains, Bool.and_eq_true, decide_eq_true_eq] at h
      refine ⟨d - a + 1, by omega, ?_⟩
      have c : (decide (1 ≤ d - a + 1) && decide (d - a + 1 ≤ L - a + 1)) = true := by simp; omega
      simp only [nthDay, c, if_true]; congr 1; omega
    | gapped gs ge L =>
      simp only [Valid] at hv
      simp only [contains, Bool.and_eq_true, decide_eq_true_eq, Bool.not_eq_true', Bool.and_eq_false_iff,
        decide_eq_false_iff_not] at h
      by_cases c : d < gs
      · refine ⟨d, h.1.1, ?_⟩
        have h0 : (d == 0) = false := by simp; omega
        simp [nthDay, h0, c]
      · have hge : ge < d := by rcases h.2 with x | x <;> omega
        refine ⟨d - (ge - gs + 1), by omega, ?_⟩
        have h0 : (d - (ge - gs + 1) == 0) = false := by simp; omega
        have n1 : ¬ d - (ge - gs + 1) < gs := by omega
        have n2 : ¬ d - (ge - gs + 1) > L := by omega
        have n3 : d - (ge - gs + 1) + (ge - gs + 1) ≤ L := by omega
        simp only [nthDay, h0, Bool.false_eq_true, if_false, n1, n2, n3, if_true]
        congr 1; omega
  · rintro ⟨k, hk, h⟩
    have hdo := s.dayOrdinalErr_of_nthDay hv 0 .january k d hk h
    cases s with
    | normal L =>
      simp only [dayOrdinalErr] at hdo
      split at hdo
      · rename_i hc; simpa [contains] using hc
      · cases hdo
    | tailless L N =>
      simp only [dayOrdinalErr] at hdo
      split at hdo
      · rename_i hc; simpa [contains] using hc
      · split at hdo <;> cases hdo
    | headless a L =>
      simp only [dayOrdinalErr] at hdo
      split at hdo
      · rename_i hc; simpa [contains] using hc
      · split at hdo <;> cases hdo
    | gapped gs ge L =>
      simp only [Valid] at hv
      simp only [dayOrdinalErr] at hdo
      split at hdo
      · cases hdo
      · rename_i hc
        simp only [Bool.or_eq_true, beq_iff_eq, decide_eq_true_eq, not_or] at hc
        split at hdo
        · rename_i c1
          simp only [contains, Bool.and_eq_true, decide_eq_true_eq, Bool.not_eq_true',
            Bool.and_eq_false_iff, decide_eq_false_iff_not]
          exact ⟨⟨by omega, by omega⟩, Or.inl (by omega)⟩
        · split at hdo
          · cases hdo
          · rename_i c1 c2
            simp only [contains, Bool.and_eq_true, decide_eq_true_eq, Bool.not_eq_true',
              Bool.and_eq_false_iff, decide_eq_false_iff_not]
            exact ⟨⟨by omega, by omega⟩, Or.inr (by omega)⟩

/-- the first and last existing days are the first and last `nth_day` -/
theorem first_last (s : IShape) (h : s.Proper) :
    s.nthDay 1 = some s.firstDay ∧ s.nthDay s.len = some s.lastDay := by
  cases s with
  | normal L =>
    simp only [Proper] at h
    have c1 : (decide ((1:Int) ≤ 1) && decide (1 ≤ L)) = true := by simp; omega
    have c2 : (decide (1 ≤ L) && decide (L ≤ L)) = true := by simp; omega
    refine ⟨?_, ?_⟩
    · simp only [nthDay, firstDay, c1, if_true]
    · show (normal L).nthDay L = some L
      simp only [nthDay]; rw [if_pos c2]
  | tailless L N =>
    simp only [Proper] at h
    have c1 : (decide ((1:Int) ≤ 1) && decide (1 ≤ L)) = true := by simp; omega
    have c2 : (decide (1 ≤ L) && decide (L ≤ L)) = true := by simp; omega
    refine ⟨?_, ?_⟩
    · simp only [nthDay, firstDay, c1, if_true]
    · show (tailless L N).nthDay L = some L
      simp only [nthDay]; rw [if_pos c2]
  | headless a L =>
    simp only [Proper] at h
    have c1 : (decide ((1:Int) ≤ 1) && decide (1 ≤ L - a + 1)) = true := by simp; omega
    have c2 : (decide (1 ≤ L - a + 1) && decide (L - a + 1 ≤ L - a + 1)) = true := by simp; omega
    refine ⟨?_, ?_⟩
    · simp only [nthDay, firstDay]; rw [if_pos c1]; congr 1; omega
    · show (headless a L).nthDay (L - a + 1) = some L
      simp only [nthDay]; rw [if_pos c2]; congr 1; omega
  | gapped gs ge L =>
    simp only [Proper] at h
    have h1 : (1 : Int) < gs := by omega
    have n0 : ((L - (ge - gs + 1) : Int) == 0) = false := by simp; omega
    have n1 : ¬ L - (ge - gs + 1) < gs := by omega
    have n2 : ¬ L - (ge - gs + 1) > L := by omega
    have n3 : L - (ge - gs + 1) + (ge - gs + 1) ≤ L := by omega
    refine ⟨?_, ?_⟩
    · simp [nthDay, firstDay, h1]
    · show (gapped gs ge L).nthDay (L - (ge - gs + 1)) = some L
      simp only [nthDay, n0, n1, n2, n3, if_true, if_false, Bool.false_eq_true]
      congr 1; omega

/-- **classification of a requested day** (C07): it is a day of the month; or it lies in the
month's natural span and was removed (skipped — this takes precedence); or it is out of
range, reported with the first and last days that do exist -/
theorem dayOrdinalErr_classify (s : IShape) (h : s.Proper) (y : Int) (m : Month) (d : Int) (hd : 0 ≤ d) :
    (s.contains d = true → ∃ k, s.dayOrdinalErr y m d = .ok k ∧ s.nthDay k = some d)
    ∧ (s.contains d = false → 1 ≤ d → d ≤ s.naturalMax → s.dayOrdinalErr y m d = .error (.skippedDate y m d))
    ∧ (s.contains d = false → ¬ (1 ≤ d ∧ d ≤ s.naturalMax) →
        s.dayOrdinalErr y m d = .error (.dayOutOfRange y m d s.firstDay s.lastDay)) := by
  refine ⟨?_, ?_, ?_⟩
  · intro hc
    obtain ⟨k, hk, hn⟩ := (s.contains_iff h.valid d hd).mp hc
    exact ⟨k, s.dayOrdinalErr_of_nthDay h.valid y m k d hk hn, hn⟩
  · intro hc h1 h2
    cases s with
    | normal L =>
      simp only [contains, naturalMax, Bool.and_eq_false_iff, decide_eq_false_iff_not] at hc h2
      omega
    | tailless L N =>
      simp only [Proper] at h
      simp only [contains, naturalMax, Bool.and_eq_false_iff, decide_eq_false_iff_not] at hc h2
      have c1 : (decide (1 ≤ d) && decide (d ≤ L)) = false := by
        simp only [Bool.and_eq_false_iff, decide_eq_false_iff_not]; omega
      have c2 : (decide (L + 1 ≤ d) && decide (d ≤ N)) = true := by simp; omega
      simp only [dayOrdinalErr, c1, c2, Bool.false_eq_true, if_false, if_true]
    | headless a L =>
      simp only [Proper] at h
      simp only [contains, naturalMax, Bool.and_eq_false_iff, decide_eq_false_iff_not] at hc h2
      have c1 : (decide (a ≤ d) && decide (d ≤ L)) = false := by
        simp only [Bool.and_eq_false_iff, decide_eq_false_iff_not]; omega
      have c2 : (decide (1 ≤ d) && decide (d < a)) = true := by simp; omega
      simp only [dayOrdinalErr, c1, c2, Bool.false_eq_true, if_false, if_true]
    | gapped gs ge L =>
      simp only [Proper] at h
      simp only [contains, naturalMax, Bool.and_eq_false_iff, Bool.and_eq_true, decide_eq_false_iff_not,
        decide_eq_true_eq, Bool.not_eq_false'] at hc h2
      have c0 : (d == 0 || decide (d > L)) = false := by simp; omega
      have c1 : ¬ d < gs := by omega
      have c2 : d ≤ ge := by omega
      simp only [dayOrdinalErr, c0, c1, c2, Bool.false_eq_true, if_false, if_true]
  · intro hc hn
    cases s with
    | normal L =>
      simp only [contains, naturalMax] at hc hn
      simp only [dayOrdinalErr, hc, Bool.false_eq_true, if_false, firstDay, lastDay]
    | tailless L N =>
      simp only [Proper] at h
      simp only [contains, naturalMax, Bool.and_eq_false_iff, decide_eq_false_iff_not] at hc hn
      have c1 : (decide (1 ≤ d) && decide (d ≤ L)) = false := by
        simp only [Bool.and_eq_false_iff, decide_eq_false_iff_not]; omega
      have c2 : (decide (L + 1 ≤ d) && decide (d ≤ N)) = false := by
        simp only [Bool.and_eq_false_iff, decide_eq_false_iff_not]; omega
      simp only [dayOrdinalErr, c1, c2, Bool.false_eq_true, if_false, firstDay, lastDay]
    | headless a L =>
      simp only [Proper] at h
      simp only [contains, naturalMax, Bool.and_eq_false_iff, decide_eq_false_iff_not] at hc hn
      have c1 : (decide (a ≤ d) && decide (d ≤ L)) = false := by
        simp only [Bool.and_eq_false_iff, decide_eq_false_iff_not]; omega
      have c2 : (decide (1 ≤ d) && decide (d < a)) = false := by
        simp only [Bool.and_eq_false_iff, decide_eq_false_iff_not]; omega
      simp only [dayOrdinalErr, c1, c2, Bool.false_eq_true, if_false, firstDay, lastDay]
    | gapped gs ge L =>
      simp only [Proper] at h
      simp only [contains, naturalMax] at hc hn
      have c0 : (d == 0 || decide (d > L)) = true := by simp; omega
      simp only [dayOrdinalErr, c0, if_true, firstDay, lastDay]

/-- **the reported gap is exactly the removed part of the natural span, and the kind says
where it lies** (C09) -/
theorem gap_kind (s : IShape) (h : s.Proper) :
    (s.gap = none ↔ s.kind = .normal)
    ∧ (s.gap = none → ∀ d, 1 ≤ d → d ≤ s.naturalMax → s.contains d = true)
    ∧ (∀ a b, s.gap = some (a, b) →
        1 ≤ a ∧ a ≤ b ∧ b ≤ s.naturalMax
        ∧ (∀ d, 1 ≤ d → d ≤ s.naturalMax → (s.contains d = false ↔ (a ≤ d ∧ d ≤ b)))
        ∧ (s.kind = .headless ↔ a = 1) ∧ (s.kind = .tailless ↔ b = s.naturalMax)
        ∧ (s.kind = .gapped ↔ (1 < a ∧ b < s.naturalMax))) := by
  cases s with
  | normal L =>
    refine ⟨by simp [gap, kind], ?_, by simp [gap]⟩
    intro _ d h1 h2; simp only [naturalMax] at h2; simp [contains, h1, h2]
  | headless x L =>
    simp only [Proper] at h
    refine ⟨by simp [gap, kind], by simp [gap], ?_⟩
    intro a b hab
    simp only [gap, Option.some.injEq, Prod.mk.injEq] at hab
    obtain ⟨rfl, rfl⟩ := hab
    simp only [naturalMax, kind, contains, Bool.and_eq_false_iff, decide_eq_false_iff_not]
    refine ⟨by omega, by omega, by omega, ?_, by simp, by simp; omega, by simp⟩
    intro d h1 h2; omega
  | tailless L N =>
    simp only [Proper] at h
    refine ⟨by simp [gap, kind], by simp [gap], ?_⟩
    intro a b hab
    simp only [gap, Option.some.injEq, Prod.mk.injEq] at hab
    obtain ⟨rfl, rfl⟩ := hab
    simp only [naturalMax, kind, contains, Bool.and_eq_false_iff, decide_eq_false_iff_not]
    refine ⟨by omega, by omega, by omega, ?_, by simp; omega, by simp, by simp⟩
    intro d h1 h2; omega
  | gapped gs ge L =>
    simp only [Proper] at h
    refine ⟨by simp [gap, kind], by simp [gap], ?_⟩
    intro a b hab
    simp only [gap, Option.some.injEq, Prod.mk.injEq] at hab
    obtain ⟨rfl, rfl⟩ := hab
    simp only [naturalMax, kind, contains]
    refine ⟨by omega, by omega, by omega, ?_, by simp; omega, by simp; omega, by simp; omega⟩
    intro d h1 h2
    simp only [Bool.and_eq_false_iff, Bool.and_eq_true, decide_eq_false_iff_not, decide_eq_true_eq,
      Bool.not_eq_false']
    omega

end IShape
end JV
