/-
Lemmas/Digits.lean — L6: decimal rendering and reading are inverse.
-/
import JulianVerif.Model.Text
set_option linter.unusedSimpArgs false
namespace JV

theorem toNat_ofNat_small (n : Nat) (h : n < 55296) : (Char.ofNat n).toNat = n := by
  have hv : n.isValidChar := Or.inl h
  simp [Char.ofNat, hv, Char.ofNatAux, Char.toNat]

theorem digitChar_toNat (n : Nat) : (digitChar n).toNat = 48 + n % 10 := by
  simp only [digitChar]
  exact toNat_ofNat_small _ (by omega)

theorem digitVal_digitChar (n : Nat) : digitVal (digitChar n) = n % 10 := by
  simp only [digitVal, digitChar_toNat]; omega

theorem isAsciiDigit_iff (c : Char) : isAsciiDigit c = true ↔ (48 ≤ c.toNat ∧ c.toNat ≤ 57) := by
  simp only [isAsciiDigit, Bool.and_eq_true, decide_eq_true_eq, Char.le_def]
  rfl

theorem isAsciiDigit_digitChar (n : Nat) : isAsciiDigit (digitChar n) = true := by
  rw [isAsciiDigit_iff, digitChar_toNat]; omega

theorem digitsVal_append (ds es : List Char) (a : Nat) :
    digitsVal (ds ++ es) a = digitsVal es (digitsVal ds a) := by
  induction ds generalizing a with
  | nil => rfl
  | cons c cs ih => simp only [List.cons_append, digitsVal]; exact ih _

/-- the digits produced for `n`, in front of any accumulator: all ASCII digits, not empty,
and they read back as `n` -/
theorem digitsFuel_spec : ∀ (fuel n : Nat) (acc : List Char), n ≤ fuel →
    ∃ ds, digitsFuel (fuel + 1) n acc = ds ++ acc ∧ ds ≠ [] ∧ (∀ c ∈ ds, isAsciiDigit c = true)
      ∧ (∀ a, digitsVal ds a = a * 10 ^ ds.length + n) := by
  intro fuel
  induction fuel with
  | zero =>
    intro n acc hn
    have : n = 0 := by omega
    subst this
    refine ⟨[digitChar 0], by simp [digitsFuel], by simp, ?_, ?_⟩
    · intro c hc; simp only [List.mem_singleton] at hc; subst hc; exact isAsciiDigit_digitChar 0
    · intro a; simp [digitsVal, digitVal_digitChar]
  | succ f ih =>
    intro n acc hn
    by_cases h0 : n / 10 = 0
    · refine ⟨[digitChar n], by simp [digitsFuel, h0], by simp, ?_, ?_⟩
      · intro c hc; simp only [List.mem_singleton] at hc; subst hc; exact isAsciiDigit_digitChar n
      · intro a
        simp only [digitsVal, digitVal_digitChar, List.length_singleton, Nat.pow_one]
        omega
    · obtain ⟨ds, h1, h2, h3, h4⟩ := ih (n / 10) (digitChar n :: acc) (by omega)
      refine ⟨ds ++ [digitChar n], ?_, by simp, ?_, ?_⟩
      · conv => lhs; rw [digitsFuel]
        rw [if_neg h0, h1]; simp
      · intro c hc
        simp only [List.mem_append, List.mem_singleton] at hc
        rcases hc with hc | hc
        · exact h3 c hc
        · subst hc; exact isAsciiDigit_digitChar n
      · intro a
        rw [digitsVal_append, h4]
        simp only [digitsVal, digitVal_digitChar, List.length_append, List.length_singleton, Nat.pow_succ]
        have : n = 10 * (n / 10) + n % 10 := by omega
        generalize 10 ^ ds.length = p
        generalize n / 10 = q at *
        generalize n % 10 = r at *
        subst this
        simp only [Nat.add_mul, Nat.mul_assoc]
        omega

theorem natDigits_spec (n : Nat) :
    natDigits n ≠ [] ∧ (∀ c ∈ natDigits n, isAsciiDigit c = true) ∧ digitsVal (natDigits n) 0 = n := by
  obtain ⟨ds, h1, h2, h3, h4⟩ := digitsFuel_spec n n [] (Nat.le_refl n)
  simp only [natDigits, h1, List.append_nil]
  refine ⟨h2, h3, ?_⟩
  rw [h4]; simp

theorem padNat_spec (w n : Nat) :
    padNat w n ≠ [] ∧ (∀ c ∈ padNat w n, isAsciiDigit c = true) ∧ digitsVal (padNat w n) 0 = n := by
  obtain ⟨h1, h2, h3⟩ := natDigits_spec n
  simp only [padNat]
  refine ⟨by simp [h1], ?_, ?_⟩
  · intro c hc
    simp only [List.mem_append, List.mem_replicate] at hc
    rcases hc with ⟨_, hc⟩ | hc
    · subst hc; decide
    · exact h2 c hc
  · rw [digitsVal_append]
    have : ∀ k, digitsVal (List.replicate k '0') 0 = 0 := by
      intro k; induction k with
      | zero => rfl
      | succ k ih => simp only [List.replicate_succ, digitsVal]; exact ih
    rw [this, h3]

/-- `scan` over a block of digits followed by a non-digit (or the end) splits exactly there -/
theorem spanDigits_append (ds rest : List Char) (hd : ∀ c ∈ ds, isAsciiDigit c = true)
    (hr : ∀ c cs, rest = c :: cs → isAsciiDigit c = false) :
    spanDigits (ds ++ rest) = (ds, rest) := by
  induction ds with
  | nil =>
    simp only [List.nil_append]
    cases rest with
    | nil => rfl
    | cons c cs => simp [spanDigits, hr c cs rfl]
  | cons d ds ih =>
    have hd' : ∀ c ∈ ds, isAsciiDigit c = true := fun c hc => hd c (List.mem_cons_of_mem _ hc)
    simp only [List.cons_append, spanDigits, hd d (List.mem_cons_self), if_true, ih hd']

end JV
