/-
Lemmas/JsonValid.lean — the `-J` output of the julian command is a JSON document
(Spec/Json.lean) and denotes the calendar and the dates it reports.

Layers: (1) `{}` of an integer is a JSON number with that value (from core's lemmas about
`Nat.toDigits`); (2) layout lemmas: members / elements printed one after the other with the
command's indentation form `Members` / `Elems`; (3) the character lists of `date2json`,
`jsonStart` and of the patched, newline-joined output; (4) assembly.
-/
import JulianVerif.Spec.Json
import JulianVerif.Lemmas.CliSpec
set_option linter.unusedSimpArgs false
namespace JV.Json
open JV Cli

/-! ### (1) numbers -/

theorem digitChar_lt10 (k : Nat) (h : k < 10) :
    isAsciiDigit (Nat.digitChar k) = true ∧ digitVal (Nat.digitChar k) = k
      ∧ (Nat.digitChar k = '0' ↔ k = 0) := by
  have : k = 0 ∨ k = 1 ∨ k = 2 ∨ k = 3 ∨ k = 4 ∨ k = 5 ∨ k = 6 ∨ k = 7 ∨ k = 8 ∨ k = 9 := by omega
  rcases this with h | h | h | h | h | h | h | h | h | h <;> subst h <;> decide

/-- the decimal digits `{}` prints: all digits, no leading zero except for 0 itself, and they
read back as the number -/
theorem toDigits_spec (n : Nat) :
    (∀ c ∈ Nat.toDigits 10 n, isAsciiDigit c = true)
    ∧ digitsVal (Nat.toDigits 10 n) 0 = n
    ∧ (∃ c cs, Nat.toDigits 10 n = c :: cs ∧ (c = '0' → n = 0 ∧ cs = [])) := by
  induction n using Nat.strongRecOn with
  | _ n ih =>
    rw [Nat.toDigits_eq_if (by decide : 1 < 10)]
    by_cases hn : n < 10
    · simp only [hn, if_true]
      obtain ⟨h1, h2, h3⟩ := digitChar_lt10 n hn
      refine ⟨?_, ?_, ?_⟩
      · intro c hc; simp only [List.mem_singleton] at hc; subst hc; exact h1
      · simp [digitsVal, h2]
      · exact ⟨_, [], rfl, fun h => ⟨h3.mp h, rfl⟩⟩
    · simp only [hn, if_false]
      have hlt : n / 10 < n := by omega
      obtain ⟨i1, i2, c, cs, i3, i4⟩ := ih (n / 10) hlt
      obtain ⟨h1, h2, _⟩ := digitChar_lt10 (n % 10) (by omega)
      refine ⟨?_, ?_, ?_⟩
      · intro x hx
        simp only [List.mem_append, List.mem_singleton] at hx
        rcases hx with hx | hx
        · exact i1 x hx
        · subst hx; exact h1
      · rw [digitsVal_append, i2]
        simp [digitsVal, h2]; omega
      · refine ⟨c, cs ++ [Nat.digitChar (n % 10)], by rw [i3]; rfl, ?_⟩
        intro hc
        have := (i4 hc).1
        omega

theorem natTok_toDigits (n : Nat) : natTok (Nat.toDigits 10 n) = true := by
  obtain ⟨h1, _, c, cs, h3, h4⟩ := toDigits_spec n
  simp only [natTok, Bool.or_eq_true]
  by_cases hc : c = '0'
  · left
    obtain ⟨_, hcs⟩ := h4 hc
    rw [h3, hc, hcs]; rfl
  · right
    rw [h3]
    simp only [Bool.and_eq_true, bne_iff_ne, ne_eq, hc, not_false_eq_true, true_and]
    rw [← h3, List.all_eq_true]
    exact h1

/-- **`{}` of an integer is a JSON number denoting that integer** -/
theorem intTok_toString (i : Int) : IntTok i (toString i).toList := by
  rw [Int.toString_eq_repr, Int.repr_eq_if]
  by_cases h : 0 ≤ i
  · simp only [h, if_true, Nat.toList_repr]
    have := IntTok.pos (natTok_toDigits i.toNat)
    rw [(toDigits_spec i.toNat).2.1] at this
    have e : ((i.toNat : Nat) : Int) = i := by omega
    rw [e] at this; exact this
  · simp only [h, if_false, String.toList_append, Nat.toList_repr]
    have := IntTok.neg (natTok_toDigits (-i).toNat)
    rw [(toDigits_spec (-i).toNat).2.1] at this
    have e : -(((-i).toNat : Nat) : Int) = i := by omega
    rw [e] at this
    simpa using this

/-! ### (2) layout -/

theorem ws_nil : Ws [] := by intro c hc; cases hc
theorem ws_replicate (n : Nat) : Ws (List.replicate n ' ') := by
  intro c hc; rw [List.mem_replicate] at hc; rw [hc.2]; rfl
theorem ws_nl (n : Nat) : Ws ('\n' :: List.replicate n ' ') := by
  intro c hc
  rcases List.mem_cons.mp hc with h | h
  · rw [h]; rfl
  · exact ws_replicate n c h

theorem plain_of_all {l : List Char} (h : l.all unescaped = true) : Plain l := by
  intro c hc; exact List.all_eq_true.mp h c hc

/-- a member as the command prints it: indentation, then `"key": value` -/
def memberText (ind k t : List Char) : List Char := ind ++ '"' :: k ++ '"' :: ':' :: ' ' :: t

/-- members printed one after the other, a comma after each but the last; an entry is
(key, value, the text the value is printed as) -/
def joinMembers (ind : List Char) : List (List Char × Val × List Char) → List Char
  | [] => []
  | x :: [] => memberText ind x.1 x.2.2
  | x :: y :: r => memberText ind x.1 x.2.2 ++ ',' :: joinMembers ind (y :: r)

theorem members_join (ind wEnd : List Char) (hi : Ws ind) (he : Ws wEnd) :
    ∀ (l : List (List Char × Val × List Char)), l ≠ [] →
      (∀ x ∈ l, Plain x.1 ∧ Text x.2.1 x.2.2) →
      Members (l.map fun x => (x.1, x.2.1)) (joinMembers ind l ++ wEnd)
  | [], h, _ => absurd rfl h
  | x :: [], _, h => by
    obtain ⟨hk, ht⟩ := h x (by simp)
    have := Members.one (w2 := []) (w3 := [' ']) hi hk ws_nil (ws_replicate 1) ht he
    simpa [joinMembers, memberText, List.append_assoc] using this
  | x :: y :: r, _, h => by
    obtain ⟨hk, ht⟩ := h x (by simp)
    have ih := members_join ind wEnd hi he (y :: r) (by simp) (fun z hz => h z (by simp [hz]))
    have := Members.cons (w2 := []) (w3 := [' ']) (w4 := []) hi hk ws_nil (ws_replicate 1) ht ws_nil ih
    simpa [joinMembers, memberText, List.append_assoc] using this

/-- array elements printed one after the other, each after `w`, a comma after each but the
last; an entry is (value, the text it is printed as) -/
def joinElems (w : List Char) : List (Val × List Char) → List Char
  | [] => []
  | x :: [] => w ++ x.2
  | x :: y :: r => w ++ x.2 ++ ',' :: joinElems w (y :: r)

theorem elems_join (w wEnd : List Char) (hw : Ws w) (he : Ws wEnd) :
    ∀ (l : List (Val × List Char)), l ≠ [] → (∀ x ∈ l, Text x.1 x.2) →
      Elems (l.map (·.1)) (joinElems w l ++ wEnd)
  | [], h, _ => absurd rfl h
  | x :: [], _, h => by
    have := Elems.one hw (h x (by simp)) he
    simpa [joinElems, List.append_assoc] using this
  | x :: y :: r, _, h => by
    have ih := elems_join w wEnd hw he (y :: r) (by simp) (fun z hz => h z (by simp [hz]))
    have := Elems.cons (w2 := []) hw (h x (by simp)) ws_nil ih
    simpa [joinElems, List.append_assoc] using this

/-! ### (3) the values and the texts of the command's objects -/

def ind4 : List Char := '\n' :: List.replicate 4 ' '
def ind8 : List Char := '\n' :: List.replicate 8 ' '
def ind12 : List Char := '\n' :: List.replicate 12 ' '

def intM (k : String) (i : Int) : List Char × Val × List Char :=
  (k.toList, .int i, (toString i).toList)
def strM (k : String) (s : List Char) : List Char × Val × List Char :=
  (k.toList, .str s, '"' :: s ++ ['"'])
def boolM (k : String) (b : Bool) : List Char × Val × List Char :=
  (k.toList, .bool b, if b then ['t', 'r', 'u', 'e'] else ['f', 'a', 'l', 's', 'e'])

/-- the members of a date object, each with the text its value is printed as -/
def dateMembers (d : Date) : List (List Char × Val × List Char) :=
  [ intM "julian_day_number" d.jdn, intM "year" d.year, intM "month" d.month.number,
    intM "day" d.day, intM "ordinal" d.ordinal,
    strM "display" (JV.fmtDate d), strM "ordinal_display" (fmtDateAlt d) ]
  ++ (if d.calendar.isReforming then [boolM "old_style" d.isJulian] else [])

/-- **the JSON value of a date object** -/
def dateVal (d : Date) : Val := .obj ((dateMembers d).map fun x => (x.1, x.2.1))

/-- the text of a date object, without the indentation in front of it -/
def dateObjText (d : Date) : List Char :=
  '{' :: (joinMembers ind12 (dateMembers d) ++ ind8) ++ ['}']

theorem toString_str (s : String) : toString s = s := rfl

set_option maxRecDepth 8000 in
theorem date2json_chars (d : Date) :
    (date2json d).toList = List.replicate 8 ' ' ++ dateObjText d := by
  unfold date2json
  simp only [toString_str, String.toList_append, sp, String.toList_ofList]
  unfold dateObjText dateMembers intM strM boolM ind12 ind8
  cases d.calendar.isReforming <;> cases d.isJulian
  · simp only [if_false, Bool.false_eq_true, List.append_nil]
    unfold joinMembers joinMembers joinMembers joinMembers joinMembers joinMembers joinMembers memberText
    simp [List.append_assoc]
  · simp only [if_false, Bool.false_eq_true, List.append_nil]
    unfold joinMembers joinMembers joinMembers joinMembers joinMembers joinMembers joinMembers memberText
    simp [List.append_assoc]
  · simp only [if_true, if_false, Bool.false_eq_true, List.cons_append, List.nil_append]
    unfold joinMembers joinMembers joinMembers joinMembers joinMembers joinMembers joinMembers joinMembers memberText
    simp [List.append_assoc, String.toList_append]
  · simp only [if_true, List.cons_append, List.nil_append]
    unfold joinMembers joinMembers joinMembers joinMembers joinMembers joinMembers joinMembers joinMembers memberText
    simp [List.append_assoc, String.toList_append]

theorem unescaped_of_digit_or_dash (c : Char) (h : isAsciiDigit c = true ∨ c = '-') :
    unescaped c = true := by
  rcases h with h | h
  · rw [isAsciiDigit_iff] at h
    simp only [unescaped, Bool.and_eq_true, decide_eq_true_eq, bne_iff_ne, ne_eq]
    refine ⟨⟨by omega, ?_⟩, ?_⟩
    · intro e; rw [e] at h; simp at h
    · intro e; rw [e] at h; simp at h
  · subst h; decide

theorem text_intM (k : String) (i : Int) : Text (intM k i).2.1 (intM k i).2.2 :=
  Text.int (intTok_toString i)

theorem text_boolM (k : String) (b : Bool) : Text (boolM k b).2.1 (boolM k b).2.2 := by
  cases b
  · exact Text.fls
  · exact Text.tru

theorem text_strM (k : String) (s : List Char) (h : Plain s) : Text (strM k s).2.1 (strM k s).2.2 :=
  Text.str h

/-- the display strings are plain: digits and '-' only -/
theorem fmt_plain (d : Date) : Plain (JV.fmtDate d) ∧ Plain (fmtDateAlt d) := by
  have hy : ∀ c ∈ fmtYear d.year, isAsciiDigit c = true ∨ c = '-' := by
    intro c hc
    simp only [fmtYear] at hc
    split at hc
    · simp only [List.mem_cons] at hc
      rcases hc with rfl | hc
      · exact Or.inr rfl
      · exact Or.inl ((padNat_spec 4 _).2.1 c hc)
    · exact Or.inl ((padNat_spec 4 _).2.1 c hc)
  constructor
  · intro c hc
    apply unescaped_of_digit_or_dash
    simp only [JV.fmtDate, List.mem_append, List.mem_singleton] at hc
    rcases hc with (((hc | rfl) | hc) | rfl) | hc
    · exact hy c hc
    · exact Or.inr rfl
    · exact Or.inl ((padNat_spec 2 _).2.1 c hc)
    · exact Or.inr rfl
    · exact Or.inl ((padNat_spec 2 _).2.1 c hc)
  · intro c hc
    apply unescaped_of_digit_or_dash
    simp only [fmtDateAlt, List.mem_append, List.mem_singleton] at hc
    rcases hc with (hc | rfl) | hc
    · exact hy c hc
    · exact Or.inr rfl
    · exact Or.inl ((padNat_spec 3 _).2.1 c hc)

theorem ok_intM (k : String) (i : Int) (hk : k.toList.all unescaped = true) :
    Plain (intM k i).1 ∧ Text (intM k i).2.1 (intM k i).2.2 := ⟨plain_of_all hk, text_intM k i⟩
theorem ok_strM (k : String) (s : List Char) (hk : k.toList.all unescaped = true) (h : Plain s) :
    Plain (strM k s).1 ∧ Text (strM k s).2.1 (strM k s).2.2 := ⟨plain_of_all hk, text_strM k s h⟩
theorem ok_boolM (k : String) (b : Bool) (hk : k.toList.all unescaped = true) :
    Plain (boolM k b).1 ∧ Text (boolM k b).2.1 (boolM k b).2.2 := ⟨plain_of_all hk, text_boolM k b⟩

/-- **a date object is a JSON object denoting `dateVal d`** -/
theorem text_dateObj (d : Date) : Text (dateVal d) (dateObjText d) := by
  unfold dateVal dateObjText
  apply Text.obj
  apply members_join ind12 ind8 (ws_nl 12) (ws_nl 8)
  · simp [dateMembers]
  · intro x hx
    simp only [dateMembers, List.mem_append, List.mem_cons, List.not_mem_nil, or_false] at hx
    rcases hx with (rfl | rfl | rfl | rfl | rfl | rfl | rfl) | hx
    · exact ok_intM _ _ (by decide)
    · exact ok_intM _ _ (by decide)
    · exact ok_intM _ _ (by decide)
    · exact ok_intM _ _ (by decide)
    · exact ok_intM _ _ (by decide)
    · exact ok_strM _ _ (by decide) (fmt_plain d).1
    · exact ok_strM _ _ (by decide) (fmt_plain d).2
    · split at hx
      · simp only [List.mem_singleton] at hx; subst hx
        exact ok_boolM _ _ (by decide)
      · cases hx

/-- the name `json_start` prints for the calendar -/
def calTypeName : Calendar → List Char
  | .julian => "julian".toList
  | .gregorian => "gregorian".toList
  | .reforming _ _ => "reforming".toList

def calMembers (c : Calendar) : List (List Char × Val × List Char) :=
  strM "type" (calTypeName c) ::
    (match c with
     | .reforming r _ => [intM "reformation" r]
     | _ => [])

/-- **the JSON value of the calendar object** -/
def calVal (c : Calendar) : Val := .obj ((calMembers c).map fun x => (x.1, x.2.1))

def calObjText (c : Calendar) : List Char :=
  '{' :: (joinMembers ind8 (calMembers c) ++ ind4) ++ ['}']

theorem text_calObj (c : Calendar) : Text (calVal c) (calObjText c) := by
  unfold calVal calObjText
  apply Text.obj
  apply members_join ind8 ind4 (ws_nl 8) (ws_nl 4)
  · simp [calMembers]
  · intro x hx
    simp only [calMembers, List.mem_cons] at hx
    rcases hx with rfl | hx
    · refine ok_strM _ _ (by decide) ?_
      cases c
      · exact plain_of_all (l := "julian".toList) (by decide)
      · exact plain_of_all (l := "gregorian".toList) (by decide)
      · exact plain_of_all (l := "reforming".toList) (by decide)
    · cases c <;> simp only [List.mem_singleton, List.not_mem_nil] at hx
      subst hx
      exact ok_intM _ _ (by decide)

/-- the head of the document, up to and including the `[` of the dates array -/
def headChars (c : Calendar) : List Char :=
  '{' :: memberText ind4 "calendar".toList (calObjText c) ++ ',' :: ind4
    ++ '"' :: "dates".toList ++ ['"', ':', ' ', '[']

set_option maxRecDepth 8000 in
theorem jsonStart_chars (c : Calendar) : (jsonStart c).toList = headChars c := by
  unfold jsonStart
  simp only [toString_str, String.toList_append, sp, String.toList_ofList]
  unfold headChars calObjText calMembers calTypeName strM intM memberText ind4 ind8
  cases c
  · simp only [Calendar.reformation]
    unfold joinMembers memberText
    simp [List.append_assoc, Calendar.beq, Calendar.cmp]
  · simp only [Calendar.reformation]
    unfold joinMembers memberText
    simp [List.append_assoc, Calendar.beq, Calendar.cmp]
  · simp only [Calendar.reformation]
    unfold joinMembers joinMembers memberText
    simp [List.append_assoc, Calendar.beq, Calendar.cmp, String.toList_append]

/-! ### (4) the whole output -/

/-- the pieces after the head, as the end of `Options::run` patches them: a comma after every
object but the last, the closing brackets after the last -/
def patchObjs : List String → List String
  | [] => []
  | o :: [] => [o ++ jsonTail]
  | o :: p :: r => (o ++ ",") :: patchObjs (p :: r)

theorem patchObjs_length : ∀ l : List String, (patchObjs l).length = l.length
  | [] => rfl
  | _ :: [] => rfl
  | _ :: p :: r => by simp [patchObjs, patchObjs_length (p :: r)]

theorem patchObjs_getElem : ∀ (l : List String) (i : Nat) (hi : i < l.length),
    (patchObjs l)[i]'(by rw [patchObjs_length]; exact hi)
      = if i = l.length - 1 then l[i] ++ jsonTail else l[i] ++ ","
  | [], i, hi => by simp at hi
  | o :: [], i, hi => by
    have : i = 0 := by simp at hi; omega
    subst this; simp [patchObjs]
  | o :: p :: r, 0, _ => by simp [patchObjs]
  | o :: p :: r, i + 1, hi => by
    have ih := patchObjs_getElem (p :: r) i (by simp at hi ⊢; omega)
    simp only [patchObjs, List.getElem_cons_succ, List.length_cons] at ih ⊢
    rw [ih]
    have : (i + 1 = r.length + 1 + 1 - 1) = (i = r.length + 1 - 1) := by
      apply propext; constructor <;> intro h <;> omega
    simp only [this]

theorem jsonPatch_cons (h : String) (objs : List String) (hne : objs ≠ []) :
    jsonPatch (h :: objs) = h :: patchObjs objs := by
  have hl : objs.length ≠ 0 := fun e => hne (List.length_eq_zero_iff.mp e)
  apply List.ext_getElem
  · rw [Cli.jsonPatch_length]; simp [patchObjs_length]
  · intro i h1 h2
    rw [jsonPatch_getElem (h :: objs) i (by rw [Cli.jsonPatch_length] at h1; exact h1)]
    cases i with
    | zero =>
      have : ¬ (0 = (h :: objs).length - 1) := by simp; omega
      rw [if_neg this]; simp
    | succ i =>
      have hi : i < objs.length := by
        rw [Cli.jsonPatch_length] at h1; simp at h1; omega
      simp only [List.length_cons, List.getElem_cons_succ, Nat.add_sub_cancel]
      rw [patchObjs_getElem objs i hi]
      by_cases e : i + 1 = objs.length
      · have e' : i = objs.length - 1 := by omega
        rw [if_pos e, if_pos e']
      · have e' : ¬ i = objs.length - 1 := by omega
        rw [if_neg e, if_neg e', if_pos (by omega)]

/-- what the process writes: every piece followed by a newline (`println!`) -/
def outChars (ls : List String) : List Char := (String.join (ls.map (· ++ "\n"))).toList

theorem outChars_nil : outChars [] = [] := by simp [outChars]

theorem outChars_cons (x : String) (xs : List String) :
    outChars (x :: xs) = x.toList ++ '\n' :: outChars xs := by
  simp [outChars, String.join_cons, String.toList_append]

/-- an array element: the value of a date and the text of its object -/
def dateElem (d : Date) : Val × List Char := (dateVal d, dateObjText d)

/-- the characters after the head's `[`: the objects, then the closing brackets -/
theorem objs_chars : ∀ ds : List Date, ds ≠ [] →
    '\n' :: outChars (patchObjs (ds.map date2json))
      = joinElems ind8 (ds.map dateElem) ++ ind4 ++ [']', '\n', '}', '\n']
  | [], h => absurd rfl h
  | d :: [], _ => by
    simp only [List.map, patchObjs, outChars_cons, outChars_nil, String.toList_append,
      date2json_chars, joinElems, dateElem, jsonTail, ind8, ind4]
    simp [List.append_assoc]
  | d :: e :: r, _ => by
    have ih := objs_chars (e :: r) (by simp)
    simp only [List.map, patchObjs] at ih ⊢
    rw [outChars_cons]
    simp only [String.toList_append, date2json_chars, joinElems, dateElem]
    have : ",".toList = [','] := by decide
    rw [this]
    simp only [List.append_assoc, List.cons_append, List.nil_append]
    rw [ih]
    simp [ind8, dateElem, List.append_assoc]

/-- **the JSON value of the whole document** -/
def docVal (c : Calendar) (ds : List Date) : Val :=
  .obj [("calendar".toList, calVal c), ("dates".toList, .arr (ds.map dateVal))]

set_option maxRecDepth 8000 in
/-- **the `-J` output is a JSON document and denotes the calendar and the dates** -/
theorem doc_of_output (c : Calendar) (ds : List Date) (hne : ds ≠ []) :
    Doc (docVal c ds) (outChars (jsonPatch (jsonStart c :: ds.map date2json))) := by
  rw [jsonPatch_cons _ _ (by cases ds <;> simp_all), outChars_cons, objs_chars ds hne,
    jsonStart_chars]
  -- the array
  have harr : Text (.arr (ds.map dateVal))
      ('[' :: (joinElems ind8 (ds.map dateElem) ++ ind4) ++ [']']) := by
    apply Text.arr
    have := elems_join ind8 ind4 (ws_nl 8) (ws_nl 4) (ds.map dateElem)
      (by cases ds <;> simp_all) (by
        intro x hx
        simp only [List.mem_map] at hx
        obtain ⟨d, _, rfl⟩ := hx
        exact text_dateObj d)
    simpa [dateElem, List.map_map, Function.comp_def] using this
  -- the outer object
  have hobj := members_join ind4 ['\n'] (ws_nl 4) (ws_nl 0)
    [("calendar".toList, calVal c, calObjText c),
     ("dates".toList, .arr (ds.map dateVal), '[' :: (joinElems ind8 (ds.map dateElem) ++ ind4) ++ [']'])]
    (by simp)
    (by
      intro x hx
      simp only [List.mem_cons, List.not_mem_nil, or_false] at hx
      rcases hx with rfl | rfl
      · exact ⟨plain_of_all (l := "calendar".toList) (by decide), text_calObj c⟩
      · exact ⟨plain_of_all (l := "dates".toList) (by decide), harr⟩)
  refine ⟨[], _, ['\n'], ws_nil, Text.obj hobj, ws_nl 0, ?_⟩
  simp only [headChars, joinMembers, memberText, List.map, List.nil_append]
  simp [List.append_assoc]

/-- with -J every line is the object of the date its argument denotes -/
theorem argLines_json (o : Options) (hj : o.json = true) :
    ∀ (args ls : List String), argLines o args = .ok ls →
      ∃ ds : List Date, ds.length = args.length ∧ ls = ds.map date2json
        ∧ ∀ i (h1 : i < args.length) (h2 : i < ds.length), argDate o args[i] = some ds[i]
  | [], ls, h => by
    simp only [argLines] at h; cases h
    exact ⟨[], rfl, rfl, fun i h1 => by simp at h1⟩
  | a :: as, ls, h => by
    simp only [argLines] at h
    cases ha : argLine o a with
    | error e => rw [ha] at h; cases h
    | ok l =>
      rw [ha] at h
      cases hr : argLines o as with
      | error e => rw [hr] at h; cases h
      | ok ls' =>
        rw [hr] at h
        cases h
        obtain ⟨d, hd, hl⟩ := (argLine_ok_iff o a l).mp ha
        obtain ⟨ds, h1, h2, h3⟩ := argLines_json o hj as ls' hr
        refine ⟨d :: ds, by simp [h1], by rw [hl, hj, h2]; rfl, ?_⟩
        intro i hi1 hi2
        cases i with
        | zero => exact hd
        | succ i => exact h3 i (by simp at hi1; omega) (by simp at hi2; omega)

/-- **every successful `-J` run prints a JSON document** denoting the selected calendar and,
in order, the dates the arguments denote (the clock's date when there are no arguments) -/
theorem run_json_doc (o : Options) (hj : o.json = true) (today : Int) (args out : List String)
    (h : o.run today args = .ok out) :
    ∃ ds : List Date,
      (args = [] → ∃ d, o.calendar.atJdn? today = some d ∧ ds = [d])
      ∧ (args ≠ [] → ds.length = args.length
          ∧ ∀ i (h1 : i < args.length) (h2 : i < ds.length), argDate o args[i] = some ds[i])
      ∧ Doc (docVal o.calendar ds) (outChars out) := by
  rw [run_eq] at h
  cases args with
  | nil =>
    simp only [List.isEmpty_nil, if_true, hj] at h
    cases hat : o.calendar.atJdn? today with
    | none => rw [hat] at h; cases h
    | some d =>
      rw [hat] at h
      simp only [Options.dateToJdn, hj, if_true] at h
      cases h
      refine ⟨[d], fun _ => ⟨d, rfl, rfl⟩, fun hne => absurd rfl hne, ?_⟩
      exact doc_of_output o.calendar [d] (by simp)
  | cons a as =>
    simp only [List.isEmpty_cons, Bool.false_eq_true, if_false, hj, if_true] at h
    cases hl : argLines o (a :: as) with
    | error e => rw [hl] at h; cases e <;> cases h
    | ok ls =>
      rw [hl] at h
      cases h
      obtain ⟨ds, h1, h2, h3⟩ := argLines_json o hj (a :: as) ls hl
      refine ⟨ds, fun e => absurd e (List.cons_ne_nil a as), fun _ => ⟨h1, h3⟩, ?_⟩
      rw [h2]
      exact doc_of_output o.calendar ds (by intro e; rw [e] at h1; simp at h1)

end JV.Json
