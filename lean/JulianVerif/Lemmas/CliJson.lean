/-
Lemmas/CliJson.lean — the comma / bracket patching at the end of `Options::run`.
-/
import JulianVerif.Lemmas.CliRun
set_option linter.unusedSimpArgs false
namespace JV
namespace Cli

theorem withCommas_length (out : List String) : (withCommas out).length = out.length := by
  simp only [withCommas]; split <;> simp

theorem closeLast_concat (ini : List String) (x : String) :
    closeLast (ini ++ [x]) = ini ++ [x ++ jsonTail] := by
  simp [closeLast]

theorem jsonPatch_eq (out : List String) (hne : out ≠ []) :
    jsonPatch out = (withCommas out).dropLast
      ++ [(withCommas out).getLast (by
            intro h; have := withCommas_length out; rw [h] at this
            exact hne (List.length_eq_zero_iff.mp this.symm)) ++ jsonTail] := by
  have hne' : withCommas out ≠ [] := by
    intro h; have := withCommas_length out; rw [h] at this
    exact hne (List.length_eq_zero_iff.mp this.symm)
  have h := List.dropLast_concat_getLast hne'
  simp only [jsonPatch]
  conv => lhs; rw [← h]
  exact closeLast_concat _ _

theorem jsonPatch_length (out : List String) : (jsonPatch out).length = out.length := by
  by_cases hne : out = []
  · subst hne; rfl
  · rw [jsonPatch_eq out hne]
    have := withCommas_length out
    have : out.length ≠ 0 := fun h => hne (List.length_eq_zero_iff.mp h)
    simp; omega

theorem withCommas_getElem (out : List String) (i : Nat) (hi : i < out.length) :
    (withCommas out)[i]'(by rw [withCommas_length]; exact hi)
      = if out.length > 2 ∧ 1 ≤ i ∧ i < out.length - 1 then out[i] ++ "," else out[i] := by
  simp only [withCommas]
  by_cases h2 : out.length > 2
  · simp only [h2, if_true, List.getElem_mapIdx, true_and, Bool.and_eq_true, decide_eq_true_eq]
  · simp [h2]

/-- **every piece of the patched output**: the last piece gets the closing brackets, every
other piece except the head gets a comma — for any number of pieces -/
theorem jsonPatch_getElem (out : List String) (i : Nat) (hi : i < out.length) :
    (jsonPatch out)[i]'(by rw [jsonPatch_length]; exact hi)
      = if i = out.length - 1 then out[i] ++ jsonTail
        else if 1 ≤ i then out[i] ++ "," else out[i] := by
  have hne : out ≠ [] := by intro h; subst h; simp at hi
  have hl := withCommas_length out
  simp only [jsonPatch_eq out hne]
  by_cases hlast : i = out.length - 1
  · simp only [hlast, if_true]
    rw [List.getElem_append_right (by simp; omega)]
    simp only [List.length_dropLast, hl, Nat.sub_self, List.getElem_cons_zero]
    rw [List.getLast_eq_getElem]
    simp only [hl]
    rw [withCommas_getElem out (out.length - 1) (by omega)]
    have : ¬ (out.length > 2 ∧ 1 ≤ out.length - 1 ∧ out.length - 1 < out.length - 1) := by omega
    simp only [this, if_false]
  · simp only [hlast, if_false]
    rw [List.getElem_append_left (by simp; omega)]
    rw [List.getElem_dropLast]
    rw [withCommas_getElem out i hi]
    by_cases h1 : 1 ≤ i
    · have : out.length > 2 ∧ 1 ≤ i ∧ i < out.length - 1 := by omega
      rw [if_pos this, if_pos h1]
    · have : ¬ (out.length > 2 ∧ 1 ≤ i ∧ i < out.length - 1) := by omega
      rw [if_neg this, if_neg h1]

end Cli
end JV
