/-
Lemmas/AcceptInst.lean — instances of `Accepting` for every well-formed calendar.
-/
import JulianVerif.Lemmas.Accept
set_option linter.unusedSimpArgs false
namespace JV
open Spec

theorem ruleCal_getJdn_atJdn (ρ : Rule) (j : Int) (d : Date) (h : (ruleCal ρ).atJdn? j = some d)
    (hy : InI32 d.year) : (ruleCal ρ).getJdn d.year d.ordinal = if InI32 j then some j else none := by
  obtain ⟨y, m, dd, hat, hv, hjd⟩ := ruleCal_atJdn ρ j
  rw [hat] at h; cases h
  simp only at hy ⊢
  have hb := daysBefore_bounds (leap ρ y) m
  have h366 : daysBefore (leap ρ y) m + dd ≤ 366 := by
    have : (if leap ρ y = true then (366 : Int) else 365) ≤ 366 := by split <;> omega
    simp only [ValidYMD] at hv; omega
  rw [ruleCal_getJdn ρ y _ hy (by simp only [ValidYMD] at hv; omega) h366]
  have e : yearStart ρ y + (daysBefore (leap ρ y) m + dd) - 1 = j := by
    simp only [jdnOf] at hjd; omega
  rw [e]

def ruleCal_accepting (ρ : Rule) : Accepting (ruleCal ρ) where
  toYearTiling := ruleCal_tiling ρ
  valid := fun y => (ruleCal_whole ρ y).valid
  lenSum := by
    intro y
    rw [ruleCal_yearLength, (ruleCal_whole ρ y).sumAll]; rfl
  live_of_len := fun _ _ => trivial
  getJdn_atJdn := ruleCal_getJdn_atJdn ρ

namespace Reform
variable (rf : Reform)

theorem getJdn_atJdn (j : Int) (d : Date) (h : rf.cal.atJdn? j = some d) (hy : InI32 d.year) :
    rf.cal.getJdn d.year d.ordinal = if InI32 j then some j else none := by
  by_cases hjR : j < rf.R
  · obtain ⟨y, m, dd, hat, hdate, hord⟩ := rf.atJdn_julian j hjR
    rw [hat] at h; cases h
    simp only at hy ⊢
    have hb := daysBefore_bounds (leap .julian y) m
    have hv := hdate.1
    simp only [ValidYMD] at hv
    have h366 : daysBefore (leap .julian y) m + dd ≤ 366 := by
      have : (if leap .julian y = true then (366 : Int) else 365) ≤ 366 := by split <;> omega
      omega
    rw [rf.getJdn_julian_side y _ hord, julian2jdn_spec y _ hy (by omega) h366]
    have e : yearStart .julian y + (daysBefore (leap .julian y) m + dd) - 1 = j := by
      have := hdate.2; simp only [jdnOf] at this; omega
    rw [e]
  · obtain ⟨y, m, dd, hat, hdate, hord⟩ := rf.atJdn_gregorian j (by omega)
    rw [hat] at h; cases h
    simp only at hy ⊢
    have hb := daysBefore_bounds (leap .gregorian y) m
    have hv := hdate.1
    simp only [ValidYMD] at hv
    have h366 : daysBefore (leap .gregorian y) m + dd ≤ 366 := by
      have : (if leap .gregorian y = true then (366 : Int) else 365) ≤ 366 := by split <;> omega
      omega
    rw [rf.getJdn_gregorian_side y _ hord, gregorian2jdn_spec y _ (by omega) h366]
    have e : yearStart .gregorian y + (daysBefore (leap .gregorian y) m + dd) - 1 = j := by
      have := hdate.2; simp only [jdnOf] at this; omega
    rw [e]

theorem live_of_len (y : Int) (h : 0 < rf.cal.yearLength y) : rf.Live y := by
  simp only [Live]
  by_cases a : y ≤ rf.yP
  · exact Or.inl a
  · by_cases b : rf.yQ ≤ y
    · exact Or.inr b
    · rw [rf.yearLength_between y (by omega) (by omega)] at h; omega

def accepting : Accepting rf.cal where
  toYearTiling := rf.tiling
  valid := rf.valid_all
  lenSum := rf.yearLength_eq_sumAll
  live_of_len := rf.live_of_len
  getJdn_atJdn := rf.getJdn_atJdn

end Reform

theorem WF.accepting {c : Calendar} (h : WF c) : Nonempty (Accepting c) := by
  rcases h.cases with rfl | rfl | ⟨rf, rfl, _⟩
  · exact ⟨ruleCal_accepting .julian⟩
  · exact ⟨ruleCal_accepting .gregorian⟩
  · exact ⟨rf.accepting⟩

end JV
