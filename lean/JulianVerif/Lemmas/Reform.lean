/-
Lemmas/Reform.lean — L3: what `Calendar::reforming` establishes.  `Reform c` packages the
facts every later lemma needs: the last Julian label P, the first Gregorian label Q, that
Q as a Julian date lies after R (the calendar skips forward), and the gap record.
-/
import JulianVerif.Lemmas.Proleptic
import JulianVerif.Lemmas.YearStart
import JulianVerif.Lemmas.Cmp
namespace JV
open Spec

/-- the gap record `Calendar::reforming` computes from the two labels -/
def mkGap (yP : Int) (mP : Month) (dP : Int) (yQ : Int) (mQ : Month) (dQ : Int) : ReformGap :=
  let oP := daysBefore (leap .julian yP) mP + dP
  let oQ := daysBefore (leap .gregorian yQ) mQ + dQ
  let kind := GapKind.forDates yP mP yQ mQ
  { preReform := ⟨yP, oP, mP, dP⟩
    postReform := ⟨yQ, (match kind with | .intraMonth | .crossMonth => oP + 1 | _ => 1), mQ, dQ⟩
    kind := kind
    ordinalGapStart := (match kind with | .intraMonth | .crossMonth => oQ - 1 | _ => 0)
    ordinalGap := (match kind with | .intraMonth | .crossMonth => oQ - oP - 1 | _ => oQ - 1) }

/-- the data of a reforming calendar as built by `Calendar::reforming` -/
structure Reform where
  R : Int
  yP : Int
  mP : Month
  dP : Int
  yQ : Int
  mQ : Month
  dQ : Int
  hP : IsDate .julian (R - 1) yP mP dP
  hQ : IsDate .gregorian R yQ mQ dQ
  /-- the Julian date labelled like the first Gregorian date lies after R -/
  hskip : R < jdnOf .julian yQ mQ dQ

/-- the calendar value -/
def Reform.cal (rf : Reform) : Calendar :=
  .reforming rf.R (mkGap rf.yP rf.mP rf.dP rf.yQ rf.mQ rf.dQ)

/-- Julian day-of-year of a label that is valid in the Gregorian calendar -/
theorem julian_ordinal_adjust (y : Int) (m : Month) :
    daysBefore (leap .julian y) m
      = daysBefore (leap .gregorian y) m
        + (if y.tmod 100 == 0 && y.tmod 400 != 0 && Month.february.lt m then 1 else 0) := by
  rw [tmod_beq, tmod_bne]
  by_cases h4 : y % 4 = 0 <;> by_cases h100 : y % 100 = 0 <;> by_cases h400 : y % 400 = 0 <;>
    cases m <;> simp [leap, daysBefore, Month.lt, Month.number, h4, h100, h400] <;> omega

theorem year_of_jdn_inI32 (ρ : Rule) (j y : Int) (m : Month) (d : Int) (hj : InI32 j)
    (h : IsDate ρ j y m d) : InI32 y ∧ -5884400 ≤ y ∧ y ≤ 5874900 := by
  obtain ⟨hv, hjd⟩ := h
  have hb := daysBefore_bounds (leap ρ y) m
  have : (if leap ρ y = true then (366 : Int) else 365) ≤ 366 := by split <;> omega
  cases ρ <;> simp only [jdnOf, yearStart, ValidYMD, InI32] at * <;> omega

/-- **`Calendar::reforming` succeeds only with a well-formed gap.** -/
theorem mk_reform (R : Int) (hR : InI32 R) (c : Calendar) (h : Calendar.mkReforming R = .ok c) :
    ∃ rf : Reform, c = rf.cal ∧ rf.R = R ∧ InI32 (R - 1) := by
  simp only [Calendar.mkReforming] at h
  split at h
  · cases h
  · rename_i hR1
    have hR1' : InI32 (R - 1) := by
      cases hh : inI32 (R - 1)
      · simp [hh] at hR1
      · exact (inI32_iff _).mp hh
    obtain ⟨yP, mP, dP, hatP, hdP⟩ := ruleCal_atJdn .julian (R - 1)
    obtain ⟨yQ, mQ, dQ, hatQ, hdQ⟩ := ruleCal_atJdn .gregorian R
    simp only [ruleCal] at hatP hatQ
    rw [hatP, hatQ] at h
    simp only at h
    have hyQ := year_of_jdn_inI32 .gregorian R yQ mQ dQ hR hdQ
    -- the ordinal handed to JULIAN.get_jdn is the Julian day-of-year of the label Q
    have hadj := julian_ordinal_adjust yQ mQ
    have hord : (if (yQ.tmod 100 == 0 && yQ.tmod 400 != 0 && Month.february.lt mQ) = true
          then daysBefore (leap .gregorian yQ) mQ + dQ + 1
          else daysBefore (leap .gregorian yQ) mQ + dQ)
        = daysBefore (leap .julian yQ) mQ + dQ := by
      rw [hadj]; split <;> omega
    rw [hord] at h
    have hbq := daysBefore_bounds (leap .julian yQ) mQ
    have hlq := monthLen_bounds (leap .julian yQ) mQ
    have hvQ : 1 ≤ dQ ∧ dQ ≤ monthLen (leap .gregorian yQ) mQ := hdQ.1
    have hmono : monthLen (leap .gregorian yQ) mQ ≤ monthLen (leap .julian yQ) mQ := by
      by_cases h4 : yQ % 4 = 0 <;> by_cases h100 : yQ % 100 = 0 <;> by_cases h400 : yQ % 400 = 0 <;>
        cases mQ <;> simp [leap, monthLen, h4, h100, h400]
    have h366 : daysBefore (leap .julian yQ) mQ + dQ ≤ 366 := by
      have : (if leap .julian yQ = true then (366 : Int) else 365) ≤ 366 := by split <;> omega
      omega
    have hg := ruleCal_getJdn .julian yQ (daysBefore (leap .julian yQ) mQ + dQ) hyQ.1 (by omega) h366
    simp only [ruleCal] at hg
    rw [hg] at h
    by_cases hin : InI32 (yearStart .julian yQ + (daysBefore (leap .julian yQ) mQ + dQ) - 1)
    · rw [if_pos hin] at h
      simp only at h
      by_cases hle : yearStart .julian yQ + (daysBefore (leap .julian yQ) mQ + dQ) - 1 ≤ R
      · rw [if_pos hle] at h; cases h
      · rw [if_neg hle] at h
        injection h with h
        subst h
        refine ⟨⟨R, yP, mP, dP, yQ, mQ, dQ, hdP, hdQ, ?_⟩, ?_, rfl, hR1'⟩
        · simp only [jdnOf]; omega
        · simp only [Reform.cal, mkGap]
          cases hk : GapKind.forDates yP mP yQ mQ <;> rfl
    · rw [if_neg hin] at h; simp only at h; split at h <;> cases h

end JV
