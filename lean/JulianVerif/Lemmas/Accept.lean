/-
Lemmas/Accept.lean — L5: a date accepted by `at_ymd` / `at_ordinal_date` is the date
`at_jdn` gives for its day number (the other half of C06/C07).
-/
import JulianVerif.Lemmas.StepInst
set_option linter.unusedSimpArgs false
namespace JV
open Spec

/-- `day_ordinal` succeeds only on days that `nth_day` produces -/
theorem IShape.nthDay_of_dayOrdinalErr (s : IShape) (hv : s.Valid) (y : Int) (m : Month) (k d : Int)
    (hd : 0 ≤ d) (h : s.dayOrdinalErr y m d = .ok k) : s.nthDay k = some d ∧ 1 ≤ k ∧ k ≤ s.len := by
  cases s with
  | normal L =>
    simp only [IShape.dayOrdinalErr] at h
    split at h
    · rename_i hc; injection h with h; subst h
      simp only [Bool.and_eq_true, decide_eq_true_eq] at hc
      simp [IShape.nthDay, IShape.len, hc]
    · cases h
  | tailless L N =>
    simp only [IShape.dayOrdinalErr] at h
    split at h
    · rename_i hc; injection h with h; subst h
      simp only [Bool.and_eq_true, decide_eq_true_eq] at hc
      simp [IShape.nthDay, IShape.len, hc]
    · split at h <;> cases h
  | headless a L =>
    simp only [IShape.Valid] at hv
    simp only [IShape.dayOrdinalErr] at h
    split at h
    · rename_i hc; injection h with h; subst h
      simp only [Bool.and_eq_true, decide_eq_true_eq] at hc
      have c2 : (decide (1 ≤ d - a + 1) && decide (d - a + 1 ≤ L - a + 1)) = true := by simp; omega
      simp only [IShape.nthDay, IShape.len, c2, if_true]
      refine ⟨?_, by omega, by omega⟩
      congr 1; omega
    · split at h <;> cases h
  | gapped gs ge L =>
    simp only [IShape.Valid] at hv
    simp only [IShape.dayOrdinalErr] at h
    split at h
    · cases h
    · rename_i hc
      simp only [Bool.or_eq_true, beq_iff_eq, decide_eq_true_eq, not_or] at hc
      split at h
      · rename_i c1; injection h with h; subst h
        have h0 : (d == 0) = false := by simp; omega
        simp only [IShape.nthDay, IShape.len, h0, Bool.false_eq_true, if_false, c1, if_true]
        exact ⟨trivial, by omega, by omega⟩
      · rename_i c1
        split at h
        · cases h
        · rename_i c2; injection h with h; subst h
          have h0 : (d - (ge - gs + 1) == 0) = false := by simp; omega
          have n1 : ¬ d - (ge - gs + 1) < gs := by omega
          have n2 : ¬ d - (ge - gs + 1) > L := by omega
          have n3 : d - (ge - gs + 1) + (ge - gs + 1) ≤ L := by omega
          simp only [IShape.nthDay, IShape.len, h0, Bool.false_eq_true, if_false, n1, n2, n3, if_true]
          refine ⟨?_, by omega, by omega⟩
          congr 1; omega

namespace Calendar

theorem lenOf_nonneg_of_valid (c : Calendar) (y : Int)
    (hvalid : ∀ m ∈ Month.all, ∀ s, c.monthIShape y m = some s → s.Valid) (m : Month) :
    0 ≤ c.lenOf y m := by
  simp only [lenOf]
  cases h : c.monthIShape y m with
  | none => simp
  | some s => exact s.len_nonneg (hvalid m (mem_all m) s h)

/-- the month walk, for any calendar with valid shapes whose year length is the sum of its
month lengths -/
theorem walk_generic (c : Calendar) (y o : Int) (m : Month) (k : Int) (s : IShape) (day : Int)
    (hvalid : ∀ m ∈ Month.all, ∀ s, c.monthIShape y m = some s → s.Valid)
    (hlen : c.yearLength y = c.sumAll y Month.all)
    (hs : c.monthIShape y m = some s) (hk1 : 1 ≤ k) (hk2 : k ≤ s.len)
    (ho : o = prefixSum (c.lenOf y) m + k) (hn : s.nthDay k = some day) :
    c.ordinal2ymddo y o = .ok (m, day, k) ∧ 1 ≤ o ∧ o ≤ c.yearLength y := by
  have hL := c.lenOf_nonneg_of_valid y hvalid
  have hLm : c.lenOf y m = s.len := by simp only [lenOf, hs]
  have hp0 := prefixSum_nonneg _ hL m
  have bm := Month.number_bounds m
  have hend : prefixSum (c.lenOf y) m + c.lenOf y m ≤ c.sumAll y Month.all := by
    rw [sumAll_all]
    rcases Int.lt_or_eq_of_le bm.2 with a | a
    · have := prefixSum_mono _ hL m .december (by rw [Reform.dec_number]; exact a)
      have := hL .december
      omega
    · have : m = .december := Month.number_inj _ _ (by rw [Reform.dec_number]; exact a)
      subst this; exact Int.le_refl _
  have hrange : (decide (o < 1) || decide (o > c.yearLength y)) = false := by
    rw [hlen]; simp; omega
  refine ⟨?_, by omega, by rw [hlen]; omega⟩
  simp only [ordinal2ymddo, hrange, Bool.false_eq_true, if_false]
  obtain ⟨m', s', day', _, hs', hl, hn', hk1', hk2'⟩ :=
    ordinal2ymddoLoop_spec c y Month.all o all_nodup hvalid (by omega) (by omega)
  rw [sumBefore_all] at hl hn' hk1' hk2'
  have hLm' : c.lenOf y m' = s'.len := by simp only [lenOf, hs']
  have hmm : m' = m := by
    rcases Int.lt_trichotomy m'.number m.number with a | a | a
    · have := prefixSum_mono _ hL m' m a; omega
    · exact Month.number_inj _ _ a
    · have := prefixSum_mono _ hL m m' a; omega
  subst hmm
  rw [hs] at hs'; cases hs'
  have hkk : o - prefixSum (c.lenOf y) m' = k := by omega
  rw [hkk] at hl hn'
  rw [hn] at hn'; cases hn'
  exact hl

end Calendar

/-- what `at_ymd` / `at_ordinal_date` additionally need from a tiled calendar -/
structure Accepting (c : Calendar) extends YearTiling c where
  valid : ∀ y, ∀ m ∈ Month.all, ∀ s, c.monthIShape y m = some s → s.Valid
  lenSum : ∀ y, c.yearLength y = c.sumAll y Month.all
  live_of_len : ∀ y, 0 < c.yearLength y → Live y
  /-- `get_jdn` undoes the year / day-of-year computation of `at_jdn` -/
  getJdn_atJdn : ∀ j d, c.atJdn? j = some d → InI32 d.year →
      c.getJdn d.year d.ordinal = if InI32 j then some j else none

namespace Accepting
variable {c : Calendar} (A : Accepting c)

include A in
/-- **a date accepted from (year, day-of-year) is the canonical date of its day number** -/
theorem atOrdinalDate_canon (y o : Int) (hy : InI32 y) (d : Date)
    (h : c.atOrdinalDate y o = .ok d) :
    c.atJdn? d.jdn = some d ∧ InI32 d.jdn ∧ d.year = y ∧ d.ordinal = o := by
  simp only [Calendar.atOrdinalDate] at h
  cases hw : c.ordinal2ymddo y o with
  | error e => rw [hw] at h; cases h
  | ok r =>
    obtain ⟨m, dd, k⟩ := r
    rw [hw] at h
    simp only at h
    cases hg : c.getJdn y o with
    | none => rw [hg] at h; cases h
    | some jdn =>
      rw [hg] at h
      injection h with h; subst h
      simp only
      -- the ordinal is within the year
      obtain ⟨_, _, ho1, ho2⟩ := Calendar.ordinal2ymddo_inv c y o m dd k (A.valid y) (A.lenSum y) hw
      have hlive := A.live_of_len y (by omega)
      obtain ⟨d2, hd2, hy2, ho2'⟩ := A.toYearTiling.atJdn_of_block y (A.F y + o - 1) hlive (by omega) (by omega)
      obtain ⟨hc2, hj2, hp2⟩ := atJdn?_parts c _ d2 hd2
      have e : d2.ordinal = o := by omega
      rw [hy2, e, hw] at hp2
      injection hp2 with hp2
      simp only [Prod.mk.injEq] at hp2
      obtain ⟨em, ed, ek⟩ := hp2
      have hgj := A.getJdn_atJdn _ d2 hd2 (by rw [hy2]; exact hy)
      rw [hy2, e, hg] at hgj
      by_cases hin : InI32 (A.F y + o - 1)
      · rw [if_pos hin] at hgj
        injection hgj with hgj
        subst hgj
        refine ⟨?_, hin, by first | rfl | trivial, by first | rfl | trivial⟩
        rw [hd2]; congr 1
        cases d2; simp only at *; subst hc2 hj2 hy2 e em ed ek; rfl
      · rw [if_neg hin] at hgj; cases hgj

include A in
/-- **a date accepted from (year, month, day) is the canonical date of its day number** -/
theorem atYmd_canon (y : Int) (hy : InI32 y) (m : Month) (dd : Int) (hdd : 0 ≤ dd) (d : Date)
    (h : c.atYmd y m dd = .ok d) :
    c.atJdn? d.jdn = some d ∧ InI32 d.jdn ∧ d.year = y ∧ d.month = m ∧ d.day = dd := by
  simp only [Calendar.atYmd] at h
  cases hdo : c.getDayOrdinal y m dd with
  | error e => rw [hdo] at h; cases h
  | ok k =>
    rw [hdo] at h
    simp only at h
    cases hg : c.getJdn y (c.ymdo2ordinal y m k) with
    | none => rw [hg] at h; cases h
    | some jdn =>
      rw [hg] at h
      injection h with h
      -- the day is a day of the month's shape
      simp only [Calendar.getDayOrdinal] at hdo
      cases hs : c.monthIShape y m with
      | none => rw [hs] at hdo; cases hdo
      | some s =>
        rw [hs] at hdo
        simp only at hdo
        obtain ⟨hn, hk1, hk2⟩ := s.nthDay_of_dayOrdinalErr (A.valid y m (Calendar.mem_all m) s hs) y m k dd hdd hdo
        have ho : c.ymdo2ordinal y m k = prefixSum (c.lenOf y) m + k := by
          rw [Calendar.ymdo2ordinal_eq, sumBefore_all]
        obtain ⟨hw, ho1, ho2⟩ := Calendar.walk_generic c y _ m k s dd (A.valid y) (A.lenSum y) hs hk1 hk2 ho hn
        -- so at_ordinal_date accepts the same day-of-year and returns the same record
        have hord : c.atOrdinalDate y (c.ymdo2ordinal y m k) = .ok d := by
          simp only [Calendar.atOrdinalDate, hw, hg]
          rw [← h]
        obtain ⟨hc1, hc2, hc3, _⟩ := A.atOrdinalDate_canon y _ hy d hord
        subst h
        refine ⟨hc1, hc2, ?_, ?_, ?_⟩ <;> first | rfl | trivial

end Accepting
end JV
