/-
Lemmas/ReformFacts.lean — L3: order facts about the two boundary labels of a reforming
calendar, and the comparison of a (year, month) with the gap.
-/
import JulianVerif.Lemmas.Reform
namespace JV
open Spec

namespace Reform
variable (rf : Reform)

/-- Julian day-of-year of the last Julian date -/
def oP : Int := daysBefore (leap .julian rf.yP) rf.mP + rf.dP
/-- Gregorian day-of-year of the first Gregorian date -/
def oQ : Int := daysBefore (leap .gregorian rf.yQ) rf.mQ + rf.dQ

theorem validP : 1 ≤ rf.dP ∧ rf.dP ≤ monthLen (leap .julian rf.yP) rf.mP := rf.hP.1
theorem validQ : 1 ≤ rf.dQ ∧ rf.dQ ≤ monthLen (leap .gregorian rf.yQ) rf.mQ := rf.hQ.1

theorem leapG_imp_leapJ (y : Int) (h : leap .gregorian y = true) : leap .julian y = true := by
  simp only [leap, Bool.and_eq_true, beq_iff_eq] at *; exact h.1

theorem monthLen_G_le_J (y : Int) (m : Month) :
    monthLen (leap .gregorian y) m ≤ monthLen (leap .julian y) m := by
  cases hg : leap .gregorian y
  · cases leap .julian y <;> cases m <;> simp [monthLen]
  · rw [leapG_imp_leapJ y hg]; exact Int.le_refl _

/-- Q is also a valid Julian label -/
theorem validQ_julian : ValidYMD .julian rf.yQ rf.mQ rf.dQ := by
  have := rf.validQ
  have := monthLen_G_le_J rf.yQ rf.mQ
  simp only [ValidYMD]; omega

/-- the last Julian label precedes the first Gregorian label, with at least one label
(the Julian label of day R) strictly between -/
theorem label_order :
    rf.yP < rf.yQ ∨ (rf.yP = rf.yQ ∧ (rf.mP.number < rf.mQ.number ∨ (rf.mP = rf.mQ ∧ rf.dP + 2 ≤ rf.dQ))) := by
  obtain ⟨yJ, mJ, dJ, _, hJ⟩ := ruleCal_atJdn .julian rf.R
  have h1 := isDate_lt rf.hP hJ (by omega)
  have hQJ : IsDate .julian (jdnOf .julian rf.yQ rf.mQ rf.dQ) rf.yQ rf.mQ rf.dQ := ⟨rf.validQ_julian, rfl⟩
  have h2 := isDate_lt hJ hQJ rf.hskip
  have bP := Month.number_bounds rf.mP
  have bJ := Month.number_bounds mJ
  have bQ := Month.number_bounds rf.mQ
  have h1' : rf.yP < yJ ∨ (rf.yP = yJ ∧ (rf.mP.number < mJ.number ∨ (rf.mP.number = mJ.number ∧ rf.dP < dJ))) := by
    rcases h1 with a | ⟨e, a | ⟨e2, a⟩⟩
    · exact Or.inl a
    · exact Or.inr ⟨e, Or.inl a⟩
    · exact Or.inr ⟨e, Or.inr ⟨by rw [e2], a⟩⟩
  have h2' : yJ < rf.yQ ∨ (yJ = rf.yQ ∧ (mJ.number < rf.mQ.number ∨ (mJ.number = rf.mQ.number ∧ dJ < rf.dQ))) := by
    rcases h2 with a | ⟨e, a | ⟨e2, a⟩⟩
    · exact Or.inl a
    · exact Or.inr ⟨e, Or.inl a⟩
    · exact Or.inr ⟨e, Or.inr ⟨by rw [e2], a⟩⟩
  have key : rf.yP < rf.yQ ∨ (rf.yP = rf.yQ ∧ (rf.mP.number < rf.mQ.number
      ∨ (rf.mP.number = rf.mQ.number ∧ rf.dP + 2 ≤ rf.dQ))) := by omega
  rcases key with a | ⟨e, a | ⟨e2, a⟩⟩
  · exact Or.inl a
  · exact Or.inr ⟨e, Or.inl a⟩
  · exact Or.inr ⟨e, Or.inr ⟨Month.number_inj _ _ e2, a⟩⟩

theorem ym_le : ymKey rf.yP rf.mP ≤ ymKey rf.yQ rf.mQ := by
  have bP := Month.number_bounds rf.mP
  have bQ := Month.number_bounds rf.mQ
  simp only [ymKey]
  rcases rf.label_order with a | ⟨e, a | ⟨e2, _⟩⟩
  · omega
  · omega
  · rw [e, e2]; omega

theorem yP_le_yQ : rf.yP ≤ rf.yQ := by
  rcases rf.label_order with a | ⟨e, _⟩ <;> omega

/-- in a same-year gap the Gregorian ordinal of Q exceeds the Julian ordinal of P -/
theorem ordinal_order (h : rf.yP = rf.yQ) :
    rf.oP + 2 ≤ daysBefore (leap .julian rf.yQ) rf.mQ + rf.dQ ∧ rf.oP + 1 ≤ rf.oQ := by
  have hP := rf.hP.2
  have hs := rf.hskip
  simp only [jdnOf, oP, oQ] at *
  rw [h] at hP
  have hadj : daysBefore (leap .julian rf.yQ) rf.mQ ≤ daysBefore (leap .gregorian rf.yQ) rf.mQ + 1 := by
    cases hg : leap .gregorian rf.yQ
    · cases leap .julian rf.yQ <;> cases rf.mQ <;> simp [daysBefore]
    · rw [leapG_imp_leapJ _ hg]; omega
  rw [h]
  constructor <;> omega

theorem daysBefore_JG (y : Int) (m : Month) :
    daysBefore (leap .gregorian y) m ≤ daysBefore (leap .julian y) m
    ∧ daysBefore (leap .julian y) m ≤ daysBefore (leap .gregorian y) m + 1 := by
  cases hg : leap .gregorian y
  · cases leap .julian y <;> cases m <;> simp [daysBefore]
  · rw [leapG_imp_leapJ _ hg]; omega

/-- in a same-year gap no label is both a Julian-side and a Gregorian-side label -/
theorem no_shared_label {y : Int} {m : Month} {d : Int} (hy1 : y = rf.yP) (hy2 : y = rf.yQ)
    (a2 : daysBefore (leap .julian y) m + d ≤ rf.oP)
    (b2 : rf.oQ ≤ daysBefore (leap .gregorian y) m + d) : False := by
  subst hy1
  have oo := (rf.ordinal_order hy2).1
  rw [← hy2] at oo
  have h1 := daysBefore_JG rf.yP m
  have h2 := daysBefore_JG rf.yP rf.mQ
  simp only [oQ] at b2
  rw [← hy2] at b2
  omega

/-- the gap kind as a function of the labels -/
theorem kind_eq :
    GapKind.forDates rf.yP rf.mP rf.yQ rf.mQ =
      if rf.yP = rf.yQ then (if rf.mP = rf.mQ then .intraMonth else .crossMonth)
      else if rf.yP + 1 = rf.yQ then .crossYear else .multiYear := by
  simp only [GapKind.forDates, beq_iff_eq]

end Reform
end JV
