/-
Lemmas/YearKindSpec.lean — the year kind of a reforming calendar, stated against the days of
the calendar: wholly-Julian / wholly-Gregorian years, and "February 29 is a date".
-/
import JulianVerif.Lemmas.Accepts
import JulianVerif.Lemmas.ReformLength
import JulianVerif.Lemmas.AtJdn
set_option linter.unusedSimpArgs false
namespace JV
open Spec

/-- labels are ordered like their day numbers -/
theorem jdnOf_lt_iff (ρ : Rule) (y y' : Int) (m m' : Month) (d d' : Int)
    (hv : ValidYMD ρ y m d) (hv' : ValidYMD ρ y' m' d') :
    jdnOf ρ y m d < jdnOf ρ y' m' d'
      ↔ (y < y' ∨ (y = y' ∧ (m.number < m'.number ∨ (m.number = m'.number ∧ d < d')))) := by
  constructor
  · intro h
    exact isDate_lt_num ⟨hv, rfl⟩ ⟨hv', rfl⟩ h
  · exact jdnOf_lt_of_label_lt ρ y y' m m' d d' hv hv'

theorem jdnOf_le_iff (ρ : Rule) (y y' : Int) (m m' : Month) (d d' : Int)
    (hv : ValidYMD ρ y m d) (hv' : ValidYMD ρ y' m' d') :
    jdnOf ρ y m d ≤ jdnOf ρ y' m' d'
      ↔ (y < y' ∨ (y = y' ∧ (m.number < m'.number ∨ (m.number = m'.number ∧ d ≤ d')))) := by
  have h := jdnOf_lt_iff ρ y' y m' m d' d hv' hv
  have : jdnOf ρ y m d ≤ jdnOf ρ y' m' d' ↔ ¬ jdnOf ρ y' m' d' < jdnOf ρ y m d := by omega
  rw [this, h]
  omega

/-- "February 29 of year `y` is a date of `c`" -/
def HasFeb29 (c : Calendar) (y : Int) : Prop :=
  ∃ j d, c.atJdn? j = some d ∧ d.year = y ∧ d.month = .february ∧ d.day = 29

namespace Reform
variable (rf : Reform)

theorem validDec31 (ρ : Rule) (y : Int) : ValidYMD ρ y .december 31 := by
  simp [ValidYMD, monthLen]

theorem validJan1 (ρ : Rule) (y : Int) : ValidYMD ρ y .january 1 := by
  have := monthLen_bounds (leap ρ y) .january
  simp only [ValidYMD]; omega

/-- the whole Julian year `y` lies before the reformation -/
theorem whollyJ_iff (y : Int) :
    jdnOf .julian y .december 31 < rf.R
      ↔ (y < rf.yP ∨ (y = rf.yP ∧ rf.mP.number = 12 ∧ rf.dP = 31)) := by
  have hP := rf.hP.2
  have vP := rf.validP
  have bP := Month.number_bounds rf.mP
  have bL := monthLen_bounds (leap .julian rf.yP) rf.mP
  have h := jdnOf_le_iff .julian y rf.yP .december rf.mP 31 rf.dP (validDec31 _ y) rf.hP.1
  have : jdnOf .julian y .december 31 < rf.R ↔ jdnOf .julian y .december 31 ≤ jdnOf .julian rf.yP rf.mP rf.dP := by
    omega
  rw [this, h, dec_number]
  omega

/-- the whole Gregorian year `y` lies at or after the reformation -/
theorem whollyG_iff (y : Int) :
    rf.R ≤ jdnOf .gregorian y .january 1
      ↔ (rf.yQ < y ∨ (y = rf.yQ ∧ rf.mQ.number = 1 ∧ rf.dQ = 1)) := by
  have hQ := rf.hQ.2
  have vQ := rf.validQ
  have bQ := Month.number_bounds rf.mQ
  have h := jdnOf_le_iff .gregorian rf.yQ y rf.mQ .january rf.dQ 1 rf.hQ.1 (validJan1 _ y)
  rw [← hQ, h, jan_number]
  omega

theorem validFeb29 (ρ : Rule) (y : Int) : ValidYMD ρ y .february 29 ↔ leap ρ y = true := by
  cases h : leap ρ y <;> simp [ValidYMD, monthLen, h]

/-- February 29 of year `y` is a date of the reforming calendar iff it is a Julian date
before the reformation or a Gregorian date from the reformation on -/
theorem hasFeb29_iff (hR : InI32 rf.R) (hc : Calendar.mkReforming rf.R = .ok rf.cal) (y : Int) :
    HasFeb29 rf.cal y
      ↔ ((leap .julian y = true ∧ jdnOf .julian y .february 29 < rf.R)
          ∨ (leap .gregorian y = true ∧ rf.R ≤ jdnOf .gregorian y .february 29)) := by
  have wf : WF rf.cal := Or.inr (Or.inr ⟨rf.R, hR, hc⟩)
  constructor
  · rintro ⟨j, d, h, hy, hm, hd⟩
    obtain ⟨d', h', _, _, hd'⟩ := atJdn_total rf.cal wf j
    rw [h] at h'; cases h'
    rw [hy, hm, hd] at hd'
    simp only [Reform.cal, ruleAt, side] at hd'
    by_cases hj : j < rf.R
    · rw [if_pos hj] at hd'
      exact Or.inl ⟨(validFeb29 _ _).mp hd'.1, by rw [hd'.2]; exact hj⟩
    · rw [if_neg hj] at hd'
      exact Or.inr ⟨(validFeb29 _ _).mp hd'.1, by rw [hd'.2]; omega⟩
  · rintro (⟨hl, hj⟩ | ⟨hl, hj⟩)
    · obtain ⟨d, h, _, _, hd⟩ := atJdn_total rf.cal wf (jdnOf .julian y .february 29)
      simp only [Reform.cal, ruleAt, side, if_pos hj] at hd
      obtain ⟨e1, e2, e3⟩ := isDate_unique hd ⟨(validFeb29 _ _).mpr hl, rfl⟩
      exact ⟨_, d, h, e1, e2, e3⟩
    · obtain ⟨d, h, _, _, hd⟩ := atJdn_total rf.cal wf (jdnOf .gregorian y .february 29)
      have : ¬ jdnOf .gregorian y .february 29 < rf.R := by omega
      simp only [Reform.cal, ruleAt, side, if_neg this] at hd
      obtain ⟨e1, e2, e3⟩ := isDate_unique hd ⟨(validFeb29 _ _).mpr hl, rfl⟩
      exact ⟨_, d, h, e1, e2, e3⟩

/-- … in terms of the boundary labels -/
theorem feb29J_iff (y : Int) (hl : leap .julian y = true) :
    jdnOf .julian y .february 29 < rf.R
      ↔ (y < rf.yP ∨ (y = rf.yP ∧ (2 < rf.mP.number ∨ (rf.mP.number = 2 ∧ rf.dP = 29)))) := by
  have hP := rf.hP.2
  have vP := rf.validP
  have h := jdnOf_le_iff .julian y rf.yP .february rf.mP 29 rf.dP ((validFeb29 _ _).mpr hl) rf.hP.1
  have : jdnOf .julian y .february 29 < rf.R ↔ jdnOf .julian y .february 29 ≤ jdnOf .julian rf.yP rf.mP rf.dP := by
    omega
  rw [this, h, feb_number]
  have hfeb : rf.mP.number = 2 → rf.dP ≤ 29 := by
    intro e
    have : rf.mP = .february := Month.number_inj _ _ e
    have : monthLen (leap .julian rf.yP) rf.mP ≤ 29 := by
      rw [this]; cases leap .julian rf.yP <;> simp [monthLen]
    omega
  omega

theorem feb29G_iff (y : Int) (hl : leap .gregorian y = true) :
    rf.R ≤ jdnOf .gregorian y .february 29
      ↔ (rf.yQ < y ∨ (y = rf.yQ ∧ rf.mQ.number ≤ 2)) := by
  have hQ := rf.hQ.2
  have vQ := rf.validQ
  have h := jdnOf_le_iff .gregorian rf.yQ y rf.mQ .february rf.dQ 29 rf.hQ.1 ((validFeb29 _ _).mpr hl)
  rw [← hQ, h, feb_number]
  have hfeb : rf.mQ.number = 2 → rf.dQ ≤ 29 := by
    intro e
    have : rf.mQ = .february := Month.number_inj _ _ e
    have : monthLen (leap .gregorian rf.yQ) rf.mQ ≤ 29 := by
      rw [this]; cases leap .gregorian rf.yQ <;> simp [monthLen]
    omega
  omega

/-- February 29 of year `y` is a date, as arithmetic on the boundary labels -/
theorem hasFeb29_iff' (hR : InI32 rf.R) (hc : Calendar.mkReforming rf.R = .ok rf.cal) (y : Int) :
    HasFeb29 rf.cal y
      ↔ ((leap .julian y = true
            ∧ (y < rf.yP ∨ (y = rf.yP ∧ (2 < rf.mP.number ∨ (rf.mP.number = 2 ∧ rf.dP = 29)))))
          ∨ (leap .gregorian y = true ∧ (rf.yQ < y ∨ (y = rf.yQ ∧ rf.mQ.number ≤ 2)))) := by
  rw [hasFeb29_iff rf hR hc]
  constructor
  · rintro (⟨hl, h⟩ | ⟨hl, h⟩)
    · exact Or.inl ⟨hl, (feb29J_iff rf y hl).mp h⟩
    · exact Or.inr ⟨hl, (feb29G_iff rf y hl).mp h⟩
  · rintro (⟨hl, h⟩ | ⟨hl, h⟩)
    · exact Or.inl ⟨hl, (feb29J_iff rf y hl).mpr h⟩
    · exact Or.inr ⟨hl, (feb29G_iff rf y hl).mpr h⟩

end Reform
end JV
