/-
Lemmas/Prefix.lean — prefix sums of month lengths over the twelve months.
-/
import JulianVerif.Lemmas.Months
namespace JV
open Spec

/-- sum of `L` over the months before `m` -/
def prefixSum (L : Month → Int) : Month → Int
  | .january => 0
  | .february => L .january
  | .march => L .january + L .february
  | .april => L .january + L .february + L .march
  | .may => L .january + L .february + L .march + L .april
  | .june => L .january + L .february + L .march + L .april + L .may
  | .july => L .january + L .february + L .march + L .april + L .may + L .june
  | .august => L .january + L .february + L .march + L .april + L .may + L .june + L .july
  | .september => L .january + L .february + L .march + L .april + L .may + L .june + L .july
      + L .august
  | .october => L .january + L .february + L .march + L .april + L .may + L .june + L .july
      + L .august + L .september
  | .november => L .january + L .february + L .march + L .april + L .may + L .june + L .july
      + L .august + L .september + L .october
  | .december => L .january + L .february + L .march + L .april + L .may + L .june + L .july
      + L .august + L .september + L .october + L .november

theorem sumBefore_all (c : Calendar) (y : Int) (m : Month) :
    c.sumBefore y Month.all m = prefixSum (c.lenOf y) m := by
  cases m <;> simp [Calendar.sumBefore, Month.all, prefixSum] <;> omega

theorem sumAll_all (c : Calendar) (y : Int) :
    c.sumAll y Month.all = prefixSum (c.lenOf y) .december + c.lenOf y .december := by
  simp [Calendar.sumAll, Month.all, prefixSum]; omega

theorem prefixSum_monthLen (lp : Bool) (m : Month) : prefixSum (monthLen lp) m = daysBefore lp m := by
  cases m <;> cases lp <;> simp [prefixSum, monthLen, daysBefore]

/-- if `L` and `g` agree on the months before `m`, their prefix sums at `m` agree -/
theorem prefixSum_congr_before (L g : Month → Int) (m : Month)
    (h : ∀ m', m'.number < m.number → L m' = g m') : prefixSum L m = prefixSum g m := by
  have h1 := h .january; have h2 := h .february; have h3 := h .march; have h4 := h .april
  have h5 := h .may; have h6 := h .june; have h7 := h .july; have h8 := h .august
  have h9 := h .september; have h10 := h .october; have h11 := h .november
  cases m <;> simp [Month.number, prefixSum] at * <;> omega

/-- if `L` and `g` agree strictly between `a` and `b`, the sums over that stretch agree -/
theorem prefixSum_congr_between (L g : Month → Int) (a b : Month) (hab : a.number < b.number)
    (h : ∀ m', a.number < m'.number → m'.number < b.number → L m' = g m') :
    prefixSum L b - prefixSum L a - L a = prefixSum g b - prefixSum g a - g a := by
  have h2 := h .february; have h3 := h .march; have h4 := h .april
  have h5 := h .may; have h6 := h .june; have h7 := h .july; have h8 := h .august
  have h9 := h .september; have h10 := h .october; have h11 := h .november
  cases a <;> cases b <;> simp [Month.number, prefixSum] at * <;> omega

theorem prefixSum_zero (m : Month) : prefixSum (fun _ => 0) m = 0 := by
  cases m <;> simp [prefixSum]

theorem prefixSum_nonneg (L : Month → Int) (hL : ∀ m, 0 ≤ L m) (m : Month) : 0 ≤ prefixSum L m := by
  have h1 := hL .january; have h2 := hL .february; have h3 := hL .march; have h4 := hL .april
  have h5 := hL .may; have h6 := hL .june; have h7 := hL .july; have h8 := hL .august
  have h9 := hL .september; have h10 := hL .october; have h11 := hL .november
  cases m <;> simp [prefixSum] <;> omega

/-- prefix sums are monotone in the month for non-negative lengths: the day ranges of
different months do not overlap -/
theorem prefixSum_mono (L : Month → Int) (hL : ∀ m, 0 ≤ L m) (a b : Month) (hab : a.number < b.number) :
    prefixSum L a + L a ≤ prefixSum L b := by
  have h1 := hL .january; have h2 := hL .february; have h3 := hL .march; have h4 := hL .april
  have h5 := hL .may; have h6 := hL .june; have h7 := hL .july; have h8 := hL .august
  have h9 := hL .september; have h10 := hL .october; have h11 := hL .november
  have h12 := hL .december
  cases a <;> cases b <;> simp [Month.number, prefixSum] at * <;> omega

theorem Month.number_inj (a b : Month) (h : a.number = b.number) : a = b := by
  cases a <;> cases b <;> simp [Month.number] at h <;> rfl

theorem Month.number_bounds (a : Month) : 1 ≤ a.number ∧ a.number ≤ 12 := by
  cases a <;> simp [Month.number]

end JV
