/-
Lemmas/CliFuel.lean — the fuel parameter of `fromParser` (a device to make the model a total
structural recursion) is never the reason for an answer: `fuelFor argv` exceeds the number of
iterations `from_parser` can make, and any larger amount gives the same result.
-/
import JulianVerif.Lemmas.CliOpts
set_option linter.unusedSimpArgs false
set_option maxRecDepth 8000
namespace JV
namespace Cli

def srcMeasure (src : List Bytes) : Nat := (src.map fun a => a.length + 2).sum

/-- how many `from_parser` iterations are still possible at most -/
def Parser.measure (p : Parser) : Nat :=
  srcMeasure p.source +
    match p.state with
    | .none => 0
    | .pendingValue _ => 1
    | .shorts arg pos => (arg.length - pos) + 1
    | .finishedOpts => 0

theorem nextFresh_measure (src : List Bytes) (a : Arg) (p' : Parser)
    (h : Parser.nextFresh ⟨.none, src⟩ = .arg a p') : p'.measure < srcMeasure src := by
  simp only [Parser.nextFresh] at h
  cases src with
  | nil => simp at h
  | cons arg rest =>
    simp only at h
    split at h
    · cases rest with
      | nil => simp at h
      | cons v rest' =>
        simp only at h
        injection h with _ h; subst h
        simp [Parser.measure, srcMeasure]; omega
    · split at h
      · split at h
        · injection h with _ h; subst h
          simp [Parser.measure, srcMeasure]; omega
        · injection h with _ h; subst h
          simp [Parser.measure, srcMeasure]
      · split at h
        · rename_i hc
          simp only [Bool.and_eq_true, decide_eq_true_eq] at hc
          split at h
          · injection h with _ h; subst h
            simp [Parser.measure, srcMeasure]; omega
          · injection h with _ h; subst h
            simp [Parser.measure, srcMeasure]; omega
        · injection h with _ h; subst h
          simp [Parser.measure, srcMeasure]

theorem next_measure (p : Parser) (a : Arg) (p' : Parser) (h : p.next = .arg a p') :
    p'.measure < p.measure := by
  obtain ⟨st, src⟩ := p
  cases st with
  | none =>
    simp only [Parser.next] at h
    have := nextFresh_measure src a p' h
    simpa [Parser.measure] using this
  | pendingValue v => simp [Parser.next] at h
  | finishedOpts =>
    simp only [Parser.next] at h
    cases src with
    | nil => simp at h
    | cons v rest =>
      simp only at h
      injection h with _ h; subst h
      simp [Parser.measure, srcMeasure]
  | shorts arg pos =>
    simp only [Parser.next] at h
    split at h
    · have := nextFresh_measure src a p' h
      simp only [Parser.measure] at this ⊢; omega
    · rename_i hlt
      simp only [ge_iff_le, Nat.not_le] at hlt
      split at h
      · cases h
      · split at h
        · injection h with _ h; subst h
          simp [Parser.measure]; omega
        · injection h with _ h; subst h
          simp [Parser.measure]; omega

theorem optionalValue_measure (p : Parser) : p.optionalValue.2.measure ≤ p.measure := by
  obtain ⟨st, src⟩ := p
  cases st with
  | none => simp [Parser.optionalValue]
  | finishedOpts => simp [Parser.optionalValue]
  | pendingValue v => simp [Parser.optionalValue, Parser.measure]
  | shorts arg pos =>
    simp only [Parser.optionalValue]
    split <;> simp [Parser.measure]

theorem value_measure (p : Parser) (v : Bytes) (p' : Parser) (h : p.value = some (v, p')) :
    p'.measure ≤ p.measure := by
  have ho := optionalValue_measure p
  simp only [Parser.value] at h
  generalize p.optionalValue = r at *
  obtain ⟨x, q⟩ := r
  simp only at ho
  cases x with
  | some w =>
    simp only at h
    injection h with h
    simp only [Prod.mk.injEq] at h
    obtain ⟨_, rfl⟩ := h
    exact ho
  | none =>
    simp only at h
    cases hs : q.source with
    | nil => rw [hs] at h; cases h
    | cons w rest =>
      rw [hs] at h
      simp only at h
      injection h with h
      simp only [Prod.mk.injEq] at h
      obtain ⟨_, rfl⟩ := h
      have : q.measure = srcMeasure (w :: rest) + (match q.state with
          | .none => 0 | .pendingValue _ => 1 | .shorts arg pos => (arg.length - pos) + 1
          | .finishedOpts => 0) := by simp [Parser.measure, hs]
      have h2 : srcMeasure rest ≤ srcMeasure (w :: rest) := by simp [srcMeasure]
      have h3 : ({ q with source := rest } : Parser).measure = srcMeasure rest + (match q.state with
          | .none => 0 | .pendingValue _ => 1 | .shorts arg pos => (arg.length - pos) + 1
          | .finishedOpts => 0) := by simp [Parser.measure]
      omega

/-- **the fuel of `fromParser` is never the reason for its answer**: any two amounts above
the parser's measure give the same result -/
theorem fromParser_fuel_indep : ∀ (n : Nat) (p : Parser) (o : Options) (a : List String)
    (f1 f2 : Nat), p.measure ≤ n → p.measure < f1 → p.measure < f2 →
    fromParser f1 p o a = fromParser f2 p o a := by
  intro n
  induction n with
  | zero =>
    intro p o a f1 f2 hn h1 h2
    obtain ⟨f1, rfl⟩ : ∃ k, f1 = k + 1 := ⟨f1 - 1, by omega⟩
    obtain ⟨f2, rfl⟩ : ∃ k, f2 = k + 1 := ⟨f2 - 1, by omega⟩
    simp only [fromParser]
    cases hnx : p.next with
    | error => rfl
    | done => rfl
    | arg x p' => have := next_measure p x p' hnx; omega
  | succ n ih =>
    intro p o a f1 f2 hn h1 h2
    obtain ⟨f1, rfl⟩ : ∃ k, f1 = k + 1 := ⟨f1 - 1, by omega⟩
    obtain ⟨f2, rfl⟩ : ∃ k, f2 = k + 1 := ⟨f2 - 1, by omega⟩
    simp only [fromParser]
    cases hnx : p.next with
    | error => rfl
    | done => rfl
    | arg x p' =>
      have hm := next_measure p x p' hnx
      have key : ∀ (q : Parser) (o' : Options) (a' : List String), q.measure ≤ p'.measure →
          fromParser f1 q o' a' = fromParser f2 q o' a' :=
        fun q o' a' hq => ih q o' a' f1 f2 (by omega) (by omega) (by omega)
      have hov := optionalValue_measure p'
      simp only
      cases x with
      | value v =>
        simp only
        cases bytesToString? v with
        | none => rfl
        | some s => exact key p' _ _ (Nat.le_refl _)
      | short c =>
        simp only
        by_cases h99 : (c == 'c') = true
        · rw [if_pos h99, if_pos h99]
        rw [if_neg h99, if_neg h99]
        by_cases h104 : (c == 'h') = true
        · rw [if_pos h104, if_pos h104]
        rw [if_neg h104, if_neg h104]
        by_cases h86 : (c == 'V') = true
        · rw [if_pos h86, if_pos h86]
        rw [if_neg h86, if_neg h86]
        by_cases h106 : (c == 'j') = true
        · rw [if_pos h106, if_pos h106]; exact key p' _ _ (Nat.le_refl _)
        rw [if_neg h106, if_neg h106]
        by_cases h74 : (c == 'J') = true
        · rw [if_pos h74, if_pos h74]; exact key p' _ _ (Nat.le_refl _)
        rw [if_neg h74, if_neg h74]
        by_cases h111 : (c == 'o') = true
        · rw [if_pos h111, if_pos h111]; exact key p' _ _ (Nat.le_refl _)
        rw [if_neg h111, if_neg h111]
        by_cases h113 : (c == 'q') = true
        · rw [if_pos h113, if_pos h113]; exact key p' _ _ (Nat.le_refl _)
        rw [if_neg h113, if_neg h113]
        by_cases h115 : (c == 's') = true
        · rw [if_pos h115, if_pos h115]; exact key p' _ _ (Nat.le_refl _)
        rw [if_neg h115, if_neg h115]
        by_cases hr : (c == 'r') = true
        · rw [if_pos hr, if_pos hr]
          cases hv : p'.value with
          | none => rfl
          | some r =>
            obtain ⟨v, q⟩ := r
            simp only
            cases bytesToString? v with
            | none => rfl
            | some s =>
              simp only
              cases parseReformation s with
              | none => rfl
              | some cal => exact key q _ _ (value_measure p' v q hv)
        rw [if_neg hr, if_neg hr]
        by_cases hd : isAsciiDigit c = true
        · rw [if_pos hd, if_pos hd]
          generalize p'.optionalValue = r at hov
          obtain ⟨x, q⟩ := r
          simp only at hov
          cases x with
          | some v =>
            simp only
            cases bytesToString? v with
            | none => rfl
            | some s => exact key q _ _ hov
          | none => exact key q _ _ hov
        rw [if_neg hd, if_neg hd]
      | long name =>
        simp only
        by_cases g0 : (name == bytesOf "countries") = true
        · rw [if_pos g0, if_pos g0]
        rw [if_neg g0, if_neg g0]
        by_cases g1 : (name == bytesOf "help") = true
        · rw [if_pos g1, if_pos g1]
        rw [if_neg g1, if_neg g1]
        by_cases g2 : (name == bytesOf "version") = true
        · rw [if_pos g2, if_pos g2]
        rw [if_neg g2, if_neg g2]
        by_cases k0 : (name == bytesOf "julian") = true
        · rw [if_pos k0, if_pos k0]; exact key p' _ _ (Nat.le_refl _)
        rw [if_neg k0, if_neg k0]
        by_cases k1 : (name == bytesOf "json") = true
        · rw [if_pos k1, if_pos k1]; exact key p' _ _ (Nat.le_refl _)
        rw [if_neg k1, if_neg k1]
        by_cases k2 : (name == bytesOf "ordinal") = true
        · rw [if_pos k2, if_pos k2]; exact key p' _ _ (Nat.le_refl _)
        rw [if_neg k2, if_neg k2]
        by_cases k3 : (name == bytesOf "quiet") = true
        · rw [if_pos k3, if_pos k3]; exact key p' _ _ (Nat.le_refl _)
        rw [if_neg k3, if_neg k3]
        by_cases k4 : (name == bytesOf "style") = true
        · rw [if_pos k4, if_pos k4]; exact key p' _ _ (Nat.le_refl _)
        rw [if_neg k4, if_neg k4]
        by_cases hr : (name == bytesOf "reformation") = true
        · rw [if_pos hr, if_pos hr]
          cases hv : p'.value with
          | none => rfl
          | some r =>
            obtain ⟨v, q⟩ := r
            simp only
            cases bytesToString? v with
            | none => rfl
            | some s =>
              simp only
              cases parseReformation s with
              | none => rfl
              | some cal => exact key q _ _ (value_measure p' v q hv)
        rw [if_neg hr, if_neg hr]

theorem fuelFor_eq (argv : List Bytes) : fuelFor argv = srcMeasure argv + 2 := rfl

/-- **more fuel never changes what `parseCommand` answers** -/
theorem parseCommand_fuel (argv : List Bytes) (extra : Nat) :
    fromParser (fuelFor argv + extra) ⟨.none, argv⟩ {} [] = parseCommand argv := by
  have hm : (⟨.none, argv⟩ : Parser).measure = srcMeasure argv := by simp [Parser.measure]
  have hf := fuelFor_eq argv
  exact fromParser_fuel_indep _ ⟨.none, argv⟩ {} [] _ _ (Nat.le_refl _) (by omega) (by omega)

end Cli
end JV
