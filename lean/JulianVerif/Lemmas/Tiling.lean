/-
Lemmas/Tiling.lean — L5: the years of a reforming calendar tile the line of day numbers.
`firstDay y` is the day number of the first date of year `y`; the days of year `y` are
exactly `firstDay y .. firstDay y + year_length y - 1`, and a date's day-of-year is its
offset in that block plus one (C04, C08).
-/
import JulianVerif.Lemmas.Inverse
set_option linter.unusedSimpArgs false
namespace JV
open Spec

namespace Reform
variable (rf : Reform)

/-- day number of the first date of year `y` (for a year that has dates) -/
def firstDay (y : Int) : Int :=
  if y ≤ rf.yP then yearStart .julian y
  else if y = rf.yQ then rf.R
  else yearStart .gregorian y

/-- a year that has dates: not strictly between the two boundary years -/
def Live (y : Int) : Prop := y ≤ rf.yP ∨ rf.yQ ≤ y

theorem eqP : rf.R - 1 = yearStart .julian rf.yP + rf.oP - 1 := by
  have := rf.hP.2; simp only [jdnOf, oP] at *; omega

theorem eqQ : rf.R = yearStart .gregorian rf.yQ + rf.oQ - 1 := by
  have := rf.hQ.2; simp only [jdnOf, oQ] at *; omega

theorem oP_bounds : 1 ≤ rf.oP ∧ rf.oP ≤ yearLen .julian rf.yP := by
  have := rf.validP
  have := daysBefore_bounds (leap .julian rf.yP) rf.mP
  simp only [oP, yearLen]; omega

theorem oQ_bounds : 1 ≤ rf.oQ ∧ rf.oQ ≤ yearLen .gregorian rf.yQ := by
  have := rf.validQ
  have := daysBefore_bounds (leap .gregorian rf.yQ) rf.mQ
  simp only [oQ, yearLen]; omega

/-- `year_length` of every year, in one formula -/
theorem yearLength_cases (y : Int) :
    rf.cal.yearLength y =
      if y < rf.yP then yearLen .julian y
      else if rf.yQ < y then yearLen .gregorian y
      else if y = rf.yQ then rf.oP' + yearLen .gregorian rf.yQ - rf.oQ + 1
      else if y = rf.yP then rf.oP
      else 0 := by
  have hle := rf.yP_le_yQ
  by_cases h1 : y < rf.yP
  · rw [if_pos h1]; exact rf.yearLength_lt y h1
  · rw [if_neg h1]
    by_cases h2 : rf.yQ < y
    · rw [if_pos h2]; exact rf.yearLength_gt y h2
    · rw [if_neg h2]
      by_cases h3 : y = rf.yQ
      · rw [if_pos h3, h3]; exact rf.yearLength_yQ
      · rw [if_neg h3]
        by_cases h4 : y = rf.yP
        · rw [if_pos h4, h4]; exact rf.yearLength_yP (by omega)
        · rw [if_neg h4]; exact rf.yearLength_between y (by omega) (by omega)

/-- **tiling**: the first day of the next year that has dates follows the last day of this
one -/
theorem firstDay_next (y : Int) (hl : rf.Live y) :
    rf.firstDay (rf.cal.nextYearAfter y) = rf.firstDay y + rf.cal.yearLength y
    ∧ rf.Live (rf.cal.nextYearAfter y) := by
  have hle := rf.yP_le_yQ
  have e1 := rf.eqP
  have e2 := rf.eqQ
  have bP := rf.oP_bounds
  have bQ := rf.oQ_bounds
  have hnext : rf.cal.nextYearAfter y = if y = rf.yP ∧ rf.yQ > rf.yP then rf.yQ else y + 1 := by
    simp only [Calendar.nextYearAfter, gap_eq, mkGap, Bool.and_eq_true, beq_iff_eq, decide_eq_true_eq]
  rw [hnext, yearLength_cases]
  have sJ := yearStart_succ .julian y
  have sG := yearStart_succ .gregorian y
  simp only [firstDay, Live, oP'] at *
  by_cases c : y = rf.yP ∧ rf.yQ > rf.yP
  · rw [if_pos c]
    obtain ⟨c1, c2⟩ := c
    subst c1
    have n1 : ¬ rf.yQ ≤ rf.yP := by omega
    have n2 : ¬ rf.yP = rf.yQ := by omega
    simp [n1, n2]; omega
  · rw [if_neg c]
    by_cases a : y < rf.yP
    · have : y + 1 ≤ rf.yP := by omega
      simp [a, this, Int.le_of_lt a]; omega
    · by_cases b : rf.yQ < y
      · have n1 : ¬ y ≤ rf.yP := by omega
        have n2 : ¬ y + 1 ≤ rf.yP := by omega
        have n3 : ¬ y = rf.yQ := by omega
        have n4 : ¬ y + 1 = rf.yQ := by omega
        simp [a, b, n1, n2, n3, n4]; omega
      · -- y is yP = yQ, or yQ > yP
        rcases hl with l | l
        · have hy : y = rf.yP := by omega
          have hq : rf.yP = rf.yQ := by
            by_cases q : rf.yQ > rf.yP
            · exact absurd ⟨hy, q⟩ c
            · omega
          subst hy
          have n2 : ¬ rf.yP + 1 ≤ rf.yP := by omega
          have n4 : ¬ rf.yP + 1 = rf.yQ := by omega
          simp [a, b, hq, n2, n4]
          rw [hq] at e1 sJ sG bP
          have n5 : ¬ rf.yQ + 1 ≤ rf.yQ := by omega
          have n6 : ¬ rf.yQ + 1 = rf.yQ := by omega
          simp [n5, n6]; omega
        · have hy : y = rf.yQ := by omega
          subst hy
          by_cases q : rf.yP = rf.yQ
          · have n2 : ¬ rf.yQ + 1 ≤ rf.yP := by omega
            simp [a, b, q, n2]
            rw [q] at e1
            omega
          · have n1 : ¬ rf.yQ ≤ rf.yP := by omega
            have n2 : ¬ rf.yQ + 1 ≤ rf.yP := by omega
            simp [a, b, q, n1, n2]; omega

/-- tiling backwards -/
theorem firstDay_prev (y : Int) (hl : rf.Live y) :
    rf.firstDay y = rf.firstDay (rf.cal.prevYearBefore y) + rf.cal.yearLength (rf.cal.prevYearBefore y)
    ∧ rf.Live (rf.cal.prevYearBefore y)
    ∧ rf.cal.nextYearAfter (rf.cal.prevYearBefore y) = y := by
  have hle := rf.yP_le_yQ
  have hprev : rf.cal.prevYearBefore y = if y = rf.yQ ∧ rf.yQ > rf.yP then rf.yP else y - 1 := by
    simp only [Calendar.prevYearBefore, gap_eq, mkGap, Bool.and_eq_true, beq_iff_eq, decide_eq_true_eq]
  have hnext : ∀ z, rf.cal.nextYearAfter z = if z = rf.yP ∧ rf.yQ > rf.yP then rf.yQ else z + 1 := by
    intro z
    simp only [Calendar.nextYearAfter, gap_eq, mkGap, Bool.and_eq_true, beq_iff_eq, decide_eq_true_eq]
  have hlp : rf.Live (rf.cal.prevYearBefore y) ∧ rf.cal.nextYearAfter (rf.cal.prevYearBefore y) = y := by
    rw [hprev, hnext]
    simp only [Live] at hl ⊢
    by_cases c : y = rf.yQ ∧ rf.yQ > rf.yP
    · rw [if_pos c]; obtain ⟨c1, c2⟩ := c
      refine ⟨Or.inl (Int.le_refl _), ?_⟩
      rw [if_pos ⟨rfl, c2⟩]; exact c1.symm
    · rw [if_neg c]
      constructor
      · rcases hl with l | l
        · left; omega
        · by_cases q : y = rf.yQ
          · left; omega
          · right; omega
      · have : ¬ (y - 1 = rf.yP ∧ rf.yQ > rf.yP) := by
          intro ⟨h1, h2⟩
          rcases hl with l | l
          · omega
          · apply c; constructor <;> omega
        rw [if_neg this]; omega
  obtain ⟨h1, h2⟩ := hlp
  have := (rf.firstDay_next _ h1).1
  rw [h2] at this
  exact ⟨this, h1, h2⟩

/-- **every day lies in the block of its year**: the date of day `j` has day-of-year
`j - firstDay year + 1`, which is between 1 and the year's length -/
theorem atJdn_block (j : Int) :
    ∃ d, rf.cal.atJdn? j = some d ∧ d.calendar = rf.cal ∧ d.jdn = j ∧ rf.Live d.year
      ∧ d.ordinal = j - rf.firstDay d.year + 1
      ∧ 1 ≤ d.ordinal ∧ d.ordinal ≤ rf.cal.yearLength d.year := by
  have hle := rf.yP_le_yQ
  have e1 := rf.eqP
  have e2 := rf.eqQ
  have bP := rf.oP_bounds
  have bQ := rf.oQ_bounds
  have hq := rf.oQ_ge
  have hp0 : 0 ≤ rf.oP' := by simp only [oP']; split <;> omega
  by_cases hj : j < rf.R
  · obtain ⟨y, m, dd, hat, hdate, hord⟩ := rf.atJdn_julian j hj
    have hb := daysBefore_bounds (leap .julian y) m
    have hv := hdate.1
    have hjd := hdate.2
    simp only [ValidYMD, jdnOf] at hv hjd
    have hlen : (if leap .julian y = true then (366 : Int) else 365) = yearLen .julian y := rfl
    rcases hord with a | ⟨a, b⟩
    · have hyP : y ≤ rf.yP := by omega
      refine ⟨_, hat, rfl, rfl, Or.inl hyP, ?_, by simp only; omega, ?_⟩
      · simp only [firstDay, hyP, if_true]; omega
      · simp only; rw [yearLength_cases, if_pos a]; omega
    · subst a
      refine ⟨_, hat, rfl, rfl, Or.inl (Int.le_refl _), ?_, by simp only; omega, ?_⟩
      · simp only [firstDay, Int.le_refl, if_true]; omega
      · simp only
        rw [yearLength_cases]
        have n1 : ¬ rf.yP < rf.yP := by omega
        have n2 : ¬ rf.yQ < rf.yP := by omega
        rw [if_neg n1, if_neg n2]
        by_cases q : rf.yP = rf.yQ
        · rw [if_pos q]; simp only [oP', q, if_true]
          rw [q] at b; omega
        · rw [if_neg q, if_pos rfl]; exact b
  · have hj' : rf.R ≤ j := by omega
    obtain ⟨y, m, dd, hat, hdate, hord⟩ := rf.atJdn_gregorian j hj'
    have hb := daysBefore_bounds (leap .gregorian y) m
    have hv := hdate.1
    have hjd := hdate.2
    simp only [ValidYMD, jdnOf] at hv hjd
    have hlen : (if leap .gregorian y = true then (366 : Int) else 365) = yearLen .gregorian y := rfl
    rcases hord with a | ⟨a, b⟩
    · have n1 : ¬ y ≤ rf.yP := by omega
      have n2 : ¬ y = rf.yQ := by omega
      have n3 : ¬ y < rf.yP := by omega
      refine ⟨_, hat, rfl, rfl, Or.inr (by dsimp only; omega), ?_, ?_, ?_⟩
      · simp only [firstDay, n1, n2, if_false]; omega
      · dsimp only; rw [if_neg n2]; omega
      · dsimp only; rw [yearLength_cases, if_neg n3, if_pos a, if_neg n2]; omega
    · subst a
      refine ⟨_, hat, rfl, rfl, Or.inr (Int.le_refl _), ?_, ?_, ?_⟩
      · simp only [firstDay, if_true, gapAmt, oP']
        by_cases q : rf.yP = rf.yQ
        · have : rf.yQ ≤ rf.yP := by omega
          simp only [this, q, if_true]
          rw [q] at e1; omega
        · have : ¬ rf.yQ ≤ rf.yP := by omega
          simp only [this, q, if_false, if_true]; omega
      · simp only [if_true, gapAmt]; omega
      · simp only [if_true]
        rw [yearLength_cases]
        have n1 : ¬ rf.yQ < rf.yP := by omega
        have n2 : ¬ rf.yQ < rf.yQ := by omega
        rw [if_neg n1, if_neg n2, if_pos rfl]
        simp only [gapAmt]; omega

end Reform
end JV
