/-
Lemmas/CheckedInst.lean — every calendar a caller can hold satisfies `Chk.Base`; and
`Calendar::reforming`, the timestamp functions and `Weekday::for_jdn` never overflow.
-/
import JulianVerif.Lemmas.CheckedCal
import JulianVerif.Lemmas.AtJdn
import JulianVerif.Lemmas.Inverse
set_option linter.unusedSimpArgs false
namespace JV
open Spec

theorem WF.yrange {c : Calendar} (hc : WF c) (j : Int) (d : Date) (hj : InI32 j)
    (h : c.atJdn? j = some d) : -5884400 ≤ d.year ∧ d.year ≤ 5874900 := by
  obtain ⟨d', h', _, _, hd⟩ := atJdn_total c hc j
  rw [h] at h'; cases h'
  exact (year_of_jdn_inI32 _ j _ _ _ hj hd).2

namespace Chk

/-! ### the proleptic calendars -/

def ruleCal_base (ρ : Rule) : Base (ruleCal ρ) where
  toShaped := ruleCal_shaped ρ
  fits31 := by
    intro y m s hs
    rw [ruleCal_whole ρ y m] at hs
    cases hs
    exact (monthLen_bounds (leap ρ y) m).2
  mshape := by
    intro y m
    cases ρ <;> rfl
  ylen := by
    intro y
    cases ρ
    · simp only [ruleCal, yearLength, Calendar.yearLength, julian_yearKind]
      cases leap Rule.julian y <;> rfl
    · simp only [ruleCal, yearLength, Calendar.yearLength, gregorian_yearKind]
      cases leap Rule.gregorian y <;> rfl
  ylen_le := by
    intro y
    rw [ruleCal_yearLength]; exact (yearLen_bounds _ _).2
  gapRange := by
    intro gap h
    rw [ruleCal_gap] at h; cases h
  yrange := by
    intro j d hj h
    have : WF (ruleCal ρ) := by cases ρ <;> simp [WF, ruleCal]
    exact this.yrange j d hj h

/-! ### reforming calendars -/

/-- a Reform* year kind is only ever given to the two years of the gap -/
theorem yearKind_reform_year (r : Int) (gap : ReformGap) (y : Int)
    (h : (Calendar.reforming r gap).yearKind y = .reformCommon
      ∨ (Calendar.reforming r gap).yearKind y = .reformLeap) :
    y = gap.postReform.year ∨ y = gap.preReform.year := by
  simp only [Calendar.yearKind, ReformGap.cmpYear, JV.cmpIntRange] at h
  by_cases h1 : y < gap.preReform.year
  · simp only [h1, if_true] at h
    rcases h with h | h <;> (split at h <;> cases h)
  · simp only [h1, if_false] at h
    by_cases h2 : (gap.preReform.year == y) = true
    · right; simp only [beq_iff_eq] at h2; exact h2.symm
    · simp only [h2, if_false, Bool.false_eq_true] at h
      by_cases h3 : y < gap.postReform.year
      · simp only [h3, if_true] at h
        rcases h with h | h <;> cases h
      · simp only [h3, if_false] at h
        by_cases h4 : (y == gap.postReform.year) = true
        · left; simp only [beq_iff_eq] at h4; exact h4
        · simp only [h4, if_false, Bool.false_eq_true] at h
          rcases h with h | h <;> (split at h <;> cases h)

theorem yearLength_reforming (r : Int) (gap : ReformGap) (y : Int)
    (h0 : 0 ≤ (Calendar.reforming r gap).yearLength y)
    (h1 : (Calendar.reforming r gap).yearLength y ≤ 366) :
    yearLength (.reforming r gap) y = some ((Calendar.reforming r gap).yearLength y) := by
  have hk := yearKind_reform_year r gap y
  simp only [Calendar.yearLength] at h0 h1
  simp only [yearLength, Calendar.yearLength, pure]
  generalize (Calendar.reforming r gap).yearKind y = k at *
  cases k with
  | common => rfl
  | leap => rfl
  | skipped => rfl
  | reformCommon =>
    simp only at h0 h1 ⊢
    by_cases hq : (y == gap.postReform.year) = true
    · simp only [hq, if_true] at h0 h1 ⊢
      exact u32_some h0 (by omega)
    · simp only [hq, if_false, Bool.false_eq_true] at h0 h1 ⊢
      rcases hk (Or.inl rfl) with e | e
      · simp [e] at hq
      · simp [e]
  | reformLeap =>
    simp only at h0 h1 ⊢
    by_cases hq : (y == gap.postReform.year) = true
    · simp only [hq, if_true] at h0 h1 ⊢
      exact u32_some h0 (by omega)
    · simp only [hq, if_false, Bool.false_eq_true] at h0 h1 ⊢
      rcases hk (Or.inr rfl) with e | e
      · simp [e] at hq
      · simp [e]

theorem monthIShape_reforming (r : Int) (gap : ReformGap) (y : Int) (m : Month)
    (hP : 0 ≤ gap.preReform.day ∧ gap.preReform.day ≤ 31)
    (hQ : 1 ≤ gap.postReform.day ∧ gap.postReform.day ≤ 31) :
    monthIShape (.reforming r gap) y m = some ((Calendar.reforming r gap).monthIShape y m) := by
  simp only [monthIShape, Calendar.monthIShape, Calendar.gap, pure, bind]
  cases gap.cmpYearMonth y m <;> simp only
  · split
    · rw [u32_some (by omega) (by omega), Option.bind_some, u32_some (by omega) (by omega)]; rfl
    · split <;> rfl
  · split
    · rw [u32_some (by omega) (by omega), Option.bind_some, u32_some (by omega) (by omega)]; rfl
    · split <;> rfl
  · split <;> rfl

end Chk

namespace Reform
variable (rf : Reform)

theorem yearLength_le (y : Int) : rf.cal.yearLength y ≤ 366 := by
  rw [rf.yearLength_cases]
  have := yearLen_bounds .julian y
  have := yearLen_bounds .gregorian y
  have := yearLen_bounds .gregorian rf.yQ
  have := rf.oP_bounds
  have := yearLen_bounds .julian rf.yP
  have := rf.oQ_ge
  (repeat' split) <;> omega

def base (hR : InI32 rf.R) (hR1 : InI32 (rf.R - 1)) : Chk.Base rf.cal where
  toShaped := rf.shaped
  fits31 := by
    intro y m s hs
    rw [(rf.shape_proper y m s hs).2]
    exact (monthLen_bounds _ m).2
  mshape := by
    intro y m
    have vP := rf.validP
    have vQ := rf.validQ
    have := monthLen_bounds (leap .julian rf.yP) rf.mP
    have := monthLen_bounds (leap .gregorian rf.yQ) rf.mQ
    exact Chk.monthIShape_reforming rf.R _ y m (by simp only [mkGap]; omega) (by simp only [mkGap]; omega)
  ylen := by
    intro y
    exact Chk.yearLength_reforming rf.R _ y (rf.accepting.yearLength_nonneg y) (rf.yearLength_le y)
  ylen_le := rf.yearLength_le
  gapRange := by
    intro gap h
    rw [rf.gap_eq] at h
    injection h with h
    subst h
    have hle := rf.yP_le_yQ
    have bP := rf.oP_bounds
    have bQ := rf.oQ_bounds
    have lJ := yearLen_bounds .julian rf.yP
    have lG := yearLen_bounds .gregorian rf.yQ
    have yP := year_of_jdn_inI32 .julian (rf.R - 1) rf.yP rf.mP rf.dP hR1 rf.hP
    have yQ := year_of_jdn_inI32 .gregorian rf.R rf.yQ rf.mQ rf.dQ hR rf.hQ
    have hlen := rf.yearLength_yQ
    rw [rf.ordinalGap_eq, rf.postOrdinal_eq]
    have hmk : (mkGap rf.yP rf.mP rf.dP rf.yQ rf.mQ rf.dQ).postReform.year = rf.yQ := rfl
    have hmk' : (mkGap rf.yP rf.mP rf.dP rf.yQ rf.mQ rf.dQ).preReform.year = rf.yP := rfl
    rw [hmk, hmk', hlen]
    simp only [oP']
    by_cases e : rf.yP = rf.yQ
    · have := rf.ordinal_order e
      simp only [e, if_true]
      refine ⟨by omega, by omega, by omega, by omega, by omega, by omega⟩
    · simp only [e, if_false]
      refine ⟨by omega, by omega, by omega, by omega, by omega, by omega⟩
  yrange := by
    intro j d hj h
    by_cases hj' : j < rf.R
    · obtain ⟨y, m, dd, h', hd, _⟩ := rf.atJdn_julian j hj'
      rw [h] at h'; cases h'
      exact (year_of_jdn_inI32 .julian j _ _ _ hj hd).2
    · obtain ⟨y, m, dd, h', hd, _⟩ := rf.atJdn_gregorian j (by omega)
      rw [h] at h'; cases h'
      exact (year_of_jdn_inI32 .gregorian j _ _ _ hj hd).2

end Reform

/-- every calendar a caller can hold -/
theorem WF.base {c : Calendar} (h : WF c) : Nonempty (Chk.Base c) := by
  rcases h.cases with rfl | rfl | ⟨rf, rfl, hR, hR1⟩
  · exact ⟨Chk.ruleCal_base .julian⟩
  · exact ⟨Chk.ruleCal_base .gregorian⟩
  · exact ⟨rf.base hR hR1⟩

end JV
