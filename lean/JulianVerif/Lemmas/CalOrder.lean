/-
Lemmas/CalOrder.lean — the key that `impl Ord for Calendar` compares, and `cmp` in terms of it.
-/
import JulianVerif.Lemmas.Proleptic
import JulianVerif.Lemmas.YearStart
import JulianVerif.Lemmas.Order
set_option linter.unusedSimpArgs false
namespace JV
open Spec

/-- rank of a calendar in the hand-written `Ord`: Julian < reforming(R) by R < Gregorian -/
def calKey : Calendar → Int × Int
  | .julian => (0, 0)
  | .reforming r _ => (1, r)
  | .gregorian => (2, 0)

theorem compare_int (a b : Int) :
    compare a b = if a < b then .lt else if a = b then .eq else .gt := by
  simp only [compare, compareOfLessAndEq]

theorem compare_int_lt (a b : Int) : compare a b = .lt ↔ a < b := by
  rw [compare_int]; by_cases h : a < b <;> by_cases h2 : a = b <;> simp [h, h2]

theorem compare_int_eq (a b : Int) : compare a b = .eq ↔ a = b := by
  rw [compare_int]; by_cases h : a < b <;> by_cases h2 : a = b <;> simp [h, h2] <;> omega

theorem compare_int_gt (a b : Int) : compare a b = .gt ↔ b < a := by
  rw [compare_int]; by_cases h : a < b <;> by_cases h2 : a = b <;> simp [h, h2] <;> omega

def keyLt (p q : Int × Int) : Prop := p.1 < q.1 ∨ (p.1 = q.1 ∧ p.2 < q.2)

/-- `Calendar::cmp` is the lexicographic order of (tag, reformation) -/
theorem cal_cmp_lt (a b : Calendar) : a.cmp b = .lt ↔ keyLt (calKey a) (calKey b) := by
  cases a <;> cases b <;> simp [Calendar.cmp, calKey, keyLt, compare_int_lt]

theorem cal_cmp_eq (a b : Calendar) : a.cmp b = .eq ↔ calKey a = calKey b := by
  cases a <;> cases b <;> simp [Calendar.cmp, calKey, compare_int_eq]

theorem cal_cmp_gt (a b : Calendar) : a.cmp b = .gt ↔ keyLt (calKey b) (calKey a) := by
  cases a <;> cases b <;> simp [Calendar.cmp, calKey, keyLt, compare_int_gt]


end JV
