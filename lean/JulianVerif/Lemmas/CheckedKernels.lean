/-
Lemmas/CheckedKernels.lean — no machine operation of the inner.rs conversion kernels
overflows: the checked functions of Model/Checked.lean return `some` of the unbounded model.
-/
import JulianVerif.Model.Checked
import JulianVerif.Lemmas.Arith
set_option linter.unusedSimpArgs false
namespace JV.Chk
open JV

theorem i32_some {x : Int} (h1 : -2147483648 ≤ x) (h2 : x ≤ 2147483647) : i32 x = some x := by
  simp [i32, inI32, h1, h2]
theorem u32_some {x : Int} (h1 : 0 ≤ x) (h2 : x ≤ 4294967295) : u32 x = some x := by
  simp [u32, inU32, h1, h2]
theorem i64_some {x : Int} (h1 : -9223372036854775808 ≤ x) (h2 : x ≤ 9223372036854775807) :
    i64 x = some x := by
  simp [i64, inI64, h1, h2]

theorem decomposeJulian_eq (days : Int) (h : InI32 days) :
    decomposeJulian days = some (JV.decomposeJulian days) := by
  simp only [InI32] at h
  simp only [decomposeJulian, JV.decomposeJulian, bind, pure]
  simp (disch := omega) only [i32_some, Option.bind_some]
  by_cases hc : days % 1461 > 365
  · simp only [if_pos hc]
    have e : (days % 1461 + (days % 1461 - 366) / 365).tmod 366
        = (days % 1461 + (days % 1461 - 366) / 365) % 366 :=
      Int.tmod_eq_emod_of_nonneg (by omega)
    rw [e]
    simp (disch := omega) only [i32_some, u32_some, Option.bind_some]
  · simp only [if_neg hc]
    have e : (days % 1461).tmod 366 = (days % 1461) % 366 := Int.tmod_eq_emod_of_nonneg (by omega)
    rw [e]
    simp (disch := omega) only [i32_some, u32_some, Option.bind_some]

/-- the range of `decompose_julian`'s results -/
theorem decomposeJulian_bounds (days : Int) :
    days / 1461 * 4 ≤ (JV.decomposeJulian days).1 ∧ (JV.decomposeJulian days).1 ≤ days / 1461 * 4 + 3
    ∧ 1 ≤ (JV.decomposeJulian days).2 ∧ (JV.decomposeJulian days).2 ≤ 366 := by
  simp only [JV.decomposeJulian]
  by_cases hc : days % 1461 > 365
  · simp only [if_pos hc]
    have e : (days % 1461 + (days % 1461 - 366) / 365).tmod 366
        = (days % 1461 + (days % 1461 - 366) / 365) % 366 :=
      Int.tmod_eq_emod_of_nonneg (by omega)
    rw [e]; omega
  · simp only [if_neg hc]
    have e : (days % 1461).tmod 366 = (days % 1461) % 366 := Int.tmod_eq_emod_of_nonneg (by omega)
    rw [e]; omega

theorem jdn2julian_eq (jd : Int) (h : InI32 jd) : jdn2julian jd = some (JV.jdn2julian jd) := by
  have hb := decomposeJulian_bounds jd
  simp only [InI32] at h
  simp only [jdn2julian, JV.jdn2julian, decomposeJulian_eq jd h, bind, pure, Option.bind_some]
  generalize JV.decomposeJulian jd = r at *
  obtain ⟨y, o⟩ := r
  simp only at hb ⊢
  simp (disch := omega) only [i32_some, Option.bind_some]

theorem jdn2julian_bounds (jd : Int) (h : InI32 jd) :
    -5884210 ≤ (JV.jdn2julian jd).1 ∧ (JV.jdn2julian jd).1 ≤ 5874790
    ∧ 1 ≤ (JV.jdn2julian jd).2 ∧ (JV.jdn2julian jd).2 ≤ 366 := by
  have hb := decomposeJulian_bounds jd
  simp only [InI32] at h
  simp only [JV.jdn2julian]
  generalize JV.decomposeJulian jd = r at *
  obtain ⟨y, o⟩ := r
  simp only at hb ⊢
  omega

theorem composeJulian_eq (years ordinal : Int) (hy : InI32 years) (h1 : 1 ≤ ordinal)
    (h2 : ordinal ≤ 367) :
    composeJulian years ordinal = some (JV.composeJulian years ordinal) := by
  simp only [InI32] at hy
  simp only [composeJulian, JV.composeJulian]
  split
  · rfl
  · rename_i hg
    simp only [Bool.or_eq_true, Bool.and_eq_true, decide_eq_true_eq, beq_iff_eq, not_or, not_and,
      Int.not_lt, Int.not_le] at hg
    have : (!decide (ordinal > 0)) = false := by simp; omega
    simp only [this, Bool.false_eq_true, if_false, bind, pure]
    simp (disch := omega) only [i32_some, u32_some, Option.bind_some]

theorem julian2jdn_eq (year ordinal : Int) (h1 : 1 ≤ ordinal) (h2 : ordinal ≤ 367) :
    julian2jdn year ordinal = some (JV.julian2jdn year ordinal) := by
  simp only [julian2jdn, JV.julian2jdn]
  split
  · rename_i hc
    apply composeJulian_eq _ _ _ h1 h2
    simpa [inI32, InI32] using hc
  · rfl

theorem jdn2gregorian_eq (jd : Int) (h : InI32 jd) :
    jdn2gregorian jd = some (JV.jdn2gregorian jd) := by
  simp only [InI32] at h
  simp only [jdn2gregorian, JV.jdn2gregorian]
  by_cases hn : jd < 0
  · simp only [if_pos hn, bind, pure]
    simp (disch := omega) only [i32_some, Option.bind_some]
    have hc : inI32 ((jd - -32104) % 146097 - 366) = true := by simp [inI32]; omega
    simp only [hc, if_true]
    obtain ⟨b, hq, hqc⟩ := tdiv_century ((jd - -32104) % 146097) (by omega)
    rw [hq]
    simp (disch := omega) only [i32_some, Option.bind_some]
    rw [decomposeJulian_eq _ (by simp only [InI32]; omega)]
    have hb := decomposeJulian_bounds ((jd - -32104) % 146097 + b)
    generalize JV.decomposeJulian _ = r at *
    obtain ⟨y, o⟩ := r
    simp only at hb ⊢
    simp (disch := omega) only [i32_some, Option.bind_some]
  · simp only [if_neg hn, bind, pure]
    simp (disch := omega) only [i32_some, Option.bind_some]
    have hc : inI32 ((jd - 113993) % 146097 - 366) = true := by simp [inI32]; omega
    simp only [hc, if_true]
    obtain ⟨b, hq, hqc⟩ := tdiv_century ((jd - 113993) % 146097) (by omega)
    rw [hq]
    simp (disch := omega) only [i32_some, Option.bind_some]
    rw [decomposeJulian_eq _ (by simp only [InI32]; omega)]
    have hb := decomposeJulian_bounds ((jd - 113993) % 146097 + b)
    generalize JV.decomposeJulian _ = r at *
    obtain ⟨y, o⟩ := r
    simp only at hb ⊢
    simp (disch := omega) only [i32_some, Option.bind_some]

theorem jdn2gregorian_bounds (jd : Int) (h : InI32 jd) :
    -5884400 ≤ (JV.jdn2gregorian jd).1 ∧ (JV.jdn2gregorian jd).1 ≤ 5874900
    ∧ 1 ≤ (JV.jdn2gregorian jd).2 ∧ (JV.jdn2gregorian jd).2 ≤ 366 := by
  simp only [InI32] at h
  simp only [JV.jdn2gregorian]
  by_cases hn : jd < 0
  · simp only [if_pos hn]
    obtain ⟨b, hq, hqc⟩ := tdiv_century ((jd - -32104) % 146097) (by omega)
    rw [hq]
    have hb := decomposeJulian_bounds ((jd - -32104) % 146097 + b)
    generalize JV.decomposeJulian _ = r at *
    obtain ⟨y, o⟩ := r
    simp only at hb ⊢
    omega
  · simp only [if_neg hn]
    obtain ⟨b, hq, hqc⟩ := tdiv_century ((jd - 113993) % 146097) (by omega)
    rw [hq]
    have hb := decomposeJulian_bounds ((jd - 113993) % 146097 + b)
    generalize JV.decomposeJulian _ = r at *
    obtain ⟨y, o⟩ := r
    simp only at hb ⊢
    omega

theorem gregorian2jdn_eq (year ordinal : Int) (hy : InI32 year) (h1 : 1 ≤ ordinal)
    (h2 : ordinal ≤ 366) :
    gregorian2jdn year ordinal = some (JV.gregorian2jdn year ordinal) := by
  simp only [InI32] at hy
  simp only [gregorian2jdn, JV.gregorian2jdn]
  split
  · rfl
  · rename_i hg
    simp only [Bool.or_eq_true, Bool.and_eq_true, decide_eq_true_eq, beq_iff_eq, not_or, not_and,
      Int.not_lt, Int.not_le] at hg
    simp only [bind, pure]
    simp (disch := omega) only [i32_some, u32_some, Option.bind_some]
    congr 2

theorem gapKindForDates_eq (y : Int) (m : Month) (y' : Int) (m' : Month) (hy : -2147483648 ≤ y)
    (hy' : y ≤ 2147483646) :
    gapKindForDates y m y' m' = some (GapKind.forDates y m y' m') := by
  simp only [gapKindForDates, GapKind.forDates, bind, pure]
  split
  · split <;> rfl
  · simp (disch := omega) only [i32_some, Option.bind_some]
    split <;> rfl

/-- inner.rs `cmp_int_range`: none of its `debug_assert!`s fires when `lower ≤ upper` (what
`ReformGap::cmp_year` passes), and the result is the pure model's -/
theorem cmpIntRange_eq (value lower upper : Int) (h : lower ≤ upper) :
    cmpIntRange value lower upper = some (JV.cmpIntRange value lower upper) := by
  simp only [cmpIntRange, JV.cmpIntRange, pure]
  have h' : (decide (lower ≤ upper)) = true := by simpa using h
  simp only [h', Bool.not_true, Bool.false_eq_true, if_false]
  by_cases h1 : value < lower
  · simp [h1]
  · by_cases h2 : lower = value
    · subst h2
      by_cases h3 : lower < upper
      · simp [h3]
      · have : lower = upper := by omega
        simp [h3, this]
    · have h4 : lower < value := by omega
      by_cases h5 : value < upper
      · simp [h1, h2, h4, h5]
      · by_cases h6 : value = upper
        · subst h6
          have a3 : ¬ value ≤ lower := by omega
          simp [h1, h2, a3]
        · have : upper < value := by omega
          simp [h1, h2, h4, h5, h6, this]

end JV.Chk
