/-
Lemmas/Order.lean — L5: labels increase strictly with the day number (C11).
-/
import JulianVerif.Lemmas.Counts
set_option linter.unusedSimpArgs false
namespace JV
open Spec

/-- `nth_day` is strictly increasing on a valid shape -/
theorem IShape.nthDay_strictMono (s : IShape) (hv : s.Valid) (k k' d d' : Int) (hk : 1 ≤ k) (hkk : k < k')
    (h : s.nthDay k = some d) (h' : s.nthDay k' = some d') : d < d' := by
  cases s with
  | normal L =>
    simp only [IShape.nthDay] at h h'
    split at h <;> split at h' <;> (try cases h) <;> (try cases h')
    omega
  | tailless L N =>
    simp only [IShape.nthDay] at h h'
    split at h <;> split at h' <;> (try cases h) <;> (try cases h')
    omega
  | headless a L =>
    simp only [IShape.nthDay] at h h'
    split at h <;> split at h' <;> (try cases h) <;> (try cases h')
    omega
  | gapped gs ge L =>
    simp only [IShape.Valid] at hv
    simp only [IShape.nthDay] at h h'
    have h0 : (k == 0) = false := by simp; omega
    have h0' : (k' == 0) = false := by simp; omega
    simp only [h0, h0', Bool.false_eq_true, if_false] at h h'
    (repeat' split at h) <;> (repeat' split at h') <;> (try cases h) <;> (try cases h') <;> omega

namespace Accepting
variable {c : Calendar} (A : Accepting c)

include A in
/-- **year / day-of-year pairs increase strictly with the day number** -/
theorem year_ordinal_mono (j j' : Int) (hlt : j < j') (d d' : Date)
    (h : c.atJdn? j = some d) (h' : c.atJdn? j' = some d') :
    d.year < d'.year ∨ (d.year = d'.year ∧ d.ordinal < d'.ordinal) := by
  obtain ⟨d0, hd0, _, _, hl, ho, ho1, ho2⟩ := A.block j
  rw [h] at hd0; cases hd0
  obtain ⟨d0', hd0', _, _, hl', ho', ho1', ho2'⟩ := A.block j'
  rw [h'] at hd0'; cases hd0'
  rcases Int.lt_trichotomy d.year d'.year with a | a | a
  · exact Or.inl a
  · refine Or.inr ⟨a, ?_⟩; rw [a] at ho; omega
  · have := A.mono d'.year d.year hl' hl a; omega

include A in
/-- **year/month/day labels increase strictly with the day number** -/
theorem label_mono (j j' : Int) (hlt : j < j') (d d' : Date)
    (h : c.atJdn? j = some d) (h' : c.atJdn? j' = some d') :
    d.year < d'.year ∨ (d.year = d'.year ∧ (d.month.number < d'.month.number
        ∨ (d.month = d'.month ∧ d.day < d'.day))) := by
  rcases A.year_ordinal_mono j j' hlt d d' h h' with a | ⟨ey, ho⟩
  · exact Or.inl a
  · refine Or.inr ⟨ey, ?_⟩
    obtain ⟨_, _, hp⟩ := atJdn?_parts c j d h
    obtain ⟨_, _, hp'⟩ := atJdn?_parts c j' d' h'
    rw [← ey] at hp'
    -- unpack both month walks in the common year
    have unpack : ∀ (o : Int) (m : Month) (dd k : Int),
        c.ordinal2ymddo d.year o = .ok (m, dd, k) →
        ∃ s, c.monthIShape d.year m = some s ∧ s.nthDay k = some dd ∧ 1 ≤ k ∧ k ≤ s.len
          ∧ o = prefixSum (c.lenOf d.year) m + k := by
      intro o m dd k hw
      simp only [Calendar.ordinal2ymddo] at hw
      split at hw
      · cases hw
      · rename_i hc
        simp only [Bool.or_eq_true, decide_eq_true_eq, not_or, Int.not_lt, gt_iff_lt] at hc
        obtain ⟨m', s', day', _, hs', hl', hn', hk1', hk2'⟩ :=
          Calendar.ordinal2ymddoLoop_spec c d.year Month.all o Calendar.all_nodup (A.valid d.year)
            hc.1 (by rw [← A.lenSum]; omega)
        rw [hl'] at hw
        injection hw with hw
        simp only [Prod.mk.injEq] at hw
        obtain ⟨e1, e2, e3⟩ := hw
        subst e1 e2 e3
        rw [sumBefore_all] at hn' hk1' hk2' ⊢
        exact ⟨s', hs', hn', hk1', hk2', by omega⟩
    obtain ⟨s, hs, hn, hk1, hk2, hoo⟩ := unpack _ _ _ _ hp
    obtain ⟨s', hs', hn', hk1', hk2', hoo'⟩ := unpack _ _ _ _ hp'
    have hL := c.lenOf_nonneg_of_valid d.year (A.valid d.year)
    have hLm : c.lenOf d.year d.month = s.len := by simp only [Calendar.lenOf, hs]
    have hLm' : c.lenOf d.year d'.month = s'.len := by simp only [Calendar.lenOf, hs']
    rcases Int.lt_trichotomy d.month.number d'.month.number with a | a | a
    · exact Or.inl a
    · have em := Month.number_inj _ _ a
      refine Or.inr ⟨em, ?_⟩
      rw [← em] at hs' hoo'
      rw [hs] at hs'; cases hs'
      exact s.nthDay_strictMono (A.valid d.year d.month (Calendar.mem_all _) s hs) _ _ _ _ hk1 (by omega) hn hn'
    · have := prefixSum_mono _ hL d'.month d.month a
      omega

end Accepting
end JV
