/-
Lemmas/GenScan.lean — inner.rs `scan` as generated (Model/GenLib.lean `scanG`:
`s.char_indices().find(|&(_, ch)| !predicate(ch)).map_or_else(|| s.len(), |(i, _)| i)` followed by
`s.split_at(boundary)`, with byte offsets) **never faults** — the offset it hands to `split_at` is a
character boundary of `s` — and is `Str.scanSt`, the function the generated date parser calls and
Lemmas/GenText.lean reasons about.
-/
import JulianVerif.Model.GenLib
set_option linter.unusedSimpArgs false
namespace JV.Gen
open JV

theorem cbytes_pos (c : Char) : 0 < Str.cbytes c := by
  have := Char.utf8Size_pos c
  simp only [Str.cbytes]; omega

theorem byteLen_nonneg (s : List Char) : 0 ≤ Str.byteLen s := by
  induction s with
  | nil => simp [Str.byteLen]
  | cons c cs ih => have := cbytes_pos c; simp only [Str.byteLen]; omega

theorem byteLen_append (a b : List Char) : Str.byteLen (a ++ b) = Str.byteLen a + Str.byteLen b := by
  induction a with
  | nil => simp [Str.byteLen]
  | cons c cs ih => simp only [List.cons_append, Str.byteLen, ih]; omega

/-- `split_at` at the end of a prefix succeeds and returns that prefix -/
theorem splitAt_prefix (pre rest : List Char) :
    Str.splitAt (pre ++ rest) (Str.byteLen pre) = some (pre, rest) := by
  induction pre with
  | nil => rw [Str.splitAt.eq_def]; simp [Str.byteLen]
  | cons c cs ih =>
    have hc := cbytes_pos c
    have hn := byteLen_nonneg cs
    have h0 : ¬ (Str.cbytes c + Str.byteLen cs = 0) := by omega
    have h1 : ¬ (Str.cbytes c + Str.byteLen cs < Str.cbytes c) := by omega
    have h2 : Str.cbytes c + Str.byteLen cs - Str.cbytes c = Str.byteLen cs := by omega
    simp only [List.cons_append, Str.byteLen]
    rw [Str.splitAt]
    simp only [h0, h1, if_false, h2, ih, Option.map]

/-- the closure `scan` hands to `find`: "the predicate refuses this character" -/
def refuses {σ : Type} (p : σ → Char → Bool × σ) (st : σ) (q : Int × Char) : Bool × σ :=
  (!(p st q.2).1, (p st q.2).2)

/-- `find` over the `char_indices` from offset `off` stops at the end of the prefix `scanSt` computes -/
theorem find_scan {σ : Type} (p : σ → Char → Bool × σ) (s : List Char) : ∀ (st : σ) (off : Int),
    Str.findSt (refuses p) st (Str.charIndicesFrom off s)
      = (match (Str.scanSt p st s).1.2 with
          | [] => none
          | c :: _ => some (off + Str.byteLen (Str.scanSt p st s).1.1, c),
         (Str.scanSt p st s).2) := by
  induction s with
  | nil => intro st off; simp [Str.findSt, Str.charIndicesFrom, Str.scanSt]
  | cons c cs ih =>
    intro st off
    simp only [Str.charIndicesFrom, Str.findSt, Str.scanSt, refuses]
    rcases hp : p st c with ⟨b, st'⟩
    cases b with
    | false => simp [Str.byteLen]
    | true =>
      simp only [Bool.not_true]
      rw [ih st' (off + Str.cbytes c)]
      rcases hs : Str.scanSt p st' cs with ⟨⟨ds, rest⟩, st''⟩
      simp only [Str.byteLen]
      cases rest with
      | nil => rfl
      | cons r rs => simp only [Prod.mk.injEq, Option.some.injEq, and_true]; omega

theorem scanSt_append {σ : Type} (p : σ → Char → Bool × σ) (s : List Char) : ∀ (st : σ),
    (Str.scanSt p st s).1.1 ++ (Str.scanSt p st s).1.2 = s := by
  induction s with
  | nil => intro st; simp [Str.scanSt]
  | cons c cs ih =>
    intro st
    simp only [Str.scanSt]
    rcases hp : p st c with ⟨b, st'⟩
    cases b with
    | false => simp
    | true =>
      have := ih st'
      rcases hs : Str.scanSt p st' cs with ⟨⟨ds, rest⟩, st''⟩
      rw [hs] at this
      simp only [hs]
      simpa using this

theorem scanG_def {σ : Type} (s : List Char) (p : σ → Char → Bool × σ) (st : σ) : scanG s p st =
    (match (Str.findSt (refuses p) st (Str.charIndices s)) with
      | (some (i, _), st') => (Str.splitAt s i).map fun r => (r, st')
      | (none, st') => (Str.splitAt s (Str.byteLen s)).map fun r => (r, st')) := by
  unfold scanG
  simp only [bind, Option.bind, pure]
  have hf : (fun (predicateSt : σ) (p_ : Int × Char) =>
      match p_ with
      | (_, ch) => match p predicateSt ch with | (t2, predicateSt) => (!t2, predicateSt)) = refuses p := by
    funext a q; obtain ⟨i, ch⟩ := q; simp only [refuses]
  simp only [hf]
  rcases Str.findSt (refuses p) st (Str.charIndices s) with ⟨_ | ⟨i, ch⟩, st'⟩
  · simp only []; cases Str.splitAt s (Str.byteLen s) <;> rfl
  · simp only []; cases Str.splitAt s i <;> rfl

/-- **inner.rs `scan` never panics and is `scanSt`**: for every text and every (stateful) predicate, the
byte offset found by `char_indices().find(..)` (or `len()`) is a character boundary, so `split_at`
succeeds, and the two pieces are the longest accepted prefix and the rest -/
theorem scanG_eq {σ : Type} (s : List Char) (p : σ → Char → Bool × σ) (st : σ) :
    scanG s p st = some (Str.scanSt p st s) := by
  rw [scanG_def, Str.charIndices, find_scan p s st 0]
  have happ := scanSt_append p s st
  rcases hs : Str.scanSt p st s with ⟨⟨pre, rest⟩, st'⟩
  rw [hs] at happ
  simp only at happ
  cases rest with
  | nil =>
    simp only []
    have : s = pre := by simpa using happ.symm
    subst this
    have h := splitAt_prefix s []
    simp only [List.append_nil] at h
    simp only [h, Option.map]
  | cons c cs =>
    simp only [Int.zero_add]
    rw [← happ, splitAt_prefix]
    simp only [Option.map]

end JV.Gen
