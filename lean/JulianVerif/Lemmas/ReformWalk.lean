/-
Lemmas/ReformWalk.lean — L4: `ordinal2ymddo` / `ymdo2ordinal` of a reforming calendar find
the month and day we say they find.
-/
import JulianVerif.Lemmas.ReformLength
set_option linter.unusedSimpArgs false
namespace JV
open Spec

namespace Reform
variable (rf : Reform)

theorem valid_all (y : Int) : ∀ m ∈ Month.all, ∀ s, rf.cal.monthIShape y m = some s → s.Valid :=
  fun m _ s hs => rf.shape_valid y m s hs

/-- if day-of-year `o` of year `y` lies in month `m` at in-month ordinal `k`, the walk of
`ordinal2ymddo` finds exactly that -/
theorem walk (y o : Int) (m : Month) (k : Int) (s : IShape) (day : Int)
    (hs : rf.cal.monthIShape y m = some s) (hk1 : 1 ≤ k) (hk2 : k ≤ s.len)
    (ho : o = prefixSum (rf.cal.lenOf y) m + k) (hn : s.nthDay k = some day) :
    rf.cal.ordinal2ymddo y o = .ok (m, day, k) := by
  have hL := rf.lenOf_nonneg y
  have hLm : rf.cal.lenOf y m = s.len := by simp only [Calendar.lenOf, hs]
  have hp0 := prefixSum_nonneg _ hL m
  have bm := Month.number_bounds m
  -- the ordinal is within the year
  have hend : prefixSum (rf.cal.lenOf y) m + rf.cal.lenOf y m ≤ rf.cal.sumAll y Month.all := by
    rw [sumAll_all]
    rcases Int.lt_or_eq_of_le bm.2 with a | a
    · have := prefixSum_mono _ hL m .december (by rw [dec_number]; exact a)
      have := hL .december
      omega
    · have : m = .december := Month.number_inj _ _ (by rw [dec_number]; exact a)
      subst this; exact Int.le_refl _
  have hrange : (decide (o < 1) || decide (o > rf.cal.yearLength y)) = false := by
    rw [rf.yearLength_eq_sumAll]; simp; omega
  simp only [Calendar.ordinal2ymddo, hrange, Bool.false_eq_true, if_false]
  obtain ⟨m', s', day', _, hs', hl, hn', hk1', hk2'⟩ :=
    Calendar.ordinal2ymddoLoop_spec rf.cal y Month.all o Calendar.all_nodup (rf.valid_all y)
      (by omega) (by omega)
  rw [sumBefore_all] at hl hn' hk1' hk2'
  have hLm' : rf.cal.lenOf y m' = s'.len := by simp only [Calendar.lenOf, hs']
  -- the day ranges of different months do not overlap
  have hmm : m' = m := by
    rcases Int.lt_trichotomy m'.number m.number with a | a | a
    · have := prefixSum_mono _ hL m' m a; omega
    · exact Month.number_inj _ _ a
    · have := prefixSum_mono _ hL m m' a; omega
  subst hmm
  rw [hs] at hs'; cases hs'
  have hkk : o - prefixSum (rf.cal.lenOf y) m' = k := by omega
  rw [hkk] at hl hn'
  rw [hn] at hn'; cases hn'
  exact hl

/-- `ymdo2ordinal` adds the in-month ordinal to the lengths of the preceding months -/
theorem ymdo2ordinal_eq (y : Int) (m : Month) (k : Int) :
    rf.cal.ymdo2ordinal y m k = prefixSum (rf.cal.lenOf y) m + k := by
  rw [Calendar.ymdo2ordinal_eq, sumBefore_all]

end Reform
end JV
