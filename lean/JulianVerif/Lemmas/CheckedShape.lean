/-
Lemmas/CheckedShape.lean — no u32 operation of the `MonthShape` methods overflows, for every
shape `month_shape` can return and every `u32` argument.
-/
import JulianVerif.Lemmas.CheckedKernels
import JulianVerif.Lemmas.Shapes
set_option linter.unusedSimpArgs false
namespace JV
open Spec

/-- a shape as `month_shape` returns it: proper, and no longer than a month -/
def IShape.Fits (s : IShape) : Prop := s.Proper ∧ s.naturalMax ≤ 31

namespace Chk

theorem len_eq (s : IShape) (h : s.Fits) : len s = some s.len := by
  obtain ⟨hp, hm⟩ := h
  cases s <;> simp only [IShape.Proper, IShape.naturalMax] at hp hm <;>
    simp only [len, IShape.len, bind, pure] <;>
    simp (disch := omega) only [u32_some, Option.bind_some]

theorem dayOrdinalErr_eq (s : IShape) (h : s.Fits) (y : Int) (m : Month) (d : Int) (hd : InU32 d) :
    dayOrdinalErr s y m d = some (s.dayOrdinalErr y m d) := by
  obtain ⟨hp, hm⟩ := h
  simp only [InU32] at hd
  cases s with
  | normal L =>
    simp only [dayOrdinalErr, IShape.dayOrdinalErr, pure]; split <;> rfl
  | headless a L =>
    simp only [IShape.Proper, IShape.naturalMax] at hp hm
    simp only [dayOrdinalErr, IShape.dayOrdinalErr, pure, bind]
    split
    · rename_i hc
      simp only [Bool.and_eq_true, decide_eq_true_eq] at hc
      simp (disch := omega) only [u32_some, Option.bind_some]
    · split <;> rfl
  | tailless L N =>
    simp only [IShape.Proper, IShape.naturalMax] at hp hm
    simp only [dayOrdinalErr, IShape.dayOrdinalErr, pure, bind]
    split
    · rfl
    · simp (disch := omega) only [u32_some, Option.bind_some]
      split <;> rfl
  | gapped gs ge L =>
    simp only [IShape.Proper, IShape.naturalMax] at hp hm
    simp only [dayOrdinalErr, IShape.dayOrdinalErr, pure, bind]
    split
    · rfl
    · rename_i hc
      simp only [Bool.or_eq_true, beq_iff_eq, decide_eq_true_eq, not_or] at hc
      split
      · rfl
      · split
        · rfl
        · simp (disch := omega) only [u32_some, Option.bind_some]

theorem nthDay_eq (s : IShape) (h : s.Fits) (n : Int) (hn : InU32 n) :
    nthDay s n = some (s.nthDay n) := by
  obtain ⟨hp, hm⟩ := h
  simp only [InU32] at hn
  cases s with
  | normal L => simp only [nthDay, IShape.nthDay, pure]
  | tailless L N => simp only [nthDay, IShape.nthDay, pure]
  | headless a L =>
    simp only [IShape.Proper, IShape.naturalMax] at hp hm
    simp only [nthDay, IShape.nthDay, pure, bind]
    by_cases h1 : 1 ≤ n
    · simp only [h1, if_true, decide_true, Bool.true_and, decide_eq_true_eq]
      simp (disch := omega) only [u32_some, Option.bind_some]
      split
      · simp (disch := omega) only [u32_some, Option.bind_some]
      · rfl
    · simp [h1]
  | gapped gs ge L =>
    simp only [IShape.Proper, IShape.naturalMax] at hp hm
    simp only [nthDay, IShape.nthDay, pure, bind]
    split
    · rfl
    · split
      · rfl
      · split
        · rfl
        · simp (disch := omega) only [u32_some, Option.bind_some]

theorem gap_eq (s : IShape) (h : s.Fits) : gap s = some s.gap := by
  obtain ⟨hp, hm⟩ := h
  cases s <;> simp only [IShape.Proper, IShape.naturalMax] at hp hm <;>
    simp only [gap, IShape.gap, bind, pure] <;>
    simp (disch := omega) only [u32_some, Option.bind_some]

end Chk
end JV
