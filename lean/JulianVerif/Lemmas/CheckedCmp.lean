/-
Lemmas/CheckedCmp.lean — the generated `cmp_int_range` / `cmp_ym_range` (Model/CheckedInner.lean,
with their `debug_assert!`s explicit) never fault under the precondition their callers
establish, and return what the pure model (Model/Inner.lean) computes.
-/
import JulianVerif.Lemmas.CheckedKernels
import JulianVerif.Lemmas.Cmp
set_option linter.unusedSimpArgs false
set_option maxHeartbeats 1000000
namespace JV.Chk

/-- unfold the generated comparison, split every branch, close by `rfl` or arithmetic -/
macro "chk_cmp_cases" : tactic => `(tactic| (
  unfold cmpYmRange
  simp only [ymKey, Month.lt, Month.le, Month.beq_eq_decide, Bool.or_eq_true,
    Bool.and_eq_true, decide_eq_true_eq, beq_iff_eq, Bool.not_eq_true', decide_eq_false_iff_not,
    pure] at *
  simp only [Bool.or_eq_false_iff, Bool.and_eq_false_imp, beq_eq_false_iff_ne, decide_eq_false_iff_not,
    beq_iff_eq, ne_eq] at *
  repeat' split
  all_goals first | rfl | (exfalso; omega)))

section
variable (y : Int) (m : Month) (ly : Int) (lm : Month) (uy : Int) (um : Month)

theorem cmpYmRange_less (h0 : ymKey ly lm ≤ ymKey uy um) (h : ymKey y m < ymKey ly lm) :
    cmpYmRange (y, m) (ly, lm) (uy, um) = some .less := by
  have bm := Month.number_bounds m; have bl := Month.number_bounds lm
  have bu := Month.number_bounds um
  chk_cmp_cases

theorem cmpYmRange_eqLower (h0 : ymKey ly lm ≤ ymKey uy um) (h1 : ymKey y m = ymKey ly lm)
    (h2 : ymKey y m < ymKey uy um) : cmpYmRange (y, m) (ly, lm) (uy, um) = some .eqLower := by
  have bm := Month.number_bounds m; have bl := Month.number_bounds lm
  have bu := Month.number_bounds um
  chk_cmp_cases

theorem cmpYmRange_eqBoth (h0 : ymKey ly lm ≤ ymKey uy um) (h1 : ymKey y m = ymKey ly lm)
    (h2 : ymKey y m = ymKey uy um) : cmpYmRange (y, m) (ly, lm) (uy, um) = some .eqBoth := by
  have bm := Month.number_bounds m; have bl := Month.number_bounds lm
  have bu := Month.number_bounds um
  chk_cmp_cases

theorem cmpYmRange_between (h0 : ymKey ly lm ≤ ymKey uy um) (h1 : ymKey ly lm < ymKey y m)
    (h2 : ymKey y m < ymKey uy um) : cmpYmRange (y, m) (ly, lm) (uy, um) = some .between := by
  have bm := Month.number_bounds m; have bl := Month.number_bounds lm
  have bu := Month.number_bounds um
  chk_cmp_cases

theorem cmpYmRange_eqUpper (h0 : ymKey ly lm ≤ ymKey uy um) (h1 : ymKey ly lm < ymKey y m)
    (h2 : ymKey y m = ymKey uy um) : cmpYmRange (y, m) (ly, lm) (uy, um) = some .eqUpper := by
  have bm := Month.number_bounds m; have bl := Month.number_bounds lm
  have bu := Month.number_bounds um
  chk_cmp_cases

theorem cmpYmRange_greater (h0 : ymKey ly lm ≤ ymKey uy um) (h1 : ymKey ly lm < ymKey y m)
    (h2 : ymKey uy um < ymKey y m) : cmpYmRange (y, m) (ly, lm) (uy, um) = some .greater := by
  have bm := Month.number_bounds m; have bl := Month.number_bounds lm
  have bu := Month.number_bounds um
  chk_cmp_cases

/-- inner.rs `cmp_ym_range`: no `debug_assert!` fires when the lower (year, month) pair is not
after the upper one (what `ReformGap::cmp_year_month` passes: last Julian month ≤ first
Gregorian month), and the result is the pure model's -/
theorem cmpYmRange_eq (h0 : ymKey ly lm ≤ ymKey uy um) :
    cmpYmRange (y, m) (ly, lm) (uy, um) = some (JV.cmpYmRange y m ly lm uy um) := by
  rcases Int.lt_trichotomy (ymKey y m) (ymKey ly lm) with h | h | h
  · rw [cmpYmRange_less y m ly lm uy um h0 h, JV.cmpYmRange_less y m ly lm uy um h]
  · by_cases h2 : ymKey y m < ymKey uy um
    · rw [cmpYmRange_eqLower y m ly lm uy um h0 h h2, JV.cmpYmRange_eqLower y m ly lm uy um h h2]
    · have h3 : ymKey y m = ymKey uy um := by omega
      rw [cmpYmRange_eqBoth y m ly lm uy um h0 h h3, JV.cmpYmRange_eqBoth y m ly lm uy um h h3]
  · rcases Int.lt_trichotomy (ymKey y m) (ymKey uy um) with h2 | h2 | h2
    · rw [cmpYmRange_between y m ly lm uy um h0 h h2, JV.cmpYmRange_between y m ly lm uy um h0 h h2]
    · rw [cmpYmRange_eqUpper y m ly lm uy um h0 h h2, JV.cmpYmRange_eqUpper y m ly lm uy um h0 h h2]
    · rw [cmpYmRange_greater y m ly lm uy um h0 h h2, JV.cmpYmRange_greater y m ly lm uy um h0 h h2]

end

end JV.Chk
