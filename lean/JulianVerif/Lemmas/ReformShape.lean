/-
Lemmas/ReformShape.lean — L3: `month_shape` of a reforming calendar, region by region.
-/
import JulianVerif.Lemmas.ReformYear
set_option linter.unusedSimpArgs false
namespace JV
open Spec

namespace Reform
variable (rf : Reform)

theorem naturalLength_eq (y : Int) (m : Month) (h : ¬ rf.Between y m) :
    rf.cal.naturalLength y m = monthLen (rf.natLp y m) m := by
  cases m
  case february =>
    rw [naturalLength_feb rf y h]
    cases rf.natLp y .february <;> rfl
  all_goals (cases h2 : rf.natLp y _ <;> simp [Calendar.naturalLength, monthLen])

theorem monthIShape_raw (y : Int) (m : Month) :
    rf.cal.monthIShape y m =
      match cmpYmRange y m rf.yP rf.mP rf.yQ rf.mQ with
      | .eqLower | .eqBoth =>
        if GapKind.forDates rf.yP rf.mP rf.yQ rf.mQ == .intraMonth then
          some (.gapped (rf.dP + 1) (rf.dQ - 1) (rf.cal.naturalLength y m))
        else if rf.dP == rf.cal.naturalLength y m then some (.normal (rf.cal.naturalLength y m))
        else some (.tailless rf.dP (rf.cal.naturalLength y m))
      | .between => none
      | .eqUpper =>
        if rf.dQ > 1 then some (.headless rf.dQ (rf.cal.naturalLength y m))
        else some (.normal (rf.cal.naturalLength y m))
      | _ => some (.normal (rf.cal.naturalLength y m)) := by
  simp only [Calendar.monthIShape, gap_eq, cmpYearMonth_eq]
  rfl

theorem shape_before (y : Int) (m : Month) (h : ymKey y m < ymKey rf.yP rf.mP) :
    rf.cal.monthIShape y m = some (.normal (monthLen (leap .julian y) m)) := by
  have hle := rf.ym_le
  rw [monthIShape_raw, cmpYmRange_less _ _ _ _ _ _ h]
  have hnb : ¬ rf.Between y m := by simp only [Between]; omega
  have hn : rf.natLp y m = leap .julian y := by
    simp only [natLp]; rw [if_pos (by omega)]
  simp only [naturalLength_eq rf y m hnb, hn]

theorem shape_after (y : Int) (m : Month) (h : ymKey rf.yQ rf.mQ < ymKey y m) :
    rf.cal.monthIShape y m = some (.normal (monthLen (leap .gregorian y) m)) := by
  have hle := rf.ym_le
  rw [monthIShape_raw, cmpYmRange_greater _ _ _ _ _ _ hle (by omega) h]
  have hnb : ¬ rf.Between y m := by simp only [Between]; omega
  have hn : rf.natLp y m = leap .gregorian y := by
    simp only [natLp]; rw [if_neg (by omega)]
  simp only [naturalLength_eq rf y m hnb, hn]

theorem shape_between (y : Int) (m : Month) (h1 : ymKey rf.yP rf.mP < ymKey y m)
    (h2 : ymKey y m < ymKey rf.yQ rf.mQ) : rf.cal.monthIShape y m = none := by
  rw [monthIShape_raw, cmpYmRange_between _ _ _ _ _ _ rf.ym_le h1 h2]

/-- the month of the last Julian date, when the first Gregorian date is in a later month -/
theorem shape_P (h : ymKey rf.yP rf.mP < ymKey rf.yQ rf.mQ) :
    rf.cal.monthIShape rf.yP rf.mP =
      if rf.dP = monthLen (leap .julian rf.yP) rf.mP then some (.normal (monthLen (leap .julian rf.yP) rf.mP))
      else some (.tailless rf.dP (monthLen (leap .julian rf.yP) rf.mP)) := by
  rw [monthIShape_raw, cmpYmRange_eqLower _ _ _ _ _ _ rfl h]
  have hnb : ¬ rf.Between rf.yP rf.mP := by simp only [Between]; omega
  have hn : rf.natLp rf.yP rf.mP = leap .julian rf.yP := by
    simp only [natLp]; rw [if_pos h]
  have hk : (GapKind.forDates rf.yP rf.mP rf.yQ rf.mQ == .intraMonth) = false := by
    rw [kind_eq]
    have bP := Month.number_bounds rf.mP
    have bQ := Month.number_bounds rf.mQ
    simp only [ymKey] at h
    by_cases e : rf.yP = rf.yQ
    · have : ¬ rf.mP = rf.mQ := by intro e2; rw [e, e2] at h; omega
      simp [e, this]
    · by_cases e2 : rf.yP + 1 = rf.yQ <;> simp [e, e2]
  simp only [naturalLength_eq rf _ _ hnb, hn, hk, Bool.false_eq_true, if_false, beq_iff_eq]

/-- the month of the first Gregorian date, when the last Julian date is in an earlier month -/
theorem shape_Q (h : ymKey rf.yP rf.mP < ymKey rf.yQ rf.mQ) :
    rf.cal.monthIShape rf.yQ rf.mQ =
      if rf.dQ > 1 then some (.headless rf.dQ (monthLen (leap .gregorian rf.yQ) rf.mQ))
      else some (.normal (monthLen (leap .gregorian rf.yQ) rf.mQ)) := by
  rw [monthIShape_raw, cmpYmRange_eqUpper _ _ _ _ _ _ rf.ym_le h rfl]
  have hnb : ¬ rf.Between rf.yQ rf.mQ := by simp only [Between]; omega
  have hn : rf.natLp rf.yQ rf.mQ = leap .gregorian rf.yQ := by
    simp only [natLp]; rw [if_neg (by omega)]
  simp only [naturalLength_eq rf _ _ hnb, hn]

/-- the month containing both the last Julian and the first Gregorian date -/
theorem shape_PQ (h : ymKey rf.yP rf.mP = ymKey rf.yQ rf.mQ) :
    rf.cal.monthIShape rf.yQ rf.mQ =
      some (.gapped (rf.dP + 1) (rf.dQ - 1) (monthLen (leap .gregorian rf.yQ) rf.mQ)) := by
  obtain ⟨ey, em⟩ := (ymKey_eq _ _ _ _).mp h
  rw [monthIShape_raw, cmpYmRange_eqBoth _ _ _ _ _ _ h.symm rfl]
  have hnb : ¬ rf.Between rf.yQ rf.mQ := by simp only [Between]; omega
  have hn : rf.natLp rf.yQ rf.mQ = leap .gregorian rf.yQ := by
    simp only [natLp]; rw [if_neg (by omega)]
  have hk : (GapKind.forDates rf.yP rf.mP rf.yQ rf.mQ == .intraMonth) = true := by
    rw [kind_eq]; simp [ey, em]
  simp only [naturalLength_eq rf _ _ hnb, hn, hk, if_true]

end Reform
end JV
