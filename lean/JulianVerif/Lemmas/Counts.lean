/-
Lemmas/Counts.lean — L5: ordinals are gap-free counts (C04) and the year length is the
number of days of the year (C08), for every tiled calendar.
-/
import JulianVerif.Lemmas.AcceptInst
set_option linter.unusedSimpArgs false
namespace JV
open Spec

namespace Accepting
variable {c : Calendar} (A : Accepting c)

include A in
theorem yearLength_nonneg (y : Int) : 0 ≤ c.yearLength y := by
  rw [A.lenSum y, sumAll_all]
  have hL := c.lenOf_nonneg_of_valid y (A.valid y)
  have := prefixSum_nonneg _ hL .december
  have := hL .december
  omega

include A in
/-- the days whose date falls in year `y` are exactly the block of `y` -/
theorem year_block (y : Int) (hl : A.Live y) (j : Int) (d : Date) (h : c.atJdn? j = some d) :
    d.year = y ↔ (A.F y ≤ j ∧ j < A.F y + c.yearLength y) := by
  obtain ⟨d0, hd0, _, _, hl0, ho, ho1, ho2⟩ := A.block j
  rw [h] at hd0; cases hd0
  constructor
  · intro e; subst e; constructor <;> omega
  · intro ⟨h1, h2⟩
    exact A.toYearTiling.block_unique d.year y j hl0 hl (by omega) (by omega) h1 h2

include A in
/-- a year without dates has length 0 and no day falls in it -/
theorem year_dead (y : Int) (hl : ¬ A.Live y) :
    c.yearLength y = 0 ∧ ∀ j d, c.atJdn? j = some d → d.year ≠ y := by
  constructor
  · have := A.yearLength_nonneg y
    by_cases h : 0 < c.yearLength y
    · exact absurd (A.live_of_len y h) hl
    · omega
  · intro j d h e
    obtain ⟨d0, hd0, _, _, hl0, _⟩ := A.block j
    rw [h] at hd0; cases hd0
    rw [e] at hl0; exact hl hl0

include A in
/-- **C04: the day-of-year is one plus the number of earlier days of the same year**: with
`f` the first day of the year, every day `f..j` is in the year, day `f-1` is not, and the
ordinal is `j - f + 1` -/
theorem ordinal_counts (j : Int) (d : Date) (h : c.atJdn? j = some d) :
    ∃ f, f ≤ j ∧ d.ordinal = j - f + 1
      ∧ (∀ k d', f ≤ k → k ≤ j → c.atJdn? k = some d' → d'.year = d.year)
      ∧ (∀ d', c.atJdn? (f - 1) = some d' → d'.year ≠ d.year) := by
  obtain ⟨d0, hd0, _, _, hl0, ho, ho1, ho2⟩ := A.block j
  rw [h] at hd0; cases hd0
  refine ⟨A.F d.year, by omega, ho, ?_, ?_⟩
  · intro k d' h1 h2 hk
    exact (A.year_block d.year hl0 k d' hk).mpr ⟨h1, by omega⟩
  · intro d' hk e
    have := (A.year_block d.year hl0 _ d' hk).mp e
    omega

include A in
/-- the last date of a year has the year's length as its ordinal -/
theorem last_of_year (j : Int) (d d' : Date) (h : c.atJdn? j = some d)
    (h' : c.atJdn? (j + 1) = some d') : d'.year ≠ d.year ↔ d.ordinal = c.yearLength d.year := by
  obtain ⟨d0, hd0, _, _, hl0, ho, ho1, ho2⟩ := A.block j
  rw [h] at hd0; cases hd0
  have hb := A.year_block d.year hl0 (j + 1) d' h'
  constructor
  · intro hne
    by_cases e : d.ordinal = c.yearLength d.year
    · exact e
    · exfalso; apply hne; apply hb.mpr; constructor <;> omega
  · intro e hy
    have := hb.mp hy
    omega

include A in
/-- the date at in-month ordinal `k'` of month `m` of year `y` -/
theorem date_of_month_ordinal (y : Int) (hl : A.Live y) (m : Month) (s : IShape)
    (hs : c.monthIShape y m = some s) (k' : Int) (h1 : 1 ≤ k') (h2 : k' ≤ s.len) :
    ∃ d, c.atJdn? (A.F y + prefixSum (c.lenOf y) m + k' - 1) = some d
      ∧ d.year = y ∧ d.month = m ∧ d.dayOrdinal = k' := by
  obtain ⟨day, hday⟩ := (s.nthDay_some_iff (A.valid y m (Calendar.mem_all m) s hs) k' (by omega)).mpr ⟨h1, h2⟩
  obtain ⟨hw, ho1, ho2⟩ := Calendar.walk_generic c y (prefixSum (c.lenOf y) m + k') m k' s day
    (A.valid y) (A.lenSum y) hs h1 h2 rfl hday
  obtain ⟨d, hd, hy, ho⟩ := A.toYearTiling.atJdn_of_block y (A.F y + prefixSum (c.lenOf y) m + k' - 1) hl
    (by omega) (by omega)
  obtain ⟨_, _, hp⟩ := atJdn?_parts c _ d hd
  have e : d.ordinal = prefixSum (c.lenOf y) m + k' := by omega
  rw [hy, e, hw] at hp
  injection hp with hp
  simp only [Prod.mk.injEq] at hp
  exact ⟨d, hd, hy, hp.1.symm, hp.2.2.symm⟩

include A in
/-- **C04: the in-month ordinal is one plus the number of earlier days of the same month**:
with `f` the first day of the month, every day `f..j` is in the same year and month, day
`f-1` is not, and the in-month ordinal is `j - f + 1` -/
theorem dayOrdinal_counts (j : Int) (d : Date) (h : c.atJdn? j = some d) :
    ∃ f, f ≤ j ∧ d.dayOrdinal = j - f + 1
      ∧ (∀ k d', f ≤ k → k ≤ j → c.atJdn? k = some d' → d'.year = d.year ∧ d'.month = d.month)
      ∧ (∀ d', c.atJdn? (f - 1) = some d' → ¬ (d'.year = d.year ∧ d'.month = d.month)) := by
  obtain ⟨d0, hd0, _, _, hl0, ho, ho1, ho2⟩ := A.block j
  rw [h] at hd0; cases hd0
  obtain ⟨_, _, hp⟩ := atJdn?_parts c j d h
  -- where the day sits in its month
  obtain ⟨hdo, hyo, _, _⟩ := Calendar.ordinal2ymddo_inv c d.year d.ordinal d.month d.day d.dayOrdinal
    (A.valid d.year) (A.lenSum d.year) hp
  rw [Calendar.ymdo2ordinal_eq, sumBefore_all] at hyo
  simp only [Calendar.getDayOrdinal] at hdo
  cases hs : c.monthIShape d.year d.month with
  | none => rw [hs] at hdo; cases hdo
  | some s =>
    rw [hs] at hdo; simp only at hdo
    have hL := c.lenOf_nonneg_of_valid d.year (A.valid d.year)
    have hp0 := prefixSum_nonneg _ hL d.month
    -- the in-month ordinal is between 1 and the month's length
    have hk : 1 ≤ d.dayOrdinal ∧ d.dayOrdinal ≤ s.len := by
      -- from the walk: ordinal2ymddo found (month, day, dayOrdinal)
      simp only [Calendar.ordinal2ymddo] at hp
      split at hp
      · cases hp
      · rename_i hc
        simp only [Bool.or_eq_true, decide_eq_true_eq, not_or, Int.not_lt, gt_iff_lt] at hc
        obtain ⟨m', s', day', _, hs', hl', hn', hk1', hk2'⟩ :=
          Calendar.ordinal2ymddoLoop_spec c d.year Month.all d.ordinal Calendar.all_nodup (A.valid d.year)
            hc.1 (by rw [← A.lenSum]; omega)
        rw [hl'] at hp
        injection hp with hp
        simp only [Prod.mk.injEq] at hp
        obtain ⟨e1, e2, e3⟩ := hp
        rw [e1, hs] at hs'; cases hs'
        rw [← e3]; exact ⟨hk1', hk2'⟩
    refine ⟨j - d.dayOrdinal + 1, by omega, by omega, ?_, ?_⟩
    · intro k d' h1 h2 hk'
      obtain ⟨d2, hd2, hy2, hm2, _⟩ :=
        A.date_of_month_ordinal d.year hl0 d.month s hs (k - (j - d.dayOrdinal)) (by omega) (by omega)
      have e : A.F d.year + prefixSum (c.lenOf d.year) d.month + (k - (j - d.dayOrdinal)) - 1 = k := by omega
      rw [e, hk'] at hd2
      cases hd2
      exact ⟨hy2, hm2⟩
    · intro d' hk' ⟨ey, em⟩
      -- the day before the month's first day: in another month or another year
      obtain ⟨d0', hd0', _, _, hl0', ho', ho1', ho2'⟩ := A.block (j - d.dayOrdinal + 1 - 1)
      rw [hk'] at hd0'; cases hd0'
      obtain ⟨_, _, hp'⟩ := atJdn?_parts c _ d' hk'
      obtain ⟨hdo', hyo', _, _⟩ := Calendar.ordinal2ymddo_inv c d'.year d'.ordinal d'.month d'.day d'.dayOrdinal
        (A.valid d'.year) (A.lenSum d'.year) hp'
      rw [Calendar.ymdo2ordinal_eq, sumBefore_all] at hyo'
      rw [ey, em] at hyo'
      rw [ey] at ho'
      -- its in-month ordinal would be ≥ 1, but its day-of-year is the month's prefix sum
      simp only [Calendar.ordinal2ymddo] at hp'
      split at hp'
      · cases hp'
      · rename_i hc
        simp only [Bool.or_eq_true, decide_eq_true_eq, not_or, Int.not_lt, gt_iff_lt] at hc
        obtain ⟨m', s', day', _, hs', hl', hn', hk1', hk2'⟩ :=
          Calendar.ordinal2ymddoLoop_spec c d'.year Month.all d'.ordinal Calendar.all_nodup (A.valid d'.year)
            hc.1 (by rw [← A.lenSum]; omega)
        rw [hl'] at hp'
        injection hp' with hp'
        simp only [Prod.mk.injEq] at hp'
        obtain ⟨e1, e2, e3⟩ := hp'
        omega

end Accepting
end JV
