/-
Lemmas/GenText.lean — the generated date parser (Model/GenLib.lean: `DateParser::{new, is_empty,
scan_char, parse_uint, parse_int, parse_day_in_year}` and `Calendar::parse_date`, translated from
inner.rs / lib.rs by bin/libgen) is the hand-written parser of Model/Text.lean, which the theorems of
Props/C13.lean (round trip, grammar, error values) are about.
-/
import JulianVerif.Lemmas.GenLib
import JulianVerif.Lemmas.GenLibWF
import JulianVerif.Lemmas.Grammar
import JulianVerif.Props.C05
set_option linter.unusedSimpArgs false
set_option linter.unusedVariables false
set_option maxRecDepth 8000
namespace JV.Gen
open JV

/-- a `&mut self` parser step the way the hand-written model states it: on success the value with the
rest of the text, on failure the error (the parser is dropped) -/
def toHand {ε α : Type} (r : Except ε α × List Char) : Except ε (α × List Char) :=
  match r.1 with
  | .ok a => .ok (a, r.2)
  | .error e => .error e

/-- `scan` with the stateless predicate `is_ascii_digit` is `spanDigits` -/
theorem scanSt_digits (s : List Char) :
    (Str.scanSt (fun (_st : Unit) (c : Char) => (isAsciiDigit c, ())) () s).1 = spanDigits s := by
  induction s with
  | nil => rfl
  | cons c cs ih =>
    simp only [Str.scanSt, spanDigits]
    by_cases hc : isAsciiDigit c = true
    · simp only [hc, if_true]
      rw [← ih]
    · have hc' : isAsciiDigit c = false := by simpa using hc
      simp only [hc', Bool.false_eq_true, if_false]

theorem digit_not_sign (c : Char) (h : isAsciiDigit c = true) : c ≠ '+' ∧ c ≠ '-' := by
  constructor <;> (intro e; subst e; revert h; decide)

theorem all_digits (ds : List Char) (hd : ∀ c ∈ ds, isAsciiDigit c = true) : ds.all isAsciiDigit = true := by
  simpa [List.all_eq_true] using hd

theorem parseDigits_digits (d : Char) (ds : List Char) (hd : ∀ c ∈ d :: ds, isAsciiDigit c = true) :
    Str.parseDigits (d :: ds) = some (digitsVal (d :: ds) 0) := by
  simp only [Str.parseDigits, List.isEmpty_cons, Bool.false_eq_true, if_false, all_digits _ hd, if_true]

theorem parseU32_digits (d : Char) (ds : List Char) (hd : ∀ c ∈ d :: ds, isAsciiDigit c = true) :
    Str.parseU32 (d :: ds)
      = if digitsVal (d :: ds) 0 ≤ 4294967295 then some ((digitsVal (d :: ds) 0 : Nat) : Int) else none := by
  have hne := (digit_not_sign d (hd d (by simp))).1
  unfold Str.parseU32
  split
  · rename_i r heq
    injection heq with h1 _
    exact absurd h1 hne
  · simp only [parseDigits_digits d ds hd]

theorem dateParserScanChar_eq (s : List Char) (ch : Char) :
    toHand (dateParserScanChar s ch) = (scanChar ch s).map (fun r => ((), r)) := by
  cases s with
  | nil => simp [dateParserScanChar, Str.stripPrefixChar, scanChar, toHand, Except.map]
  | cons c cs =>
    by_cases h : (c == ch) = true
    · simp [dateParserScanChar, Str.stripPrefixChar, scanChar, toHand, Except.map, h]
    · have h' : (c == ch) = false := by simpa using h
      simp [dateParserScanChar, Str.stripPrefixChar, scanChar, toHand, Except.map, h']

theorem dateParserParseUint_eq (s : List Char) :
    toHand (dateParserParseUint s) = parseUInt s := by
  obtain ⟨⟨⟨ds, rest⟩, st⟩, hx⟩ : ∃ x, Str.scanSt (fun (_st : Unit) (c : Char) => (isAsciiDigit c, ())) () s = x := ⟨_, rfl⟩
  have hsp : spanDigits s = (ds, rest) := by rw [← scanSt_digits, hx]
  obtain ⟨e, hd, hr⟩ := spanDigits_spec s ds rest hsp
  unfold dateParserParseUint parseUInt
  simp only [hx, hsp]
  cases ds with
  | nil =>
    cases s with
    | nil => simp [toHand]
    | cons c cs => simp [toHand]
  | cons d ds' =>
    simp only [parseU32_digits d ds' hd]
    by_cases hle : digitsVal (d :: ds') 0 ≤ 4294967295
    · simp [toHand, hle]
    · simp [toHand, hle]

/-- the predicate `parse_int` hands to `scan`: a sign is accepted as the first character only -/
def signPred (first : Bool) (c : Char) : Bool × Bool :=
  ((first && (c == '-' || c == '+')) || isAsciiDigit c, false)

theorem scanSt_signPred_false (s : List Char) : (Str.scanSt signPred false s).1 = spanDigits s := by
  induction s with
  | nil => rfl
  | cons c cs ih =>
    simp only [Str.scanSt, spanDigits, signPred, Bool.false_and, Bool.false_or]
    by_cases hc : isAsciiDigit c = true
    · simp only [hc, if_true]
      rw [← ih]
    · have hc' : isAsciiDigit c = false := by simpa using hc
      simp only [hc', Bool.false_eq_true, if_false]

theorem scanSt_signPred_true (c : Char) (cs : List Char) :
    (Str.scanSt signPred true (c :: cs)).1
      = if ((c == '-' || c == '+') || isAsciiDigit c) = true then (c :: (spanDigits cs).1, (spanDigits cs).2)
        else ([], c :: cs) := by
  simp only [Str.scanSt, signPred, Bool.true_and]
  by_cases h : ((c == '-' || c == '+') || isAsciiDigit c) = true
  · simp only [h, if_true]
    rw [← scanSt_signPred_false cs]
  · have h' : ((c == '-' || c == '+') || isAsciiDigit c) = false := by simpa using h
    simp only [h', Bool.false_eq_true, if_false]

theorem parseDigits_nil : Str.parseDigits [] = none := rfl

theorem parseDigits_all (ds : List Char) (hd : ∀ c ∈ ds, isAsciiDigit c = true) :
    Str.parseDigits ds = if ds.isEmpty then none else some (digitsVal ds 0) := by
  cases ds with
  | nil => rfl
  | cons d ds' => simp [parseDigits_digits d ds' hd]

theorem parseI32_minus (ds : List Char) : Str.parseI32 ('-' :: ds) =
    match Str.parseDigits ds with
    | some n => if inI32 (-(n : Int)) then some (-(n : Int)) else none
    | none => none := by
  simp only [Str.parseI32]
  cases Str.parseDigits ds <;> rfl

theorem parseI32_plus (ds : List Char) : Str.parseI32 ('+' :: ds) =
    match Str.parseDigits ds with
    | some n => if inI32 (n : Int) then some (n : Int) else none
    | none => none := by
  simp only [Str.parseI32]
  cases Str.parseDigits ds <;> rfl

theorem parseI32_digit (d : Char) (ds : List Char) (h : isAsciiDigit d = true) : Str.parseI32 (d :: ds) =
    match Str.parseDigits (d :: ds) with
    | some n => if inI32 (n : Int) then some (n : Int) else none
    | none => none := by
  obtain ⟨h1, h2⟩ := digit_not_sign d h
  unfold Str.parseI32
  split
  · rename_i r heq; injection heq with e _; exact absurd e h2
  · rename_i r heq; injection heq with e _; exact absurd e h1
  · cases Str.parseDigits (d :: ds) <;> rfl

theorem dateParserParseInt_def (s : List Char) : dateParserParseInt s =
    (match (Str.scanSt signPred true s).1 with
      | ([], _) =>
        (match List.head? s with
          | some got => Except.error (ParseDateError.invalidIntStart got)
          | none => Except.error ParseDateError.emptyInt, s)
      | (numstr, rest) =>
        match Str.parseI32 numstr with
        | some n => (Except.ok n, rest)
        | none => (Except.error ParseDateError.parseInt, s)) := rfl

theorem dateParserParseInt_eq (s : List Char) :
    toHand (dateParserParseInt s) = parseInt s := by
  rw [dateParserParseInt_def]
  cases s with
  | nil => simp [Str.scanSt, toHand, parseInt]
  | cons c cs =>
    rw [scanSt_signPred_true]
    obtain ⟨ds, rest, hsp⟩ : ∃ ds rest, spanDigits cs = (ds, rest) := ⟨_, _, rfl⟩
    obtain ⟨e, hd, hr⟩ := spanDigits_spec cs ds rest hsp
    by_cases hsign : (c == '-' || c == '+') = true
    · simp only [hsign, Bool.true_or, if_true, hsp, parseInt]
      have hcs : c = '-' ∨ c = '+' := by simpa using hsign
      rcases hcs with rfl | rfl
      · simp only [parseI32_minus, parseDigits_all ds hd]
        cases ds with
        | nil => simp [toHand]
        | cons d ds' =>
          by_cases hin : inI32 (-((digitsVal (d :: ds') 0 : Nat) : Int)) = true
          · simp [toHand, hin]
          · simp [toHand, hin]
      · simp only [parseI32_plus, parseDigits_all ds hd]
        cases ds with
        | nil => simp [toHand]
        | cons d ds' =>
          by_cases hin : inI32 (((digitsVal (d :: ds') 0 : Nat) : Int)) = true
          · simp [toHand, hin]
          · simp [toHand, hin]
    · have hsign' : (c == '-' || c == '+') = false := by simpa using hsign
      by_cases hdig : isAsciiDigit c = true
      · have hsp2 : spanDigits (c :: cs) = (c :: ds, rest) := by simp [spanDigits, hdig, hsp]
        have hd2 : ∀ x ∈ c :: ds, isAsciiDigit x = true := by
          intro x hx
          rcases List.mem_cons.mp hx with rfl | hx
          · exact hdig
          · exact hd x hx
        simp only [hsign', hdig, Bool.false_or, if_true, hsp, parseInt, hsp2, Bool.false_eq_true, if_false,
          parseI32_digit c ds hdig, parseDigits_digits c ds hd2]
        by_cases hin : inI32 (((digitsVal (c :: ds) 0 : Nat) : Int)) = true
        · simp [toHand, hin]
        · simp [toHand, hin]
      · have hdig' : isAsciiDigit c = false := by simpa using hdig
        simp [hsign', hdig', parseInt, toHand]

theorem parseUInt_gen (s : List Char) : parseUInt s =
    match dateParserParseUint s with
    | (.ok n, r) => .ok (n, r)
    | (.error e, _) => .error e := by
  rw [← dateParserParseUint_eq s]
  rcases dateParserParseUint s with ⟨r, t⟩
  cases r <;> rfl

theorem parseInt_gen (s : List Char) : parseInt s =
    match dateParserParseInt s with
    | (.ok n, r) => .ok (n, r)
    | (.error e, _) => .error e := by
  rw [← dateParserParseInt_eq s]
  rcases dateParserParseInt s with ⟨r, t⟩
  cases r <;> rfl

theorem scanChar_gen (ch : Char) (s : List Char) : scanChar ch s =
    match dateParserScanChar s ch with
    | (.ok _, r) => .ok r
    | (.error e, _) => .error e := by
  have h := dateParserScanChar_eq s ch
  rcases hx : dateParserScanChar s ch with ⟨r, t⟩
  rw [hx] at h
  cases r with
  | error e =>
    simp only [toHand] at h
    cases hs : scanChar ch s with
    | error e' => rw [hs] at h; simp [Except.map] at h; simp [h]
    | ok v => rw [hs] at h; simp [Except.map] at h
  | ok u =>
    simp only [toHand] at h
    cases hs : scanChar ch s with
    | error e' => rw [hs] at h; simp [Except.map] at h
    | ok v => rw [hs] at h; simp [Except.map] at h; simp [h]

theorem dateParserParseDayInYear_eq (s : List Char) :
    toHand (dateParserParseDayInYear s) = parseDayInYear s := by
  unfold dateParserParseDayInYear parseDayInYear
  rw [parseUInt_gen s]
  rcases dateParserParseUint s with ⟨r1, t1⟩
  cases r1 with
  | error e => simp [toHand]
  | ok field1 =>
    by_cases hemp : t1.isEmpty = true
    · simp [toHand, hemp]
    · have hemp' : t1.isEmpty = false := by simpa using hemp
      simp only [hemp', Bool.false_eq_true, if_false, monthTryFromU32_eq]
      cases hm : Month.ofInt? field1 with
      | none => simp [toHand]
      | some month =>
        simp only [scanChar_gen '-' t1]
        rcases dateParserScanChar t1 '-' with ⟨r2, t2⟩
        cases r2 with
        | error e => simp [toHand]
        | ok u =>
          simp only [parseUInt_gen t2]
          rcases dateParserParseUint t2 with ⟨r3, t3⟩
          cases r3 with
          | error e => simp [toHand]
          | ok day => simp [toHand]

theorem parseUInt_inU32 (s : List Char) (n : Int) (rest : List Char) (h : parseUInt s = .ok (n, rest)) :
    InU32 n := by
  obtain ⟨ds, _, _, _, _, hn, hle⟩ := parseUInt_ok s n rest h
  constructor
  · rw [hn]; exact Int.natCast_nonneg _
  · exact hle

theorem parseDayInYear_inU32 (s : List Char) (d : DayInYear) (rest : List Char)
    (h : parseDayInYear s = .ok (d, rest)) :
    match d with
    | .ordinal o => InU32 o
    | .date _ day => InU32 day := by
  unfold parseDayInYear at h
  cases h1 : parseUInt s with
  | error e => rw [h1] at h; cases h
  | ok p =>
    obtain ⟨field1, r1⟩ := p
    rw [h1] at h
    simp only at h
    by_cases hemp : r1.isEmpty = true
    · simp only [hemp, if_true] at h
      injection h with h; injection h with h2 _; subst h2
      exact parseUInt_inU32 s field1 r1 h1
    · simp only [hemp, Bool.false_eq_true, if_false] at h
      cases hm : Month.ofInt? field1 with
      | none => rw [hm] at h; cases h
      | some month =>
        rw [hm] at h
        simp only at h
        cases h2 : scanChar '-' r1 with
        | error e => rw [h2] at h; cases h
        | ok r2 =>
          rw [h2] at h
          simp only at h
          cases h3 : parseUInt r2 with
          | error e => rw [h3] at h; cases h
          | ok q =>
            obtain ⟨day, r3⟩ := q
            rw [h3] at h
            simp only at h
            injection h with h; injection h with h4 _; subst h4
            exact parseUInt_inU32 r2 day r3 h3

/-- **the generated `parse_date` is the model's**, for every calendar a caller can hold and every text: it
cannot fault (the year it hands to the constructors fits `i32`, the day, month number and ordinal fit
`u32`, because `str::parse` refused anything else) and returns what `Calendar.parseDate` returns -/
theorem calendarParseDate_eq (c : Calendar) (hc : WF c) (s : List Char) :
    calendarParseDate c s = some (c.parseDate s) := by
  obtain ⟨_, hymd, hord⟩ := C05.generated_constructors c hc
  unfold calendarParseDate Calendar.parseDate
  simp only [dateParserNew, dateParserIsEmpty, bind, Option.bind, pure]
  have hp := parseInt_gen s
  obtain ⟨⟨r1, t1⟩, hx1⟩ : ∃ x, dateParserParseInt s = x := ⟨_, rfl⟩
  simp only [hx1] at hp ⊢
  cases r1 with
  | error e => simp [hp]
  | ok year =>
    simp only at hp
    obtain ⟨_, _, _, _, _, _, _, hy⟩ := parseInt_ok s year t1 hp
    simp only [hp, scanChar_gen '-' t1]
    obtain ⟨⟨r2, t2⟩, hx2⟩ : ∃ x, dateParserScanChar t1 '-' = x := ⟨_, rfl⟩
    simp only [hx2]
    cases r2 with
    | error e => simp
    | ok u =>
      have hd := dateParserParseDayInYear_eq t2
      obtain ⟨⟨r3, t3⟩, hx3⟩ : ∃ x, dateParserParseDayInYear t2 = x := ⟨_, rfl⟩
      simp only [hx3] at hd ⊢
      cases r3 with
      | error e =>
        simp only [toHand] at hd
        simp [← hd]
      | ok diny =>
        simp only [toHand] at hd
        have hb := parseDayInYear_inU32 t2 diny t3 hd.symm
        simp only [← hd]
        by_cases hemp : t3.isEmpty = true
        · simp only [hemp, Bool.not_true, Bool.false_eq_true, if_false]
          cases diny with
          | ordinal o =>
            simp only at hb
            simp only [hord year o hy hb]
            cases c.atOrdinalDate year o <;> rfl
          | date month day =>
            simp only at hb
            simp only [hymd year month day hy hb]
            cases c.atYmd year month day <;> rfl
        · simp [hemp]

end JV.Gen
