/-
Lemmas/GenLibDates.lean — `Dates::new` as GENERATED from iter.rs (two `while` loops, each a function
recursive in a fuel argument of 2^32 + 1) is the hand-written `Dates.new` (fuel `len + 1`): the loops
run in lock step while there is fuel, and the result does not depend on how much fuel is left over.
-/
import JulianVerif.Lemmas.GenLib
import JulianVerif.Lemmas.CheckedMisc
set_option maxHeartbeats 1000000
set_option linter.unusedSimpArgs false
namespace JV.Gen

/-- more fuel than the loop can use changes nothing -/
theorem trimEnd_fuel (S : MonthShape) : ∀ (f1 f2 : Nat) (start stop : Int),
    (stop - start + 1).toNat < f1 → (stop - start + 1).toNat < f2 →
    Dates.trimEnd S f1 start stop = Dates.trimEnd S f2 start stop := by
  intro f1
  induction f1 with
  | zero => intro f2 start stop h; omega
  | succ n ih =>
    intro f2 start stop h1 h2
    cases f2 with
    | zero => omega
    | succ m =>
      simp only [Dates.trimEnd]
      split
      · rename_i hc
        simp only [Bool.and_eq_true, decide_eq_true_eq] at hc
        exact ih m start (stop - 1) (by omega) (by omega)
      · rfl

theorem trimStart_fuel (S : MonthShape) : ∀ (f1 f2 : Nat) (start stop : Int),
    (stop - start + 1).toNat < f1 → (stop - start + 1).toNat < f2 →
    Dates.trimStart S f1 start stop = Dates.trimStart S f2 start stop := by
  intro f1
  induction f1 with
  | zero => intro f2 start stop h; omega
  | succ n ih =>
    intro f2 start stop h1 h2
    cases f2 with
    | zero => omega
    | succ m =>
      simp only [Dates.trimStart]
      split
      · rename_i hc
        simp only [Bool.and_eq_true, decide_eq_true_eq] at hc
        exact ih m (start + 1) stop (by omega) (by omega)
      · rfl

section
variable (S : MonthShape)
  (H : ∀ n : Int, 0 ≤ n → n ≤ 4294967295 → monthShapeNthDate S n = some (S.nthDate n))

include H in
/-- the second loop of `Dates::new` -/
theorem datesNewWhile2_eq : ∀ (fuel : Nat) (start stop : Int), 1 ≤ start → stop ≤ 4294967295 →
    (stop - start + 1).toNat < fuel →
    datesNewWhile2 S start fuel stop
      = some (⟨S, RangeIncl.new start (Dates.trimEnd S fuel start stop)⟩ : Dates) := by
  intro fuel
  induction fuel with
  | zero => intro start stop _ _ h; omega
  | succ n ih =>
    intro start stop h1 h2 hf
    simp only [datesNewWhile2, Dates.trimEnd, bind, Option.bind, pure]
    by_cases hc : start ≤ stop
    · rw [H stop (by omega) h2]
      simp only [hc, decide_true, if_true, Bool.true_and]
      cases hn : (S.nthDate stop).isNone
      · simp
      · simp only [if_true]
        have hu : Chk.u32 (stop - 1) = some (stop - 1) := Chk.u32_some (by omega) (by omega)
        rw [hu]
        exact ih start (stop - 1) h1 (by omega) (by omega)
    · simp [hc]

include H in
/-- the first loop of `Dates::new`, handing over to the second -/
theorem datesNewWhile1_eq : ∀ (fuel : Nat) (start stop : Int), 0 ≤ start → stop ≤ 4294967294 →
    (stop - start + 1).toNat < fuel →
    datesNewWhile1 S stop fuel start
      = datesNewWhile2 S (Dates.trimStart S fuel start stop) 4294967297 stop := by
  intro fuel
  induction fuel with
  | zero => intro start stop _ _ h; omega
  | succ n ih =>
    intro start stop h1 h2 hf
    simp only [datesNewWhile1, Dates.trimStart, bind, Option.bind, pure]
    by_cases hc : start ≤ stop
    · rw [H start h1 (by omega)]
      simp only [hc, decide_true, if_true, Bool.true_and]
      cases hn : (S.nthDate start).isNone
      · simp
      · simp only [if_true]
        have hu : Chk.u32 (start + 1) = some (start + 1) := Chk.u32_some (by omega) (by omega)
        rw [hu]
        exact ih (start + 1) stop (by omega) h2 (by omega)
    · simp [hc]

include H in
/-- **`Dates::new`**: the generated constructor builds the hand-written model's iterator -/
theorem datesNew_eq (hlen : monthShapeLen S = some S.len) (h0 : 0 ≤ S.len) (h1 : S.len ≤ 4294967294) :
    datesNew S = some (Dates.new S) := by
  simp only [datesNew, hlen, bind, Option.bind, pure]
  rw [datesNewWhile1_eq S H 4294967297 1 S.len (by omega) h1 (by omega)]
  have hge := Chk.trimStart_ge S 4294967297 1 S.len
  rw [datesNewWhile2_eq S H 4294967297 _ S.len (by omega) (by omega) (by omega)]
  simp only [Dates.new]
  have e1 : Dates.trimStart S 4294967297 1 S.len = Dates.trimStart S (S.len.toNat + 1) 1 S.len :=
    trimStart_fuel S _ _ 1 S.len (by omega) (by omega)
  rw [e1]
  have hge2 := Chk.trimStart_ge S (S.len.toNat + 1) 1 S.len
  rw [trimEnd_fuel S 4294967297 (S.len.toNat + 1) _ S.len (by omega) (by omega)]

end
end JV.Gen
