/-
Lemmas/Proleptic.lean — L2/L4 for the two proleptic calendars: `at_jdn`, `at_ymd`,
`at_ordinal_date`, `get_jdn` against the specification.
-/
import JulianVerif.Lemmas.Months
namespace JV
open Spec

/-- the rule a proleptic calendar follows -/
def ruleCal : Rule → Calendar
  | .julian => .julian
  | .gregorian => .gregorian

theorem ruleCal_whole (ρ : Rule) (y : Int) : WholeYear (ruleCal ρ) y (leap ρ y) := by
  cases ρ
  · exact julian_whole y
  · exact gregorian_whole y

theorem ruleCal_yearLength (ρ : Rule) (y : Int) : (ruleCal ρ).yearLength y = yearLen ρ y := by
  cases ρ
  · exact julian_yearLength y
  · exact gregorian_yearLength y

theorem ruleCal_gap (ρ : Rule) : (ruleCal ρ).gap = none := by cases ρ <;> rfl

/-- year / day-of-year of a day number under rule ρ, as the code computes it -/
def jdn2yo : Rule → Int → Int × Int
  | .julian, j => jdn2julian j
  | .gregorian, j => jdn2gregorian j

theorem jdn2yo_spec {ρ : Rule} {j y o : Int} (h : jdn2yo ρ j = (y, o)) :
    j = yearStart ρ y + o - 1 ∧ 1 ≤ o ∧ o ≤ yearLen ρ y := by
  cases ρ
  · exact jdn2julian_spec h
  · exact jdn2gregorian_spec h

theorem ruleCal_jdnYearOrdinal (ρ : Rule) (j : Int) :
    (ruleCal ρ).jdnYearOrdinal j = jdn2yo ρ j := by
  cases ρ <;> simp [ruleCal, Calendar.jdnYearOrdinal, Calendar.gap, jdn2yo]

/-- `ordinal2ymddo` on a proleptic calendar -/
theorem ruleCal_ordinal2ymddo (ρ : Rule) (y o : Int) (h1 : 1 ≤ o) (h2 : o ≤ yearLen ρ y) :
    ∃ m d, (ruleCal ρ).ordinal2ymddo y o = .ok (m, d, d)
      ∧ daysBefore (leap ρ y) m + d = o ∧ 1 ≤ d ∧ d ≤ monthLen (leap ρ y) m := by
  simp only [Calendar.ordinal2ymddo, ruleCal_yearLength]
  have hc : (decide (o < 1) || decide (o > yearLen ρ y)) = false := by simp; omega
  rw [hc]
  simp only [Bool.false_eq_true, if_false]
  exact (ruleCal_whole ρ y).loop o h1 (by simpa [yearLen] using h2)

theorem ruleCal_ordinal2ymddo_err (ρ : Rule) (y o : Int) (h : o < 1 ∨ yearLen ρ y < o) :
    (ruleCal ρ).ordinal2ymddo y o = .error (.ordinalOutOfRange y o (yearLen ρ y)) := by
  simp only [Calendar.ordinal2ymddo, ruleCal_yearLength]
  have hc : (decide (o < 1) || decide (o > yearLen ρ y)) = true := by simp; omega
  rw [hc]; simp

/-- **at_jdn on a proleptic calendar is the specification's date.** -/
theorem ruleCal_atJdn (ρ : Rule) (j : Int) :
    ∃ y m d, (ruleCal ρ).atJdn? j
        = some ⟨ruleCal ρ, y, daysBefore (leap ρ y) m + d, m, d, d, j⟩
      ∧ IsDate ρ j y m d := by
  obtain ⟨y, o, hyo⟩ : ∃ y o, jdn2yo ρ j = (y, o) := ⟨_, _, rfl⟩
  obtain ⟨hj, ho1, ho2⟩ := jdn2yo_spec hyo
  obtain ⟨m, d, hl, hsum, hd1, hd2⟩ := ruleCal_ordinal2ymddo ρ y o ho1 ho2
  refine ⟨y, m, d, ?_, ⟨hd1, hd2⟩, ?_⟩
  · simp only [Calendar.atJdn?, ruleCal_jdnYearOrdinal, hyo, hl, hsum]
  · simp only [jdnOf]; omega

/-- `get_jdn` on a proleptic calendar -/
theorem ruleCal_getJdn (ρ : Rule) (y o : Int) (hy : InI32 y) (h1 : 1 ≤ o) (h2 : o ≤ 366) :
    (ruleCal ρ).getJdn y o = if InI32 (yearStart ρ y + o - 1) then some (yearStart ρ y + o - 1)
                             else none := by
  cases ρ
  · simp only [ruleCal, Calendar.getJdn, Calendar.gap, if_true]
    exact julian2jdn_spec y o hy h1 h2
  · simp only [ruleCal, Calendar.getJdn, Calendar.gap, Bool.false_eq_true, if_false]
    exact gregorian2jdn_spec y o h1 h2

/-- `get_day_ordinal` on a proleptic calendar -/
theorem ruleCal_getDayOrdinal (ρ : Rule) (y : Int) (m : Month) (d : Int) :
    (ruleCal ρ).getDayOrdinal y m d
      = if 1 ≤ d ∧ d ≤ monthLen (leap ρ y) m then .ok d
        else .error (.dayOutOfRange y m d 1 (monthLen (leap ρ y) m)) := by
  simp only [Calendar.getDayOrdinal, ruleCal_whole ρ y m, IShape.dayOrdinalErr]
  by_cases h : 1 ≤ d ∧ d ≤ monthLen (leap ρ y) m
  · simp [h]
  · rw [if_neg h]
    have : (decide (1 ≤ d) && decide (d ≤ monthLen (leap ρ y) m)) = false := by
      simp only [Bool.and_eq_false_iff, decide_eq_false_iff_not]; omega
    simp [this]

/-- **C02 / C07 for proleptic calendars:** `at_ymd` accepts exactly the valid dates whose
day number fits, and says why otherwise. -/
theorem ruleCal_atYmd (ρ : Rule) (y : Int) (hy : InI32 y) (m : Month) (d : Int) :
    (ruleCal ρ).atYmd y m d =
      if 1 ≤ d ∧ d ≤ monthLen (leap ρ y) m then
        (if InI32 (jdnOf ρ y m d)
          then .ok ⟨ruleCal ρ, y, daysBefore (leap ρ y) m + d, m, d, d, jdnOf ρ y m d⟩
          else .error .arithmetic)
      else .error (.dayOutOfRange y m d 1 (monthLen (leap ρ y) m)) := by
  simp only [Calendar.atYmd, ruleCal_getDayOrdinal]
  by_cases h : 1 ≤ d ∧ d ≤ monthLen (leap ρ y) m
  · rw [if_pos h, if_pos h]
    simp only [(ruleCal_whole ρ y).ymdo2ordinal]
    have hb := daysBefore_bounds (leap ρ y) m
    have hl := monthLen_bounds (leap ρ y) m
    have ho2 : daysBefore (leap ρ y) m + d ≤ 366 := by
      have : (if leap ρ y = true then (366 : Int) else 365) ≤ 366 := by split <;> omega
      omega
    rw [ruleCal_getJdn ρ y _ hy (by omega) ho2]
    have e : yearStart ρ y + (daysBefore (leap ρ y) m + d) - 1 = jdnOf ρ y m d := by
      simp only [jdnOf]; omega
    rw [e]
    by_cases hin : InI32 (jdnOf ρ y m d)
    · rw [if_pos hin, if_pos hin]
    · rw [if_neg hin, if_neg hin]
  · rw [if_neg h, if_neg h]

/-- `at_ordinal_date` on a proleptic calendar -/
theorem ruleCal_atOrdinalDate (ρ : Rule) (y : Int) (hy : InI32 y) (o : Int) :
    (1 ≤ o ∧ o ≤ yearLen ρ y →
      ∃ m d, daysBefore (leap ρ y) m + d = o ∧ 1 ≤ d ∧ d ≤ monthLen (leap ρ y) m
        ∧ (ruleCal ρ).atOrdinalDate y o =
            if InI32 (yearStart ρ y + o - 1)
            then .ok ⟨ruleCal ρ, y, o, m, d, d, yearStart ρ y + o - 1⟩ else .error .arithmetic)
    ∧ (¬(1 ≤ o ∧ o ≤ yearLen ρ y) →
        (ruleCal ρ).atOrdinalDate y o = .error (.ordinalOutOfRange y o (yearLen ρ y))) := by
  constructor
  · intro ⟨h1, h2⟩
    obtain ⟨m, d, hl, hsum, hd1, hd2⟩ := ruleCal_ordinal2ymddo ρ y o h1 h2
    refine ⟨m, d, hsum, hd1, hd2, ?_⟩
    have h366 : o ≤ 366 := by simp only [yearLen] at h2; split at h2 <;> omega
    simp only [Calendar.atOrdinalDate, hl, ruleCal_getJdn ρ y o hy h1 h366]
    by_cases hin : InI32 (yearStart ρ y + o - 1)
    · rw [if_pos hin, if_pos hin]
    · rw [if_neg hin, if_neg hin]
  · intro h
    simp only [Calendar.atOrdinalDate, ruleCal_ordinal2ymddo_err ρ y o (by omega)]

end JV
