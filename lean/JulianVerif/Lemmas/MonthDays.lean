/-
Lemmas/MonthDays.lean — L5: a month's shape describes exactly the dates of the calendar
that fall in that month (C07, C09).
-/
import JulianVerif.Lemmas.Shapes
import JulianVerif.Lemmas.Counts
set_option linter.unusedSimpArgs false
namespace JV
open Spec

/-- a calendar all of whose month shapes are proper -/
structure Shaped (c : Calendar) extends Accepting c where
  proper : ∀ y m s, c.monthIShape y m = some s → s.Proper

namespace Shaped
variable {c : Calendar} (S : Shaped c)

include S in
theorem live_of_shape (y : Int) (m : Month) (s : IShape) (hs : c.monthIShape y m = some s) : S.Live y := by
  apply S.live_of_len
  rw [S.lenSum y, sumAll_all]
  have hL := c.lenOf_nonneg_of_valid y (S.valid y)
  have hp := (S.proper y m s hs).len_pos
  have hLm : c.lenOf y m = s.len := by simp only [Calendar.lenOf, hs]
  have bm := Month.number_bounds m
  have hp0 := prefixSum_nonneg _ hL m
  rcases Int.lt_or_eq_of_le bm.2 with a | a
  · have := prefixSum_mono _ hL m .december (by rw [Reform.dec_number]; exact a)
    have := hL .december
    omega
  · have : m = .december := Month.number_inj _ _ (by rw [Reform.dec_number]; exact a)
    subst this; omega

include S in
/-- **the days of a month's shape are exactly the days of the dates of the calendar that
fall in that month** -/
theorem month_days (y : Int) (m : Month) (dd : Int) (hdd : 0 ≤ dd) :
    (∃ j d, c.atJdn? j = some d ∧ d.year = y ∧ d.month = m ∧ d.day = dd)
      ↔ (∃ s, c.monthIShape y m = some s ∧ s.contains dd = true) := by
  constructor
  · rintro ⟨j, d, h, rfl, rfl, rfl⟩
    obtain ⟨_, _, hp⟩ := atJdn?_parts c j d h
    simp only [Calendar.ordinal2ymddo] at hp
    split at hp
    · cases hp
    · rename_i hc
      simp only [Bool.or_eq_true, decide_eq_true_eq, not_or, Int.not_lt, gt_iff_lt] at hc
      obtain ⟨m', s', day', _, hs', hl', hn', hk1', hk2'⟩ :=
        Calendar.ordinal2ymddoLoop_spec c d.year Month.all d.ordinal Calendar.all_nodup (S.valid d.year)
          hc.1 (by rw [← S.lenSum]; omega)
      rw [hl'] at hp
      injection hp with hp
      simp only [Prod.mk.injEq] at hp
      obtain ⟨e1, e2, e3⟩ := hp
      subst e1 e2
      exact ⟨s', hs', (s'.contains_iff (S.valid _ _ (Calendar.mem_all _) s' hs') _ hdd).mpr ⟨_, hk1', hn'⟩⟩
  · rintro ⟨s, hs, hc⟩
    have hv := S.valid y m (Calendar.mem_all m) s hs
    obtain ⟨k, hk1, hn⟩ := (s.contains_iff hv dd hdd).mp hc
    have hk2 := ((s.nthDay_some_iff hv k (by omega)).mp ⟨dd, hn⟩).2
    obtain ⟨d, hd, hy, hm, hdo⟩ := S.toAccepting.date_of_month_ordinal y (S.live_of_shape y m s hs) m s hs k hk1 hk2
    refine ⟨_, d, hd, hy, hm, ?_⟩
    -- the day of that date is nth_day k
    obtain ⟨_, _, hp⟩ := atJdn?_parts c _ d hd
    obtain ⟨hgdo, _, _, _⟩ := Calendar.ordinal2ymddo_inv c d.year d.ordinal d.month d.day d.dayOrdinal
      (S.valid d.year) (S.lenSum d.year) hp
    rw [hy, hm, hdo] at hgdo
    simp only [Calendar.getDayOrdinal, hs] at hgdo
    -- day_ordinal is injective: both d.day and dd have in-month ordinal k
    have hday0 : 0 ≤ d.day := by
      have := s.dayOrdinalErr_of_nthDay hv y m k dd hk1 hn
      cases s <;> simp only [IShape.dayOrdinalErr, IShape.Valid] at hgdo hv <;>
        (repeat' split at hgdo) <;> (try cases hgdo) <;>
        simp only [Bool.and_eq_true, Bool.or_eq_true, decide_eq_true_eq, beq_iff_eq, not_or] at * <;> omega
    obtain ⟨hn2, _, _⟩ := s.nthDay_of_dayOrdinalErr hv y m k d.day hday0 hgdo
    rw [hn] at hn2
    exact (Option.some.inj hn2).symm

include S in
/-- a month has no shape exactly when no date of the calendar falls in it -/
theorem month_none_iff (y : Int) (m : Month) :
    c.monthIShape y m = none ↔ ¬ ∃ j d, c.atJdn? j = some d ∧ d.year = y ∧ d.month = m := by
  constructor
  · intro hn ⟨j, d, h, hy, hm⟩
    have hday : 0 ≤ d.day ∨ d.day < 0 := by omega
    obtain ⟨_, _, hp⟩ := atJdn?_parts c j d h
    simp only [Calendar.ordinal2ymddo] at hp
    split at hp
    · cases hp
    · rename_i hc
      simp only [Bool.or_eq_true, decide_eq_true_eq, not_or, Int.not_lt, gt_iff_lt] at hc
      obtain ⟨m', s', day', _, hs', hl', _⟩ :=
        Calendar.ordinal2ymddoLoop_spec c d.year Month.all d.ordinal Calendar.all_nodup (S.valid d.year)
          hc.1 (by rw [← S.lenSum]; omega)
      rw [hl'] at hp
      injection hp with hp
      simp only [Prod.mk.injEq] at hp
      rw [hp.1, hy, hm, hn] at hs'
      cases hs'
  · intro hno
    cases hs : c.monthIShape y m with
    | none => rfl
    | some s =>
      exfalso; apply hno
      have hp := S.proper y m s hs
      obtain ⟨d, hd, hy, hm, _⟩ := S.toAccepting.date_of_month_ordinal y (S.live_of_shape y m s hs) m s hs 1
        (by omega) hp.len_pos
      exact ⟨_, d, hd, hy, hm⟩

end Shaped
end JV
