/-
Lemmas/ReformSums.lean — L3: month lengths and their prefix sums in the year(s) of the
reformation; whole years elsewhere.
-/
import JulianVerif.Lemmas.ReformShape
set_option linter.unusedSimpArgs false
namespace JV
open Spec

namespace Reform
variable (rf : Reform)

/-- years before the last Julian year are whole Julian years -/
theorem wholeJ (y : Int) (h : y < rf.yP) : WholeYear rf.cal y (leap .julian y) := by
  intro m
  have := Month.number_bounds m; have := Month.number_bounds rf.mP
  exact rf.shape_before y m (by simp only [ymKey]; omega)

/-- years after the first Gregorian year are whole Gregorian years -/
theorem wholeG (y : Int) (h : rf.yQ < y) : WholeYear rf.cal y (leap .gregorian y) := by
  intro m
  have := Month.number_bounds m; have := Month.number_bounds rf.mQ
  exact rf.shape_after y m (by simp only [ymKey]; omega)

theorem lenOf_before (y : Int) (m : Month) (h : ymKey y m < ymKey rf.yP rf.mP) :
    rf.cal.lenOf y m = monthLen (leap .julian y) m := by
  simp only [Calendar.lenOf, rf.shape_before y m h, IShape.len]

theorem lenOf_after (y : Int) (m : Month) (h : ymKey rf.yQ rf.mQ < ymKey y m) :
    rf.cal.lenOf y m = monthLen (leap .gregorian y) m := by
  simp only [Calendar.lenOf, rf.shape_after y m h, IShape.len]

theorem lenOf_between (y : Int) (m : Month) (h1 : ymKey rf.yP rf.mP < ymKey y m)
    (h2 : ymKey y m < ymKey rf.yQ rf.mQ) : rf.cal.lenOf y m = 0 := by
  simp only [Calendar.lenOf, rf.shape_between y m h1 h2]

theorem lenOf_P (h : ymKey rf.yP rf.mP < ymKey rf.yQ rf.mQ) : rf.cal.lenOf rf.yP rf.mP = rf.dP := by
  rw [Calendar.lenOf, rf.shape_P h]
  by_cases hc : rf.dP = monthLen (leap .julian rf.yP) rf.mP
  · rw [if_pos hc]; simp only [IShape.len]; omega
  · rw [if_neg hc]; simp only [IShape.len]

theorem lenOf_Q (h : ymKey rf.yP rf.mP < ymKey rf.yQ rf.mQ) :
    rf.cal.lenOf rf.yQ rf.mQ = monthLen (leap .gregorian rf.yQ) rf.mQ - rf.dQ + 1 := by
  have := rf.validQ
  rw [Calendar.lenOf, rf.shape_Q h]
  by_cases hc : rf.dQ > 1
  · rw [if_pos hc]; simp only [IShape.len]
  · rw [if_neg hc]; simp only [IShape.len]; omega

theorem lenOf_PQ (h : ymKey rf.yP rf.mP = ymKey rf.yQ rf.mQ) :
    rf.cal.lenOf rf.yQ rf.mQ = monthLen (leap .gregorian rf.yQ) rf.mQ - rf.dQ + rf.dP + 1 := by
  simp only [Calendar.lenOf, rf.shape_PQ h, IShape.len]; omega

/-- every shape the calendar hands out satisfies the validity invariant -/
theorem shape_valid (y : Int) (m : Month) (s : IShape) (h : rf.cal.monthIShape y m = some s) : s.Valid := by
  have vP := rf.validP
  have vQ := rf.validQ
  have hle := rf.ym_le
  have hlo := rf.label_order
  have blJ := monthLen_bounds (leap .julian y) m
  have blG := monthLen_bounds (leap .gregorian y) m
  rcases Int.lt_trichotomy (ymKey y m) (ymKey rf.yP rf.mP) with a | a | a
  · rw [rf.shape_before y m a] at h; cases h; simp only [IShape.Valid]; omega
  · obtain ⟨ey, em⟩ := (ymKey_eq _ _ _ _).mp a
    subst ey; subst em
    rcases Int.lt_or_eq_of_le hle with b | b
    · rw [rf.shape_P b] at h
      split at h <;> cases h <;> simp only [IShape.Valid] <;> omega
    · obtain ⟨ey, em⟩ := (ymKey_eq _ _ _ _).mp b
      have h' := rf.shape_PQ b
      rw [← ey, ← em] at h'
      rw [h'] at h; cases h
      have hd : rf.dP + 2 ≤ rf.dQ := by
        rcases hlo with c | ⟨_, c | ⟨_, c⟩⟩
        · omega
        · have := congrArg Month.number em; omega
        · exact c
      rw [← ey, ← em] at vQ
      simp only [IShape.Valid]; omega
  · rcases Int.lt_trichotomy (ymKey y m) (ymKey rf.yQ rf.mQ) with b | b | b
    · rw [rf.shape_between y m a b] at h; cases h
    · obtain ⟨ey, em⟩ := (ymKey_eq _ _ _ _).mp b
      subst ey; subst em
      rw [rf.shape_Q (by omega)] at h
      split at h <;> cases h <;> simp only [IShape.Valid] <;> omega
    · rw [rf.shape_after y m b] at h; cases h; simp only [IShape.Valid]; omega

theorem lenOf_nonneg (y : Int) (m : Month) : 0 ≤ rf.cal.lenOf y m := by
  simp only [Calendar.lenOf]
  cases h : rf.cal.monthIShape y m with
  | none => simp
  | some s => exact s.len_nonneg (rf.shape_valid y m s h)

/-! ### the year of the last Julian date: the Julian side -/

/-- in the year of the last Julian date, the months up to its month start where they start
in the Julian calendar -/
theorem prefix_julian_side (m : Month) (h : m.number ≤ rf.mP.number) :
    prefixSum (rf.cal.lenOf rf.yP) m = daysBefore (leap .julian rf.yP) m := by
  rw [← prefixSum_monthLen]
  apply prefixSum_congr_before
  intro m' hm'
  exact rf.lenOf_before rf.yP m' (by simp only [ymKey]; omega)

/-- `oP` if both boundary dates are in one year, else 0: the number of Julian days in the
year of the first Gregorian date -/
def oP' : Int := if rf.yP = rf.yQ then rf.oP else 0

/-! ### the year of the first Gregorian date: the Gregorian side -/

theorem prefix_Q_cross (h : ymKey rf.yP rf.mP < ymKey rf.yQ rf.mQ) :
    prefixSum (rf.cal.lenOf rf.yQ) rf.mQ = rf.oP' := by
  have bP := Month.number_bounds rf.mP
  have bQ := Month.number_bounds rf.mQ
  have hle := rf.yP_le_yQ
  simp only [oP']
  by_cases e : rf.yP = rf.yQ
  · -- Julian days, then skipped months
    rw [if_pos e]
    have hm : rf.mP.number < rf.mQ.number := by simp only [ymKey] at h; omega
    have h0 := prefixSum_congr_between (rf.cal.lenOf rf.yQ) (fun _ => 0) rf.mP rf.mQ hm
      (by
        intro m' a b
        exact rf.lenOf_between rf.yQ m' (by simp only [ymKey]; omega) (by simp only [ymKey]; omega))
    rw [prefixSum_zero, prefixSum_zero] at h0
    have h1 := rf.prefix_julian_side rf.mP (Int.le_refl _)
    have h2 := rf.lenOf_P h
    rw [e] at h1 h2
    simp only [oP]; rw [e]; omega
  · rw [if_neg e]
    have : rf.yP < rf.yQ := by omega
    rw [← prefixSum_zero rf.mQ]
    apply prefixSum_congr_before
    intro m' hm'
    have := Month.number_bounds m'
    exact rf.lenOf_between rf.yQ m' (by simp only [ymKey]; omega) (by simp only [ymKey]; omega)

theorem prefix_Q_intra (h : ymKey rf.yP rf.mP = ymKey rf.yQ rf.mQ) :
    prefixSum (rf.cal.lenOf rf.yQ) rf.mQ = daysBefore (leap .julian rf.yQ) rf.mQ := by
  obtain ⟨ey, em⟩ := (ymKey_eq _ _ _ _).mp h
  have := rf.prefix_julian_side rf.mP (Int.le_refl _)
  rw [ey, em] at this
  exact this

/-- end of month `m ≥ mQ` in the year of the first Gregorian date: its last day's ordinal -/
theorem end_gregorian_side (m : Month) (h : rf.mQ.number ≤ m.number) :
    prefixSum (rf.cal.lenOf rf.yQ) m + rf.cal.lenOf rf.yQ m
      = rf.oP' + daysBefore (leap .gregorian rf.yQ) m + monthLen (leap .gregorian rf.yQ) m - rf.oQ + 1 := by
  have hle := rf.ym_le
  -- first the month of the first Gregorian date itself
  have hQ : prefixSum (rf.cal.lenOf rf.yQ) rf.mQ + rf.cal.lenOf rf.yQ rf.mQ
      = rf.oP' + daysBefore (leap .gregorian rf.yQ) rf.mQ
        + monthLen (leap .gregorian rf.yQ) rf.mQ - rf.oQ + 1 := by
    rcases Int.lt_or_eq_of_le hle with a | a
    · rw [rf.prefix_Q_cross a, rf.lenOf_Q a]; simp only [oQ]; omega
    · obtain ⟨ey, em⟩ := (ymKey_eq _ _ _ _).mp a
      rw [rf.prefix_Q_intra a, rf.lenOf_PQ a]
      simp only [oP', oQ, oP, ey, em, if_true]; omega
  rcases Int.lt_or_eq_of_le h with a | a
  · have h0 := prefixSum_congr_between (rf.cal.lenOf rf.yQ) (monthLen (leap .gregorian rf.yQ)) rf.mQ m a
      (by
        intro m' x y
        exact rf.lenOf_after rf.yQ m' (by simp only [ymKey]; omega))
    rw [prefixSum_monthLen, prefixSum_monthLen] at h0
    have h1 := rf.lenOf_after rf.yQ m (by simp only [ymKey]; omega)
    omega
  · have : rf.mQ = m := Month.number_inj _ _ a
    subst this; exact hQ

/-- start of month `m > mQ` in the year of the first Gregorian date -/
theorem prefix_gregorian_side (m : Month) (h : rf.mQ.number < m.number) :
    prefixSum (rf.cal.lenOf rf.yQ) m = rf.oP' + daysBefore (leap .gregorian rf.yQ) m - rf.oQ + 1 := by
  have h0 := rf.end_gregorian_side m (by omega)
  have h1 := rf.lenOf_after rf.yQ m (by simp only [ymKey]; omega)
  omega

/-- **sum of the month lengths of the year of the first Gregorian date** -/
theorem sumAll_yQ :
    rf.cal.sumAll rf.yQ Month.all = rf.oP' + yearLen .gregorian rf.yQ - rf.oQ + 1 := by
  have bQ := Month.number_bounds rf.mQ
  rw [sumAll_all, rf.end_gregorian_side .december (by have := dec_number; omega)]
  have := daysBefore_december (leap .gregorian rf.yQ)
  simp only [yearLen]; omega

/-- sum of the month lengths of the year of the last Julian date, when the first Gregorian
date is in a later year -/
theorem sumAll_yP (h : rf.yP < rf.yQ) : rf.cal.sumAll rf.yP Month.all = rf.oP := by
  have bP := Month.number_bounds rf.mP
  have bQ := Month.number_bounds rf.mQ
  have hPQ : ymKey rf.yP rf.mP < ymKey rf.yQ rf.mQ := by simp only [ymKey]; omega
  have hdec := dec_number
  rw [sumAll_all]
  have h1 := rf.prefix_julian_side rf.mP (Int.le_refl _)
  have h2 := rf.lenOf_P hPQ
  rcases Int.lt_or_eq_of_le bP.2 with a | a
  · have h0 := prefixSum_congr_between (rf.cal.lenOf rf.yP) (fun _ => 0) rf.mP .december
      (by omega)
      (by
        intro m' x y
        have := Month.number_bounds m'
        exact rf.lenOf_between rf.yP m' (by simp only [ymKey]; omega) (by simp only [ymKey]; omega))
    rw [prefixSum_zero, prefixSum_zero] at h0
    have h3 := rf.lenOf_between rf.yP .december (by simp only [ymKey]; omega)
      (by simp only [ymKey]; omega)
    simp only [oP]; omega
  · have : rf.mP = .december := Month.number_inj _ _ a
    rw [this] at h1 h2
    simp only [oP, this]; omega

end Reform
end JV
