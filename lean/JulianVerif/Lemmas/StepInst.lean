/-
Lemmas/StepInst.lean — every well-formed calendar tiles: instances of `YearTiling`.
-/
import JulianVerif.Lemmas.Step
set_option linter.unusedSimpArgs false
namespace JV
open Spec

/-- proleptic calendars -/
def ruleCal_tiling (ρ : Rule) : YearTiling (ruleCal ρ) where
  F := yearStart ρ
  Live := fun _ => True
  block := by
    intro j
    obtain ⟨y, m, d, hat, hv, hjd⟩ := ruleCal_atJdn ρ j
    have hb := daysBefore_bounds (leap ρ y) m
    simp only [ValidYMD, jdnOf] at hv hjd
    refine ⟨_, hat, rfl, rfl, trivial, by simp only; omega, by simp only; omega, ?_⟩
    simp only; rw [ruleCal_yearLength]; simp only [yearLen]; omega
  next := by
    intro y _
    have : (ruleCal ρ).nextYearAfter y = y + 1 := by
      simp only [Calendar.nextYearAfter, ruleCal_gap]
    rw [this, ruleCal_yearLength]
    exact ⟨yearStart_succ ρ y, trivial⟩
  prev := by
    intro y _
    have : (ruleCal ρ).prevYearBefore y = y - 1 := by
      simp only [Calendar.prevYearBefore, ruleCal_gap]
    rw [this, ruleCal_yearLength]
    have := yearStart_succ ρ (y - 1)
    have e : y - 1 + 1 = y := by omega
    rw [e] at this
    exact ⟨this, trivial⟩
  mono := by
    intro y y' _ _ h
    rw [ruleCal_yearLength]
    exact yearStart_lt ρ y y' h
  pos := by
    intro y _
    rw [ruleCal_yearLength]
    have := yearLen_bounds ρ y; omega

namespace Reform
variable (rf : Reform)

theorem yearLength_pos (y : Int) (h : rf.Live y) : 0 < rf.cal.yearLength y := by
  have hle := rf.yP_le_yQ
  have bP := rf.oP_bounds
  have bQ := rf.oQ_bounds
  have hp0 : 0 ≤ rf.oP' := by simp only [oP']; split <;> omega
  have lJ := yearLen_bounds .julian y
  have lG := yearLen_bounds .gregorian y
  rw [yearLength_cases]
  simp only [Live] at h
  by_cases a : y < rf.yP
  · rw [if_pos a]; omega
  · rw [if_neg a]
    by_cases b : rf.yQ < y
    · rw [if_pos b]; omega
    · rw [if_neg b]
      by_cases c : y = rf.yQ
      · rw [if_pos c]; omega
      · rw [if_neg c]
        have : y = rf.yP := by omega
        rw [if_pos this]; omega

theorem firstDay_mono (y y' : Int) (hy : rf.Live y) (hy' : rf.Live y') (h : y < y') :
    rf.firstDay y + rf.cal.yearLength y ≤ rf.firstDay y' := by
  have hle := rf.yP_le_yQ
  have e1 := rf.eqP
  have e2 := rf.eqQ
  have bP := rf.oP_bounds
  have bQ := rf.oQ_bounds
  have hq := rf.oQ_ge
  have sQ := yearStart_succ .gregorian rf.yQ
  rw [yearLength_cases]
  simp only [firstDay, Live] at *
  by_cases a' : y' ≤ rf.yP
  · -- both Julian years
    have a : y < rf.yP := by omega
    have : y ≤ rf.yP := by omega
    simp only [a, a', this, if_true]
    exact yearStart_lt .julian y y' h
  · -- y' is a Gregorian-side year
    have hq' : rf.yQ ≤ y' := by omega
    have hR : rf.R ≤ (if y' = rf.yQ then rf.R else yearStart .gregorian y') := by
      by_cases c : y' = rf.yQ
      · rw [if_pos c]; exact Int.le_refl _
      · rw [if_neg c]
        have := yearStart_lt .gregorian rf.yQ y' (by omega)
        omega
    simp only [a', if_false]
    by_cases a : y < rf.yP
    · have : y ≤ rf.yP := by omega
      simp only [a, this, if_true]
      have := yearStart_lt .julian y rf.yP a
      omega
    · simp only [a, if_false]
      by_cases b : y ≤ rf.yP
      · have hyP : y = rf.yP := by omega
        simp only [b, if_true]
        have nb : ¬ rf.yQ < y := by omega
        simp only [nb, if_false]
        by_cases c : y = rf.yQ
        · -- yP = yQ = y
          simp only [c, if_true]
          have hpq : rf.yP = rf.yQ := by omega
          have hne : ¬ y' = rf.yQ := by omega
          simp only [hne, if_false, oP', hpq, if_true]
          rw [hpq] at e1
          have := yearStart_lt .gregorian rf.yQ y' (by omega)
          omega
        · simp only [c, if_false, hyP, if_true]
          rw [hyP] at c
          omega
      · -- y is a Gregorian-side year
        simp only [b, if_false]
        have hyq : rf.yQ ≤ y := by omega
        have hne : ¬ y' = rf.yQ := by omega
        simp only [hne, if_false]
        by_cases c : rf.yQ < y
        · have : ¬ y = rf.yQ := by omega
          simp only [c, this, if_true, if_false]
          exact yearStart_lt .gregorian y y' h
        · have hc : y = rf.yQ := by omega
          simp only [c, hc, if_true, if_false]
          have hpq : ¬ rf.yP = rf.yQ := by omega
          have := yearStart_lt .gregorian rf.yQ y' (by omega)
          simp only [oP', hpq, if_false]
          omega

/-- reforming calendars -/
def tiling : YearTiling rf.cal where
  F := rf.firstDay
  Live := rf.Live
  block := rf.atJdn_block
  next := rf.firstDay_next
  prev := fun y hy => ⟨(rf.firstDay_prev y hy).1, (rf.firstDay_prev y hy).2.1⟩
  mono := rf.firstDay_mono
  pos := rf.yearLength_pos

end Reform

/-- every calendar a caller can hold tiles the day numbers -/
theorem WF.tiling {c : Calendar} (h : WF c) : Nonempty (YearTiling c) := by
  rcases h.cases with rfl | rfl | ⟨rf, rfl, _⟩
  · exact ⟨ruleCal_tiling .julian⟩
  · exact ⟨ruleCal_tiling .gregorian⟩
  · exact ⟨rf.tiling⟩

end JV
