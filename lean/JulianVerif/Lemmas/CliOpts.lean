/-
Lemmas/CliOpts.lean — `Command::from_parser` on argument vectors built from the documented
options: flags in any position, the last -j / -r wins, positional arguments and negative
numbers pass through in order.
-/
import JulianVerif.Lemmas.CliParse
set_option linter.unusedSimpArgs false
set_option maxRecDepth 8000
namespace JV
namespace Cli

/-! ### option names as bytes -/

theorem name_countries : bytesOf "countries" = [99, 111, 117, 110, 116, 114, 105, 101, 115] := by decide +kernel
theorem name_help : bytesOf "help" = [104, 101, 108, 112] := by decide +kernel
theorem name_version : bytesOf "version" = [118, 101, 114, 115, 105, 111, 110] := by decide +kernel
theorem name_julian : bytesOf "julian" = [106, 117, 108, 105, 97, 110] := by decide +kernel
theorem name_json : bytesOf "json" = [106, 115, 111, 110] := by decide +kernel
theorem name_ordinal : bytesOf "ordinal" = [111, 114, 100, 105, 110, 97, 108] := by decide +kernel
theorem name_quiet : bytesOf "quiet" = [113, 117, 105, 101, 116] := by decide +kernel
theorem name_style : bytesOf "style" = [115, 116, 121, 108, 101] := by decide +kernel
theorem name_reformation :
    bytesOf "reformation" = [114, 101, 102, 111, 114, 109, 97, 116, 105, 111, 110] := by decide +kernel

/-- the switches that take no value -/
inductive Flag where
  | julian | json | ordinal | quiet | style
  deriving DecidableEq, Repr

def Flag.apply (o : Options) : Flag → Options
  | .julian => { o with calendar := .julian }
  | .json => { o with json := true }
  | .ordinal => { o with ordinal := true }
  | .quiet => { o with quiet := true }
  | .style => { o with style := true }

/-- `-j`, `-J`, `-o`, `-q`, `-s` -/
def Flag.short : Flag → Bytes
  | .julian => [45, 106] | .json => [45, 74] | .ordinal => [45, 111]
  | .quiet => [45, 113] | .style => [45, 115]

/-- `--julian`, `--json`, `--ordinal`, `--quiet`, `--style` -/
def Flag.long : Flag → Bytes
  | .julian => [45, 45, 106, 117, 108, 105, 97, 110]
  | .json => [45, 45, 106, 115, 111, 110]
  | .ordinal => [45, 45, 111, 114, 100, 105, 110, 97, 108]
  | .quiet => [45, 45, 113, 117, 105, 101, 116]
  | .style => [45, 45, 115, 116, 121, 108, 101]

def Flag.byte : Flag → UInt8
  | .julian => 106 | .json => 74 | .ordinal => 111 | .quiet => 113 | .style => 115

def clusterArg (fs : List Flag) : Bytes := 45 :: fs.map Flag.byte


/-- one element of a command line -/
inductive Tok where
  /-- a positional argument that does not look like an option -/
  | plain (b : Bytes) (s : String)
  /-- `-` digit …: a negative number (or a date with a negative year) -/
  | neg (k : Fin 10) (rest : Bytes) (s : String)
  | short (f : Flag)
  | long (f : Flag)
  /-- `-r VALUE` as two arguments -/
  | reformShort (v : Bytes) (s : String) (cal : Calendar)
  /-- `--reformation VALUE` as two arguments -/
  | reformLong (v : Bytes) (s : String) (cal : Calendar)
  /-- `-rVALUE` (`eq = false`) or `-r=VALUE` (`eq = true`) as one argument -/
  | reformAttached (eq : Bool) (v : Bytes) (s : String) (cal : Calendar)
  /-- `--reformation=VALUE` as one argument -/
  | reformLongEq (v : Bytes) (s : String) (cal : Calendar)
  /-- several switches in one argument: `-jq`, `-oqs`, … -/
  | cluster (fs : List Flag)

def digitByte (k : Fin 10) : UInt8 := (48 + k.val).toUInt8

/-- the raw arguments a token stands for -/
def Tok.encode : Tok → List Bytes
  | .plain b _ => [b]
  | .neg k rest _ => [45 :: digitByte k :: rest]
  | .short f => [f.short]
  | .long f => [f.long]
  | .reformShort v _ _ => [[45, 114], v]
  | .reformLong v _ _ => [[45, 45, 114, 101, 102, 111, 114, 109, 97, 116, 105, 111, 110], v]
  | .reformAttached eq v _ _ => [45 :: 114 :: ((if eq then [61] else []) ++ v)]
  | .reformLongEq v _ _ =>
    [45 :: 45 :: 114 :: 101 :: 102 :: 111 :: 114 :: 109 :: 97 :: 116 :: 105 :: 111 :: 110 :: 61 :: v]
  | .cluster fs => [clusterArg fs]

/-- the side conditions: how the bytes decode, and what makes a positional argument one -/
def Tok.Ok : Tok → Prop
  | .plain b s => bytesToString? b = some s ∧ ¬ (b.length > 1 ∧ b.head? = some 45)
  | .neg _ rest s => (rest = [] ∧ s = "") ∨ (rest ≠ [] ∧ rest.head? ≠ some 61 ∧ bytesToString? rest = some s)
  | .short _ => True
  | .long _ => True
  | .reformShort v s cal => bytesToString? v = some s ∧ parseReformation s = some cal
  | .reformLong v s cal => bytesToString? v = some s ∧ parseReformation s = some cal
  | .reformAttached eq v s cal =>
    (eq = false → v ≠ [] ∧ v.head? ≠ some 61) ∧ bytesToString? v = some s ∧ parseReformation s = some cal
  | .reformLongEq v s cal => bytesToString? v = some s ∧ parseReformation s = some cal
  | .cluster fs => fs ≠ []

def Tok.apply (o : Options) : Tok → Options
  | .short f => f.apply o
  | .long f => f.apply o
  | .reformShort _ _ cal => { o with calendar := cal }
  | .reformLong _ _ cal => { o with calendar := cal }
  | .reformAttached _ _ _ cal => { o with calendar := cal }
  | .reformLongEq _ _ cal => { o with calendar := cal }
  | .cluster fs => fs.foldl Flag.apply o
  | _ => o

/-- the number of `from_parser` iterations a token takes -/
def Tok.cost : Tok → Nat
  | .cluster fs => fs.length
  | _ => 1

/-- the positional argument a token contributes -/
def Tok.arg : Tok → Option String
  | .plain _ s => some s
  | .neg k _ s => some ("-" ++ (Char.ofNat (digitByte k).toNat).toString ++ s)
  | _ => none

/-- nothing pending: the parser will take a fresh raw argument next -/
def Quiescent (p : Parser) : Prop :=
  p.state = .none ∨ ∃ arg pos, p.state = .shorts arg pos ∧ pos ≥ arg.length

theorem Quiescent.next {p : Parser} (h : Quiescent p) :
    p.next = Parser.nextFresh ⟨.none, p.source⟩ := by
  rcases h with h | ⟨arg, pos, h, hp⟩
  · obtain ⟨st, src⟩ := p
    simp only at h; subst h
    simp only [Parser.next]
  · obtain ⟨st, src⟩ := p
    simp only at h; subst h
    simp only [Parser.next, hp, if_true]

theorem Quiescent.value {p : Parser} (h : Quiescent p) :
    p.value = match p.source with
      | v :: rest => some (v, ⟨.none, rest⟩)
      | [] => none := by
  rcases h with h | ⟨arg, pos, h, hp⟩
  · obtain ⟨st, src⟩ := p
    simp only at h; subst h
    simp only [Parser.value, Parser.optionalValue]
    cases src <;> rfl
  · obtain ⟨st, src⟩ := p
    simp only at h; subst h
    simp only [Parser.value, Parser.optionalValue, hp, if_true]
    cases src <;> rfl

theorem quiescent_none (src : List Bytes) : Quiescent ⟨.none, src⟩ := Or.inl rfl
theorem quiescent_shorts (arg : Bytes) (pos : Nat) (src : List Bytes) (h : pos ≥ arg.length) :
    Quiescent ⟨.shorts arg pos, src⟩ := Or.inr ⟨arg, pos, rfl, h⟩



theorem step_plain (b : Bytes) (s : String) (hb : bytesToString? b = some s)
    (hn : ¬ (b.length > 1 ∧ b.head? = some 45))
    (fuel : Nat) (p : Parser) (opts : Options) (args : List String) (tail : List Bytes)
    (hq : Quiescent p) (hs : p.source = b :: tail) :
    fromParser (fuel + 1) p opts args = fromParser fuel ⟨.none, tail⟩ opts (s :: args) := by
  have hfresh : Parser.nextFresh ⟨.none, b :: tail⟩ = .arg (.value b) ⟨.none, tail⟩ := by
    simp only [Parser.nextFresh, dash]
    cases b with
    | nil => simp
    | cons x xs =>
      cases xs with
      | nil => simp
      | cons y zs =>
        have hx : x ≠ 45 := by
          intro e; apply hn; simp [e]
        simp [hx]
  simp only [fromParser, hq.next, hs, hfresh, hb]

theorem step_short (f : Flag) (fuel : Nat) (p : Parser) (opts : Options) (args : List String)
    (tail : List Bytes) (hq : Quiescent p) (hs : p.source = f.short :: tail) :
    fromParser (fuel + 1) p opts args
      = fromParser fuel ⟨.shorts f.short 2, tail⟩ (f.apply opts) args := by
  cases f <;>
    simp only [fromParser, hq.next, hs, Flag.short, Flag.apply, Parser.nextFresh, dash] <;>
    simp <;> rfl


theorem step_long (f : Flag) (fuel : Nat) (p : Parser) (opts : Options) (args : List String)
    (tail : List Bytes) (hq : Quiescent p) (hs : p.source = f.long :: tail) :
    fromParser (fuel + 1) p opts args
      = fromParser fuel ⟨.none, tail⟩ (f.apply opts) args := by
  cases f <;>
    simp only [fromParser, hq.next, hs, Flag.long, Flag.apply, Parser.nextFresh, dash, eqSign,
      name_countries, name_help, name_version, name_julian, name_json, name_ordinal, name_quiet,
      name_style, name_reformation] <;>
    simp <;> rfl

theorem step_reformShort (v : Bytes) (s : String) (cal : Calendar)
    (hv : bytesToString? v = some s) (hc : parseReformation s = some cal)
    (fuel : Nat) (p : Parser) (opts : Options) (args : List String)
    (tail : List Bytes) (hq : Quiescent p) (hs : p.source = [45, 114] :: v :: tail) :
    fromParser (fuel + 1) p opts args
      = fromParser fuel ⟨.none, tail⟩ { opts with calendar := cal } args := by
  have hfresh : Parser.nextFresh ⟨.none, [45, 114] :: v :: tail⟩
      = .arg (.short 'r') ⟨.shorts [45, 114] 2, v :: tail⟩ := by
    simp [Parser.nextFresh, dash]
  have hq' : Quiescent ⟨.shorts [45, 114] 2, v :: tail⟩ := quiescent_shorts _ _ _ (by simp)
  simp only [fromParser, hq.next, hs, hfresh, hq'.value, hv, hc]
  simp

theorem step_reformLong (v : Bytes) (s : String) (cal : Calendar)
    (hv : bytesToString? v = some s) (hc : parseReformation s = some cal)
    (fuel : Nat) (p : Parser) (opts : Options) (args : List String)
    (tail : List Bytes) (hq : Quiescent p)
    (hs : p.source = [45, 45, 114, 101, 102, 111, 114, 109, 97, 116, 105, 111, 110] :: v :: tail) :
    fromParser (fuel + 1) p opts args
      = fromParser fuel ⟨.none, tail⟩ { opts with calendar := cal } args := by
  have hfresh : Parser.nextFresh ⟨.none, [45, 45, 114, 101, 102, 111, 114, 109, 97, 116, 105, 111, 110] :: v :: tail⟩
      = .arg (.long [114, 101, 102, 111, 114, 109, 97, 116, 105, 111, 110]) ⟨.none, v :: tail⟩ := by
    have hi : List.idxOf? (61 : UInt8) [45, 45, 114, 101, 102, 111, 114, 109, 97, 116, 105, 111, 110] = none := by decide
    simp [Parser.nextFresh, dash, eqSign, hi]
  have hq' : Quiescent ⟨.none, v :: tail⟩ := quiescent_none _
  simp only [fromParser, hq.next, hs, hfresh, hq'.value, hv, hc,
      name_countries, name_help, name_version, name_julian, name_json, name_ordinal, name_quiet,
      name_style, name_reformation]
  simp


theorem step_neg (k : Fin 10) (rest : Bytes) (s : String)
    (hok : (rest = [] ∧ s = "") ∨ (rest ≠ [] ∧ rest.head? ≠ some 61 ∧ bytesToString? rest = some s))
    (fuel : Nat) (p : Parser) (opts : Options) (args : List String) (tail : List Bytes)
    (hq : Quiescent p) (hs : p.source = (45 :: digitByte k :: rest) :: tail) :
    fromParser (fuel + 1) p opts args
      = fromParser fuel ⟨.none, tail⟩ opts
          (("-" ++ (Char.ofNat (digitByte k).toNat).toString ++ s) :: args) := by
  have hall : ∀ k : Fin 10, (digitByte k = 48 ∨ digitByte k = 49 ∨ digitByte k = 50 ∨ digitByte k = 51
      ∨ digitByte k = 52 ∨ digitByte k = 53 ∨ digitByte k = 54 ∨ digitByte k = 55 ∨ digitByte k = 56
      ∨ digitByte k = 57) := by decide
  have hk : ∃ d : UInt8, digitByte k = d ∧ (d = 48 ∨ d = 49 ∨ d = 50 ∨ d = 51 ∨ d = 52 ∨ d = 53
      ∨ d = 54 ∨ d = 55 ∨ d = 56 ∨ d = 57) := ⟨_, rfl, hall k⟩
  obtain ⟨d, hd, hcases⟩ := hk
  rw [hd] at hs ⊢
  have hfresh : Parser.nextFresh ⟨.none, (45 :: d :: rest) :: tail⟩
      = .arg (.short (Char.ofNat d.toNat)) ⟨.shorts (45 :: d :: rest) 2, tail⟩ := by
    rcases hcases with rfl | rfl | rfl | rfl | rfl | rfl | rfl | rfl | rfl | rfl <;>
      simp [Parser.nextFresh, dash]
  have hopt : (⟨.shorts (45 :: d :: rest) 2, tail⟩ : Parser).optionalValue
      = (if rest = [] then none else some rest, ⟨.none, tail⟩) := by
    rcases hok with ⟨rfl, _⟩ | ⟨hne, hh, _⟩
    · simp [Parser.optionalValue]
    · cases rest with
      | nil => exact absurd rfl hne
      | cons r rs =>
        have hr : (r == 61) = false := by
          simp only [List.head?_cons, ne_eq, Option.some.injEq] at hh
          simp [hh]
        simp [Parser.optionalValue, hr]
  simp only [fromParser, hq.next, hs, hfresh]
  rcases hcases with rfl | rfl | rfl | rfl | rfl | rfl | rfl | rfl | rfl | rfl <;>
    (rcases hok with ⟨rfl, rfl⟩ | ⟨hne, hh, hb⟩
     · simp [hopt, isAsciiDigit]
     · simp [hopt, isAsciiDigit, hne, hb])

theorem step_reformAttached (eq : Bool) (v : Bytes) (s : String) (cal : Calendar)
    (hne : eq = false → v ≠ [] ∧ v.head? ≠ some 61)
    (hv : bytesToString? v = some s) (hc : parseReformation s = some cal)
    (fuel : Nat) (p : Parser) (opts : Options) (args : List String)
    (tail : List Bytes) (hq : Quiescent p)
    (hs : p.source = (45 :: 114 :: ((if eq then [61] else []) ++ v)) :: tail) :
    fromParser (fuel + 1) p opts args
      = fromParser fuel ⟨.none, tail⟩ { opts with calendar := cal } args := by
  have hfresh : Parser.nextFresh ⟨.none, (45 :: 114 :: ((if eq then [61] else []) ++ v)) :: tail⟩
      = .arg (.short 'r') ⟨.shorts (45 :: 114 :: ((if eq then [61] else []) ++ v)) 2, tail⟩ := by
    cases eq
    · obtain ⟨h1, h2⟩ := hne rfl
      cases v with
      | nil => exact absurd rfl h1
      | cons x xs => simp [Parser.nextFresh, dash]
    · simp [Parser.nextFresh, dash]
  have hval : (⟨.shorts (45 :: 114 :: ((if eq then [61] else []) ++ v)) 2, tail⟩ : Parser).value
      = some (v, ⟨.none, tail⟩) := by
    cases eq
    · obtain ⟨h1, h2⟩ := hne rfl
      cases v with
      | nil => exact absurd rfl h1
      | cons x xs =>
        have hx : (x == 61) = false := by
          simp only [List.head?_cons, ne_eq, Option.some.injEq] at h2
          simp [h2]
        simp [Parser.value, Parser.optionalValue, hx]
    · simp [Parser.value, Parser.optionalValue]
  simp only [fromParser, hq.next, hs, hfresh, hval, hv, hc]
  simp

theorem step_reformLongEq (v : Bytes) (s : String) (cal : Calendar)
    (hv : bytesToString? v = some s) (hc : parseReformation s = some cal)
    (fuel : Nat) (p : Parser) (opts : Options) (args : List String)
    (tail : List Bytes) (hq : Quiescent p)
    (hs : p.source = (45 :: 45 :: 114 :: 101 :: 102 :: 111 :: 114 :: 109 :: 97 :: 116 :: 105 :: 111 :: 110 :: 61 :: v) :: tail) :
    fromParser (fuel + 1) p opts args
      = fromParser fuel ⟨.none, tail⟩ { opts with calendar := cal } args := by
  have hfresh : Parser.nextFresh ⟨.none, (45 :: 45 :: 114 :: 101 :: 102 :: 111 :: 114 :: 109 :: 97 :: 116 :: 105 :: 111 :: 110 :: 61 :: v) :: tail⟩
      = .arg (.long [114, 101, 102, 111, 114, 109, 97, 116, 105, 111, 110]) ⟨.pendingValue v, tail⟩ := by
    have hi : List.idxOf? (61 : UInt8) (45 :: 45 :: 114 :: 101 :: 102 :: 111 :: 114 :: 109 :: 97 :: 116 :: 105 :: 111 :: 110 :: 61 :: v) = some 13 := by
      simp [List.idxOf?, List.findIdx?_cons]
    simp [Parser.nextFresh, dash, eqSign, hi]
  have hval : (⟨.pendingValue v, tail⟩ : Parser).value = some (v, ⟨.none, tail⟩) := by
    simp [Parser.value, Parser.optionalValue]
  simp only [fromParser, hq.next, hs, hfresh, hval, hv, hc,
      name_countries, name_help, name_version, name_julian, name_json, name_ordinal, name_quiet,
      name_style, name_reformation]
  simp

theorem cluster_getD (done rest : List Flag) (r : Flag) :
    (clusterArg (done ++ r :: rest)).getD (1 + done.length) 0 = r.byte := by
  simp only [clusterArg, List.map_append, List.map_cons]
  have : 1 + done.length = (done.map Flag.byte).length + 1 := by simp; omega
  rw [this, List.getD_cons_succ]
  simp [List.getD]

theorem flag_byte_facts (f : Flag) : f.byte < 128 ∧ (f.byte == eqSign) = false ∧ f.byte ≠ 45 := by
  cases f <;> decide

/-- inside a cluster: one flag per step -/
theorem cluster_next (done rest : List Flag) (r : Flag) (src : List Bytes) :
    (⟨.shorts (clusterArg (done ++ r :: rest)) (1 + done.length), src⟩ : Parser).next
      = .arg (.short (Char.ofNat r.byte.toNat))
          ⟨.shorts (clusterArg (done ++ r :: rest)) (1 + done.length + 1), src⟩ := by
  obtain ⟨h1, h2, _⟩ := flag_byte_facts r
  have hlen : ¬ 1 + done.length ≥ (clusterArg (done ++ r :: rest)).length := by
    simp [clusterArg]; omega
  simp only [Parser.next, hlen, if_false, cluster_getD, h2, Bool.false_and, Bool.false_eq_true, h1,
    if_true]

theorem cluster_run : ∀ (rest done : List Flag) (fuel : Nat) (src : List Bytes) (opts : Options)
    (args : List String),
    fromParser (fuel + rest.length) ⟨.shorts (clusterArg (done ++ rest)) (1 + done.length), src⟩ opts args
      = fromParser fuel ⟨.shorts (clusterArg (done ++ rest)) (1 + (done ++ rest).length), src⟩
          (rest.foldl Flag.apply opts) args := by
  intro rest
  induction rest with
  | nil => intro done fuel src opts args; simp
  | cons r rs ih =>
    intro done fuel src opts args
    have hl : fuel + (r :: rs).length = (fuel + rs.length) + 1 := by simp; omega
    rw [hl, fromParser, cluster_next]
    have hih := ih (done ++ [r]) fuel src (r.apply opts) args
    have e1 : (done ++ [r]) ++ rs = done ++ r :: rs := by simp
    have e2 : 1 + (done ++ [r]).length = 1 + done.length + 1 := by simp; omega
    rw [e1, e2] at hih
    simp only [List.foldl_cons]
    rw [← hih]
    cases r <;> simp [Flag.byte, Flag.apply] <;> rfl

/-- a cluster of switches in one argument, e.g. `-jq` or `-oqs` -/
theorem step_cluster (fs : List Flag) (hne : fs ≠ []) (fuel : Nat) (p : Parser) (opts : Options)
    (args : List String) (tail : List Bytes) (hq : Quiescent p) (hs : p.source = clusterArg fs :: tail) :
    fromParser (fuel + fs.length) p opts args
      = fromParser fuel ⟨.shorts (clusterArg fs) (1 + fs.length), tail⟩ (fs.foldl Flag.apply opts) args := by
  obtain ⟨f, fs', rfl⟩ : ∃ f fs', fs = f :: fs' := by
    cases fs with
    | nil => exact absurd rfl hne
    | cons f fs' => exact ⟨f, fs', rfl⟩
  obtain ⟨h1, h2, h3⟩ := flag_byte_facts f
  have hfresh : Parser.nextFresh ⟨.none, clusterArg (f :: fs') :: tail⟩
      = .arg (.short (Char.ofNat f.byte.toNat)) ⟨.shorts (clusterArg (f :: fs')) 2, tail⟩ := by
    have hb : (f.byte == 45) = false := by simp [h3]
    simp [Parser.nextFresh, dash, clusterArg, hb, h1]
  have hl : fuel + (f :: fs').length = (fuel + fs'.length) + 1 := by simp; omega
  rw [hl, fromParser, hq.next, hs, hfresh]
  have hrun := cluster_run fs' [f] fuel tail (f.apply opts) args
  simp only [List.singleton_append, List.length_singleton] at hrun
  simp only [List.foldl_cons]
  have e : 1 + (f :: fs').length = 1 + (f :: fs').length := rfl
  rw [← hrun]
  cases f <;> simp [Flag.byte, Flag.apply] <;> rfl

/-- one token: `cost` steps of `from_parser` -/
theorem step (t : Tok) (ht : t.Ok) (fuel : Nat) (p : Parser) (opts : Options) (args : List String)
    (tail : List Bytes) (hq : Quiescent p) (hs : p.source = t.encode ++ tail) :
    ∃ p', Quiescent p' ∧ p'.source = tail
      ∧ fromParser (fuel + t.cost) p opts args
          = fromParser fuel p' (t.apply opts) (t.arg.toList ++ args) := by
  cases t with
  | plain b s =>
    exact ⟨_, quiescent_none tail, rfl, step_plain b s ht.1 ht.2 fuel p opts args tail hq hs⟩
  | neg k rest s =>
    exact ⟨_, quiescent_none tail, rfl, step_neg k rest s ht fuel p opts args tail hq hs⟩
  | short f =>
    refine ⟨_, quiescent_shorts f.short 2 tail (by cases f <;> simp [Flag.short]), rfl, ?_⟩
    exact step_short f fuel p opts args tail hq hs
  | long f =>
    exact ⟨_, quiescent_none tail, rfl, step_long f fuel p opts args tail hq hs⟩
  | reformShort v s cal =>
    exact ⟨_, quiescent_none tail, rfl, step_reformShort v s cal ht.1 ht.2 fuel p opts args tail hq hs⟩
  | reformLong v s cal =>
    exact ⟨_, quiescent_none tail, rfl, step_reformLong v s cal ht.1 ht.2 fuel p opts args tail hq hs⟩
  | reformAttached eq v s cal =>
    exact ⟨_, quiescent_none tail, rfl,
      step_reformAttached eq v s cal ht.1 ht.2.1 ht.2.2 fuel p opts args tail hq hs⟩
  | reformLongEq v s cal =>
    exact ⟨_, quiescent_none tail, rfl, step_reformLongEq v s cal ht.1 ht.2 fuel p opts args tail hq hs⟩
  | cluster fs =>
    refine ⟨_, quiescent_shorts (clusterArg fs) (1 + fs.length) tail (by simp [clusterArg]; omega), rfl, ?_⟩
    exact step_cluster fs ht fuel p opts args tail hq hs

/-- a run of tokens, then whatever follows -/
theorem fromParser_prefix (toks : List Tok) (hok : ∀ t ∈ toks, t.Ok) :
    ∀ (fuel : Nat) (p : Parser) (opts : Options) (args : List String) (tail : List Bytes),
      Quiescent p → p.source = toks.flatMap Tok.encode ++ tail →
      ∃ p', Quiescent p' ∧ p'.source = tail
        ∧ fromParser (fuel + (toks.map Tok.cost).sum) p opts args
            = fromParser fuel p' (toks.foldl Tok.apply opts)
                ((toks.filterMap Tok.arg).reverse ++ args) := by
  induction toks with
  | nil =>
    intro fuel p opts args tail hq hs
    exact ⟨p, hq, by simpa using hs, by simp⟩
  | cons t ts ih =>
    intro fuel p opts args tail hq hs
    have hs' : p.source = t.encode ++ (ts.flatMap Tok.encode ++ tail) := by
      simpa [List.flatMap_cons, List.append_assoc] using hs
    obtain ⟨p1, hq1, hs1, h1⟩ := step t (hok t (List.mem_cons_self ..)) (fuel + (ts.map Tok.cost).sum) p opts args _ hq hs'
    obtain ⟨p2, hq2, hs2, h2⟩ := ih (fun t' ht' => hok t' (List.mem_cons_of_mem _ ht')) fuel p1
      (t.apply opts) (t.arg.toList ++ args) tail hq1 hs1
    refine ⟨p2, hq2, hs2, ?_⟩
    have hl : fuel + ((t :: ts).map Tok.cost).sum = fuel + (ts.map Tok.cost).sum + t.cost := by
      simp only [List.map_cons, List.sum_cons]; omega
    rw [hl, h1, h2]
    simp only [List.foldl_cons]
    congr 1
    cases ha : t.arg with
    | none => simp [List.filterMap_cons, ha]
    | some s => simp [List.filterMap_cons, ha]

theorem cost_le (t : Tok) : t.cost ≤ (t.encode.map fun a => a.length + 2).sum := by
  cases t <;> simp [Tok.cost, Tok.encode, clusterArg] <;> omega

theorem fuelFor_append (xs ys : List Bytes) :
    fuelFor (xs ++ ys) = (xs.map fun a => a.length + 2).sum + fuelFor ys := by
  simp only [fuelFor, List.map_append, List.sum_append]; omega

theorem cost_sum_le (toks : List Tok) :
    (toks.map Tok.cost).sum ≤ ((toks.flatMap Tok.encode).map fun a => a.length + 2).sum := by
  induction toks with
  | nil => simp
  | cons t ts ih =>
    have := cost_le t
    simp only [List.map_cons, List.sum_cons, List.flatMap_cons, List.map_append, List.sum_append]
    omega

theorem fuelFor_ge (argv : List Bytes) : 2 * argv.length + 2 ≤ fuelFor argv := by
  simp only [fuelFor]
  induction argv with
  | nil => simp
  | cons a as ih => simp only [List.map_cons, List.sum_cons, List.length_cons]; omega

/-- **option parsing**: for any command line made of positional arguments, negative numbers,
the five switches in either spelling and `-r VALUE` / `--reformation VALUE`, in any order,
`from_parser` yields the options obtained by applying the switches left to right (so the
last calendar selection wins, wherever it stands) and the positional arguments in order -/
theorem parse_spec (toks : List Tok) (hok : ∀ t ∈ toks, t.Ok) :
    parseCommand (toks.flatMap Tok.encode)
      = .run (toks.foldl Tok.apply {}) (toks.filterMap Tok.arg) := by
  have hle := cost_sum_le toks
  have hfa := fuelFor_append (toks.flatMap Tok.encode) []
  have h0 : fuelFor [] = 2 := rfl
  simp only [List.append_nil] at hfa
  obtain ⟨f, hf⟩ : ∃ f, fuelFor (toks.flatMap Tok.encode) = (f + 1) + (toks.map Tok.cost).sum :=
    ⟨fuelFor (toks.flatMap Tok.encode) - (toks.map Tok.cost).sum - 1, by omega⟩
  obtain ⟨p', hq', hs', h⟩ := fromParser_prefix toks hok (f + 1) ⟨.none, toks.flatMap Tok.encode⟩ {} []
    [] (quiescent_none _) (by simp)
  simp only [parseCommand]
  rw [hf, h]
  simp only [fromParser, hq'.next, hs', Parser.nextFresh, List.append_nil, List.reverse_reverse]

/-- **`-h`, `-V`, `-c` and their long spellings are honoured whatever positional arguments
and switches precede them and whatever follows** — the positional arguments are not even
looked at -/
theorem early_exit (toks : List Tok) (hok : ∀ t ∈ toks, t.Ok) (post : List Bytes) :
    parseCommand (toks.flatMap Tok.encode ++ [45, 104] :: post) = .help
    ∧ parseCommand (toks.flatMap Tok.encode ++ [45, 86] :: post) = .version
    ∧ parseCommand (toks.flatMap Tok.encode ++ [45, 99] :: post) = .countries
    ∧ parseCommand (toks.flatMap Tok.encode ++ [45, 45, 104, 101, 108, 112] :: post) = .help
    ∧ parseCommand (toks.flatMap Tok.encode ++ [45, 45, 118, 101, 114, 115, 105, 111, 110] :: post) = .version
    ∧ parseCommand (toks.flatMap Tok.encode ++ [45, 45, 99, 111, 117, 110, 116, 114, 105, 101, 115] :: post)
        = .countries := by
  have hle := cost_sum_le toks
  have key : ∀ (x : Bytes) (c : Command),
      (∀ f p' o a, Quiescent p' → p'.source = x :: post → fromParser (f + 1) p' o a = c) →
      parseCommand (toks.flatMap Tok.encode ++ x :: post) = c := by
    intro x c hx
    have hfa := fuelFor_append (toks.flatMap Tok.encode) (x :: post)
    have hfuel := fuelFor_ge (x :: post)
    simp only [List.length_cons] at hfuel
    obtain ⟨f, hf⟩ : ∃ f, fuelFor (toks.flatMap Tok.encode ++ x :: post) = (f + 1) + (toks.map Tok.cost).sum :=
      ⟨fuelFor (toks.flatMap Tok.encode ++ x :: post) - (toks.map Tok.cost).sum - 1, by omega⟩
    obtain ⟨p', hq', hs', h⟩ := fromParser_prefix toks hok (f + 1)
      ⟨.none, toks.flatMap Tok.encode ++ x :: post⟩ {} [] (x :: post) (quiescent_none _) rfl
    simp only [parseCommand]
    rw [hf, h]
    exact hx f p' _ _ hq' hs'
  have hi1 : List.idxOf? (61 : UInt8) [45, 45, 104, 101, 108, 112] = none := by decide
  have hi2 : List.idxOf? (61 : UInt8) [45, 45, 118, 101, 114, 115, 105, 111, 110] = none := by decide
  have hi3 : List.idxOf? (61 : UInt8) [45, 45, 99, 111, 117, 110, 116, 114, 105, 101, 115] = none := by
    decide
  refine ⟨key _ _ ?_, key _ _ ?_, key _ _ ?_, key _ _ ?_, key _ _ ?_, key _ _ ?_⟩ <;>
    intro f p' o a hq hs <;>
    simp only [fromParser, hq.next, hs, Parser.nextFresh, dash, eqSign,
      name_countries, name_help, name_version, name_julian, name_json, name_ordinal, name_quiet,
      name_style, name_reformation] <;>
    simp [hi1, hi2, hi3]

/-- after `--` every raw argument is positional -/
theorem finished_run : ∀ (vals : List (Bytes × String)) (hv : ∀ v ∈ vals, bytesToString? v.1 = some v.2)
    (fuel : Nat) (opts : Options) (args : List String),
    fromParser (fuel + vals.length + 1) ⟨.finishedOpts, vals.map (·.1)⟩ opts args
      = .run opts (args.reverse ++ vals.map (·.2)) := by
  intro vals
  induction vals with
  | nil =>
    intro _ fuel opts args
    simp [fromParser, Parser.next]
  | cons v vs ih =>
    intro hv fuel opts args
    have h1 := hv v (List.mem_cons_self ..)
    have hl : fuel + (v :: vs).length + 1 = (fuel + vs.length + 1) + 1 := by simp; omega
    rw [hl, fromParser]
    simp only [Parser.next, List.map_cons, h1]
    rw [ih (fun x hx => hv x (List.mem_cons_of_mem _ hx))]
    simp


/-- **`--` ends option parsing**: everything after it is positional, whatever it looks like -/
theorem parse_spec_dashdash (toks : List Tok) (hok : ∀ t ∈ toks, t.Ok)
    (vals : List (Bytes × String)) (hv : ∀ v ∈ vals, bytesToString? v.1 = some v.2) :
    parseCommand (toks.flatMap Tok.encode ++ [45, 45] :: vals.map (·.1))
      = .run (toks.foldl Tok.apply {}) (toks.filterMap Tok.arg ++ vals.map (·.2)) := by
  have hle := cost_sum_le toks
  have hfa := fuelFor_append (toks.flatMap Tok.encode) ([45, 45] :: vals.map (·.1))
  have hfuel := fuelFor_ge ([45, 45] :: vals.map (·.1))
  simp only [List.length_cons, List.length_map] at hfuel
  obtain ⟨f, hf⟩ : ∃ f, fuelFor (toks.flatMap Tok.encode ++ [45, 45] :: vals.map (·.1))
      = ((f + vals.length + 1) + 1) + (toks.map Tok.cost).sum :=
    ⟨fuelFor (toks.flatMap Tok.encode ++ [45, 45] :: vals.map (·.1)) - (toks.map Tok.cost).sum
        - vals.length - 2, by omega⟩
  obtain ⟨p', hq', hs', h⟩ := fromParser_prefix toks hok ((f + vals.length + 1) + 1)
    ⟨.none, toks.flatMap Tok.encode ++ [45, 45] :: vals.map (·.1)⟩ {} [] ([45, 45] :: vals.map (·.1))
    (quiescent_none _) rfl
  simp only [parseCommand]
  rw [hf, h]
  cases vals with
  | nil =>
    simp [fromParser, hq'.next, hs', Parser.nextFresh, dash]
  | cons v vs =>
    have h1 := hv v (List.mem_cons_self ..)
    rw [fromParser]
    simp only [hq'.next, hs', Parser.nextFresh, dash, List.map_cons]
    have hl : f + (v :: vs).length + 1 = (f + 1) + vs.length + 1 := by simp; omega
    simp only [beq_self_eq_true, if_true]
    rw [h1]
    simp only []
    rw [hl, finished_run vs (fun x hx => hv x (List.mem_cons_of_mem _ hx))]
    simp

/-! ### what a token selects -/

/-- the calendar a token selects, if any -/
def calOf : Tok → Option Calendar
  | .short .julian | .long .julian => some .julian
  | .reformShort _ _ c | .reformLong _ _ c | .reformAttached _ _ _ c | .reformLongEq _ _ c => some c
  | .cluster fs => if fs.contains .julian then some .julian else none
  | _ => none

theorem flag_beq (a b : Flag) : (a == b) = decide (a = b) := rfl

theorem flags_calendar (fs : List Flag) (o : Options) :
    (fs.foldl Flag.apply o).calendar = if fs.contains .julian then .julian else o.calendar := by
  induction fs generalizing o with
  | nil => rfl
  | cons f fs ih =>
    simp only [List.foldl_cons, ih, List.contains_cons]
    cases f <;> simp [Flag.apply] <;> split <;> rfl

theorem flags_switches (fs : List Flag) (o : Options) :
    (fs.foldl Flag.apply o).json = (o.json || fs.contains .json)
    ∧ (fs.foldl Flag.apply o).ordinal = (o.ordinal || fs.contains .ordinal)
    ∧ (fs.foldl Flag.apply o).quiet = (o.quiet || fs.contains .quiet)
    ∧ (fs.foldl Flag.apply o).style = (o.style || fs.contains .style) := by
  induction fs generalizing o with
  | nil => simp
  | cons f fs ih =>
    obtain ⟨h1, h2, h3, h4⟩ := ih (f.apply o)
    simp only [List.foldl_cons, h1, h2, h3, h4, List.contains_cons]
    cases f <;> simp [Flag.apply, flag_beq]

theorem apply_calendar (o : Options) (t : Tok) :
    (t.apply o).calendar = (calOf t).getD o.calendar := by
  cases t with
  | short f => cases f <;> rfl
  | long f => cases f <;> rfl
  | cluster fs =>
    simp only [Tok.apply, calOf, flags_calendar]
    split <;> rfl
  | _ => rfl

/-- does the token set switch `f`? -/
def has (f : Flag) : Tok → Bool
  | .short g | .long g => g == f
  | .cluster fs => fs.contains f
  | _ => false

end Cli
end JV
