/-
Lemmas/Inverse.lean — L4: `at_ymd` and `at_ordinal_date` undo `at_jdn`:
`day_ordinal_err` inverts `nth_day`, `ymdo2ordinal` inverts the month walk, and `get_jdn`
inverts the year / day-of-year computation.
-/
import JulianVerif.Lemmas.AtJdn
set_option linter.unusedSimpArgs false
namespace JV
open Spec

/-- `day_ordinal` inverts `nth_day` on a valid shape -/
theorem IShape.dayOrdinalErr_of_nthDay (s : IShape) (hv : s.Valid) (y : Int) (m : Month) (k d : Int)
    (hk : 1 ≤ k) (h : s.nthDay k = some d) : s.dayOrdinalErr y m d = .ok k := by
  cases s with
  | normal L =>
    simp only [IShape.nthDay] at h
    split at h
    · rename_i hc; cases h
      simp only [IShape.dayOrdinalErr, hc, if_true]
    · cases h
  | tailless L N =>
    simp only [IShape.nthDay] at h
    split at h
    · rename_i hc; cases h
      simp only [IShape.dayOrdinalErr, hc, if_true]
    · cases h
  | headless a L =>
    simp only [IShape.Valid] at hv
    simp only [IShape.nthDay] at h
    split at h
    · rename_i hc
      cases h
      simp only [Bool.and_eq_true, decide_eq_true_eq] at hc
      have c2 : (decide (a ≤ k + a - 1) && decide (k + a - 1 ≤ L)) = true := by simp; omega
      simp only [IShape.dayOrdinalErr, c2, if_true]
      congr 1; omega
    · cases h
  | gapped gs ge L =>
    simp only [IShape.Valid] at hv
    simp only [IShape.nthDay] at h
    have h0 : (k == 0) = false := by simp; omega
    simp only [h0, Bool.false_eq_true, if_false] at h
    by_cases c1 : k < gs
    · simp only [c1, if_true] at h; cases h
      have e1 : (k == 0 || decide (k > L)) = false := by simp; omega
      simp only [IShape.dayOrdinalErr, e1, Bool.false_eq_true, if_false, c1, if_true]
    · simp only [c1, if_false] at h
      by_cases c2 : k > L
      · simp only [c2, if_true] at h; cases h
      · simp only [c2, if_false] at h
        split at h
        · rename_i c3; cases h
          have e1 : (k + (ge - gs + 1) == 0 || decide (k + (ge - gs + 1) > L)) = false := by simp; omega
          have e2 : ¬ k + (ge - gs + 1) < gs := by omega
          have e3 : ¬ k + (ge - gs + 1) ≤ ge := by omega
          simp only [IShape.dayOrdinalErr, e1, Bool.false_eq_true, if_false, e2, e3]
          congr 1; omega
        · cases h

/-- from a successful month walk back to the day-of-year: `get_day_ordinal` and
`ymdo2ordinal` invert `ordinal2ymddo` -/
theorem Calendar.ordinal2ymddo_inv (c : Calendar) (y o : Int) (m : Month) (d k : Int)
    (hvalid : ∀ m ∈ Month.all, ∀ s, c.monthIShape y m = some s → s.Valid)
    (hlen : c.yearLength y = c.sumAll y Month.all)
    (h : c.ordinal2ymddo y o = .ok (m, d, k)) :
    c.getDayOrdinal y m d = .ok k ∧ c.ymdo2ordinal y m k = o ∧ 1 ≤ o ∧ o ≤ c.yearLength y := by
  simp only [Calendar.ordinal2ymddo] at h
  split at h
  · cases h
  · rename_i hc
    simp only [Bool.or_eq_true, decide_eq_true_eq, not_or, Int.not_lt, gt_iff_lt] at hc
    obtain ⟨m', s, day, _, hs, hl, hn, hk1, hk2⟩ :=
      Calendar.ordinal2ymddoLoop_spec c y Month.all o Calendar.all_nodup hvalid hc.1 (by omega)
    rw [hl] at h
    injection h with h
    simp only [Prod.mk.injEq] at h
    obtain ⟨rfl, rfl, rfl⟩ := h
    refine ⟨?_, ?_, hc.1, hc.2⟩
    · simp only [Calendar.getDayOrdinal, hs]
      exact s.dayOrdinalErr_of_nthDay (hvalid m' (Calendar.mem_all m') s hs) y m' _ _ hk1 hn
    · rw [Calendar.ymdo2ordinal_eq]; omega

namespace Reform
variable (rf : Reform)

theorem oQ_ge : rf.oP' + 1 ≤ rf.oQ := by
  have vQ := rf.validQ
  have := daysBefore_bounds (leap .gregorian rf.yQ) rf.mQ
  simp only [oP']
  by_cases e : rf.yP = rf.yQ
  · rw [if_pos e]; exact (rf.ordinal_order e).2
  · rw [if_neg e]; simp only [oQ]; omega

theorem getJdn_raw (y o : Int) :
    rf.cal.getJdn y o =
      (if (decide (y < rf.yQ) || (y == rf.yQ
            && decide ((if y = rf.yQ ∧ o ≥ rf.oP' + 1 then o + rf.gapAmt else o) < rf.oP' + 1))) = true
       then julian2jdn y (if y = rf.yQ ∧ o ≥ rf.oP' + 1 then o + rf.gapAmt else o)
       else gregorian2jdn y (if y = rf.yQ ∧ o ≥ rf.oP' + 1 then o + rf.gapAmt else o)) := by
  have hpo : (mkGap rf.yP rf.mP rf.dP rf.yQ rf.mQ rf.dQ).postReform.ordinal = rf.oP' + 1 := by
    rw [postOrdinal_eq]; simp only [oP']; split <;> rfl
  have hy : (mkGap rf.yP rf.mP rf.dP rf.yQ rf.mQ rf.dQ).postReform.year = rf.yQ := rfl
  simp only [Calendar.getJdn, Reform.cal, Calendar.gap, hpo, hy, ordinalGap_eq', Bool.and_eq_true,
    beq_iff_eq, decide_eq_true_eq]

theorem getJdn_julian_side (y o : Int) (ho : y < rf.yP ∨ (y = rf.yP ∧ o ≤ rf.oP)) :
    rf.cal.getJdn y o = julian2jdn y o := by
  have hle := rf.yP_le_yQ
  rw [getJdn_raw]
  have hno : ¬ (y = rf.yQ ∧ o ≥ rf.oP' + 1) := by
    intro ⟨e, h⟩
    rcases ho with a | ⟨a, b⟩
    · omega
    · have : rf.yP = rf.yQ := by omega
      simp only [oP', this, if_true] at h; omega
  rw [if_neg hno]
  have hcond : (decide (y < rf.yQ) || (y == rf.yQ && decide (o < rf.oP' + 1))) = true := by
    rcases ho with a | ⟨a, b⟩
    · have : y < rf.yQ := by omega
      simp [this]
    · by_cases e : rf.yP = rf.yQ
      · simp only [oP', e, if_true]
        have : y = rf.yQ := by omega
        simp [this]; omega
      · have : y < rf.yQ := by omega
        simp [this]
  rw [if_pos hcond]

theorem getJdn_gregorian_side (y og : Int)
    (ho : rf.yQ < y ∨ (y = rf.yQ ∧ rf.oQ ≤ og)) :
    rf.cal.getJdn y (if y = rf.yQ then og - rf.gapAmt else og) = gregorian2jdn y og := by
  rw [getJdn_raw]
  rcases ho with a | ⟨a, b⟩
  · have hne : ¬ y = rf.yQ := by omega
    simp only [hne, if_false, false_and]
    have : (decide (y < rf.yQ) || (y == rf.yQ && decide (og < rf.oP' + 1))) = false := by
      have : ¬ y < rf.yQ := by omega
      simp [this, hne]
    rw [this]; simp
  · subst a
    simp only [if_true, true_and]
    have hq := rf.oQ_ge
    have h1 : og - rf.gapAmt ≥ rf.oP' + 1 := by simp only [gapAmt]; omega
    rw [if_pos h1]
    have e : og - rf.gapAmt + rf.gapAmt = og := by omega
    rw [e]
    have : (decide (rf.yQ < rf.yQ) || (rf.yQ == rf.yQ && decide (og < rf.oP' + 1))) = false := by
      have : ¬ og < rf.oP' + 1 := by omega
      simp [this]
    rw [this]; simp

end Reform

theorem ruleCal_roundtrip (ρ : Rule) (j : Int) (hj : InI32 j) (d : Date)
    (h : (ruleCal ρ).atJdn? j = some d) :
    (ruleCal ρ).atYmd d.year d.month d.day = .ok d
    ∧ (ruleCal ρ).atOrdinalDate d.year d.ordinal = .ok d := by
  obtain ⟨y, m, dd, hat, hv, hjd⟩ := ruleCal_atJdn ρ j
  rw [hat] at h; cases h
  have hy := (year_of_jdn_inI32 ρ j y m dd hj ⟨hv, hjd⟩).1
  simp only
  constructor
  · have hv' : 1 ≤ dd ∧ dd ≤ monthLen (leap ρ y) m := hv
    rw [ruleCal_atYmd ρ y hy m dd, if_pos hv', hjd, if_pos hj]
  · have hb := daysBefore_bounds (leap ρ y) m
    have ho : 1 ≤ daysBefore (leap ρ y) m + dd ∧ daysBefore (leap ρ y) m + dd ≤ yearLen ρ y := by
      simp only [ValidYMD, yearLen] at *; omega
    obtain ⟨m', d', hsum, h1, h2, heq⟩ := (ruleCal_atOrdinalDate ρ y hy _).1 ho
    obtain ⟨rfl, rfl⟩ := daysBefore_inj (leap ρ y) m' m d' dd h1 h2 hv.1 hv.2 hsum
    have e : yearStart ρ y + (daysBefore (leap ρ y) m' + d') - 1 = j := by
      simp only [jdnOf] at hjd; omega
    rw [heq, e, if_pos hj]

/-- **C01: feeding the date's year/month/day, or its year/day-of-year, back into the same
calendar returns the identical date** — every well-formed calendar, every 32-bit day -/
theorem atJdn_roundtrip (c : Calendar) (hc : WF c) (j : Int) (hj : InI32 j) (d : Date)
    (h : c.atJdn? j = some d) :
    c.atYmd d.year d.month d.day = .ok d ∧ c.atOrdinalDate d.year d.ordinal = .ok d := by
  rcases hc.cases with rfl | rfl | ⟨rf, rfl, _⟩
  · exact ruleCal_roundtrip .julian j hj d h
  · exact ruleCal_roundtrip .gregorian j hj d h
  · have hlen := fun y => rf.yearLength_eq_sumAll y
    by_cases hjR : j < rf.R
    · obtain ⟨y, m, dd, hat, hdate, hord⟩ := rf.atJdn_julian j hjR
      rw [hat] at h; cases h
      have hy := (year_of_jdn_inI32 .julian j y m dd hj hdate).1
      have hwalk := rf.ordinal2ymddo_julian_side hdate.1 hord
      obtain ⟨hdo, hyo, ho1, ho2⟩ :=
        Calendar.ordinal2ymddo_inv rf.cal y _ m dd dd (rf.valid_all y) (hlen y) hwalk
      have hb := daysBefore_bounds (leap .julian y) m
      have hv := hdate.1
      have h366 : daysBefore (leap .julian y) m + dd ≤ 366 := by
        have : (if leap .julian y = true then (366 : Int) else 365) ≤ 366 := by split <;> omega
        simp only [ValidYMD] at hv; omega
      have hg : rf.cal.getJdn y (daysBefore (leap .julian y) m + dd) = some j := by
        rw [rf.getJdn_julian_side y _ hord, julian2jdn_spec y _ hy ho1 h366]
        have e : yearStart .julian y + (daysBefore (leap .julian y) m + dd) - 1 = j := by
          have := hdate.2; simp only [jdnOf] at this; omega
        rw [e, if_pos hj]
      simp only [Calendar.atYmd, hdo, hyo, hg, Calendar.atOrdinalDate, hwalk, and_self]
    · obtain ⟨y, m, dd, hat, hdate, hord⟩ := rf.atJdn_gregorian j (by omega)
      rw [hat] at h; cases h
      have hy := (year_of_jdn_inI32 .gregorian j y m dd hj hdate).1
      have hwalk := rf.ordinal2ymddo_gregorian_side hdate.1 hord
      obtain ⟨hdo, hyo, ho1, ho2⟩ :=
        Calendar.ordinal2ymddo_inv rf.cal y _ m dd _ (rf.valid_all y) (hlen y) hwalk
      have hb := daysBefore_bounds (leap .gregorian y) m
      have hv := hdate.1
      have h366 : daysBefore (leap .gregorian y) m + dd ≤ 366 := by
        have : (if leap .gregorian y = true then (366 : Int) else 365) ≤ 366 := by split <;> omega
        simp only [ValidYMD] at hv; omega
      have hg : rf.cal.getJdn y (if y = rf.yQ then daysBefore (leap .gregorian y) m + dd - rf.gapAmt
            else daysBefore (leap .gregorian y) m + dd) = some j := by
        rw [rf.getJdn_gregorian_side y _ hord, gregorian2jdn_spec y _ (by simp only [ValidYMD] at hv; omega) h366]
        have e : yearStart .gregorian y + (daysBefore (leap .gregorian y) m + dd) - 1 = j := by
          have := hdate.2; simp only [jdnOf] at this; omega
        rw [e, if_pos hj]
      simp only [Calendar.atYmd, hdo, hyo, hg, Calendar.atOrdinalDate, hwalk, and_self]

end JV
