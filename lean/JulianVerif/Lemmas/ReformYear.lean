/-
Lemmas/ReformYear.lean — L3: `year_kind`, the natural February length and `month_shape`
of a reforming calendar, region by region.
-/
import JulianVerif.Lemmas.ReformFacts
set_option linter.unusedSimpArgs false
namespace JV
open Spec

namespace Reform
variable (rf : Reform)

theorem gap_eq : rf.cal.gap = some (mkGap rf.yP rf.mP rf.dP rf.yQ rf.mQ rf.dQ) := by
  rfl

/-! ### year kind -/

theorem yearKind_lt (y : Int) (h : y < rf.yP) :
    rf.cal.yearKind y = if leap .julian y then .leap else .common := by
  simp only [Reform.cal, Calendar.yearKind, ReformGap.cmpYear, mkGap, cmpIntRange_less y rf.yP rf.yQ h,
    isJulianLeapYear_eq]

theorem yearKind_gt (y : Int) (h : rf.yQ < y) :
    rf.cal.yearKind y = if leap .gregorian y then .leap else .common := by
  have := rf.yP_le_yQ
  simp only [Reform.cal, Calendar.yearKind, ReformGap.cmpYear, mkGap,
    cmpIntRange_greater y rf.yP rf.yQ (by omega) h, isGregorianLeapYear_eq]

theorem yearKind_between (y : Int) (h1 : rf.yP < y) (h2 : y < rf.yQ) : rf.cal.yearKind y = .skipped := by
  simp only [Reform.cal, Calendar.yearKind, ReformGap.cmpYear, mkGap, cmpIntRange_between y rf.yP rf.yQ h1 h2]

theorem yearKind_lower (h : rf.yP < rf.yQ) :
    rf.cal.yearKind rf.yP =
      if rf.mP = .december ∧ rf.dP = 31 then (if leap .julian rf.yP then .leap else .common)
      else if (Month.february.number < rf.mP.number ∨ (rf.mP = .february ∧ rf.dP = 29))
                ∧ leap .julian rf.yP = true then .reformLeap
      else .reformCommon := by
  simp only [Reform.cal, Calendar.yearKind, ReformGap.cmpYear, mkGap, cmpIntRange_eqLower rf.yP rf.yP rf.yQ rfl h,
    isJulianLeapYear_eq, Month.lt, Bool.and_eq_true, Bool.or_eq_true, decide_eq_true_eq, beq_iff_eq]

theorem yearKind_upper (h : rf.yP < rf.yQ) :
    rf.cal.yearKind rf.yQ =
      if rf.mQ = .january ∧ rf.dQ = 1 then (if leap .gregorian rf.yQ then .leap else .common)
      else if rf.mQ.number ≤ Month.february.number ∧ leap .gregorian rf.yQ = true then .reformLeap
      else .reformCommon := by
  simp only [Reform.cal, Calendar.yearKind, ReformGap.cmpYear, mkGap, cmpIntRange_eqUpper rf.yQ rf.yP rf.yQ h rfl,
    isGregorianLeapYear_eq, Month.le, Bool.and_eq_true, Bool.or_eq_true, decide_eq_true_eq, beq_iff_eq]

theorem yearKind_both (h : rf.yP = rf.yQ) :
    rf.cal.yearKind rf.yP =
      if ((Month.february.number < rf.mP.number ∨ (rf.mP = .february ∧ rf.dP = 29))
            ∧ leap .julian rf.yP = true)
          ∨ (rf.mQ.number ≤ Month.february.number ∧ leap .gregorian rf.yP = true) then .reformLeap
      else .reformCommon := by
  simp only [Reform.cal, Calendar.yearKind, ReformGap.cmpYear, mkGap, cmpIntRange_eqBoth rf.yP rf.yP rf.yQ rfl h,
    isJulianLeapYear_eq, isGregorianLeapYear_eq, Month.lt, Month.le, Bool.and_eq_true,
    Bool.or_eq_true, decide_eq_true_eq, beq_iff_eq]

/-! ### natural month lengths -/

/-- the leap rule that governs the natural length of month (y, m): Julian if the month comes
before the month of the first Gregorian date, Gregorian otherwise -/
def natLp (y : Int) (m : Month) : Bool :=
  if ymKey y m < ymKey rf.yQ rf.mQ then leap .julian y else leap .gregorian y

/-- strictly between the last Julian month and the first Gregorian month -/
def Between (y : Int) (m : Month) : Prop :=
  ymKey rf.yP rf.mP < ymKey y m ∧ ymKey y m < ymKey rf.yQ rf.mQ

theorem cmpYearMonth_eq (y : Int) (m : Month) :
    (mkGap rf.yP rf.mP rf.dP rf.yQ rf.mQ rf.dQ).cmpYearMonth y m
      = cmpYmRange y m rf.yP rf.mP rf.yQ rf.mQ := rfl

theorem feb_number : Month.february.number = 2 := rfl
theorem jan_number : Month.january.number = 1 := rfl
theorem dec_number : Month.december.number = 12 := rfl

theorem month_eq_iff (a b : Month) : a = b ↔ a.number = b.number :=
  ⟨fun h => by rw [h], Month.number_inj a b⟩

theorem naturalLength_feb_raw (y : Int) :
    rf.cal.naturalLength y .february =
      if (rf.cal.yearKind y).isLeap = true then 29
      else if (cmpYmRange y .february rf.yP rf.mP rf.yQ rf.mQ == .eqLower && leap .julian y) = true then 29
      else 28 := by
  simp only [Calendar.naturalLength, gap_eq, cmpYearMonth_eq, isJulianLeapYear_eq]

theorem eqLower_iff (y : Int) (m : Month) :
    (cmpYmRange y m rf.yP rf.mP rf.yQ rf.mQ == .eqLower) = true
      ↔ (ymKey y m = ymKey rf.yP rf.mP ∧ ymKey y m < ymKey rf.yQ rf.mQ) := by
  have hle := rf.ym_le
  rcases Int.lt_trichotomy (ymKey y m) (ymKey rf.yP rf.mP) with a | a | a
  · rw [cmpYmRange_less _ _ _ _ _ _ a]; constructor
    · intro h; cases h
    · intro h; omega
  · rcases Int.lt_or_eq_of_le hle with b | b
    · rw [cmpYmRange_eqLower _ _ _ _ _ _ a (by omega)]; constructor
      · intro _; exact ⟨a, by omega⟩
      · intro _; rfl
    · rw [cmpYmRange_eqBoth _ _ _ _ _ _ a (by omega)]; constructor
      · intro h; cases h
      · intro h; omega
  · rcases Int.lt_trichotomy (ymKey y m) (ymKey rf.yQ rf.mQ) with b | b | b
    · rw [cmpYmRange_between _ _ _ _ _ _ hle a b]; constructor
      · intro h; cases h
      · intro h; omega
    · rw [cmpYmRange_eqUpper _ _ _ _ _ _ hle a b]; constructor
      · intro h; cases h
      · intro h; omega
    · rw [cmpYmRange_greater _ _ _ _ _ _ hle a b]; constructor
      · intro h; cases h
      · intro h; omega

theorem ite29 (A B C : Prop) [Decidable A] [Decidable B] [Decidable C] (h : (A ∨ B) ↔ C) :
    (if A then (29 : Int) else if B then 29 else 28) = if C then 29 else 28 := by
  by_cases a : A
  · simp [a, h.mp (Or.inl a)]
  · by_cases b : B
    · simp [a, b, h.mp (Or.inr b)]
    · have : ¬ C := fun c => (h.mpr c).elim a b
      simp [a, b, this]

/-- is the year kind a leap kind? — region by region, as arithmetic -/
theorem isLeap_iff (y : Int) :
    (rf.cal.yearKind y).isLeap = true ↔
      ( (y < rf.yP ∧ leap .julian y = true)
      ∨ (rf.yQ < y ∧ leap .gregorian y = true)
      ∨ (y = rf.yP ∧ rf.yP < rf.yQ ∧ leap .julian y = true
          ∧ ((rf.mP.number = 12 ∧ rf.dP = 31) ∨ 2 < rf.mP.number ∨ (rf.mP.number = 2 ∧ rf.dP = 29)))
      ∨ (y = rf.yQ ∧ rf.yP < rf.yQ ∧ leap .gregorian y = true
          ∧ ((rf.mQ.number = 1 ∧ rf.dQ = 1) ∨ rf.mQ.number ≤ 2))
      ∨ (y = rf.yP ∧ rf.yP = rf.yQ
          ∧ ((leap .julian y = true ∧ (2 < rf.mP.number ∨ (rf.mP.number = 2 ∧ rf.dP = 29)))
              ∨ (leap .gregorian y = true ∧ rf.mQ.number ≤ 2))) ) := by
  have hle := rf.yP_le_yQ
  rcases Int.lt_trichotomy y rf.yP with h1 | h1 | h1
  · rw [yearKind_lt rf y h1]
    cases hj : leap .julian y <;> cases hg : leap .gregorian y <;> simp [YearKind.isLeap] <;> omega
  · subst h1
    rcases Int.lt_or_eq_of_le hle with h2 | h2
    · rw [yearKind_lower rf h2]
      simp only [month_eq_iff, feb_number, dec_number]
      cases hj : leap .julian rf.yP <;> cases hg : leap .gregorian rf.yP <;>
        simp <;> (repeat' split) <;> simp [YearKind.isLeap] <;> (first | omega | (simp_all; done) | (simp_all; omega))
    · rw [yearKind_both rf h2]
      simp only [month_eq_iff, feb_number]
      cases hj : leap .julian rf.yP <;> cases hg : leap .gregorian rf.yP <;>
        simp <;> (repeat' split) <;> simp [YearKind.isLeap] <;> (first | omega | (simp_all; done) | (simp_all; omega))
  · rcases Int.lt_trichotomy y rf.yQ with h2 | h2 | h2
    · rw [yearKind_between rf y h1 h2]
      cases hj : leap .julian y <;> cases hg : leap .gregorian y <;> simp [YearKind.isLeap] <;> omega
    · subst h2
      rw [yearKind_upper rf h1]
      simp only [month_eq_iff, feb_number, jan_number]
      cases hj : leap .julian rf.yQ <;> cases hg : leap .gregorian rf.yQ <;>
        simp <;> (repeat' split) <;> simp [YearKind.isLeap] <;> (first | omega | (simp_all; done) | (simp_all; omega))
    · rw [yearKind_gt rf y h2]
      cases hj : leap .julian y <;> cases hg : leap .gregorian y <;> simp [YearKind.isLeap] <;> omega

theorem natLp_iff (y : Int) (m : Month) :
    rf.natLp y m = true ↔
      ((ymKey y m < ymKey rf.yQ rf.mQ ∧ leap .julian y = true)
        ∨ (¬ ymKey y m < ymKey rf.yQ rf.mQ ∧ leap .gregorian y = true)) := by
  simp only [natLp]
  by_cases h : ymKey y m < ymKey rf.yQ rf.mQ <;> simp [h]

/-- **the natural length of February** (fixes F2/F3 live here): 29 exactly when the rule in
force at the end of that February makes the year leap -/
theorem naturalLength_feb (y : Int) (hnb : ¬ rf.Between y .february) :
    rf.cal.naturalLength y .february = if rf.natLp y .february = true then 29 else 28 := by
  rw [naturalLength_feb_raw]
  apply ite29
  rw [isLeap_iff, Bool.and_eq_true, eqLower_iff, natLp_iff]
  have bP := Month.number_bounds rf.mP
  have bQ := Month.number_bounds rf.mQ
  have hlo := rf.label_order
  have vP := rf.validP
  have vQ := rf.validQ
  have hGJ := Reform.leapG_imp_leapJ y
  have hfebQ : rf.mQ.number = 2 → rf.dQ ≤ 29 := by
    intro h
    have hfeb : rf.mQ = .february := Month.number_inj _ _ h
    have : monthLen (leap .gregorian rf.yQ) rf.mQ ≤ 29 := by
      rw [hfeb]; cases leap .gregorian rf.yQ <;> simp [monthLen]
    omega
  have hlo' : rf.yP < rf.yQ ∨ (rf.yP = rf.yQ ∧ (rf.mP.number < rf.mQ.number
      ∨ (rf.mP.number = rf.mQ.number ∧ rf.dP + 2 ≤ rf.dQ))) := by
    rcases hlo with a | ⟨e, a | ⟨e2, a⟩⟩
    · exact Or.inl a
    · exact Or.inr ⟨e, Or.inl a⟩
    · exact Or.inr ⟨e, Or.inr ⟨by rw [e2], a⟩⟩
  simp only [Between, ymKey, feb_number] at hnb ⊢
  cases hj : leap .julian y <;> cases hg : leap .gregorian y
  · simp
  · rw [hGJ hg] at hj; cases hj
  · simp; omega
  · simp; omega

end Reform
end JV
