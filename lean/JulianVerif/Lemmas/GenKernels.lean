/-
Lemmas/GenKernels.lean — two translators, one meaning.  The nine inner.rs kernels are translated twice:
by bin/srcgen into Model/CheckedInner.lean (`Chk.*`, what Lemmas/CheckedKernels.lean and CheckedCmp.lean
prove fault-free and equal to the unbounded model) and, independently, by bin/libgen into
Model/GenLib.lean (`Gen.k*`).  The two programs share no code beyond the token pattern of the lexer;
this file proves, for all arguments, that their outputs are the same functions.
-/
import JulianVerif.Lemmas.GenLib
set_option maxHeartbeats 4000000
set_option linter.unusedSimpArgs false
namespace JV.Gen

/-- unfold the monad, split every branch both sides have in common, close by reflexivity -/
macro "kern" : tactic => `(tactic| (
  simp only [bind, Option.bind, pure]
  repeat' (first | rfl | split)
  all_goals (first | rfl | (exfalso; omega) | (simp_all; done) | (simp_all; omega))))

theorem kDecomposeJulian_eq (days : Int) : kDecomposeJulian days = Chk.decomposeJulian days := by
  unfold kDecomposeJulian Chk.decomposeJulian; kern

theorem kComposeJulian_eq (years ordinal : Int) : kComposeJulian years ordinal = Chk.composeJulian years ordinal := by
  unfold kComposeJulian Chk.composeJulian; kern

theorem kJdn2julian_eq (jd : Int) : kJdn2julian jd = Chk.jdn2julian jd := by
  unfold kJdn2julian Chk.jdn2julian; simp only [kDecomposeJulian_eq]; try kern

theorem kJulian2jdn_eq (year ordinal : Int) : kJulian2jdn year ordinal = Chk.julian2jdn year ordinal := by
  unfold kJulian2jdn Chk.julian2jdn
  simp only [kComposeJulian_eq, Chk.i32, bind, Option.bind, pure]
  have e : year - -4712 = year + 4712 := by omega
  by_cases h : inI32 (year + 4712) = true <;> simp [h, e]

theorem kJdn2gregorian_eq (jd : Int) : kJdn2gregorian jd = Chk.jdn2gregorian jd := by
  unfold kJdn2gregorian Chk.jdn2gregorian
  simp only [kDecomposeJulian_eq, bind, Option.bind, pure]
  by_cases hj : jd < 0 <;> simp only [hj, decide_true, decide_false, if_true, if_false, Bool.false_eq_true]
  all_goals
    rcases Chk.i32 (jd - _) with _ | a
    · rfl
    simp only []
    rcases Chk.i32 (a / 146097) with _ | q
    · rfl
    simp only []
    rcases Chk.i32 (a % 146097) with _ | p
    · rfl
    simp only [Chk.i32]
    by_cases hp : inI32 (p - 366) = true <;> simp only [hp, if_true, if_false, Bool.false_eq_true]
    all_goals (repeat' (first | rfl | split)); all_goals (first | rfl | simp_all)

theorem kGregorian2jdn_eq (year ordinal : Int) : kGregorian2jdn year ordinal = Chk.gregorian2jdn year ordinal := by
  unfold kGregorian2jdn Chk.gregorian2jdn; kern

theorem kCmpIntRange_eq (v l u : Int) : kCmpIntRange v l u = Chk.cmpIntRange v l u := by
  unfold kCmpIntRange Chk.cmpIntRange; kern

private theorem ite_bnot {α : Type} (b : Bool) (x y : α) :
    (if (!b) = true then x else y) = if b = true then y else x := by cases b <;> rfl

theorem kCmpYmRange_eq (a b c : Int × Month) : kCmpYmRange a b c = Chk.cmpYmRange a b c := by
  obtain ⟨y, m⟩ := a; obtain ⟨ly, lm⟩ := b; obtain ⟨uy, um⟩ := c
  unfold kCmpYmRange Chk.cmpYmRange
  simp only [ite_bnot, monthEq_eq, monthLt_eq, monthLe_eq, pure, decide_eq_true_eq]

theorem kGapKindForDates_eq (a : Int) (m : Month) (b : Int) (n : Month) :
    kGapKindForDates a m b n = Chk.gapKindForDates a m b n := by
  unfold kGapKindForDates Chk.gapKindForDates
  simp only [monthEq_eq, bind, Option.bind, pure]
  repeat' (first | rfl | split)
  all_goals (first | rfl | (exfalso; omega) | (simp_all; done))

end JV.Gen
