/-
Lemmas/ShapedInst.lean — every well-formed calendar has proper month shapes, and in a
reforming calendar the natural span of a month follows the rule in force at its end.
-/
import JulianVerif.Lemmas.MonthDays
set_option linter.unusedSimpArgs false
namespace JV
open Spec

def ruleCal_shaped (ρ : Rule) : Shaped (ruleCal ρ) where
  toAccepting := ruleCal_accepting ρ
  proper := by
    intro y m s hs
    rw [ruleCal_whole ρ y m] at hs
    cases hs
    have := monthLen_bounds (leap ρ y) m
    simp only [IShape.Proper]; omega

namespace Reform
variable (rf : Reform)

/-- every shape of a reforming calendar is proper, and its natural span is the month table
under the rule in force at the end of the month -/
theorem shape_proper (y : Int) (m : Month) (s : IShape) (h : rf.cal.monthIShape y m = some s) :
    s.Proper ∧ s.naturalMax = monthLen (rf.natLp y m) m := by
  have vP := rf.validP
  have vQ := rf.validQ
  have hle := rf.ym_le
  have hlo := rf.label_order
  have blJ := monthLen_bounds (leap .julian y) m
  have blG := monthLen_bounds (leap .gregorian y) m
  rcases Int.lt_trichotomy (ymKey y m) (ymKey rf.yP rf.mP) with a | a | a
  · rw [rf.shape_before y m a] at h; cases h
    have hn : rf.natLp y m = leap .julian y := by simp only [natLp]; rw [if_pos (by omega)]
    rw [hn]; simp only [IShape.Proper, IShape.naturalMax]; exact ⟨by omega, trivial⟩
  · obtain ⟨ey, em⟩ := (ymKey_eq _ _ _ _).mp a
    subst ey; subst em
    rcases Int.lt_or_eq_of_le hle with b | b
    · rw [rf.shape_P b] at h
      have hn : rf.natLp rf.yP rf.mP = leap .julian rf.yP := by simp only [natLp]; rw [if_pos b]
      rw [hn]
      split at h <;> cases h <;> simp only [IShape.Proper, IShape.naturalMax]
      · exact ⟨by omega, trivial⟩
      · exact ⟨by omega, trivial⟩
    · obtain ⟨ey, em⟩ := (ymKey_eq _ _ _ _).mp b
      have h' := rf.shape_PQ b
      rw [← ey, ← em] at h'
      rw [h'] at h; cases h
      have hd : rf.dP + 2 ≤ rf.dQ := by
        rcases hlo with c | ⟨_, c | ⟨_, c⟩⟩
        · omega
        · have := congrArg Month.number em; omega
        · exact c
      have hn : rf.natLp rf.yP rf.mP = leap .gregorian rf.yP := by
        simp only [natLp]; rw [if_neg (by omega)]
      rw [hn]
      rw [← ey, ← em] at vQ
      simp only [IShape.Proper, IShape.naturalMax]; exact ⟨by omega, trivial⟩
  · rcases Int.lt_trichotomy (ymKey y m) (ymKey rf.yQ rf.mQ) with b | b | b
    · rw [rf.shape_between y m a b] at h; cases h
    · obtain ⟨ey, em⟩ := (ymKey_eq _ _ _ _).mp b
      subst ey; subst em
      rw [rf.shape_Q (by omega)] at h
      have hn : rf.natLp rf.yQ rf.mQ = leap .gregorian rf.yQ := by
        simp only [natLp]; rw [if_neg (by omega)]
      rw [hn]
      split at h <;> cases h <;> simp only [IShape.Proper, IShape.naturalMax]
      · exact ⟨by omega, trivial⟩
      · exact ⟨by omega, trivial⟩
    · rw [rf.shape_after y m b] at h; cases h
      have hn : rf.natLp y m = leap .gregorian y := by simp only [natLp]; rw [if_neg (by omega)]
      rw [hn]; simp only [IShape.Proper, IShape.naturalMax]; exact ⟨by omega, trivial⟩

def shaped : Shaped rf.cal where
  toAccepting := rf.accepting
  proper := fun y m s h => (rf.shape_proper y m s h).1

end Reform

theorem WF.shaped {c : Calendar} (h : WF c) : Nonempty (Shaped c) := by
  rcases h.cases with rfl | rfl | ⟨rf, rfl, _⟩
  · exact ⟨ruleCal_shaped .julian⟩
  · exact ⟨ruleCal_shaped .gregorian⟩
  · exact ⟨rf.shaped⟩

end JV
