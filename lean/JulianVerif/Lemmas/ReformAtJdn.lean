/-
Lemmas/ReformAtJdn.lean — L4: the central theorem.  `at_jdn` of a reforming calendar gives
every day below R its Julian label and every day from R on its Gregorian label, with
gap-free ordinals.
-/
import JulianVerif.Lemmas.ReformWalk
set_option linter.unusedSimpArgs false
namespace JV
open Spec

namespace Reform
variable (rf : Reform)

/-- Julian labels of days below R come no later than the last Julian label -/
theorem julian_side_order {j y : Int} {m : Month} {d : Int} (hj : j < rf.R)
    (h : IsDate .julian j y m d) :
    y < rf.yP ∨ (y = rf.yP ∧ daysBefore (leap .julian y) m + d ≤ rf.oP) := by
  have hP := rf.hP
  have b := jdnOf_bounds .julian y m d h.1
  have bP := jdnOf_bounds .julian rf.yP rf.mP rf.dP hP.1
  rcases Int.lt_trichotomy y rf.yP with c | c | c
  · exact Or.inl c
  · subst c
    refine Or.inr ⟨rfl, ?_⟩
    have e1 := h.2; have e2 := hP.2
    simp only [jdnOf, oP] at *; omega
  · have := yearStart_lt .julian rf.yP y c
    have e1 := h.2; have e2 := hP.2
    omega

/-- Gregorian labels of days from R on come no earlier than the first Gregorian label -/
theorem gregorian_side_order {j y : Int} {m : Month} {d : Int} (hj : rf.R ≤ j)
    (h : IsDate .gregorian j y m d) :
    rf.yQ < y ∨ (y = rf.yQ ∧ rf.oQ ≤ daysBefore (leap .gregorian y) m + d) := by
  have hQ := rf.hQ
  have b := jdnOf_bounds .gregorian y m d h.1
  have bQ := jdnOf_bounds .gregorian rf.yQ rf.mQ rf.dQ hQ.1
  rcases Int.lt_trichotomy y rf.yQ with c | c | c
  · have := yearStart_lt .gregorian y rf.yQ c
    have e1 := h.2; have e2 := hQ.2
    omega
  · subst c
    refine Or.inr ⟨rfl, ?_⟩
    have e1 := h.2; have e2 := hQ.2
    simp only [jdnOf, oQ] at *; omega
  · exact Or.inl c

/-- **the Julian side of the month walk** -/
theorem ordinal2ymddo_julian_side {y : Int} {m : Month} {d : Int}
    (hv : ValidYMD .julian y m d)
    (ho : y < rf.yP ∨ (y = rf.yP ∧ daysBefore (leap .julian y) m + d ≤ rf.oP)) :
    rf.cal.ordinal2ymddo y (daysBefore (leap .julian y) m + d) = .ok (m, d, d) := by
  have vP := rf.validP
  have vQ := rf.validQ
  have hle := rf.ym_le
  have bm := Month.number_bounds m
  have bP := Month.number_bounds rf.mP
  rcases ho with h1 | ⟨h1, h2⟩
  · -- a whole Julian year
    have hs := rf.shape_before y m (by simp only [ymKey]; omega)
    refine rf.walk y _ m d _ d hs hv.1 hv.2 ?_ ?_
    · rw [prefixSum_congr_before _ (monthLen (leap .julian y)) m
        (fun m' _ => by
          have := Month.number_bounds m'
          exact rf.lenOf_before y m' (by simp only [ymKey]; omega)), prefixSum_monthLen]
    · simp only [IShape.nthDay]
      have : (decide (1 ≤ d) && decide (d ≤ monthLen (leap .julian y) m)) = true := by
        simp; exact hv
      rw [if_pos this]
  · subst h1
    -- the year of the last Julian date: m is at most its month
    have hm : m.number < rf.mP.number ∨ (m = rf.mP ∧ d ≤ rf.dP) := by
      simp only [oP] at h2
      have := (daysBefore_lt_iff (leap .julian rf.yP) rf.mP m rf.dP d vP.1 vP.2 hv.1 hv.2)
      rcases Int.lt_trichotomy m.number rf.mP.number with a | a | a
      · exact Or.inl a
      · have e := Month.number_inj _ _ a
        subst e; exact Or.inr ⟨rfl, by omega⟩
      · have := this.mpr (Or.inl a); omega
    have hpre : prefixSum (rf.cal.lenOf rf.yP) m = daysBefore (leap .julian rf.yP) m :=
      rf.prefix_julian_side m (by
        rcases hm with a | ⟨a, _⟩
        · omega
        · rw [a]; exact Int.le_refl _)
    rcases hm with a | ⟨a, a2⟩
    · have hs := rf.shape_before rf.yP m (by simp only [ymKey]; omega)
      refine rf.walk rf.yP _ m d _ d hs hv.1 hv.2 (by rw [hpre]) ?_
      simp only [IShape.nthDay]
      have : (decide (1 ≤ d) && decide (d ≤ monthLen (leap .julian rf.yP) m)) = true := by
        simp; exact hv
      rw [if_pos this]
    · subst a
      rcases Int.lt_or_eq_of_le hle with b | b
      · have hs := rf.shape_P b
        by_cases c : rf.dP = monthLen (leap .julian rf.yP) rf.mP
        · rw [if_pos c] at hs
          refine rf.walk rf.yP _ rf.mP d _ d hs hv.1 hv.2 (by rw [hpre]) ?_
          simp only [IShape.nthDay]
          have : (decide (1 ≤ d) && decide (d ≤ monthLen (leap .julian rf.yP) rf.mP)) = true := by
            simp; exact hv
          rw [if_pos this]
        · rw [if_neg c] at hs
          refine rf.walk rf.yP _ rf.mP d _ d hs hv.1 (by simp only [IShape.len]; exact a2) (by rw [hpre]) ?_
          simp only [IShape.nthDay]
          have : (decide (1 ≤ d) && decide (d ≤ rf.dP)) = true := by
            simp; exact ⟨hv.1, a2⟩
          rw [if_pos this]
      · obtain ⟨ey, em⟩ := (ymKey_eq _ _ _ _).mp b
        have hs := rf.shape_PQ b
        rw [← ey, ← em] at hs
        rw [← ey, ← em] at vQ
        have hd : rf.dP + 2 ≤ rf.dQ := by
          rcases rf.label_order with c | ⟨_, c | ⟨_, c⟩⟩
          · omega
          · have := congrArg Month.number em; omega
          · exact c
        refine rf.walk rf.yP _ rf.mP d
          (.gapped (rf.dP + 1) (rf.dQ - 1) (monthLen (leap .gregorian rf.yP) rf.mP)) d hs hv.1
          (by simp only [IShape.len]; omega) (by rw [hpre]) ?_
        simp only [IShape.nthDay]
        have hd1 := hv.1
        have h0 : (d == 0) = false := by simp; omega
        have h1 : d < rf.dP + 1 := by omega
        simp [h0, h1]

/-- number of day-of-year ordinals removed in the year of the first Gregorian date -/
def gapAmt : Int := rf.oQ - rf.oP' - 1

theorem ordinalGap_eq' : (mkGap rf.yP rf.mP rf.dP rf.yQ rf.mQ rf.dQ).ordinalGap = rf.gapAmt := by
  rw [ordinalGap_eq]; simp only [gapAmt, oP']; split <;> omega

/-- in-month ordinal of day `d` of month `m` of year `y` on the Gregorian side -/
def dayOrdG (y : Int) (m : Month) (d : Int) : Int :=
  if y = rf.yQ ∧ m = rf.mQ then
    (if ymKey rf.yP rf.mP = ymKey rf.yQ rf.mQ then d - (rf.dQ - rf.dP - 1) else d - rf.dQ + 1)
  else d

/-- **the Gregorian side of the month walk** -/
theorem ordinal2ymddo_gregorian_side {y : Int} {m : Month} {d : Int}
    (hv : ValidYMD .gregorian y m d)
    (ho : rf.yQ < y ∨ (y = rf.yQ ∧ rf.oQ ≤ daysBefore (leap .gregorian y) m + d)) :
    rf.cal.ordinal2ymddo y
        (if y = rf.yQ then daysBefore (leap .gregorian y) m + d - rf.gapAmt
         else daysBefore (leap .gregorian y) m + d)
      = .ok (m, d, rf.dayOrdG y m d) := by
  have vP := rf.validP
  have vQ := rf.validQ
  have hle := rf.ym_le
  have bm := Month.number_bounds m
  have bQ := Month.number_bounds rf.mQ
  have hv1 := hv.1
  have hv2 := hv.2
  rcases ho with h1 | ⟨h1, h2⟩
  · -- a whole Gregorian year
    have hne : ¬ y = rf.yQ := by omega
    have hs := rf.shape_after y m (by simp only [ymKey]; omega)
    simp only [hne, if_false, dayOrdG, false_and]
    refine rf.walk y _ m d _ d hs hv.1 hv.2 ?_ ?_
    · rw [prefixSum_congr_before _ (monthLen (leap .gregorian y)) m
        (fun m' _ => by
          have := Month.number_bounds m'
          exact rf.lenOf_after y m' (by simp only [ymKey]; omega)), prefixSum_monthLen]
    · simp only [IShape.nthDay]
      have : (decide (1 ≤ d) && decide (d ≤ monthLen (leap .gregorian y) m)) = true := by
        simp; exact hv
      rw [if_pos this]
  · subst h1
    simp only [if_true, dayOrdG, true_and]
    -- m is at least the month of the first Gregorian date
    have hm : rf.mQ.number < m.number ∨ (m = rf.mQ ∧ rf.dQ ≤ d) := by
      simp only [oQ] at h2
      have := (daysBefore_lt_iff (leap .gregorian rf.yQ) m rf.mQ d rf.dQ hv.1 hv.2 vQ.1 vQ.2)
      rcases Int.lt_trichotomy m.number rf.mQ.number with a | a | a
      · have := this.mpr (Or.inl a); omega
      · have e := Month.number_inj _ _ a
        subst e; exact Or.inr ⟨rfl, by omega⟩
      · exact Or.inl a
    rcases hm with a | ⟨a, a2⟩
    · have hmne : ¬ m = rf.mQ := by intro e; rw [e] at a; omega
      have hs := rf.shape_after rf.yQ m (by simp only [ymKey]; omega)
      rw [if_neg hmne]
      refine rf.walk rf.yQ _ m d _ d hs hv.1 hv.2 ?_ ?_
      · rw [rf.prefix_gregorian_side m a]; simp only [gapAmt]; omega
      · simp only [IShape.nthDay]
        have : (decide (1 ≤ d) && decide (d ≤ monthLen (leap .gregorian rf.yQ) m)) = true := by
          simp; exact hv
        rw [if_pos this]
    · subst a
      simp only [if_true]
      rcases Int.lt_or_eq_of_le hle with b | b
      · have hbne : ¬ ymKey rf.yP rf.mP = ymKey rf.yQ rf.mQ := by omega
        rw [if_neg hbne]
        have hs := rf.shape_Q b
        have hpre := rf.prefix_Q_cross b
        by_cases c : rf.dQ > 1
        · rw [if_pos c] at hs
          refine rf.walk rf.yQ _ rf.mQ (d - rf.dQ + 1) _ d hs (by omega)
            (by simp only [IShape.len]; omega) (by rw [hpre]; simp only [gapAmt, oQ]; omega) ?_
          simp only [IShape.nthDay]
          have : (decide (1 ≤ d - rf.dQ + 1)
              && decide (d - rf.dQ + 1 ≤ monthLen (leap .gregorian rf.yQ) rf.mQ - rf.dQ + 1)) = true := by
            simp; omega
          rw [if_pos this]; congr 1; omega
        · rw [if_neg c] at hs
          have hdq : rf.dQ = 1 := by omega
          refine rf.walk rf.yQ _ rf.mQ (d - rf.dQ + 1) _ d hs (by omega)
            (by simp only [IShape.len]; omega) (by rw [hpre]; simp only [gapAmt, oQ]; omega) ?_
          simp only [IShape.nthDay]
          have : (decide (1 ≤ d - rf.dQ + 1)
              && decide (d - rf.dQ + 1 ≤ monthLen (leap .gregorian rf.yQ) rf.mQ)) = true := by
            simp; omega
          rw [if_pos this]; congr 1; omega
      · rw [if_pos b]
        obtain ⟨ey, em⟩ := (ymKey_eq _ _ _ _).mp b
        have hs := rf.shape_PQ b
        have hpre := rf.prefix_Q_intra b
        have hd : rf.dP + 2 ≤ rf.dQ := by
          rcases rf.label_order with c | ⟨_, c | ⟨_, c⟩⟩
          · omega
          · have := congrArg Month.number em; omega
          · exact c
        have hoP' : rf.oP' = daysBefore (leap .julian rf.yQ) rf.mQ + rf.dP := by
          simp only [oP', ey, if_true, oP, em]
        refine rf.walk rf.yQ _ rf.mQ (d - (rf.dQ - rf.dP - 1))
          (.gapped (rf.dP + 1) (rf.dQ - 1) (monthLen (leap .gregorian rf.yQ) rf.mQ)) d hs (by omega)
          (by simp only [IShape.len]; omega)
          (by rw [hpre]; simp only [gapAmt, oQ, hoP']; omega) ?_
        simp only [IShape.nthDay]
        have h0 : (d - (rf.dQ - rf.dP - 1) == 0) = false := by simp; omega
        have h1 : ¬ d - (rf.dQ - rf.dP - 1) < rf.dP + 1 := by omega
        have h2' : ¬ d - (rf.dQ - rf.dP - 1) > monthLen (leap .gregorian rf.yQ) rf.mQ := by omega
        have h3 : d - (rf.dQ - rf.dP - 1) + (rf.dQ - 1 - (rf.dP + 1) + 1)
            ≤ monthLen (leap .gregorian rf.yQ) rf.mQ := by omega
        simp only [h0, h1, h2', h3, Bool.false_eq_true, if_false, if_true]
        congr 1; omega

theorem jdnYearOrdinal_raw (j : Int) :
    rf.cal.jdnYearOrdinal j =
      (if (if j < rf.R then jdn2julian j else jdn2gregorian j).1 = rf.yQ
            ∧ (if j < rf.R then jdn2julian j else jdn2gregorian j).2
                > (mkGap rf.yP rf.mP rf.dP rf.yQ rf.mQ rf.dQ).ordinalGapStart
       then ((if j < rf.R then jdn2julian j else jdn2gregorian j).1,
             (if j < rf.R then jdn2julian j else jdn2gregorian j).2
               - (mkGap rf.yP rf.mP rf.dP rf.yQ rf.mQ rf.dQ).ordinalGap)
       else (if j < rf.R then jdn2julian j else jdn2gregorian j)) := by
  simp only [Calendar.jdnYearOrdinal, Reform.cal, Calendar.gap]
  by_cases h : j < rf.R
  · simp only [h, decide_true, if_true]
    obtain ⟨y, o, e⟩ : ∃ y o, jdn2julian j = (y, o) := ⟨_, _, rfl⟩
    rw [e]
    simp [mkGap]
  · simp only [h, decide_false, Bool.false_eq_true, if_false]
    obtain ⟨y, o, e⟩ : ∃ y o, jdn2gregorian j = (y, o) := ⟨_, _, rfl⟩
    rw [e]
    simp [mkGap]

/-- **days below R carry their proleptic-Julian label** (all seven fields of the date) -/
theorem atJdn_julian (j : Int) (hj : j < rf.R) :
    ∃ y m d, rf.cal.atJdn? j
        = some ⟨rf.cal, y, daysBefore (leap .julian y) m + d, m, d, d, j⟩
      ∧ IsDate .julian j y m d
      ∧ (y < rf.yP ∨ (y = rf.yP ∧ daysBefore (leap .julian y) m + d ≤ rf.oP)) := by
  obtain ⟨y, o, hyo⟩ : ∃ y o, jdn2julian j = (y, o) := ⟨_, _, rfl⟩
  obtain ⟨hjj, ho1, ho2⟩ := jdn2julian_spec hyo
  obtain ⟨m, d, _, hsum, hd1, hd2⟩ := ruleCal_ordinal2ymddo .julian y o ho1 ho2
  have hdate : IsDate .julian j y m d := ⟨⟨hd1, hd2⟩, by simp only [jdnOf]; omega⟩
  have hord := rf.julian_side_order hj hdate
  refine ⟨y, m, d, ?_, hdate, hord⟩
  have hyo' : rf.cal.jdnYearOrdinal j = (y, o) := by
    rw [jdnYearOrdinal_raw]
    simp only [hj, if_true, hyo]
    rw [if_neg]
    rw [ordinalGapStart_eq]
    intro ⟨e1, e2⟩
    have hle := rf.yP_le_yQ
    rcases hord with a | ⟨a, b⟩
    · omega
    · have e3 : rf.yP = rf.yQ := by omega
      have := (rf.ordinal_order e3).2
      rw [if_pos e3] at e2
      omega
  have hwalk := rf.ordinal2ymddo_julian_side ⟨hd1, hd2⟩ hord
  rw [hsum] at hwalk
  simp only [Calendar.atJdn?, hyo', hwalk, hsum]

/-- **days from R on carry their proleptic-Gregorian label**; the day-of-year is the
Gregorian one less the removed ordinals, the in-month ordinal skips the removed days -/
theorem atJdn_gregorian (j : Int) (hj : rf.R ≤ j) :
    ∃ y m d, rf.cal.atJdn? j
        = some ⟨rf.cal, y,
            (if y = rf.yQ then daysBefore (leap .gregorian y) m + d - rf.gapAmt
             else daysBefore (leap .gregorian y) m + d), m, d, rf.dayOrdG y m d, j⟩
      ∧ IsDate .gregorian j y m d
      ∧ (rf.yQ < y ∨ (y = rf.yQ ∧ rf.oQ ≤ daysBefore (leap .gregorian y) m + d)) := by
  obtain ⟨y, o, hyo⟩ : ∃ y o, jdn2gregorian j = (y, o) := ⟨_, _, rfl⟩
  obtain ⟨hjj, ho1, ho2⟩ := jdn2gregorian_spec hyo
  obtain ⟨m, d, _, hsum, hd1, hd2⟩ := ruleCal_ordinal2ymddo .gregorian y o ho1 ho2
  have hdate : IsDate .gregorian j y m d := ⟨⟨hd1, hd2⟩, by simp only [jdnOf]; omega⟩
  have hord := rf.gregorian_side_order hj hdate
  refine ⟨y, m, d, ?_, hdate, hord⟩
  have hnj : ¬ j < rf.R := by omega
  have hyo' : rf.cal.jdnYearOrdinal j = (y, if y = rf.yQ then o - rf.gapAmt else o) := by
    rw [jdnYearOrdinal_raw]
    simp only [hnj, if_false, hyo]
    rw [ordinalGapStart_eq, ordinalGap_eq']
    by_cases e : y = rf.yQ
    · have hoq : rf.oQ ≤ o := by
        rcases hord with a | ⟨_, b⟩ <;> omega
      have : o > (if rf.yP = rf.yQ then rf.oQ - 1 else 0) := by split <;> omega
      rw [if_pos ⟨e, this⟩, if_pos e]
    · rw [if_neg (fun h => e h.1), if_neg e]
  have hwalk := rf.ordinal2ymddo_gregorian_side ⟨hd1, hd2⟩ hord
  rw [hsum] at hwalk
  simp only [Calendar.atJdn?, hyo', hwalk, hsum]

end Reform
end JV
