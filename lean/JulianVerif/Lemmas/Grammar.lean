/-
Lemmas/Grammar.lean — `Calendar::parse_date` accepts exactly `[sign]digits-digits[-digits]`.
-/
import JulianVerif.Lemmas.TextRoundTrip
import JulianVerif.Lemmas.Arith
set_option linter.unusedSimpArgs false
set_option maxRecDepth 8000
namespace JV

theorem spanDigits_spec : ∀ (s ds rest : List Char), spanDigits s = (ds, rest) →
    s = ds ++ rest ∧ (∀ c ∈ ds, isAsciiDigit c = true) ∧ NoDigitHead rest := by
  intro s
  induction s with
  | nil =>
    intro ds rest h
    simp only [spanDigits] at h
    cases h
    exact ⟨rfl, by simp, noDigitHead_nil⟩
  | cons c cs ih =>
    intro ds rest h
    simp only [spanDigits] at h
    by_cases hc : isAsciiDigit c = true
    · simp only [hc, if_true] at h
      generalize hsp : spanDigits cs = p at h
      obtain ⟨ds', rest'⟩ := p
      simp only [Prod.mk.injEq] at h
      obtain ⟨h1, h2⟩ := h
      obtain ⟨e, hd, hr⟩ := ih ds' rest' hsp
      subst h1 h2
      refine ⟨by rw [e]; rfl, ?_, hr⟩
      intro x hx
      simp only [List.mem_cons] at hx
      rcases hx with rfl | hx
      · exact hc
      · exact hd x hx
    · simp only [hc, if_false, Bool.false_eq_true] at h
      cases h
      refine ⟨rfl, by simp, ?_⟩
      intro x xs hx
      injection hx with hx _
      subst hx
      simpa using hc

/-- `parse_uint` succeeds exactly on a non-empty run of digits (value within u32) -/
theorem parseUInt_ok (s : List Char) (n : Int) (rest : List Char) (h : parseUInt s = .ok (n, rest)) :
    ∃ ds, ds ≠ [] ∧ (∀ c ∈ ds, isAsciiDigit c = true) ∧ s = ds ++ rest ∧ NoDigitHead rest
      ∧ n = digitsVal ds 0 ∧ n ≤ 4294967295 := by
  simp only [parseUInt] at h
  generalize hsp : spanDigits s = p at h
  obtain ⟨ds, r⟩ := p
  obtain ⟨e, hd, hr⟩ := spanDigits_spec s ds r hsp
  cases ds with
  | nil =>
    simp only at h
    split at h <;> cases h
  | cons d ds' =>
    simp only at h
    split at h
    · rename_i hle
      injection h with h
      simp only [Prod.mk.injEq] at h
      obtain ⟨h1, h2⟩ := h
      subst h1 h2
      exact ⟨d :: ds', List.cons_ne_nil _ _, hd, e, hr, rfl, Int.ofNat_le.mpr hle⟩
    · cases h

theorem parseUInt_digits (ds rest : List Char) (hne : ds ≠ []) (hd : ∀ c ∈ ds, isAsciiDigit c = true)
    (hr : NoDigitHead rest) :
    parseUInt (ds ++ rest)
      = if digitsVal ds 0 ≤ 4294967295 then .ok ((digitsVal ds 0 : Int), rest) else .error .parseInt := by
  have hs := spanDigits_append ds rest hd hr
  cases ds with
  | nil => exact absurd rfl hne
  | cons d ds' => simp only [parseUInt, hs]

/-- the sign characters `parse_int` accepts -/
inductive Sign where
  | none | minus | plus
  deriving DecidableEq, Repr

def Sign.chars : Sign → List Char
  | .none => [] | .minus => ['-'] | .plus => ['+']

def Sign.apply (sg : Sign) (n : Nat) : Int :=
  match sg with
  | .minus => -(n : Int)
  | _ => (n : Int)

theorem parseInt_ok (s : List Char) (v : Int) (rest : List Char) (h : parseInt s = .ok (v, rest)) :
    ∃ (sg : Sign) (ds : List Char), ds ≠ [] ∧ (∀ c ∈ ds, isAsciiDigit c = true)
      ∧ s = sg.chars ++ ds ++ rest ∧ NoDigitHead rest ∧ v = sg.apply (digitsVal ds 0) ∧ InI32 v := by
  cases s with
  | nil => simp only [parseInt] at h; cases h
  | cons c cs =>
    simp only [parseInt] at h
    by_cases hsign : (c == '-' || c == '+') = true
    · simp only [hsign, if_true] at h
      generalize hsp : spanDigits cs = p at h
      obtain ⟨ds, r⟩ := p
      obtain ⟨e, hd, hr⟩ := spanDigits_spec cs ds r hsp
      simp only at h
      by_cases hemp : ds.isEmpty = true
      · simp only [hemp, if_true] at h; cases h
      · simp only [hemp, if_false, Bool.false_eq_true] at h
        have hne' : ds ≠ [] := by intro e0; subst e0; simp at hemp
        by_cases hm : (c == '-') = true
        · have hc : c = '-' := by simpa using hm
          subst hc
          simp only [beq_self_eq_true, if_true] at h
          by_cases hin : inI32 (-(digitsVal ds 0 : Int)) = true
          · simp only [hin, if_true] at h
            injection h with h
            simp only [Prod.mk.injEq] at h
            obtain ⟨hv, hrest⟩ := h
            subst hv hrest
            exact ⟨.minus, ds, hne', hd, by rw [e]; rfl, hr, rfl, (inI32_iff _).mp hin⟩
          · simp only [hin, if_false, Bool.false_eq_true] at h; cases h
        · have hp : c = '+' := by
            simp only [Bool.or_eq_true, beq_iff_eq] at hsign
            rcases hsign with a | a
            · subst a; simp at hm
            · exact a
          subst hp
          have hpm : ('+' == '-') = false := by decide
          simp only [hpm, Bool.false_eq_true, if_false] at h
          by_cases hin : inI32 ((digitsVal ds 0 : Nat) : Int) = true
          · simp only [hin, if_true] at h
            injection h with h
            simp only [Prod.mk.injEq] at h
            obtain ⟨hv, hrest⟩ := h
            subst hv hrest
            exact ⟨.plus, ds, hne', hd, by rw [e]; rfl, hr, rfl, (inI32_iff _).mp hin⟩
          · simp only [hin, if_false, Bool.false_eq_true] at h; cases h
    · simp only [hsign, if_false, Bool.false_eq_true] at h
      by_cases hdig : isAsciiDigit c = true
      · simp only [hdig, if_true] at h
        generalize hsp : spanDigits (c :: cs) = p at h
        obtain ⟨ds, r⟩ := p
        obtain ⟨e, hd, hr⟩ := spanDigits_spec (c :: cs) ds r hsp
        simp only at h
        have hne' : ds ≠ [] := by
          intro e0; subst e0
          simp only [spanDigits, hdig, if_true] at hsp
          generalize spanDigits cs = q at hsp
          obtain ⟨a, b⟩ := q
          simp at hsp
        by_cases hin : inI32 ((digitsVal ds 0 : Nat) : Int) = true
        · simp only [hin, if_true] at h
          injection h with h
          simp only [Prod.mk.injEq] at h
          obtain ⟨hv, hrest⟩ := h
          subst hv hrest
          exact ⟨.none, ds, hne', hd, by rw [e]; rfl, hr, rfl, (inI32_iff _).mp hin⟩
        · simp only [hin, if_false, Bool.false_eq_true] at h; cases h
      · simp only [hdig, if_false, Bool.false_eq_true] at h; cases h

theorem parseInt_form (sg : Sign) (ds rest : List Char) (hne : ds ≠ [])
    (hd : ∀ c ∈ ds, isAsciiDigit c = true) (hr : NoDigitHead rest) :
    parseInt (sg.chars ++ ds ++ rest)
      = if inI32 (sg.apply (digitsVal ds 0)) then .ok (sg.apply (digitsVal ds 0), rest)
        else .error .parseInt := by
  have hs := spanDigits_append ds rest hd hr
  obtain ⟨d, ds', rfl⟩ : ∃ d ds', ds = d :: ds' := by
    cases ds with
    | nil => exact absurd rfl hne
    | cons d ds' => exact ⟨d, ds', rfl⟩
  have hdd : isAsciiDigit d = true := hd d (by simp)
  cases sg with
  | none =>
    have hns := digit_not_sign d hdd
    simp only [Sign.chars, List.nil_append, List.cons_append, parseInt, hns, Bool.false_eq_true,
      if_false, hdd, if_true]
    have hs' : spanDigits (d :: (ds' ++ rest)) = (d :: ds', rest) := hs
    rw [hs']
    rfl
  | minus =>
    simp only [Sign.chars, List.cons_append, List.nil_append, parseInt, beq_self_eq_true,
      Bool.true_or, if_true]
    have hs' : spanDigits (d :: (ds' ++ rest)) = (d :: ds', rest) := hs
    rw [hs']
    rfl
  | plus =>
    have hpm : ('+' == '-') = false := by decide
    simp only [Sign.chars, List.cons_append, List.nil_append, parseInt, hpm, beq_self_eq_true,
      Bool.or_true, if_true, Bool.false_eq_true, if_false]
    have hs' : spanDigits (d :: (ds' ++ rest)) = (d :: ds', rest) := hs
    rw [hs']
    rfl

def AllDigits (ds : List Char) : Prop := ds ≠ [] ∧ ∀ c ∈ ds, isAsciiDigit c = true

/-- `[sign]digits-digits`: the text denotes (year, day of year) -/
theorem parseDate_ordinal_form (c : Calendar) (sg : Sign) (Y O : List Char)
    (hY : AllDigits Y) (hO : AllDigits O) :
    c.parseDate (sg.chars ++ Y ++ '-' :: O) =
      if inI32 (sg.apply (digitsVal Y 0)) then
        if digitsVal O 0 ≤ 4294967295 then
          match c.atOrdinalDate (sg.apply (digitsVal Y 0)) (digitsVal O 0) with
          | .ok d => .ok d
          | .error e => .error (.invalidDate e)
        else .error .parseInt
      else .error .parseInt := by
  have h1 := parseInt_form sg Y ('-' :: O) hY.1 hY.2 (noDigitHead_dash O)
  have h2 := parseUInt_digits O [] hO.1 hO.2 noDigitHead_nil
  simp only [List.append_nil] at h2
  by_cases hin : inI32 (sg.apply (digitsVal Y 0)) = true
  · rw [if_pos hin] at h1
    rw [if_pos hin]
    simp only [Calendar.parseDate, h1, scanChar, beq_self_eq_true, if_true, parseDayInYear, h2]
    by_cases hle : digitsVal O 0 ≤ 4294967295
    · rw [if_pos hle, if_pos hle]
      simp only [List.isEmpty_nil, if_true, Bool.not_true, Bool.false_eq_true, if_false]
      rfl
    · rw [if_neg hle, if_neg hle]
  · rw [if_neg hin] at h1
    rw [if_neg hin]
    simp only [Calendar.parseDate, h1]

/-- `[sign]digits-digits-digits`: the text denotes (year, month, day) -/
theorem parseDate_ymd_form (c : Calendar) (sg : Sign) (Y M D : List Char)
    (hY : AllDigits Y) (hM : AllDigits M) (hD : AllDigits D) :
    c.parseDate (sg.chars ++ Y ++ '-' :: (M ++ '-' :: D)) =
      if inI32 (sg.apply (digitsVal Y 0)) then
        if digitsVal M 0 ≤ 4294967295 then
          match Month.ofInt? (digitsVal M 0) with
          | none => .error (.invalidMonth (digitsVal M 0))
          | some month =>
            if digitsVal D 0 ≤ 4294967295 then
              match c.atYmd (sg.apply (digitsVal Y 0)) month (digitsVal D 0) with
              | .ok d => .ok d
              | .error e => .error (.invalidDate e)
            else .error .parseInt
        else .error .parseInt
      else .error .parseInt := by
  have h1 := parseInt_form sg Y ('-' :: (M ++ '-' :: D)) hY.1 hY.2 (noDigitHead_dash _)
  have h2 := parseUInt_digits M ('-' :: D) hM.1 hM.2 (noDigitHead_dash D)
  have h3 := parseUInt_digits D [] hD.1 hD.2 noDigitHead_nil
  simp only [List.append_nil] at h3
  by_cases hin : inI32 (sg.apply (digitsVal Y 0)) = true
  · rw [if_pos hin] at h1
    rw [if_pos hin]
    simp only [Calendar.parseDate, h1, scanChar, beq_self_eq_true, if_true, parseDayInYear, h2]
    by_cases hle : digitsVal M 0 ≤ 4294967295
    · rw [if_pos hle, if_pos hle]
      simp only [List.isEmpty_cons, Bool.false_eq_true, if_false]
      cases hm : Month.ofInt? ((digitsVal M 0 : Nat) : Int) with
      | none => rfl
      | some month =>
        simp only [scanChar, beq_self_eq_true, if_true, h3]
        by_cases hld : digitsVal D 0 ≤ 4294967295
        · rw [if_pos hld, if_pos hld]
          simp only [List.isEmpty_nil, Bool.not_true, Bool.false_eq_true, if_false]
          rfl
        · rw [if_neg hld, if_neg hld]
    · rw [if_neg hle, if_neg hle]
  · rw [if_neg hin] at h1
    rw [if_neg hin]
    simp only [Calendar.parseDate, h1]

/-- **parsing succeeds only on `[sign]digits-digits[-digits]`**, and then returns the date
constructed from those numbers -/
theorem parseDate_ok_shape (c : Calendar) (s : List Char) (d : Date) (h : c.parseDate s = .ok d) :
    ∃ (sg : Sign) (Y : List Char), AllDigits Y ∧ InI32 (sg.apply (digitsVal Y 0)) ∧
      ((∃ O, AllDigits O ∧ s = sg.chars ++ Y ++ '-' :: O
          ∧ c.atOrdinalDate (sg.apply (digitsVal Y 0)) (digitsVal O 0) = .ok d)
       ∨ (∃ M D month, AllDigits M ∧ AllDigits D ∧ s = sg.chars ++ Y ++ '-' :: (M ++ '-' :: D)
          ∧ Month.ofInt? (digitsVal M 0) = some month
          ∧ c.atYmd (sg.apply (digitsVal Y 0)) month (digitsVal D 0) = .ok d)) := by
  simp only [Calendar.parseDate] at h
  cases hpi : parseInt s with
  | error e => rw [hpi] at h; cases h
  | ok r =>
    obtain ⟨year, rest1⟩ := r
    rw [hpi] at h
    simp only at h
    obtain ⟨sg, Y, hYne, hYd, hs, _, hv, hin⟩ := parseInt_ok s year rest1 hpi
    cases hsc : scanChar '-' rest1 with
    | error e => rw [hsc] at h; cases h
    | ok rest2 =>
      rw [hsc] at h
      simp only at h
      have hr1 : rest1 = '-' :: rest2 := by
        cases rest1 with
        | nil => simp [scanChar] at hsc
        | cons x xs =>
          simp only [scanChar] at hsc
          split at hsc
          · rename_i hx
            injection hsc with hsc
            have : x = '-' := by simpa using hx
            rw [this, hsc]
          · cases hsc
      cases hpd : parseDayInYear rest2 with
      | error e => rw [hpd] at h; cases h
      | ok r2 =>
        obtain ⟨diny, rest3⟩ := r2
        rw [hpd] at h
        simp only at h
        split at h
        · cases h
        · rename_i hemp
          have hr3 : rest3 = [] := by
            cases rest3 with
            | nil => rfl
            | cons a b => simp at hemp
          subst hr3
          -- what parse_day_in_year consumed
          simp only [parseDayInYear] at hpd
          cases hu : parseUInt rest2 with
          | error e => rw [hu] at hpd; cases hpd
          | ok r3 =>
            obtain ⟨f1, r⟩ := r3
            rw [hu] at hpd
            simp only at hpd
            obtain ⟨A, hAne, hAd, hs2, _, hf1, _⟩ := parseUInt_ok rest2 f1 r hu
            refine ⟨sg, Y, ⟨hYne, hYd⟩, by rw [← hv]; exact hin, ?_⟩
            split at hpd
            · rename_i hre
              have hr0 : r = [] := by
                cases r with
                | nil => rfl
                | cons a b => simp at hre
              subst hr0
              injection hpd with hpd
              simp only [Prod.mk.injEq] at hpd
              obtain ⟨hdi, _⟩ := hpd
              subst hdi
              simp only at h
              left
              refine ⟨A, ⟨hAne, hAd⟩, ?_, ?_⟩
              · rw [hs, hr1, hs2]; simp
              · rw [← hv, ← hf1]
                cases ha : c.atOrdinalDate year f1 with
                | ok d' => rw [ha] at h; injection h with h; rw [h]
                | error e => rw [ha] at h; cases h
            · rename_i hre
              cases hmo : Month.ofInt? f1 with
              | none => rw [hmo] at hpd; cases hpd
              | some month =>
                rw [hmo] at hpd
                simp only at hpd
                cases hsc2 : scanChar '-' r with
                | error e => rw [hsc2] at hpd; cases hpd
                | ok r4 =>
                  rw [hsc2] at hpd
                  simp only at hpd
                  have hr4 : r = '-' :: r4 := by
                    cases r with
                    | nil => simp [scanChar] at hsc2
                    | cons x xs =>
                      simp only [scanChar] at hsc2
                      split at hsc2
                      · rename_i hx
                        injection hsc2 with hsc2
                        have : x = '-' := by simpa using hx
                        rw [this, hsc2]
                      · cases hsc2
                  cases hu2 : parseUInt r4 with
                  | error e => rw [hu2] at hpd; cases hpd
                  | ok r5 =>
                    obtain ⟨day, r6⟩ := r5
                    rw [hu2] at hpd
                    simp only at hpd
                    injection hpd with hpd
                    simp only [Prod.mk.injEq] at hpd
                    obtain ⟨hdi, hr6⟩ := hpd
                    subst hdi
                    subst hr6
                    obtain ⟨B, hBne, hBd, hs3, _, hday, _⟩ := parseUInt_ok r4 day [] hu2
                    simp only at h
                    right
                    refine ⟨A, B, month, ⟨hAne, hAd⟩, ⟨hBne, hBd⟩, ?_, by rw [← hf1]; exact hmo, ?_⟩
                    · rw [hs, hr1, hs2, hr4, hs3]; simp
                    · rw [← hv, ← hday]
                      cases ha : c.atYmd year month day with
                      | ok d' => rw [ha] at h; injection h with h; rw [h]
                      | error e => rw [ha] at h; cases h

end JV
