/-
Lemmas/GenLibWF.lean — every calendar a caller can hold satisfies the precondition of the
generated `cmp_year` / `cmp_year_month` (`GapOrdered`), so for such calendars the functions
generated from lib.rs (Model/GenLib.lean) are the hand-written checked model, and through
Lemmas/Checked*.lean the unbounded model.
-/
import JulianVerif.Lemmas.GenLib
import JulianVerif.Lemmas.CheckedMisc
namespace JV.Gen

theorem WF.gapOrdered {c : Calendar} (h : WF c) : GapOrdered c := by
  rcases h.cases with rfl | rfl | ⟨rf, rfl, _, _⟩
  · exact gapOrdered_julian
  · exact gapOrdered_gregorian
  · intro g hg
    simp only [Reform.cal, Calendar.gap, Option.some.injEq] at hg
    subst hg
    simpa only [mkGap] using rf.ym_le

end JV.Gen
