/-
Lemmas/Cmp.lean — inner.rs `cmp_int_range` / `cmp_ym_range` by cases.
-/
import JulianVerif.Lemmas.Prefix
namespace JV

theorem Month.lt_iff (a b : Month) : Month.lt a b = true ↔ a.number < b.number := by
  simp [Month.lt]

theorem Month.le_iff (a b : Month) : Month.le a b = true ↔ a.number ≤ b.number := by
  simp [Month.le]

theorem Month.beq_iff (a b : Month) : (a == b) = true ↔ a.number = b.number := by
  constructor
  · intro h; rw [beq_iff_eq] at h; rw [h]
  · intro h; rw [beq_iff_eq]; exact Month.number_inj a b h

/-- position of (year, month) as one integer: lexicographic order becomes `<` -/
def ymKey (y : Int) (m : Month) : Int := 12 * y + m.number

theorem ymKey_lt (y y' : Int) (m m' : Month) :
    ymKey y m < ymKey y' m' ↔ (y < y' ∨ (y = y' ∧ m.number < m'.number)) := by
  have := Month.number_bounds m; have := Month.number_bounds m'
  simp only [ymKey]; omega

theorem ymKey_eq (y y' : Int) (m m' : Month) : ymKey y m = ymKey y' m' ↔ (y = y' ∧ m = m') := by
  have := Month.number_bounds m; have := Month.number_bounds m'
  simp only [ymKey]
  constructor
  · intro h
    have hy : y = y' := by omega
    subst hy
    exact ⟨rfl, Month.number_inj m m' (by omega)⟩
  · rintro ⟨rfl, rfl⟩; rfl

theorem Month.beq_eq_decide (a b : Month) : (a == b) = decide (a.number = b.number) := by
  cases a <;> cases b <;> rfl

/-- unfold a range comparison, split every branch, close by `rfl` or arithmetic contradiction -/
macro "cmp_cases" : tactic => `(tactic| (
  simp only [cmpIntRange, cmpYmRange, ymKey, Month.lt, Month.beq_eq_decide, Bool.or_eq_true,
    Bool.and_eq_true, decide_eq_true_eq, beq_iff_eq] at *
  repeat' split
  all_goals first | rfl | (exfalso; omega)))

theorem cmpIntRange_less (v lo hi : Int) (h : v < lo) : cmpIntRange v lo hi = .less := by cmp_cases
theorem cmpIntRange_eqLower (v lo hi : Int) (h1 : v = lo) (h2 : v < hi) :
    cmpIntRange v lo hi = .eqLower := by cmp_cases
theorem cmpIntRange_eqBoth (v lo hi : Int) (h1 : v = lo) (h2 : v = hi) :
    cmpIntRange v lo hi = .eqBoth := by cmp_cases
theorem cmpIntRange_between (v lo hi : Int) (h1 : lo < v) (h2 : v < hi) :
    cmpIntRange v lo hi = .between := by cmp_cases
theorem cmpIntRange_eqUpper (v lo hi : Int) (h1 : lo < v) (h2 : v = hi) :
    cmpIntRange v lo hi = .eqUpper := by cmp_cases
theorem cmpIntRange_greater (v lo hi : Int) (h1 : lo < v) (h2 : hi < v) :
    cmpIntRange v lo hi = .greater := by cmp_cases

section
variable (y : Int) (m : Month) (ly : Int) (lm : Month) (uy : Int) (um : Month)

theorem cmpYmRange_less (h : ymKey y m < ymKey ly lm) : cmpYmRange y m ly lm uy um = .less := by
  have bm := Month.number_bounds m; have bl := Month.number_bounds lm
  have bu := Month.number_bounds um
  cmp_cases

theorem cmpYmRange_eqLower (h1 : ymKey y m = ymKey ly lm) (h2 : ymKey y m < ymKey uy um) :
    cmpYmRange y m ly lm uy um = .eqLower := by
  have bm := Month.number_bounds m; have bl := Month.number_bounds lm
  have bu := Month.number_bounds um
  cmp_cases

theorem cmpYmRange_eqBoth (h1 : ymKey y m = ymKey ly lm) (h2 : ymKey y m = ymKey uy um) :
    cmpYmRange y m ly lm uy um = .eqBoth := by
  have bm := Month.number_bounds m; have bl := Month.number_bounds lm
  have bu := Month.number_bounds um
  cmp_cases

theorem cmpYmRange_between (hlu : ymKey ly lm ≤ ymKey uy um) (h1 : ymKey ly lm < ymKey y m) (h2 : ymKey y m < ymKey uy um) :
    cmpYmRange y m ly lm uy um = .between := by
  have bm := Month.number_bounds m; have bl := Month.number_bounds lm
  have bu := Month.number_bounds um
  cmp_cases

theorem cmpYmRange_eqUpper (hlu : ymKey ly lm ≤ ymKey uy um) (h1 : ymKey ly lm < ymKey y m) (h2 : ymKey y m = ymKey uy um) :
    cmpYmRange y m ly lm uy um = .eqUpper := by
  have bm := Month.number_bounds m; have bl := Month.number_bounds lm
  have bu := Month.number_bounds um
  cmp_cases

theorem cmpYmRange_greater (hlu : ymKey ly lm ≤ ymKey uy um) (h1 : ymKey ly lm < ymKey y m) (h2 : ymKey uy um < ymKey y m) :
    cmpYmRange y m ly lm uy um = .greater := by
  have bm := Month.number_bounds m; have bl := Month.number_bounds lm
  have bu := Month.number_bounds um
  cmp_cases

end

end JV
