/-
Lemmas/Arith.lean — L1: the arithmetic kernels of inner.rs against the specification.
-/
import JulianVerif.Model.Inner
import JulianVerif.Spec.Basic
namespace JV
open Spec

theorem tmod_zero_iff (y k : Int) : y.tmod k = 0 ↔ y % k = 0 := by
  constructor
  · intro h; exact Int.emod_eq_zero_of_dvd (Int.dvd_of_tmod_eq_zero h)
  · intro h; exact Int.tmod_eq_zero_of_dvd (Int.dvd_of_emod_eq_zero h)

theorem tmod_beq (y k : Int) : (y.tmod k == 0) = (y % k == 0) := by
  rw [Bool.eq_iff_iff]; simp only [beq_iff_eq]; exact tmod_zero_iff y k

theorem tmod_bne (y k : Int) : (y.tmod k != 0) = (y % k != 0) := by
  simp only [bne, tmod_beq]

/-- the code's leap tests (truncating `%`) are the specification's (Euclidean `%`) -/
theorem isJulianLeapYear_eq (y : Int) : isJulianLeapYear y = leap .julian y := by
  simp only [isJulianLeapYear, leap, tmod_beq]

theorem isGregorianLeapYear_eq (y : Int) : isGregorianLeapYear y = leap .gregorian y := by
  simp only [isGregorianLeapYear, leap, tmod_beq, tmod_bne]

theorem leap_julian_iff (y : Int) : leap .julian y = true ↔ y % 4 = 0 := by
  simp [leap]

theorem leap_gregorian_iff (y : Int) :
    leap .gregorian y = true ↔ (y % 4 = 0 ∧ (y % 100 ≠ 0 ∨ y % 400 = 0)) := by
  simp [leap]

/-- the body of `decompose_julian` after the first division -/
def djCore (q o : Int) : Int × Int :=
  let o' := if o > 365 then o + (o - 366) / 365 else o
  (q * 4 + o' / 366, o'.tmod 366 + 1)

theorem decomposeJulian_eq (days : Int) :
    decomposeJulian days = djCore (days / 1461) (days % 1461) := rfl

theorem djCore_spec (q o : Int) (h0 : 0 ≤ o) (h1 : o < 1461) :
    1461 * q + o = 365 * (djCore q o).1 + ((djCore q o).1 + 3) / 4 + ((djCore q o).2 - 1)
    ∧ 1 ≤ (djCore q o).2
    ∧ (djCore q o).2 ≤ (if (djCore q o).1 % 4 = 0 then 366 else 365) := by
  simp only [djCore]
  by_cases c1 : o > 365
  · simp only [c1, if_true]
    have hnn : 0 ≤ o + (o - 366) / 365 := by omega
    rw [Int.tmod_eq_emod_of_nonneg hnn]
    by_cases c2 : o ≤ 730
    · have e1 : (o - 366) / 365 = 0 := by omega
      rw [e1]; simp only [Int.add_zero]
      have e2 : o / 366 = 1 := by omega
      rw [e2]
      have e3 : ¬ (q * 4 + 1) % 4 = 0 := by omega
      rw [if_neg e3]; omega
    · by_cases c3 : o ≤ 1095
      · have e1 : (o - 366) / 365 = 1 := by omega
        rw [e1]
        have e2 : (o + 1) / 366 = 2 := by omega
        rw [e2]
        have e3 : ¬ (q * 4 + 2) % 4 = 0 := by omega
        rw [if_neg e3]; omega
      · have e1 : (o - 366) / 365 = 2 := by omega
        rw [e1]
        have e2 : (o + 2) / 366 = 3 := by omega
        rw [e2]
        have e3 : ¬ (q * 4 + 3) % 4 = 0 := by omega
        rw [if_neg e3]; omega
  · simp only [c1, if_false]
    rw [Int.tmod_eq_emod_of_nonneg h0]
    have e2 : o / 366 = 0 := by omega
    rw [e2]
    have e3 : (q * 4 + 0) % 4 = 0 := by omega
    rw [if_pos e3]; omega

/-- `decompose_julian`: closed-form characterisation (every fourth year, starting with
year 0, is leap) -/
theorem decomposeJulian_spec {days ys o : Int} (h : decomposeJulian days = (ys, o)) :
    days = 365 * ys + (ys + 3) / 4 + (o - 1) ∧ 1 ≤ o ∧ o ≤ (if ys % 4 = 0 then 366 else 365) := by
  rw [decomposeJulian_eq] at h
  have hs := djCore_spec (days / 1461) (days % 1461) (by omega) (by omega)
  have hq : days = 1461 * (days / 1461) + days % 1461 := by omega
  rw [← hq, h] at hs
  exact hs

/-- `jdn2julian` against the specification: the day is day `o` of Julian year `y` -/
theorem jdn2julian_spec {j y o : Int} (h : jdn2julian j = (y, o)) :
    j = yearStart .julian y + o - 1 ∧ 1 ≤ o ∧ o ≤ yearLen .julian y := by
  obtain ⟨yy, o', hd⟩ : ∃ yy o', decomposeJulian j = (yy, o') := ⟨_, _, rfl⟩
  have hs := decomposeJulian_spec hd
  simp only [jdn2julian, hd, JDN0_YEAR, Prod.mk.injEq] at h
  obtain ⟨rfl, rfl⟩ := h
  obtain ⟨h1, h2, h3⟩ := hs
  simp only [yearStart, yearLen, leap]
  refine ⟨by omega, h2, ?_⟩
  by_cases c : yy % 4 = 0
  · rw [if_pos c] at h3
    have : (yy + -4712) % 4 = 0 := by omega
    simp [this]; omega
  · rw [if_neg c] at h3
    have : ¬ (yy + -4712) % 4 = 0 := by omega
    simp [this]; omega

/-- truncating division by 36524 of `qp - 366` for `qp` inside one cycle -/
theorem tdiv_century (qp : Int) (h0 : 0 ≤ qp) :
    ∃ b : Int, (qp - 366).tdiv 36524 = b ∧
      ((qp < 366 ∧ b = 0) ∨ (366 ≤ qp ∧ b = (qp - 366) / 36524)) := by
  by_cases c : qp < 366
  · refine ⟨0, ?_, Or.inl ⟨c, rfl⟩⟩
    have e : qp - 366 = -(366 - qp) := by omega
    rw [e, Int.neg_tdiv, Int.tdiv_eq_ediv_of_nonneg (by omega)]
    have : (366 - qp) / 36524 = 0 := by omega
    omega
  · refine ⟨(qp - 366) / 36524, ?_, Or.inr ⟨by omega, rfl⟩⟩
    exact Int.tdiv_eq_ediv_of_nonneg (by omega)

/-- days before year `ys` of a 400-year cycle that starts with a year divisible by 400 -/
def cycleStart (ys : Int) : Int := 365 * ys + (ys + 3) / 4 - (ys + 99) / 100 + (ys + 399) / 400

/-- one 400-year cycle starting at a year divisible by 400: day `qp` of the cycle is day
`o` of year `ys` of the cycle -/
theorem gregCycle {qp ys o : Int} (h0 : 0 ≤ qp) (h1 : qp < 146097)
    (h : decomposeJulian (qp + (qp - 366).tdiv 36524) = (ys, o)) :
    0 ≤ ys ∧ ys ≤ 399 ∧ qp = cycleStart ys + o - 1 ∧ 1 ≤ o
    ∧ o ≤ (if ys % 4 = 0 ∧ (ys % 100 ≠ 0 ∨ ys % 400 = 0) then 366 else 365) := by
  obtain ⟨b, hb1, hb2⟩ := tdiv_century qp h0
  rw [hb1] at h
  obtain ⟨e, ho1, ho2⟩ := decomposeJulian_spec h
  simp only [cycleStart]
  rcases hb2 with ⟨c, rfl⟩ | ⟨c, hbq⟩
  · -- first year of the cycle
    have : ys = 0 := by
      by_cases c4 : ys % 4 = 0
      · rw [if_pos c4] at ho2; omega
      · rw [if_neg c4] at ho2; omega
    subst this
    simp at ho2 ⊢
    omega
  · have hcases : b = 0 ∨ b = 1 ∨ b = 2 ∨ b = 3 := by omega
    rcases hcases with rfl | rfl | rfl | rfl
    · have l : 1 ≤ ys := by
        by_cases c4 : ys % 4 = 0
        · rw [if_pos c4] at ho2; omega
        · rw [if_neg c4] at ho2; omega
      have u : ys ≤ 100 := by
        by_cases c4 : ys % 4 = 0
        · rw [if_pos c4] at ho2; omega
        · rw [if_neg c4] at ho2; omega
      have q1 : (ys + 99) / 100 = 1 := by omega
      have q2 : (ys + 399) / 400 = 1 := by omega
      refine ⟨by omega, by omega, by omega, ho1, ?_⟩
      by_cases c4 : ys % 4 = 0
      · rw [if_pos c4] at ho2
        by_cases c100 : ys % 100 = 0
        · have : ys = 100 := by omega
          subst this
          simp; omega
        · simp [c4, c100]; omega
      · rw [if_neg c4] at ho2
        simp [c4]; omega
    · have l : 101 ≤ ys := by
        by_cases c4 : ys % 4 = 0
        · rw [if_pos c4] at ho2; omega
        · rw [if_neg c4] at ho2; omega
      have u : ys ≤ 200 := by
        by_cases c4 : ys % 4 = 0
        · rw [if_pos c4] at ho2; omega
        · rw [if_neg c4] at ho2; omega
      have q1 : (ys + 99) / 100 = 2 := by omega
      have q2 : (ys + 399) / 400 = 1 := by omega
      refine ⟨by omega, by omega, by omega, ho1, ?_⟩
      by_cases c4 : ys % 4 = 0
      · rw [if_pos c4] at ho2
        by_cases c100 : ys % 100 = 0
        · have : ys = 200 := by omega
          subst this
          simp; omega
        · simp [c4, c100]; omega
      · rw [if_neg c4] at ho2
        simp [c4]; omega
    · have l : 201 ≤ ys := by
        by_cases c4 : ys % 4 = 0
        · rw [if_pos c4] at ho2; omega
        · rw [if_neg c4] at ho2; omega
      have u : ys ≤ 300 := by
        by_cases c4 : ys % 4 = 0
        · rw [if_pos c4] at ho2; omega
        · rw [if_neg c4] at ho2; omega
      have q1 : (ys + 99) / 100 = 3 := by omega
      have q2 : (ys + 399) / 400 = 1 := by omega
      refine ⟨by omega, by omega, by omega, ho1, ?_⟩
      by_cases c4 : ys % 4 = 0
      · rw [if_pos c4] at ho2
        by_cases c100 : ys % 100 = 0
        · have : ys = 300 := by omega
          subst this
          simp; omega
        · simp [c4, c100]; omega
      · rw [if_neg c4] at ho2
        simp [c4]; omega
    · have l : 301 ≤ ys := by
        by_cases c4 : ys % 4 = 0
        · rw [if_pos c4] at ho2; omega
        · rw [if_neg c4] at ho2; omega
      have u : ys ≤ 399 := by
        by_cases c4 : ys % 4 = 0
        · rw [if_pos c4] at ho2; omega
        · rw [if_neg c4] at ho2; omega
      have q1 : (ys + 99) / 100 = 4 := by omega
      have q2 : (ys + 399) / 400 = 1 := by omega
      refine ⟨by omega, by omega, by omega, ho1, ?_⟩
      by_cases c4 : ys % 4 = 0
      · rw [if_pos c4] at ho2
        have c100 : ¬ ys % 100 = 0 := by omega
        simp [c4, c100]; omega
      · rw [if_neg c4] at ho2
        simp [c4]; omega

/-- `yearStart .gregorian` of a year written as cycle number, year within the cycle and a
base year that is a multiple of 400 -/
theorem yearStart_cycle (k ys base : Int) (hb : base % 400 = 0) :
    yearStart .gregorian (k * 400 + ys + base)
      = yearStart .gregorian base + 146097 * k + cycleStart ys := by
  simp only [yearStart, cycleStart]
  obtain ⟨c, rfl⟩ : ∃ c, base = 400 * c := ⟨base / 400, by omega⟩
  omega

theorem leap_cycle (k ys base : Int) (hb : base % 400 = 0) :
    leap .gregorian (k * 400 + ys + base)
      = decide (ys % 4 = 0 ∧ (ys % 100 ≠ 0 ∨ ys % 400 = 0)) := by
  have e4 : (k * 400 + ys + base) % 4 = ys % 4 := by omega
  have e100 : (k * 400 + ys + base) % 100 = ys % 100 := by omega
  have e400 : (k * 400 + ys + base) % 400 = ys % 400 := by omega
  simp only [leap, e4, e100, e400]
  by_cases c4 : ys % 4 = 0 <;> by_cases c100 : ys % 100 = 0 <;> by_cases c400 : ys % 400 = 0 <;>
    simp [c4, c100, c400]

/-- `jdn2gregorian` against the specification -/
theorem jdn2gregorian_spec {j y o : Int} (h : jdn2gregorian j = (y, o)) :
    j = yearStart .gregorian y + o - 1 ∧ 1 ≤ o ∧ o ≤ yearLen .gregorian y := by
  simp only [jdn2gregorian] at h
  by_cases cneg : j < 0
  · simp only [cneg, if_true] at h
    obtain ⟨ys, o', hd⟩ : ∃ ys o', decomposeJulian ((j - -32104) % 146097
        + ((j - -32104) % 146097 - 366).tdiv 36524) = (ys, o') := ⟨_, _, rfl⟩
    have hc := gregCycle (by omega) (by omega) hd
    simp only [hd, Prod.mk.injEq] at h
    obtain ⟨rfl, rfl⟩ := h
    obtain ⟨a0, a1, a2, a3, a4⟩ := hc
    have ys1 := yearStart_cycle ((j - -32104) / 146097) ys (-4800) (by decide)
    have lp := leap_cycle ((j - -32104) / 146097) ys (-4800) (by decide)
    have base : yearStart .gregorian (-4800) = -32104 := by decide
    rw [base] at ys1
    simp only [yearLen, lp]
    refine ⟨by omega, a3, ?_⟩
    by_cases c : ys % 4 = 0 ∧ (ys % 100 ≠ 0 ∨ ys % 400 = 0)
    · rw [if_pos c] at a4; simp [c]; omega
    · rw [if_neg c] at a4; simp [c]; omega
  · simp only [cneg, if_false] at h
    obtain ⟨ys, o', hd⟩ : ∃ ys o', decomposeJulian ((j - 113993) % 146097
        + ((j - 113993) % 146097 - 366).tdiv 36524) = (ys, o') := ⟨_, _, rfl⟩
    have hc := gregCycle (by omega) (by omega) hd
    simp only [hd, Prod.mk.injEq] at h
    obtain ⟨rfl, rfl⟩ := h
    obtain ⟨a0, a1, a2, a3, a4⟩ := hc
    have ys1 := yearStart_cycle ((j - 113993) / 146097) ys (-4400) (by decide)
    have lp := leap_cycle ((j - 113993) / 146097) ys (-4400) (by decide)
    have base : yearStart .gregorian (-4400) = 113993 := by decide
    rw [base] at ys1
    simp only [yearLen, lp]
    refine ⟨by omega, a3, ?_⟩
    by_cases c : ys % 4 = 0 ∧ (ys % 100 ≠ 0 ∨ ys % 400 = 0)
    · rw [if_pos c] at a4; simp [c]; omega
    · rw [if_neg c] at a4; simp [c]; omega

theorem inI32_iff (x : Int) : inI32 x = true ↔ InI32 x := by
  simp [inI32, InI32]

/-- `julian2jdn` returns the specified day number exactly when it fits in 32 bits -/
theorem julian2jdn_spec (y o : Int) (hy : InI32 y) (h1 : 1 ≤ o) (h2 : o ≤ 366) :
    julian2jdn y o = if InI32 (yearStart .julian y + o - 1) then some (yearStart .julian y + o - 1)
                     else none := by
  have hv : yearStart .julian y = 365 * (y - 1) + (y - 1) / 4 + 1721424 := rfl
  generalize yearStart .julian y = v at *
  simp only [julian2jdn, composeJulian]
  by_cases c0 : inI32 (y - -4712) = true
  · rw [if_pos c0]
    have c0' := (inI32_iff _).mp c0
    by_cases g : (decide (y - -4712 < -5879490)
        || (y - -4712 == -5879490 && decide (o < 75))
        || (y - -4712 == 5879489 && decide (o > 290))
        || decide (y - -4712 > 5879489)) = true
    · rw [if_pos g]
      simp only [Bool.or_eq_true, Bool.and_eq_true, decide_eq_true_eq, beq_iff_eq] at g
      have : ¬ InI32 (v + o - 1) := by
        simp only [InI32]; omega
      rw [if_neg this]
    · rw [if_neg g]
      simp only [Bool.or_eq_true, Bool.and_eq_true, decide_eq_true_eq, beq_iff_eq, not_or, not_and] at g
      have hin : InI32 (v + o - 1) := by
        simp only [InI32]; omega
      rw [if_pos hin]
      congr 1
      omega
  · rw [if_neg c0]
    have c0' : ¬ InI32 (y - -4712) := fun h => c0 ((inI32_iff _).mpr h)
    have : ¬ InI32 (v + o - 1) := by
      simp only [InI32] at c0' hy ⊢; omega
    rw [if_neg this]

/-- `gregorian2jdn` returns the specified day number exactly when it fits in 32 bits -/
theorem gregorian2jdn_spec (y o : Int) (h1 : 1 ≤ o) (h2 : o ≤ 366) :
    gregorian2jdn y o = if InI32 (yearStart .gregorian y + o - 1)
                        then some (yearStart .gregorian y + o - 1) else none := by
  have hv : yearStart .gregorian y
      = 365 * (y - 1) + (y - 1) / 4 - (y - 1) / 100 + (y - 1) / 400 + 1721426 := rfl
  generalize yearStart .gregorian y = v at *
  simp only [gregorian2jdn]
  have hq : ((y - 1) / 100 + 48) / 4 = (y - 1) / 400 + 12 := by
    have : (y - 1) / 100 + 48 = (y - 1 + 4800) / 100 := by omega
    rw [this, Int.ediv_ediv_of_nonneg (by decide)]
    omega
  by_cases g : (decide (y < -5884323)
      || (y == -5884323 && decide (o < 135))
      || (y == 5874898 && decide (o > 154))
      || decide (y > 5874898)) = true
  · rw [if_pos g]
    simp only [Bool.or_eq_true, Bool.and_eq_true, decide_eq_true_eq, beq_iff_eq] at g
    have : ¬ InI32 (v + o - 1) := by
      simp only [InI32]; omega
    rw [if_neg this]
  · rw [if_neg g]
    simp only [Bool.or_eq_true, Bool.and_eq_true, decide_eq_true_eq, beq_iff_eq, not_or, not_and] at g
    have hin : InI32 (v + o - 1) := by
      simp only [InI32]; omega
    rw [if_pos hin, hq]
    congr 1
    omega

end JV
