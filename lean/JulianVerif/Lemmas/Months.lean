/-
Lemmas/Months.lean — L2: the month table; years all of whose months are whole.
-/
import JulianVerif.Lemmas.Walk
import JulianVerif.Lemmas.Arith
namespace JV
open Spec

theorem monthLen_bounds (lp : Bool) (m : Month) : 28 ≤ monthLen lp m ∧ monthLen lp m ≤ 31 := by
  cases m <;> cases lp <;> simp [monthLen]

theorem daysBefore_december (lp : Bool) :
    daysBefore lp .december + monthLen lp .december = if lp then 366 else 365 := by
  cases lp <;> simp [daysBefore, monthLen]

theorem daysBefore_bounds (lp : Bool) (m : Month) :
    0 ≤ daysBefore lp m ∧ daysBefore lp m + monthLen lp m ≤ if lp then 366 else 365 := by
  cases m <;> cases lp <;> simp [daysBefore, monthLen]

/-- a (month, day) pair is determined by its day of year -/
theorem daysBefore_inj (lp : Bool) (m m' : Month) (d d' : Int)
    (h1 : 1 ≤ d) (h2 : d ≤ monthLen lp m) (h1' : 1 ≤ d') (h2' : d' ≤ monthLen lp m')
    (h : daysBefore lp m + d = daysBefore lp m' + d') : m = m' ∧ d = d' := by
  cases lp <;> cases m <;> cases m' <;> simp [daysBefore, monthLen] at * <;> omega

/-- label order within a year is day-of-year order -/
theorem daysBefore_lt_iff (lp : Bool) (m m' : Month) (d d' : Int)
    (h1 : 1 ≤ d) (h2 : d ≤ monthLen lp m) (h1' : 1 ≤ d') (h2' : d' ≤ monthLen lp m') :
    (daysBefore lp m + d < daysBefore lp m' + d') ↔ (m.number < m'.number ∨ (m = m' ∧ d < d')) := by
  cases lp <;> cases m <;> cases m' <;> simp [daysBefore, monthLen, Month.number] at * <;> omega

/-- a year of calendar `c` all of whose months are whole, with leap flag `lp` -/
def WholeYear (c : Calendar) (y : Int) (lp : Bool) : Prop :=
  ∀ m, c.monthIShape y m = some (.normal (monthLen lp m))

namespace WholeYear
variable {c : Calendar} {y : Int} {lp : Bool}

theorem lenOf (hw : WholeYear c y lp) (m : Month) : c.lenOf y m = monthLen lp m := by
  simp only [Calendar.lenOf, hw m, IShape.len]

theorem sumBefore (hw : WholeYear c y lp) (m : Month) :
    c.sumBefore y Month.all m = daysBefore lp m := by
  cases m <;> cases lp <;>
    simp [Calendar.sumBefore, Month.all, hw.lenOf, monthLen, daysBefore]

theorem sumAll (hw : WholeYear c y lp) : c.sumAll y Month.all = if lp then 366 else 365 := by
  cases lp <;> simp [Calendar.sumAll, Month.all, hw.lenOf, monthLen]

theorem valid (hw : WholeYear c y lp) : ∀ m ∈ Month.all, ∀ s, c.monthIShape y m = some s → s.Valid := by
  intro m _ s hs
  rw [hw m] at hs
  cases hs
  have := monthLen_bounds lp m
  simp only [IShape.Valid]; omega

/-- the walk of `ordinal2ymddo` in a whole year: table lookup -/
theorem loop (hw : WholeYear c y lp) (o : Int) (h1 : 1 ≤ o) (h2 : o ≤ if lp then 366 else 365) :
    ∃ m d, c.ordinal2ymddoLoop y Month.all o = .ok (m, d, d)
      ∧ daysBefore lp m + d = o ∧ 1 ≤ d ∧ d ≤ monthLen lp m := by
  obtain ⟨m, s, day, _, hms, hl, hn, hk1, hk2⟩ :=
    Calendar.ordinal2ymddoLoop_spec c y Month.all o Calendar.all_nodup hw.valid h1 (by rw [hw.sumAll]; exact h2)
  rw [hw m] at hms
  cases hms
  rw [hw.sumBefore] at hl hn hk1 hk2
  simp only [IShape.len] at hk2
  simp only [IShape.nthDay] at hn
  have hc : (decide (1 ≤ o - daysBefore lp m) && decide (o - daysBefore lp m ≤ monthLen lp m)) = true := by
    simp; omega
  rw [if_pos hc] at hn
  cases hn
  exact ⟨m, o - daysBefore lp m, hl, by omega, hk1, hk2⟩

theorem ymdo2ordinal (hw : WholeYear c y lp) (m : Month) (k : Int) :
    c.ymdo2ordinal y m k = daysBefore lp m + k := by
  rw [Calendar.ymdo2ordinal_eq, hw.sumBefore]

end WholeYear

/-! ### proleptic calendars: every year is whole -/

theorem julian_yearKind (y : Int) :
    Calendar.julian.yearKind y = if leap .julian y then .leap else .common := by
  simp only [Calendar.yearKind, isJulianLeapYear_eq]

theorem gregorian_yearKind (y : Int) :
    Calendar.gregorian.yearKind y = if leap .gregorian y then .leap else .common := by
  simp only [Calendar.yearKind, isGregorianLeapYear_eq]

theorem julian_whole (y : Int) : WholeYear .julian y (leap .julian y) := by
  intro m
  simp only [Calendar.monthIShape, Calendar.gap, Calendar.naturalLength, julian_yearKind]
  cases m <;> cases h : leap .julian y <;> simp [monthLen, YearKind.isLeap]

theorem gregorian_whole (y : Int) : WholeYear .gregorian y (leap .gregorian y) := by
  intro m
  simp only [Calendar.monthIShape, Calendar.gap, Calendar.naturalLength, gregorian_yearKind]
  cases m <;> cases h : leap .gregorian y <;> simp [monthLen, YearKind.isLeap]

theorem julian_yearLength (y : Int) : Calendar.julian.yearLength y = yearLen .julian y := by
  simp only [Calendar.yearLength, julian_yearKind, yearLen]
  cases leap .julian y <;> simp

theorem gregorian_yearLength (y : Int) : Calendar.gregorian.yearLength y = yearLen .gregorian y := by
  simp only [Calendar.yearLength, gregorian_yearKind, yearLen]
  cases leap .gregorian y <;> simp

end JV
