/-
Lemmas/TextRoundTrip.lean — L6: parsing the text `Display` produces hands the same numbers
back to `at_ymd` / `at_ordinal_date`.
-/
import JulianVerif.Lemmas.Digits
set_option linter.unusedSimpArgs false
namespace JV

/-- a continuation that cannot be mistaken for more digits -/
def NoDigitHead (rest : List Char) : Prop := ∀ c cs, rest = c :: cs → isAsciiDigit c = false

theorem noDigitHead_nil : NoDigitHead [] := by intro c cs h; cases h
theorem noDigitHead_dash (cs : List Char) : NoDigitHead ('-' :: cs) := by
  intro c cs' h; injection h with h _; subst h; decide

theorem parseUInt_pad (w n : Nat) (hn : n ≤ 4294967295) (rest : List Char) (hr : NoDigitHead rest) :
    parseUInt (padNat w n ++ rest) = .ok ((n : Int), rest) := by
  obtain ⟨h1, h2, h3⟩ := padNat_spec w n
  have hs := spanDigits_append (padNat w n) rest h2 hr
  obtain ⟨c, cs, hp⟩ : ∃ c cs, padNat w n = c :: cs := by
    cases hp : padNat w n with
    | nil => exact absurd hp h1
    | cons c cs => exact ⟨c, cs, rfl⟩
  rw [hp] at hs h3
  simp only [parseUInt, hp, hs, h3]
  have : n ≤ 4294967295 := hn
  simp [this]

theorem digit_not_sign (c : Char) (h : isAsciiDigit c = true) : (c == '-' || c == '+') = false := by
  rw [isAsciiDigit_iff] at h
  have h1 : c ≠ '-' := by intro e; subst e; simp at h
  have h2 : c ≠ '+' := by intro e; subst e; simp at h
  simp [h1, h2]

theorem parseInt_fmtYear (y : Int) (hy : InI32 y) (rest : List Char) (hr : NoDigitHead rest) :
    parseInt (fmtYear y ++ rest) = .ok (y, rest) := by
  obtain ⟨h1, h2, h3⟩ := padNat_spec 4 y.natAbs
  have hs := spanDigits_append (padNat 4 y.natAbs) rest h2 hr
  simp only [fmtYear]
  by_cases hneg : y < 0
  · rw [if_pos hneg]
    simp only [List.cons_append, parseInt]
    have e1 : ('-' == '-' || '-' == '+') = true := by decide
    rw [if_pos e1, hs]
    simp only
    have hne : (padNat 4 y.natAbs).isEmpty = false := by
      cases hp : padNat 4 y.natAbs with
      | nil => exact absurd hp h1
      | cons _ _ => rfl
    rw [hne, h3]
    have e2 : ('-' == '-') = true := by decide
    simp only [Bool.false_eq_true, if_false, e2, if_true]
    have hv : -((y.natAbs : Nat) : Int) = y := by omega
    rw [hv, (inI32_iff y).mpr hy]
    rfl
  · rw [if_neg hneg]
    cases hp : padNat 4 y.natAbs with
    | nil => exact absurd hp h1
    | cons c cs =>
      have hc : isAsciiDigit c = true := h2 c (by rw [hp]; exact List.mem_cons_self)
      simp only [List.cons_append, parseInt, digit_not_sign c hc, Bool.false_eq_true, if_false, hc, if_true]
      have hs' : spanDigits (c :: (cs ++ rest)) = (c :: cs, rest) := by
        rw [← List.cons_append, ← hp]; exact hs
      rw [hs']
      simp only
      rw [← hp, h3]
      have hv : ((y.natAbs : Nat) : Int) = y := by omega
      rw [hv, (inI32_iff y).mpr hy]
      rfl
where
  inI32_iff (x : Int) : inI32 x = true ↔ InI32 x := by simp [inI32, InI32]

/-- **parsing the `Display` text is constructing the date from its own numbers** -/
theorem parseDate_fmtDate (c : Calendar) (d : Date) (hy : InI32 d.year) (hd0 : 0 ≤ d.day)
    (hd1 : d.day ≤ 4294967295) :
    c.parseDate (fmtDate d) =
      (match c.atYmd d.year d.month d.day with
       | .ok x => .ok x
       | .error e => .error (.invalidDate e)) := by
  have hm : 1 ≤ d.month.number ∧ d.month.number ≤ 12 := by cases d.month <;> simp [Month.number]
  have hmn : ((d.month.number.toNat : Nat) : Int) = d.month.number := by omega
  have hdn : ((d.day.toNat : Nat) : Int) = d.day := by omega
  have hmo : Month.ofInt? d.month.number = some d.month := by cases d.month <;> rfl
  simp only [fmtDate, List.append_assoc, List.singleton_append, List.cons_append, List.nil_append, Calendar.parseDate]
  rw [parseInt_fmtYear d.year hy _ (noDigitHead_dash _)]
  simp only [scanChar, beq_self_eq_true, if_true, parseDayInYear]
  rw [parseUInt_pad 2 d.month.number.toNat (by omega) _ (noDigitHead_dash _)]
  simp only [List.isEmpty_cons, Bool.false_eq_true, if_false, hmn, hmo, scanChar, beq_self_eq_true, if_true]
  have := parseUInt_pad 2 d.day.toNat (by omega) [] noDigitHead_nil
  rw [List.append_nil] at this
  rw [this]
  simp only [hdn, List.isEmpty_nil, Bool.not_true, Bool.false_eq_true, if_false]
  rfl

/-- the alternate form hands the day of year to `at_ordinal_date` -/
theorem parseDate_fmtDateAlt (c : Calendar) (d : Date) (hy : InI32 d.year) (ho0 : 0 ≤ d.ordinal)
    (ho1 : d.ordinal ≤ 4294967295) :
    c.parseDate (fmtDateAlt d) =
      (match c.atOrdinalDate d.year d.ordinal with
       | .ok x => .ok x
       | .error e => .error (.invalidDate e)) := by
  have hon : ((d.ordinal.toNat : Nat) : Int) = d.ordinal := by omega
  simp only [fmtDateAlt, List.append_assoc, List.singleton_append, List.cons_append, List.nil_append, Calendar.parseDate]
  rw [parseInt_fmtYear d.year hy _ (noDigitHead_dash _)]
  simp only [scanChar, beq_self_eq_true, if_true, parseDayInYear]
  have := parseUInt_pad 3 d.ordinal.toNat (by omega) [] noDigitHead_nil
  rw [List.append_nil] at this
  rw [this]
  simp only [hon, List.isEmpty_nil, if_true, Bool.not_true, Bool.false_eq_true, if_false]
  rfl

end JV
