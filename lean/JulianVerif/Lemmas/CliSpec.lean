/-
Lemmas/CliSpec.lean — what each argument of the julian command contributes, in text and in
JSON mode; all-or-nothing; printed dates read back.
-/
import JulianVerif.Lemmas.CliJson
import JulianVerif.Lemmas.CliParse
import JulianVerif.Lemmas.TextRoundTrip
set_option linter.unusedSimpArgs false
namespace JV
namespace Cli
open Spec

/-- the date an argument denotes in the selected calendar: the date written, or the date of
the day number written -/
def argDate (o : Options) (a : String) : Option Date :=
  match o.parseArg a with
  | none => none
  | some (.date d) => some d
  | some (.jdn j) => o.calendar.atJdn? j

/-- the text-mode line for an argument that denotes `d` -/
def textLine (o : Options) (a : String) (d : Date) : String :=
  match o.parseArg a with
  | some (.jdn j) => (if o.quiet then "" else s!"JDN {j} = ") ++ o.fmtDate d
  | _ => (if o.quiet then "" else o.fmtDate d ++ " = JDN ") ++ toString d.jdn

/-- one argument, one line: the JSON object of its date with -J, its text line without -/
theorem argLine_ok_iff (o : Options) (a : String) (l : String) :
    argLine o a = .ok l ↔
      ∃ d, argDate o a = some d ∧ l = (if o.json then date2json d else textLine o a d) := by
  simp only [argLine, argDate, textLine]
  cases hp : o.parseArg a with
  | none => simp
  | some x =>
    cases x with
    | date d =>
      simp only [Options.dateToJdn]
      constructor
      · intro h; injection h with h
        refine ⟨d, rfl, ?_⟩
        rw [← h]; cases o.json <;> cases o.quiet <;> simp
      · rintro ⟨d', hd, hl⟩
        cases hd
        rw [hl]; cases o.json <;> cases o.quiet <;> simp
    | jdn j =>
      simp only [Options.jdnToDate]
      cases hat : o.calendar.atJdn? j with
      | none => simp
      | some d =>
        simp only
        constructor
        · intro h; injection h with h
          refine ⟨d, rfl, ?_⟩
          rw [← h]; cases o.json <;> cases o.quiet <;> simp
        · rintro ⟨d', hd, hl⟩
          cases hd
          rw [hl]; cases o.json <;> cases o.quiet <;> simp

/-- the date an argument denotes does not depend on the output options -/
theorem argDate_output_independent (o : Options) (a : String) (j od q st : Bool) :
    argDate { o with json := j, ordinal := od, quiet := q, style := st } a = argDate o a := rfl

/-- **all or nothing, in order**: `argLines` succeeds exactly when every argument does, and
then yields the arguments' lines in argument order -/
theorem argLines_ok_iff (o : Options) (args ls : List String) :
    argLines o args = .ok ls ↔
      ls.length = args.length
      ∧ ∀ i (h : i < args.length) (h' : i < ls.length), argLine o args[i] = .ok ls[i] := by
  induction args generalizing ls with
  | nil =>
    simp only [argLines]
    constructor
    · intro h; cases h; exact ⟨rfl, fun i h => absurd h (by simp)⟩
    · rintro ⟨hl, _⟩
      have : ls = [] := List.length_eq_zero_iff.mp hl
      rw [this]
  | cons a as ih =>
    simp only [argLines]
    cases ha : argLine o a with
    | error e =>
      simp only
      constructor
      · intro h; cases h
      · rintro ⟨hl, hall⟩
        cases ls with
        | nil => simp at hl
        | cons l ls' =>
          have := hall 0 (by simp) (by simp)
          simp only [List.getElem_cons_zero] at this
          rw [ha] at this; cases this
    | ok l =>
      simp only
      cases hr : argLines o as with
      | error e =>
        simp only
        constructor
        · intro h; cases h
        · rintro ⟨hl, hall⟩
          cases ls with
          | nil => simp at hl
          | cons l' ls' =>
            have hrest : argLines o as = .ok ls' := by
              rw [ih ls']
              refine ⟨by simpa using hl, ?_⟩
              intro i h h'
              have := hall (i + 1) (by simp; omega) (by simp; omega)
              simpa using this
            rw [hr] at hrest; cases hrest
      | ok ls0 =>
        simp only
        have ih0 := (ih ls0).mp hr
        constructor
        · intro h
          injection h with h
          subst h
          refine ⟨by simp [ih0.1], ?_⟩
          intro i h h'
          cases i with
          | zero => simpa using ha
          | succ k =>
            have := ih0.2 k (by simpa using h) (by simpa using h')
            simpa using this
        · rintro ⟨hl, hall⟩
          cases ls with
          | nil => simp at hl
          | cons l' ls' =>
            have h0 := hall 0 (by simp) (by simp)
            simp only [List.getElem_cons_zero] at h0
            rw [ha] at h0; injection h0 with h0
            have hrest : argLines o as = .ok ls' := by
              rw [ih ls']
              refine ⟨by simpa using hl, ?_⟩
              intro i h h'
              have := hall (i + 1) (by simp; omega) (by simp; omega)
              simpa using this
            rw [hr] at hrest; injection hrest with hrest
            rw [h0, hrest]

/-- a single bad argument suppresses every line -/
theorem argLines_error_of_mem (o : Options) (args : List String) (a : String) (ha : a ∈ args)
    (e : Bool) (he : argLine o a = .error e) : ∃ e', argLines o args = .error e' := by
  induction args with
  | nil => cases ha
  | cons x xs ih =>
    simp only [argLines]
    cases hx : argLine o x with
    | error e' => exact ⟨e', rfl⟩
    | ok l =>
      simp only
      have hm : a ∈ xs := by
        cases ha with
        | head => rw [he] at hx; cases hx
        | tail _ h => exact h
      obtain ⟨e', h'⟩ := ih hm
      rw [h']; exact ⟨e', rfl⟩

/-! ### printed dates read back -/

theorem dash_after_first (p rest : List Char) (hp : 1 ≤ p.length) :
    ((p ++ '-' :: rest).drop 1).contains '-' = true := by
  rw [List.drop_append_of_le_length hp]
  simp

theorem fmtYear_length (y : Int) : 1 ≤ (fmtYear y).length := by
  have h := (padNat_spec 4 y.natAbs).1
  have := List.length_pos_iff.mpr h
  simp only [fmtYear]; split
  · simp
  · omega

/-- both date forms contain a '-' after their first character, so `parse_arg` takes them as
dates — also for negative years -/
theorem fmt_is_date_arg (d : Date) :
    ((fmtDate d).drop 1).contains '-' = true ∧ ((fmtDateAlt d).drop 1).contains '-' = true := by
  have hy := fmtYear_length d.year
  constructor
  · have : fmtDate d = fmtYear d.year ++ '-' :: (padNat 2 d.month.number.toNat ++ ['-'] ++ padNat 2 d.day.toNat) := by
      simp [fmtDate]
    rw [this]; exact dash_after_first _ _ hy
  · have : fmtDateAlt d = fmtYear d.year ++ '-' :: padNat 3 d.ordinal.toNat := by
      simp [fmtDateAlt]
    rw [this]; exact dash_after_first _ _ hy

/-! ### negative numbers -/

theorem digit_ne_dash (x : Char) (h : isAsciiDigit x = true) : (x == '-') = false := by
  cases hx : (x == '-') with
  | false => rfl
  | true =>
    have : x = '-' := by simpa using hx
    subst this
    revert h; decide

theorem digits_no_dash : ∀ l : List Char, l.all isAsciiDigit = true → l.contains '-' = false
  | [], _ => rfl
  | x :: xs, h => by
    simp only [List.all_cons, Bool.and_eq_true] at h
    have h1 := digit_ne_dash x h.1
    have h2 := digits_no_dash xs h.2
    simp only [List.contains_cons, Bool.or_eq_false_iff]
    refine ⟨?_, h2⟩
    cases hx : ('-' == x) with
    | false => rfl
    | true =>
      have : x = '-' := by simpa using (beq_iff_eq.mp hx).symm
      subst this; simp at h1

/-- **a '-' followed by digits is a day number, not an option**: the argument
`from_parser` re-assembles from the short-option form parses as the negative integer -/
theorem neg_is_jdn (o : Options) (c : Char) (hc : isAsciiDigit c = true) (s : String)
    (hs : s.toList.all isAsciiDigit = true) :
    o.parseArg ("-" ++ c.toString ++ s)
      = (if inI32 (-(digitsVal (c :: s.toList) 0 : Int)) then some (.jdn (-(digitsVal (c :: s.toList) 0 : Int)))
         else none) := by
  have hl : ("-" ++ c.toString ++ s).toList = '-' :: c :: s.toList := by simp [String.toList_append]
  have hall : (c :: s.toList).all isAsciiDigit = true := by simp [hc, hs]
  have hnd := digits_no_dash _ hall
  have hp : parseI32 ('-' :: c :: s.toList)
      = (if inI32 (-(digitsVal (c :: s.toList) 0 : Int)) then some (-(digitsVal (c :: s.toList) 0 : Int))
         else none) := by
    have hne : ((c :: s.toList).isEmpty || !(c :: s.toList).all isAsciiDigit) = false := by
      rw [hall]; rfl
    simp only [parseI32, beq_self_eq_true, if_true, hne, Bool.false_eq_true, if_false]
  simp only [Options.parseArg, hl, List.drop_one, List.tail_cons, hnd, Bool.false_eq_true, if_false, hp]
  by_cases hin : inI32 (-(digitsVal (c :: s.toList) 0 : Int)) = true
  · simp only [hin, if_true]
  · simp only [hin, if_false, Bool.false_eq_true]

end Cli
end JV
