/-
Lemmas/CheckedCal.lean — no machine operation of the `Calendar` / `Date` methods overflows
and no `unreachable!()` is reached: generic part.  `Chk.Base c` collects the facts about one
calendar the arguments need; Lemmas/CheckedInst.lean provides it for every well-formed
calendar.
-/
import JulianVerif.Lemmas.CheckedShape
import JulianVerif.Lemmas.ShapedInst
set_option linter.unusedSimpArgs false
namespace JV
open Spec

namespace Chk

/-- the per-calendar facts the overflow arguments rest on -/
structure Base (c : Calendar) extends Shaped c where
  fits31 : ∀ y m s, c.monthIShape y m = some s → s.naturalMax ≤ 31
  mshape : ∀ y m, monthIShape c y m = some (c.monthIShape y m)
  ylen : ∀ y, yearLength c y = some (c.yearLength y)
  ylen_le : ∀ y, c.yearLength y ≤ 366
  gapRange : ∀ gap, c.gap = some gap →
    0 ≤ gap.ordinalGap ∧ gap.ordinalGap ≤ 366
    ∧ c.yearLength gap.postReform.year + gap.ordinalGap ≤ 366
    ∧ 1 ≤ gap.postReform.ordinal
    ∧ -2147483647 ≤ gap.preReform.year ∧ gap.postReform.year ≤ 2147483646
  yrange : ∀ j d, InI32 j → c.atJdn? j = some d → -5884400 ≤ d.year ∧ d.year ≤ 5874900

namespace Base
variable {c : Calendar} (B : Base c)

include B in
theorem fits (y : Int) (m : Month) (s : IShape) (h : c.monthIShape y m = some s) : s.Fits :=
  ⟨B.proper y m s h, B.fits31 y m s h⟩

include B in
theorem ylen_nonneg (y : Int) : 0 ≤ c.yearLength y := B.toAccepting.yearLength_nonneg y

/-! ### the month walks -/

include B in
theorem ordinal2ymddoLoop_eq (y : Int) :
    ∀ (ms : List Month) (days : Int) (r : Month × Int × Int), 1 ≤ days → days ≤ 4294967295 →
      c.ordinal2ymddoLoop y ms days = .ok r → ordinal2ymddoLoop c y ms days = some r := by
  intro ms
  induction ms with
  | nil => intro days r _ _ h; cases h
  | cons x xs ih =>
    intro days r h1 h2 h
    simp only [Calendar.ordinal2ymddoLoop] at h
    simp only [ordinal2ymddoLoop, B.mshape y x, bind, pure, Option.bind_some]
    cases hs : c.monthIShape y x with
    | none =>
      rw [hs] at h
      simp only at h ⊢
      exact ih days r h1 h2 h
    | some s =>
      rw [hs] at h
      simp only at h ⊢
      have hf := B.fits y x s hs
      rw [nthDay_eq s hf days ⟨by omega, h2⟩]
      simp only [Option.bind_some]
      cases hn : s.nthDay days with
      | some day =>
        rw [hn] at h
        simp only at h ⊢
        injection h with h; rw [h]
      | none =>
        rw [hn] at h
        simp only at h ⊢
        rw [len_eq s hf]
        simp only [Option.bind_some]
        have hlen : s.len < days := by
          by_cases a : s.len < days
          · exact a
          · have a : days ≤ s.len := by omega
            have := (IShape.nthDay_some_iff s hf.1.valid days (by omega)).mpr ⟨h1, a⟩
            rw [hn] at this; obtain ⟨_, e⟩ := this; cases e
        have hl0 := s.len_nonneg hf.1.valid
        rw [u32_some (by omega) (by omega)]
        simp only [Option.bind_some]
        exact ih (days - s.len) r (by omega) (by omega) h

include B in
/-- `ordinal2ymddo`: the unrolled loop never falls off its end -/
theorem ordinal2ymddo_eq (y o : Int) (ho : InU32 o) :
    ordinal2ymddo c y o = some (c.ordinal2ymddo y o) := by
  simp only [InU32] at ho
  simp only [ordinal2ymddo, Calendar.ordinal2ymddo, B.ylen y, bind, pure, Option.bind_some]
  split
  · rfl
  · rename_i hc
    simp only [Bool.or_eq_true, decide_eq_true_eq, not_or, Int.not_lt] at hc
    obtain ⟨m, s, day, _, _, hl, _⟩ := Calendar.ordinal2ymddoLoop_spec c y Month.all o Calendar.all_nodup
      (B.valid y) hc.1 (by rw [← B.lenSum y]; omega)
    rw [B.ordinal2ymddoLoop_eq y Month.all o _ hc.1 ho.2 hl, hl]
    rfl

include B in
theorem ymdo2ordinalLoop_eq (y : Int) (m : Month) (k : Int) (hk0 : 0 ≤ k) (hk : k ≤ 31) :
    ∀ (ms : List Month) (acc : Int), m ∈ ms → 0 ≤ acc → acc + 31 * ms.length ≤ 1000 →
      ymdo2ordinalLoop c y m k ms acc = some (c.ymdo2ordinalLoop y m k ms acc) := by
  intro ms
  induction ms with
  | nil => intro acc h; simp at h
  | cons x xs ih =>
    intro acc hm h0 hb
    simp only [List.length_cons] at hb
    simp only [ymdo2ordinalLoop, Calendar.ymdo2ordinalLoop]
    by_cases hx : (x == m) = true
    · simp only [hx, if_true]
      exact u32_some (by omega) (by omega)
    · simp only [hx, if_false, Bool.false_eq_true, B.mshape y x, bind, pure, Option.bind_some]
      have hm' : m ∈ xs := by
        cases hm with
        | head => simp at hx
        | tail _ h => exact h
      cases hs : c.monthIShape y x with
      | none =>
        simp only
        exact ih acc hm' h0 (by omega)
      | some s =>
        simp only
        have hf := B.fits y x s hs
        have hl0 := s.len_nonneg hf.1.valid
        have hl1 : s.len ≤ 31 := by
          have := hf.2
          have hp := hf.1
          cases s <;> simp only [IShape.len, IShape.naturalMax, IShape.Proper] at * <;> omega
        rw [len_eq s hf]
        simp only [Option.bind_some]
        rw [u32_some (by omega) (by omega)]
        simp only [Option.bind_some]
        exact ih (acc + s.len) hm' (by omega) (by omega)

include B in
theorem ymdo2ordinal_eq (y : Int) (m : Month) (k : Int) (hk0 : 0 ≤ k) (hk : k ≤ 31) :
    ymdo2ordinal c y m k = some (c.ymdo2ordinal y m k) := by
  simp only [ymdo2ordinal, Calendar.ymdo2ordinal]
  exact B.ymdo2ordinalLoop_eq y m k hk0 hk Month.all 0 (Calendar.mem_all m) (by omega)
    (by simp [Month.all])

include B in
theorem getDayOrdinal_eq (y : Int) (m : Month) (d : Int) (hd : InU32 d) :
    getDayOrdinal c y m d = some (c.getDayOrdinal y m d) := by
  simp only [getDayOrdinal, Calendar.getDayOrdinal, B.mshape y m, bind, pure, Option.bind_some]
  cases hs : c.monthIShape y m with
  | none => rfl
  | some s => exact dayOrdinalErr_eq s (B.fits y m s hs) y m d hd

/-! ### day numbers -/

include B in
/-- `get_jdn`, called with a day-of-year of the year -/
theorem getJdn_eq (y : Int) (hy : InI32 y) (o : Int) (h1 : 1 ≤ o) (h2 : o ≤ c.yearLength y) :
    getJdn c y o = some (c.getJdn y o) := by
  have hle := B.ylen_le y
  cases c with
  | julian =>
    simp only [getJdn, Calendar.getJdn, Calendar.gap, bind, pure, Option.bind_some, if_true]
    exact julian2jdn_eq y o h1 (by omega)
  | gregorian =>
    simp only [getJdn, Calendar.getJdn, Calendar.gap, bind, pure, Option.bind_some,
      Bool.false_eq_true, if_false]
    exact gregorian2jdn_eq y o hy h1 (by omega)
  | reforming r gap =>
    obtain ⟨g0, g1, g2, g3, _⟩ := B.gapRange gap rfl
    simp only [getJdn, Calendar.getJdn, Calendar.gap, bind, pure]
    by_cases hc : (y == gap.postReform.year && decide (o ≥ gap.postReform.ordinal)) = true
    · simp only [hc, if_true]
      have hyq : y = gap.postReform.year := by
        simp only [Bool.and_eq_true, beq_iff_eq] at hc; exact hc.1
      have hoq : gap.postReform.ordinal ≤ o := by
        simp only [Bool.and_eq_true, decide_eq_true_eq] at hc; exact hc.2
      rw [u32_some (by omega) (by omega)]
      simp only [Option.bind_some]
      have hu : (decide (y < gap.postReform.year)
          || (y == gap.postReform.year && decide (o + gap.ordinalGap < gap.postReform.ordinal))) = false := by
        simp; omega
      simp only [hu, Bool.false_eq_true, if_false]
      exact gregorian2jdn_eq y _ hy (by omega) (by rw [hyq] at h2; omega)
    · simp only [hc, if_false, Bool.false_eq_true, Option.bind_some]
      split
      · exact julian2jdn_eq y o h1 (by omega)
      · exact gregorian2jdn_eq y o hy h1 (by omega)

include B in
/-- `at_ordinal_date` for every i32 year and u32 day-of-year -/
theorem atOrdinalDate_eq (y : Int) (hy : InI32 y) (o : Int) (ho : InU32 o) :
    atOrdinalDate c y o = some (c.atOrdinalDate y o) := by
  simp only [atOrdinalDate, Calendar.atOrdinalDate, B.ordinal2ymddo_eq y o ho, bind, pure,
    Option.bind_some]
  cases hw : c.ordinal2ymddo y o with
  | error e => rfl
  | ok r =>
    obtain ⟨m, d, k⟩ := r
    simp only
    have hr : 1 ≤ o ∧ o ≤ c.yearLength y := by
      simp only [Calendar.ordinal2ymddo] at hw
      split at hw
      · cases hw
      · rename_i hc
        simp only [Bool.or_eq_true, decide_eq_true_eq, not_or, Int.not_lt] at hc
        omega
    rw [B.getJdn_eq y hy o hr.1 hr.2]
    simp only [Option.bind_some]
    cases c.getJdn y o <;> rfl

include B in
/-- `at_ymd` for every i32 year, month and u32 day -/
theorem atYmd_eq (y : Int) (hy : InI32 y) (m : Month) (d : Int) (hd : InU32 d) :
    atYmd c y m d = some (c.atYmd y m d) := by
  simp only [atYmd, Calendar.atYmd, B.getDayOrdinal_eq y m d hd, bind, pure, Option.bind_some]
  cases hdo : c.getDayOrdinal y m d with
  | error e => rfl
  | ok k =>
    simp only
    simp only [Calendar.getDayOrdinal] at hdo
    cases hs : c.monthIShape y m with
    | none => rw [hs] at hdo; cases hdo
    | some s =>
      rw [hs] at hdo
      simp only at hdo
      have hf := B.fits y m s hs
      obtain ⟨hn, hk1, hk2⟩ := s.nthDay_of_dayOrdinalErr hf.1.valid y m k d hd.1 hdo
      have hl1 : s.len ≤ 31 := by
        have := hf.2
        have hp := hf.1
        cases s <;> simp only [IShape.len, IShape.naturalMax, IShape.Proper] at * <;> omega
      rw [B.ymdo2ordinal_eq y m k (by omega) (by omega)]
      simp only [Option.bind_some]
      have ho : c.ymdo2ordinal y m k = prefixSum (c.lenOf y) m + k := by
        rw [Calendar.ymdo2ordinal_eq, sumBefore_all]
      obtain ⟨_, ho1, ho2⟩ := Calendar.walk_generic c y _ m k s d (B.valid y) (B.lenSum y) hs hk1 hk2 ho hn
      rw [B.getJdn_eq y hy _ ho1 ho2]
      simp only [Option.bind_some]
      cases c.getJdn y (c.ymdo2ordinal y m k) <;> rfl

include B in
/-- `ordinal2ymddo` never falls off the end of its unrolled loop -/
theorem ordinal2ymddo_no_fault (y o : Int) : c.ordinal2ymddo y o ≠ .error .fault := by
  simp only [Calendar.ordinal2ymddo]
  split
  · intro h; cases h
  · rename_i hc
    simp only [Bool.or_eq_true, decide_eq_true_eq, not_or, Int.not_lt] at hc
    obtain ⟨m, s, day, _, _, hl, _⟩ := Calendar.ordinal2ymddoLoop_spec c y Month.all o Calendar.all_nodup
      (B.valid y) hc.1 (by rw [← B.lenSum y]; omega)
    rw [hl]; intro h; cases h

include B in
theorem len_le_31 (y : Int) (m : Month) (s : IShape) (hs : c.monthIShape y m = some s) :
    s.len ≤ 31 := by
  have hf := B.fits y m s hs
  have := hf.2
  have hp := hf.1
  cases s <;> simp only [IShape.len, IShape.naturalMax, IShape.Proper] at * <;> omega

include B in
/-- the in-month ordinal `ordinal2ymddo` reports lies in `1..=31` -/
theorem dayOrdinal_range (y o : Int) (m : Month) (d k : Int)
    (h : c.ordinal2ymddo y o = .ok (m, d, k)) : 1 ≤ k ∧ k ≤ 31 := by
  simp only [Calendar.ordinal2ymddo] at h
  split at h
  · cases h
  · rename_i hc
    simp only [Bool.or_eq_true, decide_eq_true_eq, not_or, Int.not_lt] at hc
    obtain ⟨m', s, day, _, hs, hl, _, hk1, hk2⟩ := Calendar.ordinal2ymddoLoop_spec c y Month.all o
      Calendar.all_nodup (B.valid y) hc.1 (by rw [← B.lenSum y]; omega)
    rw [hl] at h
    injection h with h
    simp only [Prod.mk.injEq] at h
    obtain ⟨_, _, rfl⟩ := h
    have := B.len_le_31 y m' s hs
    omega

include B in
/-- `MonthShape::nth_date` on a shape the calendar returned -/
theorem nthDate_eq (y : Int) (hy : InI32 y) (m : Month) (s : IShape)
    (hs : c.monthIShape y m = some s) (n : Int) (hn : InU32 n) :
    nthDate ⟨c, y, m, s⟩ n = some (MonthShape.nthDate ⟨c, y, m, s⟩ n) := by
  have hf := B.fits y m s hs
  simp only [nthDate, MonthShape.nthDate, MonthShape.nthDay, nthDay_eq s hf n hn, bind, pure,
    Option.bind_some]
  cases hd : s.nthDay n with
  | none => rfl
  | some day =>
    simp only
    have hday : InU32 day := by
      have hv := hf.1.valid
      have := (IShape.nthDay_some_iff s hv n hn.1).mp ⟨day, hd⟩
      have hm := hf.2
      have hp := hf.1
      simp only [InU32] at hn ⊢
      cases s <;> simp only [IShape.nthDay, IShape.naturalMax, IShape.Proper, IShape.len] at * <;>
        (repeat' split at hd) <;> (try cases hd) <;>
        (try simp only [Bool.and_eq_true, decide_eq_true_eq] at *) <;> omega
    rw [B.atYmd_eq y hy m day hday]
    simp only [Option.bind_some]
    cases c.atYmd y m day <;> rfl

/-! ### years -/

omit B in
theorem nextYearAfter_eq (y : Int) (h1 : -2147483648 ≤ y) (h2 : y ≤ 2147483646) :
    nextYearAfter c y = some (c.nextYearAfter y) := by
  simp only [nextYearAfter, Calendar.nextYearAfter, pure]
  cases hg : c.gap with
  | none => exact i32_some (by omega) (by omega)
  | some gap =>
    simp only
    split
    · rfl
    · exact i32_some (by omega) (by omega)

omit B in
theorem prevYearBefore_eq (y : Int) (h1 : -2147483647 ≤ y) (h2 : y ≤ 2147483647) :
    prevYearBefore c y = some (c.prevYearBefore y) := by
  simp only [prevYearBefore, Calendar.prevYearBefore, pure]
  cases hg : c.gap with
  | none => exact i32_some (by omega) (by omega)
  | some gap =>
    simp only
    split
    · rfl
    · exact i32_some (by omega) (by omega)

/-! ### `at_jdn`, `succ`, `pred` -/

omit B in
theorem atJdn?_fields (j : Int) (d : Date) (h : c.atJdn? j = some d) :
    c.jdnYearOrdinal j = (d.year, d.ordinal) := by
  simp only [Calendar.atJdn?] at h
  generalize c.jdnYearOrdinal j = p at *
  obtain ⟨y, o⟩ := p
  simp only at h
  split at h
  · cases h; rfl
  · cases h

/-- the gap adjustment at the end of `jdnYearOrdinal`, model and checked -/
def tailM (g : Option ReformGap) (p : Int × Int) : Int × Int :=
  match g with
  | some gap =>
    if (p.1 == gap.postReform.year && decide (p.2 > gap.ordinalGapStart)) = true then
      (p.1, p.2 - gap.ordinalGap)
    else (p.1, p.2)
  | none => (p.1, p.2)

def tailC (g : Option ReformGap) (p : Int × Int) : Option (Int × Int) :=
  match g with
  | some gap =>
    if (p.1 == gap.postReform.year && decide (p.2 > gap.ordinalGapStart)) = true then
      (u32 (p.2 - gap.ordinalGap)).bind fun o => some (p.1, o)
    else some (p.1, p.2)
  | none => some (p.1, p.2)

omit B in
theorem jdnYearOrdinal_tail (g : Option ReformGap) (p : Int × Int) (h1 : 1 ≤ p.2) (h2 : p.2 ≤ 366)
    (hg0 : ∀ gap, g = some gap → 0 ≤ gap.ordinalGap) (hres : 0 ≤ (tailM g p).2) :
    tailC g p = some (tailM g p) := by
  cases g with
  | none => rfl
  | some gap =>
    have := hg0 gap rfl
    simp only [tailM, tailC] at hres ⊢
    split
    · rename_i hc
      rw [if_pos hc] at hres
      simp only at hres
      rw [u32_some (by omega) (by omega)]
      rfl
    · rfl

include B in
theorem jdnYearOrdinal_eq (j : Int) (hj : InI32 j) :
    jdnYearOrdinal c j = some (c.jdnYearOrdinal j) := by
  obtain ⟨d, hd, _, _, _, _, ho1, ho2⟩ := B.block j
  have hf := atJdn?_fields j d hd
  have bj := jdn2julian_bounds j hj
  have bg := jdn2gregorian_bounds j hj
  have hres : 0 ≤ (c.jdnYearOrdinal j).2 := by rw [hf]; simp only; omega
  have hg0 : ∀ gap, c.gap = some gap → 0 ≤ gap.ordinalGap := fun gap h => (B.gapRange gap h).1
  cases c with
  | julian =>
    simp only [Calendar.jdnYearOrdinal, if_true] at hres
    have hres' : 0 ≤ (tailM none (JV.jdn2julian j)).2 := hres
    simp only [jdnYearOrdinal, Calendar.jdnYearOrdinal, bind, pure, if_true, jdn2julian_eq j hj,
      Option.bind_some]
    exact jdnYearOrdinal_tail none (JV.jdn2julian j) bj.2.2.1 bj.2.2.2 (fun _ h => by cases h) hres'
  | gregorian =>
    simp only [Calendar.jdnYearOrdinal, Bool.false_eq_true, if_false] at hres
    have hres' : 0 ≤ (tailM none (JV.jdn2gregorian j)).2 := hres
    simp only [jdnYearOrdinal, Calendar.jdnYearOrdinal, bind, pure, Bool.false_eq_true, if_false,
      jdn2gregorian_eq j hj, Option.bind_some]
    exact jdnYearOrdinal_tail none (JV.jdn2gregorian j) bg.2.2.1 bg.2.2.2 (fun _ h => by cases h) hres'
  | reforming r gap =>
    have hg0' : ∀ gap', some gap = some gap' → 0 ≤ gap'.ordinalGap := hg0
    by_cases hlt : j < r
    · simp only [Calendar.jdnYearOrdinal, hlt, decide_true, if_true] at hres
      have hres' : 0 ≤ (tailM (some gap) (JV.jdn2julian j)).2 := hres
      simp only [jdnYearOrdinal, Calendar.jdnYearOrdinal, bind, pure, hlt, decide_true, if_true,
        jdn2julian_eq j hj, Option.bind_some]
      exact jdnYearOrdinal_tail (some gap) (JV.jdn2julian j) bj.2.2.1 bj.2.2.2 hg0' hres'
    · simp only [Calendar.jdnYearOrdinal, hlt, decide_false, Bool.false_eq_true, if_false] at hres
      have hres' : 0 ≤ (tailM (some gap) (JV.jdn2gregorian j)).2 := hres
      simp only [jdnYearOrdinal, Calendar.jdnYearOrdinal, bind, pure, hlt, decide_false,
        Bool.false_eq_true, if_false, jdn2gregorian_eq j hj, Option.bind_some]
      exact jdnYearOrdinal_tail (some gap) (JV.jdn2gregorian j) bg.2.2.1 bg.2.2.2 hg0' hres'

include B in
/-- **`at_jdn` never overflows and never reaches its `unreachable!()`**, for every i32 day
number -/
theorem atJdn_eq (j : Int) (hj : InI32 j) : atJdn c j = c.atJdn? j := by
  obtain ⟨d, hd, _, _, _, _, ho1, ho2⟩ := B.block j
  have hf := atJdn?_fields j d hd
  have hle := B.ylen_le d.year
  simp only [atJdn, Calendar.atJdn?, B.jdnYearOrdinal_eq j hj, hf, bind, pure, Option.bind_some]
  rw [B.ordinal2ymddo_eq d.year d.ordinal ⟨by omega, by omega⟩]
  simp only [Option.bind_some]
  cases hw : c.ordinal2ymddo d.year d.ordinal with
  | error e => rfl
  | ok r => obtain ⟨m, dd, k⟩ := r; rfl

include B in
/-- `Date::succ` on a date the library handed out -/
theorem succ_eq (d : Date) (hcal : d.calendar = c) (hcan : c.atJdn? d.jdn = some d)
    (hj : InI32 d.jdn) : succ d = some d.succ := by
  obtain ⟨d', hd', _, _, _, _, ho1, ho2⟩ := B.block d.jdn
  rw [hcan] at hd'; cases hd'
  have hle := B.ylen_le d.year
  have hyr := B.yrange d.jdn d hj hcan
  simp only [succ, Date.succ]
  split
  · rfl
  · simp only [bind, pure, hcal]
    rw [u32_some (by omega) (by omega)]
    simp only [Option.bind_some]
    rw [B.ordinal2ymddo_eq d.year (d.ordinal + 1) ⟨by omega, by omega⟩]
    simp only [Option.bind_some]
    cases hw : c.ordinal2ymddo d.year (d.ordinal + 1) with
    | ok r => obtain ⟨m, dd, k⟩ := r; rfl
    | error e =>
      cases e with
      | ordinalOutOfRange a b cc =>
        simp only
        rw [nextYearAfter_eq d.year (by omega) (by omega)]
        simp only [Option.bind_some]
        rw [B.ordinal2ymddo_eq _ 1 ⟨by omega, by omega⟩]
        simp only [Option.bind_some]
        cases hw2 : c.ordinal2ymddo (c.nextYearAfter d.year) 1 with
        | ok r => obtain ⟨m, dd, k⟩ := r; rfl
        | error e => rfl
      | _ => rfl

include B in
/-- `Date::pred` on a date the library handed out -/
theorem pred_eq (d : Date) (hcal : d.calendar = c) (hcan : c.atJdn? d.jdn = some d)
    (hj : InI32 d.jdn) : pred d = some d.pred := by
  obtain ⟨d', hd', _, _, _, _, ho1, ho2⟩ := B.block d.jdn
  rw [hcan] at hd'; cases hd'
  have hle := B.ylen_le d.year
  have hyr := B.yrange d.jdn d hj hcan
  simp only [pred, Date.pred]
  split
  · rfl
  · simp only [bind, pure, hcal]
    by_cases h1 : d.ordinal > 1
    · simp only [if_pos h1]
      rw [u32_some (by omega) (by omega)]
      simp only [Option.bind_some]
      rw [B.ordinal2ymddo_eq d.year (d.ordinal - 1) ⟨by omega, by omega⟩]
      simp only [Option.bind_some]
      cases hw : c.ordinal2ymddo d.year (d.ordinal - 1) with
      | ok r => obtain ⟨m, dd, k⟩ := r; rfl
      | error e => rfl
    · simp only [if_neg h1]
      rw [prevYearBefore_eq d.year (by omega) (by omega)]
      simp only [Option.bind_some]
      rw [B.ylen]
      simp only [Option.bind_some]
      have := B.ylen_le (c.prevYearBefore d.year)
      have := B.ylen_nonneg (c.prevYearBefore d.year)
      rw [B.ordinal2ymddo_eq _ _ ⟨by omega, by omega⟩]
      simp only [Option.bind_some]
      cases hw : c.ordinal2ymddo (c.prevYearBefore d.year) (c.yearLength (c.prevYearBefore d.year)) with
      | ok r => obtain ⟨m, dd, k⟩ := r; rfl
      | error e => rfl

end Base
end Chk
end JV
