/-
Lemmas/Walk.lean — L2: the twelve-month walks of `ordinal2ymddo` / `ymdo2ordinal` over
arbitrary (valid) month shapes, by induction over the month list.
-/
import JulianVerif.Model.Calendar
namespace JV

/-- the invariant `month_shape` guarantees for the shapes it hands out -/
def IShape.Valid : IShape → Prop
  | .normal maxDay => 0 ≤ maxDay
  | .headless minDay maxDay => 1 ≤ minDay ∧ minDay ≤ maxDay
  | .tailless maxDay naturalMaxDay => 0 ≤ maxDay ∧ maxDay ≤ naturalMaxDay
  | .gapped gapStart gapEnd maxDay => 1 ≤ gapStart ∧ gapStart ≤ gapEnd + 1 ∧ gapEnd ≤ maxDay

theorem IShape.len_nonneg (s : IShape) (hv : s.Valid) : 0 ≤ s.len := by
  cases s <;> simp only [IShape.Valid, IShape.len] at * <;> omega

/-- `nth_day` answers exactly for the ordinals 1..=len -/
theorem IShape.nthDay_some_iff (s : IShape) (hv : s.Valid) (n : Int) (hn : 0 ≤ n) :
    (∃ d, s.nthDay n = some d) ↔ (1 ≤ n ∧ n ≤ s.len) := by
  cases s with
  | normal L =>
    simp only [IShape.nthDay, IShape.len]
    by_cases h : 1 ≤ n ∧ n ≤ L <;> simp [h]
  | tailless L N =>
    simp only [IShape.nthDay, IShape.len]
    by_cases h : 1 ≤ n ∧ n ≤ L <;> simp [h]
  | headless a L =>
    simp only [IShape.nthDay, IShape.len]
    by_cases h : 1 ≤ n ∧ n ≤ L - a + 1 <;> simp [h]
  | gapped gs ge L =>
    simp only [IShape.Valid] at hv
    simp only [IShape.nthDay, IShape.len]
    by_cases h0 : n = 0
    · subst h0; simp
    · by_cases h1 : n < gs
      · simp [h0, h1]; omega
      · by_cases h2 : n > L
        · simp [h0, h1, h2]; omega
        · by_cases h3 : n + (ge - gs + 1) ≤ L
          · simp [h0, h1, h2, h3]; omega
          · simp [h0, h1, h2, h3]; omega

namespace Calendar

/-- number of days of month `m` of year `y` (0 for a month that does not exist) -/
def lenOf (c : Calendar) (y : Int) (m : Month) : Int :=
  match c.monthIShape y m with
  | some s => s.len
  | none => 0

/-- total length of the months of `ms` before `m` — what `ymdo2ordinal` accumulates -/
def sumBefore (c : Calendar) (y : Int) : List Month → Month → Int
  | [], _ => 0
  | x :: xs, m => if x = m then 0 else c.lenOf y x + sumBefore c y xs m

def sumAll (c : Calendar) (y : Int) : List Month → Int
  | [] => 0
  | x :: xs => c.lenOf y x + sumAll c y xs

theorem ymdo2ordinalLoop_eq (c : Calendar) (y : Int) (m : Month) (k : Int) :
    ∀ (ms : List Month) (acc : Int), m ∈ ms →
      c.ymdo2ordinalLoop y m k ms acc = acc + c.sumBefore y ms m + k := by
  intro ms
  induction ms with
  | nil => intro acc h; simp at h
  | cons x xs ih =>
    intro acc h
    simp only [ymdo2ordinalLoop, sumBefore]
    by_cases hx : x = m
    · simp [hx]
    · have hm : m ∈ xs := by
        cases h with
        | head => exact absurd rfl hx
        | tail _ h => exact h
      have hb : (x == m) = false := beq_false_of_ne hx
      simp only [hx, hb, Bool.false_eq_true, if_false, lenOf]
      cases hs : c.monthIShape y x with
      | none => simp only []; rw [ih acc hm]; omega
      | some s => simp only []; rw [ih _ hm]; omega

theorem mem_all (m : Month) : m ∈ Month.all := by
  cases m <;> simp [Month.all]

theorem ymdo2ordinal_eq (c : Calendar) (y : Int) (m : Month) (k : Int) :
    c.ymdo2ordinal y m k = c.sumBefore y Month.all m + k := by
  simp only [ymdo2ordinal]
  rw [ymdo2ordinalLoop_eq c y m k Month.all 0 (mem_all m)]
  omega

/-- the walk of `ordinal2ymddo`: for `1 ≤ days ≤` the total length of the listed months it
stops in the month `m` containing that day, with in-month ordinal
`days - sumBefore ms m` -/
theorem ordinal2ymddoLoop_spec (c : Calendar) (y : Int) :
    ∀ (ms : List Month) (days : Int), ms.Nodup →
      (∀ m ∈ ms, ∀ s, c.monthIShape y m = some s → s.Valid) →
      1 ≤ days → days ≤ c.sumAll y ms →
      ∃ m s day, m ∈ ms ∧ c.monthIShape y m = some s
        ∧ c.ordinal2ymddoLoop y ms days = .ok (m, day, days - c.sumBefore y ms m)
        ∧ s.nthDay (days - c.sumBefore y ms m) = some day
        ∧ 1 ≤ days - c.sumBefore y ms m ∧ days - c.sumBefore y ms m ≤ s.len := by
  intro ms
  induction ms with
  | nil => intro days _ _ h1 h2; simp [sumAll] at h2; omega
  | cons x xs ih =>
    intro days hnd hv h1 h2
    have hnd' : xs.Nodup := (List.nodup_cons.mp hnd).2
    have hx : x ∉ xs := (List.nodup_cons.mp hnd).1
    have hv' : ∀ m ∈ xs, ∀ s, c.monthIShape y m = some s → s.Valid :=
      fun m hm s hs => hv m (List.mem_cons_of_mem _ hm) s hs
    simp only [sumAll, lenOf] at h2
    cases hs : c.monthIShape y x with
    | none =>
      simp only [hs] at h2
      obtain ⟨m, s, day, hm, hms, hl, hn, hk1, hk2⟩ := ih days hnd' hv' h1 (by omega)
      have hne : x ≠ m := fun e => hx (e ▸ hm)
      refine ⟨m, s, day, List.mem_cons_of_mem _ hm, hms, ?_, ?_, ?_, ?_⟩
      · simp only [ordinal2ymddoLoop, hs, sumBefore, hne, if_false, lenOf]
        rw [hl]; simp
      · simp only [sumBefore, hne, if_false, lenOf, hs]; simpa using hn
      · simp only [sumBefore, hne, if_false, lenOf, hs]; omega
      · simp only [sumBefore, hne, if_false, lenOf, hs]; omega
    | some sx =>
      simp only [hs] at h2
      have hvx : sx.Valid := hv x (List.mem_cons_self) sx hs
      by_cases hin : days ≤ sx.len
      · obtain ⟨d, hd⟩ := (sx.nthDay_some_iff hvx days (by omega)).mpr ⟨h1, hin⟩
        refine ⟨x, sx, d, List.mem_cons_self, hs, ?_, ?_, ?_, ?_⟩
        · simp only [ordinal2ymddoLoop, hs, hd, sumBefore, if_true]; simp
        · simp only [sumBefore, if_true]; simpa using hd
        · simp only [sumBefore, if_true]; omega
        · simp only [sumBefore, if_true]; omega
      · have hnone : sx.nthDay days = none := by
          cases hh : sx.nthDay days with
          | none => rfl
          | some d =>
            have := (sx.nthDay_some_iff hvx days (by omega)).mp ⟨d, hh⟩
            omega
        obtain ⟨m, s, day, hm, hms, hl, hn, hk1, hk2⟩ :=
          ih (days - sx.len) hnd' hv' (by omega) (by omega)
        have hne : x ≠ m := fun e => hx (e ▸ hm)
        have e : days - sx.len - sumBefore c y xs m = days - (sx.len + sumBefore c y xs m) := by omega
        refine ⟨m, s, day, List.mem_cons_of_mem _ hm, hms, ?_, ?_, ?_, ?_⟩
        · simp only [ordinal2ymddoLoop, hs, hnone, sumBefore, hne, if_false, lenOf]
          rw [hl, e]
        · simp only [sumBefore, hne, if_false, lenOf, hs]; rw [← e]; exact hn
        · simp only [sumBefore, hne, if_false, lenOf, hs]; omega
        · simp only [sumBefore, hne, if_false, lenOf, hs]; omega

theorem all_nodup : Month.all.Nodup := by decide

end Calendar
end JV
