/-
Lemmas/Deque.lean — C17: a `RangeInclusive` used as a double-ended iterator refines a list
popped from both ends, for every sequence of operations.
-/
import JulianVerif.Model.Iter
set_option linter.unusedSimpArgs false
namespace JV

/-- the integers `a, a+1, …, a+n-1` -/
def ival (a : Int) : Nat → List Int
  | 0 => []
  | n + 1 => a :: ival (a + 1) n

theorem ival_length (a : Int) (n : Nat) : (ival a n).length = n := by
  induction n generalizing a with
  | zero => rfl
  | succ n ih => simp [ival, ih]

theorem ival_snoc (a : Int) (n : Nat) : ival a (n + 1) = ival a n ++ [a + n] := by
  induction n generalizing a with
  | zero => simp [ival]
  | succ n ih =>
    have e : a + 1 + (n : Int) = a + ((n + 1 : Nat) : Int) := by push_cast; omega
    rw [ival, ih (a + 1), e]
    rfl

/-- what remains in the range, front to back -/
def RangeIncl.toList (r : RangeIncl) : List Int :=
  if r.isEmpty then [] else ival r.start (r.stop - r.start + 1).toNat

theorem RangeIncl.len_eq (r : RangeIncl) : r.len = r.toList.length := by
  simp only [RangeIncl.len, RangeIncl.toList]
  by_cases h : r.isEmpty = true
  · simp [h]
  · have h' := h
    simp only [RangeIncl.isEmpty, Bool.or_eq_true, decide_eq_true_eq, not_or] at h'
    rw [if_neg h, if_neg h, ival_length]
    omega

theorem RangeIncl.next_refines (r : RangeIncl) :
    (r.next).1 = r.toList.head? ∧ (r.next).2.toList = r.toList.tail := by
  simp only [RangeIncl.next, RangeIncl.toList]
  by_cases h : r.isEmpty = true
  · simp [h]
  · simp only [h, if_false]
    have h' := h
    simp only [RangeIncl.isEmpty, Bool.or_eq_true, decide_eq_true_eq, not_or, Bool.not_eq_true] at h'
    obtain ⟨he, hs⟩ := h'
    by_cases c : r.start < r.stop
    · obtain ⟨k, hk⟩ : ∃ k : Nat, (r.stop - r.start + 1).toNat = k + 1 := ⟨(r.stop - r.start).toNat, by omega⟩
      have hk2 : (r.stop - (r.start + 1) + 1).toNat = k := by omega
      have hne : ¬ (r.start + 1 > r.stop) := by omega
      simp [c, hk, ival, RangeIncl.isEmpty, he, hne, hk2]
    · have e : r.start = r.stop := by omega
      have hk : (r.stop - r.start + 1).toNat = 1 := by omega
      simp [c, hk, ival, RangeIncl.isEmpty]

theorem RangeIncl.nextBack_refines (r : RangeIncl) :
    (r.nextBack).1 = r.toList.getLast? ∧ (r.nextBack).2.toList = r.toList.dropLast := by
  simp only [RangeIncl.nextBack, RangeIncl.toList]
  by_cases h : r.isEmpty = true
  · simp [h]
  · simp only [h, if_false]
    have h' := h
    simp only [RangeIncl.isEmpty, Bool.or_eq_true, decide_eq_true_eq, not_or, Bool.not_eq_true] at h'
    obtain ⟨he, hs⟩ := h'
    by_cases c : r.start < r.stop
    · obtain ⟨k, hk⟩ : ∃ k : Nat, (r.stop - r.start + 1).toNat = k + 1 := ⟨(r.stop - r.start).toNat, by omega⟩
      have hk2 : (r.stop - 1 - r.start + 1).toNat = k := by omega
      have hne : ¬ (r.start > r.stop - 1) := by omega
      have hlast : r.start + (k : Int) = r.stop := by omega
      simp [c, hk, ival_snoc, RangeIncl.isEmpty, he, hne, hk2, hlast]
    · have e : r.start = r.stop := by omega
      have hk : (r.stop - r.start + 1).toNat = 1 := by omega
      simp [c, hk, ival, RangeIncl.isEmpty, e]

/-- operations of a double-ended exact-size iterator -/
inductive DOp where
  | front | back | len
  deriving DecidableEq, Repr

/-- what an operation returns -/
inductive DOut (α : Type) where
  | item (x : Option α)
  | len (n : Int)
  deriving Repr

/-- the specification: a list popped from both ends -/
def specRun {α : Type} : List α → List DOp → List (DOut α)
  | _, [] => []
  | l, .front :: ops => .item l.head? :: specRun l.tail ops
  | l, .back :: ops => .item l.getLast? :: specRun l.dropLast ops
  | l, .len :: ops => .len l.length :: specRun l ops

/-- the implementation: `RangeInclusive::{next, next_back, len}` -/
def RangeIncl.run : RangeIncl → List DOp → List (DOut Int)
  | _, [] => []
  | r, .front :: ops => .item (r.next).1 :: RangeIncl.run (r.next).2 ops
  | r, .back :: ops => .item (r.nextBack).1 :: RangeIncl.run (r.nextBack).2 ops
  | r, .len :: ops => .len r.len :: RangeIncl.run r ops

/-- **any interleaving of taking from the front, taking from the back and asking for the
length behaves like popping a list from both ends** -/
theorem RangeIncl.run_refines (r : RangeIncl) (ops : List DOp) :
    r.run ops = specRun r.toList ops := by
  induction ops generalizing r with
  | nil => rfl
  | cons op ops ih =>
    cases op with
    | front =>
      simp only [RangeIncl.run, specRun]
      rw [ih, (r.next_refines).1, (r.next_refines).2]
    | back =>
      simp only [RangeIncl.run, specRun]
      rw [ih, (r.nextBack_refines).1, (r.nextBack_refines).2]
    | len =>
      simp only [RangeIncl.run, specRun]
      rw [ih, r.len_eq]

def DOut.map {α β : Type} (f : α → Option β) : DOut α → DOut β
  | .item x => .item (x.bind f)
  | .len n => .len n

/-- iter.rs `Days` driven by an operation sequence -/
def Days.run : Days → List DOp → List (DOut Int)
  | _, [] => []
  | it, .front :: ops => .item (it.next).1 :: Days.run (it.next).2 ops
  | it, .back :: ops => .item (it.nextBack).1 :: Days.run (it.nextBack).2 ops
  | it, .len :: ops => .len it.len :: Days.run it ops

theorem Days.run_eq (it : Days) (ops : List DOp) :
    it.run ops = (it.inner.run ops).map (DOut.map it.shape.nthDay) := by
  induction ops generalizing it with
  | nil => rfl
  | cons op ops ih =>
    cases op with
    | front =>
      simp only [Days.run, RangeIncl.run, List.map_cons]
      cases h : it.inner.next with
      | mk v r =>
        cases v <;> simp [Days.next, h, DOut.map, ih]
    | back =>
      simp only [Days.run, RangeIncl.run, List.map_cons]
      cases h : it.inner.nextBack with
      | mk v r =>
        cases v <;> simp [Days.nextBack, h, DOut.map, ih]
    | len =>
      simp only [Days.run, RangeIncl.run, List.map_cons, DOut.map, Days.len]
      rw [ih]

/-- **`MonthShape::days()` under any operation sequence is the list of the month's days
`[nth_day 1, …, nth_day len]` popped from both ends** -/
theorem Days.run_refines (s : MonthShape) (ops : List DOp) :
    (Days.new s).run ops
      = (specRun (ival 1 s.len.toNat) ops).map (DOut.map s.nthDay) := by
  rw [Days.run_eq, RangeIncl.run_refines]
  have : (Days.new s).inner.toList = ival 1 s.len.toNat := by
    simp only [Days.new, RangeIncl.new, RangeIncl.toList, RangeIncl.isEmpty]
    by_cases h : (1 : Int) > s.len
    · have : s.len.toNat = 0 := by omega
      simp [h, this, ival]
    · have : (s.len - 1 + 1).toNat = s.len.toNat := by omega
      simp [h, this]
  rw [this]
  rfl

/-- iter.rs `MonthIter` driven by an operation sequence -/
def MonthIter.run : MonthIter → List DOp → List (DOut Month)
  | _, [] => []
  | it, .front :: ops =>
    .item ((it.next).1.bind id) :: MonthIter.run (it.next).2 ops
  | it, .back :: ops =>
    .item ((it.nextBack).1.bind id) :: MonthIter.run (it.nextBack).2 ops
  | it, .len :: ops => .len it.len :: MonthIter.run it ops

theorem MonthIter.run_eq (it : MonthIter) (ops : List DOp) :
    it.run ops = (it.inner.run ops).map (DOut.map Month.ofInt?) := by
  induction ops generalizing it with
  | nil => rfl
  | cons op ops ih =>
    cases op with
    | front =>
      simp only [MonthIter.run, RangeIncl.run, List.map_cons]
      cases h : it.inner.next with
      | mk v r =>
        cases v <;> simp [MonthIter.next, h, DOut.map, ih]
    | back =>
      simp only [MonthIter.run, RangeIncl.run, List.map_cons]
      cases h : it.inner.nextBack with
      | mk v r =>
        cases v <;> simp [MonthIter.nextBack, h, DOut.map, ih]
    | len =>
      simp only [MonthIter.run, RangeIncl.run, List.map_cons, DOut.map, MonthIter.len]
      rw [ih]

/-- **`MonthIter` under any operation sequence is the list January … December popped from
both ends** -/
theorem MonthIter.run_refines (ops : List DOp) :
    MonthIter.new.run ops = (specRun (ival 1 12) ops).map (DOut.map Month.ofInt?) := by
  rw [MonthIter.run_eq, RangeIncl.run_refines]
  rfl

def DOut.mapD {α β : Type} (f : α → Option β) : DOut α → DOut β
  | .item x => .item (x.bind f)
  | .len n => .len n

/-- iter.rs `Dates` driven by an operation sequence -/
def Dates.run : Dates → List DOp → List (DOut Date)
  | _, [] => []
  | it, .front :: ops => .item (it.next).1 :: Dates.run (it.next).2 ops
  | it, .back :: ops => .item (it.nextBack).1 :: Dates.run (it.nextBack).2 ops
  | it, .len :: ops => .len it.len :: Dates.run it ops

theorem Dates.run_eq (it : Dates) (ops : List DOp) :
    it.run ops = (it.inner.run ops).map (DOut.mapD it.shape.nthDate) := by
  induction ops generalizing it with
  | nil => rfl
  | cons op ops ih =>
    cases op with
    | front =>
      simp only [Dates.run, RangeIncl.run, List.map_cons]
      cases h : it.inner.next with
      | mk v r =>
        cases v <;> simp [Dates.next, h, DOut.mapD, ih]
    | back =>
      simp only [Dates.run, RangeIncl.run, List.map_cons]
      cases h : it.inner.nextBack with
      | mk v r =>
        cases v <;> simp [Dates.nextBack, h, DOut.mapD, ih]
    | len =>
      simp only [Dates.run, RangeIncl.run, List.map_cons, DOut.mapD, Dates.len]
      rw [ih]

/-- **`MonthShape::dates()` under any operation sequence is the list of the dates at the
in-month ordinals `start..=end` (the representable ones, fix F5) popped from both ends** -/
theorem Dates.run_refines (it : Dates) (ops : List DOp) :
    it.run ops = (specRun it.inner.toList ops).map (DOut.mapD it.shape.nthDate) := by
  rw [Dates.run_eq, RangeIncl.run_refines]

/-- the trimming loops of `Dates::new` only move inwards and stop at a representable date or
when the range is empty -/
theorem Dates.trimStart_spec (s : MonthShape) : ∀ (fuel : Nat) (start stop : Int),
    start ≤ Dates.trimStart s fuel start stop
    ∧ (∀ k, start ≤ k → k < Dates.trimStart s fuel start stop → s.nthDate k = none) := by
  intro fuel
  induction fuel with
  | zero => intro start stop; simp only [Dates.trimStart]; exact ⟨Int.le_refl _, fun k h1 h2 => by omega⟩
  | succ f ih =>
    intro start stop
    simp only [Dates.trimStart]
    split
    · rename_i hc
      simp only [Bool.and_eq_true, decide_eq_true_eq, Option.isNone_iff_eq_none] at hc
      obtain ⟨h1, h2⟩ := ih (start + 1) stop
      refine ⟨by omega, ?_⟩
      intro k hk1 hk2
      by_cases e : k = start
      · subst e; exact hc.2
      · exact h2 k (by omega) hk2
    · exact ⟨Int.le_refl _, fun k h1 h2 => by omega⟩

theorem Dates.trimEnd_spec (s : MonthShape) : ∀ (fuel : Nat) (start stop : Int),
    Dates.trimEnd s fuel start stop ≤ stop
    ∧ (∀ k, Dates.trimEnd s fuel start stop < k → k ≤ stop → s.nthDate k = none) := by
  intro fuel
  induction fuel with
  | zero => intro start stop; simp only [Dates.trimEnd]; exact ⟨Int.le_refl _, fun k h1 h2 => by omega⟩
  | succ f ih =>
    intro start stop
    simp only [Dates.trimEnd]
    split
    · rename_i hc
      simp only [Bool.and_eq_true, decide_eq_true_eq, Option.isNone_iff_eq_none] at hc
      obtain ⟨h1, h2⟩ := ih start (stop - 1)
      refine ⟨by omega, ?_⟩
      intro k hk1 hk2
      by_cases e : k = stop
      · subst e; exact hc.2
      · exact h2 k hk1 (by omega)
    · exact ⟨Int.le_refl _, fun k h1 h2 => by omega⟩

/-- nothing representable is lost: every in-month ordinal outside the iterated range has no
representable date -/
theorem Dates.new_complete (s : MonthShape) (k : Int) (h1 : 1 ≤ k) (h2 : k ≤ s.len)
    (hout : k < (Dates.new s).inner.start ∨ (Dates.new s).inner.stop < k) : s.nthDate k = none := by
  simp only [Dates.new, RangeIncl.new] at hout
  rcases hout with h | h
  · exact (Dates.trimStart_spec s _ 1 s.len).2 k h1 h
  · exact (Dates.trimEnd_spec s _ _ s.len).2 k h h2

end JV
