/-
Lemmas/Step.lean — L5: `Date::succ` / `Date::pred` against `at_jdn`, for any calendar whose
years tile the line of day numbers (`YearTiling`).
-/
import JulianVerif.Lemmas.Tiling
set_option linter.unusedSimpArgs false
namespace JV
open Spec

/-- the years of `c` tile the day numbers: every day lies in the block of its year, blocks
of years that have dates follow each other without gaps or overlaps -/
structure YearTiling (c : Calendar) where
  F : Int → Int
  Live : Int → Prop
  block : ∀ j, ∃ d, c.atJdn? j = some d ∧ d.calendar = c ∧ d.jdn = j ∧ Live d.year
      ∧ d.ordinal = j - F d.year + 1 ∧ 1 ≤ d.ordinal ∧ d.ordinal ≤ c.yearLength d.year
  next : ∀ y, Live y → F (c.nextYearAfter y) = F y + c.yearLength y ∧ Live (c.nextYearAfter y)
  prev : ∀ y, Live y → F y = F (c.prevYearBefore y) + c.yearLength (c.prevYearBefore y)
      ∧ Live (c.prevYearBefore y)
  mono : ∀ y y', Live y → Live y' → y < y' → F y + c.yearLength y ≤ F y'
  pos : ∀ y, Live y → 0 < c.yearLength y

/-- the fields of a date returned by `at_jdn` come from `ordinal2ymddo` -/
theorem atJdn?_parts (c : Calendar) (j : Int) (d : Date) (h : c.atJdn? j = some d) :
    d.calendar = c ∧ d.jdn = j
    ∧ c.ordinal2ymddo d.year d.ordinal = .ok (d.month, d.day, d.dayOrdinal) := by
  simp only [Calendar.atJdn?] at h
  split at h
  · rename_i m dd k hm
    cases h
    exact ⟨rfl, rfl, hm⟩
  · cases h

namespace YearTiling
variable {c : Calendar} (T : YearTiling c)

/-- a day lies in the block of exactly one year -/
theorem block_unique (y y' j : Int) (hy : T.Live y) (hy' : T.Live y')
    (h1 : T.F y ≤ j) (h2 : j < T.F y + c.yearLength y)
    (h1' : T.F y' ≤ j) (h2' : j < T.F y' + c.yearLength y') : y = y' := by
  rcases Int.lt_trichotomy y y' with a | a | a
  · have := T.mono y y' hy hy' a; omega
  · exact a
  · have := T.mono y' y hy' hy a; omega

/-- the date of day `j`, given the year block it lies in -/
theorem atJdn_of_block (y j : Int) (hy : T.Live y) (h1 : T.F y ≤ j) (h2 : j < T.F y + c.yearLength y) :
    ∃ d, c.atJdn? j = some d ∧ d.year = y ∧ d.ordinal = j - T.F y + 1 := by
  obtain ⟨d, hd, _, _, hl, ho, ho1, ho2⟩ := T.block j
  have : d.year = y := T.block_unique d.year y j hl hy (by omega) (by omega) h1 h2
  exact ⟨d, hd, this, by rw [← this]; exact ho⟩

include T in
/-- **C10: the successor of the date of day `j` is the date of day `j+1`, and is absent
exactly at the top of the 32-bit range** -/
theorem succ_spec (j : Int) (hj : InI32 j) (d : Date) (h : c.atJdn? j = some d) :
    d.succ = if j = 2147483647 then none else c.atJdn? (j + 1) := by
  obtain ⟨d0, hd0, hcal, hjdn, hl, ho, ho1, ho2⟩ := T.block j
  rw [h] at hd0; cases hd0
  simp only [Date.succ, hjdn, hcal]
  by_cases hmax : j = 2147483647
  · subst hmax; simp [inI32]
  · rw [if_neg hmax]
    have hin : inI32 (j + 1) = true := by
      simp only [inI32, Bool.and_eq_true, decide_eq_true_eq, InI32] at *; omega
    simp only [hin, Bool.not_true, Bool.false_eq_true, if_false]
    by_cases hlast : d.ordinal + 1 ≤ c.yearLength d.year
    · -- the next day is in the same year
      obtain ⟨d2, hd2, hy2, ho2'⟩ := T.atJdn_of_block d.year (j + 1) hl (by omega) (by omega)
      obtain ⟨hc2, hj2, hp2⟩ := atJdn?_parts c (j + 1) d2 hd2
      have e : d2.ordinal = d.ordinal + 1 := by omega
      rw [hy2, e] at hp2
      rw [hp2, hd2]
      simp only
      congr 1
      cases d2; simp only at *; subst hc2 hj2 hy2 e; rfl
    · -- the next day is the first day of the next year that has dates
      have herr : c.ordinal2ymddo d.year (d.ordinal + 1)
          = .error (.ordinalOutOfRange d.year (d.ordinal + 1) (c.yearLength d.year)) := by
        simp only [Calendar.ordinal2ymddo]
        have : (decide (d.ordinal + 1 < 1) || decide (d.ordinal + 1 > c.yearLength d.year)) = true := by
          simp; omega
        rw [this]; simp
      obtain ⟨hn1, hn2⟩ := T.next d.year hl
      have hpos := T.pos _ hn2
      obtain ⟨d2, hd2, hy2, ho2'⟩ :=
        T.atJdn_of_block (c.nextYearAfter d.year) (j + 1) hn2 (by omega) (by omega)
      obtain ⟨hc2, hj2, hp2⟩ := atJdn?_parts c (j + 1) d2 hd2
      have e : d2.ordinal = 1 := by omega
      rw [hy2, e] at hp2
      rw [herr]
      simp only
      rw [hp2, hd2]
      simp only
      congr 1
      cases d2; simp only at *; subst hc2 hj2 hy2 e; rfl

include T in
/-- **C10: the predecessor of the date of day `j` is the date of day `j-1`, and is absent
exactly at the bottom of the 32-bit range** -/
theorem pred_spec (j : Int) (hj : InI32 j) (d : Date) (h : c.atJdn? j = some d) :
    d.pred = if j = -2147483648 then none else c.atJdn? (j - 1) := by
  obtain ⟨d0, hd0, hcal, hjdn, hl, ho, ho1, ho2⟩ := T.block j
  rw [h] at hd0; cases hd0
  simp only [Date.pred, hjdn, hcal]
  by_cases hmin : j = -2147483648
  · subst hmin; simp [inI32]
  · rw [if_neg hmin]
    have hin : inI32 (j - 1) = true := by
      simp only [inI32, Bool.and_eq_true, decide_eq_true_eq, InI32] at *; omega
    simp only [hin, Bool.not_true, Bool.false_eq_true, if_false]
    by_cases hfirst : d.ordinal > 1
    · rw [if_pos hfirst]
      obtain ⟨d2, hd2, hy2, ho2'⟩ := T.atJdn_of_block d.year (j - 1) hl (by omega) (by omega)
      obtain ⟨hc2, hj2, hp2⟩ := atJdn?_parts c (j - 1) d2 hd2
      have e : d2.ordinal = d.ordinal - 1 := by omega
      rw [hy2, e] at hp2
      simp only
      rw [hp2, hd2]
      simp only
      congr 1
      cases d2; simp only at *; subst hc2 hj2 hy2 e; rfl
    · rw [if_neg hfirst]
      obtain ⟨hp1, hpl⟩ := T.prev d.year hl
      have hpos := T.pos _ hpl
      obtain ⟨d2, hd2, hy2, ho2'⟩ :=
        T.atJdn_of_block (c.prevYearBefore d.year) (j - 1) hpl (by omega) (by omega)
      obtain ⟨hc2, hj2, hp2⟩ := atJdn?_parts c (j - 1) d2 hd2
      have e : d2.ordinal = c.yearLength (c.prevYearBefore d.year) := by omega
      rw [hy2, e] at hp2
      simp only
      rw [hp2, hd2]
      simp only
      congr 1
      cases d2; simp only at *; subst hc2 hj2 hy2 e; rfl

end YearTiling
end JV
