/-
Lemmas/ReformLength.lean — L3: `year_length` of a reforming calendar, and that it is the
sum of the month lengths (the lemma defect D1 violated).
-/
import JulianVerif.Lemmas.ReformSums
set_option linter.unusedSimpArgs false
namespace JV
open Spec

namespace Reform
variable (rf : Reform)

/-- the final `match` of `year_length` -/
def lenOfKind (k : YearKind) (reformLen : Int) : Int :=
  match k with
  | .common => 365
  | .leap => 366
  | .reformCommon | .reformLeap => reformLen
  | .skipped => 0

theorem lenOfKind_reform (c : Prop) [Decidable c] (x : Int) :
    lenOfKind (if c then .reformLeap else .reformCommon) x = x := by
  split <;> rfl

theorem lenOfKind_plain (c : Bool) (x : Int) :
    lenOfKind (if c = true then .leap else .common) x = if c = true then 366 else 365 := by
  cases c <;> rfl

theorem yearLength_raw (y : Int) :
    rf.cal.yearLength y =
      lenOfKind (rf.cal.yearKind y)
        (if y = rf.yQ then
          (if leap .gregorian y then 366 else 365) - (mkGap rf.yP rf.mP rf.dP rf.yQ rf.mQ rf.dQ).ordinalGap
        else rf.oP) := by
  simp only [Calendar.yearLength, Reform.cal, isGregorianLeapYear_eq, beq_iff_eq, lenOfKind]
  rfl

theorem ordinalGap_eq :
    (mkGap rf.yP rf.mP rf.dP rf.yQ rf.mQ rf.dQ).ordinalGap
      = if rf.yP = rf.yQ then rf.oQ - rf.oP - 1 else rf.oQ - 1 := by
  simp only [mkGap, kind_eq, oP, oQ]
  by_cases e : rf.yP = rf.yQ
  · by_cases e2 : rf.mP = rf.mQ <;> simp [e, e2]
  · by_cases e2 : rf.yP + 1 = rf.yQ <;> simp [e, e2]

theorem ordinalGapStart_eq :
    (mkGap rf.yP rf.mP rf.dP rf.yQ rf.mQ rf.dQ).ordinalGapStart
      = if rf.yP = rf.yQ then rf.oQ - 1 else 0 := by
  simp only [mkGap, kind_eq, oP, oQ]
  by_cases e : rf.yP = rf.yQ
  · by_cases e2 : rf.mP = rf.mQ <;> simp [e, e2]
  · by_cases e2 : rf.yP + 1 = rf.yQ <;> simp [e, e2]

theorem postOrdinal_eq :
    (mkGap rf.yP rf.mP rf.dP rf.yQ rf.mQ rf.dQ).postReform.ordinal
      = if rf.yP = rf.yQ then rf.oP + 1 else 1 := by
  simp only [mkGap, kind_eq, oP, oQ]
  by_cases e : rf.yP = rf.yQ
  · by_cases e2 : rf.mP = rf.mQ <;> simp [e, e2]
  · by_cases e2 : rf.yP + 1 = rf.yQ <;> simp [e, e2]

theorem yearLength_lt (y : Int) (h : y < rf.yP) : rf.cal.yearLength y = yearLen .julian y := by
  rw [yearLength_raw, yearKind_lt rf y h, lenOfKind_plain]; rfl

theorem yearLength_gt (y : Int) (h : rf.yQ < y) : rf.cal.yearLength y = yearLen .gregorian y := by
  rw [yearLength_raw, yearKind_gt rf y h, lenOfKind_plain]; rfl

theorem yearLength_between (y : Int) (h1 : rf.yP < y) (h2 : y < rf.yQ) : rf.cal.yearLength y = 0 := by
  rw [yearLength_raw, yearKind_between rf y h1 h2]; rfl

/-- the year of the last Julian date, reformation crossing a year end: its Julian days -/
theorem yearLength_yP (h : rf.yP < rf.yQ) : rf.cal.yearLength rf.yP = rf.oP := by
  have hne : ¬ rf.yP = rf.yQ := by omega
  rw [yearLength_raw, yearKind_lower rf h]
  by_cases c : rf.mP = .december ∧ rf.dP = 31
  · rw [if_pos c, lenOfKind_plain]
    simp only [oP, c.1, c.2]
    cases leap .julian rf.yP <;> simp [daysBefore]
  · rw [if_neg c, lenOfKind_reform, if_neg hne]

/-- the year of the first Gregorian date -/
theorem yearLength_yQ : rf.cal.yearLength rf.yQ = rf.oP' + yearLen .gregorian rf.yQ - rf.oQ + 1 := by
  have hle := rf.yP_le_yQ
  rw [yearLength_raw]
  rcases Int.lt_or_eq_of_le hle with h | h
  · have hne : ¬ rf.yP = rf.yQ := by omega
    rw [yearKind_upper rf h, ordinalGap_eq]
    simp only [oP', hne, if_false, yearLen, if_true]
    by_cases c : rf.mQ = .january ∧ rf.dQ = 1
    · rw [if_pos c, lenOfKind_plain]
      have hoQ : rf.oQ = 1 := by
        simp only [oQ, c.1, c.2]; cases leap .gregorian rf.yQ <;> simp [daysBefore]
      omega
    · rw [if_neg c, lenOfKind_reform]; omega
  · have e := yearKind_both rf h
    rw [h] at e
    rw [e, lenOfKind_reform, ordinalGap_eq]
    simp only [oP', h, if_true, yearLen]; omega

/-- **C08: the year length is the sum of the month lengths** -/
theorem yearLength_eq_sumAll (y : Int) : rf.cal.yearLength y = rf.cal.sumAll y Month.all := by
  have hle := rf.yP_le_yQ
  rcases Int.lt_trichotomy y rf.yP with h1 | h1 | h1
  · rw [yearLength_lt rf y h1, (rf.wholeJ y h1).sumAll]; rfl
  · subst h1
    rcases Int.lt_or_eq_of_le hle with h2 | h2
    · rw [yearLength_yP rf h2, sumAll_yP rf h2]
    · rw [h2, yearLength_yQ, sumAll_yQ]
  · rcases Int.lt_trichotomy y rf.yQ with h2 | h2 | h2
    · rw [yearLength_between rf y h1 h2, sumAll_all]
      have : ∀ m, rf.cal.lenOf y m = 0 := by
        intro m
        have := Month.number_bounds m; have := Month.number_bounds rf.mP
        have := Month.number_bounds rf.mQ
        exact rf.lenOf_between y m (by simp only [ymKey]; omega) (by simp only [ymKey]; omega)
      rw [prefixSum_congr_before _ (fun _ => 0) _ (fun m _ => this m), prefixSum_zero, this]
      rfl
    · subst h2; rw [yearLength_yQ, sumAll_yQ]
    · rw [yearLength_gt rf y h2, (rf.wholeG y h2).sumAll]; rfl

end Reform
end JV
