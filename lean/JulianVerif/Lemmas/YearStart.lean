/-
Lemmas/YearStart.lean — years tile the line: monotonicity and uniqueness of labels.
-/
import JulianVerif.Lemmas.Months
namespace JV
open Spec

theorem yearLen_bounds (ρ : Rule) (y : Int) : 365 ≤ yearLen ρ y ∧ yearLen ρ y ≤ 366 := by
  simp only [yearLen]; split <;> omega

theorem yearStart_add_nat (ρ : Rule) (y : Int) (n : Nat) :
    yearStart ρ y + 365 * n ≤ yearStart ρ (y + n) := by
  induction n with
  | zero => simp
  | succ k ih =>
    have h := yearStart_succ ρ (y + k)
    have hb := yearLen_bounds ρ (y + k)
    have e : y + ((k + 1 : Nat) : Int) = y + k + 1 := by omega
    rw [e, h]
    have : ((k + 1 : Nat) : Int) = k + 1 := by omega
    omega

/-- January 1 of a later year is at least a year's length later -/
theorem yearStart_lt (ρ : Rule) (y y' : Int) (h : y < y') :
    yearStart ρ y + yearLen ρ y ≤ yearStart ρ y' := by
  obtain ⟨n, hn⟩ : ∃ n : Nat, y' = y + 1 + n := ⟨(y' - y - 1).toNat, by omega⟩
  subst hn
  have h1 := yearStart_add_nat ρ (y + 1) n
  have h2 := yearStart_succ ρ y
  omega

theorem yearStart_mono (ρ : Rule) (y y' : Int) (h : y ≤ y') : yearStart ρ y ≤ yearStart ρ y' := by
  rcases Int.lt_or_eq_of_le h with h | h
  · have := yearStart_lt ρ y y' h
    have := yearLen_bounds ρ y
    omega
  · subst h; exact Int.le_refl _

theorem jdnOf_bounds (ρ : Rule) (y : Int) (m : Month) (d : Int) (hv : ValidYMD ρ y m d) :
    yearStart ρ y ≤ jdnOf ρ y m d ∧ jdnOf ρ y m d < yearStart ρ y + yearLen ρ y := by
  have hb := daysBefore_bounds (leap ρ y) m
  simp only [jdnOf, ValidYMD, yearLen] at *
  omega

/-- a day number has at most one label under a given rule -/
theorem isDate_unique {ρ : Rule} {j y y' : Int} {m m' : Month} {d d' : Int}
    (h : IsDate ρ j y m d) (h' : IsDate ρ j y' m' d') : y = y' ∧ m = m' ∧ d = d' := by
  obtain ⟨hv, hj⟩ := h
  obtain ⟨hv', hj'⟩ := h'
  have b := jdnOf_bounds ρ y m d hv
  have b' := jdnOf_bounds ρ y' m' d' hv'
  have hy : y = y' := by
    rcases Int.lt_trichotomy y y' with c | c | c
    · have := yearStart_lt ρ y y' c; omega
    · exact c
    · have := yearStart_lt ρ y' y c; omega
  subst hy
  simp only [jdnOf] at hj hj'
  have := daysBefore_inj (leap ρ y) m m' d d' hv.1 hv.2 hv'.1 hv'.2 (by omega)
  exact ⟨rfl, this.1, this.2⟩

/-- labels increase strictly with the day number (under one rule) -/
theorem isDate_lt {ρ : Rule} {j j' y y' : Int} {m m' : Month} {d d' : Int}
    (h : IsDate ρ j y m d) (h' : IsDate ρ j' y' m' d') (hlt : j < j') :
    y < y' ∨ (y = y' ∧ (m.number < m'.number ∨ (m = m' ∧ d < d'))) := by
  obtain ⟨hv, hj⟩ := h
  obtain ⟨hv', hj'⟩ := h'
  have b := jdnOf_bounds ρ y m d hv
  have b' := jdnOf_bounds ρ y' m' d' hv'
  rcases Int.lt_trichotomy y y' with c | c | c
  · exact Or.inl c
  · subst c
    refine Or.inr ⟨rfl, ?_⟩
    simp only [jdnOf] at hj hj'
    exact (daysBefore_lt_iff (leap ρ y) m m' d d' hv.1 hv.2 hv'.1 hv'.2).mp (by omega)
  · have := yearStart_lt ρ y' y c; omega

end JV
