/-
Lemmas/CliRun.lean — `Options::run` of the julian command: one line per argument or none,
never a panic for a well-formed calendar.
-/
import JulianVerif.Model.Cli
import JulianVerif.Lemmas.AtJdn
set_option linter.unusedSimpArgs false
namespace JV
namespace Cli
open Spec

/-- what one argument contributes: its output line, a parse failure (`false`) or a panic
(`true`) -/
def argLine (o : Options) (arg : String) : Except Bool String :=
  match o.parseArg arg with
  | none => .error false
  | some (.date d) => .ok (o.dateToJdn d)
  | some (.jdn j) =>
    match o.jdnToDate j with
    | some s => .ok s
    | none => .error true

/-- all lines, or the first failure -/
def argLines (o : Options) : List String → Except Bool (List String)
  | [] => .ok []
  | a :: as =>
    match argLine o a with
    | .error e => .error e
    | .ok l =>
      match argLines o as with
      | .error e => .error e
      | .ok ls => .ok (l :: ls)

theorem foldl_error (o : Options) (args : List String) (e : Bool) :
    args.foldl (runStep o) (.error e) = .error e := by
  induction args with
  | nil => rfl
  | cons a as ih => simp only [List.foldl_cons, runStep]; exact ih

theorem foldl_spec (o : Options) (args : List String) (acc : List String) :
    args.foldl (runStep o) (.ok acc)
      = (match argLines o args with
         | .ok ls => .ok (acc ++ ls)
         | .error e => .error e) := by
  induction args generalizing acc with
  | nil => simp [argLines]
  | cons a as ih =>
    simp only [List.foldl_cons, runStep, argLines, argLine]
    cases hp : o.parseArg a with
    | none => simp only [foldl_error]
    | some x =>
      cases x with
      | date d =>
        simp only
        rw [ih]
        cases argLines o as <;> simp
      | jdn j =>
        simp only
        cases hj : o.jdnToDate j with
        | none => simp only [foldl_error]
        | some s =>
          simp only
          rw [ih]
          cases argLines o as <;> simp

/-- `Options::run`, in terms of the per-argument lines -/
theorem run_eq (o : Options) (today : Int) (args : List String) :
    o.run today args =
      (let head := if o.json then [jsonStart o.calendar] else []
       let body : Except Bool (List String) :=
         if args.isEmpty then
           match o.calendar.atJdn? today with
           | some d => .ok [o.dateToJdn d]
           | none => .error true
         else argLines o args
       match body with
       | .error true => .panic
       | .error false => .error
       | .ok lines => .ok (if o.json then jsonPatch (head ++ lines) else head ++ lines)) := by
  have hf : args.foldl (runStep o) (.ok []) = argLines o args := by
    have e := foldl_spec o args []
    simp only [List.nil_append] at e
    have e2 : (match argLines o args with
         | .ok ls => (.ok ls : Except Bool (List String))
         | .error e => .error e) = argLines o args := by cases argLines o args <;> rfl
    rw [e2] at e
    exact e
  simp only [Options.run]
  rw [hf]
  rfl

theorem argLines_length (o : Options) (args ls : List String) (h : argLines o args = .ok ls) :
    ls.length = args.length := by
  induction args generalizing ls with
  | nil => simp only [argLines] at h; cases h; rfl
  | cons a as ih =>
    simp only [argLines] at h
    cases ha : argLine o a with
    | error e => rw [ha] at h; cases h
    | ok l =>
      rw [ha] at h
      simp only at h
      cases hr : argLines o as with
      | error e => rw [hr] at h; cases h
      | ok ls' =>
        rw [hr] at h
        cases h
        simp [ih ls' hr]

/-- with a well-formed calendar no argument makes `at_jdn` panic -/
theorem argLine_no_panic (o : Options) (hwf : WF o.calendar) (a : String) :
    argLine o a ≠ .error true := by
  simp only [argLine]
  cases o.parseArg a with
  | none => intro h; cases h
  | some x =>
    cases x with
    | date d => intro h; cases h
    | jdn j =>
      obtain ⟨d, hd, _⟩ := atJdn_total o.calendar hwf j
      simp only [Options.jdnToDate, hd]
      intro h; cases h

theorem argLines_no_panic (o : Options) (hwf : WF o.calendar) (args : List String) :
    argLines o args ≠ .error true := by
  induction args with
  | nil => intro h; cases h
  | cons a as ih =>
    simp only [argLines]
    cases ha : argLine o a with
    | error e =>
      cases e
      · intro h; cases h
      · exact absurd ha (argLine_no_panic o hwf a)
    | ok l =>
      simp only
      cases hr : argLines o as with
      | error e =>
        cases e
        · intro h; cases h
        · exact absurd hr ih
      | ok ls => intro h; cases h

/-- **`Options::run` never panics for a well-formed calendar** -/
theorem run_no_panic (o : Options) (hwf : WF o.calendar) (today : Int) (args : List String) :
    (match o.run today args with | .panic => False | _ => True) := by
  rw [run_eq]
  simp only
  by_cases he : args.isEmpty = true
  · obtain ⟨d, hd, _⟩ := atJdn_total o.calendar hwf today
    simp only [he, if_true, hd]
  · simp only [he, if_false, Bool.false_eq_true]
    have := argLines_no_panic o hwf args
    cases h : argLines o args with
    | ok ls => simp only
    | error e =>
      cases e
      · simp only
      · exact absurd h this

end Cli
end JV
