/-
Model/Time.lean — lib.rs `unix2jdn`, `jdn2unix`, `system2jdn`, `Calendar::at_unix_time`,
`Calendar::at_system_time`.  A `SystemTime` is modelled by what
`duration_since(UNIX_EPOCH)` reveals: which side of the epoch, whole seconds (`u64`),
sub-second nanoseconds (`< 10^9`).
-/
import JulianVerif.Model.Calendar
namespace JV

def SECONDS_IN_DAY : Int := 86400
def UNIX_EPOCH_JDN : Int := 2440588
def RATA_DIE_ZERO_JDN : Int := 1721425

/-- lib.rs `unix2jdn`; `none` = `ArithmeticError` -/
def unix2jdn (unixTime : Int) : Option (Int × Int) :=
  let jd := unixTime / 86400 + 2440588
  if inI32 jd then some (jd, unixTime % 86400) else none

/-- lib.rs `jdn2unix` -/
def jdn2unix (jdn : Int) : Int := (jdn - 2440588) * 86400

/-- lib.rs `system2jdn` (after fix F7).  `before` = `duration_since` returned `Err`. -/
def system2jdn (before : Bool) (secs nanos : Int) : Option (Int × Int) :=
  if secs > 9223372036854775807 then none     -- `i64::try_from(as_secs())` fails
  else if before then unix2jdn (if nanos > 0 then -secs - 1 else -secs)
  else unix2jdn secs

/-- lib.rs `Calendar::at_unix_time`; inner `none` = `at_jdn`'s `unreachable!()` -/
def Calendar.atUnixTime? (c : Calendar) (t : Int) : Option (Option (Date × Int)) :=
  match unix2jdn t with
  | none => some none
  | some (jdn, secs) =>
    match c.atJdn? jdn with
    | some d => some (some (d, secs))
    | none => none

/-- lib.rs `Calendar::at_system_time` -/
def Calendar.atSystemTime? (c : Calendar) (before : Bool) (secs nanos : Int) :
    Option (Option (Date × Int)) :=
  match system2jdn before secs nanos with
  | none => some none
  | some (jdn, s) =>
    match c.atJdn? jdn with
    | some d => some (some (d, s))
    | none => none

end JV
