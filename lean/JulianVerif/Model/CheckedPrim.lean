/-
Model/CheckedPrim.lean — the primitives of the checked-arithmetic model: `Chk.i32 e`,
`Chk.u32 e`, `Chk.i64 e` stand for "the result of this i32 / u32 / i64 operation": the
mathematical value when it fits the type, `none` — the overflow panic of a build with
`overflow-checks` on — when it does not.
-/
import JulianVerif.Model.Time
import JulianVerif.Model.Iter
namespace JV.Chk

def i32 (x : Int) : Option Int := if inI32 x then some x else none
def u32 (x : Int) : Option Int := if inU32 x then some x else none
def i64 (x : Int) : Option Int := if inI64 x then some x else none

end JV.Chk
