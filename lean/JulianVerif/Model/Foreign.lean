/-
Model/Foreign.lean — the chrono / time boundary (lib.rs `From<chrono::NaiveDate>`,
`TryFrom<Date> for NaiveDate`, `From<time::Date>`, `TryFrom<Date> for time::Date`).

The foreign crates are modelled, not verified (DESIGN.md §10): a foreign date is a
valid proleptic-Gregorian (year, month, day) with the year inside the crate's range;
`from_ymd_opt` / `from_calendar_date` accept exactly those.
-/
import JulianVerif.Model.Calendar
namespace JV
namespace Foreign

def CHRONO_MIN_YEAR : Int := -262143
def CHRONO_MAX_YEAR : Int := 262142
def TIME_MIN_YEAR : Int := -9999
def TIME_MAX_YEAR : Int := 9999

/-- month length in the proleptic Gregorian calendar (the foreign crates' own rule) -/
def gregMonthLen (y : Int) (m : Month) : Int :=
  match m with
  | .january => 31
  | .february => if y % 4 == 0 && (y % 100 != 0 || y % 400 == 0) then 29 else 28
  | .march => 31 | .april => 30 | .may => 31 | .june => 30 | .july => 31 | .august => 31
  | .september => 30 | .october => 31 | .november => 30 | .december => 31

/-- what `NaiveDate::from_ymd_opt` / `time::Date::from_calendar_date` accept -/
def validForeign (lo hi : Int) (y m d : Int) : Option Month :=
  match Month.ofInt? m with
  | some mo => if lo ≤ y && y ≤ hi && 1 ≤ d && d ≤ gregMonthLen y mo then some mo else none
  | none => none

inductive FromRes where
  | invalid            -- the foreign constructor refused: there is no foreign value
  | panic              -- an `.expect(..)` in the `From` impl fired
  | ok (d : Date)

/-- `Date::from(NaiveDate)`: `GREGORIAN.at_ymd(..).expect(..)` -/
def fromForeign (lo hi : Int) (y m d : Int) : FromRes :=
  match validForeign lo hi y m d with
  | none => .invalid
  | some mo =>
    match Calendar.gregorian.atYmd y mo d with
    | .ok dt => .ok dt
    | .error _ => .panic

def fromChrono := fromForeign CHRONO_MIN_YEAR CHRONO_MAX_YEAR
def fromTime := fromForeign TIME_MIN_YEAR TIME_MAX_YEAR

inductive ToRes where
  | panic
  | err                -- `TryFromDateError`
  | ok (y m d : Int)

/-- `NaiveDate::try_from(Date)` -/
def toForeign (lo hi : Int) (dayFitsU8 : Bool) (d : Date) : ToRes :=
  let g? : Option Date := if !d.isGregorian then d.convertTo? .gregorian else some d
  match g? with
  | none => .panic
  | some g =>
    if dayFitsU8 && g.day > 255 then .panic      -- `unreachable!("day-of-month should fit in a u8")`
    else
      match validForeign lo hi g.year g.month.number g.day with
      | some _ => .ok g.year g.month.number g.day
      | none => .err

def toChrono := toForeign CHRONO_MIN_YEAR CHRONO_MAX_YEAR false
def toTime := toForeign TIME_MIN_YEAR TIME_MAX_YEAR true

def showFrom : FromRes → String
  | .invalid => "invalid"
  | .panic => "PANIC"
  | .ok d => s!"{d.year}/{d.ordinal}/{d.month.number}/{d.day}/{d.dayOrdinal}/{d.jdn}/G rd=1"

def showTo : ToRes → String
  | .panic => "PANIC"
  | .err => "E"
  | .ok y m d => s!"{y} {m} {d}"

end Foreign
end JV
