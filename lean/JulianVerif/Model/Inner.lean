/-
Model/Inner.lean — crates/julian/src/inner.rs, function by function.

`/` and `%` on `Int` are Lean's Euclidean division (= Rust `div_euclid` / `rem_euclid`
for the positive divisors used here); Rust's truncating `/` and `%` are `Int.tdiv`,
`Int.tmod`, written out wherever the Rust source uses the plain operators.
-/
import JulianVerif.Model.Basic
namespace JV

def JDN0_YEAR : Int := -4712
def GREGORIAN_CYCLE_DAYS : Int := 146097
def JULIAN_LEAP_CYCLE_DAYS : Int := 1461
def COMMON_YEAR_LENGTH : Int := 365
def LEAP_YEAR_LENGTH : Int := 366

/-- inner.rs `is_julian_leap_year`: `year % 4 == 0` (truncating remainder) -/
def isJulianLeapYear (year : Int) : Bool := year.tmod 4 == 0

/-- inner.rs `is_gregorian_leap_year` -/
def isGregorianLeapYear (year : Int) : Bool :=
  year.tmod 4 == 0 && (year.tmod 100 != 0 || year.tmod 400 == 0)

/-- inner.rs `decompose_julian` -/
def decomposeJulian (days : Int) : Int × Int :=
  let year := days / 1461 * 4
  let ordinal := days % 1461
  let ordinal := if ordinal > 365 then ordinal + (ordinal - 366) / 365 else ordinal
  let year := year + ordinal / 366
  let ordinal := ordinal.tmod 366
  (year, ordinal + 1)

/-- inner.rs `compose_julian`; `none` = the explicit overflow guard -/
def composeJulian (years ordinal : Int) : Option Int :=
  if years < -5879490
      || (years == -5879490 && ordinal < 75)
      || (years == 5879489 && ordinal > 290)
      || years > 5879489 then none
  else
    let commonDays := years * 365
    let leapDays := (years + 4 - 1) / 4
    some (commonDays + (leapDays + (ordinal - 1)))

/-- inner.rs `jdn2julian` -/
def jdn2julian (jd : Int) : Int × Int :=
  let (year, ordinal) := decomposeJulian jd
  (year + -4712, ordinal)

/-- inner.rs `julian2jdn` (`checked_sub` fails iff `year - (-4712)` leaves i32) -/
def julian2jdn (year ordinal : Int) : Option Int :=
  if inI32 (year - -4712) then composeJulian (year - -4712) ordinal else none

/-- inner.rs `jdn2gregorian` -/
def jdn2gregorian (jd : Int) : Int × Int :=
  let (offset, yearOffset) : Int × Int := if jd < 0 then (-32104, -4800) else (113993, -4400)
  let jd := jd - offset
  let quads := jd / 146097
  let quadPoint := jd % 146097
  -- `checked_sub(LEAP_YEAR_LENGTH)` on a value in 0..146096 cannot overflow; it is `Some`
  -- always, so the `if let` is modelled by the subtraction itself.
  let quadPoint := quadPoint + (quadPoint - 366).tdiv 36524
  let (ys, ordinal) := decomposeJulian quadPoint
  (quads * 400 + ys + yearOffset, ordinal)

/-- inner.rs `gregorian2jdn` -/
def gregorian2jdn (year ordinal : Int) : Option Int :=
  if year < -5884323
      || (year == -5884323 && ordinal < 135)
      || (year == 5874898 && ordinal > 154)
      || year > 5874898 then none
  else
    let centennials := (year - 1) / 100 + 48
    let quads := centennials / 4
    let ydiff := year + 4712
    let leapDays := (ydiff + (4 - 1)) / 4 - (centennials - quads)
    let yearDays := ydiff * 365
    let offset := (ordinal - 1) + 38
    some ((yearDays + offset) + leapDays)

/-- inner.rs `enum RangeOrdering` -/
inductive RangeOrdering where
  | less | eqLower | between | eqBoth | eqUpper | greater
  deriving DecidableEq, Repr, Inhabited

/-- inner.rs `cmp_int_range` (the `debug_assert!`s hold whenever `lower ≤ upper`) -/
def cmpIntRange (value lower upper : Int) : RangeOrdering :=
  if value < lower then .less
  else if lower == value then
    if value < upper then .eqLower else .eqBoth
  else
    if value < upper then .between
    else if value == upper then .eqUpper
    else .greater

/-- inner.rs `cmp_ym_range` -/
def cmpYmRange (year : Int) (month : Month) (lowerYear : Int) (lowerMonth : Month)
    (upperYear : Int) (upperMonth : Month) : RangeOrdering :=
  if year < lowerYear then .less
  else if lowerYear == year then
    if month.lt lowerMonth then .less
    else if month == lowerMonth then
      if year < upperYear || (year == upperYear && month.lt upperMonth) then .eqLower
      else .eqBoth
    else
      if year < upperYear then .between
      else
        if month.lt upperMonth then .between
        else if month == upperMonth then .eqUpper
        else .greater
  else
    if year < upperYear then .between
    else if year == upperYear then
      if month.lt upperMonth then .between
      else if month == upperMonth then .eqUpper
      else .greater
    else .greater

/-- inner.rs `struct Date` (a year/ordinal/month/day label) -/
structure IDate where
  year : Int
  ordinal : Int
  month : Month
  day : Int
  deriving DecidableEq, Repr, Inhabited

/-- inner.rs `enum GapKind` -/
inductive GapKind where
  | intraMonth | crossMonth | crossYear | multiYear
  deriving DecidableEq, Repr, Inhabited

/-- inner.rs `GapKind::for_dates` -/
def GapKind.forDates (preYear : Int) (preMonth : Month) (postYear : Int) (postMonth : Month) :
    GapKind :=
  if preYear == postYear then
    if preMonth == postMonth then .intraMonth else .crossMonth
  else if preYear + 1 == postYear then .crossYear
  else .multiYear

/-- inner.rs `struct ReformGap` -/
structure ReformGap where
  preReform : IDate
  postReform : IDate
  kind : GapKind
  ordinalGapStart : Int
  ordinalGap : Int
  deriving DecidableEq, Repr, Inhabited

def ReformGap.cmpYear (g : ReformGap) (year : Int) : RangeOrdering :=
  cmpIntRange year g.preReform.year g.postReform.year

def ReformGap.cmpYearMonth (g : ReformGap) (year : Int) (month : Month) : RangeOrdering :=
  cmpYmRange year month g.preReform.year g.preReform.month g.postReform.year g.postReform.month

/-- inner.rs `enum MonthShape` -/
inductive IShape where
  | normal (maxDay : Int)
  | headless (minDay maxDay : Int)
  | tailless (maxDay naturalMaxDay : Int)
  | gapped (gapStart gapEnd maxDay : Int)
  deriving DecidableEq, Repr, Inhabited

end JV
