/-
Model/Text.lean — `Display for Date`, `DateParser` / `Calendar::parse_date`, and the
`FromStr` impls of `Month` and `Weekday`, over `List Char` (the Rust code is
char-indexed).  `str::parse::<i32>` / `<u32>` and `{:0N}` are modelled from their
documented behaviour (DESIGN.md appendix B); the correspondence check exercises them.
-/
import JulianVerif.Model.Calendar
namespace JV

def digitChar (n : Nat) : Char := Char.ofNat (48 + n % 10)

/-- decimal digits of `n`, most significant first, built from the right; `fuel` bounds
the number of digits -/
def digitsFuel : Nat → Nat → List Char → List Char
  | 0, _, acc => acc
  | fuel + 1, n, acc =>
    if n / 10 = 0 then digitChar n :: acc
    else digitsFuel fuel (n / 10) (digitChar n :: acc)

/-- `{}` of an unsigned integer -/
def natDigits (n : Nat) : List Char := digitsFuel (n + 1) n []

/-- `{:0w}` of an unsigned integer -/
def padNat (w : Nat) (n : Nat) : List Char :=
  let ds := natDigits n
  List.replicate (w - ds.length) '0' ++ ds

/-- `{}` of a signed integer -/
def intDigits (i : Int) : List Char :=
  if i < 0 then '-' :: natDigits i.natAbs else natDigits i.natAbs

/-- `{:0w}` of a signed integer as Rust prints it: the sign counts towards the width -/
def padIntRust (w : Nat) (i : Int) : List Char :=
  if i < 0 then '-' :: padNat (w - 1) i.natAbs else padNat w i.natAbs

/-- the year field of `Display for Date` (after fix F6): sign, then the magnitude padded
to four digits -/
def fmtYear (y : Int) : List Char :=
  if y < 0 then '-' :: padNat 4 y.natAbs else padNat 4 y.natAbs

/-- `format!("{}", date)` -/
def fmtDate (d : Date) : List Char :=
  fmtYear d.year ++ ['-'] ++ padNat 2 d.month.number.toNat ++ ['-'] ++ padNat 2 d.day.toNat

/-- `format!("{:#}", date)` -/
def fmtDateAlt (d : Date) : List Char :=
  fmtYear d.year ++ ['-'] ++ padNat 3 d.ordinal.toNat

/-- errors.rs `ParseDateError`; `parseInt` carries no payload (std's error text is not
modelled) -/
inductive ParseDateError where
  | invalidDate (e : DateError)
  | invalidMonth (value : Int)
  | trailing
  | invalidIntStart (got : Char)
  | invalidUIntStart (got : Char)
  | emptyInt
  | unexpectedChar (expected got : Char)
  | unexpectedEnd (expected : Char)
  | parseInt
  deriving DecidableEq, Repr, Inhabited

def isAsciiDigit (c : Char) : Bool := decide ('0' ≤ c) && decide (c ≤ '9')

def digitVal (c : Char) : Nat := c.toNat - 48

/-- value of a string of ASCII digits -/
def digitsVal : List Char → Nat → Nat
  | [], acc => acc
  | c :: cs, acc => digitsVal cs (acc * 10 + digitVal c)

/-! Primitives of `core::str` and of inner.rs `scan`, as the generated date parser (Model/GenLib.lean)
uses them; a `&str` that is parsed character by character is a `List Char` (DESIGN.md appendix B). -/
namespace Str

/-- `str::strip_prefix(char)` -/
def stripPrefixChar (s : List Char) (c : Char) : Option (List Char) :=
  match s with
  | x :: r => if x == c then some r else none
  | [] => none

/-- inner.rs `scan(s, predicate)`: `s` split before the first character the predicate refuses
(`char_indices().find(..)` stops calling it there; the split point it finds is a character boundary
by construction, so `split_at` cannot panic).  The predicate is an `FnMut`: it is given the values of
the variables it captured mutably and returns their new values with its answer. -/
def scanSt {σ : Type} (p : σ → Char → Bool × σ) (st : σ) : List Char → (List Char × List Char) × σ
  | [] => (([], []), st)
  | c :: cs =>
    match p st c with
    | (true, st') =>
      match scanSt p st' cs with
      | ((ds, rest), st'') => ((c :: ds, rest), st'')
    | (false, st') => (([], c :: cs), st')

/-! The pieces inner.rs `scan` itself is made of (`s.char_indices().find(..)`, `s.len()`, `s.split_at(..)`),
with byte offsets as in Rust; `Lemmas/GenText.lean` proves that the generated `scan` built from them never
faults and is `scanSt`. -/

/-- the number of bytes of a character's UTF-8 encoding -/
def cbytes (c : Char) : Int := (c.utf8Size : Nat)

/-- `str::len` (in bytes) -/
def byteLen : List Char → Int
  | [] => 0
  | c :: cs => cbytes c + byteLen cs

def charIndicesFrom (off : Int) : List Char → List (Int × Char)
  | [] => []
  | c :: cs => (off, c) :: charIndicesFrom (off + cbytes c) cs

/-- `str::char_indices`: each character with the byte offset at which it starts -/
def charIndices (s : List Char) : List (Int × Char) := charIndicesFrom 0 s

/-- `Iterator::find` with an `FnMut` predicate: the first item it accepts; it is not called again after -/
def findSt {σ α : Type} (p : σ → α → Bool × σ) (st : σ) : List α → Option α × σ
  | [] => (none, st)
  | x :: xs =>
    match p st x with
    | (true, st') => (some x, st')
    | (false, st') => findSt p st' xs

/-- `str::split_at(mid)`; `none` = its panic: `mid` is past the end or not on a character boundary -/
def splitAt (s : List Char) (mid : Int) : Option (List Char × List Char) :=
  if mid = 0 then some ([], s)
  else
    match s with
    | [] => none
    | c :: cs =>
      if mid < cbytes c then none
      else (splitAt cs (mid - cbytes c)).map fun r => (c :: r.1, r.2)

/-- a non-empty run of ASCII digits and its value -/
def parseDigits (ds : List Char) : Option Nat :=
  if ds.isEmpty then none else if ds.all isAsciiDigit then some (digitsVal ds 0) else none

/-- `<u32 as FromStr>::from_str`: an optional `+`, then digits; `none` = any `ParseIntError` -/
def parseU32 (s : List Char) : Option Int :=
  let ds := match s with
    | '+' :: r => r
    | _ => s
  match parseDigits ds with
  | some n => if n ≤ 4294967295 then some (n : Int) else none
  | none => none

/-- `<i32 as FromStr>::from_str`: an optional sign, then digits; `none` = any `ParseIntError` -/
def parseI32 (s : List Char) : Option Int :=
  match s with
  | '-' :: r =>
    match parseDigits r with
    | some n => if inI32 (-(n : Int)) then some (-(n : Int)) else none
    | none => none
  | '+' :: r =>
    match parseDigits r with
    | some n => if inI32 (n : Int) then some (n : Int) else none
    | none => none
  | _ =>
    match parseDigits s with
    | some n => if inI32 (n : Int) then some (n : Int) else none
    | none => none

end Str

/-- inner.rs `scan` with the predicate `is_ascii_digit`: longest digit prefix and rest -/
def spanDigits : List Char → List Char × List Char
  | [] => ([], [])
  | c :: cs =>
    if isAsciiDigit c then
      let (ds, rest) := spanDigits cs
      (c :: ds, rest)
    else ([], c :: cs)

/-- inner.rs `DateParser::parse_uint` -/
def parseUInt (s : List Char) : Except ParseDateError (Int × List Char) :=
  match spanDigits s with
  | ([], _) =>
    match s with
    | got :: _ => .error (.invalidUIntStart got)
    | [] => .error .emptyInt
  | (ds, rest) =>
    -- `numstr.parse::<u32>()`: digits only here, so the only failure is overflow
    let n := digitsVal ds 0
    if n ≤ 4294967295 then .ok (n, rest) else .error .parseInt

/-- inner.rs `DateParser::parse_int` -/
def parseInt (s : List Char) : Except ParseDateError (Int × List Char) :=
  match s with
  | [] => .error .emptyInt
  | c :: cs =>
    if c == '-' || c == '+' then
      let (ds, rest) := spanDigits cs
      -- `numstr` is the sign followed by `ds`; `parse::<i32>()` rejects a lone sign
      if ds.isEmpty then .error .parseInt
      else
        let n : Int := digitsVal ds 0
        let v : Int := if c == '-' then -n else n
        if inI32 v then .ok (v, rest) else .error .parseInt
    else if isAsciiDigit c then
      let (ds, rest) := spanDigits (c :: cs)
      let n : Int := digitsVal ds 0
      if inI32 n then .ok (n, rest) else .error .parseInt
    else .error (.invalidIntStart c)

/-- inner.rs `DateParser::scan_char` -/
def scanChar (ch : Char) (s : List Char) : Except ParseDateError (List Char) :=
  match s with
  | c :: cs => if c == ch then .ok cs else .error (.unexpectedChar ch c)
  | [] => .error (.unexpectedEnd ch)

/-- inner.rs `enum DayInYear` -/
inductive DayInYear where
  | ordinal (o : Int)
  | date (month : Month) (day : Int)
  deriving DecidableEq, Repr

/-- inner.rs `DateParser::parse_day_in_year` -/
def parseDayInYear (s : List Char) : Except ParseDateError (DayInYear × List Char) :=
  match parseUInt s with
  | .error e => .error e
  | .ok (field1, rest) =>
    if rest.isEmpty then .ok (.ordinal field1, rest)
    else
      match Month.ofInt? field1 with
      | none => .error (.invalidMonth field1)
      | some month =>
        match scanChar '-' rest with
        | .error e => .error e
        | .ok rest =>
          match parseUInt rest with
          | .error e => .error e
          | .ok (day, rest) => .ok (.date month day, rest)

/-- lib.rs `Calendar::parse_date` -/
def Calendar.parseDate (c : Calendar) (s : List Char) : Except ParseDateError Date :=
  match parseInt s with
  | .error e => .error e
  | .ok (year, rest) =>
    match scanChar '-' rest with
    | .error e => .error e
    | .ok rest =>
      match parseDayInYear rest with
      | .error e => .error e
      | .ok (diny, rest) =>
        if !rest.isEmpty then .error .trailing
        else
          match diny with
          | .ordinal ordinal =>
            match c.atOrdinalDate year ordinal with
            | .ok d => .ok d
            | .error e => .error (.invalidDate e)
          | .date month day =>
            match c.atYmd year month day with
            | .ok d => .ok d
            | .error e => .error (.invalidDate e)

/-- `char::to_ascii_lowercase` -/
def asciiLower (c : Char) : Char :=
  if decide ('A' ≤ c) && decide (c ≤ 'Z') then Char.ofNat (c.toNat + 32) else c

/-- `str::eq_ignore_ascii_case` -/
def eqIgnoreAsciiCase (a b : List Char) : Bool := a.map asciiLower == b.map asciiLower

/-- lib.rs `impl FromStr for Month` -/
def Month.fromStr (s : List Char) : Option Month :=
  Month.all.find? fun m =>
    eqIgnoreAsciiCase s m.name.toList || eqIgnoreAsciiCase s m.shortName.toList

/-- lib.rs `impl FromStr for Weekday` (tries Sunday first; names are pairwise distinct) -/
def Weekday.fromStr (s : List Char) : Option Weekday :=
  (Weekday.sunday :: Weekday.all.dropLast).find? fun w =>
    eqIgnoreAsciiCase s w.name.toList || eqIgnoreAsciiCase s w.shortName.toList

end JV
