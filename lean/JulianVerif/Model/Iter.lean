/-
Model/Iter.lean — crates/julian/src/iter.rs.  `core::ops::RangeInclusive<u32>` is
modelled from core's implementation (DESIGN.md appendix B): a triple
(start, end, exhausted).
-/
import JulianVerif.Model.Calendar
namespace JV

structure RangeIncl where
  start : Int
  stop : Int
  exhausted : Bool
  deriving DecidableEq, Repr, Inhabited

namespace RangeIncl

def new (a b : Int) : RangeIncl := ⟨a, b, false⟩

def isEmpty (r : RangeIncl) : Bool := r.exhausted || decide (r.start > r.stop)

def next (r : RangeIncl) : Option Int × RangeIncl :=
  if r.isEmpty then (none, r)
  else if r.start < r.stop then (some r.start, { r with start := r.start + 1 })
  else (some r.start, { r with exhausted := true })

def nextBack (r : RangeIncl) : Option Int × RangeIncl :=
  if r.isEmpty then (none, r)
  else if r.start < r.stop then (some r.stop, { r with stop := r.stop - 1 })
  else (some r.stop, { r with exhausted := true })

/-- `size_hint().0` = `len()` -/
def len (r : RangeIncl) : Int := if r.isEmpty then 0 else r.stop - r.start + 1

end RangeIncl

/-- iter.rs `struct Days` -/
structure Days where
  shape : MonthShape
  inner : RangeIncl
  deriving Repr

namespace Days
def new (s : MonthShape) : Days := ⟨s, RangeIncl.new 1 s.len⟩
/-- `self.month_shape.nth_day(self.inner.next()?)` -/
def next (it : Days) : Option Int × Days :=
  match it.inner.next with
  | (none, r) => (none, { it with inner := r })
  | (some n, r) => (it.shape.nthDay n, { it with inner := r })
def nextBack (it : Days) : Option Int × Days :=
  match it.inner.nextBack with
  | (none, r) => (none, { it with inner := r })
  | (some n, r) => (it.shape.nthDay n, { it with inner := r })
def len (it : Days) : Int := it.inner.len
end Days

/-- iter.rs `struct Dates` -/
structure Dates where
  shape : MonthShape
  inner : RangeIncl
  deriving Repr

namespace Dates

/-- first `while` loop of `Dates::new` (fix F5) -/
def trimStart (s : MonthShape) : Nat → Int → Int → Int
  | 0, start, _ => start
  | fuel + 1, start, stop =>
    if start ≤ stop && (s.nthDate start).isNone then trimStart s fuel (start + 1) stop else start

/-- second `while` loop of `Dates::new` -/
def trimEnd (s : MonthShape) : Nat → Int → Int → Int
  | 0, _, stop => stop
  | fuel + 1, start, stop =>
    if start ≤ stop && (s.nthDate stop).isNone then trimEnd s fuel start (stop - 1) else stop

def new (s : MonthShape) : Dates :=
  let stop := s.len
  let fuel := stop.toNat + 1
  let start := trimStart s fuel 1 stop
  let stop := trimEnd s fuel start stop
  ⟨s, RangeIncl.new start stop⟩

def next (it : Dates) : Option Date × Dates :=
  match it.inner.next with
  | (none, r) => (none, { it with inner := r })
  | (some n, r) => (it.shape.nthDate n, { it with inner := r })
def nextBack (it : Dates) : Option Date × Dates :=
  match it.inner.nextBack with
  | (none, r) => (none, { it with inner := r })
  | (some n, r) => (it.shape.nthDate n, { it with inner := r })
def len (it : Dates) : Int := it.inner.len
end Dates

/-- iter.rs `struct MonthIter` over `1..=12`; the `.expect(..)` is the `none` of the
inner option -/
structure MonthIter where
  inner : RangeIncl
  deriving Repr

namespace MonthIter
def new : MonthIter := ⟨RangeIncl.new 1 12⟩
/-- outer `none` = iterator exhausted; `some none` = the `.expect` panicked -/
def next (it : MonthIter) : Option (Option Month) × MonthIter :=
  match it.inner.next with
  | (none, r) => (none, ⟨r⟩)
  | (some n, r) => (some (Month.ofInt? n), ⟨r⟩)
def nextBack (it : MonthIter) : Option (Option Month) × MonthIter :=
  match it.inner.nextBack with
  | (none, r) => (none, ⟨r⟩)
  | (some n, r) => (some (Month.ofInt? n), ⟨r⟩)
def len (it : MonthIter) : Int := it.inner.len
end MonthIter

/-- iter.rs `Later::next`: `self.date = self.date.and_then(|d| d.succ()); self.date` -/
def laterNext (st : Option Date) : Option Date × Option Date :=
  let d := st.bind Date.succ
  (d, d)

def earlierNext (st : Option Date) : Option Date × Option Date :=
  let d := st.bind Date.pred
  (d, d)

/-- iter.rs `AndLater::next`: `let date = self.date?; self.date = date.succ(); Some(date)` -/
def andLaterNext (st : Option Date) : Option Date × Option Date :=
  match st with
  | none => (none, none)
  | some d => (some d, d.succ)

def andEarlierNext (st : Option Date) : Option Date × Option Date :=
  match st with
  | none => (none, none)
  | some d => (some d, d.pred)

end JV
