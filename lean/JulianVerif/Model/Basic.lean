/-
Model/Basic.lean — months, weekdays, error values and machine-integer ranges.

Core-only imports: everything under `Model/` must link into the native `driver`.
Integers are unbounded `Int`; the Rust widths appear as the predicates `InI32`,
`InU32`, `InI64` which theorems take as hypotheses or prove as conclusions.
-/
namespace JV

/-- `i32` range -/
@[reducible] def InI32 (x : Int) : Prop := -2147483648 ≤ x ∧ x ≤ 2147483647
/-- `u32` range -/
@[reducible] def InU32 (x : Int) : Prop := 0 ≤ x ∧ x ≤ 4294967295
/-- `i64` range -/
@[reducible] def InI64 (x : Int) : Prop := -9223372036854775808 ≤ x ∧ x ≤ 9223372036854775807

def inI32 (x : Int) : Bool := decide (-2147483648 ≤ x) && decide (x ≤ 2147483647)
def inU32 (x : Int) : Bool := decide (0 ≤ x) && decide (x ≤ 4294967295)
def inI64 (x : Int) : Bool := decide (-9223372036854775808 ≤ x) && decide (x ≤ 9223372036854775807)

/-- lib.rs `enum Month` -/
inductive Month where
  | january | february | march | april | may | june
  | july | august | september | october | november | december
  deriving DecidableEq, Repr, Inhabited

namespace Month

/-- lib.rs `Month::number` (`*self as u32`) -/
def number : Month → Int
  | january => 1 | february => 2 | march => 3 | april => 4 | may => 5 | june => 6
  | july => 7 | august => 8 | september => 9 | october => 10 | november => 11 | december => 12

def all : List Month :=
  [january, february, march, april, may, june, july, august, september, october, november, december]

/-- lib.rs `impl TryFrom<$t> for Month` (all twelve integer widths share this match) -/
def ofInt? : Int → Option Month
  | 1 => some january | 2 => some february | 3 => some march | 4 => some april
  | 5 => some may | 6 => some june | 7 => some july | 8 => some august
  | 9 => some september | 10 => some october | 11 => some november | 12 => some december
  | _ => none

def number0 (m : Month) : Int := m.number - 1

/-- lib.rs `Month::pred` -/
def pred : Month → Option Month
  | january => none | february => some january | march => some february | april => some march
  | may => some april | june => some may | july => some june | august => some july
  | september => some august | october => some september | november => some october
  | december => some november

/-- lib.rs `Month::succ` -/
def succ : Month → Option Month
  | january => some february | february => some march | march => some april | april => some may
  | may => some june | june => some july | july => some august | august => some september
  | september => some october | october => some november | november => some december
  | december => none

/-- private `Month::lt` / `le` / `eq` (comparison of discriminants) -/
def lt (a b : Month) : Bool := decide (a.number < b.number)
def le (a b : Month) : Bool := decide (a.number ≤ b.number)

def name : Month → String
  | january => "January" | february => "February" | march => "March" | april => "April"
  | may => "May" | june => "June" | july => "July" | august => "August"
  | september => "September" | october => "October" | november => "November"
  | december => "December"

def shortName : Month → String
  | january => "Jan" | february => "Feb" | march => "Mar" | april => "Apr"
  | may => "May" | june => "Jun" | july => "Jul" | august => "Aug"
  | september => "Sep" | october => "Oct" | november => "Nov" | december => "Dec"

end Month

/-- lib.rs `enum Weekday` -/
inductive Weekday where
  | monday | tuesday | wednesday | thursday | friday | saturday | sunday
  deriving DecidableEq, Repr, Inhabited

namespace Weekday

def number : Weekday → Int
  | monday => 1 | tuesday => 2 | wednesday => 3 | thursday => 4 | friday => 5
  | saturday => 6 | sunday => 7

def number0 (w : Weekday) : Int := w.number - 1

def all : List Weekday := [monday, tuesday, wednesday, thursday, friday, saturday, sunday]

/-- lib.rs `Weekday::try_from_const` -/
def ofInt? : Int → Option Weekday
  | 1 => some monday | 2 => some tuesday | 3 => some wednesday | 4 => some thursday
  | 5 => some friday | 6 => some saturday | 7 => some sunday
  | _ => none

/-- lib.rs `Weekday::for_jdn`: `try_from_const(jdn.rem_euclid(7) + 1)`, `None => unreachable!()`.
The unreachable arm is modelled by `none`. -/
def forJdn? (jdn : Int) : Option Weekday := ofInt? (jdn % 7 + 1)

def forJdn (jdn : Int) : Weekday := (forJdn? jdn).getD monday

def pred : Weekday → Option Weekday
  | monday => none | tuesday => some monday | wednesday => some tuesday
  | thursday => some wednesday | friday => some thursday | saturday => some friday
  | sunday => some saturday

def succ : Weekday → Option Weekday
  | monday => some tuesday | tuesday => some wednesday | wednesday => some thursday
  | thursday => some friday | friday => some saturday | saturday => some sunday
  | sunday => none

def name : Weekday → String
  | monday => "Monday" | tuesday => "Tuesday" | wednesday => "Wednesday"
  | thursday => "Thursday" | friday => "Friday" | saturday => "Saturday" | sunday => "Sunday"

def shortName : Weekday → String
  | monday => "Mon" | tuesday => "Tue" | wednesday => "Wed" | thursday => "Thu"
  | friday => "Fri" | saturday => "Sat" | sunday => "Sun"

end Weekday

/-- errors.rs `DateError`, plus `fault`: the model's name for a Rust panic
(`unreachable!()`, a failed `debug_assert!`, an overflow with checks on). -/
inductive DateError where
  | arithmetic
  | dayOutOfRange (year : Int) (month : Month) (day minDay maxDay : Int)
  | ordinalOutOfRange (year ordinal maxOrdinal : Int)
  | skippedDate (year : Int) (month : Month) (day : Int)
  | fault
  deriving DecidableEq, Repr, Inhabited

/-- errors.rs `ReformingError` -/
inductive ReformingError where
  | invalidReformation | arithmetic | fault
  deriving DecidableEq, Repr, Inhabited

/-- lib.rs `enum YearKind` -/
inductive YearKind where
  | common | leap | reformCommon | reformLeap | skipped
  deriving DecidableEq, Repr, Inhabited

namespace YearKind
def isCommon : YearKind → Bool | common | reformCommon => true | _ => false
def isLeap : YearKind → Bool | leap | reformLeap => true | _ => false
def isReform : YearKind → Bool | reformCommon | reformLeap => true | _ => false
def isSkipped : YearKind → Bool | skipped => true | _ => false
end YearKind

/-- lib.rs `enum MonthKind` -/
inductive MonthKind where
  | normal | headless | tailless | gapped
  deriving DecidableEq, Repr, Inhabited

end JV
