/-
Model/Checked.lean — the arithmetic-bearing functions of crates/julian once more, with every
machine operation made explicit.

`Chk.i32 e`, `Chk.u32 e`, `Chk.i64 e` stand for "the result of this i32 / u32 / i64
operation": they return the mathematical value when it fits the type and `none` — the
overflow panic of a build with `overflow-checks` on — when it does not.  `unreachable!()`,
`.expect()` on `None`/`Err` and `debug_assert!` failures are `none` as well.  An `as` cast is
written as the operation of the *target* type, so a cast that would change the value is a
fault too.

The inner.rs kernels are in Model/CheckedInner.lean, which is GENERATED from the Rust source by
bin/srcgen and regenerated and compared on every run.  Each function below (lib.rs) follows its
Rust source operation by operation, in source order, with the Rust types.  Lemmas/CheckedEq.lean proves that, for arguments within the parameter types
(and, for the private helpers, within the ranges their callers establish), every one of them
returns `some` of what the unbounded model (Model/Inner.lean, Model/Calendar.lean,
Model/Time.lean) computes: no operation overflows, so no answer is the product of wrapped
arithmetic.
-/
import JulianVerif.Model.CheckedInner
namespace JV.Chk

/-! ### lib.rs: `MonthShape` -/

/-- lib.rs `MonthShape::len` -/
def len : IShape → Option Int
  | .normal maxDay => pure maxDay
  | .headless minDay maxDay => do
    let a ← u32 (maxDay - minDay)
    u32 (a + 1)
  | .tailless maxDay _ => pure maxDay
  | .gapped gapStart gapEnd maxDay => do
    let a ← u32 (gapEnd - gapStart)
    let a ← u32 (a + 1)
    u32 (maxDay - a)

/-- lib.rs `MonthShape::day_ordinal_err` -/
def dayOrdinalErr (s : IShape) (year : Int) (month : Month) (day : Int) :
    Option (Except DateError Int) :=
  match s with
  | .normal maxDay =>
    if 1 ≤ day && day ≤ maxDay then pure (.ok day)
    else pure (.error (.dayOutOfRange year month day 1 maxDay))
  | .headless minDay maxDay =>
    if minDay ≤ day && day ≤ maxDay then do
      let a ← u32 (day - minDay)
      let a ← u32 (a + 1)
      pure (.ok a)
    else if 1 ≤ day && day < minDay then pure (.error (.skippedDate year month day))
    else pure (.error (.dayOutOfRange year month day minDay maxDay))
  | .tailless maxDay naturalMaxDay =>
    if 1 ≤ day && day ≤ maxDay then pure (.ok day)
    else do
      let m1 ← u32 (maxDay + 1)
      if m1 ≤ day && day ≤ naturalMaxDay then pure (.error (.skippedDate year month day))
      else pure (.error (.dayOutOfRange year month day 1 maxDay))
  | .gapped gapStart gapEnd maxDay =>
    if day == 0 || day > maxDay then pure (.error (.dayOutOfRange year month day 1 maxDay))
    else if day < gapStart then pure (.ok day)
    else if day ≤ gapEnd then pure (.error (.skippedDate year month day))
    else do
      let a ← u32 (gapEnd - gapStart)
      let a ← u32 (a + 1)
      let r ← u32 (day - a)
      pure (.ok r)

/-- lib.rs `MonthShape::nth_day` -/
def nthDay (s : IShape) (dayOrdinal : Int) : Option (Option Int) :=
  match s with
  | .normal maxDay | .tailless maxDay _ =>
    pure (if 1 ≤ dayOrdinal && dayOrdinal ≤ maxDay then some dayOrdinal else none)
  | .headless minDay maxDay =>
    if 1 ≤ dayOrdinal then do              -- `&&` evaluates its right operand only then
      let a ← u32 (maxDay - minDay)
      let a ← u32 (a + 1)
      if dayOrdinal ≤ a then do
        let b ← u32 (dayOrdinal + minDay)
        let b ← u32 (b - 1)
        pure (some b)
      else pure none
    else pure none
  | .gapped gapStart gapEnd maxDay =>
    if dayOrdinal == 0 then pure none
    else if dayOrdinal < gapStart then pure (some dayOrdinal)
    else if dayOrdinal > maxDay then pure none
    else do
      let a ← u32 (gapEnd - gapStart)
      let a ← u32 (a + 1)
      let day ← u32 (dayOrdinal + a)
      pure (if day ≤ maxDay then some day else none)

/-- lib.rs `MonthShape::gap` -/
def gap : IShape → Option (Option (Int × Int))
  | .normal _ => pure none
  | .headless minDay _ => do
    let a ← u32 (minDay - 1)
    pure (some (1, a))
  | .tailless maxDay naturalMaxDay => do
    let a ← u32 (maxDay + 1)
    pure (some (a, naturalMaxDay))
  | .gapped gapStart gapEnd _ => pure (some (gapStart, gapEnd))

/-! ### lib.rs: `Calendar` -/

/-- lib.rs `Calendar::year_length` -/
def yearLength (c : Calendar) (year : Int) : Option Int :=
  match c with
  | .julian | .gregorian =>
    match c.yearKind year with
    | .common => pure 365
    | .leap => pure 366
    | _ => none                               -- unreachable!()
  | .reforming _ gap =>
    match c.yearKind year with
    | .common => pure 365
    | .leap => pure 366
    | .reformCommon | .reformLeap =>
      if year == gap.postReform.year then
        u32 ((if isGregorianLeapYear year then 366 else 365) - gap.ordinalGap)
      else if year == gap.preReform.year then pure gap.preReform.ordinal
      else none                               -- debug_assert!(year == gap.pre_reform.year)
    | .skipped => pure 0

/-- lib.rs `Calendar::month_shape` (inner shape) -/
def monthIShape (c : Calendar) (year : Int) (month : Month) : Option (Option IShape) :=
  let length := c.naturalLength year month
  match c.gap with
  | some gap =>
    match gap.cmpYearMonth year month with
    | .eqLower | .eqBoth =>
      if gap.kind == .intraMonth then do
        let a ← u32 (gap.preReform.day + 1)
        let b ← u32 (gap.postReform.day - 1)
        pure (some (.gapped a b length))
      else if gap.preReform.day == length then pure (some (.normal length))
      else pure (some (.tailless gap.preReform.day length))
    | .between => pure none
    | .eqUpper =>
      if gap.postReform.day > 1 then pure (some (.headless gap.postReform.day length))
      else pure (some (.normal length))
    | _ => pure (some (.normal length))
  | none => pure (some (.normal length))

/-- the unrolled loop of lib.rs `ordinal2ymddo`; falling off the end is `unreachable!()` -/
def ordinal2ymddoLoop (c : Calendar) (year : Int) : List Month → Int → Option (Month × Int × Int)
  | [], _ => none
  | m :: ms, days => do
    match ← monthIShape c year m with
    | some shape =>
      match ← nthDay shape days with
      | some day => pure (m, day, days)
      | none =>
        let l ← len shape
        let days ← u32 (days - l)
        ordinal2ymddoLoop c year ms days
    | none => ordinal2ymddoLoop c year ms days

/-- lib.rs `Calendar::ordinal2ymddo` -/
def ordinal2ymddo (c : Calendar) (year ordinal : Int) :
    Option (Except DateError (Month × Int × Int)) := do
  let maxOrdinal ← yearLength c year
  if ordinal < 1 || ordinal > maxOrdinal then
    pure (.error (.ordinalOutOfRange year ordinal maxOrdinal))
  else do
    let r ← ordinal2ymddoLoop c year Month.all ordinal
    pure (.ok r)

/-- the unrolled loop of lib.rs `ymdo2ordinal`; falling off the end is `unreachable!()` -/
def ymdo2ordinalLoop (c : Calendar) (year : Int) (month : Month) (dayOrdinal : Int) :
    List Month → Int → Option Int
  | [], _ => none
  | m :: ms, result =>
    if m == month then u32 (result + dayOrdinal)
    else do
      match ← monthIShape c year m with
      | some s =>
        let l ← len s
        let result ← u32 (result + l)
        ymdo2ordinalLoop c year month dayOrdinal ms result
      | none => ymdo2ordinalLoop c year month dayOrdinal ms result

def ymdo2ordinal (c : Calendar) (year : Int) (month : Month) (dayOrdinal : Int) : Option Int :=
  ymdo2ordinalLoop c year month dayOrdinal Month.all 0

/-- lib.rs `Calendar::get_day_ordinal` -/
def getDayOrdinal (c : Calendar) (year : Int) (month : Month) (day : Int) :
    Option (Except DateError Int) := do
  match ← monthIShape c year month with
  | some shape => dayOrdinalErr shape year month day
  | none => pure (.error (.skippedDate year month day))

/-- lib.rs `Calendar::get_jdn` -/
def getJdn (c : Calendar) (year ordinal : Int) : Option (Option Int) := do
  let ordinal ←
    match c.gap with
    | some gap =>
      if year == gap.postReform.year && ordinal ≥ gap.postReform.ordinal then
        u32 (ordinal + gap.ordinalGap)
      else pure ordinal
    | none => pure ordinal
  let useJulian : Bool :=
    match c with
    | .julian => true
    | .reforming _ gap =>
      decide (year < gap.postReform.year)
        || (year == gap.postReform.year && decide (ordinal < gap.postReform.ordinal))
    | .gregorian => false
  if useJulian then julian2jdn year ordinal else gregorian2jdn year ordinal

/-- lib.rs `Calendar::at_ymd` -/
def atYmd (c : Calendar) (year : Int) (month : Month) (day : Int) :
    Option (Except DateError Date) := do
  match ← getDayOrdinal c year month day with
  | .error e => pure (.error e)
  | .ok dayOrdinal =>
    let ordinal ← ymdo2ordinal c year month dayOrdinal
    match ← getJdn c year ordinal with
    | none => pure (.error .arithmetic)
    | some jdn => pure (.ok ⟨c, year, ordinal, month, day, dayOrdinal, jdn⟩)

/-- lib.rs `Calendar::at_ordinal_date` -/
def atOrdinalDate (c : Calendar) (year ordinal : Int) : Option (Except DateError Date) := do
  match ← ordinal2ymddo c year ordinal with
  | .error e => pure (.error e)
  | .ok (month, day, dayOrdinal) =>
    match ← getJdn c year ordinal with
    | none => pure (.error .arithmetic)
    | some jdn => pure (.ok ⟨c, year, ordinal, month, day, dayOrdinal, jdn⟩)

/-- the year / day-of-year computed at the top of lib.rs `Calendar::at_jdn` -/
def jdnYearOrdinal (c : Calendar) (jdn : Int) : Option (Int × Int) := do
  let useJulian : Bool :=
    match c with
    | .julian => true
    | .reforming reformation _ => decide (jdn < reformation)
    | .gregorian => false
  let (year, ordinal) ← if useJulian then jdn2julian jdn else jdn2gregorian jdn
  match c.gap with
  | some gap =>
    if year == gap.postReform.year && ordinal > gap.ordinalGapStart then do
      let o ← u32 (ordinal - gap.ordinalGap)
      pure (year, o)
    else pure (year, ordinal)
  | none => pure (year, ordinal)

/-- lib.rs `Calendar::at_jdn` -/
def atJdn (c : Calendar) (jdn : Int) : Option Date := do
  let (year, ordinal) ← jdnYearOrdinal c jdn
  match ← ordinal2ymddo c year ordinal with
  | .ok (month, day, dayOrdinal) => pure ⟨c, year, ordinal, month, day, dayOrdinal, jdn⟩
  | .error _ => none                          -- unreachable!()

/-- lib.rs `Calendar::next_year_after` -/
def nextYearAfter (c : Calendar) (year : Int) : Option Int :=
  match c.gap with
  | some gap =>
    if year == gap.preReform.year && gap.postReform.year > gap.preReform.year then
      pure gap.postReform.year
    else i32 (year + 1)
  | none => i32 (year + 1)

/-- lib.rs `Calendar::prev_year_before` -/
def prevYearBefore (c : Calendar) (year : Int) : Option Int :=
  match c.gap with
  | some gap =>
    if year == gap.postReform.year && gap.postReform.year > gap.preReform.year then
      pure gap.preReform.year
    else i32 (year - 1)
  | none => i32 (year - 1)

/-- the `ordinal` adjusted at the top of lib.rs `Calendar::reforming` -/
def reformOrdinal (post : Date) : Option Int :=
  if post.year.tmod 100 == 0 && post.year.tmod 400 != 0 && Month.february.lt post.month
  then u32 (post.ordinal + 1) else pure post.ordinal

/-- lib.rs `Calendar::reforming` -/
def mkReforming (reformation : Int) : Option (Except ReformingError Calendar) :=
  if !inI32 (reformation - 1) then pure (.error .invalidReformation)   -- checked_sub
  else do
    let pre ← atJdn .julian (reformation - 1)
    let post ← atJdn .gregorian reformation
    let ordinal ← reformOrdinal post
    match ← getJdn .julian post.year ordinal with
    | none =>
      pure (if post.year < 0 then .error .invalidReformation else .error .arithmetic)
    | some date =>
      if date ≤ reformation then pure (.error .invalidReformation)
      else do
        let kind ← gapKindForDates pre.year pre.month post.year post.month
        let preReform : IDate := ⟨pre.year, pre.ordinal, pre.month, pre.day⟩
        let (postOrdinal, ordinalGapStart, ordinalGap) ←
          match kind with
          | .intraMonth | .crossMonth => do
            let a ← u32 (preReform.ordinal + 1)
            let b ← u32 (post.ordinal - 1)
            let g ← u32 (post.ordinal - preReform.ordinal)
            let g ← u32 (g - 1)
            pure (a, b, g)
          | _ => do
            let g ← u32 (post.ordinal - 1)
            pure ((1 : Int), (0 : Int), g)
        let postReform : IDate := ⟨post.year, postOrdinal, post.month, post.day⟩
        pure (.ok (.reforming reformation { preReform, postReform, kind, ordinalGapStart, ordinalGap }))

/-- lib.rs `Calendar::first_gregorian_date` -/
def firstGregorianDate : Calendar → Option (Option Date)
  | c@(.reforming reformation gap) => do
    let dayOrdinal ← if gap.kind == .intraMonth then u32 (gap.preReform.day + 1) else pure 1
    pure (some ⟨c, gap.postReform.year, gap.postReform.ordinal, gap.postReform.month,
          gap.postReform.day, dayOrdinal, reformation⟩)
  | _ => pure none

/-- lib.rs `Calendar::last_julian_date` -/
def lastJulianDate : Calendar → Option (Option Date)
  | c@(.reforming reformation gap) => do
    let j ← i32 (reformation - 1)
    pure (some ⟨c, gap.preReform.year, gap.preReform.ordinal, gap.preReform.month, gap.preReform.day,
          gap.preReform.day, j⟩)
  | _ => pure none

/-- lib.rs `MonthShape::nth_date` -/
def nthDate (s : MonthShape) (dayOrdinal : Int) : Option (Option Date) := do
  match ← nthDay s.inner dayOrdinal with
  | none => pure none
  | some day =>
    match ← atYmd s.calendar s.year s.month day with
    | .ok date => pure (some date)
    | .error _ => pure none

/-! ### lib.rs: `Date` -/

/-- lib.rs `Date::succ` -/
def succ (d : Date) : Option (Option Date) :=
  if !inI32 (d.jdn + 1) then pure none
  else do
    let jdn := d.jdn + 1
    let ordinal ← u32 (d.ordinal + 1)
    match ← ordinal2ymddo d.calendar d.year ordinal with
    | .ok (month, day, dayOrdinal) =>
      pure (some ⟨d.calendar, d.year, ordinal, month, day, dayOrdinal, jdn⟩)
    | .error (.ordinalOutOfRange ..) =>
      let year ← nextYearAfter d.calendar d.year
      match ← ordinal2ymddo d.calendar year 1 with
      | .ok (month, day, dayOrdinal) => pure (some ⟨d.calendar, year, 1, month, day, dayOrdinal, jdn⟩)
      | .error _ => pure none
    | .error _ => pure none

/-- lib.rs `Date::pred` -/
def pred (d : Date) : Option (Option Date) :=
  if !inI32 (d.jdn - 1) then pure none
  else do
    let jdn := d.jdn - 1
    let (year, ordinal) : Int × Int ←
      if d.ordinal > 1 then do
        let o ← u32 (d.ordinal - 1)
        pure (d.year, o)
      else do
        let year ← prevYearBefore d.calendar d.year
        let l ← yearLength d.calendar year
        pure (year, l)
    match ← ordinal2ymddo d.calendar year ordinal with
    | .ok (month, day, dayOrdinal) => pure (some ⟨d.calendar, year, ordinal, month, day, dayOrdinal, jdn⟩)
    | .error _ => pure none

/-- lib.rs `Date::day_ordinal0`, `Date::ordinal0` -/
def dayOrdinal0 (d : Date) : Option Int := u32 (d.dayOrdinal - 1)
def ordinal0 (d : Date) : Option Int := u32 (d.ordinal - 1)

/-! ### lib.rs: weekdays and timestamps -/

/-- lib.rs `Weekday::for_jdn` -/
def weekdayForJdn (jdn : Int) : Option Weekday := do
  let r ← i32 (jdn % 7)
  let r ← i32 (r + 1)
  Weekday.ofInt? r                            -- `None => unreachable!()`

/-- lib.rs `unix2jdn(unix_time: i64)` -/
def unix2jdn (unixTime : Int) : Option (Option (Int × Int)) := do
  let q ← i64 (unixTime / 86400)
  let jd ← i64 (q + 2440588)
  if -2147483648 ≤ jd && jd ≤ 2147483647 then do
    let j ← i32 jd                            -- as Jdnum
    let r ← i64 (unixTime % 86400)
    let s ← u32 r                             -- as u32
    pure (some (j, s))
  else pure none

/-- lib.rs `jdn2unix(jdn: i32) -> i64` -/
def jdn2unix (jdn : Int) : Option Int := do
  let a ← i64 (jdn - 2440588)
  i64 (a * 86400)

/-- lib.rs `system2jdn`; `secs` is the `u64` of `Duration::as_secs` -/
def system2jdn (before : Bool) (secs nanos : Int) : Option (Option (Int × Int)) :=
  if secs > 9223372036854775807 then pure none
  else if before then do
    let n ← i64 (-secs)
    let t ← if nanos > 0 then i64 (n - 1) else pure n
    unix2jdn t
  else unix2jdn secs

/-! ### iter.rs: the two trimming loops of `Dates::new` (`nth_date` itself: `Chk.nthDate`) -/

/-- `while start <= end && nth_date(start).is_none() { start += 1; }` -/
def trimStart (s : MonthShape) : Nat → Int → Int → Option Int
  | 0, start, _ => pure start
  | fuel + 1, start, stop =>
    if start ≤ stop && (s.nthDate start).isNone then do
      let start ← u32 (start + 1)
      trimStart s fuel start stop
    else pure start

/-- `while start <= end && nth_date(end).is_none() { end -= 1; }` -/
def trimEnd (s : MonthShape) : Nat → Int → Int → Option Int
  | 0, _, stop => pure stop
  | fuel + 1, start, stop =>
    if start ≤ stop && (s.nthDate stop).isNone then do
      let stop ← u32 (stop - 1)
      trimEnd s fuel start stop
    else pure stop

end JV.Chk
