/-
Model/Cli.lean — crates/julian-cli/src/main.rs: the lexopt 0.3.1 parser state machine
(unix path, modelled from its source; DESIGN.md appendix B), `Command::from_parser`,
`Options::run`, `parse_arg`, `fmt_date`, `json_start`, `date2json`,
`parse_reformation` and the country table.

Arguments are byte strings (`List UInt8`), as `OsString`s are on unix.
-/
import JulianVerif.Model.Text
import JulianVerif.Model.Time
namespace JV
namespace Cli

abbrev Bytes := List UInt8

/-- `OsString::into_string`: `none` for invalid UTF-8 -/
def bytesToString? (b : Bytes) : Option String := String.fromUTF8? (ByteArray.mk b.toArray)

/-- lexopt `enum State` -/
inductive LState where
  | none
  | pendingValue (v : Bytes)
  | shorts (arg : Bytes) (pos : Nat)
  | finishedOpts
  deriving Repr

/-- lexopt `enum Arg`; long names are kept as raw bytes (an invalid name is lossily
decoded by lexopt and can then match no option) -/
inductive Arg where
  | short (c : Char)
  | long (name : Bytes)
  | value (v : Bytes)
  deriving Repr

structure Parser where
  state : LState
  source : List Bytes
  deriving Repr

/-- lexopt `Parser::raw_optional_value` / `optional_value` -/
def Parser.optionalValue (p : Parser) : Option Bytes × Parser :=
  match p.state with
  | .pendingValue v => (some v, { p with state := .none })
  | .shorts arg pos =>
    if pos ≥ arg.length then (none, { p with state := .none })
    else
      let pos := if arg.getD pos 0 == 61 then pos + 1 else pos     -- one leading '='
      (some (arg.drop pos), { p with state := .none })
  | .finishedOpts => (none, p)
  | .none => (none, p)

/-- lexopt `Parser::value`; outer `none` = `Error::MissingValue` -/
def Parser.value (p : Parser) : Option (Bytes × Parser) :=
  match p.optionalValue with
  | (some v, p') => some (v, p')
  | (none, p') =>
    match p'.source with
    | v :: rest => some (v, { p' with source := rest })
    | [] => none

/-- result of `Parser::next`: an error, end of input, or an argument -/
inductive NextRes where
  | error
  | done
  | arg (a : Arg) (p : Parser)

def dash : UInt8 := 45
def eqSign : UInt8 := 61

/-- the part of `Parser::next` that takes a fresh raw argument (state `None`) -/
def Parser.nextFresh (p : Parser) : NextRes :=
  match p.source with
  | [] => .done
  | arg :: rest =>
    if arg == [dash, dash] then
      -- `--`: state := FinishedOpts, recurse: the next raw argument is a value
      match rest with
      | [] => .done
      | v :: rest' => .arg (.value v) ⟨.finishedOpts, rest'⟩
    else if arg.take 2 == [dash, dash] then
      match arg.idxOf? eqSign with
      | some ind => .arg (.long ((arg.take ind).drop 2)) ⟨.pendingValue (arg.drop (ind + 1)), rest⟩
      | none => .arg (.long (arg.drop 2)) ⟨.none, rest⟩
    else if arg.length > 1 && arg.head? == some dash then
      -- `Shorts(arg, 1)`, recurse: position 1 exists, so a short option comes out
      let b := arg.getD 1 0
      if b < 128 then .arg (.short (Char.ofNat b.toNat)) ⟨.shorts arg 2, rest⟩
      else .arg (.short '�') ⟨.shorts arg arg.length, rest⟩
    else .arg (.value arg) ⟨.none, rest⟩

/-- lexopt `Parser::next`.  A non-ASCII or invalid code point in a short cluster is
reported as `Short('�')`: `from_parser` rejects every such option, so the exact
character and the amount skipped are unobservable. -/
def Parser.next (p : Parser) : NextRes :=
  match p.state with
  | .pendingValue _ => .error                        -- `Error::UnexpectedValue`
  | .finishedOpts =>
    match p.source with
    | [] => .done
    | v :: rest => .arg (.value v) { p with source := rest }
  | .shorts arg pos =>
    if pos ≥ arg.length then Parser.nextFresh { p with state := .none }
    else
      let b := arg.getD pos 0
      if b == eqSign && pos > 1 then .error            -- `-o=...`: `Error::UnexpectedValue`
      else if b < 128 then .arg (.short (Char.ofNat b.toNat)) { p with state := .shorts arg (pos + 1) }
      else .arg (.short '�') { p with state := .shorts arg arg.length }
  | .none => Parser.nextFresh p

/-- main.rs `struct Options` -/
structure Options where
  calendar : Calendar := .gregorian
  json : Bool := false
  ordinal : Bool := false
  quiet : Bool := false
  style : Bool := false
  deriving Repr

/-- main.rs `enum Command`; `error` = `from_parser` returned `Err` -/
inductive Command where
  | run (o : Options) (args : List String)
  | countries | help | version
  | error
  deriving Repr

/-- main.rs `national_reformations()`, in `BTreeMap` (byte-wise key) order -/
def nationalReformations : List (String × String × Int) :=
  [ ("AL", "Albania", 2419751), ("AT", "Austria", 2299527), ("AU", "Australia", 2361222),
    ("BE", "Belgium", 2299232), ("BG", "Bulgaria", 2420968), ("CA", "Canada", 2361222),
    ("CH", "Switzerland", 2325606), ("CN", "China", 2419403), ("CZ", "Czech Republic", 2299620),
    ("DE", "Germany", 2342032), ("DK", "Denmark", 2342032), ("ES", "Spain", 2299161),
    ("FI", "Finland", 2361390), ("FR", "France", 2299227), ("GB", "United Kingdom", 2361222),
    ("GR", "Greece", 2423868), ("HU", "Hungary", 2301004), ("IS", "Iceland", 2342304),
    ("IT", "Italy", 2299161), ("JP", "Japan", 2421960), ("LI", "Lithuania", 2421640),
    ("LU", "Luxembourg", 2299232), ("LV", "Latvia", 2421640), ("NL", "Netherlands", 2299232),
    ("NO", "Norway", 2342032), ("PL", "Poland", 2299161), ("PT", "Portugal", 2299161),
    ("RO", "Romania", 2422063), ("RU", "Russia", 2421639), ("SE", "Sweden", 2361390),
    ("SI", "Slovnia", 2422036), ("TR", "Turkey", 2424882), ("US", "United States", 2361222),
    ("YU", "Yugoslavia", 2422036) ]

/-- `str::parse::<i32>()` on a whole string -/
def parseI32 (s : List Char) : Option Int :=
  match s with
  | [] => none
  | c :: cs =>
    let (neg, ds) : Bool × List Char :=
      if c == '-' then (true, cs) else if c == '+' then (false, cs) else (false, c :: cs)
    if ds.isEmpty || !ds.all isAsciiDigit then none
    else
      let n : Int := digitsVal ds 0
      let v := if neg then -n else n
      if inI32 v then some v else none

def asciiUpper (c : Char) : Char :=
  if decide ('a' ≤ c) && decide (c ≤ 'z') then Char.ofNat (c.toNat - 32) else c

/-- main.rs `parse_reformation`; `none` = any `ReformationError` (DESIGN.md appendix B:
no Unicode table is needed to decide success) -/
def parseReformation (s : String) : Option Calendar :=
  let key := String.ofList (s.toList.map asciiUpper)
  match nationalReformations.find? (fun e => e.1 == key) with
  | some (_, _, r) =>
    match Calendar.mkReforming r with
    | .ok c => some c
    | .error _ => none
  | none =>
    match parseI32 s.toList with
    | some r =>
      match Calendar.mkReforming r with
      | .ok c => some c
      | .error _ => none
    | none => none

/-- the bytes of an ASCII option name -/
def bytesOf (s : String) : Bytes := s.toList.map fun c => c.toNat.toUInt8

/-- main.rs `Command::from_parser` -/
def fromParser : Nat → Parser → Options → List String → Command
  | 0, _, _, _ => .error          -- fuel exhausted (cannot happen: see `fuelFor`)
  | fuel + 1, p, opts, args =>
    match p.next with
    | .error => .error
    | .done => .run opts args.reverse
    | .arg a p =>
      match a with
      | .value v =>
        match bytesToString? v with
        | some s => fromParser fuel p opts (s :: args)
        | none => .error
      | .short c =>
        if c == 'c' then .countries
        else if c == 'h' then .help
        else if c == 'V' then .version
        else if c == 'j' then fromParser fuel p { opts with calendar := .julian } args
        else if c == 'J' then fromParser fuel p { opts with json := true } args
        else if c == 'o' then fromParser fuel p { opts with ordinal := true } args
        else if c == 'q' then fromParser fuel p { opts with quiet := true } args
        else if c == 's' then fromParser fuel p { opts with style := true } args
        else if c == 'r' then
          match p.value with
          | none => .error
          | some (v, p) =>
            match bytesToString? v with
            | none => .error
            | some s =>
              match parseReformation s with
              | some cal => fromParser fuel p { opts with calendar := cal } args
              | none => .error
        else if isAsciiDigit c then
          match p.optionalValue with
          | (some v, p) =>
            match bytesToString? v with
            | some s => fromParser fuel p opts (("-" ++ c.toString ++ s) :: args)
            | none => .error
          | (none, p) => fromParser fuel p opts (("-" ++ c.toString) :: args)
        else .error
      | .long name =>
        if name == bytesOf "countries" then .countries
        else if name == bytesOf "help" then .help
        else if name == bytesOf "version" then .version
        else if name == bytesOf "julian" then fromParser fuel p { opts with calendar := .julian } args
        else if name == bytesOf "json" then fromParser fuel p { opts with json := true } args
        else if name == bytesOf "ordinal" then fromParser fuel p { opts with ordinal := true } args
        else if name == bytesOf "quiet" then fromParser fuel p { opts with quiet := true } args
        else if name == bytesOf "style" then fromParser fuel p { opts with style := true } args
        else if name == bytesOf "reformation" then
          match p.value with
          | none => .error
          | some (v, p) =>
            match bytesToString? v with
            | none => .error
            | some s =>
              match parseReformation s with
              | some cal => fromParser fuel p { opts with calendar := cal } args
              | none => .error
        else .error

/-- every step consumes a raw argument or a byte of a short cluster -/
def fuelFor (argv : List Bytes) : Nat := (argv.map fun a => a.length + 2).sum + 2

def parseCommand (argv : List Bytes) : Command :=
  fromParser (fuelFor argv) ⟨.none, argv⟩ {} []

/-- main.rs `enum Argument` -/
inductive Argument where
  | date (d : Date)
  | jdn (j : Int)

/-- main.rs `Options::parse_arg`; `none` = `Error::ParsingFailed` -/
def Options.parseArg (o : Options) (s : String) : Option Argument :=
  if (s.toList.drop 1).contains '-' then
    match o.calendar.parseDate s.toList with
    | .ok d => some (.date d)
    | .error _ => none
  else
    match parseI32 s.toList with
    | some j => some (.jdn j)
    | none => none

/-- main.rs `Options::fmt_date` -/
def Options.fmtDate (o : Options) (d : Date) : String :=
  if o.ordinal then String.ofList (fmtDateAlt d)
  else
    String.ofList (JV.fmtDate d) ++
      (if o.style && d.calendar.isReforming then (if d.isJulian then " O.S." else " N.S.") else "")

def sp (n : Nat) : String := String.ofList (List.replicate n ' ')

/-- main.rs `date2json` -/
def date2json (d : Date) : String :=
  sp 8 ++ "{\n" ++
  sp 12 ++ s!"\"julian_day_number\": {d.jdn},\n" ++
  sp 12 ++ s!"\"year\": {d.year},\n" ++
  sp 12 ++ s!"\"month\": {d.month.number},\n" ++
  sp 12 ++ s!"\"day\": {d.day},\n" ++
  sp 12 ++ s!"\"ordinal\": {d.ordinal},\n" ++
  sp 12 ++ "\"display\": \"" ++ String.ofList (JV.fmtDate d) ++ "\",\n" ++
  sp 12 ++ "\"ordinal_display\": \"" ++ String.ofList (fmtDateAlt d) ++ "\"" ++
  (if d.calendar.isReforming then
    ",\n" ++ sp 12 ++ "\"old_style\": " ++ (if d.isJulian then "true" else "false")
   else "") ++
  "\n" ++ sp 8 ++ "}"

/-- main.rs `json_start` -/
def jsonStart (c : Calendar) : String :=
  "{\n" ++ sp 4 ++ "\"calendar\": {\n" ++
  sp 8 ++ "\"type\": \"" ++
    (if c.beq .julian then "julian" else if c.beq .gregorian then "gregorian" else "reforming")
    ++ "\"" ++
  (match c.reformation with
   | some r => ",\n" ++ sp 8 ++ s!"\"reformation\": {r}"
   | none => "") ++
  "\n" ++ sp 4 ++ "},\n" ++ sp 4 ++ "\"dates\": ["

/-- main.rs `Options::date_to_jdn` -/
def Options.dateToJdn (o : Options) (d : Date) : String :=
  if o.json then date2json d
  else (if !o.quiet then o.fmtDate d ++ " = JDN " else "") ++ toString d.jdn

/-- main.rs `Options::jdn_to_date`; `none` = `at_jdn` panicked -/
def Options.jdnToDate (o : Options) (jdn : Int) : Option String :=
  match o.calendar.atJdn? jdn with
  | none => none
  | some d =>
    some (if o.json then date2json d
          else (if !o.quiet then s!"JDN {jdn} = " else "") ++ o.fmtDate d)

inductive RunRes where
  | panic
  | error
  | ok (lines : List String)

/-- the text appended to the last piece: closes the `dates` array and the document -/
def jsonTail : String := "\n    ]\n}"

/-- first loop of the patching at the end of `Options::run`: when there are more than two
pieces, a comma after every piece except the first (the document head) and the last -/
def withCommas (output : List String) : List String :=
  if output.length > 2 then
    output.mapIdx fun i s => if 1 ≤ i && i < output.length - 1 then s ++ "," else s
  else output

/-- `if let Some(s) = output.last_mut() { s.push_str("\n    ]\n}") }` -/
def closeLast (output : List String) : List String :=
  match output.reverse with
  | [] => []
  | last :: revInit => ((last ++ jsonTail) :: revInit).reverse

/-- the comma / bracket patching at the end of `Options::run` -/
def jsonPatch (output : List String) : List String := closeLast (withCommas output)

/-- the body of the `for arg in args` loop of `Options::run`: `acc` is the output so far, or
the failure that ended the loop (`true` = panic, `false` = `ParsingFailed`) -/
def runStep (o : Options) (acc : Except Bool (List String)) (arg : String) :
    Except Bool (List String) :=
  match acc with
  | .error e => .error e
  | .ok lines =>
    match o.parseArg arg with
    | none => .error false
    | some (.date d) => .ok (lines ++ [o.dateToJdn d])
    | some (.jdn j) =>
      match o.jdnToDate j with
      | some s => .ok (lines ++ [s])
      | none => .error true

/-- main.rs `Options::run`; `today` is the JDN the system clock shows (a parameter) -/
def Options.run (o : Options) (today : Int) (args : List String) : RunRes :=
  let head := if o.json then [jsonStart o.calendar] else []
  let body : Except Bool (List String) :=     -- error true = panic, false = ParsingFailed
    if args.isEmpty then
      match o.calendar.atJdn? today with
      | some d => .ok [o.dateToJdn d]
      | none => .error true
    else args.foldl (runStep o) (.ok [])
  match body with
  | .error true => .panic
  | .error false => .error
  | .ok lines =>
    let output := head ++ lines
    .ok (if o.json then jsonPatch output else output)

def padRight (w : Nat) (s : String) : String := s ++ sp (w - s.length)

/-- one row of the `Command::Countries` listing; `none` = an `.expect()` fired -/
def countryStep (acc : Option (List String)) (e : String × String × Int) : Option (List String) :=
  match acc, Calendar.mkReforming e.2.2 with
  | some lines, .ok cal =>
    match cal.lastJulianDate, cal.firstGregorianDate with
    | some lj, some fg =>
      some (lines ++ [s!"{e.1}    {padRight 14 e.2.1}  JDN {e.2.2}  {String.ofList (JV.fmtDate lj)}   {String.ofList (JV.fmtDate fg)}"])
    | _, _ => none
  | _, _ => none

/-- the body of `Command::Countries` in `Command::run` -/
def countriesLines : Option (List String) :=
  nationalReformations.foldl countryStep
    (some ["Code  Country         Reformation  Last Julian  First Gregorian"])

/-- what the process does: exit status, stdout, whether stderr is non-empty -/
inductive Outcome where
  | panic                       -- exit 101
  | error                       -- exit 1, nothing on stdout, message on stderr
  | help | version
  | out (stdout : String)       -- exit 0

def main (today : Int) (argv : List Bytes) : Outcome :=
  match parseCommand argv with
  | .error => .error
  | .help => .help
  | .version => .version
  | .countries =>
    match countriesLines with
    | some ls => .out (String.join (ls.map (· ++ "\n")))
    | none => .panic
  | .run o args =>
    match o.run today args with
    | .panic => .panic
    | .error => .error
    | .ok ls => .out (String.join (ls.map (· ++ "\n")))

def hexDigit (n : Nat) : Char :=
  if n < 10 then Char.ofNat (48 + n) else Char.ofNat (87 + n)

def hexOfString (s : String) : String :=
  String.ofList (s.toUTF8.toList.flatMap fun b => [hexDigit (b.toNat / 16), hexDigit (b.toNat % 16)])

def showOutcome : Outcome → String
  | .panic => "exit=101"
  | .error => "exit=1 out=x err=1"
  | .help => "exit=0 HELP"
  | .version => "exit=0 VERSION"
  | .out s => "exit=0 out=x" ++ hexOfString s ++ " err=0"

end Cli
end JV
