/-
Model/Calendar.lean — crates/julian/src/lib.rs: `Calendar`, `MonthShape`, `Date`
(the code as it stands after the seven `fix:` commits; the pre-fix variants are in
Model/Legacy.lean).

Panics (`unreachable!()`) are the value `DateError.fault` / `none` of a `?`-suffixed
function; no function here is partial.
-/
import JulianVerif.Model.Inner
namespace JV

/-- inner.rs `enum Calendar` -/
inductive Calendar where
  | julian
  | gregorian
  | reforming (reformation : Int) (gap : ReformGap)
  deriving DecidableEq, Repr, Inhabited

namespace Calendar

/-- lib.rs `Calendar::gap` -/
def gap : Calendar → Option ReformGap
  | reforming _ g => some g
  | _ => none

def isProleptic : Calendar → Bool
  | julian | gregorian => true
  | _ => false

def isReforming : Calendar → Bool
  | reforming .. => true
  | _ => false

def reformation : Calendar → Option Int
  | reforming r _ => some r
  | _ => none

/-- inner.rs `impl Ord for Calendar` (the gap record is ignored) -/
def cmp : Calendar → Calendar → Ordering
  | julian, julian => .eq
  | julian, _ => .lt
  | reforming .., julian => .gt
  | reforming r1 _, reforming r2 _ => compare r1 r2
  | reforming .., gregorian => .lt
  | gregorian, gregorian => .eq
  | gregorian, _ => .gt

/-- inner.rs `impl PartialEq for Calendar`: `cmp == Equal` -/
def beq (a b : Calendar) : Bool := a.cmp b == .eq

/-- inner.rs `impl Hash for Calendar`: the sequence of values written to the hasher -/
def hashKey : Calendar → List Int
  | julian => [1]
  | gregorian => [2]
  | reforming r _ => [3, r]

/-- lib.rs `Calendar::year_kind` -/
def yearKind (c : Calendar) (year : Int) : YearKind :=
  match c with
  | julian => if isJulianLeapYear year then .leap else .common
  | gregorian => if isGregorianLeapYear year then .leap else .common
  | reforming _ gap =>
    match gap.cmpYear year with
    | .less => if isJulianLeapYear year then .leap else .common
    | .eqLower =>
      if gap.preReform.month == .december && gap.preReform.day == 31 then
        if isJulianLeapYear year then .leap else .common
      else if (Month.february.lt gap.preReform.month
                || (gap.preReform.month == .february && gap.preReform.day == 29))
              && isJulianLeapYear year then .reformLeap
      else .reformCommon
    | .between => .skipped
    | .eqBoth =>
      if ((Month.february.lt gap.preReform.month
              || (gap.preReform.month == .february && gap.preReform.day == 29))
            && isJulianLeapYear year)
          || (gap.postReform.month.le .february && isGregorianLeapYear year) then .reformLeap
      else .reformCommon
    | .eqUpper =>
      if gap.postReform.month == .january && gap.postReform.day == 1 then
        if isGregorianLeapYear year then .leap else .common
      else if gap.postReform.month.le .february && isGregorianLeapYear year then .reformLeap
      else .reformCommon
    | .greater => if isGregorianLeapYear year then .leap else .common

/-- lib.rs `Calendar::year_length` (the `_ => unreachable!()` arm of the proleptic match
cannot be taken: `year_kind` of a proleptic calendar is `Common` or `Leap` by construction) -/
def yearLength (c : Calendar) (year : Int) : Int :=
  match c with
  | julian | gregorian =>
    match c.yearKind year with
    | .leap => 366
    | _ => 365
  | reforming _ gap =>
    match c.yearKind year with
    | .common => 365
    | .leap => 366
    | .reformCommon | .reformLeap =>
      if year == gap.postReform.year then
        (if isGregorianLeapYear year then 366 else 365) - gap.ordinalGap
      else gap.preReform.ordinal
    | .skipped => 0

end Calendar

/-- lib.rs `struct MonthShape` -/
structure MonthShape where
  calendar : Calendar
  year : Int
  month : Month
  inner : IShape
  deriving DecidableEq, Repr, Inhabited

/-- lib.rs `struct Date` — seven redundant fields -/
structure Date where
  calendar : Calendar
  year : Int
  ordinal : Int
  month : Month
  day : Int
  dayOrdinal : Int
  jdn : Int
  deriving DecidableEq, Repr, Inhabited

namespace IShape

/-- lib.rs `MonthShape::len` -/
def len : IShape → Int
  | normal maxDay => maxDay
  | headless minDay maxDay => maxDay - minDay + 1
  | tailless maxDay _ => maxDay
  | gapped gapStart gapEnd maxDay => maxDay - (gapEnd - gapStart + 1)

/-- lib.rs `MonthShape::contains` -/
def contains (s : IShape) (day : Int) : Bool :=
  match s with
  | normal maxDay | tailless maxDay _ => decide (1 ≤ day) && decide (day ≤ maxDay)
  | headless minDay maxDay => decide (minDay ≤ day) && decide (day ≤ maxDay)
  | gapped gapStart gapEnd maxDay =>
    (decide (1 ≤ day) && decide (day ≤ maxDay)) && !(decide (gapStart ≤ day) && decide (day ≤ gapEnd))

/-- lib.rs `MonthShape::first_day` -/
def firstDay : IShape → Int
  | headless minDay _ => minDay
  | _ => 1

/-- lib.rs `MonthShape::last_day` -/
def lastDay : IShape → Int
  | normal maxDay => maxDay
  | headless _ maxDay => maxDay
  | tailless maxDay _ => maxDay
  | gapped _ _ maxDay => maxDay

/-- lib.rs `MonthShape::day_ordinal_err` -/
def dayOrdinalErr (s : IShape) (year : Int) (month : Month) (day : Int) : Except DateError Int :=
  match s with
  | normal maxDay =>
    if 1 ≤ day && day ≤ maxDay then .ok day
    else .error (.dayOutOfRange year month day 1 maxDay)
  | headless minDay maxDay =>
    if minDay ≤ day && day ≤ maxDay then .ok (day - minDay + 1)
    else if 1 ≤ day && day < minDay then .error (.skippedDate year month day)
    else .error (.dayOutOfRange year month day minDay maxDay)
  | tailless maxDay naturalMaxDay =>
    if 1 ≤ day && day ≤ maxDay then .ok day
    else if (maxDay + 1) ≤ day && day ≤ naturalMaxDay then .error (.skippedDate year month day)
    else .error (.dayOutOfRange year month day 1 maxDay)
  | gapped gapStart gapEnd maxDay =>
    if day == 0 || day > maxDay then .error (.dayOutOfRange year month day 1 maxDay)
    else if day < gapStart then .ok day
    else if day ≤ gapEnd then .error (.skippedDate year month day)
    else .ok (day - (gapEnd - gapStart + 1))

/-- lib.rs `MonthShape::day_ordinal` -/
def dayOrdinal (s : IShape) (day : Int) : Option Int :=
  match s.dayOrdinalErr 0 .january day with
  | .ok o => some o
  | .error _ => none

/-- lib.rs `MonthShape::nth_day` -/
def nthDay (s : IShape) (dayOrdinal : Int) : Option Int :=
  match s with
  | normal maxDay | tailless maxDay _ =>
    if 1 ≤ dayOrdinal && dayOrdinal ≤ maxDay then some dayOrdinal else none
  | headless minDay maxDay =>
    if 1 ≤ dayOrdinal && dayOrdinal ≤ (maxDay - minDay + 1) then some (dayOrdinal + minDay - 1)
    else none
  | gapped gapStart gapEnd maxDay =>
    if dayOrdinal == 0 then none
    else if dayOrdinal < gapStart then some dayOrdinal
    else if dayOrdinal > maxDay then none
    else
      let day := dayOrdinal + (gapEnd - gapStart + 1)
      if day ≤ maxDay then some day else none

/-- lib.rs `MonthShape::gap` (an inclusive range, as its two ends) -/
def gap : IShape → Option (Int × Int)
  | normal _ => none
  | headless minDay _ => some (1, minDay - 1)
  | tailless maxDay naturalMaxDay => some (maxDay + 1, naturalMaxDay)
  | gapped gapStart gapEnd _ => some (gapStart, gapEnd)

/-- lib.rs `MonthShape::kind` -/
def kind : IShape → MonthKind
  | normal _ => .normal
  | headless .. => .headless
  | tailless .. => .tailless
  | gapped .. => .gapped

end IShape

namespace Calendar

/-- the `length` computed at the top of lib.rs `Calendar::month_shape` -/
def naturalLength (c : Calendar) (year : Int) (month : Month) : Int :=
  match month with
  | .january => 31
  | .february =>
    if (c.yearKind year).isLeap then 29
    else match c.gap with
      | some gap =>
        if gap.cmpYearMonth year .february == .eqLower && isJulianLeapYear year then 29 else 28
      | none => 28
  | .march => 31 | .april => 30 | .may => 31 | .june => 30 | .july => 31 | .august => 31
  | .september => 30 | .october => 31 | .november => 30 | .december => 31

/-- lib.rs `Calendar::month_shape`, inner shape only -/
def monthIShape (c : Calendar) (year : Int) (month : Month) : Option IShape :=
  let length := c.naturalLength year month
  match c.gap with
  | some gap =>
    match gap.cmpYearMonth year month with
    | .eqLower | .eqBoth =>
      if gap.kind == .intraMonth then
        some (.gapped (gap.preReform.day + 1) (gap.postReform.day - 1) length)
      else if gap.preReform.day == length then some (.normal length)
      else some (.tailless gap.preReform.day length)
    | .between => none
    | .eqUpper =>
      if gap.postReform.day > 1 then some (.headless gap.postReform.day length)
      else some (.normal length)
    | _ => some (.normal length)
  | none => some (.normal length)

/-- lib.rs `Calendar::month_shape` -/
def monthShape (c : Calendar) (year : Int) (month : Month) : Option MonthShape :=
  (c.monthIShape year month).map fun s => ⟨c, year, month, s⟩

/-- the unrolled `for_month!` loop of lib.rs `ordinal2ymddo`; falling off the end is
`unreachable!()` -/
def ordinal2ymddoLoop (c : Calendar) (year : Int) : List Month → Int →
    Except DateError (Month × Int × Int)
  | [], _ => .error .fault
  | m :: ms, days =>
    match c.monthIShape year m with
    | some shape =>
      match shape.nthDay days with
      | some day => .ok (m, day, days)
      | none => ordinal2ymddoLoop c year ms (days - shape.len)
    | none => ordinal2ymddoLoop c year ms days

/-- lib.rs `Calendar::ordinal2ymddo` -/
def ordinal2ymddo (c : Calendar) (year ordinal : Int) : Except DateError (Month × Int × Int) :=
  let maxOrdinal := c.yearLength year
  if ordinal < 1 || ordinal > maxOrdinal then
    .error (.ordinalOutOfRange year ordinal maxOrdinal)
  else ordinal2ymddoLoop c year Month.all ordinal

/-- the unrolled loop of lib.rs `ymdo2ordinal` -/
def ymdo2ordinalLoop (c : Calendar) (year : Int) (month : Month) (dayOrdinal : Int) :
    List Month → Int → Int
  | [], result => result   -- `unreachable!()`: `month` is one of the twelve
  | m :: ms, result =>
    if m == month then result + dayOrdinal
    else match c.monthIShape year m with
      | some s => ymdo2ordinalLoop c year month dayOrdinal ms (result + s.len)
      | none => ymdo2ordinalLoop c year month dayOrdinal ms result

/-- lib.rs `Calendar::ymdo2ordinal` -/
def ymdo2ordinal (c : Calendar) (year : Int) (month : Month) (dayOrdinal : Int) : Int :=
  ymdo2ordinalLoop c year month dayOrdinal Month.all 0

/-- lib.rs `Calendar::get_day_ordinal` -/
def getDayOrdinal (c : Calendar) (year : Int) (month : Month) (day : Int) : Except DateError Int :=
  match c.monthIShape year month with
  | some shape => shape.dayOrdinalErr year month day
  | none => .error (.skippedDate year month day)

/-- lib.rs `Calendar::get_jdn` -/
def getJdn (c : Calendar) (year ordinal : Int) : Option Int :=
  let ordinal :=
    match c.gap with
    | some gap =>
      if year == gap.postReform.year && ordinal ≥ gap.postReform.ordinal then
        ordinal + gap.ordinalGap
      else ordinal
    | none => ordinal
  let useJulian : Bool :=
    match c with
    | julian => true
    | reforming _ gap =>
      decide (year < gap.postReform.year)
        || (year == gap.postReform.year && decide (ordinal < gap.postReform.ordinal))
    | gregorian => false
  if useJulian then julian2jdn year ordinal else gregorian2jdn year ordinal

/-- lib.rs `Calendar::at_ymd` -/
def atYmd (c : Calendar) (year : Int) (month : Month) (day : Int) : Except DateError Date :=
  match c.getDayOrdinal year month day with
  | .error e => .error e
  | .ok dayOrdinal =>
    let ordinal := c.ymdo2ordinal year month dayOrdinal
    match c.getJdn year ordinal with
    | none => .error .arithmetic
    | some jdn => .ok ⟨c, year, ordinal, month, day, dayOrdinal, jdn⟩

/-- lib.rs `Calendar::at_ordinal_date` -/
def atOrdinalDate (c : Calendar) (year ordinal : Int) : Except DateError Date :=
  match c.ordinal2ymddo year ordinal with
  | .error e => .error e
  | .ok (month, day, dayOrdinal) =>
    match c.getJdn year ordinal with
    | none => .error .arithmetic
    | some jdn => .ok ⟨c, year, ordinal, month, day, dayOrdinal, jdn⟩

/-- the year / day-of-year computed at the top of lib.rs `Calendar::at_jdn` -/
def jdnYearOrdinal (c : Calendar) (jdn : Int) : Int × Int :=
  let useJulian : Bool :=
    match c with
    | julian => true
    | reforming reformation _ => decide (jdn < reformation)
    | gregorian => false
  let (year, ordinal) := if useJulian then jdn2julian jdn else jdn2gregorian jdn
  match c.gap with
  | some gap =>
    if year == gap.postReform.year && ordinal > gap.ordinalGapStart then
      (year, ordinal - gap.ordinalGap)
    else (year, ordinal)
  | none => (year, ordinal)

/-- lib.rs `Calendar::at_jdn`; `none` = the `unreachable!()` after `ordinal2ymddo` -/
def atJdn? (c : Calendar) (jdn : Int) : Option Date :=
  let (year, ordinal) := c.jdnYearOrdinal jdn
  match c.ordinal2ymddo year ordinal with
  | .ok (month, day, dayOrdinal) => some ⟨c, year, ordinal, month, day, dayOrdinal, jdn⟩
  | .error _ => none

/-- total version used where the Rust code uses the value of `at_jdn` directly -/
def atJdn (c : Calendar) (jdn : Int) : Date :=
  (c.atJdn? jdn).getD ⟨c, (c.jdnYearOrdinal jdn).1, (c.jdnYearOrdinal jdn).2, .january, 0, 0, jdn⟩

/-- lib.rs `Calendar::last_julian_date` -/
def lastJulianDate : Calendar → Option Date
  | c@(reforming reformation gap) =>
    some ⟨c, gap.preReform.year, gap.preReform.ordinal, gap.preReform.month, gap.preReform.day,
          gap.preReform.day, reformation - 1⟩
  | _ => none

/-- lib.rs `Calendar::first_gregorian_date` -/
def firstGregorianDate : Calendar → Option Date
  | c@(reforming reformation gap) =>
    let dayOrdinal := if gap.kind == .intraMonth then gap.preReform.day + 1 else 1
    some ⟨c, gap.postReform.year, gap.postReform.ordinal, gap.postReform.month,
          gap.postReform.day, dayOrdinal, reformation⟩
  | _ => none

/-- lib.rs `Calendar::next_year_after` -/
def nextYearAfter (c : Calendar) (year : Int) : Int :=
  match c.gap with
  | some gap =>
    if year == gap.preReform.year && gap.postReform.year > gap.preReform.year then
      gap.postReform.year
    else year + 1
  | none => year + 1

/-- lib.rs `Calendar::prev_year_before` -/
def prevYearBefore (c : Calendar) (year : Int) : Int :=
  match c.gap with
  | some gap =>
    if year == gap.postReform.year && gap.postReform.year > gap.preReform.year then
      gap.preReform.year
    else year - 1
  | none => year - 1

/-- lib.rs `Calendar::REFORM1582`, the hand-typed literal -/
def reform1582 : Calendar :=
  reforming 2299161
    { preReform := ⟨1582, 277, .october, 4⟩
      postReform := ⟨1582, 278, .october, 15⟩
      kind := .intraMonth
      ordinalGapStart := 287
      ordinalGap := 10 }

/-- lib.rs `Calendar::reforming`.  The two `at_jdn` calls are on proleptic calendars;
their `unreachable!()` arm is mapped to `ReformingError.fault`. -/
def mkReforming (reformation : Int) : Except ReformingError Calendar :=
  if !inI32 (reformation - 1) then .error .invalidReformation
  else
    match julian.atJdn? (reformation - 1), gregorian.atJdn? reformation with
    | some pre, some post =>
      let ordinal :=
        if post.year.tmod 100 == 0 && post.year.tmod 400 != 0 && Month.february.lt post.month
        then post.ordinal + 1 else post.ordinal
      match julian.getJdn post.year ordinal with
      | none => if post.year < 0 then .error .invalidReformation else .error .arithmetic
      | some date =>
        if date ≤ reformation then .error .invalidReformation
        else
          let kind := GapKind.forDates pre.year pre.month post.year post.month
          let preReform : IDate := ⟨pre.year, pre.ordinal, pre.month, pre.day⟩
          -- the Rust destructures one tuple-valued `match kind`; three matches are the same
          let postOrdinal : Int :=
            match kind with | .intraMonth | .crossMonth => preReform.ordinal + 1 | _ => 1
          let ordinalGapStart : Int :=
            match kind with | .intraMonth | .crossMonth => post.ordinal - 1 | _ => 0
          let ordinalGap : Int :=
            match kind with
            | .intraMonth | .crossMonth => post.ordinal - preReform.ordinal - 1
            | _ => post.ordinal - 1
          let postReform : IDate := ⟨post.year, postOrdinal, post.month, post.day⟩
          .ok (reforming reformation
                { preReform, postReform, kind, ordinalGapStart, ordinalGap })
    | _, _ => .error .fault

end Calendar

namespace IShape
/-- derived `Hash for inner::MonthShape`: the discriminant, then the fields in order -/
def hashKey : IShape → List Int
  | normal a => [0, a]
  | headless a b => [1, a, b]
  | tailless a b => [2, a, b]
  | gapped a b c => [3, a, b, c]
end IShape

namespace MonthShape

/-- derived `PartialEq for MonthShape`: field-wise, with `Calendar`'s hand-written `==` -/
def beq (a b : MonthShape) : Bool :=
  a.calendar.beq b.calendar && a.year == b.year && a.month == b.month && a.inner == b.inner

/-- derived `Hash for MonthShape`: the values written to the hasher, in field order -/
def hashKey (s : MonthShape) : List Int :=
  s.calendar.hashKey ++ [s.year, s.month.number] ++ s.inner.hashKey

def len (s : MonthShape) : Int := s.inner.len
def contains (s : MonthShape) (day : Int) : Bool := s.inner.contains day
def firstDay (s : MonthShape) : Int := s.inner.firstDay
def lastDay (s : MonthShape) : Int := s.inner.lastDay
def dayOrdinal (s : MonthShape) (day : Int) : Option Int := s.inner.dayOrdinal day
def nthDay (s : MonthShape) (n : Int) : Option Int := s.inner.nthDay n
def gap (s : MonthShape) : Option (Int × Int) := s.inner.gap
def kind (s : MonthShape) : MonthKind := s.inner.kind

/-- lib.rs `MonthShape::nth_date` -/
def nthDate (s : MonthShape) (dayOrdinal : Int) : Option Date :=
  match s.nthDay dayOrdinal with
  | none => none
  | some day =>
    match s.calendar.atYmd s.year s.month day with
    | .ok date => some date
    | .error _ => none

end MonthShape

namespace Date

/-- derived `PartialEq for Date`: field-wise, with `Calendar`'s hand-written `==` -/
def beq (a b : Date) : Bool :=
  a.calendar.beq b.calendar && a.year == b.year && a.ordinal == b.ordinal && a.month == b.month
    && a.day == b.day && a.dayOrdinal == b.dayOrdinal && a.jdn == b.jdn

/-- lib.rs `impl Ord for Date`: `(jdn, calendar)` lexicographically -/
def cmp (a b : Date) : Ordering :=
  match compare a.jdn b.jdn with
  | .eq => a.calendar.cmp b.calendar
  | o => o

/-- derived `Hash for Date`: the values written to the hasher, in field order -/
def hashKey (d : Date) : List Int :=
  d.calendar.hashKey ++ [d.year, d.ordinal, d.month.number, d.day, d.dayOrdinal, d.jdn]

def dayOrdinal0 (d : Date) : Int := d.dayOrdinal - 1
def ordinal0 (d : Date) : Int := d.ordinal - 1
def weekday (d : Date) : Weekday := Weekday.forJdn d.jdn

/-- lib.rs `Date::is_julian` -/
def isJulian (d : Date) : Bool :=
  match d.calendar with
  | .julian => true
  | .reforming reformation _ => decide (d.jdn < reformation)
  | .gregorian => false

/-- lib.rs `Date::is_gregorian` -/
def isGregorian (d : Date) : Bool :=
  match d.calendar with
  | .julian => false
  | .reforming reformation _ => decide (reformation ≤ d.jdn)
  | .gregorian => true

/-- lib.rs `Date::convert_to`; `none` = `at_jdn`'s `unreachable!()` -/
def convertTo? (d : Date) (c : Calendar) : Option Date := c.atJdn? d.jdn

/-- lib.rs `Date::succ` -/
def succ (d : Date) : Option Date :=
  if !inI32 (d.jdn + 1) then none
  else
    let jdn := d.jdn + 1
    match d.calendar.ordinal2ymddo d.year (d.ordinal + 1) with
    | .ok (month, day, dayOrdinal) =>
      some ⟨d.calendar, d.year, d.ordinal + 1, month, day, dayOrdinal, jdn⟩
    | .error (.ordinalOutOfRange ..) =>
      let year := d.calendar.nextYearAfter d.year
      match d.calendar.ordinal2ymddo year 1 with
      | .ok (month, day, dayOrdinal) => some ⟨d.calendar, year, 1, month, day, dayOrdinal, jdn⟩
      | .error _ => none
    | .error _ => none

/-- lib.rs `Date::pred` -/
def pred (d : Date) : Option Date :=
  if !inI32 (d.jdn - 1) then none
  else
    let jdn := d.jdn - 1
    let (year, ordinal) : Int × Int :=
      if d.ordinal > 1 then (d.year, d.ordinal - 1)
      else
        let year := d.calendar.prevYearBefore d.year
        (year, d.calendar.yearLength year)
    match d.calendar.ordinal2ymddo year ordinal with
    | .ok (month, day, dayOrdinal) => some ⟨d.calendar, year, ordinal, month, day, dayOrdinal, jdn⟩
    | .error _ => none

end Date

end JV
