import JulianVerif.Spec.Json
import JulianVerif.Lemmas.CliSpec
set_option linter.unusedSimpArgs false
namespace JV.Json
open JV Cli

theorem ws_nil : Ws [] := by intro c hc; cases hc
theorem ws_replicate (n : Nat) : Ws (List.replicate n ' ') := by
  intro c hc; rw [List.mem_replicate] at hc; rw [hc.2]; rfl
theorem ws_nl (n : Nat) : Ws ('\n' :: List.replicate n ' ') := by
  intro c hc
  rcases List.mem_cons.mp hc with h | h
  · rw [h]; rfl
  · exact ws_replicate n c h
theorem ws_append {a b : List Char} (ha : Ws a) (hb : Ws b) : Ws (a ++ b) := by
  intro c hc; rcases List.mem_append.mp hc with h | h
  · exact ha c h
  · exact hb c h

/-- a member as the command prints it: indentation, then `"key": value` -/
def memberText (ind k t : List Char) : List Char := ind ++ '"' :: k ++ '"' :: ':' :: ' ' :: t

/-- members printed one after the other, a comma after each but the last -/
def joinMembers (ind : List Char) : List (List Char × Val × List Char) → List Char
  | [] => []
  | x :: [] => memberText ind x.1 x.2.2
  | x :: y :: r => memberText ind x.1 x.2.2 ++ ',' :: joinMembers ind (y :: r)

theorem members_join (ind wEnd : List Char) (hi : Ws ind) (he : Ws wEnd) :
    ∀ (l : List (List Char × Val × List Char)), l ≠ [] →
      (∀ x ∈ l, Plain x.1 ∧ Text x.2.1 x.2.2) →
      Members (l.map fun x => (x.1, x.2.1)) (joinMembers ind l ++ wEnd)
  | [], h, _ => absurd rfl h
  | x :: [], _, h => by
    obtain ⟨hk, ht⟩ := h x (by simp)
    have := Members.one (w2 := []) (w3 := [' ']) hi hk ws_nil (ws_replicate 1) ht he
    simpa [joinMembers, memberText, List.append_assoc] using this
  | x :: y :: r, _, h => by
    obtain ⟨hk, ht⟩ := h x (by simp)
    have ih := members_join ind wEnd hi he (y :: r) (by simp) (fun z hz => h z (by simp [hz]))
    have := Members.cons (w2 := []) (w3 := [' ']) (w4 := []) hi hk ws_nil (ws_replicate 1) ht ws_nil ih
    simpa [joinMembers, memberText, List.append_assoc] using this

/-- array elements printed one after the other, each after `w`, a comma after each but the last -/
def joinElems (w : List Char) : List (Val × List Char) → List Char
  | [] => []
  | x :: [] => w ++ x.2
  | x :: y :: r => w ++ x.2 ++ ',' :: joinElems w (y :: r)

theorem elems_join (w wEnd : List Char) (hw : Ws w) (he : Ws wEnd) :
    ∀ (l : List (Val × List Char)), l ≠ [] → (∀ x ∈ l, Text x.1 x.2) →
      Elems (l.map (·.1)) (joinElems w l ++ wEnd)
  | [], h, _ => absurd rfl h
  | x :: [], _, h => by
    have := Elems.one hw (h x (by simp)) he
    simpa [joinElems, List.append_assoc] using this
  | x :: y :: r, _, h => by
    have ih := elems_join w wEnd hw he (y :: r) (by simp) (fun z hz => h z (by simp [hz]))
    have := Elems.cons (w2 := []) hw (h x (by simp)) ws_nil ih
    simpa [joinElems, List.append_assoc] using this

end JV.Json
