import JulianVerif.Spec.Json
import JulianVerif.Lemmas.CliSpec
open JV Cli
example : "\"julian_day_number\": ".toList = '"' :: "julian_day_number".toList ++ ['"', ':', ' '] := by simp
example (x : List Char) : "\"julian_day_number\": ".toList ++ x = '"' :: ("julian_day_number".toList ++ ('"' :: ':' :: ' ' :: x)) := by simp
def foo (k : String) : List Char := k.toList
example : foo "abc" = ['a','b','c'] := by simp only [foo]; simp
example : foo "abc" = ['a','b','c'] := by simp [foo]
