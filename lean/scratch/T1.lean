import JulianVerif.Lemmas.CliSpec
open JV Cli
example : "{\n".toList = ['{', '\n'] := by simp
example : "{\n".toList = ['{', '\n'] := by decide
example : "{\n".toList = ['{', '\n'] := by rfl
example (i : Int) : (s!"\"year\": {i},\n").toList = "\"year\": ".toList ++ (toString i).toList ++ ",\n".toList := by
  simp [String.toList_append]
example : (sp 4).toList = [' ',' ',' ',' '] := by simp [sp]
#check @String.toList_append
#check @Int.repr_eq_if
