import JulianVerif.Spec.Json
import JulianVerif.Lemmas.CliSpec
set_option linter.unusedSimpArgs false
namespace JV.Json
open JV Cli

def memberText (ind k t : List Char) : List Char := ind ++ '"' :: k ++ '"' :: ':' :: ' ' :: t
def joinMembers (ind : List Char) : List (List Char × Val × List Char) → List Char
  | [] => []
  | x :: [] => memberText ind x.1 x.2.2
  | x :: y :: r => memberText ind x.1 x.2.2 ++ ',' :: joinMembers ind (y :: r)

def ind12 : List Char := '\n' :: List.replicate 12 ' '
def ind8 : List Char := '\n' :: List.replicate 8 ' '

def intM (k : String) (i : Int) : List Char × Val × List Char := (k.toList, .int i, (toString i).toList)
def strM (k : String) (s : List Char) : List Char × Val × List Char := (k.toList, .str s, '"' :: s ++ ['"'])
def boolM (k : String) (b : Bool) : List Char × Val × List Char :=
  (k.toList, .bool b, if b then ['t','r','u','e'] else ['f','a','l','s','e'])

/-- the members of a date object, with the text each value is printed as -/
def dateMembers (d : Date) : List (List Char × Val × List Char) :=
  [ intM "julian_day_number" d.jdn, intM "year" d.year, intM "month" d.month.number,
    intM "day" d.day, intM "ordinal" d.ordinal,
    strM "display" (JV.fmtDate d), strM "ordinal_display" (fmtDateAlt d) ]
  ++ (if d.calendar.isReforming then [boolM "old_style" d.isJulian] else [])

/-- the text of a date object, without the indentation in front of it -/
def dateObjText (d : Date) : List Char := '{' :: (joinMembers ind12 (dateMembers d) ++ ind8) ++ ['}']

theorem toString_str (s : String) : toString s = s := rfl

set_option maxRecDepth 8000 in
theorem date2json_chars (d : Date) :
    (date2json d).toList = List.replicate 8 ' ' ++ dateObjText d := by
  unfold date2json
  simp only [toString_str, String.toList_append, sp, String.toList_ofList]
  unfold dateObjText dateMembers intM strM boolM ind12 ind8
  cases d.calendar.isReforming <;> cases d.isJulian
  · simp only [if_false, Bool.false_eq_true, List.append_nil]
    unfold joinMembers joinMembers joinMembers joinMembers joinMembers joinMembers joinMembers memberText
    simp [List.append_assoc]
  · simp only [if_false, Bool.false_eq_true, List.append_nil]
    unfold joinMembers joinMembers joinMembers joinMembers joinMembers joinMembers joinMembers memberText
    simp [List.append_assoc]
  · simp only [if_true, if_false, Bool.false_eq_true, List.cons_append, List.nil_append]
    unfold joinMembers joinMembers joinMembers joinMembers joinMembers joinMembers joinMembers joinMembers memberText
    simp [List.append_assoc, String.toList_append]
  · simp only [if_true, List.cons_append, List.nil_append]
    unfold joinMembers joinMembers joinMembers joinMembers joinMembers joinMembers joinMembers joinMembers memberText
    simp [List.append_assoc, String.toList_append]

end JV.Json
