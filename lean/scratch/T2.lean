import JulianVerif.Spec.Json
import JulianVerif.Lemmas.Digits
namespace JV.Json
open JV

theorem digitChar_lt10 (k : Nat) (h : k < 10) :
    isAsciiDigit (Nat.digitChar k) = true ∧ digitVal (Nat.digitChar k) = k
      ∧ (Nat.digitChar k = '0' ↔ k = 0) := by
  have : k = 0 ∨ k = 1 ∨ k = 2 ∨ k = 3 ∨ k = 4 ∨ k = 5 ∨ k = 6 ∨ k = 7 ∨ k = 8 ∨ k = 9 := by omega
  rcases this with h | h | h | h | h | h | h | h | h | h <;> subst h <;> decide

/-- the decimal digits `{}` prints: all digits, no leading zero except for 0 itself, and they
read back as the number -/
theorem toDigits_spec (n : Nat) :
    (∀ c ∈ Nat.toDigits 10 n, isAsciiDigit c = true)
    ∧ digitsVal (Nat.toDigits 10 n) 0 = n
    ∧ (∃ c cs, Nat.toDigits 10 n = c :: cs ∧ (c = '0' → n = 0 ∧ cs = [])) := by
  induction n using Nat.strongRecOn with
  | _ n ih =>
    rw [Nat.toDigits_eq_if (by decide : 1 < 10)]
    by_cases hn : n < 10
    · simp only [hn, if_true]
      obtain ⟨h1, h2, h3⟩ := digitChar_lt10 n hn
      refine ⟨?_, ?_, ?_⟩
      · intro c hc; simp only [List.mem_singleton] at hc; subst hc; exact h1
      · simp [digitsVal, h2]
      · exact ⟨_, [], rfl, fun h => ⟨h3.mp h, rfl⟩⟩
    · simp only [hn, if_false]
      have hlt : n / 10 < n := by omega
      obtain ⟨i1, i2, c, cs, i3, i4⟩ := ih (n / 10) hlt
      obtain ⟨h1, h2, _⟩ := digitChar_lt10 (n % 10) (by omega)
      refine ⟨?_, ?_, ?_⟩
      · intro x hx
        simp only [List.mem_append, List.mem_singleton] at hx
        rcases hx with hx | hx
        · exact i1 x hx
        · subst hx; exact h1
      · rw [digitsVal_append, i2]
        simp [digitsVal, h2]; omega
      · refine ⟨c, cs ++ [Nat.digitChar (n % 10)], by rw [i3]; rfl, ?_⟩
        intro hc
        have := (i4 hc).1
        omega

theorem natTok_toDigits (n : Nat) : natTok (Nat.toDigits 10 n) = true := by
  obtain ⟨h1, _, c, cs, h3, h4⟩ := toDigits_spec n
  simp only [natTok, Bool.or_eq_true]
  by_cases hc : c = '0'
  · left
    obtain ⟨_, hcs⟩ := h4 hc
    rw [h3, hc, hcs]; rfl
  · right
    rw [h3]
    simp only [Bool.and_eq_true, bne_iff_ne, ne_eq, hc, not_false_eq_true, true_and]
    rw [← h3, List.all_eq_true]
    exact h1

/-- **`{}` of an integer is a JSON number denoting that integer** -/
theorem intTok_toString (i : Int) : IntTok i (toString i).toList := by
  rw [Int.toString_eq_repr, Int.repr_eq_if]
  by_cases h : 0 ≤ i
  · simp only [h, if_true, Nat.toList_repr]
    have := IntTok.pos (natTok_toDigits i.toNat)
    rw [(toDigits_spec i.toNat).2.1] at this
    have e : ((i.toNat : Nat) : Int) = i := by omega
    rw [e] at this; exact this
  · simp only [h, if_false, String.toList_append, Nat.toList_repr]
    have := IntTok.neg (natTok_toDigits (-i).toNat)
    rw [(toDigits_spec (-i).toNat).2.1] at this
    have e : -(((-i).toNat : Nat) : Int) = i := by omega
    rw [e] at this
    simpa using this

end JV.Json
