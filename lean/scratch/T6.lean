import JulianVerif.Lemmas.JsonValid
open JV Cli
example : (match Cli.main 0 [[45, 74], [50,50,57,57,49,54,49]] with | .out _ => true | _ => false) = false := by decide
