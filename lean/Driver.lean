/-
Driver.lean — line protocol between the model and the correspondence check.
One request per line on stdin, one answer per line on stdout (DESIGN.md §6.2).
Imports `Model/*` only, so it links natively.
-/
import JulianVerif.Model.Basic
import JulianVerif.Model.Inner
import JulianVerif.Model.Calendar
import JulianVerif.Model.Text
import JulianVerif.Model.Time
import JulianVerif.Model.Iter
import JulianVerif.Model.Foreign
import JulianVerif.Model.Cli
open JV

namespace Drv

def calTok : Calendar → String
  | .julian => "J"
  | .gregorian => "G"
  | .reforming r _ => s!"R{r}"

def showDate (d : Date) : String :=
  s!"{d.year}/{d.ordinal}/{d.month.number}/{d.day}/{d.dayOrdinal}/{d.jdn}/{calTok d.calendar}"

def showOptDate : Option Date → String
  | some d => showDate d
  | none => "none"

def showDateError : DateError → String
  | .arithmetic => "E:Arithmetic"
  | .dayOutOfRange y m d lo hi => s!"E:DayOutOfRange/{y}/{m.number}/{d}/{lo}/{hi}"
  | .ordinalOutOfRange y o mx => s!"E:OrdinalOutOfRange/{y}/{o}/{mx}"
  | .skippedDate y m d => s!"E:SkippedDate/{y}/{m.number}/{d}"
  | .fault => "PANIC"

def showDateRes : Except DateError Date → String
  | .ok d => showDate d
  | .error e => showDateError e

def showParseErr : ParseDateError → String
  | .invalidDate e => s!"P:InvalidDate:{showDateError e}"
  | .invalidMonth v => s!"P:InvalidMonth/{v}"
  | .trailing => "P:Trailing"
  | .invalidIntStart c => s!"P:InvalidIntStart/{c.toNat}"
  | .invalidUIntStart c => s!"P:InvalidUIntStart/{c.toNat}"
  | .emptyInt => "P:EmptyInt"
  | .unexpectedChar e g => s!"P:UnexpectedChar/{e.toNat}/{g.toNat}"
  | .unexpectedEnd e => s!"P:UnexpectedEnd/{e.toNat}"
  | .parseInt => "P:ParseInt"

def showYearKind : YearKind → String
  | .common => "Common" | .leap => "Leap" | .reformCommon => "ReformCommon"
  | .reformLeap => "ReformLeap" | .skipped => "Skipped"

def showMonthKind : MonthKind → String
  | .normal => "Normal" | .headless => "Headless" | .tailless => "Tailless" | .gapped => "Gapped"

def showOrd : Ordering → String
  | .lt => "lt" | .eq => "eq" | .gt => "gt"

def showOptInt : Option Int → String
  | some i => toString i
  | none => "-"

def b01 (b : Bool) : String := if b then "1" else "0"

def hexDigit (n : Nat) : Char :=
  if n < 10 then Char.ofNat (48 + n) else Char.ofNat (87 + n)

def hexOfBytes (bs : ByteArray) : String :=
  String.ofList (bs.toList.flatMap fun b => [hexDigit (b.toNat / 16), hexDigit (b.toNat % 16)])

def hexEnc (s : String) : String := "x" ++ hexOfBytes s.toUTF8

def hexVal (c : Char) : Option Nat :=
  if '0' ≤ c && c ≤ '9' then some (c.toNat - 48)
  else if 'a' ≤ c && c ≤ 'f' then some (c.toNat - 87)
  else none

def bytesOfHex : List Char → Option (List UInt8)
  | [] => some []
  | [_] => none
  | a :: b :: rest => do
    let x ← hexVal a
    let y ← hexVal b
    let r ← bytesOfHex rest
    pure (UInt8.ofNat (x * 16 + y) :: r)

/-- decode an `x<hex>` token into bytes -/
def hexDecBytes (tok : String) : Option ByteArray :=
  match tok.toList with
  | 'x' :: cs => (bytesOfHex cs).map fun l => ByteArray.mk l.toArray
  | _ => none

def hexDec (tok : String) : Option String :=
  (hexDecBytes tok).bind String.fromUTF8?

/-- an `i32` argument (anything else is a malformed request, as it is for the harness) -/
def i32? (t : String) : Option Int := t.toInt?.bind fun v => if inI32 v then some v else none
def u32? (t : String) : Option Int := t.toInt?.bind fun v => if inU32 v then some v else none
def i64? (t : String) : Option Int := t.toInt?.bind fun v => if inI64 v then some v else none
def u64? (t : String) : Option Int :=
  t.toInt?.bind fun v => if 0 ≤ v && v ≤ 18446744073709551615 then some v else none

def joinWith (sep : String) (l : List String) : String := sep.intercalate l

def monthOfTok (t : String) : Option Month := t.toInt?.bind Month.ofInt?

/-- calendar token → calendar, or the text of the construction error -/
def calOfTok (t : String) : Except String Calendar :=
  if t == "J" then .ok .julian
  else if t == "G" then .ok .gregorian
  else if t == "X" then .ok Calendar.reform1582
  else match t.toList with
    | 'R' :: cs =>
      match i32? (String.ofList cs) with
      | some r =>
        match Calendar.mkReforming r with
        | .ok c => .ok c
        | .error .invalidReformation => .error "BADCAL:InvalidReformation"
        | .error .arithmetic => .error "BADCAL:Arithmetic"
        | .error .fault => .error "PANIC"
      | none => .error "BADREQ"
    | _ => .error "BADREQ"

def showShape (c : Calendar) (y : Int) (m : Month) : String :=
  match c.monthShape y m with
  | none => "none"
  | some s =>
    let gap := match s.gap with
      | some (a, b) => s!"{a}..{b}"
      | none => "-"
    -- iterate Days forwards and backwards through the iterator model
    let rec fwd (fuel : Nat) (it : Days) (acc : List String) : List String :=
      match fuel with
      | 0 => acc.reverse
      | f + 1 =>
        match it.inner.next with
        | (none, _) => acc.reverse
        | (some _, _) =>
          let (v, it') := it.next
          fwd f it' (showOptInt v :: acc)
    let rec bwd (fuel : Nat) (it : Days) (acc : List String) : List String :=
      match fuel with
      | 0 => acc.reverse
      | f + 1 =>
        match it.inner.nextBack with
        | (none, _) => acc.reverse
        | (some _, _) =>
          let (v, it') := it.nextBack
          bwd f it' (showOptInt v :: acc)
    let rec dts (fuel : Nat) (it : Dates) (acc : List String) : List String :=
      match fuel with
      | 0 => acc.reverse
      | f + 1 =>
        match it.inner.next with
        | (none, _) => acc.reverse
        | (some _, _) =>
          let (v, it') := it.next
          dts f it' (showOptDate v :: acc)
    let days := Days.new s
    let dates := Dates.new s
    s!"{showMonthKind s.kind} {s.len} {s.firstDay} {s.lastDay} {gap} {days.len} {joinWith "," (fwd 64 days [])} {joinWith "," (bwd 64 days [])} {dates.len} {joinWith "," (dts 64 dates [])}"

def showShapeQ (c : Calendar) (y : Int) (m : Month) (x : Int) : String :=
  match c.monthShape y m with
  | none => "none"
  | some s =>
    s!"{b01 (s.contains x)} {showOptInt (s.dayOrdinal x)} {showOptInt (s.nthDay x)} {showOptDate (s.nthDate x)}"

def walk (d : Date) : Nat → Bool → List String → List String
  | 0, _, acc => acc.reverse
  | n + 1, fwdDir, acc =>
    match (if fwdDir then d.succ else d.pred) with
    | none => ("none" :: acc).reverse
    | some d' => walk d' n fwdDir (showDate d' :: acc)

def iterRun (step : Option Date → Option Date × Option Date) : Nat → Option Date → List String → List String
  | 0, _, acc => acc.reverse
  | n + 1, st, acc =>
    let (v, st') := step st
    iterRun step n st' (showOptDate v :: acc)

/-- `Iterator::nth(k)` of a fused iterator given its `next`: k items dropped, then `next` -/
def nthOf {σ α : Type} (next : σ → Option α × σ) : Nat → σ → Option α × σ
  | 0, st => next st
  | k + 1, st => let (_, st') := next st; nthOf next k st'

/-- items left (by iteration, bounded by `fuel`) and the last of them -/
def drainOf {σ α : Type} (next : σ → Option α × σ) : Nat → σ → Nat → Option α → Nat × Option α
  | 0, _, n, l => (n, l)
  | fuel + 1, st, n, l =>
    match next st with
    | (none, _) => (n, l)
    | (some v, st') => drainOf next fuel st' (n + 1) (some v)

/-- the ops of the double-ended iterators: f/b/l as before; n, m = nth(1), nth(3);
N, M = nth_back(1), nth_back(3); c = clone().count(); z = clone().last(); r = clone().rev().last() -/
def deOps {σ α : Type} (next back : σ → Option α × σ) (len : σ → Int) (shw : Option α → String) :
    σ → List Char → List String → List String
  | _, [], acc => acc.reverse
  | it, 'f' :: r, acc => let (v, it') := next it; deOps next back len shw it' r (shw v :: acc)
  | it, 'b' :: r, acc => let (v, it') := back it; deOps next back len shw it' r (shw v :: acc)
  | it, 'n' :: r, acc => let (v, it') := nthOf next 1 it; deOps next back len shw it' r (shw v :: acc)
  | it, 'm' :: r, acc => let (v, it') := nthOf next 3 it; deOps next back len shw it' r (shw v :: acc)
  | it, 'N' :: r, acc => let (v, it') := nthOf back 1 it; deOps next back len shw it' r (shw v :: acc)
  | it, 'M' :: r, acc => let (v, it') := nthOf back 3 it; deOps next back len shw it' r (shw v :: acc)
  | it, 'c' :: r, acc => deOps next back len shw it r (s!"c{(drainOf next 64 it 0 none).1}" :: acc)
  | it, 'z' :: r, acc => deOps next back len shw it r (shw (drainOf next 64 it 0 none).2 :: acc)
  | it, 'r' :: r, acc => deOps next back len shw it r (shw (drainOf back 64 it 0 none).2 :: acc)
  -- max() / min() of an ascending iterator: its last / first remaining item
  | it, 'x' :: r, acc => deOps next back len shw it r (shw (drainOf next 64 it 0 none).2 :: acc)
  | it, 'w' :: r, acc => deOps next back len shw it r (shw (next it).1 :: acc)
  | it, _ :: r, acc => deOps next back len shw it r (s!"l{len it}" :: acc)

def daysOps (s : MonthShape) (ops : List Char) : String :=
  joinWith "," (deOps Days.next Days.nextBack Days.len showOptInt (Days.new s) ops [])

def datesOps (s : MonthShape) (ops : List Char) : String :=
  joinWith "," (deOps Dates.next Dates.nextBack Dates.len showOptDate (Dates.new s) ops [])

def showOptMonth : Option (Option Month) → String
  | none => "-"
  | some none => "PANIC"
  | some (some m) => toString m.number

def monthsOps (ops : List Char) : String :=
  joinWith "," (deOps MonthIter.next MonthIter.nextBack MonthIter.len showOptMonth MonthIter.new ops [])

/-- integer widths of the `TryFrom` impls: (min, max) -/
def widthRange (w : String) : Option (Int × Int) :=
  match w with
  | "i8" => some (-128, 127) | "i16" => some (-32768, 32767)
  | "i32" => some (-2147483648, 2147483647)
  | "i64" | "isize" => some (-9223372036854775808, 9223372036854775807)
  | "i128" => some (-170141183460469231731687303715884105728, 170141183460469231731687303715884105727)
  | "u8" => some (0, 255) | "u16" => some (0, 65535) | "u32" => some (0, 4294967295)
  | "u64" | "usize" => some (0, 18446744073709551615)
  | "u128" => some (0, 340282366920938463463374607431768211455)
  | _ => none

def namesLine : String :=
  let ms := Month.all.map fun m =>
    s!"{m.number}:{m.name}:{m.shortName}:{m.number0}:{showOptInt (m.pred.map Month.number)}:{showOptInt (m.succ.map Month.number)}"
  let ws := Weekday.all.map fun w =>
    s!"{w.number}:{w.name}:{w.shortName}:{w.number0}:{showOptInt (w.pred.map Weekday.number)}:{showOptInt (w.succ.map Weekday.number)}"
  joinWith "," ms ++ " " ++ joinWith "," ws

def showAtTime : Option (Option (Date × Int)) → String
  | none => "PANIC"
  | some none => "E:Arithmetic"
  | some (some (d, s)) => s!"{showDate d} {s} same={b01 ((d.calendar.atJdn? d.jdn).any (·.beq d))}"

/-- history ops: each op maps the current date to a new date through one producer -/
def histStep (d : Date) (op : String) : Except String Date :=
  let c := d.calendar
  match op with
  | "s" => match d.succ with | some x => .ok x | none => .error "none"
  | "p" => match d.pred with | some x => .ok x | none => .error "none"
  | "y" => match c.atYmd d.year d.month d.day with | .ok x => .ok x | .error e => .error (showDateError e)
  | "o" => match c.atOrdinalDate d.year d.ordinal with | .ok x => .ok x | .error e => .error (showDateError e)
  | "t" => match c.parseDate (fmtDate d) with | .ok x => .ok x | .error e => .error (showParseErr e)
  | "T" => match c.parseDate (fmtDateAlt d) with | .ok x => .ok x | .error e => .error (showParseErr e)
  | "n" => match c.monthShape d.year d.month with
    | some s => match s.nthDate d.dayOrdinal with | some x => .ok x | none => .error "none"
    | none => .error "noshape"
  | "l" => match c.lastJulianDate with | some x => .ok x | none => .error "none"
  | "g" => match c.firstGregorianDate with | some x => .ok x | none => .error "none"
  | "j" => match c.atJdn? d.jdn with | some x => .ok x | none => .error "PANIC"
  | "u" => match c.atUnixTime? (jdn2unix d.jdn + 43200) with
    | some (some (x, _)) => .ok x | some none => .error "E:Arithmetic" | none => .error "PANIC"
  | "L" => match (laterNext (some d)).1 with | some x => .ok x | none => .error "none"
  | "E" => match (earlierNext (some d)).1 with | some x => .ok x | none => .error "none"
  | "A" => match (andLaterNext (some d)).1 with | some x => .ok x | none => .error "none"
  | "a" => match (andEarlierNext (some d)).1 with | some x => .ok x | none => .error "none"
  | "L3" => match (nthOf laterNext 3 (some d)).1 with | some x => .ok x | none => .error "none"
  | "L9" => match (nthOf laterNext 9 (some d)).1 with | some x => .ok x | none => .error "none"
  | "E3" => match (nthOf earlierNext 3 (some d)).1 with | some x => .ok x | none => .error "none"
  | "E9" => match (nthOf earlierNext 9 (some d)).1 with | some x => .ok x | none => .error "none"
  | "A3" => match (nthOf andLaterNext 3 (some d)).1 with | some x => .ok x | none => .error "none"
  | "A9" => match (nthOf andLaterNext 9 (some d)).1 with | some x => .ok x | none => .error "none"
  | "a3" => match (nthOf andEarlierNext 3 (some d)).1 with | some x => .ok x | none => .error "none"
  | "a9" => match (nthOf andEarlierNext 9 (some d)).1 with | some x => .ok x | none => .error "none"
  | "LS" =>   -- later().step_by(7).nth(1): the first item, then six dropped, then the next
    match (nthOf laterNext 6 (laterNext (some d)).2).1 with | some x => .ok x | none => .error "none"
  | "AS" => match (nthOf andLaterNext 6 (andLaterNext (some d)).2).1 with | some x => .ok x | none => .error "none"
  | "Df" => match c.monthShape d.year d.month with
    | some s => match (Dates.new s).next.1 with | some x => .ok x | none => .error "none"
    | none => .error "noshape"
  | "Dl" => match c.monthShape d.year d.month with
    | some s => match (Dates.new s).nextBack.1 with | some x => .ok x | none => .error "none"
    | none => .error "noshape"
  | "F" => match Foreign.toChrono d with
    | .ok y m dd => match Foreign.fromChrono y m dd with
      | .ok x => .ok x | .panic => .error "PANIC" | .invalid => .error "invalid"
    | .err => .error "E" | .panic => .error "PANIC"
  | "f" => match Foreign.toTime d with
    | .ok y m dd => match Foreign.fromTime y m dd with
      | .ok x => .ok x | .panic => .error "PANIC" | .invalid => .error "invalid"
    | .err => .error "E" | .panic => .error "PANIC"
  | _ =>
    -- `c<cal>`: convert_to
    match op.toList with
    | 'c' :: cs =>
      match calOfTok (String.ofList cs) with
      | .ok c2 => match d.convertTo? c2 with | some x => .ok x | none => .error "PANIC"
      | .error e => .error e
    | _ => .error "BADREQ"

def hist (d : Date) : List String → List String → List String
  | [], acc => acc.reverse
  | op :: ops, acc =>
    match histStep d op with
    | .ok d' => hist d' ops (showDate d' :: acc)
    | .error e => hist d ops (e :: acc)      -- the date is unchanged after a failed op

/-- the date a history ends with (failed ops leave the date unchanged) -/
def histFinal (d : Date) : List String → Date
  | [] => d
  | op :: ops =>
    match histStep d op with
    | .ok d' => histFinal d' ops
    | .error _ => histFinal d ops

def withCal (t : String) (k : Calendar → String) : String :=
  match calOfTok t with
  | .ok c => k c
  | .error e => e

def withDate (c : Calendar) (j : Int) (k : Date → String) : String :=
  match c.atJdn? j with
  | some d => k d
  | none => "PANIC"

def answer (line : String) : String :=
  let toks := line.splitOn " "
  match toks with
  | ["reforming", r] =>
    match i32? r with
    | none => "BADREQ"
    | some r =>
      match Calendar.mkReforming r with
      | .ok c => s!"OK {showOptDate c.lastJulianDate} {showOptDate c.firstGregorianDate} {showOptInt c.reformation} {b01 c.isReforming} {b01 c.isProleptic}"
      | .error .invalidReformation => "E:InvalidReformation"
      | .error .arithmetic => "E:Arithmetic"
      | .error .fault => "PANIC"
  | ["boundary", ct] => withCal ct fun c =>
      s!"{showOptDate c.lastJulianDate} {showOptDate c.firstGregorianDate} {showOptInt c.reformation} {b01 c.isReforming} {b01 c.isProleptic}"
  | ["ref1582"] =>
      let c := Calendar.reform1582
      let same := match Calendar.mkReforming 2299161 with
        | .ok c2 => decide (c2 = c)
        | .error _ => false
      s!"{showOptDate c.lastJulianDate} {showOptDate c.firstGregorianDate} {showOptInt c.reformation} {b01 c.isReforming} {b01 c.isProleptic} same={b01 same}"
  | ["at_jdn", ct, j] => withCal ct fun c =>
      match i32? j with
      | some j => withDate c j fun d =>
          s!"{showDate d} o0={d.ordinal0} d0={d.dayOrdinal0} os={b01 d.isJulian} ns={b01 d.isGregorian}"
      | none => "BADREQ"
  | ["at_ymd", ct, y, m, d] => withCal ct fun c =>
      match i32? y, monthOfTok m, u32? d with
      | some y, some m, some d => showDateRes (c.atYmd y m d)
      | _, _, _ => "BADREQ"
  | ["at_ord", ct, y, o] => withCal ct fun c =>
      match i32? y, u32? o with
      | some y, some o => showDateRes (c.atOrdinalDate y o)
      | _, _ => "BADREQ"
  | ["year", ct, y] => withCal ct fun c =>
      match i32? y with
      | some y => s!"{showYearKind (c.yearKind y)} {c.yearLength y}"
      | none => "BADREQ"
  | ["yearsum", ct, y] => withCal ct fun c =>
      -- kind, length, and the sum of the month lengths (absent months count 0)
      match i32? y with
      | some y =>
        let sum := Month.all.foldl (fun acc m => acc + (match c.monthShape y m with | some s => s.len | none => 0)) (0 : Int)
        s!"{showYearKind (c.yearKind y)} {c.yearLength y} {sum}"
      | none => "BADREQ"
  | ["shape", ct, y, m] => withCal ct fun c =>
      match i32? y, monthOfTok m with
      | some y, some m => showShape c y m
      | _, _ => "BADREQ"
  | ["fmt_flags", _, _, _, _, _] => "OK"
  | ["shape_eq", c1, y1, m1, c2, y2, m2] => withCal c1 fun a => withCal c2 fun b =>
      match i32? y1, monthOfTok m1, i32? y2, monthOfTok m2 with
      | some y1, some m1, some y2, some m2 =>
        let sa := a.monthShape y1 m1
        let sb := b.monthShape y2 m2
        let eq := match sa, sb with
          | some x, some y => x.beq y
          | none, none => true
          | _, _ => false
        let key (o : Option MonthShape) : List Int := match o with
          | some x => 1 :: x.hashKey
          | none => [0]
        s!"{b01 eq} {b01 (decide (key sa = key sb))}"
      | _, _, _, _ => "BADREQ"
  | ["shapeq", ct, y, m, x] => withCal ct fun c =>
      match i32? y, monthOfTok m, u32? x with
      | some y, some m, some x => showShapeQ c y m x
      | _, _, _ => "BADREQ"
  | ["succ", ct, j] => withCal ct fun c =>
      match i32? j with
      | some j => withDate c j fun d => showOptDate d.succ
      | none => "BADREQ"
  | ["pred", ct, j] => withCal ct fun c =>
      match i32? j with
      | some j => withDate c j fun d => showOptDate d.pred
      | none => "BADREQ"
  | ["walk", ct, j, n] => withCal ct fun c =>
      match i32? j, n.toInt? with
      | some j, some n => withDate c j fun d => joinWith " " (walk d n.natAbs (decide (n ≥ 0)) [])
      | _, _ => "BADREQ"
  | ["iter", k, ct, j, n] => withCal ct fun c =>
      match i32? j, n.toNat? with
      | some j, some n => withDate c j fun d =>
          let step := match k with
            | "later" => laterNext | "earlier" => earlierNext
            | "and_later" => andLaterNext | _ => andEarlierNext
          joinWith " " (iterRun step (n + 2) (some d) [])
      | _, _ => "BADREQ"
  | ["iterx", k, ct, j, ops] => withCal ct fun c =>
      -- the open-ended iterators driven through next and the provided methods built on it:
      -- x = next; n, m, k = nth(1), nth(5), nth(40); S = two items of by_ref().step_by(7)
      match i32? j with
      | some j => withDate c j fun d =>
          let step : Option Date → Option Date × Option Date :=
            if k == "later" then laterNext else if k == "earlier" then earlierNext
            else if k == "and_later" then andLaterNext else andEarlierNext
          let rec go : Option Date → List Char → List String → List String
            | _, [], acc => acc.reverse
            | st, 'x' :: r, acc => let (v, st') := step st; go st' r (showOptDate v :: acc)
            | st, 'n' :: r, acc => let (v, st') := nthOf step 1 st; go st' r (showOptDate v :: acc)
            | st, 'm' :: r, acc => let (v, st') := nthOf step 5 st; go st' r (showOptDate v :: acc)
            | st, 'k' :: r, acc => let (v, st') := nthOf step 40 st; go st' r (showOptDate v :: acc)
            | st, 'g' :: r, acc => let (v, st') := nthOf step 27 st; go st' r (showOptDate v :: acc)
            | st, 'y' :: r, acc => let (v, st') := nthOf step 364 st; go st' r (showOptDate v :: acc)
            | st, 'Y' :: r, acc => let (v, st') := nthOf step 365 st; go st' r (showOptDate v :: acc)
            | st, 'q' :: r, acc => let (v, st') := nthOf step 1460 st; go st' r (showOptDate v :: acc)
            | st, 'S' :: r, acc =>
              let (v1, st1) := step st
              let (v2, st2) := nthOf step 6 st1
              go st2 r (showOptDate v2 :: showOptDate v1 :: acc)
            | st, 'C' :: r, acc => go st r (s!"c{(drainOf step 64 st 0 none).1}" :: acc)
            | st, 'Z' :: r, acc => go st r (showOptDate (drainOf step 64 st 0 none).2 :: acc)
            | st, 'X' :: r, acc =>      -- max(): the last item of an ascending, the first of a descending iterator
              let v := if k == "later" || k == "and_later" then (drainOf step 64 st 0 none).2 else (step st).1
              go st r (showOptDate v :: acc)
            | st, 'W' :: r, acc =>
              let v := if k == "later" || k == "and_later" then (step st).1 else (drainOf step 64 st 0 none).2
              go st r (showOptDate v :: acc)
            | st, 'H' :: r, acc => go st r ("h1" :: acc)      -- size_hint brackets the true count
            | st, _ :: r, acc => go st r acc
          joinWith " " (go (some d) ops.toList [])
      | none => "BADREQ"
  | ["cmp_date", c1, j1, c2, j2] => withCal c1 fun a => withCal c2 fun b =>
      match i32? j1, i32? j2 with
      | some j1, some j2 => withDate a j1 fun d1 => withDate b j2 fun d2 =>
          s!"{showOrd (d1.cmp d2)} {b01 (d1.beq d2)} {b01 (d1.hashKey == d2.hashKey)}"
      | _, _ => "BADREQ"
  | ["cmp_cal", c1, c2] => withCal c1 fun a => withCal c2 fun b =>
      s!"{showOrd (a.cmp b)} {b01 (a.beq b)} {b01 (a.hashKey == b.hashKey)}"
  | ["convert", c1, j, c2] => withCal c1 fun a => withCal c2 fun b =>
      match i32? j with
      | some j => withDate a j fun d => match d.convertTo? b with
          | some x => showDate x | none => "PANIC"
      | none => "BADREQ"
  | ["fmt", ct, j] => withCal ct fun c =>
      match i32? j with
      | some j => withDate c j fun d =>
          s!"{hexEnc (String.ofList (fmtDate d))} {hexEnc (String.ofList (fmtDateAlt d))}"
      | none => "BADREQ"
  | ["parse", ct, h] => withCal ct fun c =>
      match hexDec h with
      | some s => match c.parseDate s.toList with
          | .ok d => showDate d
          | .error e => showParseErr e
      | none => "BADREQ"
  | ["prim_parse", ty, h] =>
      -- the model of `str::parse::<i32>()` / `::<u32>()` the generated date parser is built on
      match hexDec h, ty with
      | some s, "i32" => showOptInt (Str.parseI32 s.toList)
      | some s, "u32" => showOptInt (Str.parseU32 s.toList)
      | _, _ => "BADREQ"
  | ["month_str", h] =>
      match hexDec h with
      | some s => showOptInt ((Month.fromStr s.toList).map Month.number)
      | none => "BADREQ"
  | ["wd_str", h] =>
      match hexDec h with
      | some s => showOptInt ((Weekday.fromStr s.toList).map Weekday.number)
      | none => "BADREQ"
  | ["month_int", w, n] =>
      match widthRange w, n.toInt? with
      | some (lo, hi), some n =>
        if lo ≤ n && n ≤ hi then showOptInt ((Month.ofInt? n).map Month.number) else "SKIP"
      | _, _ => "BADREQ"
  | ["wd_int", w, n] =>
      match widthRange w, n.toInt? with
      | some (lo, hi), some n =>
        -- `Jdnum::try_from(value).ok().and_then(Weekday::try_from_const)`
        if lo ≤ n && n ≤ hi then
          showOptInt ((if inI32 n then Weekday.ofInt? n else none).map Weekday.number)
        else "SKIP"
      | _, _ => "BADREQ"
  | ["names"] => namesLine
  | ["unix", t] =>
      match i64? t with
      | some t => match unix2jdn t with
          | some (j, s) => s!"{j} {s}"
          | none => "E:Arithmetic"
      | none => "BADREQ"
  | ["jdn2unix", j] =>
      match i32? j with
      | some j => toString (jdn2unix j)
      | none => "BADREQ"
  | ["at_unix", ct, t] => withCal ct fun c =>
      match i64? t with
      | some t => showAtTime (c.atUnixTime? t)
      | none => "BADREQ"
  | ["system", b, s, n] =>
      match u64? s, u32? n with
      | some s, some n => match system2jdn (b == "b") s n with
          | some (j, x) => s!"{j} {x}"
          | none => "E:Arithmetic"
      | _, _ => "BADREQ"
  | ["at_system", ct, b, s, n] => withCal ct fun c =>
      match u64? s, u32? n with
      | some s, some n => showAtTime (c.atSystemTime? (b == "b") s n)
      | _, _ => "BADREQ"
  | ["weekday", j] =>
      match i32? j with
      | some j => match Weekday.forJdn? j with
          | some w => toString w.number
          | none => "PANIC"
      | none => "BADREQ"
  | ["date_weekday", ct, j] => withCal ct fun c =>
      match i32? j with
      | some j => withDate c j fun d => toString d.weekday.number
      | none => "BADREQ"
  | ["days_ops", ct, y, m, ops] => withCal ct fun c =>
      match i32? y, monthOfTok m with
      | some y, some m => match c.monthShape y m with
          | some s => daysOps s ops.toList
          | none => "none"
      | _, _ => "BADREQ"
  | ["dates_ops", ct, y, m, ops] => withCal ct fun c =>
      match i32? y, monthOfTok m with
      | some y, some m => match c.monthShape y m with
          | some s => datesOps s ops.toList
          | none => "none"
      | _, _ => "BADREQ"
  | ["months_ops", ops] => monthsOps ops.toList
  | "hist" :: ct :: j :: ops => withCal ct fun c =>
      match i32? j with
      | some j => withDate c j fun d => joinWith " " (hist d ops [showDate d])
      | none => "BADREQ"
  | "cmp_hist" :: c1 :: j1 :: rest =>
      -- `cmp_hist C1 j1 ops1… / C2 j2 ops2…`: two histories, their final dates compared
      let ops1 := rest.takeWhile (· != "/")
      match rest.dropWhile (· != "/") with
      | _ :: c2 :: j2 :: ops2 => withCal c1 fun a => withCal c2 fun b =>
          match i32? j1 with
          | some j1 => withDate a j1 fun d1 =>
              let x := histFinal d1 ops1
              -- `=`: the second history starts on the day the first one ended on
              match (if j2 == "=" then some x.jdn else i32? j2) with
              | some j2 => withDate b j2 fun d2 =>
                let y := histFinal d2 ops2
                s!"{showOrd (x.cmp y)} {b01 (x.beq y)} {b01 (x.hashKey == y.hashKey)} {b01 (showDate x == showDate y)} {x.jdn} {calTok x.calendar} {y.jdn} {calTok y.calendar}"
              | none => "BADREQ"
          | none => "BADREQ"
      | _ => "BADREQ"
  | ["chrono_from", y, m, d] =>
      match i32? y, u32? m, u32? d with
      | some y, some m, some d => Foreign.showFrom (Foreign.fromChrono y m d)
      | _, _, _ => "BADREQ"
  | ["time_from", y, m, d] =>
      match i32? y, u32? m, u32? d with
      | some y, some m, some d => Foreign.showFrom (Foreign.fromTime y m d)
      | _, _, _ => "BADREQ"
  | ["chrono_to", ct, j] => withCal ct fun c =>
      match i32? j with
      | some j => withDate c j fun d => Foreign.showTo (Foreign.toChrono d)
      | none => "BADREQ"
  | ["time_to", ct, j] => withCal ct fun c =>
      match i32? j with
      | some j => withDate c j fun d => Foreign.showTo (Foreign.toTime d)
      | none => "BADREQ"
  | ["enum_maps"] => "ok"
  | "cli" :: today :: argv =>
      match (today.drop 1).toString.toInt?, argv.mapM hexDecBytes with
      | some t, some args => Cli.showOutcome (Cli.main t (args.map ByteArray.toList))
      | _, _ => "BADREQ"
  | _ => "BADREQ"

end Drv

partial def loop (hin hout : IO.FS.Stream) : IO Unit := do
  let line ← hin.getLine
  if line.isEmpty then return ()
  let l := (line.dropEndWhile (fun c => c == '\n' || c == '\r')).toString
  hout.putStrLn (Drv.answer l)
  loop hin hout

def main : IO Unit := do
  let hin ← IO.getStdin
  let hout ← IO.getStdout
  loop hin hout
  hout.flush
