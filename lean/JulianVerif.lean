import JulianVerif.Model.Basic
import JulianVerif.Model.Inner
import JulianVerif.Model.Calendar
import JulianVerif.Model.Text
import JulianVerif.Model.Time
import JulianVerif.Model.Iter
import JulianVerif.Model.Foreign
import JulianVerif.Model.Cli
