"""
bin/rustparse.py — lexer and parser for the subset of Rust that crates/julian/src/{lib,inner}.rs
use in their `const fn` bodies.  Used by bin/libgen (the translator of lib.rs to Lean).

The parser is deliberately strict: any construct it does not know raises `Unsupported`, which
the caller turns into "this function is not generated" — never into a guess.

AST (tuples):
  types:   "i32" | ("path", "inner::Date") | ("generic", "Option", [T..]) | ("tuple", [T..]) | ("ref", T)
  exprs:   ("int", n) ("bool", b) ("str", s) ("path", "a::b") ("field", e, name) ("tfield", e, idx)
           ("method", name, recv, args) ("call", path, args) ("bin", op, a, b) ("neg", e) ("not", e)
           ("deref", e) ("ref", e) ("cast", e, T) ("paren", e) ("tuple", [e..]) ("unit",)
           ("if", c, blk, els) ("iflet", pat, scrut, blk, els) ("match", scrut, [(pats, guard, body)..])
           ("block", stmts, tail) ("return", e|None) ("struct", path, [(field, e)..])
           ("matches", e, pats, guard) ("macro", name, args) ("range", a, b)
  pats:    ("pwild",) ("pbind", name) ("pint", n) ("ppath", path) ("ptuple", [p..])
           ("pstruct", path, [(field, p)..], has_rest) ("pctor", path, [p..])
  stmts:   ("let", pat, T|None, e, mut) ("letelse", pat, e, blk) ("assign", lhs, e) ("opassign", lhs, op, e)
           ("expr", e) ("assert", cond) ("use", path) ("forin", var, [e..], blk)
"""
import re


class Unsupported(Exception):
    pass


TOKEN_RE = re.compile(r"""
    (?P<ws>\s+|//[^\n]*|/\*.*?\*/)
  | (?P<attr>\#!?\[(?:[^\[\]]|\[[^\]]*\])*\])
  | (?P<str>"(?:[^"\\]|\\.)*")
  | (?P<chr>'(?:[^'\\]|\\.)')
  | (?P<life>'[A-Za-z_]\w*)
  | (?P<int>[0-9][0-9_]*(?:[iu](?:8|16|32|64|128|size))?)
  | (?P<id>[A-Za-z_][A-Za-z0-9_]*!?)
  | (?P<op>->|=>|==|!=|<=|>=|&&|\|\||\+=|-=|\*=|/=|%=|::|\.\.=|\.\.|[-+*/%<>=!&|.,;:(){}\[\]?@\#$])
""", re.X | re.S)


def lex(src):
    out = []
    pos = 0
    n = len(src)
    while pos < n:
        m = TOKEN_RE.match(src, pos)
        if not m:
            raise Unsupported("cannot tokenize at %r" % src[pos:pos + 20])
        pos = m.end()
        k = m.lastgroup
        if k in ("ws", "attr"):
            continue
        out.append((k, m.group(k)))
    out.append(("eof", ""))
    return out


def expand_alts(pat):
    """`(A | B)` and `x @ (A | B)` as separate alternatives"""
    if pat[0] == "por":
        out = []
        for q in pat[1]:
            out += expand_alts(q)
        return out
    if pat[0] == "pat":
        return [("pat", pat[1], q) for q in expand_alts(pat[2])]
    return [pat]


class P:
    def __init__(self, toks):
        self.t = toks
        self.i = 0

    def peek(self, k=0):
        j = self.i + k
        return self.t[j][1] if j < len(self.t) else ""

    def kind(self, k=0):
        j = self.i + k
        return self.t[j][0] if j < len(self.t) else "eof"

    def next(self):
        v = self.t[self.i]
        self.i += 1
        return v[1]

    def eat(self, s):
        if self.peek() != s:
            raise Unsupported("expected %r, found %r (token %d: …%s…)" % (
                s, self.peek(), self.i, " ".join(x[1] for x in self.t[max(0, self.i - 6):self.i + 3])))
        self.i += 1

    def at(self, s):
        return self.peek() == s and self.kind() != "str"

    def skip_balanced(self, open_, close):
        depth = 0
        while True:
            if self.kind() == "eof":
                raise Unsupported("unbalanced")
            v = self.next()
            if v == open_:
                depth += 1
            elif v == close:
                depth -= 1
                if depth == 0:
                    return

    # ---------------------------------------------------------------- types
    def path(self):
        name = self.next()
        while self.at("::"):
            self.eat("::")
            if self.at("<"):           # turbofish: not supported
                raise Unsupported("turbofish")
            name += "::" + self.next()
        return name

    def ty(self):
        if self.at("&"):
            self.eat("&")
            if self.kind() == "life":
                self.next()
            if self.at("mut"):
                self.eat("mut")
            return ("ref", self.ty())
        if self.at("("):
            self.eat("(")
            ts = []
            while not self.at(")"):
                ts.append(self.ty())
                if self.at(","):
                    self.eat(",")
            self.eat(")")
            if not ts:
                return "unit"
            return ("tuple", ts)
        if self.kind() != "id":
            raise Unsupported("type at %r" % self.peek())
        name = self.path()
        if self.at("<"):
            self.eat("<")
            args = []
            while not self.at(">"):
                if self.kind() == "life":
                    self.next()
                else:
                    args.append(self.ty())
                if self.at(","):
                    self.eat(",")
            self.eat(">")
            if not args:
                return ("path", name)          # lifetimes only: `DateParser<'a>`
            return ("generic", name, args)
        return ("path", name)

    # ---------------------------------------------------------------- expressions
    BIN = [("||",), ("&&",), ("==", "!=", "<", "<=", ">", ">="), ("+", "-"), ("*", "/", "%")]

    def expr(self, nostruct=False):
        e = self.binexpr(0, nostruct)
        if self.at("..="):
            self.eat("..=")
            r = self.binexpr(0, nostruct)
            return ("range", e, r)
        return e

    def binexpr(self, level, nostruct):
        if level == len(self.BIN):
            return self.cast(nostruct)
        lhs = self.binexpr(level + 1, nostruct)
        while self.peek() in self.BIN[level] and self.kind() == "op":
            op = self.next()
            rhs = self.binexpr(level + 1, nostruct)
            lhs = ("bin", op, lhs, rhs)
        return lhs

    def cast(self, nostruct):
        e = self.unary(nostruct)
        while self.at("as"):
            self.eat("as")
            e = ("cast", e, self.ty())
        return e

    def unary(self, nostruct):
        if self.at("-"):
            self.eat("-")
            e = self.unary(nostruct)
            if e[0] == "int":
                return ("int", -e[1])
            return ("neg", e)
        if self.at("!"):
            self.eat("!")
            return ("not", self.unary(nostruct))
        if self.at("*"):
            self.eat("*")
            return ("deref", self.unary(nostruct))
        if self.at("&"):
            self.eat("&")
            if self.at("mut"):
                self.eat("mut")
            return ("ref", self.unary(nostruct))
        return self.postfix(nostruct)

    def postfix(self, nostruct):
        e = self.primary(nostruct)
        while True:
            if self.at("."):
                self.eat(".")
                if self.kind() == "int":
                    e = ("tfield", e, int(self.next()))
                    continue
                name = self.next()
                if self.at("::") and self.peek(1) == "<":
                    # turbofish: `.parse::<i32>()` is the method `parse::<i32>`
                    self.eat("::")
                    self.eat("<")
                    t_ = self.ty()
                    self.eat(">")
                    if t_[0] != "path":
                        raise Unsupported("turbofish with %r" % (t_,))
                    name = name + "::<" + t_[1] + ">"
                if self.at("("):
                    e = ("method", name, e, self.args())
                else:
                    e = ("field", e, name)
            elif self.at("(") and e[0] == "path":
                e = ("call", e[1], self.args())
            elif self.at("?"):
                self.eat("?")
                e = ("try", e)
            else:
                return e

    def args(self):
        self.eat("(")
        a = []
        while not self.at(")"):
            a.append(self.expr())
            if self.at(","):
                self.eat(",")
        self.eat(")")
        return a

    def primary(self, nostruct):
        k, v = self.kind(), self.peek()
        if k == "int":
            self.next()
            return ("int", int(re.sub(r"[iu](8|16|32|64|128|size)$", "", v).replace("_", "")))
        if k == "str":
            self.next()
            return ("str", v)
        if k == "chr":
            self.next()
            return ("chr", v)
        if k != "id" and k != "op":
            raise Unsupported("unexpected token %r in expression" % v)
        if v == "(":
            self.eat("(")
            es = []
            trailing = False
            while not self.at(")"):
                es.append(self.expr())
                trailing = False
                if self.at(","):
                    self.eat(",")
                    trailing = True
            self.eat(")")
            if not es:
                return ("unit",)
            if len(es) == 1 and not trailing:
                return ("paren", es[0])
            return ("tuple", es)
        if v == "move" and self.peek(1) in ("|", "||"):
            self.next()                # `move |…| …`: capture mode does not change what the closure computes
            v = self.peek()
        if v == "|" or v == "||":
            params = []
            if v == "||":
                self.next()
            else:
                self.eat("|")
                while not self.at("|"):
                    params.append(self.pattern())
                    if self.at(":"):
                        self.eat(":")
                        self.ty()
                    if self.at(","):
                        self.eat(",")
                self.eat("|")
            body = self.expr(nostruct)
            return ("closure", params, body)
        if v == "if":
            return self.if_()
        if v == "match":
            self.eat("match")
            scrut = self.expr(nostruct=True)
            self.eat("{")
            arms = []
            while not self.at("}"):
                pats = self.pattern_alts()
                guard = None
                if self.at("if"):
                    self.eat("if")
                    guard = self.expr(nostruct=True)
                self.eat("=>")
                body = self.expr()
                arms.append((pats, guard, body))
                if self.at(","):
                    self.eat(",")
            self.eat("}")
            return ("match", scrut, arms)
        if v == "{":
            return self.block()
        if v == "return":
            self.eat("return")
            if self.peek() in (";", "}", ","):
                return ("return", None)
            return ("return", self.expr())
        if v == "true" or v == "false":
            self.next()
            return ("bool", v == "true")
        if v == "matches!":
            self.next()
            self.eat("(")
            e = self.expr()
            self.eat(",")
            pats = self.pattern_alts()
            guard = None
            if self.at("if"):
                self.eat("if")
                guard = self.expr()
            if self.at(","):
                self.eat(",")
            self.eat(")")
            return ("matches", e, pats, guard)
        if k == "id" and v.endswith("!"):
            self.next()
            if v == "write!":
                return ("macro", v, self.args())
            if v in ("unreachable!", "panic!", "unimplemented!", "todo!"):
                close = {"(": ")", "[": "]", "{": "}"}[self.peek()]
                self.skip_balanced(self.peek(), close)
                return ("macro", v, [])
            raise Unsupported("macro %s" % v)
        if k == "id":
            if v in ("loop", "while", "for", "unsafe", "move", "break", "continue", "let", "fn", "impl"):
                raise Unsupported("keyword %s in expression" % v)
            name = self.path()
            if self.at("{") and not nostruct and re.match(r"^(?:\w+::)*[A-Z]\w*$", name):
                self.eat("{")
                fields = []
                while not self.at("}"):
                    if self.at(".."):
                        raise Unsupported("functional record update")
                    f = self.next()
                    if self.at(":"):
                        self.eat(":")
                        fields.append((f, self.expr()))
                    else:
                        fields.append((f, ("path", f)))
                    if self.at(","):
                        self.eat(",")
                self.eat("}")
                return ("struct", name, fields)
            return ("path", name)
        raise Unsupported("unexpected token %r in expression" % v)

    def if_(self):
        self.eat("if")
        if self.at("let"):
            self.eat("let")
            pats = self.pattern_alts()
            if len(pats) != 1:
                raise Unsupported("or-pattern in if-let")
            self.eat("=")
            scrut = self.expr(nostruct=True)
            then = self.block()
            els = None
            if self.at("else"):
                self.eat("else")
                els = self.if_() if self.at("if") else self.block()
            return ("iflet", pats[0], scrut, then, els)
        cond = self.expr(nostruct=True)
        then = self.block()
        els = None
        if self.at("else"):
            self.eat("else")
            els = self.if_() if self.at("if") else self.block()
        return ("if", cond, then, els)

    # ---------------------------------------------------------------- patterns
    def pattern_alts(self):
        if self.at("|"):
            self.eat("|")
        ps = [self.pattern()]
        while self.at("|"):
            self.eat("|")
            ps.append(self.pattern())
        out = []
        for p_ in ps:
            out += expand_alts(p_)
        return out

    def pattern(self):
        k, v = self.kind(), self.peek()
        if v == "(":
            self.eat("(")
            ps = []
            alts = False
            while not self.at(")"):
                ps.append(self.pattern())
                if self.at(","):
                    self.eat(",")
                elif self.at("|"):
                    self.eat("|")
                    alts = True
            self.eat(")")
            if alts:
                return ("por", ps)
            return ("ptuple", ps)
        if k == "id" and self.peek(1) == "@" and self.kind(1) == "op":
            name = self.next()
            self.eat("@")
            return ("pat", name, self.pattern())
        if k == "int" or (v == "-" and self.kind(1) == "int"):
            neg = False
            if v == "-":
                self.next()
                neg = True
            n = int(re.sub(r"[iu](8|16|32|64|128|size)$", "", self.next()).replace("_", ""))
            return ("pint", -n if neg else n)
        if v == "_":
            self.next()
            return ("pwild",)
        if k == "str":
            return ("pstr", self.next())
        if v in ("mut", "ref"):
            self.next()
            return self.pattern()
        if v == "&":
            self.next()
            return self.pattern()
        if k != "id":
            raise Unsupported("pattern at %r" % v)
        name = self.path()
        if self.at("{"):
            self.eat("{")
            fields = []
            rest = False
            while not self.at("}"):
                if self.at(".."):
                    self.eat("..")
                    rest = True
                    continue
                f = self.next()
                if self.at(":"):
                    self.eat(":")
                    fields.append((f, self.pattern()))
                else:
                    fields.append((f, ("pbind", f)))
                if self.at(","):
                    self.eat(",")
            self.eat("}")
            return ("pstruct", name, fields, rest)
        if self.at("("):
            self.eat("(")
            ps = []
            while not self.at(")"):
                ps.append(self.pattern())
                if self.at(","):
                    self.eat(",")
            self.eat(")")
            return ("pctor", name, ps)
        if "::" in name or name[:1].isupper():
            return ("ppath", name)
        return ("pbind", name)

    # ---------------------------------------------------------------- blocks
    def block(self):
        self.eat("{")
        stmts = []
        tail = None
        while not self.at("}"):
            v = self.peek()
            if tail is not None:
                raise Unsupported("expression followed by statements without `;`")
            if v == ";":
                self.next()
                continue
            if v == "use":
                self.eat("use")
                toks = []
                while not self.at(";"):
                    toks.append(self.next())
                self.eat(";")
                stmts.append(("use", "".join(toks)))
            elif v == "let":
                self.eat("let")
                pats = self.pattern_alts()
                if len(pats) != 1:
                    raise Unsupported("or-pattern in let")
                pat = pats[0]
                mut = self.t[self.i - 2][1] == "mut" if pat[0] == "pbind" else False
                ty = None
                if self.at(":"):
                    self.eat(":")
                    ty = self.ty()
                self.eat("=")
                e = self.expr()
                if self.at("else"):
                    self.eat("else")
                    els = self.block()
                    self.eat(";")
                    stmts.append(("letelse", pat, e, els))
                    continue
                self.eat(";")
                stmts.append(("let", pat, ty, e, mut))
            elif v == "const" and self.kind(1) == "id" and self.peek(2) == ":":
                self.eat("const")
                name = self.next()
                self.eat(":")
                ty = self.ty()
                self.eat("=")
                e = self.expr()
                self.eat(";")
                stmts.append(("const", name, ty, e))
            elif v in ("debug_assert!", "assert!"):
                self.next()
                self.eat("(")
                cond = self.expr()
                while self.at(","):
                    self.eat(",")
                    if not self.at(")"):
                        self.expr()
                self.eat(")")
                if self.at(";"):
                    self.eat(";")
                stmts.append(("assert", cond, v))
            elif v == "while" and not self.at("let"):
                self.eat("while")
                if self.at("let"):
                    raise Unsupported("while let")
                cond = self.expr(nostruct=True)
                body = self.block()
                stmts.append(("while", cond, body))
            elif v == "__forin!":
                self.next()
                self.eat("(")
                var = self.next()
                self.eat(";")
                items = []
                while not self.at(")"):
                    items.append(self.expr())
                    if self.at(","):
                        self.eat(",")
                self.eat(")")
                body = self.block()
                if self.at(";"):
                    self.eat(";")
                stmts.append(("forin", var, items, body))
            else:
                e = self.expr()
                if self.peek() in ("+=", "-=", "*=", "/=", "%=") and self.kind() == "op":
                    op = self.next()
                    rhs = self.expr()
                    self.eat(";")
                    stmts.append(("opassign", e, op[0], rhs))
                elif self.at("="):
                    self.eat("=")
                    rhs = self.expr()
                    self.eat(";")
                    stmts.append(("assign", e, rhs))
                elif self.at(";"):
                    self.eat(";")
                    stmts.append(("expr", e))
                elif self.at("}"):
                    tail = e
                elif e[0] in ("if", "iflet", "match", "block"):
                    stmts.append(("expr", e))
                else:
                    raise Unsupported("statement form near %r" % self.peek())
        self.eat("}")
        return ("block", stmts, tail)


# ------------------------------------------------------------------- local macro_rules!

def expand_local_macros(toks):
    """Token-level treatment of `macro_rules!` definitions inside a function body (`toks` is the
    body's token list including the outer braces).  Two shapes are understood:

      macro_rules! m { ($($x:expr),*) => { $( BODY )* } }        -- a body repeated per argument
          m!(A, B, C);   becomes   __forin!(__mv_x ; A, B, C) { BODY[$x := __mv_x] }
      macro_rules! m { ($a:expr, $b:expr) => { EXPR }; }          -- an expression template
          m!(E1, E2)     becomes   ( EXPR[$a := (E1), $b := (E2)] )

    Anything else raises Unsupported."""
    defs = {}
    out = []
    i = 0
    n = len(toks)

    def balanced(j, open_, close):
        """index just after the group that opens at j"""
        depth = 0
        while j < n:
            v = toks[j][1]
            if toks[j][0] != "str":
                if v == open_:
                    depth += 1
                elif v == close:
                    depth -= 1
                    if depth == 0:
                        return j + 1
            j += 1
        raise Unsupported("unbalanced macro")

    while i < n:
        k, v = toks[i]
        if k == "id" and v == "macro_rules!":
            name = toks[i + 1][1]
            if toks[i + 2][1] != "{":
                raise Unsupported("macro_rules form")
            end = balanced(i + 2, "{", "}")
            inner = toks[i + 3:end - 1]
            # ( PARAMS ) => { BODY } ;?
            if inner[0][1] != "(":
                raise Unsupported("macro_rules matcher")
            # find the matching paren of the matcher
            depth = 0
            j = 0
            while True:
                if inner[j][1] == "(":
                    depth += 1
                elif inner[j][1] == ")":
                    depth -= 1
                    if depth == 0:
                        break
                j += 1
            matcher = inner[1:j]
            rest = inner[j + 1:]
            if rest[0][1] != "=>" or rest[1][1] != "{":
                raise Unsupported("macro_rules arm")
            # body up to the matching brace
            depth = 0
            j = 1
            while True:
                if rest[j][1] == "{" and rest[j][0] != "str":
                    depth += 1
                elif rest[j][1] == "}" and rest[j][0] != "str":
                    depth -= 1
                    if depth == 0:
                        break
                j += 1
            body = rest[2:j]
            after = rest[j + 1:]
            if any(t[1] != ";" for t in after):
                raise Unsupported("macro_rules with several arms")
            mtxt = " ".join(t[1] for t in matcher)
            m = re.match(r"^\$ \( \$ (\w+) : expr \) , \*$", mtxt)
            if m:
                var = m.group(1)
                if not (body[0][1] == "$" and body[1][1] == "(" and body[-1][1] == "*" and body[-2][1] == ")"):
                    raise Unsupported("repetition macro body")
                defs[name] = ("rep", var, body[2:-2])
            else:
                params = re.findall(r"\$ (\w+) : expr", mtxt)
                if not params or re.sub(r"\$ \w+ : expr", "", mtxt).replace(",", "").strip():
                    raise Unsupported("macro matcher %r" % mtxt)
                defs[name] = ("tmpl", params, body)
            i = end
            if i < n and toks[i][1] == ";":
                i += 1
            continue
        if k == "id" and v.endswith("!") and v[:-1] in defs:
            d = defs[v[:-1]]
            if toks[i + 1][1] != "(":
                raise Unsupported("macro invocation form")
            end = balanced(i + 1, "(", ")")
            argtoks = toks[i + 2:end - 1]
            # split on top-level commas
            args = [[]]
            depth = 0
            for t in argtoks:
                if t[0] != "str" and t[1] in "([{":
                    depth += 1
                elif t[0] != "str" and t[1] in ")]}":
                    depth -= 1
                if t[1] == "," and depth == 0 and t[0] != "str":
                    args.append([])
                else:
                    args[-1].append(t)
            if args and not args[-1]:
                args.pop()
            if d[0] == "rep":
                _, var, body = d
                out.append(("id", "__forin!"))
                out.append(("op", "("))
                out.append(("id", "__mv_" + var))
                out.append(("op", ";"))
                for a_i, a in enumerate(args):
                    if a_i:
                        out.append(("op", ","))
                    out += a
                out.append(("op", ")"))
                out.append(("op", "{"))
                j = 0
                while j < len(body):
                    if body[j][1] == "$" and body[j][0] == "op":
                        if body[j + 1][1] != var:
                            raise Unsupported("macro variable")
                        out.append(("id", "__mv_" + var))
                        j += 2
                    else:
                        out.append(body[j])
                        j += 1
                out.append(("op", "}"))
            else:
                _, params, body = d
                if len(args) != len(params):
                    raise Unsupported("macro arity")
                sub = dict(zip(params, args))
                out.append(("op", "("))
                j = 0
                while j < len(body):
                    if body[j][1] == "$" and body[j][0] == "op":
                        out.append(("op", "("))
                        out += sub[body[j + 1][1]]
                        out.append(("op", ")"))
                        j += 2
                    else:
                        out.append(body[j])
                        j += 1
                out.append(("op", ")"))
            i = end
            continue
        out.append(toks[i])
        i += 1
    return out


# ------------------------------------------------------------------- items

def parse_file(src, module):
    """-> dict with
         consts : name -> (type, expr)
         structs: name -> [(field, type)] | ("tuple", [types]) | "unit"
         enums  : name -> [(variant, [(field, type)] | None, discriminant|None)]
         fns    : "Type::name" | "name" -> dict(params, ret, body | error, self)
       All names are qualified with `module` ("" for lib.rs, "inner" for inner.rs)."""
    toks = lex(src)
    p = P(toks)
    q = (module + "::") if module else ""
    res = {"consts": {}, "structs": {}, "enums": {}, "fns": {}, "aliases": {}}
    impl_stack = []      # (type name, brace depth marker)
    impl_suffix = []     # per impl: "" or "::<trait argument>" (impl TryFrom<u32> for Month)
    item_macros = {}     # name -> (var, body tokens) for  ($($t:ty),* $(,)?) => { $( BODY )* }

    def skip_lifetimes():
        """`<'a, 'b>` after a name: skip it and say so; any other generic parameter list is left alone"""
        if not p.at("<"):
            return True
        j = 1
        while p.peek(j) != ">":
            if p.kind(j) != "life" and p.peek(j) != ",":
                return False
            j += 1
        for _ in range(j + 1):
            p.next()
        return True

    def skip_item_block():
        while not p.at("{") and not p.at(";"):
            p.next()
        if p.at("{"):
            p.skip_balanced("{", "}")
        else:
            p.next()

    while p.kind() != "eof":
        v = p.peek()
        k = p.kind()
        if k != "id" and v != "}":
            p.next()
            continue
        if v == "mod":
            # `mod tests { … }` or `mod x;`
            skip_item_block()
        elif v == "type" and p.kind(1) == "id" and p.peek(2) == "=":
            p.next()
            name = p.next()
            p.eat("=")
            t_ = p.ty()
            if not impl_stack:
                res["aliases"][name] = t_
            p.eat(";")
        elif v == "const" and p.kind(1) == "id" and p.peek(2) == ":":
            p.next()
            name = p.next()
            p.eat(":")
            try:
                ty = p.ty()
                p.eat("=")
                e = p.expr()
                p.eat(";")
                owner = impl_stack[-1] + "::" if impl_stack else q
                res["consts"][owner + name] = (ty, e)
            except Unsupported:
                while not p.at(";"):
                    p.next()
                p.next()
        elif v == "struct":
            p.next()
            name = p.next()
            if not skip_lifetimes():
                skip_item_block()
                continue
            if p.at(";"):
                p.next()
                res["structs"][q + name] = "unit"
            elif p.at("("):
                p.eat("(")
                ts = []
                while not p.at(")"):
                    while p.peek() in ("pub",):
                        p.next()
                        if p.at("("):
                            p.skip_balanced("(", ")")
                    ts.append(p.ty())
                    if p.at(","):
                        p.eat(",")
                p.eat(")")
                p.eat(";")
                res["structs"][q + name] = ("tuple", ts)
            else:
                p.eat("{")
                fields = []
                while not p.at("}"):
                    if p.peek() == "pub":
                        p.next()
                        if p.at("("):
                            p.skip_balanced("(", ")")
                    f = p.next()
                    p.eat(":")
                    fields.append((f, p.ty()))
                    if p.at(","):
                        p.eat(",")
                p.eat("}")
                res["structs"][q + name] = fields
        elif v == "enum":
            p.next()
            name = p.next()
            if p.at("<"):
                skip_item_block()
                continue
            p.eat("{")
            variants = []
            ok = True
            while not p.at("}"):
                vn = p.next()
                fields = None
                disc = None
                if p.at("{"):
                    p.eat("{")
                    fields = []
                    while not p.at("}"):
                        f = p.next()
                        p.eat(":")
                        fields.append((f, p.ty()))
                        if p.at(","):
                            p.eat(",")
                    p.eat("}")
                elif p.at("("):
                    p.eat("(")
                    fields = []
                    n_ = 0
                    while not p.at(")"):
                        fields.append((str(n_), p.ty()))
                        n_ += 1
                        if p.at(","):
                            p.eat(",")
                    p.eat(")")
                    fields = ("tuple", fields)
                if p.at("="):
                    p.eat("=")
                    e = p.expr()
                    disc = e[1] if e[0] == "int" else None
                variants.append((vn, fields, disc))
                if p.at(","):
                    p.eat(",")
            p.eat("}")
            res["enums"][q + name] = variants
        elif v == "impl":
            j = 0
            is_trait = False
            while p.peek(j) != "{":
                if p.peek(j) == "for":
                    is_trait = True
                j += 1
            if p.peek(1) == "<" and not is_trait and p.kind(2) == "life" and p.peek(3) == ">":
                # impl<'a> Type<'a> { … }
                for _ in range(4):
                    p.next()
                impl_stack.append(q + p.next())
                impl_suffix.append("")
                skip_lifetimes()
                p.eat("{")
            elif p.peek(1) == "<":
                while not p.at("{"):
                    p.next()
                p.skip_balanced("{", "}")
            elif is_trait:
                # impl Trait for Type { … }: functions are registered under the type
                toks_ = []
                while not p.at("{"):
                    toks_.append(p.next())
                k_ = toks_.index("for")
                tname = "".join(toks_[k_ + 1:])
                head_ = "".join(toks_[1:k_])
                m_ = re.match(r"^[\w:]+(?:<([\w:]+)>)?$", head_)
                if re.match(r"^[\w:]+$", tname) and m_:
                    impl_stack.append(q + tname.split("::")[-1] if "::" not in tname else tname)
                    impl_suffix.append(("::" + m_.group(1)) if m_.group(1) else "")
                    p.eat("{")
                else:
                    p.skip_balanced("{", "}")
            else:
                p.next()
                impl_stack.append(q + p.next())
                impl_suffix.append("")
                p.eat("{")
        elif v == "}" and impl_stack:
            p.next()
            impl_stack.pop()
            impl_suffix.pop()
        elif v == "macro_rules!":
            p.next()
            mname = p.next()
            start_ = p.i
            p.skip_balanced("{", "}")
            body_ = toks[start_ + 1:p.i - 1]
            txt_ = " ".join(t[1] for t in body_[:24])
            m_ = re.match(r"^\( \$ \( \$ (\w+) : ty \) , \* (?:\$ \( , \) \? )?\) => \{ \$ \(", txt_)
            if m_ and body_[-1][1] == "}" and body_[-2][1] == "*" and body_[-3][1] == ")":
                # tokens between `$(` and `)*` of the transcriber
                j_ = 0
                while not (body_[j_][1] == "=>"):
                    j_ += 1
                inner_ = body_[j_ + 4:-3]
                item_macros[mname] = (m_.group(1), inner_)
        elif k == "id" and v.endswith("!") and v[:-1] in item_macros and not impl_stack:
            var_, inner_ = item_macros[v[:-1]]
            p.next()
            open_ = p.next()
            close_ = {"(": ")", "[": "]", "{": "}"}[open_]
            args_ = [[]]
            while not p.at(close_):
                t_ = p.t[p.i]
                p.i += 1
                if t_[1] == ",":
                    args_.append([])
                else:
                    args_[-1].append(t_)
            p.next()
            if p.at(";"):
                p.next()
            expanded = []
            for a_ in args_:
                if not a_:
                    continue
                j_ = 0
                while j_ < len(inner_):
                    if inner_[j_][1] == "$" and inner_[j_][0] == "op" and j_ + 1 < len(inner_) and inner_[j_ + 1][1] == var_:
                        expanded += a_
                        j_ += 2
                    else:
                        expanded.append(inner_[j_])
                        j_ += 1
            p.t[p.i:p.i] = expanded
            toks = p.t
        elif v == "fn":
            p.next()
            name = p.next()
            owner = impl_stack[-1] if impl_stack else None
            key = (owner + "::" + name + impl_suffix[-1]) if owner else (q + name)
            generics = {}
            if p.at("<"):
                # one shape only: `<P: FnMut(T, …) -> R>` (a closure parameter)
                ok_ = (p.kind(1) == "id" and p.peek(2) == ":" and p.peek(3) == "FnMut" and p.peek(4) == "(")
                if ok_:
                    sv_ = p.i
                    try:
                        p.next()
                        gname = p.next()
                        p.eat(":")
                        p.next()
                        p.eat("(")
                        gargs = []
                        while not p.at(")"):
                            gargs.append(p.ty())
                            if p.at(","):
                                p.eat(",")
                        p.eat(")")
                        p.eat("->")
                        gret = p.ty()
                        p.eat(">")
                        generics[gname] = ("fnmut", gargs, gret)
                    except Unsupported:
                        p.i = sv_
                        ok_ = False
                if not ok_:
                    skip_item_block()
                    res["fns"][key] = {"error": "generic function"}
                    continue
            save = p.i
            try:
                p.eat("(")
                params = []
                selfp = None
                while not p.at(")"):
                    if p.at("&") and p.peek(1) == "self":
                        p.next(); p.next()
                        selfp = "ref"
                    elif p.at("&") and p.peek(1) == "mut" and p.peek(2) == "self":
                        p.next(); p.next(); p.next()
                        selfp = "mut"
                    elif p.at("self"):
                        p.next()
                        selfp = "val"
                    elif p.at("mut") and p.peek(1) == "self":
                        raise Unsupported("mut self")
                    else:
                        mut = False
                        if p.at("mut"):
                            p.next()
                            mut = True
                        pat = p.pattern()
                        p.eat(":")
                        params.append((pat, p.ty(), mut))
                    if p.at(","):
                        p.eat(",")
                p.eat(")")
                ret = "unit"
                if p.at("->"):
                    p.eat("->")
                    ret = p.ty()
                if p.at("where"):
                    raise Unsupported("where clause")
                # isolate the body tokens, expand local macros, parse
                start = p.i
                p.skip_balanced("{", "}")
                body_toks = expand_local_macros(toks[start:p.i]) + [("eof", "")]
                bp = P(body_toks)
                body = bp.block()
                res["fns"][key] = {"params": params, "ret": ret, "body": body, "self": selfp, "owner": owner,
                                   "module": module}
                if generics:
                    res["fns"][key]["generics"] = generics
            except Unsupported as ex:
                res["fns"][key] = {"error": str(ex)}
                p.i = save
                skip_item_block()
        elif v in ("trait", "extern", "union"):
            skip_item_block()
        else:
            p.next()
    return res
